/-
C06 — Copies are faithful and independent; derived molecules never alter their sources.

  "Copy-constructing, pickling/unpickling, deep-copying, concatenating or joining produces an object
   equal to its source(s) in every observable field (including partial charges, attributes, parents
   and indices) that shares no mutable state with them: editing atoms, bonds, coordinates, charges or
   attribute dictionaries of the result - by hand or through library routines such as hydrogen
   addition - never changes the source, and vice versa."

Reading.  `Molli.Model.Heap`: every mutable object owned by a molecule (the object itself, attribute
dictionaries and all nested containers, atom list, atoms, bond list, bonds, arrays) has an identity;
`observe` is the deep snapshot without identities (parents seen as "is this molecule", bond ends as
positions = indices); `reach` the set of identities; a mutation addresses an identity and changes
every place holding it.  The routes allocate identities from a counter `n`; `Below n src` says the
source was allocated earlier.  *faithful*: observation of the result = observation of the source
(for concatenate / join: = the function of the sources' observations that the route documents).
*separate*: no identity of the result is an identity of a source.  *independent*: any list of
mutations addressed to objects of one side leaves the other side unchanged — frame lemma + separate,
by induction over the list.  Library routines (del_atom, add_implicit_hydrogens, translate) are
sequences of such mutations of the object they are called on (plus new objects).
Unbounded: any number of atoms, bonds, arrays, attribute containers nested to any depth.
The unrepaired routes are the same functions with a `Flags` bit on; `shipped_*` are their witnesses.
-/
import Molli.Lemmas.Heap
namespace Molli.Props.C06
open Molli.Model.Heap Molli.Lemmas.Heap

/-- the source is a well-formed molecule: its atoms and bonds name it as parent, its bonds join its atoms -/
structure WF (o : MolO) : Prop where
  atomParent : ∀ a ∈ o.atoms, a.parent = some o.id
  bondParent : ∀ b ∈ o.bonds, b.parent = some o.id
  bondEnds : ∀ b ∈ o.bonds, b.a1 ∈ o.atoms.map (·.id) ∧ b.a2 ∈ o.atoms.map (·.id)

/-- every identity of `o` was allocated before the counter reached `n` -/
def Below (n : Nat) (o : MolO) : Prop := ∀ x ∈ o.reach, x < n

theorem atom_id_mem_reach {o : MolO} {x : Nat} (h : x ∈ o.atoms.map (·.id)) : x ∈ o.reach := by
  obtain ⟨a, ha, rfl⟩ := List.mem_map.mp h
  simp only [MolO.reach, List.mem_cons, List.mem_append, List.mem_flatMap]
  exact Or.inr (Or.inl (Or.inl (Or.inr (Or.inr ⟨a, ha, by simp [AtomO.reach]⟩))))

theorem observe_atoms_T {o : MolO} (h : WF o) : (observe o).atoms = o.atoms.map obsAtomT := by
  simp only [observe]
  exact List.map_congr_left (fun a ha => obsAtom_eq_T (h.atomParent a ha))

theorem observe_bonds_T {o : MolO} (h : WF o) :
    (observe o).bonds = o.bonds.map (obsBondT (o.atoms.map (·.id))) := by
  simp only [observe]
  exact List.map_congr_left (fun b hb => obsBond_eq_T (h.bondParent b hb))

/-! ## frame -/

/-- **frame**: a mutation of an object that `o` does not reach leaves `o` — hence its observation — unchanged -/
theorem frame (μ : Mutation) (o : MolO) (h : μ.target ∉ o.reach) : observe (applyMut μ o) = observe o := by
  rw [applyMut_frame μ o h]

/-! ## copy constructor, pickle, deepcopy -/

/-- **faithful**: "produces an object equal to its source in every observable field (including partial
charges, attributes, parents and indices)". -/
theorem deepCopy_faithful {n : Nat} {src : MolO} (hw : WF src) :
    observe (deepCopy repaired n src) = observe src := by
  have hlen : (src.atoms.map (·.id)).length =
      ((copyAtoms repaired n (n + 1 + src.attrib.size + 1) src.atoms).map (·.id)).length := by
    simp [copyAtoms_length]
  have hnd := copyAtoms_ids_nodup repaired n src.atoms (n + 1 + src.attrib.size + 1)
  have hends : ∀ b ∈ src.bonds,
      (b.a1 ∈ src.atoms.map (·.id) ∨ b.a1 ∉ (copyAtoms repaired n (n + 1 + src.attrib.size + 1) src.atoms).map (·.id)) ∧
      (b.a2 ∈ src.atoms.map (·.id) ∨ b.a2 ∉ (copyAtoms repaired n (n + 1 + src.attrib.size + 1) src.atoms).map (·.id)) :=
    fun b hbm => ⟨Or.inl (hw.bondEnds b hbm).1, Or.inl (hw.bondEnds b hbm).2⟩
  have hA := observe_atoms_T hw
  have hB := observe_bonds_T hw
  simp only [observe] at hA hB ⊢
  rw [hA, hB]
  have e1 := obs_copyAtoms n src.atoms (n + 1 + src.attrib.size + 1)
  have e2 := obs_copyBonds n _ _ hlen hnd src.bonds hends
    (n + 1 + src.attrib.size + 1 + atomsSize src.atoms + 1)
  simp only [deepCopy, copyMolAttrib]
  have hf1 : repaired.shallowMolAttrib = false := rfl
  have hf2 : repaired.zeroCharges = false := rfl
  simp only [hf1, hf2, Bool.false_eq_true, if_false]
  rw [e1, e2, copyArrays_data, box_strip_renum]

/-- every identity of the copy is new -/
theorem deepCopy_fresh (n : Nat) (src : MolO) : ∀ x ∈ (deepCopy repaired n src).reach, n ≤ x := by
  intro x hx
  simp only [deepCopy, repaired, copyMolAttrib, Bool.false_eq_true, if_false, MolO.reach, List.mem_cons,
    List.mem_append] at hx
  rcases hx with hx | ((hx | hx | hx) | hx | hx) | hx
  · omega
  · have := box_ids_renum_ge _ _ _ hx; omega
  · omega
  · have := copyAtoms_reach_ge _ _ _ _ hx; omega
  · omega
  · have := copyBonds_reach_ge _ _ _ _ _ _ hx; omega
  · have := copyArrays_ids_ge _ _ _ hx; omega

/-- **separate**: "… that shares no mutable state with them". -/
theorem deepCopy_separate {n : Nat} {src : MolO} (hb : Below n src) :
    ∀ x, x ∈ (deepCopy repaired n src).reach → x ∉ src.reach := by
  intro x hx hs
  have h1 := deepCopy_fresh n src x hx
  have h2 := hb x hs
  omega

/-- **independent** (copy edited): "editing atoms, bonds, coordinates, charges or attribute dictionaries
of the result … never changes the source" — for every list of mutations of objects of the copy. -/
theorem deepCopy_independent_src {n : Nat} {src : MolO} (hb : Below n src) (μs : List Mutation)
    (hμ : ∀ μ ∈ μs, μ.target ∈ (deepCopy repaired n src).reach) :
    applyAll μs src = src ∧ observe (applyAll μs src) = observe src := by
  have := applyAll_frame μs src (fun μ hm => deepCopy_separate hb _ (hμ μ hm))
  exact ⟨this, by rw [this]⟩

/-- **independent** (source edited): "… and vice versa". -/
theorem deepCopy_independent_copy {n : Nat} {src : MolO} (hw : WF src) (hb : Below n src) (μs : List Mutation)
    (hμ : ∀ μ ∈ μs, μ.target ∈ src.reach) :
    applyAll μs (deepCopy repaired n src) = deepCopy repaired n src ∧
    observe (applyAll μs (deepCopy repaired n src)) = observe src := by
  have := applyAll_frame μs (deepCopy repaired n src)
    (fun μ hm hx => deepCopy_separate hb _ hx (hμ μ hm))
  exact ⟨this, by rw [this]; exact deepCopy_faithful hw⟩

/-- The copy of a copy: the statements compose (a copy is again a well-formed source below its own counter). -/
theorem deepCopy_wf {n : Nat} {src : MolO} (hw : WF src) : WF (deepCopy repaired n src) := by
  have hlen : (src.atoms.map (·.id)).length =
      ((copyAtoms repaired n (n + 1 + src.attrib.size + 1) src.atoms).map (·.id)).length := by
    simp [copyAtoms_length]
  refine ⟨?_, ?_, ?_⟩
  · intro a ha
    simp only [deepCopy] at ha ⊢
    have : ∀ (l : List AtomO) (k : Nat) (a : AtomO), a ∈ copyAtoms repaired n k l → a.parent = some n := by
      intro l
      induction l with
      | nil => intro k a h; simp [copyAtoms] at h
      | cons x l ih =>
        intro k a h
        simp only [copyAtoms, List.mem_cons] at h
        rcases h with h | h
        · subst h; simp [copyAtom, repaired]
        · exact ih _ a h
    exact this _ _ a ha
  · intro b hbm
    simp only [deepCopy] at hbm ⊢
    have : ∀ (l : List BondO) (old new : List Nat) (k : Nat) (b : BondO),
        b ∈ copyBonds repaired n old new k l → b.parent = some n := by
      intro l old new
      induction l with
      | nil => intro k b h; simp [copyBonds] at h
      | cons x l ih =>
        intro k b h
        simp only [copyBonds, List.mem_cons] at h
        rcases h with h | h
        · subst h; simp [copyBond, repaired]
        · exact ih _ b h
    exact this _ _ _ _ b hbm
  · intro b hbm
    simp only [deepCopy] at hbm ⊢
    have : ∀ (l : List BondO) (old new : List Nat), old.length = new.length →
        (∀ x ∈ l, x.a1 ∈ old ∧ x.a2 ∈ old) → ∀ (k : Nat) (b : BondO),
        b ∈ copyBonds repaired n old new k l → b.a1 ∈ new ∧ b.a2 ∈ new := by
      intro l old new hl
      have hmem : ∀ x, x ∈ old → mapAtom old new x ∈ new := by
        intro x hx
        unfold mapAtom
        have hlt : old.idxOf x < new.length := hl ▸ List.idxOf_lt_length_of_mem hx
        rw [List.getElem?_eq_getElem hlt, Option.getD_some]
        exact List.getElem_mem hlt
      induction l with
      | nil => intro _ k b h; simp [copyBonds] at h
      | cons x l ih =>
        intro he k b h
        simp only [copyBonds, List.mem_cons] at h
        rcases h with h | h
        · subst h
          have := he x (List.mem_cons_self)
          exact ⟨hmem _ this.1, hmem _ this.2⟩
        · exact ih (fun y hy => he y (List.mem_cons_of_mem _ hy)) _ b h
    exact this _ _ _ hlen hw.bondEnds _ b hbm

/-! ## concatenate -/

def shiftBond (k : Nat) (b : BondObs) : BondObs := { b with e1 := b.e1 + k, e2 := b.e2 + k }

/-- what `concatenate` documents, on observations: atoms and bonds of both sources in order (bond ends of
the second source shifted by the number of atoms of the first), arrays stacked, charge added, multiplicity
`m1 + m2 − 1`, name "unknown", no molecule-level attributes -/
def concatObs (cls : Nat) (o1 o2 : MolObs) : MolObs :=
  { cls := cls,
    scalars := [0, o1.scalars.getD 1 0 + o2.scalars.getD 1 0, o1.scalars.getD 2 0 + o2.scalars.getD 2 0 - 1],
    attrib := .nil,
    atoms := o1.atoms ++ o2.atoms,
    bonds := o1.bonds ++ o2.bonds.map (shiftBond o1.atoms.length),
    arrays := List.zipWith (· ++ ·) o1.arrays o2.arrays }

theorem zipArrays_data (l1 l2 : List Arr) : ∀ n,
    (zipArrays n l1 l2).map (·.data) = List.zipWith (· ++ ·) (l1.map (·.data)) (l2.map (·.data)) := by
  induction l1 generalizing l2 with
  | nil => intro n; cases l2 <;> rfl
  | cons r l ih =>
    intro n
    cases l2 with
    | nil => rfl
    | cons r2 l2 => simp [zipArrays, ih]

theorem zipArrays_ids_ge (l1 l2 : List Arr) : ∀ n x, x ∈ (zipArrays n l1 l2).map (·.id) → n ≤ x := by
  induction l1 generalizing l2 with
  | nil => intro n x h; cases l2 <;> simp [zipArrays] at h
  | cons r l ih =>
    intro n x h
    cases l2 with
    | nil => simp [zipArrays] at h
    | cons r2 l2 =>
      simp only [zipArrays, List.map_cons, List.mem_cons] at h
      rcases h with h | h
      · omega
      · have := ih l2 _ x h; omega

/-- **faithful** for `concatenate(s1, s2)` of well-formed sources (which may be one and the same object):
every atom and bond of the sources is in the result with its fields, attributes, parent and (shifted)
index, coordinates and partial charges are those of the sources. -/
theorem concat_faithful {n cls : Nat} {s1 s2 : MolO} (h1 : WF s1) (h2 : WF s2) :
    observe (concat repaired n cls s1 s2) = concatObs cls (observe s1) (observe s2) := by
  have hl1 : (s1.atoms.map (·.id)).length = ((copyAtoms repaired n (n + 2 + 1) s1.atoms).map (·.id)).length := by
    simp [copyAtoms_length]
  have hl2 : (s2.atoms.map (·.id)).length =
      ((copyAtoms repaired n (n + 2 + 1 + atomsSize s1.atoms) s2.atoms).map (·.id)).length := by
    simp [copyAtoms_length]
  have hnd1 := copyAtoms_ids_nodup repaired n s1.atoms (n + 2 + 1)
  have hnd2 := copyAtoms_ids_nodup repaired n s2.atoms (n + 2 + 1 + atomsSize s1.atoms)
  have hnd : ((copyAtoms repaired n (n + 2 + 1) s1.atoms).map (·.id) ++
      (copyAtoms repaired n (n + 2 + 1 + atomsSize s1.atoms) s2.atoms).map (·.id)).Nodup := by
    refine List.nodup_append.mpr ⟨hnd1, hnd2, ?_⟩
    intro a ha b hb hab
    have := copyAtoms_ids_lt repaired n s1.atoms _ _ ha
    have := copyAtoms_ids_ge repaired n s2.atoms _ _ hb
    omega
  have e1 := obs_copyAtoms n s1.atoms (n + 2 + 1)
  have e1' := obs_copyAtoms n s2.atoms (n + 2 + 1 + atomsSize s1.atoms)
  have e2 := obs_copyBonds n _ _ hl1 hnd1 s1.bonds
    (fun b hb => ⟨Or.inl (h1.bondEnds b hb).1, Or.inl (h1.bondEnds b hb).2⟩)
    (n + 2 + 1 + atomsSize s1.atoms + atomsSize s2.atoms + 1)
  have e3 := obs_copyBonds_shift n _ _ _ hl2 hnd s2.bonds h2.bondEnds
    (n + 2 + 1 + atomsSize s1.atoms + atomsSize s2.atoms + 1 + bondsSize s1.bonds)
  -- bonds of the first source are observed among all atoms as among its own (its atoms come first)
  have e2' : (copyBonds repaired n (s1.atoms.map (·.id)) ((copyAtoms repaired n (n + 2 + 1) s1.atoms).map (·.id))
        (n + 2 + 1 + atomsSize s1.atoms + atomsSize s2.atoms + 1) s1.bonds).map
        (obsBond n ((copyAtoms repaired n (n + 2 + 1) s1.atoms).map (·.id) ++
          (copyAtoms repaired n (n + 2 + 1 + atomsSize s1.atoms) s2.atoms).map (·.id))) =
      s1.bonds.map (obsBondT (s1.atoms.map (·.id))) := by
    have hlen : ∀ (l : List BondO) (k : Nat) (b : BondO),
        b ∈ copyBonds repaired n (s1.atoms.map (·.id)) ((copyAtoms repaired n (n + 2 + 1) s1.atoms).map (·.id)) k l →
        (∀ x ∈ l, x.a1 ∈ s1.atoms.map (·.id) ∧ x.a2 ∈ s1.atoms.map (·.id)) →
        b.a1 ∈ (copyAtoms repaired n (n + 2 + 1) s1.atoms).map (·.id) ∧
        b.a2 ∈ (copyAtoms repaired n (n + 2 + 1) s1.atoms).map (·.id) := by
      intro l
      have hmem : ∀ x, x ∈ s1.atoms.map (·.id) →
          mapAtom (s1.atoms.map (·.id)) ((copyAtoms repaired n (n + 2 + 1) s1.atoms).map (·.id)) x ∈
            (copyAtoms repaired n (n + 2 + 1) s1.atoms).map (·.id) := by
        intro x hx
        unfold mapAtom
        have hlt := hl1 ▸ List.idxOf_lt_length_of_mem hx
        rw [List.getElem?_eq_getElem hlt, Option.getD_some]
        exact List.getElem_mem hlt
      induction l with
      | nil => intro k b h; simp [copyBonds] at h
      | cons x l ih =>
        intro k b h he
        simp only [copyBonds, List.mem_cons] at h
        rcases h with h | h
        · subst h
          have := he x (List.mem_cons_self)
          exact ⟨hmem _ this.1, hmem _ this.2⟩
        · exact ih _ b h (fun y hy => he y (List.mem_cons_of_mem _ hy))
    rw [← e2]
    apply List.map_congr_left
    intro b hb
    have hm := hlen _ _ b hb h1.bondEnds
    simp only [obsBond]
    rw [List.idxOf_append, List.idxOf_append, if_pos hm.1, if_pos hm.2]
  have hA1 := observe_atoms_T h1
  have hA2 := observe_atoms_T h2
  have hB1 := observe_bonds_T h1
  have hB2 := observe_bonds_T h2
  simp only [concatObs, hA1, hA2, hB1, hB2]
  simp only [observe, concat, scalarAt]
  have hf : repaired.zeroCharges = false := rfl
  simp only [hf, Bool.false_eq_true, if_false, List.map_append]
  rw [e1, e1', e2', e3, zipArrays_data]
  simp only [List.length_map, Ents.strip, List.map_map, copyAtoms_length]
  congr 1

theorem concat_fresh (n cls : Nat) (s1 s2 : MolO) : ∀ x ∈ (concat repaired n cls s1 s2).reach, n ≤ x := by
  intro x hx
  simp only [concat, MolO.reach, Box.ids, Ents.ids, List.mem_cons, List.mem_append, List.not_mem_nil, or_false,
    List.flatMap_append] at hx
  have hf : repaired.zeroCharges = false := rfl
  simp only [hf, Bool.false_eq_true, if_false] at hx
  rcases hx with hx | ((hx | hx | hx | hx) | hx | hx | hx) | hx
  · omega
  · omega
  · omega
  · have := copyAtoms_reach_ge _ _ _ _ hx; omega
  · have := copyAtoms_reach_ge _ _ _ _ hx; omega
  · omega
  · have := copyBonds_reach_ge _ _ _ _ _ _ hx; omega
  · have := copyBonds_reach_ge _ _ _ _ _ _ hx; omega
  · have := zipArrays_ids_ge _ _ _ _ hx; omega

/-- **separate** for `concatenate`: the result shares no mutable object with either source. -/
theorem concat_separate {n cls : Nat} {s1 s2 : MolO} (b1 : Below n s1) (b2 : Below n s2) :
    ∀ x, x ∈ (concat repaired n cls s1 s2).reach → x ∉ s1.reach ∧ x ∉ s2.reach := by
  intro x hx
  have h := concat_fresh n cls s1 s2 x hx
  exact ⟨fun hs => by have := b1 x hs; omega, fun hs => by have := b2 x hs; omega⟩

/-- **independent** for `concatenate`: editing the product never changes a source, editing a source never
changes the product. -/
theorem concat_independent {n cls : Nat} {s1 s2 : MolO} (b1 : Below n s1) (b2 : Below n s2) (μs : List Mutation) :
    ((∀ μ ∈ μs, μ.target ∈ (concat repaired n cls s1 s2).reach) → applyAll μs s1 = s1 ∧ applyAll μs s2 = s2) ∧
    ((∀ μ ∈ μs, μ.target ∈ s1.reach ∨ μ.target ∈ s2.reach) →
      applyAll μs (concat repaired n cls s1 s2) = concat repaired n cls s1 s2) := by
  refine ⟨fun h => ⟨?_, ?_⟩, fun h => ?_⟩
  · exact applyAll_frame μs s1 (fun μ hm => (concat_separate b1 b2 _ (h μ hm)).1)
  · exact applyAll_frame μs s2 (fun μ hm => (concat_separate b1 b2 _ (h μ hm)).2)
  · apply applyAll_frame
    intro μ hm hx
    have := concat_separate b1 b2 _ hx
    rcases h μ hm with h' | h'
    · exact this.1 h'
    · exact this.2 h'

/-! ## copy constructors of any class, with keyword overrides -/

/-- what `Cls2(src, **keywords)` documents, on observations: atoms (and bonds, if the target class has bonds) of the
source; name / charge / mult by `keyword or source value`; attributes = the source's merged with the `attrib=`
dictionary; every array of the target class = the keyword if given, else the source's array if the classes are of the
same family, else the default -/
def castObs (cls' : Nat) (ov : Override) (o : MolObs) : MolObs :=
  { cls := cls', scalars := ovScalars ov.scalars o.scalars, attrib := o.attrib.append ov.attrib.strip,
    atoms := o.atoms, bonds := if hasBondsCls cls' then o.bonds else [],
    arrays := (List.range (slotsOf cls')).map (fun j => ovArrayData o.cls cls' ov o.arrays j) }

/-- **faithful** for every copy constructor call `Cls2(src, name=…, charge=…, mult=…, attrib=…, coords=…,
atomic_charges=…, weights=…)`: the result is the source as far as the classes go, with the overrides applied
to the copy. -/
theorem copyAs_faithful {n cls' : Nat} {src : MolO} (hw : WF src) (ov : Override) :
    observe (copyAs repaired n cls' ov src) = castObs cls' ov (observe src) := by
  have h1 : observe (copyAs repaired n cls' ov src) = castObs cls' ov (observe (deepCopy repaired n src)) := by
    simp only [observe, copyAs, castObs, strip_append, List.map_map]
    have hc : (deepCopy repaired n src).cls = src.cls := rfl
    rw [hc]
    cases hasBondsCls cls' <;> simp [Function.comp_def]
  rw [h1, deepCopy_faithful hw]

/-- the identities of such a copy are new, except the containers nested in the `attrib=` dictionary, which are the caller's -/
theorem copyAs_reach (n cls' : Nat) (ov : Override) (src : MolO) :
    ∀ x ∈ (copyAs repaired n cls' ov src).reach, n ≤ x ∨ x ∈ ov.attrib.ids := by
  intro x hx
  have hf1 : repaired.shallowMolAttrib = false := rfl
  have hf2 : repaired.zeroCharges = false := rfl
  simp only [copyAs, deepCopy, copyMolAttrib, hf1, hf2, Bool.false_eq_true, if_false, MolO.reach, Box.ids,
    Box.renum, List.mem_cons, List.mem_append, mem_ids_append] at hx
  rcases hx with hx | (((hx | hx | hx) | hx | hx) | hx | hx) | hx
  · exact Or.inl (by omega)
  · exact Or.inl (by omega)
  · exact Or.inl (by have := ids_renum_ge _ _ _ hx; omega)
  · exact Or.inr hx
  · exact Or.inl (by omega)
  · exact Or.inl (by have := copyAtoms_reach_ge _ _ _ _ hx; omega)
  · exact Or.inl (by omega)
  · split at hx
    · exact Or.inl (by have := copyBonds_reach_ge _ _ _ _ _ _ hx; omega)
    · simp at hx
  · simp only [List.mem_map, List.mem_range] at hx
    obtain ⟨a, ⟨j, _, rfl⟩, rfl⟩ := hx
    exact Or.inl (by simp only; omega)

/-- **separate**: the result shares no mutable object with the source (the `attrib=` dictionary passed by the
caller not being part of the source). -/
theorem copyAs_separate {n cls' : Nat} {src : MolO} (hb : Below n src) (ov : Override)
    (hov : ∀ x ∈ ov.attrib.ids, x ∉ src.reach) :
    ∀ x, x ∈ (copyAs repaired n cls' ov src).reach → x ∉ src.reach := by
  intro x hx hs
  rcases copyAs_reach n cls' ov src x hx with h | h
  · have := hb x hs; omega
  · exact hov x h hs

/-- **independent**, and "never alter their sources": constructing with overrides returns a new object — the source
is not an output of the route — and any list of mutations of one side leaves the other side unchanged. -/
theorem copyAs_independent {n cls' : Nat} {src : MolO} (hb : Below n src) (ov : Override)
    (hov : ∀ x ∈ ov.attrib.ids, x ∉ src.reach) (μs : List Mutation) :
    ((∀ μ ∈ μs, μ.target ∈ (copyAs repaired n cls' ov src).reach) → applyAll μs src = src) ∧
    ((∀ μ ∈ μs, μ.target ∈ src.reach) →
      applyAll μs (copyAs repaired n cls' ov src) = copyAs repaired n cls' ov src) :=
  ⟨fun h => applyAll_frame μs src (fun μ hm => copyAs_separate hb ov hov _ (h μ hm)),
   fun h => applyAll_frame μs _ (fun μ hm hx => copyAs_separate hb ov hov _ hx (h μ hm))⟩

/-! ## concatenate of any number of structures -/

def shiftAll : Nat → List MolObs → List BondObs
  | _, [] => []
  | off, o :: os => o.bonds.map (shiftBond off) ++ shiftAll (off + o.atoms.length) os

/-- what `concatenate(s1, …, sk)` documents, on observations -/
def concatObsN (cls : Nat) (os : List MolObs) : MolObs :=
  { cls := cls,
    scalars := [0, (os.map (fun o => o.scalars.getD 1 0)).sum, (os.map (fun o => o.scalars.getD 2 0)).sum - 1],
    attrib := .nil,
    atoms := os.flatMap (·.atoms),
    bonds := shiftAll 0 os,
    arrays := (List.range (min (slotsOf cls) (minLen (os.map (fun o => o.arrays.length))))).map (fun j =>
      os.flatMap (fun o => (o.arrays[j]?).getD [])) }

theorem concatBondsObs_eq (ss : List MolO) (hw : ∀ s ∈ ss, WF s) : ∀ off,
    concatBondsObs off ss = shiftAll off (ss.map observe) := by
  induction ss with
  | nil => intro off; rfl
  | cons s ss ih =>
    intro off
    simp only [concatBondsObs, List.map_cons, shiftAll]
    rw [ih (fun t ht => hw t (List.mem_cons_of_mem _ ht)), observe_bonds_T (hw s (List.mem_cons_self))]
    simp only [List.map_map, observe, List.length_map]
    congr 1

/-- **faithful** for `concatenate` of any number of well-formed sources, repetitions allowed: every atom and bond of
every operand is in the result, in order, with its fields, attributes, parent and index (bond ends shifted by the
atoms before), arrays stacked. -/
theorem concatN_faithful {n cls : Nat} (ss : List MolO) (hw : ∀ s ∈ ss, WF s) :
    observe (concatN repaired n cls ss) = concatObsN cls (ss.map observe) := by
  have hb := obs_concatBonds n ss (fun s hs => (hw s hs).bondEnds) [] (n + 2 + 1)
    (n + 2 + 1 + totalAtomsSize ss + 1) (by simp) (by simp)
  simp only [List.nil_append, List.length_nil] at hb
  have hf : repaired.zeroCharges = false := rfl
  simp only [observe, concatN, concatObsN, hf, Bool.false_eq_true, if_false, scalarAt]
  rw [hb, concatBondsObs_eq ss hw, obs_concatAtoms]
  simp only [List.map_map, List.flatMap_map, Ents.strip, Function.comp_def, commonSlots, stackData]
  congr 1
  · -- atoms
    have : ∀ (l : List MolO), (∀ s ∈ l, WF s) →
        l.flatMap (fun s => s.atoms.map obsAtomT) = l.flatMap (fun a => (observe a).atoms) := by
      intro l
      induction l with
      | nil => intro _; rfl
      | cons s l ih =>
        intro h
        simp only [List.flatMap_cons]
        rw [ih (fun t ht => h t (List.mem_cons_of_mem _ ht)), observe_atoms_T (h s (List.mem_cons_self))]
    exact this ss hw
  · -- arrays
    have h1 : ∀ (s : MolO) (j : Nat), (observe s).arrays[j]?.getD [] = ((s.arrays[j]?).map (·.data)).getD [] := by
      intro s j; simp [observe, List.getElem?_map]
    have h2 : ∀ (s : MolO), (observe s).arrays.length = s.arrays.length := by
      intro s; simp [observe]
    simp only [h1, h2]

theorem concatN_fresh (n cls : Nat) (ss : List MolO) : ∀ x ∈ (concatN repaired n cls ss).reach, n ≤ x := by
  intro x hx
  have hf : repaired.zeroCharges = false := rfl
  simp only [concatN, hf, Bool.false_eq_true, if_false, MolO.reach, Box.ids, Ents.ids, List.mem_cons, List.mem_append,
    List.not_mem_nil, or_false] at hx
  rcases hx with hx | ((hx | hx | hx) | hx | hx) | hx
  · omega
  · omega
  · omega
  · have := concatAtoms_reach_ge _ _ _ _ hx; omega
  · omega
  · have := concatBonds_reach_ge _ _ _ _ _ hx; omega
  · simp only [List.mem_map, List.mem_range] at hx
    obtain ⟨a, ⟨j, _, rfl⟩, rfl⟩ := hx
    simp only; omega

/-- **separate** for `concatenate` of any number of operands: the product shares no mutable object with any of them. -/
theorem concatN_separate {n cls : Nat} {ss : List MolO} (hb : ∀ s ∈ ss, Below n s) :
    ∀ x, x ∈ (concatN repaired n cls ss).reach → ∀ s ∈ ss, x ∉ s.reach := by
  intro x hx s hs hm
  have := concatN_fresh n cls ss x hx
  have := hb s hs x hm
  omega

/-- **independent** for `concatenate` of any number of operands. -/
theorem concatN_independent {n cls : Nat} {ss : List MolO} (hb : ∀ s ∈ ss, Below n s) (μs : List Mutation) :
    ((∀ μ ∈ μs, μ.target ∈ (concatN repaired n cls ss).reach) → ∀ s ∈ ss, applyAll μs s = s) ∧
    ((∀ μ ∈ μs, ∃ s ∈ ss, μ.target ∈ s.reach) →
      applyAll μs (concatN repaired n cls ss) = concatN repaired n cls ss) := by
  refine ⟨fun h s hs => ?_, fun h => ?_⟩
  · exact applyAll_frame μs s (fun μ hm => concatN_separate hb _ (h μ hm) s hs)
  · apply applyAll_frame
    intro μ hm hx
    obtain ⟨s, hs, ht⟩ := h μ hm
    exact concatN_separate hb _ hx s hs ht

/-! ## sources whose atoms have no live owner

`atom.parent` is a weak reference, so the atoms (and bonds) of a perfectly usable source may name nobody: a temporary
object built on the same atoms took the link and died, or the source is the shallow copy of an object that was dropped.
`WF` above asks that atoms and bonds name the source; the statements below drop that: the routes never read the parent of a
source atom (`deepCopy_reparent`, `concatN_reparent`), so the result is the one of the well-formed twin `reparent src`, and it
observes as the source does except that the result OWNS its atoms and bonds (`ownedObs`).  *separate* and *independent* never
needed `WF` (only `Below`), so they hold for such sources as they stand: in particular the result never holds an atom object
of the source. -/

/-- the observation with every atom and bond naming the observed object as parent -/
def ownedObs (o : MolObs) : MolObs :=
  { o with atoms := o.atoms.map (fun a => { a with parentOk := true }),
           bonds := o.bonds.map (fun b => { b with parentOk := true }) }

theorem observe_reparent (o : MolO) : observe (reparent o) = ownedObs (observe o) := by
  have hid : (o.atoms.map (ownAtom o.id)).map (·.id) = o.atoms.map (·.id) := ids_ownAtoms _ _
  simp only [observe, reparent, ownedObs, hid, List.map_map]
  congr 1
  · apply List.map_congr_left; intro a _; simp [obsAtom, ownAtom]
  · apply List.map_congr_left; intro b _; simp [obsBond, ownBond]

theorem wf_reparent {o : MolO} (he : ∀ b ∈ o.bonds, b.a1 ∈ o.atoms.map (·.id) ∧ b.a2 ∈ o.atoms.map (·.id)) :
    WF (reparent o) := by
  refine ⟨?_, ?_, ?_⟩
  · intro a ha
    obtain ⟨a', _, rfl⟩ := List.mem_map.mp ha
    rfl
  · intro b hb
    obtain ⟨b', _, rfl⟩ := List.mem_map.mp hb
    rfl
  · intro b hb
    obtain ⟨b', hb', rfl⟩ := List.mem_map.mp hb
    have := he b' hb'
    simp only [reparent, ids_ownAtoms]
    exact this

/-- **faithful**, source atoms possibly ownerless: the copy equals the source in every observable field, and owns its atoms. -/
theorem deepCopy_faithful_ownerless {n : Nat} {src : MolO}
    (he : ∀ b ∈ src.bonds, b.a1 ∈ src.atoms.map (·.id) ∧ b.a2 ∈ src.atoms.map (·.id)) :
    observe (deepCopy repaired n src) = ownedObs (observe src) := by
  rw [← deepCopy_reparent, deepCopy_faithful (wf_reparent he), observe_reparent]

/-- the same for every copy constructor call with overrides, across classes -/
theorem copyAs_faithful_ownerless {n cls' : Nat} {src : MolO} (ov : Override)
    (he : ∀ b ∈ src.bonds, b.a1 ∈ src.atoms.map (·.id) ∧ b.a2 ∈ src.atoms.map (·.id)) :
    observe (copyAs repaired n cls' ov src) = castObs cls' ov (ownedObs (observe src)) := by
  have h : copyAs repaired n cls' ov (reparent src) = copyAs repaired n cls' ov src := by
    have hm : molSize (reparent src) = molSize src := by
      simp only [molSize, reparent, atomsSize_own, bondsSize_own]
    have hc : (reparent src).cls = src.cls := rfl
    simp only [copyAs, deepCopy_reparent, hm, hc]
  rw [← h, copyAs_faithful (wf_reparent he), observe_reparent]

/-- … and for `concatenate` of any number of operands, any of which may have ownerless atoms. -/
theorem concatN_faithful_ownerless {n cls : Nat} (ss : List MolO)
    (he : ∀ s ∈ ss, ∀ b ∈ s.bonds, b.a1 ∈ s.atoms.map (·.id) ∧ b.a2 ∈ s.atoms.map (·.id)) :
    observe (concatN repaired n cls ss) = concatObsN cls (ss.map (fun s => ownedObs (observe s))) := by
  rw [← concatN_reparent, concatN_faithful (ss.map reparent) (by
    intro s hs
    obtain ⟨s', hs', rfl⟩ := List.mem_map.mp hs
    exact wf_reparent (he s' hs'))]
  simp only [List.map_map, Function.comp_def, observe_reparent]

/-! ## join -/

theorem map_eraseIdx' {α β} (f : α → β) : ∀ (l : List α) (i : Nat), (l.eraseIdx i).map f = (l.map f).eraseIdx i
  | [], _ => rfl
  | _ :: _, 0 => rfl
  | a :: l, i + 1 => by simp [List.eraseIdx, map_eraseIdx' f l i]

theorem join_fresh (n cls : Nat) (s1 s2 : MolO) (i1 i2 : Nat) (sc bf co : List Int) :
    ∀ x ∈ (join repaired n cls s1 s2 i1 i2 sc bf co).reach, n ≤ x := by
  intro x hx
  simp only [join, MolO.reach, Box.ids, Ents.ids, List.mem_cons, List.mem_append, List.not_mem_nil, or_false,
    List.flatMap_append, List.flatMap_cons, List.flatMap_nil, BondO.reach, List.map_cons, List.append_nil] at hx
  rcases hx with hx | ((hx | hx | hx) | hx | hx | hx | hx) | hx | hx
  · omega
  · omega
  · omega
  · have := copyAtoms_reach_ge _ _ _ _ hx; omega
  · omega
  · have := copyBonds_reach_ge _ _ _ _ _ _ hx; omega
  · omega
  · omega
  · omega
  · split at hx
    · simp only [List.map_cons, List.map_nil, List.mem_cons, List.not_mem_nil, or_false] at hx; omega
    · simp at hx

/-- **separate** for `join`: the product shares no mutable object with either fragment. -/
theorem join_separate {n cls : Nat} {s1 s2 : MolO} (b1 : Below n s1) (b2 : Below n s2) (i1 i2 : Nat)
    (sc bf co : List Int) :
    ∀ x, x ∈ (join repaired n cls s1 s2 i1 i2 sc bf co).reach → x ∉ s1.reach ∧ x ∉ s2.reach := by
  intro x hx
  have h := join_fresh n cls s1 s2 i1 i2 sc bf co x hx
  exact ⟨fun hs => by have := b1 x hs; omega, fun hs => by have := b2 x hs; omega⟩

/-- **independent** for `join`: "derived molecules never alter their sources", and vice versa. -/
theorem join_independent {n cls : Nat} {s1 s2 : MolO} (b1 : Below n s1) (b2 : Below n s2) (i1 i2 : Nat)
    (sc bf co : List Int) (μs : List Mutation) :
    ((∀ μ ∈ μs, μ.target ∈ (join repaired n cls s1 s2 i1 i2 sc bf co).reach) →
      applyAll μs s1 = s1 ∧ applyAll μs s2 = s2) ∧
    ((∀ μ ∈ μs, μ.target ∈ s1.reach ∨ μ.target ∈ s2.reach) →
      applyAll μs (join repaired n cls s1 s2 i1 i2 sc bf co) = join repaired n cls s1 s2 i1 i2 sc bf co) := by
  refine ⟨fun h => ⟨?_, ?_⟩, fun h => ?_⟩
  · exact applyAll_frame μs s1 (fun μ hm => (join_separate b1 b2 i1 i2 sc bf co _ (h μ hm)).1)
  · exact applyAll_frame μs s2 (fun μ hm => (join_separate b1 b2 i1 i2 sc bf co _ (h μ hm)).2)
  · apply applyAll_frame
    intro μ hm hx
    have := join_separate b1 b2 i1 i2 sc bf co _ hx
    rcases h μ hm with h' | h'
    · exact this.1 h'
    · exact this.2 h'

/-- **faithful** for `join`, atoms: the product has exactly the atoms of the fragments except the two
attachment points, in order, each with its fields, its attributes, the product as parent (and hence its
position as index). -/
theorem join_atoms_faithful {n cls : Nat} {s1 s2 : MolO} (h1 : WF s1) (h2 : WF s2) (i1 i2 : Nat)
    (sc bf co : List Int) :
    (observe (join repaired n cls s1 s2 i1 i2 sc bf co)).atoms =
      (observe s1).atoms.eraseIdx i1 ++ (observe s2).atoms.eraseIdx i2 := by
  rw [observe_atoms_T h1, observe_atoms_T h2]
  simp only [observe, join]
  rw [obs_copyAtoms, List.map_append, map_eraseIdx', map_eraseIdx']

/-- **faithful** for `join`, partial charges (repair D13): those of the atoms that remain. -/
theorem join_charges_faithful {n cls : Nat} {s1 s2 : MolO} (i1 i2 : Nat) (sc bf co : List Int) (q1 q2 : Arr)
    (hq1 : s1.arrays[chargeSlot]? = some q1) (hq2 : s2.arrays[chargeSlot]? = some q2) :
    (observe (join repaired n cls s1 s2 i1 i2 sc bf co)).arrays = [co, dropAt i1 q1 1 ++ dropAt i2 q2 1] := by
  simp only [observe, join, hq1, hq2]
  rfl

/-- **faithful** for `join`, bonds (partial: everything but the positions of the ends): the bonds of the
fragments that do not touch an attachment point, with their fields, attributes and the product as parent,
followed by the new bond. -/
theorem join_bonds_partial {n cls : Nat} {s1 s2 : MolO} (i1 i2 : Nat) (sc bf co : List Int) :
    (observe (join repaired n cls s1 s2 i1 i2 sc bf co)).bonds.map (fun b => (b.fields, b.attrib, b.parentOk)) =
      ((s1.bonds.filter (fun b => !touches (((s1.atoms[i1]?).map (·.id)).getD 0) b) ++
        s2.bonds.filter (fun b => !touches (((s2.atoms[i2]?).map (·.id)).getD 0) b)).map
          (fun b => (b.fields, b.attrib.ents.strip, true))) ++ [(bf, Ents.nil, true)] := by
  have key : ∀ (l : List BondO) (root : Nat) (old new ids : List Nat) (k : Nat),
      ((copyBonds repaired root old new k l).map (obsBond root ids)).map (fun b => (b.fields, b.attrib, b.parentOk)) =
        l.map (fun b => (b.fields, b.attrib.ents.strip, true)) := by
    intro l root old new ids
    induction l with
    | nil => intro k; rfl
    | cons b l ih =>
      intro k
      simp only [copyBonds, List.map_cons, ih]
      congr 1
      simp [obsBond, copyBond, repaired, box_strip_renum]
  simp only [observe, join, List.map_append, List.map_cons, List.map_nil]
  rw [key]
  simp [obsBond, Ents.strip]

/-- the atom objects of the fragments that remain in the product, in order -/
def remaining (s1 s2 : MolO) (i1 i2 : Nat) : List Nat :=
  (s1.atoms.eraseIdx i1 ++ s2.atoms.eraseIdx i2).map (·.id)

/-- **faithful** for `join`, bonds: the product has the bonds of the fragments that do not touch an
attachment point, each joining the copies of the atoms it joined (end positions = positions of those
atoms among the remaining atoms), with its fields, attributes and the product as parent; then the new
bond between the atoms the attachment points were bonded to. -/
theorem join_bonds_faithful {n cls : Nat} {s1 s2 : MolO} (h1 : WF s1) (h2 : WF s2) (b1 : Below n s1) (b2 : Below n s2)
    (i1 i2 : Nat) (sc bf co : List Int) :
    (observe (join repaired n cls s1 s2 i1 i2 sc bf co)).bonds =
      (s1.bonds.filter (fun b => !touches (((s1.atoms[i1]?).map (·.id)).getD 0) b) ++
        s2.bonds.filter (fun b => !touches (((s2.atoms[i2]?).map (·.id)).getD 0) b)).map
          (obsBondT (remaining s1 s2 i1 i2)) ++
      [{ e1 := (remaining s1 s2 i1 i2).idxOf ((partner s1.bonds (((s1.atoms[i1]?).map (·.id)).getD 0)).getD 0),
         e2 := (remaining s1 s2 i1 i2).idxOf ((partner s2.bonds (((s2.atoms[i2]?).map (·.id)).getD 0)).getD 0),
         fields := bf, attrib := .nil, parentOk := true }] := by
  have hl : (remaining s1 s2 i1 i2).length =
      ((copyAtoms repaired n (n + 2 + 1) (s1.atoms.eraseIdx i1 ++ s2.atoms.eraseIdx i2)).map (·.id)).length := by
    simp [remaining, copyAtoms_length]
  have hnd := copyAtoms_ids_nodup repaired n (s1.atoms.eraseIdx i1 ++ s2.atoms.eraseIdx i2) (n + 2 + 1)
  -- every identity below the counter is not one of the new atoms
  have hnew : ∀ x, x < n + 3 →
      x ∉ (copyAtoms repaired n (n + 2 + 1) (s1.atoms.eraseIdx i1 ++ s2.atoms.eraseIdx i2)).map (·.id) := by
    intro x hx hm
    have := copyAtoms_ids_ge repaired n _ _ _ hm
    omega
  have hend1 : ∀ b ∈ s1.bonds, b.a1 < n ∧ b.a2 < n := fun b hb =>
    ⟨b1 _ (atom_id_mem_reach (h1.bondEnds b hb).1), b1 _ (atom_id_mem_reach (h1.bondEnds b hb).2)⟩
  have hend2 : ∀ b ∈ s2.bonds, b.a1 < n ∧ b.a2 < n := fun b hb =>
    ⟨b2 _ (atom_id_mem_reach (h2.bondEnds b hb).1), b2 _ (atom_id_mem_reach (h2.bondEnds b hb).2)⟩
  have hends : ∀ b ∈ s1.bonds.filter (fun b => !touches (((s1.atoms[i1]?).map (·.id)).getD 0) b) ++
        s2.bonds.filter (fun b => !touches (((s2.atoms[i2]?).map (·.id)).getD 0) b),
      (b.a1 ∈ remaining s1 s2 i1 i2 ∨
        b.a1 ∉ (copyAtoms repaired n (n + 2 + 1) (s1.atoms.eraseIdx i1 ++ s2.atoms.eraseIdx i2)).map (·.id)) ∧
      (b.a2 ∈ remaining s1 s2 i1 i2 ∨
        b.a2 ∉ (copyAtoms repaired n (n + 2 + 1) (s1.atoms.eraseIdx i1 ++ s2.atoms.eraseIdx i2)).map (·.id)) := by
    intro b hb
    rcases List.mem_append.mp hb with hb | hb
    · have := hend1 b (List.mem_filter.mp hb).1
      exact ⟨Or.inr (hnew _ (by omega)), Or.inr (hnew _ (by omega))⟩
    · have := hend2 b (List.mem_filter.mp hb).1
      exact ⟨Or.inr (hnew _ (by omega)), Or.inr (hnew _ (by omega))⟩
  -- the partners of the attachment points are bond ends (or the default 0): below the counter as well
  have hpart : ∀ (s : MolO) (x : Nat), (∀ b ∈ s.bonds, b.a1 < n ∧ b.a2 < n) → (partner s.bonds x).getD 0 < n + 3 := by
    intro s x hb
    unfold partner
    cases hf : s.bonds.find? (touches x) with
    | none => simp
    | some b =>
      have := hb b (List.mem_of_find?_eq_some hf)
      simp only [Option.map_some, Option.getD_some]
      split <;> omega
  have e := obs_copyBonds n _ _ hl hnd _ hends
    (n + 2 + 1 + atomsSize (s1.atoms.eraseIdx i1 ++ s2.atoms.eraseIdx i2) + 1)
  have k1 := idxOf_mapAtom hl hnd _ (Or.inr (hnew _ (hpart s1 (((s1.atoms[i1]?).map (·.id)).getD 0) hend1)))
  have k2 := idxOf_mapAtom hl hnd _ (Or.inr (hnew _ (hpart s2 (((s2.atoms[i2]?).map (·.id)).getD 0) hend2)))
  simp only [observe, join]
  unfold remaining at e k1 k2 ⊢
  rw [List.map_append, e]
  simp only [List.map_cons, List.map_nil, obsBond, k1, k2, Ents.strip]
  simp

/-! ## non-vacuity -/

/-- a 3-atom molecule (Molecule: coordinates and charges) with nested attribute containers on the molecule,
on an atom and on a bond; identities 0 … 16 -/
def demo : MolO :=
  { id := 0, cls := 5, scalars := [7, 1, 2],
    attrib := { id := 1, ents := .scalar 1 5 (.cont 2 0 2 (.scalar 3 4 (.cont 4 1 3 (.scalar 0 9 .nil) .nil)) .nil) },
    atomsId := 4,
    atoms := [{ id := 5, fields := [6, 0], attrib := { id := 6, ents := .cont 1 1 7 (.scalar 0 1 .nil) .nil }, parent := some 0 },
              { id := 8, fields := [8, 0], attrib := { id := 9, ents := .nil }, parent := some 0 },
              { id := 10, fields := [0, 3], attrib := { id := 11, ents := .nil }, parent := some 0 }],
    bondsId := 12,
    bonds := [{ id := 13, a1 := 5, a2 := 8, fields := [1], attrib := { id := 14, ents := .scalar 5 5 .nil }, parent := some 0 },
              { id := 15, a1 := 8, a2 := 10, fields := [2], attrib := { id := 16, ents := .nil }, parent := some 0 }],
    arrays := [{ id := 17, data := [1, 2, 3, 4, 5, 6, 7, 8, 9] }, { id := 18, data := [11, 12, 13] }] }

theorem demo_wf : WF demo := by
  refine ⟨?_, ?_, ?_⟩ <;> decide

theorem demo_below : Below 19 demo := by unfold Below; decide

example : observe (deepCopy repaired 19 demo) = observe demo := deepCopy_faithful demo_wf
example : sharedIds (deepCopy repaired 19 demo) demo = [] := by decide
example : observe (concat repaired 19 5 demo demo) = concatObs 5 (observe demo) (observe demo) :=
  concat_faithful demo_wf demo_wf
example : (observe (concat repaired 19 5 demo demo)).bonds.map (fun b => (b.e1, b.e2)) = [(0, 1), (1, 2), (3, 4), (4, 5)] := by
  decide
example : (observe (join repaired 40 5 demo (deepCopy repaired 19 demo) 2 2 [0, 2, 3] [1]
    [0, 0, 0, 0, 0, 0, 0, 0, 0, 0, 0, 0])).bonds.map (fun b => (b.e1, b.e2)) = [(0, 1), (2, 3), (1, 3)] := by decide

/-- three operands, one of them twice: the bonds of every block join atoms of that block -/
example : (observe (concatN repaired 40 5 [demo, deepCopy repaired 19 demo, demo])).bonds.map (fun b => (b.e1, b.e2)) =
    [(0, 1), (1, 2), (3, 4), (4, 5), (6, 7), (7, 8)] := by decide
example : sharedIds (concatN repaired 40 5 [demo, deepCopy repaired 19 demo, demo]) demo = [] := by decide
/-- the keywords of `Molecule(demo, charge=0, mult=3, coords=…)` -/
def demoOv : Override where
  scalars := [none, some 0, some 3]
  attrib := .nil
  arrays := [some [9, 9, 9, 9, 9, 9, 9, 9, 9], none]
  fills := [[], []]

/-- charge kept (`0 or 1`), mult and coordinates replaced, charges and atoms carried over -/
example : (observe (copyAs repaired 19 5 demoOv demo)).scalars = [7, 1, 3] ∧
    (observe (copyAs repaired 19 5 demoOv demo)).arrays = [[9, 9, 9, 9, 9, 9, 9, 9, 9], [11, 12, 13]] ∧
    (observe (copyAs repaired 19 5 demoOv demo)).atoms = (observe demo).atoms := by decide
/-- `Promolecule(demo)`: atoms only; `ConformerEnsemble(demo)`: bonds kept, arrays are the defaults -/
example : (observe (copyAs repaired 19 1 noOverride demo)).bonds = [] ∧
    (observe (copyAs repaired 19 1 noOverride demo)).arrays = [] := by decide
example : (observe (copyAs repaired 19 6 { noOverride with fills := [[0, 0], [5], [1]] } demo)).arrays = [[0, 0], [5], [1]] ∧
    (observe (copyAs repaired 19 6 noOverride demo)).bonds = (observe demo).bonds := by decide

/-- a multigraph: two bonds between atoms 5 and 8 (opposite orientations, different fields), a bond from atom 10 to
itself, atom 20 without bonds, and an attachment atom 30 bonded once.  The theorems above assume nothing about the bond
graph being simple; these instances show the routes on such a source. -/
def multi : MolO :=
  { id := 0, cls := 4, scalars := [0, 0, 1], attrib := { id := 1, ents := .nil }, atomsId := 2,
    atoms := [{ id := 5, fields := [6], attrib := { id := 6, ents := .nil }, parent := some 0 },
              { id := 8, fields := [6], attrib := { id := 9, ents := .nil }, parent := some 0 },
              { id := 10, fields := [8], attrib := { id := 11, ents := .nil }, parent := some 0 },
              { id := 20, fields := [1], attrib := { id := 21, ents := .nil }, parent := some 0 },
              { id := 30, fields := [0], attrib := { id := 31, ents := .nil }, parent := some 0 }],
    bondsId := 3,
    bonds := [{ id := 40, a1 := 5, a2 := 8, fields := [1], attrib := { id := 41, ents := .nil }, parent := some 0 },
              { id := 42, a1 := 8, a2 := 5, fields := [2], attrib := { id := 43, ents := .scalar 1 1 .nil }, parent := some 0 },
              { id := 44, a1 := 10, a2 := 10, fields := [3], attrib := { id := 45, ents := .nil }, parent := some 0 },
              { id := 46, a1 := 8, a2 := 30, fields := [1], attrib := { id := 47, ents := .nil }, parent := some 0 }],
    arrays := [{ id := 50, data := [1, 2, 3, 4, 5, 6, 7, 8, 9, 10, 11, 12, 13, 14, 15] }] }

theorem multi_wf : WF multi := by refine ⟨?_, ?_, ?_⟩ <;> decide

example : observe (deepCopy repaired 60 multi) = observe multi := deepCopy_faithful multi_wf
example : (observe (concatN repaired 200 4 [multi, deepCopy repaired 60 multi])).bonds.map (fun b => (b.e1, b.e2, b.fields)) =
    [(0, 1, [1]), (1, 0, [2]), (2, 2, [3]), (1, 4, [1]), (5, 6, [1]), (6, 5, [2]), (7, 7, [3]), (6, 9, [1])] := by decide
/-- join at the attachment atoms (position 4 in both): both parallel bonds and the self bond of each fragment survive -/
example : (observe (join repaired 200 4 multi (deepCopy repaired 60 multi) 4 4 [0, 0, 1] [1]
    [0, 0, 0, 0, 0, 0, 0, 0, 0, 0, 0, 0, 0, 0, 0, 0, 0, 0, 0, 0, 0, 0, 0, 0])).bonds.map (fun b => (b.e1, b.e2, b.fields)) =
    [(0, 1, [1]), (1, 0, [2]), (2, 2, [3]), (4, 5, [1]), (5, 4, [2]), (6, 6, [3]), (1, 5, [1])] := by decide

/-- a mutation of the copy's nested attribute container changes the copy and not the source -/
example :
    let c := deepCopy repaired 19 demo
    let μ : Mutation := { target := 21, kind := .setKey 9 9 }
    observe (applyMut μ c) ≠ observe c ∧ applyMut μ demo = demo := by decide

/-! ## ownerless sources: join, instances -/

/-- `join`: the atoms of the product are those of the fragments except the attachment atoms, owned by the product,
whoever the fragments' atoms named as parent. -/
theorem join_atoms_faithful_ownerless {n cls : Nat} {s1 s2 : MolO} (i1 i2 : Nat) (sc bf co : List Int) :
    (observe (join repaired n cls s1 s2 i1 i2 sc bf co)).atoms =
      (ownedObs (observe s1)).atoms.eraseIdx i1 ++ (ownedObs (observe s2)).atoms.eraseIdx i2 := by
  have e : ∀ (s : MolO), (ownedObs (observe s)).atoms = s.atoms.map obsAtomT := by
    intro s; simp [ownedObs, observe, obsAtom, obsAtomT, List.map_map, Function.comp_def]
  rw [e, e]
  simp only [observe, join]
  rw [obs_copyAtoms, List.map_append, map_eraseIdx', map_eraseIdx']

/-- an ownerless source (every atom and bond names nobody): the copy is faithful up to ownership, shares nothing -/
def orphan : MolO :=
  { demo with atoms := demo.atoms.map (fun a => { a with parent := none }),
              bonds := demo.bonds.map (fun b => { b with parent := none }) }

example : observe (deepCopy repaired 19 orphan) = ownedObs (observe orphan) :=
  deepCopy_faithful_ownerless (by decide)
example : observe (deepCopy repaired 19 orphan) = observe demo := by decide
example : sharedIds (concatN repaired 19 5 [orphan, orphan]) orphan = [] := by decide

/-! ## the unrepaired routes (flags on): the witnesses the check finds on the unrepaired tree -/

/-- D10: with the shallow `evolve` the copy's atoms hold the source's attribute dictionaries … -/
theorem shipped_evolve_shares_attrib :
    6 ∈ sharedIds (deepCopy { repaired with shareAttrib := true } 19 demo) demo := by decide

/-- … so that editing the copy's atom attributes edits the source. -/
theorem shipped_evolve_not_independent :
    let c := deepCopy { repaired with shareAttrib := true } 19 demo
    ∃ μ : Mutation, μ.target ∈ c.reach ∧ observe (applyMut μ demo) ≠ observe demo :=
  ⟨{ target := 6, kind := .setKey 9 9 }, by decide, by decide⟩

/-- D14: with `attrib.copy()` the nested containers of the molecule's attributes are shared. -/
theorem shipped_shallow_attrib_shares_nested :
    sharedIds (deepCopy { repaired with shallowMolAttrib := true } 19 demo) demo = [2, 3] := by decide

/-- D11 / D13: with the charges dropped the copy is not faithful. -/
theorem shipped_zero_charges_not_faithful :
    observe (deepCopy { repaired with zeroCharges := true } 19 demo) ≠ observe demo := by decide

/-- D12: without restoring `_parent` the unpickled object is not faithful (parents and indices are lost). -/
theorem shipped_drop_parent_not_faithful :
    observe (deepCopy { repaired with dropParent := true } 19 demo) ≠ observe demo := by decide

end Molli.Props.C06
