/-
C07 — mol2 written by molli reads back as the same molecule.

  "Writing any Molecule, Structure or ConformerEnsemble as mol2 and reading the text back preserves the
   name, the atom order, every element, every non-empty label, coordinates to the written precision
   (1e-6), partial charges to the written precision (1e-3), the bond list with endpoints and every bond
   type mol2 can express, and the conformer count and order. Every atom-type and bond-type token molli
   can emit is accepted by its own reader, and a second write/read cycle changes nothing further (the
   written text is a fixed point)."

Typing part: the quantifier is the finite table generated from the live classes
(`Molli.Gen.Mol2Types.table`, all Element × AtomType × AtomGeom states, all BondType members); the
`decide +kernel` obligations of the generated module are lifted here to `∀` statements over every state
in range and connected to token TEXT through the hand-written model of `Atom.set_mol2_type`.
-/
import Molli.Lemmas.Mol2Types
import Molli.Gen.Mol2Types
namespace Molli.Props.C07
open Molli.Model.Text Molli.Model.Mol2Types Molli.Lemmas.Mol2Types
open Molli.Gen.Mol2Types (table bonds)

/-- "Every atom-type … token molli can emit is accepted by its own reader": for every element, atom
type and geometry, the text `get_mol2_type()` produces is accepted by `set_mol2_type` on a fresh atom,
and the state read back is again a valid (element, type, geometry) triple. -/
theorem every_emitted_type_token_accepted (s : St) (hs : InRange table s) :
    ∃ s', table.acceptStr (table.emitStr s) = some s' ∧ InRange table s' := by
  rw [acceptStr_emitStr, setModelAgrees_spec table Molli.Gen.Mol2Types.set_model_agrees s hs]
  exact everyAccepted_spec table Molli.Gen.Mol2Types.every_emitted_token_accepted s hs

/-- "preserves … every element": the element read back from the written type token is the element written. -/
theorem element_preserved (s s' : St) (hs : InRange table s)
    (h : table.acceptStr (table.emitStr s) = some s') : s'.e = s.e := by
  rw [acceptStr_emitStr, setModelAgrees_spec table Molli.Gen.Mol2Types.set_model_agrees s hs] at h
  exact elementPreserved_spec table Molli.Gen.Mol2Types.element_preserved s hs s' h

/-- one write/read cycle of an atom's typing state through TEXT -/
def typeCycle (s : St) : Option St := table.acceptStr (table.emitStr s)

/-- "a second write/read cycle changes nothing further": the type token written after one cycle is
written again, unchanged, after every further cycle. -/
theorem type_token_second_cycle_fixed (s : St) (hs : InRange table s) :
    ∃ s1 s2, typeCycle s = some s1 ∧ typeCycle s1 = some s2 ∧ table.emitStr s2 = table.emitStr s1 := by
  obtain ⟨s1, s2, h1, h2, he, hsh⟩ := secondCycleFixed_spec table Molli.Gen.Mol2Types.second_cycle_fixed s hs
  have hs1 : InRange table s1 := by
    obtain ⟨s', h', hr⟩ := everyAccepted_spec table Molli.Gen.Mol2Types.every_emitted_token_accepted s hs
    simp only [cycleSt] at h1
    rw [h1] at h'
    cases h'
    exact hr
  refine ⟨s1, s2, ?_, ?_, ?_⟩
  · simp only [typeCycle]
    rw [acceptStr_emitStr, setModelAgrees_spec table Molli.Gen.Mol2Types.set_model_agrees s hs]
    exact h1
  · simp only [typeCycle]
    rw [acceptStr_emitStr, setModelAgrees_spec table Molli.Gen.Mol2Types.set_model_agrees s1 hs1]
    exact h2
  · simp only [TypeTable.emitStr, TypeTable.emitCodes, he, hsh]

/-- non-vacuity, and why the property speaks of the SECOND cycle: the generated witness state (e.g.
(N, Hypervalent, R3_Planar), which writes `N.pl3`) is in range and its token changes in the first cycle
(`N.pl3` reads back as a state that writes `N`). -/
example : InRange table Molli.Gen.Mol2Types.cycleWitness ∧
    (typeCycle Molli.Gen.Mol2Types.cycleWitness).map table.emitStr ≠ some (table.emitStr Molli.Gen.Mol2Types.cycleWitness) := by
  decide +kernel

end Molli.Props.C07
