/-
C07 — mol2 written by molli reads back as the same molecule.

  "Writing any Molecule, Structure or ConformerEnsemble as mol2 and reading the text back preserves the
   name, the atom order, every element, every non-empty label, coordinates to the written precision
   (1e-6), partial charges to the written precision (1e-3), the bond list with endpoints and every bond
   type mol2 can express, and the conformer count and order. Every atom-type and bond-type token molli
   can emit is accepted by its own reader, and a second write/read cycle changes nothing further (the
   written text is a fixed point)."

Text part (`split_join`, `read_write`, `read_write_many`, `read_write_preserves`, `text_second_cycle_fixed`):
about the writer / reader models of `Molli.Model.Mol2`, for EVERY molecule in the property's domain
(`Admissible`: one-line name without outer whitespace, whitespace-free labels, typing states and bond
types inside the enums, bond endpoints inside the atom list) — unbounded in atoms, bonds, conformers.
Numbers are exact decimals (`Num`); `fmtFixed` is `format(x,'.Nf')`, `parseFloat` is `float(str)`
(assumption A-dec, validated by the differential run on every token).

Typing part: the quantifier is the finite table generated from the live classes
(`Molli.Gen.Mol2Types.table`, all Element × AtomType × AtomGeom states, all BondType members); the
`decide +kernel` obligations of the generated module are lifted here to `∀` statements over every state
in range and connected to token TEXT through the hand-written model of `Atom.set_mol2_type`.
-/
import Molli.Lemmas.Mol2Types
import Molli.Lemmas.Mol2Cycle
import Molli.Gen.Mol2Types
namespace Molli.Props.C07
open Molli.Model.Text Molli.Model.Mol2Types Molli.Model.Mol2 Molli.Lemmas.Mol2Types
open Molli.Lemmas.Text Molli.Lemmas.Num Molli.Lemmas.Mol2RoundTrip Molli.Lemmas.Mol2Values Molli.Lemmas.Mol2Cycle
open Molli.Gen.Mol2Types (table bonds)

/-- "Every atom-type … token molli can emit is accepted by its own reader": for every element, atom
type and geometry, the text `get_mol2_type()` produces is accepted by `set_mol2_type` on a fresh atom,
and the state read back is again a valid (element, type, geometry) triple. -/
theorem every_emitted_type_token_accepted (s : St) (hs : InRange table s) :
    ∃ s', table.acceptStr (table.emitStr s) = some s' ∧ InRange table s' := by
  rw [acceptStr_emitStr, setModelAgrees_spec table Molli.Gen.Mol2Types.set_model_agrees s hs]
  exact everyAccepted_spec table Molli.Gen.Mol2Types.every_emitted_token_accepted s hs

/-- "preserves … every element": the element read back from the written type token is the element written. -/
theorem element_preserved (s s' : St) (hs : InRange table s)
    (h : table.acceptStr (table.emitStr s) = some s') : s'.e = s.e := by
  rw [acceptStr_emitStr, setModelAgrees_spec table Molli.Gen.Mol2Types.set_model_agrees s hs] at h
  exact elementPreserved_spec table Molli.Gen.Mol2Types.element_preserved s hs s' h

/-- one write/read cycle of an atom's typing state through TEXT -/
def typeCycle (s : St) : Option St := table.acceptStr (table.emitStr s)

/-- "a second write/read cycle changes nothing further": the type token written after one cycle is
written again, unchanged, after every further cycle. -/
theorem type_token_second_cycle_fixed (s : St) (hs : InRange table s) :
    ∃ s1 s2, typeCycle s = some s1 ∧ typeCycle s1 = some s2 ∧ table.emitStr s2 = table.emitStr s1 := by
  obtain ⟨s1, s2, h1, h2, he, hsh⟩ := secondCycleFixed_spec table Molli.Gen.Mol2Types.second_cycle_fixed s hs
  have hs1 : InRange table s1 := by
    obtain ⟨s', h', hr⟩ := everyAccepted_spec table Molli.Gen.Mol2Types.every_emitted_token_accepted s hs
    simp only [cycleSt] at h1
    rw [h1] at h'
    cases h'
    exact hr
  refine ⟨s1, s2, ?_, ?_, ?_⟩
  · simp only [typeCycle]
    rw [acceptStr_emitStr, setModelAgrees_spec table Molli.Gen.Mol2Types.set_model_agrees s hs]
    exact h1
  · simp only [typeCycle]
    rw [acceptStr_emitStr, setModelAgrees_spec table Molli.Gen.Mol2Types.set_model_agrees s1 hs1]
    exact h2
  · simp only [TypeTable.emitStr, TypeTable.emitCodes, he, hsh]

/-- non-vacuity, and why the property speaks of the SECOND cycle: the generated witness state (e.g.
(N, Hypervalent, R3_Planar), which writes `N.pl3`) is in range and its token changes in the first cycle
(`N.pl3` reads back as a state that writes `N`). -/
example : InRange table Molli.Gen.Mol2Types.cycleWitness ∧
    (typeCycle Molli.Gen.Mol2Types.cycleWitness).map table.emitStr ≠ some (table.emitStr Molli.Gen.Mol2Types.cycleWitness) := by
  decide +kernel

/-! ### the read of a text does not depend on the history of the process

`Atom.set_mol2_type` is NOT a function of the token alone: tokens such as plain `C`, `N.pl3`, `X.th`, `X.oh` leave
the atom type and/or the geometry of the atom they are applied to untouched (`set_mol2_type_depends_on_prior_state`).
The reader is nevertheless a function of the text, because it applies every token to a FRESH atom
(`read_types_from_fresh_atom`): in the model nothing else can reach an atom's typing state. On the implementation
side this is tied by the history differential of `harness/c07.py` (tokens applied to atoms pre-set to other states,
texts read in different orders, the same texts read in a fresh process). -/

/-- every atom a read returns got its typing state by applying its type token to the state of a fresh `Atom()` —
never to a state left behind by an earlier call or another atom -/
theorem read_types_from_fresh_atom (wc : Bool) (r : Rec) (a : AtomV) (h : buildAtom table wc r = .ok a) :
    ∃ ty, fieldAt r 5 = .ok ty ∧ table.setMol2Type table.dflt (codesOf ty) = some a.st := by
  unfold buildAtom at h
  split at h
  · cases hty : fieldAt r 5 with
    | error e => rw [hty] at h; simp at h
    | ok ty =>
      rw [hty] at h
      dsimp only at h
      cases hacc : table.acceptStr ty with
      | none => rw [hacc] at h; simp at h
      | some st =>
        rw [hacc] at h
        dsimp only at h
        refine ⟨ty, rfl, ?_⟩
        simp only [TypeTable.acceptStr] at hacc
        rw [hacc]
        have hst : a.st = st := by
          repeat' split at h
          all_goals first
            | (simp at h; done)
            | (simp only [Except.ok.injEq] at h; rw [← h])
        rw [hst]
  · simp at h

/-- the token `C` keeps the atom type of the atom it is applied to: on an aromatic carbon it yields an aromatic
carbon, on a fresh atom a regular one — so remembering "what `C` means" from an earlier call would change later reads -/
theorem set_mol2_type_depends_on_prior_state :
    table.setMol2Type ⟨table.sp.eC, table.sp.tAromatic, table.dflt.g⟩ [67] =
      some ⟨table.sp.eC, table.sp.tAromatic, table.dflt.g⟩ ∧
    table.setMol2Type table.dflt [67] = some ⟨table.sp.eC, table.dflt.t, table.dflt.g⟩ ∧
    table.sp.tAromatic ≠ table.dflt.t := by
  decide +kernel

/-! ### text level -/

/-- the generated obligations, collected -/
theorem tablesOk : TablesOk table bonds where
  acc := Molli.Gen.Mol2Types.every_emitted_token_accepted
  agree := Molli.Gen.Mol2Types.set_model_agrees
  toks := Molli.Gen.Mol2Types.tokens_wellformed.1
  syms := Molli.Gen.Mol2Types.tokens_wellformed.2.1
  elem := Molli.Gen.Mol2Types.element_preserved
  cyc := Molli.Gen.Mol2Types.second_cycle_fixed
  bacc := Molli.Gen.Mol2Types.bond_token_accepted
  btoks := Molli.Gen.Mol2Types.tokens_wellformed.2.2
  bcyc := Molli.Gen.Mol2Types.bond_second_cycle_fixed
  bexpr := Molli.Gen.Mol2Types.expressible_bond_type_preserved
  bpre := Molli.Gen.Mol2Types.bond_token_prefix_free

/-- `split_join`: whitespace-free non-empty tokens survive joining with (any amount of) padding and
Python's `str.split()`: a line `t w₁t₁ w₂t₂ … trail` with non-empty whitespace runs `wᵢ` splits into
exactly `t, t₁, t₂, …` — for token lists of any length. -/
theorem split_join (t : Str) (ht : Tok t) (r : List (Str × Str)) (trail : Str) (htr : Ws trail)
    (hr : ∀ p ∈ r, Ws p.1 ∧ p.1 ≠ [] ∧ Tok p.2) :
    pySplit (t ++ segLine r trail) = t :: r.map (·.2) :=
  pySplit_tok_segLine r trail htr hr t ht

/-- every written atom line splits into the nine fields that were written (long labels and type tokens
that overflow their column included) -/
theorem atom_line_fields (k : Kind) (i : Nat) (a : AtomV)
    (ha : InRange table a.st ∧ (a.label = [] ∨ Tok a.label)) :
    pySplit (atomLine table k i a) = atomFields table k i a :=
  pySplit_atomLine table k i a (labelTok_tok table bonds tablesOk a ha) (typeTok_tok table bonds tablesOk a ha.1)

/-- `read_write`: "Writing any Molecule [or] Structure … as mol2 and reading the text back": for every
admissible molecule the reader returns exactly one molecule, `normMol m`: the same name, the same
atoms in the same order, the same bonds in the same order (what `normMol` may change is spelled out in
`read_write_preserves`). `k` is the class written (`Molecule` / `Structure`). -/
theorem read_write (k : Kind) (m : MolV) (hm : Admissible table bonds m) :
    loadsAll table bonds k none (writeText table bonds k m) = .ok [normMol table bonds k m] := by
  have := loadsAll_writeTextMany table bonds tablesOk k m [] (by intro x hx; simp at hx; subst hx; exact hm)
  simpa [writeTextMany, writeText] using this

/-- `read_write_many`: "…or ConformerEnsemble … and the conformer count and order": any number of
molecules written back to back are read back as the same number of molecules in the same order. -/
theorem read_write_many (k : Kind) (m : MolV) (ms : List MolV) (hm : ∀ x ∈ m :: ms, Admissible table bonds x) :
    loadsAll table bonds k none (writeTextMany table bonds k (m :: ms)) =
      .ok ((m :: ms).map (normMol table bonds k)) :=
  loadsAll_writeTextMany table bonds tablesOk k m ms hm

/-- `read_write_preserves`: "preserves the name, the atom order, every element, every non-empty label,
coordinates to the written precision (1e-6), partial charges to the written precision (1e-3), the bond
list with endpoints and every bond type mol2 can express": field by field, for the molecule `normMol m`
that `read_write` shows is read back. Coordinates: the value read back is `x` rounded to 6 decimals
(`roundNum 6`, whose error bound is `coordinate_precision`); charges: `c or 0.0` rounded to 3 decimals. -/
theorem read_write_preserves (k : Kind) (m : MolV) (hm : Admissible table bonds m) :
    let m' := normMol table bonds k m
    m'.name = m.name ∧ m'.atoms.length = m.atoms.length ∧ m'.bonds.length = m.bonds.length ∧
    (∀ i (hi : i < m.atoms.length) (hi' : i < m'.atoms.length),
      (m'.atoms[i]).st.e = (m.atoms[i]).st.e ∧
      ((m.atoms[i]).label ≠ [] → (m'.atoms[i]).label = (m.atoms[i]).label) ∧
      (m'.atoms[i]).x = roundNum 6 (m.atoms[i]).x ∧ (m'.atoms[i]).y = roundNum 6 (m.atoms[i]).y ∧
      (m'.atoms[i]).z = roundNum 6 (m.atoms[i]).z ∧
      (k = .molecule → (m'.atoms[i]).charge = roundNum 3 (chargeOr0 (m.atoms[i]).charge))) ∧
    (∀ i (hi : i < m.bonds.length) (hi' : i < m'.bonds.length),
      (m'.bonds[i]).a1 = (m.bonds[i]).a1 ∧ (m'.bonds[i]).a2 = (m.bonds[i]).a2 ∧
      (∀ tok, (tok, (m.bonds[i]).btype) ∈ bonds.expressible → (m'.bonds[i]).btype = (m.bonds[i]).btype)) := by
  intro m'
  refine ⟨rfl, by simp [m', normMol], by simp [m', normMol], ?_, ?_⟩
  · intro i hi hi'
    have ha := hm.atoms (m.atoms[i]) (List.getElem_mem hi)
    obtain ⟨s', _, _, hn, he⟩ := acceptStr_typeTok table bonds tablesOk (m.atoms[i]) ha.1
    have hget : m'.atoms[i] = normAtom table k (m.atoms[i]) := by simp [m', normMol]
    rw [hget]
    refine ⟨by simp only [normAtom]; rw [hn]; exact he, ?_, rfl, rfl, rfl, ?_⟩
    · intro hne; simp only [normAtom, labelTok, if_neg hne]
    · intro hk; subst hk; rfl
  · intro i hi hi'
    have hget : m'.bonds[i] = normBond bonds (m.bonds[i]) := by simp [m', normMol]
    rw [hget]
    refine ⟨rfl, rfl, ?_⟩
    intro tok htok
    exact normBond_expressible table bonds tablesOk (m.bonds[i]) tok htok

/-- `coordinate_precision` (numeric layer, cleared of denominators): writing the exact value `m·10^e` with
`d` decimals gives the integer `n = scaledRound d m e` of units `10^-d`; if digits are dropped
(`k = -(e+d) > 0`) then `|n·10^k − m| ≤ 10^k / 2`, i.e. `|float(format(x,'.df')) − x| ≤ ½·10^-d`
(d = 6 for coordinates: 5e-7 ≤ 1e-6; d = 3 for charges); otherwise the value is exact. And reading the
written token gives exactly `n·10^-d`. -/
theorem coordinate_precision (d : Nat) (hd : 0 < d) (neg : Bool) (m : Nat) (e : Int) :
    parseFloat (fmtFixed d (.fin neg m e)) = some (.fin neg (scaledRound d m e) (-(d : Int))) ∧
    (0 ≤ e + d → scaledRound d m e = m * 10 ^ (e + d).toNat) ∧
    (e + d < 0 →
      2 * (scaledRound d m e * 10 ^ (-(e + d)).toNat - m) ≤ 10 ^ (-(e + d)).toNat ∧
      2 * (m - scaledRound d m e * 10 ^ (-(e + d)).toNat) ≤ 10 ^ (-(e + d)).toNat) :=
  ⟨parseFloat_fmtFixed d hd (.fin neg m e), (scaledRound_error d m e).1, (scaledRound_error d m e).2⟩

/-- `text_second_cycle_fixed`: "a second write/read cycle changes nothing further (the written text is a
fixed point)": with `C = write ∘ read`, for every admissible molecule the text `write m` is read as some
`m₁`, the text `write m₁` is read as some `m₂`, and `write m₂ = write m₁` — the third text equals the
second. (The first cycle may normalise: empty label → element symbol, `N.pl3` → `N`, `-0.0004` → `-0.000`
→ `0.000`, inexpressible bond types → `un`.) -/
theorem text_second_cycle_fixed (k : Kind) (m : MolV) (hm : Admissible table bonds m) :
    ∃ m₁ m₂, loadsAll table bonds k none (writeText table bonds k m) = .ok [m₁] ∧
      loadsAll table bonds k none (writeText table bonds k m₁) = .ok [m₂] ∧
      writeText table bonds k m₂ = writeText table bonds k m₁ := by
  refine ⟨normMol table bonds k m, normMol table bonds k (normMol table bonds k m), read_write k m hm,
    read_write k _ (admissible_normMol table bonds tablesOk k m hm), ?_⟩
  simp only [writeText, writeLines_normMol2 table bonds tablesOk k m hm]

/-- the same for any number of conformers written back to back -/
theorem text_second_cycle_fixed_many (k : Kind) (m : MolV) (ms : List MolV)
    (hm : ∀ x ∈ m :: ms, Admissible table bonds x) :
    ∃ l₁ l₂ : List MolV, l₁ ≠ [] ∧ loadsAll table bonds k none (writeTextMany table bonds k (m :: ms)) = .ok l₁ ∧
      loadsAll table bonds k none (writeTextMany table bonds k l₁) = .ok l₂ ∧
      writeTextMany table bonds k l₂ = writeTextMany table bonds k l₁ := by
  have hadm : ∀ x ∈ normMol table bonds k m :: ms.map (normMol table bonds k), Admissible table bonds x := by
    intro x hx
    simp only [List.mem_cons, List.mem_map] at hx
    rcases hx with rfl | ⟨y, hy, rfl⟩
    · exact admissible_normMol table bonds tablesOk k m (hm m (by simp))
    · exact admissible_normMol table bonds tablesOk k y (hm y (by simp [hy]))
  refine ⟨(m :: ms).map (normMol table bonds k), ((m :: ms).map (normMol table bonds k)).map (normMol table bonds k),
    by simp, read_write_many k m ms hm, ?_, ?_⟩
  · simpa using read_write_many k (normMol table bonds k m) (ms.map (normMol table bonds k)) hadm
  · simp only [writeTextMany, List.flatMap_map]
    congr 1
    generalize m :: ms = l at hm
    induction l with
    | nil => rfl
    | cons x l ih =>
      simp only [List.flatMap_cons]
      rw [writeLines_normMol2 table bonds tablesOk k x (hm x (by simp)), ih (fun y hy => hm y (by simp [hy]))]

/-- non-vacuity of the text theorems: a two-atom molecule with an empty label, a 7th-decimal tie, a
negative-zero-rounding charge and an aromatic bond is admissible. -/
example : Admissible table bonds
    ⟨"d15 witness".toList,
     [⟨⟨6, 1, 0⟩, "C1".toList, .fin false 0 0, .fin false 0 0, .fin false 0 0, .fin false 25 (-2)⟩,
      ⟨Molli.Gen.Mol2Types.cycleWitness, [], .fin false 15 (-1), .fin true 1 (-7), .fin false 25 (-7), .fin true 4 (-4)⟩],
     [⟨0, 1, 9⟩]⟩ := by
  refine ⟨by decide, by decide, ?_, ?_⟩
  · intro a ha
    simp only [List.mem_cons, List.not_mem_nil, or_false] at ha
    rcases ha with rfl | rfl
    · exact ⟨by decide, Or.inr (by decide)⟩
    · exact ⟨by decide, Or.inl rfl⟩
  · intro b hb
    simp only [List.mem_cons, List.not_mem_nil, or_false] at hb
    subst hb
    decide

end Molli.Props.C07
