/-
C03 — A crash while appending never damages committed records or shows a torn one.

  "If the process dies at any byte of an append session, reopening the library shows every
   record that was complete before the session with its exact value, shows each record of
   the interrupted session either completely or not at all (never a truncated or
   zero-padded value, never a partial key), and accepts further appends that read back
   correctly."

Reading: a crash image is `image h1 h2 b0 committed ps n` = header ++ blocks of the committed
records ++ the first `n` bytes of the byte stream of the interrupted session (`session_stream`
shows that the model's puts produce exactly that stream).  All theorems quantify over every
committed record list, every session, every byte offset `n`, with no bound on sizes.
Model: `Molli.Model.Ukv` (the repaired `map_blocks`: size-bounded scan, torn tail cut on a
writable stream).  "Crash" = any prefix of the program-order byte stream survives (A-io).
-/
import Molli.Lemmas.Ukv
import Molli.Lemmas.UkvWorld
namespace Molli.Props.C03
open Molli.Util Molli.Model.Ukv Molli.Lemmas.Ukv

/-- The content of a crash image is exactly the committed records followed by the records of the
session that were written completely: nothing torn, nothing lost, for every byte offset. -/
theorem crash_atomic (h1 h2 b0 : Bytes) (hh : HdrOk h2 b0) (committed ps : List KV)
    (hc : ∀ r ∈ committed, r.ok) (hp : ∀ r ∈ ps, r.ok) (n : Nat) :
    absFile (image h1 h2 b0 committed ps n) = committed ++ completePrefix ps n := by
  unfold absFile image
  rw [List.append_assoc, readHeader_encHeader h1 h2 b0 hh.1 hh.2]
  simp only
  have hl := encHeader_length h1 h2 b0
  rw [List.drop_append_of_le_length (by omega), List.drop_of_length_le (by omega), List.nil_append]
  apply kvScan_crash committed ps hc hp
  have h1' := blocks_length_ge committed
  have h2' := completePrefix_length_le ps n
  simp only [List.length_append]
  omega

/-- `completePrefix` keeps whole records only, in order: it is a prefix of the session. -/
theorem completePrefix_prefix_of_session (ps : List KV) (n : Nat) : completePrefix ps n <+: ps := by
  induction ps generalizing n with
  | nil => simp [completePrefix]
  | cons p ps ih =>
    unfold completePrefix
    split
    · exact List.prefix_cons_inj p |>.mpr (ih _)
    · exact List.nil_prefix

/-- A record of the session is shown iff all of its bytes were written. -/
theorem completePrefix_all (ps : List KV) (n : Nat) (h : (blocks ps).length ≤ n) :
    completePrefix ps n = ps := by
  induction ps generalizing n with
  | nil => rfl
  | cons p ps ih =>
    rw [blocks_cons, List.length_append] at h
    unfold completePrefix
    rw [if_pos (by omega), ih _ (by omega)]

theorem completePrefix_none (p : KV) (ps : List KV) (n : Nat) (h : n < (encBlock p).length) :
    completePrefix (p :: ps) n = [] := by
  unfold completePrefix; rw [if_neg (by omega)]

/-- The handle object that results from opening a file of `recs` with a fresh handle. -/
def recovered (m : Mode) (h1 h2 b0 : Bytes) (recs : List KV) : Handle :=
  { mode := m, closed := false, h1 := pad16 h1, h2 := h2, b0 := b0,
    toc := tocOf (bofOf h2 b0) recs, last := lastKey (tocOf (bofOf h2 b0) recs),
    eof := some (bofOf h2 b0 + (blocks recs).length) }

/-- Reopening a crash image (read-only or for appending) with a fresh handle succeeds; the handle
lists exactly the complete records with their exact positions, and when opened for appending the
torn tail is cut off so that the file is again a well-formed file of complete records. -/
theorem crash_reopen (m : Mode) (hm : m = .r ∨ m = .a) (x1 x2 x3 : Bytes)
    (h1 h2 b0 : Bytes) (hh : HdrOk h2 b0) (committed ps : List KV)
    (hc : ∀ r ∈ committed, r.ok) (hp : ∀ r ∈ ps, r.ok)
    (hk : ((committed ++ ps).map (·.key)).Nodup) (n : Nat) :
    openHandle (newHandle m x1 x2 x3) (some (image h1 h2 b0 committed ps n)) =
      .ok (recovered m h1 h2 b0 (committed ++ completePrefix ps n),
           some (if m = .a then wfFile h1 h2 b0 (committed ++ completePrefix ps n) else image h1 h2 b0 committed ps n)) := by
  have hrd : readHeader (image h1 h2 b0 committed ps n) = some (pad16 h1, h2, b0) := by
    unfold image; rw [List.append_assoc]; exact readHeader_encHeader h1 h2 b0 hh.1 hh.2 _
  have hscan := scanFile_image h1 h2 b0 committed ps n hc hp
  have hnd : ((tocOf (bofOf h2 b0) (committed ++ completePrefix ps n)).map (·.1)).Nodup := by
    rw [tocOf_keys]
    have hpre : (committed ++ completePrefix ps n) <+: committed ++ ps := by
      exact (List.prefix_append_right_inj committed).mpr (completePrefix_prefix_of_session ps n)
    exact (hpre.sublist.map _).nodup hk
  have hmerge : tocMerge [] (tocOf (bofOf h2 b0) (committed ++ completePrefix ps n)) = tocOf (bofOf h2 b0) (committed ++ completePrefix ps n) := by
    simpa using tocMerge_fresh [] (tocOf (bofOf h2 b0) (committed ++ completePrefix ps n)) (by simpa using hnd)
  have htake := image_take h1 h2 b0 committed ps n
  rcases hm with rfl | rfl
  · simp only [openHandle, newHandle, hrd, mapBlocks, Handle.bof, hscan, hmerge, recovered]
    simp
  · simp only [openHandle, newHandle, hrd, mapBlocks, Handle.bof, hscan, hmerge, recovered]
    by_cases hlt : bofOf h2 b0 + (blocks (committed ++ completePrefix ps n)).length < (image h1 h2 b0 committed ps n).length
    · simp [hlt, htake]
    · have : image h1 h2 b0 committed ps n = wfFile h1 h2 b0 (committed ++ completePrefix ps n) := by
        rw [← htake]; exact (List.take_of_length_le (by omega)).symm
      rw [this] at hlt
      simp only [this]
      simp
      intro h; exact absurd h hlt

/-- The handle obtained by reopening a crash image for appending is synchronised with the
well-formed file it leaves behind. -/
theorem crash_reopen_synced (h1 h2 b0 : Bytes) (recs : List KV) (m : Mode) (hm : m ≠ .r) :
    Synced (recovered m h1 h2 b0 recs) h2 b0 recs :=
  ⟨rfl, hm, rfl, rfl⟩

/-- Further appends after recovery: reopening a crash image for appending and then putting any
records with fresh distinct keys yields the well-formed file of (committed ++ complete part of the
interrupted session ++ new records); every put succeeds.  No hole, no leftover of the torn block. -/
theorem crash_then_append (x1 x2 x3 h1 h2 b0 : Bytes) (hh : HdrOk h2 b0) (committed ps qs : List KV)
    (hc : ∀ r ∈ committed, r.ok) (hp : ∀ r ∈ ps, r.ok) (hq : ∀ r ∈ qs, r.ok)
    (hk : ((committed ++ ps).map (·.key)).Nodup)
    (hkq : ((committed ++ completePrefix ps n ++ qs).map (·.key)).Nodup) :
    ∃ h', runW { file := some (image h1 h2 b0 committed ps n), hs := fun _ => none }
            (Op.new 0 .a x1 x2 x3 :: putOps 0 qs) =
        setH { file := some (wfFile h1 h2 b0 (committed ++ completePrefix ps n ++ qs)), hs := fun _ => none } 0 (some h') ∧
      Synced h' h2 b0 (committed ++ completePrefix ps n ++ qs) ∧
      (runOuts { file := some (image h1 h2 b0 committed ps n), hs := fun _ => none }
            (Op.new 0 .a x1 x2 x3 :: putOps 0 qs)).all Out.isOk = true := by
  have hopen := crash_reopen .a (Or.inr rfl) x1 x2 x3 h1 h2 b0 hh committed ps hc hp hk n
  have hstep : step { file := some (image h1 h2 b0 committed ps n), hs := fun _ => none } (Op.new 0 .a x1 x2 x3) =
      (setH { file := some (wfFile h1 h2 b0 (committed ++ completePrefix ps n)), hs := fun _ => none } 0
        (some (recovered .a h1 h2 b0 (committed ++ completePrefix ps n))), Out.ok) := by
    simp only [step, hopen]
    simp
  obtain ⟨h', hrun, hs', houts⟩ := puts_synced qs
    (setH { file := some (wfFile h1 h2 b0 (committed ++ completePrefix ps n)), hs := fun _ => none } 0
        (some (recovered .a h1 h2 b0 (committed ++ completePrefix ps n))))
    0 (recovered .a h1 h2 b0 (committed ++ completePrefix ps n)) h1 h2 b0 (committed ++ completePrefix ps n)
    (getH_setH_same _ 0 _) (by simp) (crash_reopen_synced h1 h2 b0 _ .a (by decide)) hq hkq
  refine ⟨h', ?_, hs', ?_⟩
  · simp only [runW, List.foldl_cons, hstep]
    simp only [runW] at hrun
    rw [hrun]
    apply World.ext'
    · simp [setH]
    · intro j; by_cases hj : j = 0 <;> simp [setH, hj]
  · simp only [runOuts, hstep, List.all_cons, Out.isOk, Bool.true_and]
    exact houts

/-- A second crash: if the recovery session itself dies after `n'` bytes, the file is again a
crash image (of the recovered records and the recovery session), so `crash_atomic`,
`crash_reopen` and `crash_then_append` apply to it again — for any number of crashes. -/
theorem double_crash (h1 h2 b0 : Bytes) (hh : HdrOk h2 b0) (committed ps qs : List KV)
    (hc : ∀ r ∈ committed, r.ok) (hp : ∀ r ∈ ps, r.ok) (hq : ∀ r ∈ qs, r.ok) (n n' : Nat) :
    (wfFile h1 h2 b0 (committed ++ completePrefix ps n) ++ (blocks qs).take n' =
        image h1 h2 b0 (committed ++ completePrefix ps n) qs n') ∧
    absFile (image h1 h2 b0 (committed ++ completePrefix ps n) qs n') =
      committed ++ completePrefix ps n ++ completePrefix qs n' := by
  refine ⟨by simp [wfFile, image], ?_⟩
  apply crash_atomic h1 h2 b0 hh _ qs _ hq
  intro r hr
  rcases List.mem_append.mp hr with h | h
  · exact hc r h
  · exact hp r ((completePrefix_prefix_of_session ps n).subset h)

/-- Every record the reopened handle lists reads back with its exact value (never truncated, never
zero-padded): looking up a complete record in the recovered table of contents and slicing the
crash image there gives the bytes that were put. -/
theorem crash_get (h1 h2 b0 : Bytes) (committed ps : List KV)
    (hk : ((committed ++ ps).map (·.key)).Nodup) (n : Nat)
    (r : KV) (hr : r ∈ committed ++ completePrefix ps n) :
    ∃ rec, tocFind (tocOf (bofOf h2 b0) (committed ++ completePrefix ps n)) r.key = some rec ∧
      ((image h1 h2 b0 committed ps n).drop rec.posV).take rec.vlen = r.val := by
  obtain ⟨t, ht⟩ := completePrefix_prefix ps n
  have hnd : ((committed ++ completePrefix ps n).map (·.key)).Nodup := by
    have hpre : (committed ++ completePrefix ps n) <+: committed ++ ps :=
      (List.prefix_append_right_inj committed).mpr (completePrefix_prefix_of_session ps n)
    exact (hpre.sublist.map _).nodup hk
  obtain ⟨rec, h1', _, h3⟩ := tocFind_tocOf (encHeader h1 h2 b0) (committed ++ completePrefix ps n) t hnd r hr
  refine ⟨rec, by rw [← encHeader_length h1 h2 b0]; exact h1', ?_⟩
  have : image h1 h2 b0 committed ps n = encHeader h1 h2 b0 ++ blocks (committed ++ completePrefix ps n) ++ t := by
    simp [image, ht, blocks_append, List.append_assoc]
  rw [this]; exact h3


/-- `map_blocks` of a handle that already mapped the complete records of a crash image (e.g. in an earlier
read-only session on the same handle object), now on a writable stream: whichever branch is taken, the
handle ends synchronised with the well-formed file of complete records and the torn tail is gone. -/
theorem mapBlocks_image_again (h : Handle) (h1 h2 b0 : Bytes) (committed ps : List KV) (n : Nat)
    (hc : ∀ r ∈ committed, r.ok) (hp : ∀ r ∈ ps, r.ok) (hk : ((committed ++ ps).map (·.key)).Nodup)
    (hh2 : h.h2 = h2) (hb0 : h.b0 = b0) (hm : h.mode ≠ .r)
    (htoc : h.toc = tocOf (bofOf h2 b0) (committed ++ completePrefix ps n))
    (heof : h.eof = some (bofOf h2 b0 + (blocks (committed ++ completePrefix ps n)).length)) :
    ∃ l, mapBlocks h (image h1 h2 b0 committed ps n) =
      ({ h with toc := tocOf (bofOf h2 b0) (committed ++ completePrefix ps n), last := l,
                eof := some (bofOf h2 b0 + (blocks (committed ++ completePrefix ps n)).length) },
       wfFile h1 h2 b0 (committed ++ completePrefix ps n)) := by
  have hbof : h.bof = bofOf h2 b0 := by simp [Handle.bof, hh2, hb0]
  have htake := image_take h1 h2 b0 committed ps n
  have hnd : ((committed ++ completePrefix ps n).map (·.key)).Nodup := by
    have hpre : (committed ++ completePrefix ps n) <+: committed ++ ps :=
      (List.prefix_append_right_inj committed).mpr (completePrefix_prefix_of_session ps n)
    exact (hpre.sublist.map _).nodup hk
  unfold mapBlocks
  by_cases hcond : h.eof = some (image h1 h2 b0 committed ps n).length ∧ h.eof = h.lastEnd
  · rw [if_pos hcond]
    have hlen : (image h1 h2 b0 committed ps n).length =
        bofOf h2 b0 + (blocks (committed ++ completePrefix ps n)).length := by
      have := hcond.1; rw [heof] at this; exact (Option.some.inj this).symm
    have himg : image h1 h2 b0 committed ps n = wfFile h1 h2 b0 (committed ++ completePrefix ps n) := by
      rw [← htake]; exact (List.take_of_length_le (by omega)).symm
    refine ⟨h.last, ?_⟩
    rw [himg]
    clear hcond hbof hh2 hb0 hm
    cases h
    simp only at htoc heof
    subst htoc; subst heof
    rfl
  · rw [if_neg hcond]
    simp only [hbof, scanFile_image h1 h2 b0 committed ps n hc hp]
    have hmerge : tocMerge h.toc (tocOf (bofOf h2 b0) (committed ++ completePrefix ps n)) =
        tocOf (bofOf h2 b0) (committed ++ completePrefix ps n) := by
      rw [htoc]
      have := tocMerge_prefix (bofOf h2 b0) (committed ++ completePrefix ps n) (committed ++ completePrefix ps n).length hnd
      rwa [List.take_of_length_le (Nat.le_refl _)] at this
    refine ⟨lastKey (tocOf (bofOf h2 b0) (committed ++ completePrefix ps n)), ?_⟩
    rw [hmerge]
    by_cases hlt : bofOf h2 b0 + (blocks (committed ++ completePrefix ps n)).length < (image h1 h2 b0 committed ps n).length
    · simp [hlt, hm, htake]
    · have himg : image h1 h2 b0 committed ps n = wfFile h1 h2 b0 (committed ++ completePrefix ps n) := by
        rw [← htake]; exact (List.take_of_length_le (by omega)).symm
      rw [himg] at hlt
      simp [himg]
      intro h'; exact absurd h' hlt

/-- the closed read-only handle of the first session with mode `a` assigned and the header re-read -/
def reopening (h1 h2 b0 : Bytes) (recs : List KV) : Handle :=
  { mode := .a, closed := true, h1 := pad16 h1, h2 := h2, b0 := b0,
    toc := tocOf (bofOf h2 b0) recs, last := lastKey (tocOf (bofOf h2 b0) recs),
    eof := some (bofOf h2 b0 + (blocks recs).length) }

def reopened (h1 h2 b0 : Bytes) (recs : List KV) (l : Option Bytes) : Handle :=
  { mode := .a, closed := false, h1 := pad16 h1, h2 := h2, b0 := b0,
    toc := tocOf (bofOf h2 b0) recs, last := l, eof := some (bofOf h2 b0 + (blocks recs).length) }

/-- One long-lived handle: a read-only session on the crash image, then the same handle object is reopened
for appending.  The cached end-of-file mark of the first session never makes the second one skip the
torn tail: the file is cut back to the complete records and the handle is synchronised with it, so
further puts behave as in `crash_then_append`. -/
theorem crash_read_then_append (x1 x2 x3 h1 h2 b0 : Bytes) (hh : HdrOk h2 b0) (committed ps : List KV)
    (hc : ∀ r ∈ committed, r.ok) (hp : ∀ r ∈ ps, r.ok) (hk : ((committed ++ ps).map (·.key)).Nodup) (n : Nat) :
    ∃ h', runW { file := some (image h1 h2 b0 committed ps n), hs := fun _ => none }
              [.new 0 .r x1 x2 x3, .close 0, .reopen 0 (some .a)] =
        setH { file := some (wfFile h1 h2 b0 (committed ++ completePrefix ps n)), hs := fun _ => none } 0 (some h') ∧
      Synced h' h2 b0 (committed ++ completePrefix ps n) := by
  have hopen := crash_reopen .r (Or.inl rfl) x1 x2 x3 h1 h2 b0 hh committed ps hc hp hk n
  have hrd : readHeader (image h1 h2 b0 committed ps n) = some (pad16 h1, h2, b0) := by
    unfold image; rw [List.append_assoc]; exact readHeader_encHeader h1 h2 b0 hh.1 hh.2 _
  obtain ⟨l, hmb⟩ := mapBlocks_image_again (reopening h1 h2 b0 (committed ++ completePrefix ps n))
    h1 h2 b0 committed ps n hc hp hk rfl rfl (by simp [reopening]) rfl rfl
  refine ⟨reopened h1 h2 b0 (committed ++ completePrefix ps n) l, ?_, ⟨rfl, by simp [reopened], rfl, rfl⟩⟩
  · simp only [runW, List.foldl_cons, List.foldl_nil]
    have s1 : step { file := some (image h1 h2 b0 committed ps n), hs := fun _ => none } (.new 0 .r x1 x2 x3) =
        (setH { file := some (image h1 h2 b0 committed ps n), hs := fun _ => none } 0
          (some (recovered .r h1 h2 b0 (committed ++ completePrefix ps n))), .ok) := by
      simp only [step, hopen]; simp
    rw [s1]
    simp only [step, getH_setH_same, setH_setH, setH_file, recovered, openHandle, hrd]
    simp only [reopening] at hmb
    simp [hmb, reopened]
    apply World.ext'
    · simp [setH]
    · intro j; by_cases hj : j = 0 <;> simp [setH, hj]


/-! ### stale handle objects — of this or of another process — meeting a crash image

The theorems above open the crash image with a fresh handle or re-use the handle that saw the image first.  A
long-lived handle object that cached the library BEFORE the interrupted session (the usual case for a second process,
or for a collection object that outlives many sessions) carries an old table of contents and an old end-of-file mark
into the reopening.  These theorems cover it for every prefix it may have cached. -/

/-- The file a crash leaves behind, in terms of the model's `crash`: when the session's puts had made the file
`wfFile (committed ++ ps)`, dying with only `n` bytes of the session stream on disk leaves the crash image, removes
the handle objects of the dead process and leaves every other handle object exactly as it was. -/
theorem crash_world (w : World) (h1 h2 b0 : Bytes) (committed ps : List KV) (n : Nat) (dead : Nat → Bool)
    (hf : w.file = some (wfFile h1 h2 b0 (committed ++ ps))) :
    (crash w (bofOf h2 b0 + (blocks committed).length + n) dead).file = some (image h1 h2 b0 committed ps n) ∧
    (∀ i, dead i = false → getH (crash w (bofOf h2 b0 + (blocks committed).length + n) dead) i = getH w i) ∧
    (∀ i, dead i = true → getH (crash w (bofOf h2 b0 + (blocks committed).length + n) dead) i = none) := by
  refine ⟨?_, ?_, ?_⟩
  · simp only [crash, hf, Option.map_some, take_image]
  · intro i hi; simp [crash, getH, hi]
  · intro i hi; simp [crash, getH, hi]

/-- `map_blocks` of a stale handle on the crash image, whichever branch is taken. -/
theorem mapBlocks_stale (h : Handle) (h1 h2 b0 : Bytes) (committed ps : List KV) (n j : Nat)
    (hc : ∀ r ∈ committed, r.ok) (hp : ∀ r ∈ ps, r.ok) (hk : ((committed ++ ps).map (·.key)).Nodup)
    (hh2 : h.h2 = h2) (hb0 : h.b0 = b0)
    (htoc : h.toc = tocOf (bofOf h2 b0) ((committed ++ completePrefix ps n).take j))
    (heof : h.eof = some (bofOf h2 b0 + (blocks ((committed ++ completePrefix ps n).take j)).length)) :
    ∃ l, mapBlocks h (image h1 h2 b0 committed ps n) =
      ({ h with toc := tocOf (bofOf h2 b0) (committed ++ completePrefix ps n), last := l,
                eof := some (bofOf h2 b0 + (blocks (committed ++ completePrefix ps n)).length) },
       if h.mode ≠ .r then wfFile h1 h2 b0 (committed ++ completePrefix ps n) else image h1 h2 b0 committed ps n) := by
  have hbof : h.bof = bofOf h2 b0 := by simp [Handle.bof, hh2, hb0]
  have htake := image_take h1 h2 b0 committed ps n
  have hle : bofOf h2 b0 + (blocks (committed ++ completePrefix ps n)).length ≤ (image h1 h2 b0 committed ps n).length := by
    have := congrArg List.length htake
    rw [wfFile_length, List.length_take] at this
    omega
  have hnd : ((committed ++ completePrefix ps n).map (·.key)).Nodup := by
    have hpre : (committed ++ completePrefix ps n) <+: committed ++ ps :=
      (List.prefix_append_right_inj committed).mpr (completePrefix_prefix_of_session ps n)
    exact (hpre.sublist.map _).nodup hk
  unfold mapBlocks
  by_cases hcond : h.eof = some (image h1 h2 b0 committed ps n).length ∧ h.eof = h.lastEnd
  · rw [if_pos hcond]
    have hlen : (image h1 h2 b0 committed ps n).length =
        bofOf h2 b0 + (blocks ((committed ++ completePrefix ps n).take j)).length := by
      have := hcond.1; rw [heof] at this; exact (Option.some.inj this).symm
    have hall : (committed ++ completePrefix ps n).take j = committed ++ completePrefix ps n :=
      take_eq_of_blocks_length_le _ j (by omega)
    rw [hall] at htoc heof hlen
    have himg : image h1 h2 b0 committed ps n = wfFile h1 h2 b0 (committed ++ completePrefix ps n) := by
      rw [← htake]; exact (List.take_of_length_le (by omega)).symm
    refine ⟨h.last, ?_⟩
    rw [himg]
    clear hcond hbof hh2 hb0 hle
    cases h
    simp only at htoc heof
    subst htoc; subst heof
    simp
  · rw [if_neg hcond]
    simp only [hbof, scanFile_image h1 h2 b0 committed ps n hc hp]
    have hmerge : tocMerge h.toc (tocOf (bofOf h2 b0) (committed ++ completePrefix ps n)) =
        tocOf (bofOf h2 b0) (committed ++ completePrefix ps n) := by
      rw [htoc]
      exact tocMerge_prefix (bofOf h2 b0) (committed ++ completePrefix ps n) j hnd
    refine ⟨lastKey (tocOf (bofOf h2 b0) (committed ++ completePrefix ps n)), ?_⟩
    rw [hmerge]
    by_cases hm : h.mode = .r
    · simp [hm]
    · by_cases hlt : bofOf h2 b0 + (blocks (committed ++ completePrefix ps n)).length < (image h1 h2 b0 committed ps n).length
      · simp [hlt, hm, htake]
      · have himg : image h1 h2 b0 committed ps n = wfFile h1 h2 b0 (committed ++ completePrefix ps n) := by
          rw [← htake]; exact (List.take_of_length_le (by omega)).symm
        rw [himg] at hlt
        simp [himg, hm]
        intro h'; exact absurd h' hlt


/-- what a stale handle object looks like after it was reopened on a crash image -/
def staleReopened (h : Handle) (m : Mode) (h1 h2 b0 : Bytes) (recs : List KV) (l : Option Bytes) : Handle :=
  { h with mode := m, closed := false, h1 := pad16 h1, h2 := h2, b0 := b0,
           toc := tocOf (bofOf h2 b0) recs, last := l, eof := some (bofOf h2 b0 + (blocks recs).length) }

/-- A STALE handle object meets the crash image.  `g` is any closed handle object — of the surviving process
or of another one — that cached ANY prefix of the records the image now holds (for instance exactly the
committed records, because it was last open before the interrupted session, or fewer).  Reopening it, read-only
or for appending, succeeds; it then lists exactly the committed records and the completely written records of the
interrupted session at their exact positions (so every value reads back whole: `crash_get`), and when it was opened
for appending the torn tail is cut and the handle is synchronised with the well-formed file. -/
theorem crash_stale_reopen (w : World) (g : Nat) (h : Handle) (m : Mode) (hm : m = .r ∨ m = .a)
    (h1 h2 b0 : Bytes) (hh : HdrOk h2 b0) (committed ps : List KV) (n j : Nat)
    (hc : ∀ r ∈ committed, r.ok) (hp : ∀ r ∈ ps, r.ok) (hk : ((committed ++ ps).map (·.key)).Nodup)
    (hg : getH w g = some h) (hcl : h.closed = true)
    (hf : w.file = some (image h1 h2 b0 committed ps n))
    (htoc : h.toc = tocOf (bofOf h2 b0) ((committed ++ completePrefix ps n).take j))
    (heof : h.eof = some (bofOf h2 b0 + (blocks ((committed ++ completePrefix ps n).take j)).length)) :
    ∃ l, step w (.reopen g (some m)) =
      (setH { w with file := some (if m = .a then wfFile h1 h2 b0 (committed ++ completePrefix ps n)
                                    else image h1 h2 b0 committed ps n) } g
        (some (staleReopened h m h1 h2 b0 (committed ++ completePrefix ps n) l)), .ok) := by
  have hrd : readHeader (image h1 h2 b0 committed ps n) = some (pad16 h1, h2, b0) := by
    unfold image; rw [List.append_assoc]; exact readHeader_encHeader h1 h2 b0 hh.1 hh.2 _
  obtain ⟨l, hmb⟩ := mapBlocks_stale { h with mode := m, h1 := pad16 h1, h2 := h2, b0 := b0 } h1 h2 b0 committed ps n j
    hc hp hk rfl rfl htoc heof
  refine ⟨l, ?_⟩
  simp only [hcl] at hmb
  rcases hm with rfl | rfl
  · simp only [step, hg, hcl, hf, openHandle, hrd]
    simp [hmb, staleReopened]
  · simp only [step, hg, hcl, hf, openHandle, hrd]
    simp [hmb, staleReopened]

/-- Further appends through the stale handle: reopened for appending on the crash image it accepts any records with
fresh keys; the file ends as the well-formed file of committed ++ complete part of the interrupted session ++ new
records — no hole, no leftover of the torn block, nothing of the other handle's session overwritten. -/
theorem crash_stale_then_append (w : World) (g : Nat) (h : Handle)
    (h1 h2 b0 : Bytes) (hh : HdrOk h2 b0) (committed ps qs : List KV) (n j : Nat)
    (hc : ∀ r ∈ committed, r.ok) (hp : ∀ r ∈ ps, r.ok) (hq : ∀ r ∈ qs, r.ok)
    (hk : ((committed ++ ps).map (·.key)).Nodup)
    (hkq : ((committed ++ completePrefix ps n ++ qs).map (·.key)).Nodup)
    (hg : getH w g = some h) (hcl : h.closed = true)
    (hf : w.file = some (image h1 h2 b0 committed ps n))
    (htoc : h.toc = tocOf (bofOf h2 b0) ((committed ++ completePrefix ps n).take j))
    (heof : h.eof = some (bofOf h2 b0 + (blocks ((committed ++ completePrefix ps n).take j)).length)) :
    ∃ h', runW w (Op.reopen g (some .a) :: putOps g qs) =
        setH { w with file := some (wfFile h1 h2 b0 (committed ++ completePrefix ps n ++ qs)) } g (some h') ∧
      Synced h' h2 b0 (committed ++ completePrefix ps n ++ qs) ∧
      (runOuts w (Op.reopen g (some .a) :: putOps g qs)).all Out.isOk = true := by
  obtain ⟨l, hstep⟩ := crash_stale_reopen w g h .a (Or.inr rfl) h1 h2 b0 hh committed ps n j hc hp hk hg hcl hf htoc heof
  simp only [if_true] at hstep
  obtain ⟨h', hrun, hs', houts⟩ := puts_synced qs
    (setH { w with file := some (wfFile h1 h2 b0 (committed ++ completePrefix ps n)) } g
      (some (staleReopened h .a h1 h2 b0 (committed ++ completePrefix ps n) l)))
    g (staleReopened h .a h1 h2 b0 (committed ++ completePrefix ps n) l) h1 h2 b0 (committed ++ completePrefix ps n)
    (getH_setH_same _ g _) (by simp) ⟨rfl, by simp [staleReopened], rfl, rfl⟩ hq hkq
  refine ⟨h', ?_, hs', ?_⟩
  · simp only [runW, List.foldl_cons, hstep]
    simp only [runW] at hrun
    rw [hrun]
    apply World.ext'
    · simp
    · intro i; by_cases hi : i = g <;> simp [setH, hi]
  · simp only [runOuts, hstep, List.all_cons, Out.isOk, Bool.true_and]
    exact houts


/-- End to end, two processes: a writer process appends `ps` through its synchronised handle `a` and dies when only
`n` bytes of its stream are on disk; the handle object `g` of ANOTHER process, closed and caching any prefix of the
committed records, is then reopened (read-only or for appending).  It succeeds and shows exactly the committed
records and the completely written records of the dead session. -/
theorem other_process_crash (w : World) (a g : Nat) (hag : g ≠ a) (ha hgH : Handle) (m : Mode) (hm : m = .r ∨ m = .a)
    (h1 h2 b0 : Bytes) (hh : HdrOk h2 b0) (committed ps : List KV) (n j : Nat) (hj : j ≤ committed.length)
    (hc : ∀ r ∈ committed, r.ok) (hp : ∀ r ∈ ps, r.ok) (hk : ((committed ++ ps).map (·.key)).Nodup)
    (hf : w.file = some (wfFile h1 h2 b0 committed))
    (hfa : getH w a = some ha) (hsync : Synced ha h2 b0 committed)
    (hgg : getH w g = some hgH) (hcl : hgH.closed = true)
    (htoc : hgH.toc = tocOf (bofOf h2 b0) (committed.take j))
    (heof : hgH.eof = some (bofOf h2 b0 + (blocks (committed.take j)).length)) :
    ∃ l w2, w2 = crash (runW w (putOps a ps)) (bofOf h2 b0 + (blocks committed).length + n) (· == a) ∧
      getH w2 a = none ∧
      step w2 (.reopen g (some m)) =
        (setH { w2 with file := some (if m = .a then wfFile h1 h2 b0 (committed ++ completePrefix ps n)
                                       else image h1 h2 b0 committed ps n) } g
          (some (staleReopened hgH m h1 h2 b0 (committed ++ completePrefix ps n) l)), .ok) := by
  obtain ⟨h', hrun, _, _⟩ := puts_synced ps w a ha h1 h2 b0 committed hfa hf hsync hp hk
  have hcw := crash_world (runW w (putOps a ps)) h1 h2 b0 committed ps n (· == a) (by rw [hrun]; rfl)
  have hg2 : getH (crash (runW w (putOps a ps)) (bofOf h2 b0 + (blocks committed).length + n) (· == a)) g = some hgH := by
    rw [hcw.2.1 g (by simp [hag]), hrun, getH_setH_other _ _ _ _ hag]
    exact hgg
  have htk : (committed ++ completePrefix ps n).take j = committed.take j := List.take_append_of_le_length hj
  obtain ⟨l, hstep⟩ := crash_stale_reopen _ g hgH m hm h1 h2 b0 hh committed ps n j hc hp hk hg2 hcl hcw.1
    (by rw [htk]; exact htoc) (by rw [htk]; exact heof)
  exact ⟨l, _, rfl, hcw.2.2 a (by simp), hstep⟩


/-! ### non-vacuity: a concrete crash image meets the hypotheses and behaves as stated -/

def exCommitted : List KV := [⟨[107, 49], [1, 2, 3]⟩]
def exSession : List KV := [⟨[107, 50], [9, 9, 9, 9]⟩, ⟨[107, 51], []⟩]

example : (∀ r ∈ exCommitted, r.ok) ∧ (∀ r ∈ exSession, r.ok) ∧
    ((exCommitted ++ exSession).map (·.key)).Nodup ∧ HdrOk [104, 105] [] := by
  refine ⟨by decide, by decide, by decide, by simp [HdrOk]⟩

/-- cut 3 bytes into the value of the first session record: only the committed record is shown -/
example : absFile (image defaultH1 [104, 105] [] exCommitted exSession 8) = exCommitted := by decide +kernel
/-- cut after the first session record and inside the header of the second -/
example : absFile (image defaultH1 [104, 105] [] exCommitted exSession 13) =
    exCommitted ++ [⟨[107, 50], [9, 9, 9, 9]⟩] := by decide +kernel

/-- non-vacuity of the stale-handle theorems: handle 4 cached the committed record, handle 1 (another process) dies 13
bytes into its two-record session; handle 4 reopened read-only lists the committed and the one complete record, and
reopened for appending it accepts a further record; a fresh reader then sees all three and no torn one. -/
example :
    (run (crash (run initWorld
        [.new 0 .w [] [104, 105] [], .put 0 [107, 49] [1, 2, 3], .close 0, .new 4 .r [] [] [], .close 4,
         .new 1 .a [] [] [], .put 1 [107, 50] [9, 9, 9, 9], .put 1 [107, 51] []]).1 57 (· == 1))
      [.reopen 4 (some .r), .keys 4, .get 4 [107, 50], .close 4, .reopen 4 (some .a), .put 4 [107, 52] [7], .close 4,
       .keys 1, .new 3 .r [] [] [], .keys 3, .get 3 [107, 51]]).2 =
    [.ok, .keys [[107, 49], [107, 50]], .val [9, 9, 9, 9], .ok, .ok, .ok, .ok,
     .err .noHandle, .ok, .keys [[107, 49], [107, 50], [107, 52]], .err .noKey] := by decide +kernel

end Molli.Props.C03
