/-
C05 — Atoms, bonds, coordinates and charges stay aligned under every edit history.

  "After any sequence of structure edits (adding, creating and deleting atoms by object, index,
   label or element; connecting; appending and deleting bonds; removing a substituent; adding
   hydrogens) a Molecule has exactly one coordinate row and one numeric partial charge per atom,
   each surviving atom keeps the coordinate and charge it was given, every bond joins two atoms of
   that molecule, deleting an atom deletes exactly its bonds, and every atom and bond reports that
   molecule as its parent and its correct index."

Reading.  The model (`Molli.Model.MolEdit`) is the four parallel containers of a Molecule with a
ghost tag on every coordinate row and every charge: the identity of the atom it was given to.
`MInv` says: tags = atom identities position by position (hence one row and one charge per atom, and
"keeps what it was given"), charges are numbers, no atom or bond object is listed twice, bond ends
are members, parents are set, serial numbers are below the counter.  `step` is total: every edit of
the property, with every way of addressing an atom, valid or not, is an `Op`; histories are lists.
All theorems are unbounded (any molecule satisfying `MInv`, any operation list).
A `Structure` is the same state with the charge list unobserved.
The model is of the repaired code (defects D07 D08 D09 and the three found by this check, see
design_notes/C05.md); `shipped_*` below replay the defects of the unrepaired routines on the model.
-/
import Molli.Lemmas.MolEdit
namespace Molli.Props.C05
open Molli.Model.MolEdit Molli.Lemmas.MolEdit

/-! ## initial states -/

/-- "starting from empty … molecules": the empty molecule is aligned. -/
theorem inv_init_empty (k : Kind) : MInv (emptyMol k) := inv_empty k

/-- "starting from … file-loaded … molecules": whatever the file lists (any atoms, any bond table),
the molecule the reader builds is aligned. -/
theorem inv_init_loaded (k : Kind) (specs : List LoadAtom) (bonds : List (Nat × Nat)) :
    MInv (loaded k specs bonds) := inv_loaded k specs bonds

/-- "starting from … cloned molecules": the copy of any molecule is aligned (no hypothesis on the source). -/
theorem inv_init_clone (m : Mol) : MInv (cloneOf m) := inv_loaded _ _ _

/-! ## the invariant over histories -/

/-- One edit — of any kind, addressing atoms in any way, accepted or refused — keeps the molecule aligned. -/
theorem inv_step {m : Mol} (h : MInv m) (op : Op) : MInv (step m op).1 :=
  Molli.Lemmas.MolEdit.inv_step h op

/-- "After any sequence of structure edits …": every history keeps the molecule aligned. -/
theorem inv_history {m : Mol} (h : MInv m) (ops : List Op) : MInv (run m ops) := inv_run ops h

/-- "… a Molecule has exactly one coordinate row and one numeric partial charge per atom":
after any history from any of the start states. -/
theorem one_row_one_charge_per_atom {m : Mol} (h : MInv m) (ops : List Op) :
    (run m ops).rows.length = (run m ops).atoms.length ∧
    (run m ops).charges.length = (run m ops).atoms.length ∧
    ∀ c ∈ (run m ops).charges, c.2.isSome = true :=
  have h' := inv_history h ops
  ⟨rows_length h', charges_length h', h'.numeric⟩

/-- "… every bond joins two atoms of that molecule": after any history. -/
theorem bonds_join_members {m : Mol} (h : MInv m) (ops : List Op) :
    ∀ b ∈ (run m ops).bonds, b.a1 ∈ (run m ops).ids ∧ b.a2 ∈ (run m ops).ids :=
  (inv_history h ops).bondEnds

/-- "… every atom and bond reports that molecule as its parent": after any history. -/
theorem parents_correct {m : Mol} (h : MInv m) (ops : List Op) :
    (∀ a ∈ (run m ops).atoms, a.parentOk = true) ∧ (∀ b ∈ (run m ops).bonds, b.parentOk = true) :=
  ⟨(inv_history h ops).atomParent, (inv_history h ops).bondParent⟩

/-! ## "each surviving atom keeps the coordinate and charge it was given" -/

/-- the row at position `i` carries the tag of the atom at position `i` (and likewise the charge):
what the ghost tags mean -/
theorem tags_aligned {m : Mol} (h : MInv m) (i : Nat) (hi : i < m.atoms.length) :
    (m.rows[i]?).map (·.1) = some m.atoms[i].id ∧ (m.charges[i]?).map (·.1) = some m.atoms[i].id := by
  have hr := congrArg (fun l => l[i]?) h.rowTags
  have hc := congrArg (fun l => l[i]?) h.chargeTags
  simp only [Mol.ids, List.getElem?_map, List.getElem?_eq_getElem hi, Option.map_some] at hr hc
  exact ⟨hr, hc⟩

/-- One edit: an atom that is in the molecule before and after still has the row and the charge it had. -/
theorem survivor_payload {m : Mol} (h : MInv m) (op : Op) (a : AtomId) (ha0 : a ∈ m.ids)
    (ha : a ∈ (step m op).1.ids) (hw : ∀ as ps, op = .viewWrite as ps → a ∉ as)
    (hq : ∀ ps, op ≠ .chargeWrite ps) :
    (∀ p, (a, p) ∈ m.rows → (a, p) ∈ (step m op).1.rows) ∧
    (∀ q, (a, q) ∈ m.charges → (a, q) ∈ (step m op).1.charges) :=
  keeps_step h op a ha0 ha hw hq

/-- the row and the charge of an atom are unique, so `survivor_payload` determines them -/
theorem payload_unique {m : Mol} (h : MInv m) {a : AtomId} :
    (∀ p p', (a, p) ∈ m.rows → (a, p') ∈ m.rows → p = p') ∧
    (∀ q q', (a, q) ∈ m.charges → (a, q') ∈ m.charges → q = q') :=
  ⟨fun _ _ hp hp' => tagged_unique (by rw [h.rowTags]; exact h.nodup) hp hp',
   fun _ _ hq hq' => tagged_unique (by rw [h.chargeTags]; exact h.nodup) hq hq'⟩

/-- `rowOf` after an edit = `rowOf` before, for every atom that stays (the functional form). -/
theorem survivor_rowOf {m : Mol} (h : MInv m) (op : Op) (a : AtomId) (ha0 : a ∈ m.ids)
    (ha : a ∈ (step m op).1.ids) (hw : ∀ as ps, op = .viewWrite as ps → a ∉ as)
    (hq : ∀ ps, op ≠ .chargeWrite ps) :
    rowOf (step m op).1 a = rowOf m a := by
  have find_tag : ∀ (l : List (AtomId × Nat)) (p : Nat), (l.map (·.1)).Nodup → (a, p) ∈ l →
      (l.find? (fun r => r.1 == a)).map (·.2) = some p := by
    intro l p hn hp
    cases hf : l.find? (fun r => r.1 == a) with
    | none =>
      have := List.find?_eq_none.mp hf (a, p) hp
      simp at this
    | some x =>
      have hx := List.mem_of_find?_eq_some hf
      have hxa : x.1 = a := by simpa using List.find?_some hf
      have : x.2 = p := tagged_unique hn (by rw [← hxa]; exact hx) hp
      simp [this]
  have h' := inv_step h op
  obtain ⟨p, hp⟩ : ∃ p, (a, p) ∈ m.rows := by
    have : a ∈ m.rows.map (·.1) := by rw [h.rowTags]; exact ha0
    obtain ⟨x, hx, rfl⟩ := List.mem_map.mp this
    exact ⟨x.2, hx⟩
  have hp' := (survivor_payload h op a ha0 ha hw hq).1 p hp
  unfold rowOf
  rw [find_tag _ p (by rw [h'.rowTags]; exact h'.nodup) hp', find_tag _ p (by rw [h.rowTags]; exact h.nodup) hp]

/-! ## "deleting an atom deletes exactly its bonds" -/

/-- A successful `del_atom` removed the atom addressed, its row, its charge and exactly the bonds
that had it as an end; nothing else changed. -/
theorem delAtom_bonds {m m' : Mol} (h : MInv m) (r : Ref) (hs : step m (.delAtom r) = (m', .ok)) :
    ∃ a, resolveAtom m.atoms r = some a ∧ a ∈ m.ids ∧
      m'.bonds = m.bonds.filter (fun b => !(b.a1 == a || b.a2 == a)) ∧
      (∀ b, b ∈ m'.bonds ↔ b ∈ m.bonds ∧ b.a1 ≠ a ∧ b.a2 ≠ a) ∧
      m'.ids = m.ids.erase a ∧
      m'.rows = m.rows.eraseIdx (m.ids.idxOf a) ∧
      m'.charges = m.charges.eraseIdx (m.ids.idxOf a) ∧
      m'.kind = m.kind ∧ m'.next = m.next := by
  obtain ⟨a, ha, hm, rfl⟩ := delAtom_ok h (r := r) (m' := m') hs
  refine ⟨a, ha, hm, rfl, ?_, ?_, rfl, rfl, rfl, rfl⟩
  · intro b
    simp [delAt, incident, List.mem_filter]
  · rw [ids_delAt, List.erase_eq_eraseIdx_of_idxOf rfl]; rfl

/-- A refused `del_atom` (nothing addressed) leaves the molecule exactly as it was. -/
theorem delAtom_refused {m m' : Mol} (r : Ref) (hs : step m (.delAtom r) = (m', .err)) : m' = m :=
  delAtom_err hs

/-- The other single edits, when refused, change nothing but the serial counter. -/
theorem refused_edit_frame {m : Mol} (op : Op) (hop : ∀ r1 r2 l, op ≠ .removeSubstituent r1 r2 l)
    (he : (step m op).2 = .err) : { (step m op).1 with next := m.next } = m := by
  cases op with
  | addAtom s c q =>
    by_cases hm : s.id ∈ m.ids
    · simp only [step, if_pos hm]
    · simp only [step, if_neg hm] at he; cases he
  | addAtomBad s => rfl
  | newAtom e l c => simp only [step] at he; cases he
  | delAtom r =>
    cases hs : step m (.delAtom r) with
    | mk m' o =>
      rw [hs] at he; simp only at he; subst he
      rw [delAtom_refused r hs]
  | connect r1 r2 =>
    cases h1 : resolveAtom m.atoms r1 <;> cases h2 : resolveAtom m.atoms r2 <;>
      simp only [step, h1, h2] at he ⊢
    cases he
  | appendBond x y => simp only [step] at he; cases he
  | appendBonds l => simp only [step] at he; cases he
  | delBond b =>
    by_cases hb : b ∈ m.bonds.map (·.id)
    · simp only [step, if_pos hb] at he; cases he
    · simp only [step, if_neg hb]
  | removeSubstituent r1 r2 l => exact absurd rfl (hop r1 r2 l)
  | addHydrogens hs => simp only [step] at he; cases he
  | appendBondObj b x y =>
    by_cases hb : b ∈ m.bonds.map (·.id)
    · simp only [step, if_pos hb]
    · simp only [step, if_neg hb] at he; cases he
  | appendBondObjs l =>
    by_cases hc : (∀ p ∈ l, p.1 ∉ m.bonds.map (·.id)) ∧ (l.map (·.1)).Nodup
    · simp only [step, if_pos hc] at he; cases he
    · simp only [step, if_neg hc]
  | mkView refs => rfl
  | viewLocal => rfl
  | chargeWrite ps =>
    by_cases hl : ps.length = m.atoms.length
    · simp only [step, if_pos hl] at he; cases he
    · simp only [step, if_neg hl]
  | viewRead as => rfl
  | viewWrite as ps =>
    simp only [step] at he ⊢
    cases hv : viewIndices m as with
    | none => rfl
    | some is =>
      rw [hv] at he
      dsimp only at he ⊢
      by_cases hl : ps.length = as.length
      · rw [if_pos hl] at he; cases he
      · rw [if_neg hl]

/-! ## stale handles: atoms and bonds deleted earlier in the history and passed to an edit again

Nothing in `step` asks that an atom or bond identity handed to an operation is new: `addAtom`, `appendBond`, `appendBonds`
take any atom identity (a deleted one is simply not a member: `add_atom` re-adds it with the coordinate and charge given
now, a bond end is re-adopted with a NaN row and a zero charge), `connect` / `delAtom` / `removeSubstituent` refuse it,
`delBond` refuses a deleted bond, `appendBondObj(s)` re-append a deleted bond OBJECT (and re-adopt its deleted ends) and
refuse one that is in the molecule.  `inv_step` / `inv_history` therefore cover every history with stale handles; the
statements below spell out the cases. -/

/-- A bond made to an atom that was deleted earlier (or never was in the molecule) brings the atom back into the molecule:
afterwards both ends of the new bond are atoms of the molecule, the re-adopted atom with the NaN row and the zero charge. -/
theorem stale_end_readopted {m : Mol} (h : MInv m) (x y : AtomSpec) (hy : y.id ∉ m.ids) (hx : x.id ∈ m.ids) :
    let m' := (step m (.appendBond x y)).1
    MInv m' ∧ y.id ∈ m'.ids ∧ (y.id, nanRow) ∈ m'.rows ∧ (y.id, some zeroCharge) ∈ m'.charges := by
  have hinv := inv_step h (.appendBond x y)
  refine ⟨hinv, ?_⟩
  simp only [step, pushBond_eq]
  have e1 : adopt { m with next := m.next + 1 } x = { m with next := m.next + 1 } := by
    unfold adopt; rw [if_pos]; exact hx
  have e2 : adopt { m with next := m.next + 1 } y = pushAtom { m with next := m.next + 1 } y nanRow none := by
    unfold adopt; rw [if_neg]; exact hy
  rw [e1, e2]
  refine ⟨?_, ?_, ?_⟩
  · show y.id ∈ (pushAtom { m with next := m.next + 1 } y nanRow none).ids
    rw [ids_pushAtom]; simp
  · simp [pushAtom]
  · simp [pushAtom, zeroCharge]

/-- Re-appending a deleted bond object puts exactly that object back (and re-adopts deleted ends); a bond object that is
in the molecule is refused and nothing changes. -/
theorem stale_bond_reappended {m : Mol} (h : MInv m) (b : Nat) (x y : AtomSpec) :
    (b ∉ m.bonds.map (·.id) →
      let m' := (step m (.appendBondObj b x y)).1
      MInv m' ∧ m'.bonds.map (·.id) = m.bonds.map (·.id) ++ [b] ∧ x.id ∈ m'.ids ∧ y.id ∈ m'.ids) ∧
    (b ∈ m.bonds.map (·.id) → step m (.appendBondObj b x y) = (m, .err)) := by
  refine ⟨fun hb => ?_, fun hb => by simp only [step, if_pos hb]⟩
  have hinv := inv_step h (.appendBondObj b x y)
  refine ⟨hinv, ?_⟩
  simp only [step, if_neg hb] at hinv ⊢
  refine ⟨bondIds_pushBond _ _ _ _, ?_⟩
  have := hinv.bondEnds { id := b, a1 := x.id, a2 := y.id, parentOk := true } (by
    rw [pushBond_eq]; simp)
  exact this

/-- A deleted atom addressed as an object is refused by `del_atom`, `connect` and as either argument of
`remove_substituent`; a deleted bond is refused by `del_bond`: nothing changes (but the serial counter). -/
theorem stale_refused {m : Mol} (a : AtomId) (ha : a ∉ m.ids) (b : Nat) (hb : b ∉ m.bonds.map (·.id)) (r : Ref) :
    step m (.delAtom (.obj a)) = (m, .err) ∧
    (step m (.connect (.obj a) r)).2 = .err ∧ (step m (.connect r (.obj a))).2 = .err ∧
    step m (.delBond b) = (m, .err) := by
  have hra : resolveAtom m.atoms (.obj a) = none := by simp only [resolveAtom]; rw [if_neg]; exact ha
  have hri : resolveIndex m.atoms (.obj a) = none := by simp only [resolveIndex]; rw [if_neg]; exact ha
  refine ⟨?_, ?_, ?_, ?_⟩
  · simp only [step, delAtom]
    cases m.kind <;> simp [hra, hri]
  · simp only [step, hra]
  · simp only [step, hra]
    cases resolveAtom m.atoms r <;> rfl
  · simp only [step, if_neg hb]

/-- The refusal rule of `append_bonds` / `extend_bonds` for bond objects: the call is refused — as a whole, nothing changes —
exactly when one of the objects is already in the molecule or is named twice in the call.  The rule mentions nothing but the
identities: a bond object outside the molecule has no parent in the model, so new bonds (parent `None`), bonds of another
molecule and bonds deleted earlier are all treated alike. -/
theorem append_bond_objects_refused_iff {m : Mol} (l : List (Nat × AtomSpec × AtomSpec)) :
    (step m (.appendBondObjs l) = (m, .err) ↔ ((∃ p ∈ l, p.1 ∈ m.bonds.map (·.id)) ∨ ¬ (l.map (·.1)).Nodup)) ∧
    ((step m (.appendBondObjs l)).2 = .ok ↔ ((∀ p ∈ l, p.1 ∉ m.bonds.map (·.id)) ∧ (l.map (·.1)).Nodup)) := by
  by_cases hc : (∀ p ∈ l, p.1 ∉ m.bonds.map (·.id)) ∧ (l.map (·.1)).Nodup
  · have hs : step m (.appendBondObjs l) =
        (l.foldl (fun acc p => pushBond { acc with next := max acc.next (p.1 + 1) } p.1 p.2.1 p.2.2) m, .ok) := by
      simp only [step, if_pos hc]
    rw [hs]
    refine ⟨⟨fun h => ?_, fun h => ?_⟩, ⟨fun _ => hc, fun _ => rfl⟩⟩
    · have := congrArg Prod.snd h
      cases this
    · rcases h with ⟨p, hp, hm⟩ | h
      · exact absurd hm (hc.1 p hp)
      · exact absurd hc.2 h
  · have hs : step m (.appendBondObjs l) = (m, .err) := by simp only [step, if_neg hc]
    rw [hs]
    refine ⟨⟨fun _ => ?_, fun _ => rfl⟩, ⟨fun h => ?_, fun h => absurd h hc⟩⟩
    · by_cases h1 : ∀ p ∈ l, p.1 ∉ m.bonds.map (·.id)
      · exact Or.inr (fun hn => hc ⟨h1, hn⟩)
      · left
        apply Classical.byContradiction
        intro hne
        apply h1
        intro p hp hm
        exact hne ⟨p, hp, hm⟩
    · cases h

/-- an object named twice (adjacent or not, twice or more) makes the whole call a refusal that changes nothing -/
theorem append_bond_objects_twice_refused {m : Mol} (l1 l2 l3 : List (Nat × AtomSpec × AtomSpec)) (b : Nat)
    (x y x' y' : AtomSpec) :
    step m (.appendBondObjs (l1 ++ (b, x, y) :: l2 ++ (b, x', y') :: l3)) = (m, .err) := by
  apply (append_bond_objects_refused_iff _).1.mpr
  right
  intro hn
  simp only [List.map_append, List.map_cons, List.append_assoc, List.cons_append] at hn
  have := (List.nodup_append.mp hn).2.1
  simp only [List.nodup_cons, List.mem_append, List.mem_cons, true_or, or_true, not_true_eq_false, false_and] at this

/-! ## views held across edits ("also … for Conformer/Substructure views where the operation is defined")

A `Substructure` holds atom OBJECTS; every access locates their rows at that moment.  `viewRead as` / `viewWrite as ps`
are operations of the history alphabet, so `inv_history` already covers histories in which views made earlier are read and
written between arbitrary edits of the parent (incl. pairs that keep the number of atoms). -/

/-- A view can be read exactly when all the atoms it holds are still in the molecule. -/
theorem view_defined {m : Mol} (h : MInv m) (as : List AtomId) (hm : ∀ a ∈ as, a ∈ m.ids) :
    (viewRows m as).isSome = true := by
  unfold viewRows
  have hd := viewIndices_defined (m := m) as hm
  cases hv : viewIndices m as with
  | none => simp [hv] at hd
  | some is =>
    simp only [Option.bind_some]
    apply rowsAt_defined
    intro i hi
    have hf := viewIndices_spec (m := m) hv
    have : ∀ (as : List AtomId) (is : List Nat), Rel2 (fun a i => a ∈ m.ids ∧ i = m.ids.idxOf a) as is →
        ∀ i ∈ is, i < m.ids.length := by
      intro as is hf
      induction hf with
      | nil => intro i h; cases h
      | cons h1 _ ih =>
        intro i h
        rcases List.mem_cons.mp h with h | h
        · rw [h, h1.2]; exact List.idxOf_lt_length_of_mem h1.1
        · exact ih i h
    have hlt := this as is hf i hi
    have hl := congrArg List.length h.rowTags
    simp only [List.length_map] at hl
    omega

/-- "the view shows exactly the rows of its own atoms (by identity)": whatever the molecule went through, the k-th row a
view reads is the row that belongs to the k-th atom object the view holds. -/
theorem view_shows_own_rows {m : Mol} (h : MInv m) (as : List AtomId) (ps : List Nat) (hr : viewRows m as = some ps) :
    Rel2 (fun a p => (a, p) ∈ m.rows) as ps := by
  unfold viewRows at hr
  cases hv : viewIndices m as with
  | none => simp [hv] at hr
  | some is =>
    simp only [hv, Option.bind_some] at hr
    exact rowsAt_spec h.rowTags (viewIndices_spec (m := m) hv) hr

/-- … in particular after any edit history of the parent. -/
theorem view_after_history {m : Mol} (h : MInv m) (ops : List Op) (as : List AtomId) (ps : List Nat)
    (hr : viewRows (run m ops) as = some ps) : Rel2 (fun a p => (a, p) ∈ (run m ops).rows) as ps :=
  view_shows_own_rows (inv_history h ops) as ps hr

/-- "a write through it must land on those atoms": after a successful write through a view (holding distinct atoms) the
row of its k-th atom is the k-th coordinate written; atoms, charges and bonds are untouched. -/
theorem view_write_lands {m m' : Mol} (h : MInv m) (as : List AtomId) (ps : List Nat) (hn : as.Nodup)
    (hs : step m (.viewWrite as ps) = (m', .ok)) :
    Rel2 (fun a p => (a, p) ∈ m'.rows) as ps ∧ m'.atoms = m.atoms ∧ m'.charges = m.charges ∧ m'.bonds = m.bonds := by
  have h' := inv_step h (.viewWrite as ps)
  rw [hs] at h'
  simp only [step] at hs
  cases hv : viewIndices m as with
  | none => simp [hv] at hs
  | some is =>
    rw [hv] at hs
    dsimp only at hs
    by_cases hl : ps.length = as.length
    · rw [if_pos hl] at hs
      simp only [Prod.mk.injEq, and_true] at hs
      subst hs
      refine ⟨?_, rfl, rfl, rfl⟩
      have hlen : m.rows.length = m.ids.length := by
        have := congrArg List.length h.rowTags; simpa using this
      have hl' := writeRows_lands (ids := m.ids) is as ps m.rows hlen hn hl (viewIndices_spec (m := m) hv)
      exact Rel2.imp (fun a p hx => List.mem_of_getElem? hx) hl'
    · rw [if_neg hl] at hs; cases hs

/-- `mol.atomic_charges = array`: afterwards atom k has the k-th value of the array — the values at the time of the assignment;
the array of the caller is not part of the molecule (it appears nowhere in the state), so whatever the caller does with it later
cannot change a charge. -/
theorem charge_write_lands {m : Mol} (ps : List Nat) (hl : ps.length = m.atoms.length) :
    (step m (.chargeWrite ps)).1.charges = List.zipWith (fun a p => (a.id, some p)) m.atoms ps ∧
    (step m (.chargeWrite ps)).1.rows = m.rows ∧ (step m (.chargeWrite ps)).1.atoms = m.atoms := by
  simp only [step, if_pos hl, and_self]

/-- Edits made through a view that concern the view's own lists (deleting / appending / connecting bonds in the view, and the
calls that are not defined on a view) leave the molecule exactly as it is — in particular every bond of the molecule keeps
naming the molecule as parent and keeps its index. -/
theorem view_local_frame (m : Mol) : step m .viewLocal = (m, .ok) := rfl

/-- … and every other atom keeps its row (frame): `survivor_payload` with the view's atoms excluded. -/
theorem view_write_frame {m : Mol} (h : MInv m) (as : List AtomId) (ps : List Nat) (a : AtomId) (ha : a ∈ m.ids)
    (hna : a ∉ as) : ∀ p, (a, p) ∈ m.rows → (a, p) ∈ (step m (.viewWrite as ps)).1.rows :=
  (keeps_viewWrite h as ps a ha hna).1

/-! ## "… and its correct index" -/

/-- The atom at position `i` is found at position `i`: `a.idx`, `index_atom(a)`, `get_atom_index(a)`. -/
theorem atom_index_correct {m : Mol} (h : MInv m) (i : Nat) (hi : i < m.atoms.length) :
    idxOfId m.ids m.atoms[i].id = i ∧ resolveIndex m.atoms (.obj m.atoms[i].id) = some i := by
  have hi' : i < m.ids.length := by simpa [Mol.ids] using hi
  have hg : m.ids[i] = m.atoms[i].id := by simp [Mol.ids]
  have h1 : idxOfId m.ids m.atoms[i].id = i := by
    have := List.Nodup.idxOf_getElem h.nodup i hi'
    rw [hg] at this; exact this
  refine ⟨h1, ?_⟩
  have hm : m.atoms[i].id ∈ m.atoms.map (·.id) := List.mem_map.mpr ⟨_, List.getElem_mem hi, rfl⟩
  simp only [resolveIndex, if_pos hm]
  exact congrArg some h1

/-- The bond object at position `j` is found at position `j` (`index_bond` by identity). -/
theorem bond_index_correct {m : Mol} (h : MInv m) (j : Nat) (hj : j < m.bonds.length) :
    (m.bonds.map (·.id)).idxOf m.bonds[j].id = j := by
  have hj' : j < (m.bonds.map (·.id)).length := by simpa using hj
  have := List.Nodup.idxOf_getElem h.bondNodup j hj'
  simpa using this

/-- … after any history. -/
theorem indices_correct {m : Mol} (h : MInv m) (ops : List Op) :
    (∀ i (hi : i < (run m ops).atoms.length), idxOfId (run m ops).ids (run m ops).atoms[i].id = i) ∧
    (∀ j (hj : j < (run m ops).bonds.length), ((run m ops).bonds.map (·.id)).idxOf (run m ops).bonds[j].id = j) :=
  ⟨fun i hi => (atom_index_correct (inv_history h ops) i hi).1, fun j hj => bond_index_correct (inv_history h ops) j hj⟩

/-! ## the executable check used by the driver -/

/-- The Boolean check the driver prints after every step (`inv=1`) implies the invariant. -/
theorem invB_sound {m : Mol} (hb : invB m = true) : MInv m := Molli.Lemmas.MolEdit.invB_sound hb

/-! ## non-vacuity: a concrete molecule and a concrete history -/

/-- a 4-atom molecule C(-H)-O-H with charges, as a reader builds it -/
def demo : Mol :=
  loaded .molecule
    [⟨6, some 1, 11, 21⟩, ⟨8, some 2, 12, 22⟩, ⟨1, none, 13, 23⟩, ⟨1, none, 14, 24⟩]
    [(0, 1), (1, 2), (0, 3)]

/-- a history with every kind of edit: new atom, delete by element, foreign bond end, delete by
negative index (refused on a Molecule), delete by object, second bond between the same atoms,
delete bond, remove substituent, hydrogens -/
def demoOps : List Op :=
  [.newAtom 7 (some 5) 15, .delAtom (.elem 8), .appendBond ⟨.own 0, 6, some 1⟩ ⟨.ext 1, 9, none⟩,
   .delAtom (.idx (-1)), .addAtom ⟨.ext 2, 6, none⟩ 16 (some 26), .connect (.obj (.own 0)) (.obj (.ext 2)),
   .connect (.obj (.ext 2)) (.obj (.own 0)), .delBond 9, .removeSubstituent (.obj (.own 0)) (.obj (.ext 2)) (some 7),
   .addHydrogens [(.own 0, 17), (.own 0, 18)], .delAtom (.label 5),
   .viewWrite [.own 13, .own 0] [71, 72], .viewRead [.own 0, .own 13],
   .appendBond ⟨.own 0, 6, some 1⟩ ⟨.own 1, 8, some 2⟩, .appendBondObj 4 ⟨.own 1, 8, some 2⟩ ⟨.own 2, 1, none⟩,
   .appendBondObj 4 ⟨.own 1, 8, some 2⟩ ⟨.own 2, 1, none⟩, .delAtom (.obj (.own 4))]

example : MInv demo := inv_init_loaded _ _ _
example : (run demo demoOps).ids = [.own 0, .own 2, .own 3, .ext 1, .own 11, .own 13, .own 15, .own 1] := by decide
example : (run demo demoOps).rows.map (·.2) = [72, 13, 14, 0, 16, 71, 18, 0] := by decide
example : viewRows (run demo demoOps) [.own 0, .own 13] = some [72, 71] := by decide
/-- a view made before a count-preserving edit pair (delete + create) still reads its own atoms -/
example : viewRows (run demo [.viewRead [.own 2, .own 3], .delAtom (.idx 0), .newAtom 6 none 99]) [.own 2, .own 3] = some [13, 14] := by decide
example : (run demo demoOps).charges.map (·.2) = [some 21, some 23, some 24, some 0, some 0, some 0, some 0, some 0] := by decide
/-- the bond object 4 (o1–o2), deleted with atom o1 by the second op, is back after the stale handles were re-used -/
example : 4 ∈ (run demo demoOps).bonds.map (·.id) := by decide
example : invB (run demo demoOps) = true := by decide
example : (step demo (.delAtom (.elem 8))).2 = .ok ∧
    (step demo (.delAtom (.elem 8))).1.bonds.map (·.id) = [6] := by decide
example : .own 0 ∈ demo.ids ∧ .own 0 ∈ (step demo (.delAtom (.elem 8))).1.ids := by decide

/-! ## the defects of the unrepaired routines, replayed on the model

Each is the shipped routine written out, applied to `demo`; the result violates `MInv`
(these are the witnesses the harness finds on the unrepaired tree). -/

/-- D09: `Molecule.del_atom(Element.O)` as shipped takes the charge index from
`get_atom_index`, where an `Element` is matched as the integer 8 — here simply "a different position". -/
def shippedDelByElement (m : Mol) (e : Nat) (wrongIdx : Nat) : Mol :=
  match resolveAtom m.atoms (.elem e) with
  | some a => delAt m wrongIdx a
  | none => m

theorem shipped_D09_misaligns : ¬ MInv (shippedDelByElement demo 8 3) := by
  intro h
  have := h.chargeTags
  revert this
  decide

/-- D08: `append_bond` as shipped adopts a foreign atom without row and charge. -/
def shippedAdopt (m : Mol) (s : AtomSpec) : Mol := { m with atoms := m.atoms ++ [mkAtom s] }

theorem shipped_D08_misaligns : ¬ MInv (shippedAdopt demo ⟨.ext 1, 6, none⟩) := by
  intro h
  have := rows_length h
  revert this
  decide

/-- D07: `add_atom` as shipped stores `None` as the charge. -/
def shippedPushAtom (m : Mol) (s : AtomSpec) (c : Nat) : Mol :=
  { pushAtom m s c none with charges := m.charges ++ [(s.id, none)] }

theorem shipped_D07_not_numeric : ¬ MInv (shippedPushAtom demo ⟨.ext 1, 6, none⟩ 15) := by
  intro h
  have := h.numeric (.ext 1, none) (by decide)
  revert this
  decide

end Molli.Props.C05
