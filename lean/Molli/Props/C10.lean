/-
C10 — Damaged or truncated input is rejected, never returned as a partial molecule.

  "For any text handed to the mol2 or xyz readers, the result is either an exception or a sequence of
   complete molecules: each has exactly the atom and bond counts its own header declares and the same
   content as the corresponding molecule of the undamaged file. The readers terminate on every input."

The reader models (`Molli.Model.Mol2`, `Molli.Model.Xyz`) are total functions on ARBITRARY texts; the
theorems of the first part quantify over every text (`Str`).  Reading of "same content" (DESIGN §6 C10):
for truncations the returned molecules are a content-equal prefix of the undamaged file's molecules
(`truncation_prefix`, `xyz_truncation_lines`, `xyz_truncation_partial`); for every other damage the part
that is about the reader is decided: termination, counts equal to the molecule's own header, and nothing
crosses a molecule boundary (`no_cross_molecule_state`).

"Terminates": the models run the loops of the code on an explicit fuel (`number of lines + 1`); the
termination theorems say the fuel is never exhausted — the put-back of the status line and the
count-driven loops always consume input.

The full truncation statement is FALSE for xyz (and stays false for any sensible reader of the format):
`xyz_truncation_statement`, `xyz_tail_counterexample` (known finding D22), `xyz_truncation_partial`.
-/
import Molli.Lemmas.Complete
import Molli.Lemmas.Mol2Truncation
import Molli.Lemmas.Mol2TruncationBytes
import Molli.Lemmas.XyzTruncation
import Molli.Gen.Mol2Types
import Molli.Props.C07
namespace Molli.Props.C10
open Molli.Model.Text Molli.Model.Mol2Types
open Molli.Gen.Mol2Types (table bonds)

/-! ### mol2: every text -/
section mol2
open Molli.Model.Mol2 Molli.Lemmas.Mol2Reader Molli.Lemmas.Complete

/-- "The readers terminate on every input" (mol2): on every text, for either class and any name
argument, `loads_all_mol2` never exhausts the fuel `number of lines + 1`. -/
theorem read_terminates (k : Kind) (name : Option Str) (text : Str) :
    loadsAll table bonds k name text ≠ .error .fuel :=
  loadsAll_ne_fuel table bonds k name text

/-- the block reader alone, from any state and on any list of lines: fuel beyond the number of lines
is never used (the explicit measure: every iteration — including the one after a put-back — consumes a line) -/
theorem read_blocks_terminate (f : Nat) (st : RSt) (ls : List Str) (h : ls.length < f) :
    readLoop f st ls ≠ .error .fuel :=
  readLoop_terminates f st ls h

/-- `read_complete_or_error`: "the result is either an exception or a sequence of complete molecules: each
has exactly the atom and bond counts its own header declares" — for EVERY text: if `loads_all_mol2`
returns molecules `ms`, the text had as many `@<TRIPOS>MOLECULE` blocks `bs`, and molecule `i` has exactly
`bs[i].header.nAtoms` atoms and `bs[i].header.nBonds` bonds. -/
theorem read_complete_or_error (k : Kind) (name : Option Str) (text : Str) (ms : List MolV)
    (h : loadsAll table bonds k name text = .ok ms) :
    ∃ bs, readBlocks text = .ok bs ∧
      Forall2 (fun (b : Block) (m : MolV) =>
        (m.atoms.length : Int) = b.header.nAtoms ∧ some (m.bonds.length : Int) = b.header.nBonds) bs ms :=
  loadsAll_complete table bonds k name text ms h

/-- the driver reports, beside each molecule, every further field the reader fills (formal charges, atom and bond
attributes: `loadsAllEx`); its molecules are exactly those of `loadsAll`, and it fails exactly when `loadsAll` fails -/
theorem loadsAllEx_fst (k : Kind) (name : Option Str) (text : Str) :
    (match loadsAllEx table bonds k name text with
     | .ok xs => .ok (xs.map (·.1))
     | .error e => .error e) = loadsAll table bonds k name text := by
  unfold loadsAllEx loadsAll
  cases readBlocks text with
  | error e => rfl
  | ok bs =>
    simp only
    induction bs with
    | nil => rfl
    | cons b bs ih =>
      simp only [mapE]
      cases hb : buildMol table bonds k name b with
      | error e => rfl
      | ok m =>
        simp only
        revert ih
        cases mapE (fun b => match buildMol table bonds k name b with
            | .ok m => Except.ok (m, blockExtras b)
            | .error e => .error e) bs with
        | error e =>
          intro ih
          cases hm : mapE (buildMol table bonds k name) bs with
          | error e' => simp only [hm] at ih ⊢; simpa using ih
          | ok r => simp [hm] at ih
        | ok xs =>
          intro ih
          cases hm : mapE (buildMol table bonds k name) bs with
          | error e' => simp [hm] at ih
          | ok r => simp only [hm, Except.ok.injEq] at ih ⊢; simp [ih]

/-- `no_cross_molecule_state`: "never … a block mixing two molecules": whatever the reader has seen before
(any state `st`), from a `@<TRIPOS>MOLECULE` line on it returns exactly what it returns for that text
alone, after the block that was pending; no atom or bond read earlier can enter a later molecule.
(False of the unrepaired reader — defect D21.) -/
theorem no_cross_molecule_state (f : Nat) (st : RSt) (line : Str) (ls : List Str)
    (hne : line ≠ []) (hc : line.head? ≠ some '#') (htag : triposTag line = some "MOLECULE".toList) :
    readLoop (f + 1) st (line :: ls) =
      (match readLoop (f + 1) RSt.init (line :: ls) with
       | .ok more => .ok (flush st ++ more)
       | .error e => .error e) :=
  readLoop_molecule_independent f st line ls hne hc htag

/-- `surplus_record_rejected`: line-skipping switched on by an unsupported `@<TRIPOS>` block ends at the next
tag. Whatever state the reader is in when it meets `@<TRIPOS>ATOM` (in particular `skip = true` after a
`@<TRIPOS>COMMENT` / `SUBSTRUCTURE` block), once the declared number of atom records has been read a following
line that is neither blank, nor a comment, nor a tag is a syntax error — so a text in which an atom record was
duplicated (the last record falls out of the count-driven loop) is rejected, never returned with the
duplicate in place of the last atom. -/
theorem surplus_record_rejected (f : Nat) (st : RSt) (h : Header) (tagLine : Str) (al : List Str) (recs : List Rec)
    (stray : Str) (rest : List Str)
    (hh : st.hdr = some h) (htag : triposTag tagLine = some "ATOM".toList)
    (hne0 : tagLine ≠ []) (hc0 : tagLine.head? ≠ some '#')
    (hlen : al.length = h.nAtoms.toNat) (hrecs : mapE atomRec al = .ok recs)
    (hne : stray ≠ []) (hc : stray.head? ≠ some '#') (hnt : triposTag stray = none) :
    readLoop (f + 2) st (tagLine :: (al ++ stray :: rest)) = .error .syntax := by
  rw [readLoop_step]
  have hs : step st tagLine (al ++ stray :: rest) =
      .ok ([], { st with atoms := some recs, skip := false }, stray :: rest) := by
    unfold step
    rw [if_neg hne0, if_neg hc0, htag]
    have hne1 : ¬ ("ATOM".toList = "MOLECULE".toList) := by decide
    simp only [hne1, if_false, if_true, hh]
    rw [← hlen, takeLines_append]
    simp only [hrecs]
  rw [hs, cont_nil, readLoop_step]
  have hs2 : step { st with atoms := some recs, skip := false } stray rest = .error .syntax := by
    unfold step
    rw [if_neg hne, if_neg hc, hnt]
    simp
  rw [hs2]
  rfl

/-- the same for the BOND section -/
theorem surplus_bond_record_rejected (f : Nat) (st : RSt) (h : Header) (nb : Int) (tagLine : Str) (bl : List Str)
    (recs : List Rec) (stray : Str) (rest : List Str)
    (hh : st.hdr = some h) (hnb : h.nBonds = some nb) (htag : triposTag tagLine = some "BOND".toList)
    (hne0 : tagLine ≠ []) (hc0 : tagLine.head? ≠ some '#')
    (hlen : bl.length = nb.toNat) (hrecs : mapE bondRec bl = .ok recs)
    (hne : stray ≠ []) (hc : stray.head? ≠ some '#') (hnt : triposTag stray = none) :
    readLoop (f + 2) st (tagLine :: (bl ++ stray :: rest)) = .error .syntax := by
  rw [readLoop_step]
  have hs : step st tagLine (bl ++ stray :: rest) =
      .ok ([], { st with bonds := some recs, skip := false }, stray :: rest) := by
    unfold step
    rw [if_neg hne0, if_neg hc0, htag]
    have hne1 : ¬ ("BOND".toList = "MOLECULE".toList) := by decide
    have hne2 : ¬ ("BOND".toList = "ATOM".toList) := by decide
    simp only [hne1, hne2, if_false, if_true, hh, hnb]
    rw [← hlen, takeLines_append]
    simp only [hrecs]
  rw [hs, cont_nil, readLoop_step]
  have hs2 : step { st with bonds := some recs, skip := false } stray rest = .error .syntax := by
    unfold step
    rw [if_neg hne, if_neg hc, hnt]
    simp
  rw [hs2]
  rfl

/-- non-vacuity and the concrete shape of the damage: an unsupported block in front of ATOM, the first atom
line duplicated — rejected (a reader that keeps skipping after the unsupported block returns C, C instead of C, O) -/
example : (loadsAll table bonds .molecule none
    ("@<TRIPOS>MOLECULE\nm\n2 0\nS\nNO_CHARGES\n\n@<TRIPOS>COMMENT\nby a tool\n@<TRIPOS>ATOM\n" ++
     "1 C 0 0 0 C\n1 C 0 0 0 C\n2 O 0 0 1 O\n@<TRIPOS>BOND\n").toList).toOption = none := by
  decide +kernel

/-- `mol2_atom_tail_counterexample` (known finding, the mol2 twin of D22): in a FOREIGN layout whose last record
is an atom line (ATOM section after BOND) a cut inside the last token is accepted with a different value:
charge `0.25` cut to `0.2`. Texts written by molli end in a bond line, for which `truncation_last_record` holds. -/
theorem mol2_atom_tail_counterexample :
    ((loadsAll table bonds .molecule none
      "@<TRIPOS>MOLECULE\nm\n1 0\nS\nUSER_CHARGES\n\n@<TRIPOS>BOND\n@<TRIPOS>ATOM\n1 C 0 0 0 C 1 U 0.25\n".toList).toOption.map
        (fun ms => ms.map (fun m => m.atoms.map (·.charge)))) = some [[.fin false 25 (-2)]] ∧
    ((loadsAll table bonds .molecule none
      "@<TRIPOS>MOLECULE\nm\n1 0\nS\nUSER_CHARGES\n\n@<TRIPOS>BOND\n@<TRIPOS>ATOM\n1 C 0 0 0 C 1 U 0.2".toList).toOption.map
        (fun ms => ms.map (fun m => m.atoms.map (·.charge)))) = some [[.fin false 2 (-1)]] := by
  decide +kernel

/-- `mol2_attribute_section_counterexample` (known finding): in a FOREIGN layout an optional UNITY attribute
section may follow the last record section; a text cut exactly in front of it is a well-formed file that never had
the section, so the molecule comes back complete but without the attribute (formal charge 1 becomes 0). A cut inside
the section is rejected. molli never writes such a section. -/
theorem mol2_attribute_section_counterexample :
    ((loadsAllEx table bonds .molecule none
      "@<TRIPOS>MOLECULE\nm\n1 0\nS\nNO_CHARGES\n\n@<TRIPOS>ATOM\n1 N 0 0 0 N.4\n@<TRIPOS>BOND\n@<TRIPOS>UNITY_ATOM_ATTR\n1 1\ncharge 1\n@<TRIPOS>X\n".toList).toOption.map
        (fun xs => xs.map (fun x => x.2.1.map (·.1)))) = some [[1]] ∧
    ((loadsAllEx table bonds .molecule none
      "@<TRIPOS>MOLECULE\nm\n1 0\nS\nNO_CHARGES\n\n@<TRIPOS>ATOM\n1 N 0 0 0 N.4\n@<TRIPOS>BOND\n".toList).toOption.map
        (fun xs => xs.map (fun x => x.2.1.map (·.1)))) = some [[0]] ∧
    ((loadsAllEx table bonds .molecule none
      "@<TRIPOS>MOLECULE\nm\n1 0\nS\nNO_CHARGES\n\n@<TRIPOS>ATOM\n1 N 0 0 0 N.4\n@<TRIPOS>BOND\n@<TRIPOS>UNITY_ATOM_ATTR\n1 1\n".toList).toOption) = none := by
  decide +kernel

/-- `truncation_prefix` (mol2): "for every truncation point (all line boundaries)": the text of any
number of admissible molecules written by molli, cut after any number `n` of lines, is rejected or gives
exactly the first `j` molecules, each equal to what the undamaged text gives — never a partial molecule. -/
theorem truncation_prefix (k : Kind) (ms : List MolV)
    (hm : ∀ x ∈ ms, Molli.Lemmas.Mol2RoundTrip.Admissible table bonds x) (n : Nat) :
    (∃ j, j ≤ ms.length ∧
      loadsAll table bonds k none (joinLines ((ms.flatMap (writeLines table bonds k)).take n)) =
        .ok ((ms.take j).map (Molli.Lemmas.Mol2Values.normMol table bonds k))) ∨
    (∃ e, loadsAll table bonds k none (joinLines ((ms.flatMap (writeLines table bonds k)).take n)) = .error e) :=
  Molli.Lemmas.Mol2Truncation.loadsAll_take_lines table bonds Molli.Props.C07.tablesOk k ms hm n

/-- `truncation_last_record` (mol2): "all byte offsets of the last record": the text of admissible molecules
`ms ++ [m]` written by molli and cut INSIDE its last line (all lines but the last, then a proper prefix `p` of
the last line `l`) is rejected or gives exactly the first `j` molecules of the undamaged text — the last record
is a bond line whose final type token has no acceptable proper prefix (generated obligation
`bond_token_prefix_free`), or the line `@<TRIPOS>BOND`. -/
theorem truncation_last_record (k : Kind) (ms : List MolV) (m : MolV)
    (hm : ∀ x ∈ ms ++ [m], Molli.Lemmas.Mol2RoundTrip.Admissible table bonds x)
    (l : Str) (hl : (Molli.Lemmas.Mol2TruncationBytes.allLines table bonds k (ms ++ [m])).getLast? = some l)
    (p : Str) (hp : p <+: l) (hne : p ≠ l) :
    (∃ j, j ≤ (ms ++ [m]).length ∧
      loadsAll table bonds k none
        (joinLines ((Molli.Lemmas.Mol2TruncationBytes.allLines table bonds k (ms ++ [m])).dropLast) ++ p) =
        .ok (((ms ++ [m]).take j).map (Molli.Lemmas.Mol2Values.normMol table bonds k))) ∨
    (∃ e, loadsAll table bonds k none
        (joinLines ((Molli.Lemmas.Mol2TruncationBytes.allLines table bonds k (ms ++ [m])).dropLast) ++ p) = .error e) :=
  Molli.Lemmas.Mol2TruncationBytes.loadsAll_cut_last table bonds Molli.Props.C07.tablesOk k ms m hm l hl p hp hne

/-- non-vacuity of the hypotheses on arbitrary texts: a two-molecule text whose second molecule lost its
BOND section is rejected (the unrepaired reader returned it with the first molecule's bonds, D21) -/
example : (loadsAll table bonds .molecule none
    ("@<TRIPOS>MOLECULE\na\n1 0\nS\nNO_CHARGES\n\n@<TRIPOS>ATOM\n1 C 0 0 0 C\n@<TRIPOS>BOND\n" ++
     "@<TRIPOS>MOLECULE\nb\n1 0\nS\nNO_CHARGES\n\n@<TRIPOS>ATOM\n1 C 0 0 0 C\n").toList).toOption = none := by
  decide +kernel

end mol2

/-! ### xyz -/
section xyz
open Molli.Model.Xyz Molli.Lemmas.XyzReader Molli.Lemmas.XyzTruncation Molli.Lemmas.Complete

/-- "The readers terminate on every input" (xyz) -/
theorem xyz_read_terminates (text : Str) : loadsAll table text ≠ .error .fuel :=
  xyz_loadsAll_ne_fuel table text

/-- `xyz_complete_or_error`: for every text, every returned frame has exactly the number of atoms its own
count line declares -/
theorem xyz_complete_or_error (text : Str) (fs : List Frame) (h : loadsAll table text = .ok fs) :
    ∃ bs, readBlocks text = .ok bs ∧
      Forall2 (fun (b : RawBlock) (f : Frame) => (f.atoms.length : Int) = b.n) bs fs :=
  xyz_loadsAll_complete table text fs h

/-- the frames are inside the domain: valid elements, one-line comment -/
def FramesOk (fs : List Frame) : Prop := ∀ f ∈ fs, (∀ a ∈ f.atoms, a.e < table.nE) ∧ '\n' ∉ f.comment

/-- `xyz_truncation_lines`: an xyz text written by molli, cut after any number of lines, is rejected or
gives exactly the complete frames -/
theorem xyz_truncation_lines (fs : List Frame) (hf : FramesOk fs) (k : Nat) :
    (∃ j, j ≤ fs.length ∧
      loadsAll table (joinLines ((fs.flatMap (frameLines table)).take k)) = .ok ((fs.take j).map normFrame)) ∨
    (∃ e, loadsAll table (joinLines ((fs.flatMap (frameLines table)).take k)) = .error e) :=
  loadsAll_take_lines table Molli.Gen.Mol2Types.symbol_roundtrip Molli.Gen.Mol2Types.tokens_wellformed.2.1 fs hf k

/-- two numbers denote the same value (signed zeros identified; inf/nan only equal to themselves) -/
def sameNum : Num → Num → Prop
  | .fin n1 m1 e1, .fin n2 m2 e2 => Num.toRat (.fin n1 m1 e1) = Num.toRat (.fin n2 m2 e2)
  | a, b => a = b

def sameAtom (a b : XAtom) : Prop :=
  a.e = b.e ∧ a.dummy = b.dummy ∧ sameNum a.x b.x ∧ sameNum a.y b.y ∧ sameNum a.z b.z

/-- content equality of two frame lists: same atoms with the same values, frame by frame -/
def sameContent (r s : List Frame) : Prop :=
  Forall2 (fun (f g : Frame) => Forall2 sameAtom f.atoms g.atoms) r s

theorem sameNum_refl (a : Num) : sameNum a a := by cases a <;> simp [sameNum]

theorem sameContent_of_content_eq : ∀ (r s : List Frame), content r = content s → sameContent r s := by
  intro r
  induction r with
  | nil => intro s h; cases s with
    | nil => exact .nil
    | cons g s => simp [content] at h
  | cons f r ih =>
    intro s h
    cases s with
    | nil => simp [content] at h
    | cons g s =>
      simp only [content, List.map_cons, List.cons.injEq] at h
      refine .cons ?_ (ih s h.2)
      rw [h.1]
      generalize g.atoms = l
      induction l with
      | nil => exact .nil
      | cons a l ihl => exact .cons ⟨rfl, rfl, sameNum_refl _, sameNum_refl _, sameNum_refl _⟩ ihl

/-- The full truncation statement for xyz: EVERY byte prefix of a written text is rejected or gives
frames content-equal to a prefix of the undamaged file's frames. It is false (next theorem). -/
def xyz_truncation_statement : Prop :=
  ∀ (fs : List Frame), FramesOk fs → ∀ n : Nat,
    ∀ r, loadsAll table ((writeText table fs).take n) = .ok r →
      ∃ j, j ≤ fs.length ∧ sameContent r ((fs.take j).map normFrame)

/-- the witness: one frame, one hydrogen at z = 1.275 -/
def tailWitness : List Frame := [⟨"w".toList, [⟨1, false, .fin false 0 0, .fin false 0 0, .fin false 1275 (-3)⟩]⟩]

theorem toOption_some {α : Type} (x : Except Err α) (a : α) (h : x.toOption = some a) : x = .ok a := by
  cases x with
  | error e => simp [Except.toOption] at h
  | ok b => simp only [Except.toOption, Option.some.injEq] at h; rw [h]

theorem tailWitness_cut :
    loadsAll table ((writeText table tailWitness).take ((writeText table tailWitness).length - 5)) =
      .ok [⟨"w".toList, [⟨1, false, .fin false 0 (-6), .fin false 0 (-6), .fin false 127 (-2)⟩]⟩] := by
  apply toOption_some
  decide +kernel

/-- `xyz_tail_counterexample` (known finding D22): a cut inside the last coordinate token is accepted
with a DIFFERENT number: `…     1.275000` cut to `…     1.27` is a complete frame whose hydrogen sits at
z = 1.27, not 1.275. Inherent in the format: the shortened token is a valid number and the line still
has four fields. -/
theorem xyz_tail_counterexample : ¬ xyz_truncation_statement := by
  intro h
  have hok : FramesOk tailWitness := by
    intro f hf
    simp only [tailWitness, List.mem_singleton] at hf
    subst hf
    exact ⟨by intro a ha; simp only [List.mem_singleton] at ha; subst ha; decide, by decide⟩
  obtain ⟨j, hj, hsame⟩ := h tailWitness hok _ _ tailWitness_cut
  have hj1 : j = 1 := by
    have hlen : tailWitness.length = 1 := rfl
    have := hsame.length_eq
    simp only [List.length_cons, List.length_nil, List.length_map, List.length_take, tailWitness] at this
    omega
  subst hj1
  simp only [tailWitness, List.take_succ_cons, List.take_zero, List.map_cons, List.map_nil, normFrame, normAtom,
    sameContent] at hsame
  cases hsame with
  | cons h1 _ =>
    cases h1 with
    | cons ha _ =>
      have hz := ha.2.2.2.2
      simp only [roundNum, sameNum] at hz
      revert hz
      decide +kernel

/-- every byte prefix of a written text is: complete lines, then a prefix `p` of the next line -/
theorem cut_form (fs : List Frame) (n : Nat) :
    ∃ k p, k ≤ (fs.flatMap (frameLines table)).length ∧
      (writeText table fs).take n = joinLines ((fs.flatMap (frameLines table)).take k) ++ p ∧
      (p = [] ∨ ∃ l, (fs.flatMap (frameLines table))[k]? = some l ∧ p <+: l) :=
  Molli.Lemmas.Text.take_joinLines _ n

/-- `xyz_truncation_partial`: the strongest true statement. A written xyz text cut at ANY byte — written as
`complete lines ++ p` with `p` a prefix of the line `l` the cut falls into (`cut_form`) — is rejected or
gives frames content-equal to the first `j` frames of the undamaged text, PROVIDED the cut is not inside the
final coordinate token of an atom line: `p = l`, or `p` ends before the last token of `l` starts. -/
theorem xyz_truncation_partial (fs : List Frame) (hf : FramesOk fs)
    (k : Nat) (p l : Str) (hl : (fs.flatMap (frameLines table))[k]? = some l) (hp : p <+: l)
    (hz : ∀ f ∈ fs, ∀ a ∈ f.atoms, l = atomLine table a → p = l ∨ p.length + (fmtFixed 6 a.z).length ≤ l.length) :
    (∃ j r, j ≤ fs.length ∧
      loadsAll table (joinLines ((fs.flatMap (frameLines table)).take k) ++ p) = .ok r ∧
      sameContent r ((fs.take j).map normFrame)) ∨
    (∃ e, loadsAll table (joinLines ((fs.flatMap (frameLines table)).take k) ++ p) = .error e) := by
  rcases loadsAll_cut table Molli.Gen.Mol2Types.symbol_roundtrip Molli.Gen.Mol2Types.tokens_wellformed.2.1
    fs hf k p l hl hp hz with ⟨j, r, hj, hr, hc⟩ | ⟨e, he⟩
  · exact Or.inl ⟨j, r, hj, hr, sameContent_of_content_eq _ _ hc⟩
  · exact Or.inr ⟨e, he⟩

end xyz

end Molli.Props.C10
