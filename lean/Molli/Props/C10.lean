/- C10 (preliminary; replaced below by the full theorem set) -/
import Molli.Model.Mol2
import Molli.Model.Xyz
namespace Molli.Props.C10
open Molli.Model.Text Molli.Model.Mol2

theorem takeLines_len : ∀ n ls a r, takeLines n ls = .ok (a, r) → a.length = n ∧ r.length + n = ls.length := by
  intro n
  induction n with
  | zero => intro ls a r h; simp [takeLines] at h; obtain ⟨rfl, rfl⟩ := h; simp
  | succ n ih =>
    intro ls a r h
    cases ls with
    | nil => simp [takeLines] at h
    | cons l ls =>
      simp only [takeLines] at h
      split at h
      · rename_i a' r' hv
        simp only [Except.ok.injEq, Prod.mk.injEq] at h
        obtain ⟨rfl, rfl⟩ := h
        have := ih ls a' r' hv
        simp; omega
      · simp at h

end Molli.Props.C10
