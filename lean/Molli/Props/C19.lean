/-
C19 — Distance kernels and grid descriptors equal their mathematical definition.

  "The compiled distance-matrix kernels return, for any array shapes and either float width, the
   (squared) Euclidean distances a plain numpy evaluation gives. rectangular_grid returns the full
   lattice with the requested spacing, centred in and contained in the padded box;
   nearest_atom_index names the closest atom within the cut-off (else -1); prune keeps no point
   farther than the cut-off and drops none closer than cut-off/(1+eps); and aso / aeif equal the
   (weighted) conformer average of the occupancy / nearest-atom charge indicator defined by van der
   Waals spheres."

Reading.  Model: `Molli.Model.Grid`.  The kernels are generic in the number type: the shape and
entry theorems hold for `Float32`, `Float` and `ℚ` alike (same code, same summation order); over ℚ
`dist2` *is* the squared Euclidean distance.  That the binary32/binary64 evaluation of the same
expression is close to the exact value is IEEE rounding (assumption A-fp, measured on every run).
The descriptors are stated over ℚ: every float input is a rational, comparisons of distances are
made through their squares (`le_iff_sq_le`), and the implementation is compared away from a
rounding band around the sphere surfaces, as the property says.
All statements are for lists of any length (0 points, 0 conformers included where meaningful).
-/
import Molli.Lemmas.Grid
namespace Molli.Props.C19
open Molli.Model.Grid Molli.Lemmas.Grid

/-! ## distance kernels -/

/-- "for any array shapes": the result of `cdist22` has shape `(L1, L2)` — `L1` rows, every row of
length `L2` — for every number type and every element function (eu, eu2). -/
theorem cdist_shape {α β : Type} (f : P3 α → P3 α → β) (a b : List (P3 α)) :
    (cdist22With f a b).length = a.length ∧ ∀ row ∈ cdist22With f a b, row.length = b.length :=
  ⟨cdist22With_length f a b, cdist22With_row_length f a b⟩

/-- shape `(X, L1, L2)` of `cdist32`. -/
theorem cdist32_shape {α β : Type} (f : P3 α → P3 α → β) (a : List (List (P3 α))) (b : List (P3 α)) :
    (cdist32With f a b).length = a.length ∧
    ∀ (x : Nat) (c : List (P3 α)), a[x]? = some c → ∃ blk : List (List β), (cdist32With f a b)[x]? = some blk ∧ blk.length = c.length ∧
      ∀ row ∈ blk, row.length = b.length := by
  refine ⟨cdist32With_length f a b, ?_⟩
  intro x c hc
  refine ⟨cdist22With f c b, ?_, cdist22With_length f c b, cdist22With_row_length f c b⟩
  rw [cdist32With_block, hc]; rfl

/-- every entry `(i,j)` is the distance function applied to the pair `(a[i], b[j])`, and there are
no other entries (both sides are `none` outside the shape). Holds for every number type. -/
theorem cdist_entry {α β : Type} (f : P3 α → P3 α → β) (a b : List (P3 α)) (i j : Nat) :
    (cdist22With f a b)[i]?.bind (·[j]?) = a[i]?.bind fun p => b[j]?.map fun q => f p q :=
  cdist22With_entry f a b i j

/-- entry `(x,i,j)` of `cdist32` is `f (a[x][i]) (b[j])`. -/
theorem cdist32_entry {α β : Type} (f : P3 α → P3 α → β) (a : List (List (P3 α))) (b : List (P3 α))
    (x i j : Nat) :
    ((cdist32With f a b)[x]?.bind (·[i]?)).bind (·[j]?) =
      (a[x]?.bind (·[i]?)).bind fun p => b[j]?.map fun q => f p q := by
  rw [cdist32With_block]
  cases a[x]? with
  | none => rfl
  | some c => exact cdist22With_entry f c b i j

/-- "the (squared) Euclidean distances": over ℚ the entry computed in the code's summation order
is exactly `(Δx)² + (Δy)² + (Δz)²`. -/
theorem cdist_entry_exact (a b : List (P3 ℚ)) (i j : Nat) (p q : P3 ℚ)
    (hp : a[i]? = some p) (hq : b[j]? = some q) :
    (cdist22 a b)[i]?.bind (·[j]?) = some ((p.x - q.x) ^ 2 + (p.y - q.y) ^ 2 + (p.z - q.z) ^ 2) := by
  unfold cdist22
  rw [cdist_entry, hp, hq]
  simp [dist2_eq]

/-- the squared distance is a distance: non-negative, symmetric, zero exactly on equal points. -/
theorem dist2_metric (p q : P3 ℚ) : 0 ≤ dist2 p q ∧ dist2 p q = dist2 q p ∧ (dist2 p q = 0 ↔ p = q) :=
  ⟨dist2_nonneg p q, dist2_comm p q, dist2_eq_zero p q⟩

/-- the unsquared kernels (`*_eu`) return the non-negative root: a non-negative `d` with
`d² = dist2` is unique, and ordering by `d` is ordering by `d²`. -/
theorem root_unique (d e : ℚ) (hd : 0 ≤ d) (he : 0 ≤ e) (h : d * d = e * e) : d = e :=
  le_antisymm ((le_iff_sq_le d e hd he).mpr (le_of_eq h)) ((le_iff_sq_le e d he hd).mpr (le_of_eq h.symm))

example : cdist22 [(⟨0, 0, 0⟩ : P3 ℚ), ⟨1, 2, 3⟩] [⟨1, 1, 1⟩, ⟨0, 0, 1 / 2⟩, ⟨1, 2, 3⟩] =
    [[3, 1 / 4, 14], [5, 45 / 4, 0]] := by decide +kernel

/-! ## rectangular_grid -/

/-- number of lattice points on one axis, as a natural number -/
def count (lo hi s : ℚ) : Nat := (axisCount lo hi s).toNat

/-- "returns the full lattice": the grid has exactly `nx·ny·nz` points with
`n = ⌊(r − l + 2·pad)/s⌋ + 1` per axis. -/
theorem grid_count (l r : P3 ℚ) (pad s : ℚ) (hs : 0 < s)
    (hx : l.x - pad ≤ r.x + pad) (hy : l.y - pad ≤ r.y + pad) (hz : l.z - pad ≤ r.z + pad) :
    (rectGrid l r pad s).length =
      count (l.y - pad) (r.y + pad) s * (count (l.x - pad) (r.x + pad) s * count (l.z - pad) (r.z + pad) s) ∧
    (count (l.x - pad) (r.x + pad) s : ℤ) = ⌊(r.x + pad - (l.x - pad)) / s⌋ + 1 := by
  unfold rectGrid count
  rw [mesh_length, axis_length _ _ _ hs hx, axis_length _ _ _ hs hy, axis_length _ _ _ hs hz]
  refine ⟨rfl, ?_⟩
  have := axisCount_pos _ _ s hs hx
  rw [Int.toNat_of_nonneg (by omega)]; rfl

/-- "the full lattice": a point belongs to the grid iff each coordinate is a point of its axis, and
the axis points are `lo + o + i·s`, `i < n`. -/
theorem grid_mem (l r : P3 ℚ) (pad s : ℚ) (hs : 0 < s)
    (hx : l.x - pad ≤ r.x + pad) (hy : l.y - pad ≤ r.y + pad) (hz : l.z - pad ≤ r.z + pad) (p : P3 ℚ) :
    p ∈ rectGrid l r pad s ↔
      (∃ i : Nat, i < count (l.x - pad) (r.x + pad) s ∧
          p.x = l.x - pad + axisOffset (l.x - pad) (r.x + pad) s + (i : ℚ) * s) ∧
      (∃ j : Nat, j < count (l.y - pad) (r.y + pad) s ∧
          p.y = l.y - pad + axisOffset (l.y - pad) (r.y + pad) s + (j : ℚ) * s) ∧
      (∃ k : Nat, k < count (l.z - pad) (r.z + pad) s ∧
          p.z = l.z - pad + axisOffset (l.z - pad) (r.z + pad) s + (k : ℚ) * s) := by
  unfold rectGrid count
  rw [mesh_mem, axis_mem _ _ _ hs hx, axis_mem _ _ _ hs hy, axis_mem _ _ _ hs hz]

/-- the order of the returned rows: point number `(j·nx + i)·nz + k` is `(x_i, y_j, z_k)`. -/
theorem grid_order (l r : P3 ℚ) (pad s : ℚ) (hs : 0 < s)
    (hx : l.x - pad ≤ r.x + pad) (hy : l.y - pad ≤ r.y + pad) (hz : l.z - pad ≤ r.z + pad)
    (i j k : Nat) (hi : i < count (l.x - pad) (r.x + pad) s) (hj : j < count (l.y - pad) (r.y + pad) s)
    (hk : k < count (l.z - pad) (r.z + pad) s) :
    (rectGrid l r pad s)[(j * count (l.x - pad) (r.x + pad) s + i) * count (l.z - pad) (r.z + pad) s + k]? =
      some ⟨l.x - pad + axisOffset (l.x - pad) (r.x + pad) s + (i : ℚ) * s,
            l.y - pad + axisOffset (l.y - pad) (r.y + pad) s + (j : ℚ) * s,
            l.z - pad + axisOffset (l.z - pad) (r.z + pad) s + (k : ℚ) * s⟩ := by
  unfold rectGrid count at *
  have lx := axis_length _ _ _ hs hx
  have lz := axis_length _ _ _ hs hz
  rw [← lx, ← lz, mesh_get _ _ _ i j k (by omega) (by omega),
    axis_get _ _ _ hs hx i hi, axis_get _ _ _ hs hy j hj, axis_get _ _ _ hs hz k hk]
  rfl

/-- "with the requested spacing": consecutive points of an axis differ by exactly `s`. -/
theorem grid_spacing (lo hi s : ℚ) (hs : 0 < s) (hb : lo ≤ hi) (i : Nat) (a b : ℚ)
    (ha : (axis lo hi s)[i]? = some a) (hb' : (axis lo hi s)[i + 1]? = some b) : b - a = s := by
  have hlen := axis_length lo hi s hs hb
  have h1 : i + 1 < (axisCount lo hi s).toNat := by
    rw [← hlen]; exact (List.getElem?_eq_some_iff.mp hb').1
  rw [axis_get lo hi s hs hb i (by omega)] at ha
  rw [axis_get lo hi s hs hb (i + 1) h1] at hb'
  simp only [Option.some.injEq] at ha hb'
  rw [← ha, ← hb']; push_cast; ring

/-- "centred in the padded box": the first point is as far from the lower face as the last point is
from the upper face; this margin `o` satisfies `0 ≤ o` and `2·o < s`. -/
theorem grid_centred (lo hi s : ℚ) (hs : 0 < s) (hb : lo ≤ hi) :
    ∃ first last, (axis lo hi s).head? = some first ∧ (axis lo hi s).getLast? = some last ∧
      first - lo = hi - last ∧ first - lo = axisOffset lo hi s ∧
      0 ≤ axisOffset lo hi s ∧ 2 * axisOffset lo hi s < s := by
  have hpos := axisCount_pos lo hi s hs hb
  have hN := axisCount_toNat_cast lo hi s hs hb
  have hlen := axis_length lo hi s hs hb
  have hn : 0 < (axisCount lo hi s).toNat := by omega
  refine ⟨lo + axisOffset lo hi s, hi - axisOffset lo hi s, ?_, ?_, by ring, by ring,
    axisOffset_nonneg lo hi s hs, axisOffset_lt lo hi s hs⟩
  · rw [List.head?_eq_getElem?, axis_get lo hi s hs hb 0 hn]; simp
  · rw [List.getLast?_eq_getElem?, hlen, axis_get lo hi s hs hb _ (by omega)]
    congr 1
    have hc : (((axisCount lo hi s).toNat - 1 : Nat) : ℚ) = ((⌊(hi - lo) / s⌋ : ℤ) : ℚ) := by
      rw [Nat.cast_sub (by omega), hN]; simp
    rw [hc, axisOffset_eq]; ring

/-- "and contained in the padded box": every coordinate of every grid point lies in `[l − pad, r + pad]`. -/
theorem axis_contained (lo hi s : ℚ) (hs : 0 < s) (hb : lo ≤ hi) : ∀ x ∈ axis lo hi s, lo ≤ x ∧ x ≤ hi := by
  intro x hx
  obtain ⟨i, hi', rfl⟩ := (axis_mem lo hi s hs hb x).mp hx
  have hN := axisCount_toNat_cast lo hi s hs hb
  have ho := axisOffset_nonneg lo hi s hs
  have hi0 : (0 : ℚ) ≤ (i : ℚ) := Nat.cast_nonneg i
  have hile : (i : ℚ) + 1 ≤ ((axisCount lo hi s).toNat : ℚ) := by exact_mod_cast hi'
  have hfl := floor_mul_le lo hi s hs
  constructor
  · have := mul_nonneg hi0 (le_of_lt hs); linarith
  · rw [hN] at hile
    have h2 : (i : ℚ) * s ≤ ((⌊(hi - lo) / s⌋ : ℤ) : ℚ) * s := by
      apply mul_le_mul_of_nonneg_right _ (le_of_lt hs); linarith
    have ho2 : axisOffset lo hi s = ((hi - lo) - ((⌊(hi - lo) / s⌋ : ℤ) : ℚ) * s) / 2 := axisOffset_eq lo hi s
    linarith

theorem grid_contained (l r : P3 ℚ) (pad s : ℚ) (hs : 0 < s)
    (hx : l.x - pad ≤ r.x + pad) (hy : l.y - pad ≤ r.y + pad) (hz : l.z - pad ≤ r.z + pad) :
    ∀ p ∈ rectGrid l r pad s,
      (l.x - pad ≤ p.x ∧ p.x ≤ r.x + pad) ∧ (l.y - pad ≤ p.y ∧ p.y ≤ r.y + pad) ∧
      (l.z - pad ≤ p.z ∧ p.z ≤ r.z + pad) := by
  intro p hp
  unfold rectGrid at hp
  rw [mesh_mem] at hp
  exact ⟨axis_contained _ _ s hs hx _ hp.1, axis_contained _ _ s hs hy _ hp.2.1, axis_contained _ _ s hs hz _ hp.2.2⟩

/-- "the full lattice": no further point of the same lattice fits — `n` points with spacing `s` span
`(n−1)·s ≤ width`, while `n + 1` points would need `n·s > width`. -/
theorem grid_maximal (lo hi s : ℚ) (hs : 0 < s) (hb : lo ≤ hi) :
    ((count lo hi s : ℚ) - 1) * s ≤ hi - lo ∧ hi - lo < (count lo hi s : ℚ) * s := by
  unfold count
  rw [axisCount_toNat_cast lo hi s hs hb]
  refine ⟨?_, lt_floor_add_one_mul lo hi s hs⟩
  have := floor_mul_le lo hi s hs
  linarith

example : rectGrid ⟨0, 0, 0⟩ ⟨1, 1 / 2, 1 / 2⟩ (1 / 4) 1 =
    [⟨0, -1/4, -1/4⟩, ⟨0, -1/4, 3/4⟩, ⟨1, -1/4, -1/4⟩, ⟨1, -1/4, 3/4⟩,
     ⟨0, 3/4, -1/4⟩, ⟨0, 3/4, 3/4⟩, ⟨1, 3/4, -1/4⟩, ⟨1, 3/4, 3/4⟩] := by
  decide +kernel

example : (rectGrid ⟨0, 0, 0⟩ ⟨1, 2, 1 / 2⟩ (1 / 4) (3 / 5)).length = 30 ∧
    (rectGrid ⟨0, 0, 0⟩ ⟨1, 2, 1 / 2⟩ (1 / 4) (3 / 5))[7]? = some ⟨-1/10, 2/5, 11/20⟩ := by
  decide +kernel

/-! ## nearest_atom_index -/

/-- "names the closest atom within the cut-off (else -1)": either the answer is `-1` and every atom
is farther than `maxd`, or it is the index of an atom within `maxd` that no atom is closer than. -/
theorem nearest_spec (atoms : List (P3 ℚ)) (maxd : ℚ) (g : P3 ℚ) :
    (nearest atoms maxd g = -1 ∧ ∀ a ∈ atoms, maxd * maxd < dist2 a g) ∨
    (∃ (i : Nat) (a : P3 ℚ), nearest atoms maxd g = (i : ℤ) ∧ atoms[i]? = some a ∧
        dist2 a g ≤ maxd * maxd ∧ ∀ b ∈ atoms, dist2 a g ≤ dist2 b g) := by
  unfold nearest argmin
  cases h : argminFrom 0 (atoms.map fun a => dist2 a g) with
  | none =>
    left
    have := (argminFrom_none _ _).mp h
    have : atoms = [] := by simpa using this
    subst this; simp
  | some id =>
    obtain ⟨i, d⟩ := id
    obtain ⟨_, hget, hmin, _⟩ := argminFrom_spec 0 _ i d h
    simp only [Nat.sub_zero, List.getElem?_map, Option.map_eq_some_iff] at hget
    obtain ⟨a, ha, rfl⟩ := hget
    have hmin' : ∀ b ∈ atoms, dist2 a g ≤ dist2 b g := fun b hb => hmin _ (List.mem_map.mpr ⟨b, hb, rfl⟩)
    by_cases hle : dist2 a g ≤ maxd * maxd
    · right; exact ⟨i, a, by simp [hle], ha, hle, hmin'⟩
    · left
      refine ⟨by simp [hle], fun b hb => ?_⟩
      exact lt_of_lt_of_le (lt_of_not_ge hle) (hmin' b hb)

/-- the answer is `-1` or a valid atom index -/
theorem nearest_range (atoms : List (P3 ℚ)) (maxd : ℚ) (g : P3 ℚ) :
    nearest atoms maxd g = -1 ∨ (0 ≤ nearest atoms maxd g ∧ nearest atoms maxd g < atoms.length) := by
  rcases nearest_spec atoms maxd g with h | ⟨i, a, hi, ha, _⟩
  · exact Or.inl h.1
  · right
    have := (List.getElem?_eq_some_iff.mp ha).1
    rw [hi]; omega

example : (List.map (nearest [⟨0, 0, 0⟩, ⟨3, 0, 0⟩, ⟨0, 4, 0⟩] 2) [⟨1, 0, 0⟩, ⟨2, 0, 0⟩, ⟨1, 3, 0⟩, ⟨0, 2, 0⟩, ⟨9, 9, 9⟩]) =
    [0, 1, 2, 0, -1] := by decide +kernel

/-! ## prune -/

/-- KDTree's documented guarantee for `query(x, eps=ε, distance_upper_bound=m)`, as far as `prune`
uses it: a returned neighbour is a real data point within `m`; when nothing is returned, no data
point is closer than `m/(1+ε)` (distances compared through their squares). -/
def EpsQuery (atoms : List (P3 ℚ)) (maxd eps : ℚ) (q : P3 ℚ → Bool) : Prop :=
  ∀ g, (q g = true → ∃ a ∈ atoms, dist2 a g ≤ maxd * maxd) ∧
       (q g = false → ∀ a ∈ atoms, maxd * maxd < (1 + eps) * (1 + eps) * dist2 a g)

/-- "prune keeps no point farther than the cut-off and drops none closer than cut-off/(1+eps)" — for
every query procedure meeting the ε-guarantee; the kept indices are ascending without repetition. -/
theorem prune_bounds (atoms : List (P3 ℚ)) (maxd eps : ℚ) (q : P3 ℚ → Bool) (hq : EpsQuery atoms maxd eps q)
    (grid : List (P3 ℚ)) :
    (∀ n ∈ pruneWith q grid, ∃ g, grid[n]? = some g ∧ ∃ a ∈ atoms, dist2 a g ≤ maxd * maxd) ∧
    (∀ n g, grid[n]? = some g → n ∉ pruneWith q grid →
        ∀ a ∈ atoms, maxd * maxd < (1 + eps) * (1 + eps) * dist2 a g) ∧
    (pruneWith q grid).Pairwise (· < ·) := by
  unfold pruneWith
  refine ⟨?_, ?_, whereFrom_sorted q 0 grid⟩
  · intro n hn
    obtain ⟨_, g, hg, hqg⟩ := (whereFrom_mem q 0 grid n).mp hn
    exact ⟨g, by simpa using hg, (hq g).1 hqg⟩
  · intro n g hg hn
    have : q g = false := by
      cases hqg : q g with
      | false => rfl
      | true => exact absurd ((whereFrom_mem q 0 grid n).mpr ⟨Nat.zero_le _, g, by simpa using hg, hqg⟩) hn
    exact (hq g).2 this

/-- the exact neighbour search meets the guarantee for every `ε ≥ 0` (so the statement is not vacuous),
and with it `prune` keeps exactly the points within the cut-off. -/
theorem exact_query_ok (atoms : List (P3 ℚ)) (maxd eps : ℚ) (heps : 0 ≤ eps) :
    EpsQuery atoms maxd eps (withinCut atoms maxd) := by
  intro g
  unfold withinCut
  constructor
  · intro h
    rw [List.any_eq_true] at h
    obtain ⟨a, ha, hd⟩ := h
    exact ⟨a, ha, by simpa using hd⟩
  · intro h a ha
    have hn : ¬ dist2 a g ≤ maxd * maxd := by
      intro hle
      have : (atoms.any fun a => decide (dist2 a g ≤ maxd * maxd)) = true :=
        List.any_eq_true.mpr ⟨a, ha, by simpa using hle⟩
      rw [h] at this; exact Bool.noConfusion this
    have h1 : maxd * maxd < dist2 a g := lt_of_not_ge hn
    have h2 := dist2_nonneg a g
    have h3 : 1 ≤ (1 + eps) * (1 + eps) := by nlinarith
    nlinarith

/-- for an ensemble `prune` works on the atoms of ALL conformers (`np.vstack(ens.coords)`): a grid point within the
cut-off of an atom of any conformer is kept — conformer weights play no part in pruning. -/
theorem prune_keeps_point_near_any_conformer (ens : List (List (P3 ℚ))) (maxd : ℚ) (grid : List (P3 ℚ))
    (c : List (P3 ℚ)) (hc : c ∈ ens) (a : P3 ℚ) (ha : a ∈ c) (n : Nat) (g : P3 ℚ) (hg : grid[n]? = some g)
    (hd : dist2 a g ≤ maxd * maxd) : n ∈ pruneExact ens.flatten maxd grid := by
  unfold pruneExact pruneWith
  rw [whereFrom_mem]
  refine ⟨Nat.zero_le _, g, by simpa using hg, ?_⟩
  unfold withinCut
  rw [List.any_eq_true]
  exact ⟨a, List.mem_flatten.mpr ⟨c, hc, ha⟩, by simpa using hd⟩

example : pruneExact [⟨0, 0, 0⟩, ⟨3, 0, 0⟩] 1 [⟨1, 0, 0⟩, ⟨3 / 2, 0, 0⟩, ⟨5 / 2, 1 / 2, 0⟩, ⟨0, 2, 0⟩, ⟨3, 0, 1⟩] = [0, 2, 4] := by
  decide +kernel

/-! ## aso, aeif -/

/-- the occupancy indicator "defined by van der Waals spheres": a grid point is occupied by a
conformer iff it lies within the radius of at least one of its atoms. -/
theorem occupied_def (conf : List (P3 ℚ)) (radii : List ℚ) (g : P3 ℚ) :
    occupied conf radii g = true ↔
      ∃ (i : Nat) (a : P3 ℚ) (r : ℚ), conf[i]? = some a ∧ radii[i]? = some r ∧ dist2 a g ≤ r * r :=
  occupied_iff conf radii g

/-- "aso equals the (weighted) conformer average of the occupancy indicator": one value per grid point;
unweighted it is the fraction of conformers occupying the point, weighted it is `Σ wᵢ·occᵢ / Σ wᵢ`. -/
theorem aso_def (ens : List (List (P3 ℚ))) (radii : List ℚ) (grid : List (P3 ℚ)) (j : Nat) :
    (aso ens radii none grid)[j]? =
      grid[j]?.map (fun g => ((ens.countP fun c => occupied c radii g : Nat) : ℚ) / (ens.length : ℚ)) ∧
    ∀ w, (aso ens radii (some w) grid)[j]? =
      grid[j]?.map (fun g => dot w (ens.map fun c => indicator01 (occupied c radii g)) / rsum w) := by
  constructor
  · simp only [aso, average, List.getElem?_map, List.length_map, rsum_indicator_eq_count]
  · intro w
    simp only [aso, average, List.getElem?_map]

theorem aso_length (ens : List (List (P3 ℚ))) (radii : List ℚ) (w : Option (List ℚ)) (grid : List (P3 ℚ)) :
    (aso ens radii w grid).length = grid.length := by
  simp [aso]

/-- the descriptors are computed grid point by grid point: evaluating a grid in pieces (batches, chunks) and
concatenating gives the value on the whole grid — whatever the sizes of the pieces. -/
theorem aso_append (ens : List (List (P3 ℚ))) (radii : List ℚ) (w : Option (List ℚ)) (g1 g2 : List (P3 ℚ)) :
    aso ens radii w (g1 ++ g2) = aso ens radii w g1 ++ aso ens radii w g2 := by
  simp [aso]

theorem aeif_append (ens : List (List (P3 ℚ))) (charges : List (List ℚ)) (radii : List ℚ) (w : Option (List ℚ))
    (g1 g2 : List (P3 ℚ)) :
    aeif ens charges radii w (g1 ++ g2) = aeif ens charges radii w g1 ++ aeif ens charges radii w g2 := by
  simp [aeif, indicatorField]

/-- a geometry listed twice, with weights `w₁` and `w₂`, counts exactly like one listing with weight `w₁ + w₂` — every listing
enters the weighted average with its OWN weight -/
theorem duplicate_conformer_weights_add (w1 w2 v : ℚ) (ws vs : List ℚ) :
    average (some (w1 :: w2 :: ws)) (v :: v :: vs) = average (some ((w1 + w2) :: ws)) (v :: vs) := by
  simp only [average, dot, rsum]
  congr 1 <;> ring

/-- an average of indicators lies in `[0,1]` (non-negative weights with positive sum; or unweighted with
at least one conformer). -/
theorem aso_bounds (ens : List (List (P3 ℚ))) (radii : List ℚ) (w : Option (List ℚ)) (grid : List (P3 ℚ))
    (hw : match w with
      | none => ens ≠ []
      | some w => (∀ a ∈ w, 0 ≤ a) ∧ 0 < rsum w) :
    ∀ v ∈ aso ens radii w grid, 0 ≤ v ∧ v ≤ 1 := by
  intro v hv
  simp only [aso, List.mem_map] at hv
  obtain ⟨g, _, rfl⟩ := hv
  have h01 : ∀ a ∈ ens.map (fun c => indicator01 (occupied c radii g)), 0 ≤ a ∧ a ≤ 1 := by
    intro a ha
    obtain ⟨c, _, rfl⟩ := List.mem_map.mp ha
    unfold indicator01; split <;> constructor <;> norm_num
  cases w with
  | none =>
    simp only [average]
    have hlen : (0 : ℚ) < ((ens.map fun c => indicator01 (occupied c radii g)).length : ℚ) := by
      have : 0 < ens.length := List.length_pos_iff.mpr hw
      simpa using this
    constructor
    · exact div_nonneg (rsum_nonneg _ (fun a ha => (h01 a ha).1)) (le_of_lt hlen)
    · rw [div_le_one hlen]; exact rsum_le_length _ (fun a ha => (h01 a ha).2)
  | some w =>
    simp only [average]
    obtain ⟨hw0, hws⟩ := hw
    constructor
    · exact div_nonneg (dot_nonneg _ _ hw0 (fun a ha => (h01 a ha).1)) (le_of_lt hws)
    · rw [div_le_one hws]; exact dot_le_rsum _ _ hw0 (fun a ha => (h01 a ha).2)

/-- equal weights give the unweighted average. -/
theorem aso_uniform_weights (ens : List (List (P3 ℚ))) (radii : List ℚ) (grid : List (P3 ℚ)) (w : List ℚ) (c : ℚ)
    (hc : c ≠ 0) (hl : w.length = ens.length) (hw : ∀ a ∈ w, a = c) :
    aso ens radii (some w) grid = aso ens radii none grid := by
  unfold aso
  apply List.map_congr_left
  intro g _
  simp only [average]
  rw [dot_const w _ c (by simpa using hl) hw, rsum_const w c hw, List.length_map, hl]
  by_cases hn : (ens.length : ℚ) = 0
  · simp [hn]
  · field_simp

/-- inside a sphere there is always a nearest atom within the largest radius: the test `nearest ≥ 0`
of `atomic_indicator_field` never discards an occupied point. -/
theorem occupied_nearest (conf : List (P3 ℚ)) (radii : List ℚ) (g : P3 ℚ) (hr : ∀ r ∈ radii, 0 ≤ r)
    (h : occupied conf radii g = true) : 0 ≤ nearest conf (maxOf radii) g := by
  obtain ⟨i, a, r, ha, hri, hd⟩ := (occupied_iff conf radii g).mp h
  have hrm : r ∈ radii := List.mem_of_getElem? hri
  have h0 := hr r hrm
  have hM := maxOf_ge radii r hrm
  have hsq : r * r ≤ maxOf radii * maxOf radii := mul_self_le_mul_self h0 hM
  rcases nearest_spec conf (maxOf radii) g with ⟨_, hall⟩ | ⟨k, _, hk, _⟩
  · have := hall a (List.mem_of_getElem? ha)
    linarith
  · rw [hk]; omega

/-- "aeif equals the (weighted) conformer average of the nearest-atom charge indicator": per grid point
and conformer the value is the charge of the closest atom (`nearest_spec`) when the point lies inside
some van der Waals sphere, else 0; these values are averaged like `aso`. -/
theorem aeif_def (ens : List (List (P3 ℚ))) (charges : List (List ℚ)) (radii : List ℚ) (w : Option (List ℚ))
    (grid : List (P3 ℚ)) (hr : ∀ r ∈ radii, 0 ≤ r) (j : Nat) :
    (aeif ens charges radii w grid)[j]? =
      grid[j]?.map (fun g => average w (List.zipWith (fun c q =>
        if occupied c radii g = true then q.getD (nearest c (maxOf radii) g).toNat 0 else 0) ens charges)) := by
  simp only [aeif, indicatorField, List.getElem?_map]
  congr 1
  funext g
  have : (fun c v => indicatorAt c v radii (maxOf radii) g) =
      (fun (c : List (P3 ℚ)) (q : List ℚ) =>
        if occupied c radii g = true then q.getD (nearest c (maxOf radii) g).toNat 0 else 0) := by
    funext c q
    unfold indicatorAt
    by_cases ho : occupied c radii g = true
    · have := occupied_nearest c radii g hr ho
      simp [ho, this]
    · simp [ho]
  rw [this]

end Molli.Props.C19
