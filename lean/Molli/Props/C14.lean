/-
C14 — A conformer ensemble stays rectangular and its conformers are live views.

  "After any sequence of constructions, appends, extends and collective transformations, an
   ensemble's coordinates, partial charges and weights all describe the same number of conformers
   and atoms; every conformer ens[i] is a full molecule view of row i (reads and writes go through
   to the ensemble, nothing else changes), can be written and serialised; and iterating an
   ensemble - also nested or concurrently with another iteration - visits each conformer exactly
   once in order."

Reading.  `Molli.Model.Ensemble`: the ensemble is its three arrays plus the length of its atom list;
a history is a list of `Op`s run by `step .repaired` from any rectangular world (`run`); a conformer
is the index of its row, so a conformer object taken at any time reads the CURRENT row (the tie to
the code checks exactly that with long-held objects); an iterator is an object `⟨pos, stop⟩` in the
world, so nested and interleaved iterations are ordinary histories.  `.shipped` is the code before
the repairs D27/D28/D29 and carries the counterexamples.
All theorems are unbounded in the number of conformers, atoms, operations and iterators.
-/
import Molli.Lemmas.EnsembleIter
import Molli.Model.Codec
namespace Molli.Props.C14
open Molli.Model.Ensemble Molli.Lemmas.Ensemble

/-! ### rectangular over every history -/

/-- "After any sequence of constructions, appends, extends and collective transformations [and writes,
reads, slices, dumps, iterations], coordinates, partial charges and weights all describe the same
number of conformers and atoms": `Rect` is an invariant of every operation, hence of every history. -/
theorem rect_history (ops : List Op) (w : World) (hr : Rect w.ens) (ho : ∀ e ∈ w.others, Rect e) :
    Rect (run .repaired w ops).1.ens ∧ ∀ e ∈ (run .repaired w ops).1.others, Rect e := by
  induction ops generalizing w with
  | nil => exact ⟨hr, ho⟩
  | cons o os ih =>
    simp only [run]
    refine ih _ (rect_step w o hr ho) ?_
    intro e he
    rcases others_step w o e he with h | rfl
    · exact ho e h
    · exact hr

/-- in particular for every history that starts with nothing: the current ensemble and every other live ensemble
of the history (sources of copies, ensembles switched away from) are rectangular -/
theorem rect_from_start (ops : List Op) :
    (run .repaired initWorld ops).1.ens.rect = true ∧ ∀ e ∈ (run .repaired initWorld ops).1.others, e.rect = true := by
  have h := rect_history ops initWorld (rect_alloc 0 0) (by intro e he; cases he)
  exact ⟨(rect_iff _).mpr h.1, fun e he => (rect_iff _).mpr (h.2 e he)⟩

/-- each construction yields a rectangular ensemble, whatever was there before -/
theorem rect_constructions (w : World) :
    (∀ nA nC, Rect (step .repaired w (.ctorAtoms nA nC)).1.ens) ∧
    (∀ nA k, Rect (step .repaired w (.ctorMol nA k)).1.ens) ∧
    (∀ ms e, allocFromMols ms = some e → Rect e) :=
  ⟨fun nA nC => rect_alloc nA nC, fun nA k => rect_allocFromMol nA k, fun ms e h => rect_allocFromMols ms e h⟩

example : (run .repaired initWorld
    [.ctorAtoms 2 1, .append ⟨[[some 1, some 0, none], [some 0, some 0, some 0]], none⟩, .extendSelf,
     .scale 2 false, .writeCharges 3 [some 1, some 2], .nestedLoop]).1.ens.nC = 4 := by decide

theorem upd_err (w : World) (o : Option Ens) (h : (upd w o).2 = .err) : (upd w o).1 = w := by
  cases o with
  | none => rfl
  | some e => simp [upd] at h

/-- a failed operation (ill-shaped argument, missing conformer, forbidden factor) changes nothing -/
theorem failed_op_frame (v : Variant) (w : World) (op : Op) (h : (step v w op).2 = .err) : (step v w op).1 = w := by
  cases op with
  | ctorAtoms nA nC => simp [step] at h
  | ctorMol nA k => simp [step] at h
  | ctorMols ms =>
    simp only [step] at h ⊢
    split at h
    · simp at h
    · simp
  | ctorCopy => simp [step] at h
  | append g => exact upd_err _ _ h
  | extendEns o => exact upd_err _ _ h
  | extendSelf => exact upd_err _ _ h
  | extendGeoms gs => exact upd_err _ _ h
  | scale f a => exact upd_err _ _ h
  | invert => exact upd_err _ _ h
  | translate x => exact upd_err _ _ h
  | translateEach vs => exact upd_err _ _ h
  | rotate m => exact upd_err _ _ h
  | rotateEach ms => exact upd_err _ _ h
  | setCoords cs => exact upd_err _ _ h
  | setWeights ws => exact upd_err _ _ h
  | setCharges qs => exact upd_err _ _ h
  | writeCoords i c => exact upd_err _ _ h
  | writeCharges i q => exact upd_err _ _ h
  | writeAtom i a xyz => exact upd_err _ _ h
  | writeCharge i a x => exact upd_err _ _ h
  | read i => simp only [step] at h ⊢; split <;> rfl
  | slice a b c => simp only [step] at h ⊢; split <;> rfl
  | dump i => simp only [step] at h ⊢; split <;> rfl
  | serialise => simp only [step] at h ⊢; split <;> rfl
  | iterNew => simp [step] at h
  | iterNext k =>
    simp only [step] at h ⊢
    split
    · rfl
    · rename_i hc; simp [hc] at h
  | loop => simp [step] at h
  | nestedLoop => simp [step] at h
  | ctorCopyKw => simp [step] at h
  | swap k => simp only [step] at h ⊢; split <;> first | rfl | simp_all
  | iterNextKeep k =>
    simp only [step] at h ⊢
    split
    · rfl
    · rename_i hc; simp [hc] at h
  | loopKeep => simp [step] at h
  | readKept j => simp only [step] at h ⊢; (repeat' split) <;> rfl
  | writeKept j c =>
    simp only [step] at h ⊢
    cases hj : w.kept[j]? with
    | none => rfl
    | some i => rw [hj] at h; exact upd_err _ _ h
  | dumpKept j => simp only [step] at h ⊢; (repeat' split) <;> rfl
  | reload => simp only [step] at h ⊢; split <;> first | rfl | simp_all
  | ctorAtomsKw nA nC cs qs ws => simp only [step] at h ⊢; split <;> first | rfl | simp_all
  | readAt i => simp only [step] at h ⊢; (repeat' split) <;> rfl
  | writeAt i c =>
    simp only [step] at h ⊢
    cases hj : normIdx w.ens.nC i with
    | none => rfl
    | some j => rw [hj] at h; exact upd_err _ _ h

/-! ### conformers are live views of their row -/

/-- "every conformer ens[i] is a full molecule view of row i": what `ens[i]` shows is row `i` of the
current arrays, and it exists exactly for `i < n_conformers` (given rectangularity) -/
theorem view_read (e : Ens) (i : Nat) (x : View) :
    readConf e i = some x ↔ e.coords[i]? = some x.coords ∧ e.charges[i]? = some x.charges := by
  cases x with
  | mk xc xq =>
    cases hc : e.coords[i]? <;> cases hq : e.charges[i]? <;> simp [readConf, hc, hq, bind, Option.bind, pure]

theorem view_exists (e : Ens) (hr : Rect e) (i : Nat) (hi : i < e.nC) :
    ∃ x, readConf e i = some x ∧ ConfOk e.nA x.coords ∧ x.charges.length = e.nA := by
  have h1 : i < e.coords.length := hi
  have h2 : i < e.charges.length := by rw [hr.charges_len]; exact hi
  refine ⟨⟨e.coords[i], e.charges[i]⟩, ?_, hr.confs _ (List.getElem_mem h1), hr.charge_rows _ (List.getElem_mem h2)⟩
  rw [view_read]
  exact ⟨List.getElem?_eq_getElem h1, List.getElem?_eq_getElem h2⟩

/-- the `read` operation of a history returns the row of the state the history has reached: a conformer
holds no data of its own -/
theorem read_is_current_row (v : Variant) (w : World) (i : Nat) (x : View) (h : (step v w (.read i)).2 = .view x) :
    w.ens.coords[i]? = some x.coords ∧ w.ens.charges[i]? = some x.charges ∧ (step v w (.read i)).1 = w := by
  simp only [step] at h ⊢
  split at h
  · rename_i y hy
    injection h with h
    subst h
    exact ⟨((view_read _ _ _).mp hy).1, ((view_read _ _ _).mp hy).2, by simp⟩
  · cases h

/-- "writes go through to the ensemble, nothing else changes" — assigning coordinates through `ens[i]`:
row `i` of the coordinates is the new value, every other row, all charges, all weights are untouched -/
theorem view_write_frame (e e' : Ens) (i : Nat) (c : Conf) (h : writeCoords e i c = some e') :
    e'.coords[i]? = some c ∧ (∀ j, j ≠ i → e'.coords[j]? = e.coords[j]?) ∧
    e'.charges = e.charges ∧ e'.weights = e.weights ∧ e'.nA = e.nA ∧ e'.coords.length = e.coords.length := by
  simp only [writeCoords] at h
  split at h
  · rename_i hc
    injection h with h
    subst h
    refine ⟨by simp [List.getElem?_set_self hc.1], ?_, rfl, rfl, rfl, by simp⟩
    intro j hj
    simp [List.getElem?_set_ne (Ne.symm hj)]
  · cases h

/-- assigning partial charges through `ens[i]` (possible after repair D29) -/
theorem view_write_charges_frame (e e' : Ens) (i : Nat) (q : List Num) (h : writeCharges .repaired e i q = some e') :
    e'.charges[i]? = some q ∧ (∀ j, j ≠ i → e'.charges[j]? = e.charges[j]?) ∧
    e'.coords = e.coords ∧ e'.weights = e.weights ∧ e'.nA = e.nA := by
  simp only [writeCharges] at h
  split at h
  · rename_i hc
    injection h with h
    subst h
    refine ⟨by simp [List.getElem?_set_self hc.2.1], ?_, rfl, rfl, rfl⟩
    intro j hj
    simp [List.getElem?_set_ne (Ne.symm hj)]
  · cases h

/-- in-place write of one atom position through the view: one row of one conformer changes -/
theorem view_write_atom_frame (e e' : Ens) (i a : Nat) (xyz : Row) (h : writeAtom e i a xyz = some e') :
    (∃ c, e.coords[i]? = some c ∧ e'.coords[i]? = some (c.set a xyz)) ∧
    (∀ j, j ≠ i → e'.coords[j]? = e.coords[j]?) ∧ e'.charges = e.charges ∧ e'.weights = e.weights := by
  simp only [writeAtom] at h
  split at h
  · rename_i c hci
    split at h
    · injection h with h
      subst h
      have hlt := get_lt_of_some _ _ _ hci
      refine ⟨⟨c, hci, by simp [List.getElem?_set_self hlt]⟩, ?_, rfl, rfl⟩
      intro j hj
      simp [List.getElem?_set_ne (Ne.symm hj)]
    · cases h
  · cases h

/-- a write through conformer `i` is seen by every conformer object, whenever it was created: reading `j`
afterwards gives the new row for `j = i` and the old row otherwise -/
theorem view_write_then_read (e e' : Ens) (i : Nat) (c : Conf) (h : writeCoords e i c = some e') (j : Nat) :
    readConf e' j = if j = i then (readConf e i).map (fun x => { x with coords := c }) else readConf e j := by
  obtain ⟨h1, h2, h3, _, _, _⟩ := view_write_frame e e' i c h
  have hi : i < e.coords.length := by
    simp only [writeCoords] at h
    split at h
    · rename_i hc; exact hc.1
    · cases h
  by_cases hj : j = i
  · subst hj
    simp only [if_true, readConf, bind, Option.bind, h1, h3, List.getElem?_eq_getElem hi]
    cases e.charges[j]? <;> rfl
  · simp only [hj, if_false, readConf, h2 j hj, h3]

/-! ### every conformer can be written and serialised -/

/-- "can be written and serialised": on a rectangular ensemble `dump` succeeds for every conformer and
shows exactly its row -/
theorem dump_total (e : Ens) (hr : Rect e) (i : Nat) (hi : i < e.nC) :
    ∃ x, dump e i = some x ∧ readConf e i = some x := by
  obtain ⟨x, hx, hok, hq⟩ := view_exists e hr i hi
  refine ⟨x, ?_, hx⟩
  simp only [dump, hx]
  rw [(confOk_iff _ _).mpr hok]
  simp [hq]

/-- … and so does serialising the whole ensemble, after every history -/
theorem serialise_total (ops : List Op) (w : World) (hr : Rect w.ens) (ho : ∀ e ∈ w.others, Rect e) :
    (serialise (run .repaired w ops).1.ens).isSome = true := by
  have := (rect_iff _).mpr (rect_history ops w hr ho).1
  simp [serialise, this]

/-- the record handed to the library codec (property C01) by a rectangular ensemble is in C01's domain:
what the round-trip theorems of `Molli.Props.C01` need of the arrays -/
theorem stored_arrays_wf (e : Ens) (hr : Rect e) :
    (∀ c ∈ e.coords, c.length = e.nA) ∧ (∀ c ∈ e.coords, ∀ r ∈ c, r.length = 3) ∧
    e.weights.length = e.coords.length ∧ e.charges.length = e.coords.length ∧ (∀ q ∈ e.charges, q.length = e.nA) :=
  ⟨fun c hc => (hr.confs c hc).1, fun c hc => (hr.confs c hc).2, hr.weights_len, hr.charges_len, hr.charge_rows⟩

/-! ### iteration -/

/-- "iterating an ensemble … visits each conformer exactly once in order" -/
theorem iter_once_in_order (w : World) : (step .repaired w .loop).2 = .idxs (List.range w.ens.nC) := loop_spec w

/-- "also nested": two nested loops visit the full product `n × n` in lexicographic order -/
theorem nested_iter_product (w : World) :
    (step .repaired w .nestedLoop).2 =
      .pairs ((List.range w.ens.nC).flatMap (fun i => (List.range w.ens.nC).map (fun j => (i, j)))) := nested_spec w

theorem length_flatMap_const {α β : Type} (l : List α) (f : α → List β) (m : Nat) (h : ∀ x, (f x).length = m) :
    (l.flatMap f).length = l.length * m := by
  induction l with
  | nil => simp
  | cons a l ih => simp only [List.flatMap_cons, List.length_append, h, ih, List.length_cons, Nat.add_mul]; omega

theorem nested_iter_count (w : World) (l : List (Nat × Nat)) (h : (step .repaired w .nestedLoop).2 = .pairs l) :
    l.length = w.ens.nC * w.ens.nC := by
  rw [nested_iter_product] at h
  injection h with h
  subst h
  rw [length_flatMap_const _ _ w.ens.nC (by intro x; simp), List.length_range]

def Op.isCtor : Op → Bool
  | .ctorAtoms _ _ | .ctorMol _ _ | .ctorMols _ | .ctorCopy | .ctorCopyKw | .swap _ | .reload | .ctorAtomsKw _ _ _ _ _ => true
  | _ => false

def isNextOf (k : Nat) : Op → Bool
  | .iterNext k' => k' == k
  | .iterNextKeep k' => k' == k
  | _ => false

/-- what the `next()` calls on iterator `k` returned during a history -/
def yieldOf (k : Nat) : Op × Out → Option Nat
  | (.iterNext k', .yielded (some i)) => if k' = k then some i else none
  | (.iterNextKeep k', .yielded (some i)) => if k' = k then some i else none
  | _ => none

def yieldsOf (k : Nat) (ops : List Op) (outs : List Out) : List Nat := (ops.zip outs).filterMap (yieldOf k)

/-- operations on the ensemble and on other iterators leave iterator `k` alone -/
theorem step_iter_frame (w : World) (op : Op) (k : Nat) (it : Iter) (hk : w.iters[k]? = some it)
    (hc : Op.isCtor op = false) (hn : isNextOf k op = false) : (step .repaired w op).1.iters[k]? = some it := by
  have hlt := get_lt_of_some _ _ _ hk
  cases op <;> simp only [Op.isCtor, Bool.true_eq_false] at hc <;> simp only [step] <;>
    first
      | (rw [(upd_ens w _).2.1]; exact hk)
      | (split <;> exact hk)
      | (simp only [iterNew]; rw [List.getElem?_append_left hlt]; exact hk)
      | exact hk
      | skip
  case iterNext k' =>
    have hne : k ≠ k' := by
      intro h; subst h; simp [isNextOf] at hn
    split
    · exact hk
    · rw [iterNext_frame w k' k hne]; exact hk
  case iterNextKeep k' =>
    have hne : k ≠ k' := by
      intro h; subst h; simp [isNextOf] at hn
    split
    · exact hk
    · show (iterNext .repaired w k').1.iters[k]? = some it
      rw [iterNext_frame w k' k hne]; exact hk
  case readKept j => (repeat' split) <;> exact hk
  case dumpKept j => (repeat' split) <;> exact hk
  case readAt i => (repeat' split) <;> exact hk
  case writeAt i c =>
    split
    · rw [(upd_ens w _).2.1]; exact hk
    · exact hk
  case writeKept j c =>
    split
    · rw [(upd_ens w _).2.1]; exact hk
    · exact hk

theorem step_iterNextKeep_valid (w : World) (k : Nat) (h : k < w.iters.length) :
    step .repaired w (.iterNextKeep k) =
      ({ (iterNext .repaired w k).1 with kept := (iterNext .repaired w k).1.kept ++ (iterNext .repaired w k).2.toList },
       .yielded (iterNext .repaired w k).2) := by
  simp only [step]
  rw [if_neg (by intro ⟨_, h'⟩; omega)]

theorem step_iterNext_valid (w : World) (k : Nat) (h : k < w.iters.length) :
    step .repaired w (.iterNext k) = ((iterNext .repaired w k).1, .yielded (iterNext .repaired w k).2) := by
  simp only [step]
  rw [if_neg (by intro ⟨_, h'⟩; omega)]

theorem run_cons (v : Variant) (w : World) (o : Op) (os : List Op) :
    run v w (o :: os) = ((run v (step v w o).1 os).1, (step v w o).2 :: (run v (step v w o).1 os).2) := rfl

theorem yieldsOf_cons (k : Nat) (o : Op) (os : List Op) (out : Out) (outs : List Out) :
    yieldsOf k (o :: os) (out :: outs) =
      (match yieldOf k (o, out) with
       | some i => i :: yieldsOf k os outs
       | none => yieldsOf k os outs) := by
  simp only [yieldsOf, List.zip_cons_cons, List.filterMap_cons]
  cases yieldOf k (o, out) <;> rfl

/-- "or concurrently with another iteration": take ANY history without a new construction — other iterators being
created and advanced, loops, nested loops, appends, extends, writes, transformations in any interleaving.  The
`next()` calls on iterator `k`, which stood at `p` of `n`, return `p, p+1, …` in order, each conformer once, and stop
at `n`. -/
theorem concurrent_iteration (ops : List Op) (w : World) (k p n : Nat) (hk : w.iters[k]? = some ⟨p, n⟩)
    (hno : ∀ op ∈ ops, Op.isCtor op = false) :
    yieldsOf k ops (run .repaired w ops).2 = List.range' p (min (n - p) (ops.countP (isNextOf k))) := by
  induction ops generalizing w p with
  | nil => simp [yieldsOf, run]
  | cons o os ih =>
    have hno' : ∀ op ∈ os, Op.isCtor op = false := fun op h => hno op (List.mem_cons_of_mem _ h)
    have hco := hno o (List.mem_cons_self)
    rw [run_cons]
    simp only
    rw [yieldsOf_cons]
    by_cases hn : isNextOf k o = true
    · -- a `next()` on iterator `k`
      cases o <;> simp only [isNextOf, beq_iff_eq, Bool.false_eq_true] at hn
      · rename_i k'
        subst hn
        have hlt := get_lt_of_some _ _ _ hk
        rw [step_iterNext_valid w k' hlt]
        simp only [List.countP_cons, isNextOf, beq_self_eq_true, if_true]
        by_cases h : p < n
        · rw [iterNext_repaired_lt w k' p n hk h]
          simp only [yieldOf, if_true]
          have hk' : ({ w with iters := w.iters.set k' ⟨p + 1, n⟩ } : World).iters[k']? = some ⟨p + 1, n⟩ := by
            simp [List.getElem?_set_self hlt]
          rw [ih _ (p + 1) hk' hno']
          have e : min (n - p) (List.countP (isNextOf k') os + 1) = min (n - (p + 1)) (List.countP (isNextOf k') os) + 1 := by omega
          rw [e, List.range'_succ]
        · rw [iterNext_repaired_ge w k' p n hk h]
          simp only [yieldOf]
          rw [ih w p hk hno']
          have e1 : n - p = 0 := by omega
          simp [e1]
      · rename_i k'
        subst hn
        have hlt := get_lt_of_some _ _ _ hk
        rw [step_iterNextKeep_valid w k' hlt]
        simp only [List.countP_cons, isNextOf, beq_self_eq_true, if_true]
        by_cases h : p < n
        · rw [iterNext_repaired_lt w k' p n hk h]
          simp only [yieldOf, if_true]
          have hk' : ({ ({ w with iters := w.iters.set k' ⟨p + 1, n⟩ } : World) with
                kept := w.kept ++ (some p).toList } : World).iters[k']? = some ⟨p + 1, n⟩ := by
            simp [List.getElem?_set_self hlt]
          rw [ih _ (p + 1) hk' hno']
          have e : min (n - p) (List.countP (isNextOf k') os + 1) = min (n - (p + 1)) (List.countP (isNextOf k') os) + 1 := by omega
          rw [e, List.range'_succ]
        · rw [iterNext_repaired_ge w k' p n hk h]
          simp only [yieldOf]
          have hk' : ({ w with kept := w.kept ++ (none : Option Nat).toList } : World).iters[k']? = some ⟨p, n⟩ := hk
          rw [ih _ p hk' hno']
          have e1 : n - p = 0 := by omega
          simp [e1]
    · -- anything else
      have hn' : isNextOf k o = false := by simpa using hn
      have hfr := step_iter_frame w o k ⟨p, n⟩ hk hco hn'
      have hy : yieldOf k (o, (step .repaired w o).2) = none := by
        cases o <;> simp only [yieldOf]
        all_goals
          rename_i k'
          have hne : k' ≠ k := by intro h; subst h; simp [isNextOf] at hn'
          split <;> simp_all
      rw [hy]
      simp only
      rw [ih (step .repaired w o).1 p hfr hno', List.countP_cons, hn']
      simp

/-- non-vacuity: two iterators advanced alternately while the ensemble is appended to and a loop runs -/
example : (run .repaired initWorld
    [.ctorAtoms 1 3, .iterNew, .iterNew, .iterNext 0, .iterNext 1, .append ⟨[[some 0, some 0, some 0]], none⟩,
     .iterNext 0, .loop, .iterNext 1, .iterNext 0, .iterNext 0]).2 =
    [.ok, .handle 0, .handle 1, .yielded (some 0), .yielded (some 0), .ok, .yielded (some 1), .idxs [0, 1, 2, 3],
     .yielded (some 1), .yielded (some 2), .yielded none] := by decide

/-! ### mis-shaped arguments, and ensembles that come out of a library -/

/-- what numpy's broadcasting accepts is accepted (one vector / matrix for all conformers, one component for x, y, z), everything
else - a per-conformer count that is neither 1 nor `n_conformers` (also when `n_conformers = 1`, also when it happens to be
`n_atoms`), 2 components, ragged input - is rejected, and by `failed_op_frame` a rejected operation changes nothing;
by `rect_history` the shape invariant holds after EVERY operation, accepted or rejected -/
example :
    let w := (step .repaired initWorld (.ctorAtoms 2 1)).1
    (step .repaired w (.translateEach [[some 1, some 0, some 0], [some 0, some 1, some 0]])).2 = .err ∧
    (step .repaired w (.translateEach [[some 1, some 0, some 0], [some 0, some 1, some 0]])).1 = w ∧
    (step .repaired w (.translateEach [[some 1, some 0, some 0]])).2 = .ok ∧
    (step .repaired w (.translate [some 1, some 2])).2 = .err ∧
    (step .repaired w (.translate [some 1])).2 = .ok ∧
    (step .repaired w (.rotate [[some 1], [some 0], [some 0]])).2 = .ok ∧
    (step .repaired w (.rotate [[some 1, some 0], [some 0, some 1], [some 0, some 0]])).2 = .err ∧
    (step .repaired w (.rotateEach [[[some 1], [some 0], [some 0]], [[some 1], [some 0], [some 0]]])).2 = .err ∧
    (step .repaired w (.setWeights [some 2, some 3])).2 = .err := by decide

/-- a deserialised ensemble behaves like a constructed one: after `lib[k] = ens; ens = lib[k]` the world is the one in which the
same arrays were bound afresh, so every later history (writes through conformers, in-place transformations, appends …) runs
exactly as on a constructed ensemble; the other live ensembles are untouched -/
theorem reload_like_constructed (w : World) (hr : Rect w.ens) (ops : List Op) :
    (step .repaired w .reload) = (rebindIn w w.ens, .ok) ∧
    run .repaired (step .repaired w .reload).1 ops = run .repaired (rebindIn w w.ens) ops := by
  have h : (step .repaired w .reload) = (rebindIn w w.ens, .ok) := by
    simp only [step, reloaded, (rect_iff _).mpr hr, if_true]
  exact ⟨h, by rw [h]⟩

/-! ### every integer index; the constructor with array arguments -/

/-- `ens[i]` for EVERY integer `i`: for `-n ≤ i < n` it is the view of row `i mod n` (so `ens[-n]` is row 0 and `ens[-1]` the last
row), for every other integer it is an error and nothing changes -/
theorem index_every_integer (v : Variant) (w : World) (hr : Rect w.ens) (i : Int) :
    (-(w.ens.nC : Int) ≤ i ∧ i < w.ens.nC →
        ∃ x, (step v w (.readAt i)).2 = .view x ∧ readConf w.ens (i % (w.ens.nC : Int)).toNat = some x) ∧
    (¬ (-(w.ens.nC : Int) ≤ i ∧ i < w.ens.nC) → (step v w (.readAt i)) = (w, .err)) := by
  constructor
  · intro ⟨h1, h2⟩
    have hn : 0 < w.ens.nC := by omega
    have hj : normIdx w.ens.nC i = some (i % (w.ens.nC : Int)).toNat := by
      simp only [normIdx]
      by_cases h0 : 0 ≤ i
      · rw [if_pos ⟨h0, h2⟩, Int.emod_eq_of_lt h0 h2]
      · rw [if_neg (by omega), if_pos ⟨by omega, h1⟩]
        congr 2
        have : (i + w.ens.nC) % (w.ens.nC : Int) = i + w.ens.nC := Int.emod_eq_of_lt (by omega) (by omega)
        rw [← this, Int.add_emod_right]
    have hlt : (i % (w.ens.nC : Int)).toNat < w.ens.nC := by
      have := Int.emod_lt_of_pos i (show (0 : Int) < w.ens.nC by omega)
      have := Int.emod_nonneg i (show (w.ens.nC : Int) ≠ 0 by omega)
      omega
    obtain ⟨x, hx, _, _⟩ := view_exists w.ens hr _ hlt
    exact ⟨x, by simp only [step, hj, hx], hx⟩
  · intro h
    have hj : normIdx w.ens.nC i = none := by
      simp only [normIdx]
      rw [if_neg (by omega), if_neg (by omega)]
    simp only [step, hj]

example : (run .repaired initWorld
    [.ctorMols [⟨[[some 1, some 1, some 1]], some [some 0]⟩, ⟨[[some 2, some 2, some 2]], some [some 0]⟩],
     .readAt (-2), .readAt (-1), .readAt 1, .readAt 2, .readAt (-3), .writeAt (-2) [[some 9, some 9, some 9]], .readAt 0]).2 =
    [.ok, .view ⟨[[some 1, some 1, some 1]], [some 0]⟩, .view ⟨[[some 2, some 2, some 2]], [some 0]⟩,
     .view ⟨[[some 2, some 2, some 2]], [some 0]⟩, .err, .err, .ok, .view ⟨[[some 9, some 9, some 9]], [some 0]⟩] := by decide

def Dims (n a : Nat) (e : Ens) : Prop := e.nC = n ∧ e.nA = a

theorem setCoordsB_dims (e e' : Ens) (cs : List Conf) (h : setCoordsB e cs = some e') : Dims e.nC e.nA e' := by
  simp only [setCoordsB] at h
  split at h
  · refine rect_bind _ _ e' (Dims e.nC e.nA) (fun a e'' h' => ?_) h
    simp only [setCoords] at h'
    split at h'
    · rename_i hc; injection h' with h'; subst h'; exact ⟨hc.1, rfl⟩
    · cases h'
  · cases h

theorem setChargesB_dims (e e' : Ens) (qs : List (List Num)) (h : setChargesB e qs = some e') : Dims e.nC e.nA e' := by
  simp only [setChargesB] at h
  split at h
  · refine rect_bind _ _ e' (Dims e.nC e.nA) (fun a e'' h' => ?_) h
    simp only [setCharges] at h'
    split at h'
    · injection h' with h'; subst h'; exact ⟨rfl, rfl⟩
    · cases h'
  · cases h

theorem setWeightsB_dims (e e' : Ens) (ws : List Num) (h : setWeightsB e ws = some e') : Dims e.nC e.nA e' := by
  refine rect_bind _ _ e' (Dims e.nC e.nA) (fun a e'' h' => ?_) h
  simp only [setWeights] at h'
  split at h'
  · injection h' with h'; subst h'; exact ⟨rfl, rfl⟩
  · cases h'

theorem optSet_dims {α : Type} (f : Ens → α → Option Ens) (hf : ∀ e a e', f e a = some e' → Dims e.nC e.nA e')
    (e : Ens) (a : Option α) (e' : Ens) (h : optSet f e a = some e') : Dims e.nC e.nA e' := by
  cases a with
  | none => simp only [optSet] at h; injection h with h; subst h; exact ⟨rfl, rfl⟩
  | some x => exact hf e x e' h

theorem ctorKw_dims (nA nC : Nat) (cs : Option (List Conf)) (qs : Option (List (List Num))) (ws : Option (List Num)) (e : Ens)
    (h : ctorKw nA nC cs qs ws = some e) : e.nC = nC ∧ e.nA = nA := by
  simp only [ctorKw] at h
  have h0 : (alloc nA nC).nC = nC ∧ (alloc nA nC).nA = nA := ⟨by simp [alloc, Ens.nC], rfl⟩
  cases h1 : optSet setCoordsB (alloc nA nC) cs with
  | none => rw [h1] at h; cases h
  | some e1 =>
    rw [h1] at h
    simp only [Option.bind_some] at h
    have d1 := optSet_dims setCoordsB (fun e a e' hh => setCoordsB_dims e e' a hh) _ cs e1 h1
    cases h2 : optSet setChargesB e1 qs with
    | none => rw [h2] at h; cases h
    | some e2 =>
      rw [h2] at h
      simp only [Option.bind_some] at h
      have d2 := optSet_dims setChargesB (fun e a e' hh => setChargesB_dims e e' a hh) _ qs e2 h2
      have d3 := optSet_dims setWeightsB (fun e a e' hh => setWeightsB_dims e e' a hh) _ ws e h
      unfold Dims at d1 d2 d3
      constructor <;> omega

/-- the constructor with `coords=`, `atomic_charges=`, `weights=` arguments of any shape either raises (and binds nothing) or
yields a rectangular ensemble of exactly `n_conformers × n_atoms`: one geometry given for several conformers is repeated, it never
changes the number of conformers -/
theorem ctor_with_arrays (w : World) (nA nC : Nat) (cs : Option (List Conf)) (qs : Option (List (List Num))) (ws : Option (List Num)) :
    ((step .repaired w (.ctorAtomsKw nA nC cs qs ws)).2 = .err ∧ (step .repaired w (.ctorAtomsKw nA nC cs qs ws)).1 = w) ∨
    ((step .repaired w (.ctorAtomsKw nA nC cs qs ws)).2 = .ok ∧ Rect (step .repaired w (.ctorAtomsKw nA nC cs qs ws)).1.ens ∧
      (step .repaired w (.ctorAtomsKw nA nC cs qs ws)).1.ens.nC = nC ∧ (step .repaired w (.ctorAtomsKw nA nC cs qs ws)).1.ens.nA = nA) := by
  simp only [step]
  cases h : ctorKw nA nC cs qs ws with
  | none => exact Or.inl ⟨rfl, rfl⟩
  | some e =>
    have hd := ctorKw_dims nA nC cs qs ws e h
    exact Or.inr ⟨rfl, rect_ctorKw nA nC cs qs ws e h, hd.1, hd.2⟩

/-! ### several live ensembles in one history: nothing else changes -/

/-- "reads and writes go through to the ensemble, NOTHING ELSE CHANGES" across objects: an operation that is not
itself a copy construction or a switch to another ensemble — every write through a conformer, append, extend,
transformation, setter, iteration — leaves every other live ensemble (sources of copies, copies made earlier)
exactly as it was. -/
theorem others_untouched (v : Variant) (w : World) (op : Op) (h : touchesOthers op = false) :
    (step v w op).1.others = w.others := others_frame v w op h

theorem history_leaves_others (ops : List Op) (w : World) (h : ∀ op ∈ ops, touchesOthers op = false) :
    (run .repaired w ops).1.others = w.others := by
  induction ops generalizing w with
  | nil => rfl
  | cons o os ih =>
    simp only [run]
    rw [ih _ (fun op hop => h op (List.mem_cons_of_mem _ hop)), others_frame _ w o (h o List.mem_cons_self)]

/-- `ConformerEnsemble(ens)` (with or without keywords) copies: the new ensemble has the source's arrays, the source stays
alive, and whatever history is then applied to the COPY, the source is what it was -/
theorem source_untouched_by_copy (w : World) (ops : List Op) (h : ∀ op ∈ ops, touchesOthers op = false) :
    (step .repaired w .ctorCopy).1.ens = w.ens ∧ (step .repaired w .ctorCopyKw).1 = (step .repaired w .ctorCopy).1 ∧
    (run .repaired (step .repaired w .ctorCopy).1 ops).1.others = w.ens :: w.others := by
  refine ⟨rfl, rfl, ?_⟩
  rw [history_leaves_others ops _ h]
  rfl

/-- … and whatever is applied to the SOURCE afterwards (switch back to it: `swap 0`), the copy is what it was -/
theorem copy_untouched_by_source (w : World) (ops : List Op) (h : ∀ op ∈ ops, touchesOthers op = false) :
    let w1 := (step .repaired (step .repaired w .ctorCopy).1 (.swap 0)).1
    w1.ens = w.ens ∧ (run .repaired w1 ops).1.others = w.ens :: w.others := by
  refine ⟨rfl, ?_⟩
  rw [history_leaves_others ops _ h]
  rfl

example : (run .repaired initWorld
    [.ctorAtoms 1 2, .ctorCopy, .writeCharges 0 [some 5], .swap 0, .read 0, .writeCoords 1 [[some 1, some 2, some 3]],
     .swap 0, .read 0, .read 1]).2 =
    [.ok, .ok, .ok, .ok, .view ⟨[[none, none, none]], [some 0]⟩, .ok, .ok, .view ⟨[[none, none, none]], [some 5]⟩,
     .view ⟨[[none, none, none]], [some 0]⟩] := by decide

/-! ### conformer objects kept after their iteration moved on -/

/-- a kept conformer never moves: no operation short of a new construction changes the row a kept conformer object
stands for; the list of kept objects only grows -/
theorem kept_grows (w : World) (op : Op) (h : Op.isCtor op = false) : w.kept <+: (step .repaired w op).1.kept := by
  cases op <;> simp only [Op.isCtor, Bool.true_eq_false] at h <;> simp only [step] <;>
    first
      | (rw [(upd_others w _).2]; exact List.prefix_refl _)
      | exact List.prefix_refl _
      | (split <;> first | exact List.prefix_refl _ | (rw [(upd_others w _).2]; exact List.prefix_refl _))
      | skip
  case iterNext k =>
    split
    · exact List.prefix_refl _
    · rw [(iterNext_same .repaired w k).2.2]; exact List.prefix_refl _
  case loop => show w.kept <+: (drain .repaired _ _ _).1.kept
               rw [((iterNew_same .repaired w).trans (drain_same .repaired _ _ _)).2.2]; exact List.prefix_refl _
  case nestedLoop => show w.kept <+: (nested .repaired w).1.kept
                     rw [(nested_same .repaired w).2.2]; exact List.prefix_refl _
  case iterNextKeep k =>
    split
    · exact List.prefix_refl _
    · show w.kept <+: (iterNext .repaired w k).1.kept ++ _
      rw [(iterNext_same .repaired w k).2.2]; exact List.prefix_append _ _
  case loopKeep =>
    show w.kept <+: (drain .repaired _ _ _).1.kept ++ _
    rw [((iterNew_same .repaired w).trans (drain_same .repaired _ _ _)).2.2]; exact List.prefix_append _ _
  case readKept j => (repeat' split) <;> exact List.prefix_refl _
  case dumpKept j => (repeat' split) <;> exact List.prefix_refl _
  case readAt i => (repeat' split) <;> exact List.prefix_refl _

/-- over any history without a new construction: the `j`-th kept conformer is the same row index at the end -/
theorem kept_fixed (ops : List Op) (w : World) (h : ∀ op ∈ ops, Op.isCtor op = false) (j i : Nat)
    (hj : w.kept[j]? = some i) : (run .repaired w ops).1.kept[j]? = some i := by
  induction ops generalizing w with
  | nil => exact hj
  | cons o os ih =>
    simp only [run]
    apply ih _ (fun op hop => h op (List.mem_cons_of_mem _ hop))
    obtain ⟨t, ht⟩ := kept_grows w o (h o List.mem_cons_self)
    rw [← ht, List.getElem?_append_left (get_lt_of_some _ _ _ hj)]
    exact hj

/-- `kept.append(next(it))`: the object kept is the conformer of the row that was yielded -/
theorem yield_is_kept (w : World) (k : Nat) (hk : k < w.iters.length) :
    (step .repaired w (.iterNextKeep k)).2 = .yielded (iterNext .repaired w k).2 ∧
    (step .repaired w (.iterNextKeep k)).1.kept = w.kept ++ (iterNext .repaired w k).2.toList := by
  rw [step_iterNextKeep_valid w k hk]
  exact ⟨rfl, by simp [(iterNext_same .repaired w k).2.2]⟩

/-- `kept += list(ens)`: one object per conformer, the `i`-th one standing for row `i` -/
theorem loopKeep_spec (w : World) :
    (step .repaired w .loopKeep).2 = .idxs (List.range w.ens.nC) ∧
    (step .repaired w .loopKeep).1.kept = w.kept ++ List.range w.ens.nC := by
  have h := loop_spec w
  simp only [step] at h ⊢
  injection h with h
  refine ⟨by rw [h], ?_⟩
  rw [h, ((iterNew_same .repaired w).trans (drain_same .repaired _ _ _)).2.2]

/-- using a kept conformer later reads / writes / dumps the row it stands for in the CURRENT arrays -/
theorem readKept_row (v : Variant) (w : World) (j : Nat) (x : View) (h : (step v w (.readKept j)).2 = .view x) :
    ∃ i, w.kept[j]? = some i ∧ readConf w.ens i = some x := by
  simp only [step] at h
  split at h
  · rename_i i hi
    split at h
    · rename_i y hy
      injection h with h
      subst h
      exact ⟨i, hi, hy⟩
    · cases h
  · cases h

theorem writeKept_row (v : Variant) (w : World) (j i : Nat) (c : Conf) (hj : w.kept[j]? = some i) :
    step v w (.writeKept j c) = step v w (.writeCoords i c) := by
  simp only [step, hj]

example : (run .repaired initWorld
    [.ctorMols [⟨[[some 1, some 1, some 1]], some [some 0]⟩, ⟨[[some 2, some 2, some 2]], some [some 0]⟩,
                ⟨[[some 3, some 3, some 3]], some [some 0]⟩],
     .iterNew, .iterNextKeep 0, .iterNextKeep 0, .readKept 0, .loopKeep, .iterNextKeep 0, .readKept 0, .readKept 2]).2 =
    [.ok, .handle 0, .yielded (some 0), .yielded (some 1), .view ⟨[[some 1, some 1, some 1]], [some 0]⟩,
     .idxs [0, 1, 2], .yielded (some 2), .view ⟨[[some 1, some 1, some 1]], [some 0]⟩,
     .view ⟨[[some 1, some 1, some 1]], [some 0]⟩] := by decide

/-! ### slices -/

/-- `ens[a:b:c]` only hands out conformers that exist -/
theorem slice_valid (a b c : Option Int) (n : Nat) (l : List Nat) (h : sliceIdx a b c n = some l) : ∀ i ∈ l, i < n := by
  simp only [sliceIdx] at h
  split at h
  · rename_i s e st hs
    injection h with h
    subst h
    intro i hi
    obtain ⟨x, hx, rfl⟩ := List.mem_map.mp hi
    simp only [sliceIndices] at hs
    split at hs
    · cases hs
    · rename_i hst0
      injection hs with hs
      simp only [Prod.mk.injEq] at hs
      obtain ⟨hs1, hs2, hs3⟩ := hs
      by_cases hneg : c.getD 1 < 0
      · have hb := pyRange_neg n s e st (by omega) x hx
        have : (-1 : Int) ≤ e := by
          rw [← hs2]; simp only [hneg, if_true]
          cases b <;> simp only <;> (repeat' split) <;> omega
        have : s ≤ (n : Int) - 1 := by
          rw [← hs1]; simp only [hneg, if_true]
          cases a <;> simp only <;> (repeat' split) <;> omega
        omega
      · have hb := pyRange_pos n s e st (by omega) x hx
        have : (0 : Int) ≤ s := by
          rw [← hs1]; simp only [hneg, if_false]
          cases a <;> simp only <;> (repeat' split) <;> omega
        have : e ≤ (n : Int) := by
          rw [← hs2]; simp only [hneg, if_false]
          cases b <;> simp only <;> (repeat' split) <;> omega
        omega
  · cases h

/-- `ens[:]` is every conformer in order -/
theorem slice_default (n : Nat) : sliceIdx none none none n = some (List.range n) := by
  simp only [sliceIdx, sliceIndices, Option.getD_none]
  have h := pyRange_unit n n 0 (by omega)
  simp only [Int.natCast_zero] at h
  simp [h, List.range_eq_range', Function.comp_def]

example : sliceIdx (some (-2)) none none 5 = some [3, 4] ∧ sliceIdx none none (some (-1)) 3 = some [2, 1, 0] ∧
    sliceIdx (some 1) (some 100) (some 2) 6 = some [1, 3, 5] ∧ sliceIdx none none (some 0) 3 = none := by decide

/-! ### the code before the repairs (counterexamples) -/

/-- **D27**: as shipped, `append` grows the coordinates only; the result is not rectangular and the appended
conformer cannot be dumped -/
theorem append_breaks_rect_counterexample :
    ∃ e g e', (alloc 1 1 = e) ∧ append .shipped e g = some e' ∧ Rect e ∧ e'.rect = false ∧ dump e' 1 = none :=
  ⟨_, ⟨[[some 0, some 0, some 0]], none⟩, _, rfl, rfl, rect_alloc 1 1, by decide, by decide⟩

/-- **D28**: as shipped, the cursor lives on the ensemble: the inner loop exhausts it and the outer loop stops
after its first conformer — 3 pairs instead of 9 -/
theorem shared_cursor_counterexample :
    (step .shipped (rebind (alloc 1 3)) .nestedLoop).2 = .pairs [(0, 0), (0, 1), (0, 2)] ∧
    (step .repaired (rebind (alloc 1 3)) .nestedLoop).2 =
      .pairs [(0, 0), (0, 1), (0, 2), (1, 0), (1, 1), (1, 2), (2, 0), (2, 1), (2, 2)] := by decide

/-- **D29**: as shipped, a conformer has no setter for its charges -/
theorem conformer_charges_counterexample (e : Ens) (i : Nat) (q : List Num) : writeCharges .shipped e i q = none := rfl

end Molli.Props.C14
