/-
C04 (byte level) — "A session that ends with an exception … raised by the flush at session exit … still releases the
lock and closes the file, so the next session in this or any other process proceeds", and "no record written in a
completed session is lost or altered".

`Props.C04` proves the locking side on the session transition system; this file proves the FILE side on the byte-level
model when the failing flush has already put part of a record into the library (I/O error, full device, quota):
`BOp.endFaultTorn c n` = the first write of the exit flush fails after `n` bytes of the record's block.

  * `torn_flush_leaves` — the library is then the complete records plus a torn tail (`TornWF`), every handle is closed,
    the lost pair is gone from the queue, the rest of the queue stays in the collection object;
  * `begin_on_torn` — the next `writing()` of ANY collection object (cached handle stale by any number of records, or
    none) succeeds, cuts the tail and starts in the session invariant on exactly the complete records
    (via `Props.C03.crash_stale_reopen` / `crash_reopen`);
  * `read_on_torn` — a `reading()` session lists exactly the complete records and leaves the file alone;
  * `torn_flush_then_other_session` — end to end: failed flush of `c`, then a complete writing session of another
    object `d`: the file is the well-formed file of the old records followed by the new ones.
-/
import Molli.Props.C02Multi
import Molli.Props.C03
namespace Molli.Props.C02Backend
open Molli.Util Molli.Model.Ukv Molli.Model.Backend Molli.Lemmas.Ukv Molli.Props.C02 Molli.Props.C03

/-- The library after a flush that failed in the middle of a record: the complete records `recs` followed by the
first `n` bytes of the block of `kv` (fewer than the whole block); no session is open; every handle object caches
a prefix of `recs`. -/
structure TornWF (w : World) (h1 h2 b0 : Bytes) (recs : List KV) (kv : KV) (n : Nat) : Prop where
  file : w.file = some (image h1 h2 b0 recs [kv] n)
  short : n < (encBlock kv).length
  hdr : HdrOk h2 b0
  ok : ∀ r ∈ recs, r.ok
  kvok : kv.ok
  nodup : ((recs ++ [kv]).map (·.key)).Nodup
  handles : ∀ i h, getH w i = some h → HInv h h2 b0 recs ∧ h.closed = true ∧ (h.mode = .r ∨ h.mode = .a)

theorem image_single (h1 h2 b0 : Bytes) (recs : List KV) (kv : KV) (n : Nat) :
    wfFile h1 h2 b0 recs ++ (encBlock kv).take n = image h1 h2 b0 recs [kv] n := by
  simp [wfFile, image, blocks]

/-- **A flush that fails after `n` bytes of a record** (I/O error, full device): the pair is lost, the rest of the
queue stays in the collection object, the file is closed, the state is reset — and the library is left as the
complete records plus a torn tail. -/
theorem torn_flush_leaves {bw : BWorld} {c : Nat} {b : Backend} {h1 h2 b0 : Bytes} {recs : List KV}
    (hi : BInv bw c b h1 h2 b0 recs) (kv : KV) (q' : List KV) (hq : b.queue = kv :: q') (n : Nat)
    (hn : n < (encBlock kv).length) :
    ∃ bw', bstep bw (.endFaultTorn c n) = (bw', .err .noSession) ∧ TornWF bw'.w h1 h2 b0 recs kv n ∧
      getB bw' c = some { b with queue := q', state := .idle } := by
  obtain ⟨h, hg, hsy⟩ := hi.sess.handle
  have hw := hi.sess.wf
  refine ⟨setB { bw with w := (step ({ bw.w with file := bw.w.file.map (fun f => f ++ (encBlock kv).take n) } : World)
      (.close b.slot)).1 } c (some { b with queue := q', state := .idle }), by simp only [bstep, hi.here, hq], ?_,
    by simp [getB, setB]⟩
  simp only [setB_w]
  have hg1 : getH ({ bw.w with file := bw.w.file.map (fun f => f ++ (encBlock kv).take n) } : World) b.slot = some h := hg
  have hstep : (step ({ bw.w with file := bw.w.file.map (fun f => f ++ (encBlock kv).take n) } : World) (.close b.slot)).1 =
      setH { bw.w with file := bw.w.file.map (fun f => f ++ (encBlock kv).take n) } b.slot
        (some { h with closed := true, mode := match h.mode with | .x | .w => Mode.a | m => m }) := by
    simp only [step, hg1]
    rfl
  rw [hstep]
  refine ⟨?_, hn, hw.hdr, hw.ok, hi.qok kv (by rw [hq]; simp), ?_, ?_⟩
  · simp only [setH_file, hw.file, Option.map_some, image_single]
  · have := hi.nodup
    rw [hq] at this
    have hsub : (recs ++ [kv]).Sublist (recs ++ kv :: q') :=
      List.Sublist.append (List.Sublist.refl _) (by simp)
    exact (hsub.map _).nodup this
  · intro i hh hgi
    by_cases hij : i = b.slot
    · subst hij
      rw [getH_setH_same] at hgi
      cases hgi
      have hinv := hw.handles b.slot h hg
      refine ⟨⟨hinv.hdr2, hinv.hdr0, ⟨recs.length, by simpa using hsy.toc, by simpa using hsy.eof⟩, fun ho => by cases ho⟩,
        rfl, ?_⟩
      have hwr := hsy.wr
      cases hm : h.mode <;> simp_all
    · rw [getH_setH_other _ _ _ _ hij] at hgi
      have hgi' : getH bw.w i = some hh := hgi
      exact ⟨hw.handles i hh hgi', hi.sess.others i hh hij hgi', hw.cmode i hh hgi' (hi.sess.others i hh hij hgi')⟩


/-- **The next writing session after a failed flush proceeds**: whichever collection object runs it — the one whose
flush failed or another one, with a cached handle (stale by any number of records) or without — `writing()` opens the
library, the torn tail is cut off, and the session starts in the session invariant on exactly the complete records. -/
theorem begin_on_torn {bw : BWorld} {d : Nat} {bd : Backend} {h1 h2 b0 : Bytes} {recs : List KV} {kv : KV} {n : Nat}
    (ht : TornWF bw.w h1 h2 b0 recs kv n) (hid : Idle bw d bd) :
    ∃ bw' b', bstep bw (.begin d true) = (bw', .ok) ∧ BInv bw' d b' h1 h2 b0 recs ∧ b'.queue = [] := by
  have hb := hid.here
  have hcp : completePrefix [kv] n = [] := completePrefix_none kv [] n ht.short
  have hnd : (recs.map (·.key)).Nodup := by
    have hsub : recs.Sublist (recs ++ [kv]) := List.sublist_append_left _ _
    exact (hsub.map _).nodup ht.nodup
  have hkvs : ∀ r ∈ [kv], r.ok := by intro r hr; simp at hr; rw [hr]; exact ht.kvok
  have key : ∃ h', (if bd.hasFile then step bw.w (.reopen bd.slot (some .a)) else step bw.w (.new bd.slot .a [] [] [])) =
      (setH { bw.w with file := some (wfFile h1 h2 b0 recs) } bd.slot (some h'), .ok) ∧
      h'.closed = false ∧ h'.mode = .a ∧ h'.h2 = h2 ∧ h'.b0 = b0 ∧ h'.toc = tocOf (bofOf h2 b0) recs ∧
      h'.eof = some (bofOf h2 b0 + (blocks recs).length) := by
    cases hf : bd.hasFile with
    | true =>
      have hsome : (getH bw.w bd.slot).isSome = true := by rw [← hid.slot, hf]
      obtain ⟨h, hg⟩ := Option.isSome_iff_exists.mp hsome
      obtain ⟨hinv, hcl, _⟩ := ht.handles bd.slot h hg
      obtain ⟨j, htoc, heof⟩ := hinv.pre
      obtain ⟨l, hstep⟩ := crash_stale_reopen bw.w bd.slot h .a (Or.inr rfl) h1 h2 b0 ht.hdr recs [kv] n j ht.ok hkvs
        ht.nodup hg hcl ht.file (by rw [hcp, List.append_nil]; exact htoc) (by rw [hcp, List.append_nil]; exact heof)
      rw [hcp, List.append_nil] at hstep
      refine ⟨staleReopened h .a h1 h2 b0 recs l, ?_, rfl, rfl, rfl, rfl, rfl, rfl⟩
      simpa using hstep
    | false =>
      have hopen := crash_reopen .a (Or.inr rfl) [] [] [] h1 h2 b0 ht.hdr recs [kv] ht.ok hkvs ht.nodup n
      rw [hcp, List.append_nil] at hopen
      refine ⟨recovered .a h1 h2 b0 recs, ?_, rfl, rfl, rfl, rfl, rfl, rfl⟩
      simp only [step, ht.file, hopen, Bool.false_eq_true, ↓reduceIte]
  obtain ⟨h', hstep, hopen, hmode, hh2, hb0, htoc, heof⟩ := key
  have hinv' : HInv h' h2 b0 recs :=
    ⟨hh2, hb0, ⟨recs.length, by simpa using htoc, by simpa using heof⟩, fun _ => ⟨htoc, heof⟩⟩
  have hw' : WF (setH { bw.w with file := some (wfFile h1 h2 b0 recs) } bd.slot (some h')) h1 h2 b0 recs := by
    refine ⟨rfl, ht.hdr, ht.ok, hnd, ?_, ?_⟩
    · intro i hh hgi
      by_cases hij : i = bd.slot
      · subst hij; rw [getH_setH_same] at hgi; cases hgi; exact hinv'
      · rw [getH_setH_other _ _ _ _ hij] at hgi
        exact (ht.handles i hh hgi).1
    · intro i hh hgi hci
      by_cases hij : i = bd.slot
      · subst hij; rw [getH_setH_same] at hgi; cases hgi; rw [hopen] at hci; cases hci
      · rw [getH_setH_other _ _ _ _ hij] at hgi
        exact (ht.handles i hh hgi).2.2
  refine ⟨setB { bw with w := setH { bw.w with file := some (wfFile h1 h2 b0 recs) } bd.slot (some h') } d
      (some { bd with hasFile := true, state := .writing, keys := recs.map (·.key) }),
    { bd with hasFile := true, state := .writing, keys := recs.map (·.key) }, ?_, ?_, hid.empty⟩
  · simp only [bstep, hb, hid.rw_, Bool.and_false, Bool.false_eq_true, ↓reduceIte]
    rw [hstep]
    simp only [tocKeys, getH_setH_same, htoc, tocOf_keys]
  · refine ⟨by simp [getB, setB], hid.rw_, rfl, rfl, ⟨hw', ?_, h', getH_setH_same _ _ _, ⟨hopen, by rw [hmode]; decide, htoc, heof⟩⟩,
      by simp [hid.empty], by simp [hid.empty], by simpa [hid.empty] using hnd⟩
    intro j hj hji hgj
    have hgj' : getH (setH { bw.w with file := some (wfFile h1 h2 b0 recs) } bd.slot (some h')) j = some hj := hgj
    rw [getH_setH_other _ _ _ _ hji] at hgj'
    exact (ht.handles j hj hgj').2.1


/-- A reading session after a failed flush lists exactly the complete records and leaves the file as it is (a
read-only handle cannot cut the tail; it does not show it either). -/
theorem read_on_torn {bw : BWorld} {d : Nat} {bd : Backend} {h1 h2 b0 : Bytes} {recs : List KV} {kv : KV} {n : Nat}
    (ht : TornWF bw.w h1 h2 b0 recs kv n) (hb : getB bw d = some bd)
    (hslot : bd.hasFile = (getH bw.w bd.slot).isSome) :
    ∃ bw' b', bstep bw (.begin d false) = (bw', .ok) ∧ getB bw' d = some b' ∧ b'.keys = recs.map (·.key) ∧
      bw'.w.file = bw.w.file := by
  have hcp : completePrefix [kv] n = [] := completePrefix_none kv [] n ht.short
  have hkvs : ∀ r ∈ [kv], r.ok := by intro r hr; simp at hr; rw [hr]; exact ht.kvok
  have key : ∃ h', (if bd.hasFile then step bw.w (.reopen bd.slot (some .r)) else step bw.w (.new bd.slot .r [] [] [])) =
      (setH { bw.w with file := bw.w.file } bd.slot (some h'), .ok) ∧ h'.toc = tocOf (bofOf h2 b0) recs := by
    cases hf : bd.hasFile with
    | true =>
      have hsome : (getH bw.w bd.slot).isSome = true := by rw [← hslot, hf]
      obtain ⟨h, hg⟩ := Option.isSome_iff_exists.mp hsome
      obtain ⟨hinv, hcl, _⟩ := ht.handles bd.slot h hg
      obtain ⟨j, htoc, heof⟩ := hinv.pre
      obtain ⟨l, hstep⟩ := crash_stale_reopen bw.w bd.slot h .r (Or.inl rfl) h1 h2 b0 ht.hdr recs [kv] n j ht.ok hkvs
        ht.nodup hg hcl ht.file (by rw [hcp, List.append_nil]; exact htoc) (by rw [hcp, List.append_nil]; exact heof)
      rw [hcp, List.append_nil] at hstep
      refine ⟨staleReopened h .r h1 h2 b0 recs l, ?_, rfl⟩
      simp only [↓reduceIte]
      rw [hstep]
      simp [ht.file]
    | false =>
      have hopen := crash_reopen .r (Or.inl rfl) [] [] [] h1 h2 b0 ht.hdr recs [kv] ht.ok hkvs ht.nodup n
      rw [hcp, List.append_nil] at hopen
      refine ⟨recovered .r h1 h2 b0 recs, ?_, rfl⟩
      simp only [step, ht.file, hopen, Bool.false_eq_true, ↓reduceIte]
      simp
  obtain ⟨h', hstep, htoc⟩ := key
  refine ⟨setB { bw with w := setH { bw.w with file := bw.w.file } bd.slot (some h') } d
      (some { bd with hasFile := true, state := .reading, keys := recs.map (·.key) }),
    { bd with hasFile := true, state := .reading, keys := recs.map (·.key) }, ?_, by simp [getB, setB], rfl, rfl⟩
  simp only [bstep, hb, Bool.false_and, Bool.false_eq_true, ↓reduceIte]
  rw [hstep]
  simp only [tocKeys, getH_setH_same, htoc, tocOf_keys]

/-- **End to end**: the flush at the exit of a writing session of object `c` fails after `n` bytes of a record; then
ANOTHER collection object `d` (any buffer size, cached handle stale or absent) runs a complete writing session.  The
library ends as the well-formed file of the records completed before the failure followed by the records of the new
session: nothing completed is lost, the lost pair is absent, no hole, no garbage; everything is closed and `d` is idle. -/
theorem torn_flush_then_other_session {bw : BWorld} {c d : Nat} {b bd : Backend} {h1 h2 b0 : Bytes} {recs : List KV}
    (hi : BInv bw c b h1 h2 b0 recs) (kv : KV) (q' : List KV) (hq : b.queue = kv :: q') (n : Nat)
    (hn : n < (encBlock kv).length) (hdc : d ≠ c) (hid : Idle bw d bd) (hsl : bd.slot ≠ b.slot)
    (ps : List KV) (hok : ∀ r ∈ ps, r.ok) (hnd : ((recs ++ ps).map (·.key)).Nodup) :
    ∃ b', WF (brun (bstep bw (.endFaultTorn c n)).1 (sessionOps d ps)).w h1 h2 b0 (recs ++ ps) ∧
      AllClosed (brun (bstep bw (.endFaultTorn c n)).1 (sessionOps d ps)).w ∧
      Idle (brun (bstep bw (.endFaultTorn c n)).1 (sessionOps d ps)) d b' := by
  obtain ⟨bw1, hst, ht, _⟩ := torn_flush_leaves hi kv q' hq n hn
  obtain ⟨f1, f2, _⟩ := bstep_frame bw (.endFaultTorn c n) c b rfl hi.here
  have hbw1 : (bstep bw (.endFaultTorn c n)).1 = bw1 := by rw [hst]
  rw [hbw1] at f1 f2 ⊢
  have hid1 : Idle bw1 d bd :=
    ⟨by rw [f1 d hdc]; exact hid.here, hid.rw_, hid.empty, by rw [f2 _ hsl]; exact hid.slot⟩
  obtain ⟨bw2, b2, hbeg, hi2, hq2⟩ := begin_on_torn ht hid1
  obtain ⟨b3, recs3, hi3, hsum, _⟩ := cputs_ok ps hi2 hok (by simpa [hq2] using hnd)
  obtain ⟨bw4, b4, hend, hw4, hc4, hi4⟩ := end_restores hi3
  refine ⟨b4, ?_, ?_, ?_⟩ <;>
  · have hrun : brun bw1 (sessionOps d ps) = bw4 := by
      simp only [sessionOps, brun, List.foldl_cons, hbeg, List.foldl_append, List.foldl_nil]
      simp only [brun] at hend hi3
      rw [hend]
    rw [hrun]
    first
      | (rw [hsum, hq2] at hw4; simpa using hw4)
      | exact hc4
      | exact hi4


/-! ### non-vacuity: object 0 (large buffer) queues two records, its exit flush fails 3 bytes into the first block;
object 1 then reads (one committed record), writes a shorter record; a fresh look at the file shows the committed record
and the new one, nothing torn; object 0 still holds the second pair and writes it in its next session -/

example :
    let ops : List BOp := [.cnew 0 1000000 false false [], .cnew 1 0 false false [],
      .begin 0 true, .put 0 [97] [1] 1, .end_ 0,
      .begin 0 true, .put 0 [116] (List.replicate 20 0) 1, .put 0 [117] [7] 1, .endFaultTorn 0 3,
      .begin 1 false, .keys 1, .end_ 1,
      .begin 1 true, .put 1 [115] [] 1, .end_ 1,
      .begin 0 true, .end_ 0]
    (brun initB ops).w.file.map absFile = some [⟨[97], [1]⟩, ⟨[115], []⟩, ⟨[117], [7]⟩] ∧
    (bouts initB ops).drop 8 = [.err .noSession, .ok, .keys [[97]], .ok, .ok, .ok, .ok, .ok, .ok] := by decide +kernel

end Molli.Props.C02Backend
