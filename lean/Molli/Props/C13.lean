/-
C13 — CDXML parsing reproduces the drawing: constitution, charges, and handedness (PARTIAL).

  "Each labelled fragment of a CDXML file parses to a molecule with one atom per drawn node, one bond per drawn
   bond with the drawn order, the drawn isotopes, formal charges and radical counts (total charge and multiplicity
   follow), and attachment points where drawn. Mirroring the stereo marks of a drawing (wedge <-> hash) leaves the
   constitution unchanged and inverts the handedness of every non-planar centre of the model, parsing is
   deterministic, and a label always resolves to the same fragment."

What is proved here, about the model `Molli.Model.Cdxml` (tied to molli/ftypes/cdxml.py by the correspondence run of
harness/c13.py on every fragment of every bundled drawing, on synthetic drawings and on generated variants):

 * constitution (logic, proved): counting theorems for the flat fragment, for `join` and for nested fragments;
   the constitution does not look at the stereo marks at all (`constitution_ignores_stereo_marks`);
 * label resolution (logic, proved): what the rule picks (`resolve_nearest_above`), invariance under translation
   of the page and under permutation of the fragments (distinct distances), determinism;
 * handedness (the ORACLE is proved sound, not the parser): the sign of the signed volume at a centre is invariant
   under translations, proper linear maps and positive scaling and flips under reflection and under exchanging two
   neighbours (`orientation_flips`).

Partial: the 3-D embedding heuristic (`_cdxml_3dify_`: SVD mean plane, fixed displacements) has no closed-form
specification; its effect — mirrored marks invert every non-planar centre — is checked per drawing by the exact
predicate `orient` on the coordinates molli returns.
-/
import Molli.Lemmas.Cdxml
namespace Molli.Props.C13
open Molli.Model.Cdxml Molli.Lemmas.Cdxml

/-! ## constitution -/

/-- "one atom per drawn node, one bond per drawn bond …, the drawn isotopes, formal charges and radical counts
(total charge and multiplicity follow)" — for a fragment without nested fragments: one atom per node that is not a
multi-attachment (hapto) node, in document order, carrying the drawn charge, radical count and isotope; the total
charge is the sum of the drawn charges and the multiplicity the sum of the radical counts plus one; without hapto
nodes there is exactly one bond per `<b>` element. -/
theorem constitution_counts (f : RawFrag) (m : Mol) (h : flat f = some m) :
    m.atoms.length = (f.nodes.filter (fun n => !isMulti n)).length ∧
    m.atoms.map (·.charge) = (atomNodes f).map rawCharge ∧
    m.atoms.map (·.spin) = (atomNodes f).map rawSpin ∧
    m.atoms.map (·.isotope) = (atomNodes f).map rawIsotope ∧
    m.charge = ((atomNodes f).map rawCharge).sum ∧
    m.mult = ((atomNodes f).map rawSpin).sum + 1 ∧
    (f.nodes.filter isMulti = [] → m.bonds.length = f.bonds.length) := by
  obtain ⟨h1, h2, h3, h4, h5⟩ := flat_counts f m h
  refine ⟨h1, h2, h3, h4, ?_, ?_, h5⟩
  · simp only [Mol.charge, h2]
  · simp only [Mol.mult, h3]

/-- "…nested fragments": joining a nested fragment removes the place-holder atom and the fragment's attachment
point and replaces their two bonds by one bond: atoms `|m₁| + |m₂| − 2`, bonds `|b₁| + |b₂| − 1`. -/
theorem join_counts (m₁ m₂ m : Mol) (p q : Nat) (h : join m₁ m₂ p q = some m) :
    m.atoms.length + 2 = m₁.atoms.length + m₂.atoms.length ∧
    m.bonds.length + 1 = m₁.bonds.length + m₂.bonds.length :=
  Molli.Lemmas.Cdxml.join_counts m₁ m₂ m p q h

example : ∃ m, join ⟨[⟨6, none, none, 1, 0, 0, none⟩, ⟨0, none, none, 101, 0, 0, none⟩], [⟨0, 1, 1, 1⟩]⟩
    ⟨[⟨0, none, none, 101, 0, 0, none⟩, ⟨8, none, none, 1, -1, 0, none⟩], [⟨0, 1, 1, 1⟩]⟩ 1 0 = some m ∧
    m.atoms.length = 2 ∧ m.bonds.length = 1 ∧ m.charge = -1 := by
  refine ⟨⟨[⟨6, none, none, 1, 0, 0, none⟩, ⟨8, none, none, 1, -1, 0, none⟩], [⟨0, 1, 1, 1⟩]⟩, ?_, rfl, rfl, ?_⟩ <;>
    decide +kernel

/-- "(total charge and multiplicity follow)" through a nested fragment: `join` removes exactly the two attachment
atoms, so the total charge of the product is the sum of the two totals minus the formal charges of the two removed
atoms, and the radical count (multiplicity − 1) likewise — no charge or radical of a surviving atom is lost,
doubled or moved. -/
theorem join_charge_mult (m₁ m₂ m : Mol) (p q : Nat) (h : join m₁ m₂ p q = some m) :
    ∃ (hp : p < m₁.atoms.length) (hq : q < m₂.atoms.length),
      m.charge + (m₁.atoms[p]).charge + (m₂.atoms[q]).charge = m₁.charge + m₂.charge ∧
      m.mult + (m₁.atoms[p]).spin + (m₂.atoms[q]).spin + 1 = m₁.mult + m₂.mult := by
  unfold join at h
  split at h
  · split at h
    · rename_i hc
      obtain ⟨hp, hq, _, _⟩ := hc
      simp only [Option.some.injEq] at h
      subst h
      refine ⟨hp, hq, ?_, ?_⟩
      · simp only [Mol.charge, Mol.delAtom, List.map_append, List.sum_append]
        have h1 := Molli.Lemmas.Cdxml.sum_map_eraseIdx_int (·.charge) m₁.atoms p hp
        have h2 := Molli.Lemmas.Cdxml.sum_map_eraseIdx_int (·.charge) m₂.atoms q hq
        omega
      · simp only [Mol.mult, Mol.delAtom, List.map_append, List.sum_append]
        have h1 := Molli.Lemmas.Cdxml.sum_map_eraseIdx_nat (·.spin) m₁.atoms p hp
        have h2 := Molli.Lemmas.Cdxml.sum_map_eraseIdx_nat (·.spin) m₂.atoms q hq
        omega
    · simp at h
  · simp at h

/-- the usual drawing: place-holder and attachment point carry neither charge nor radical — then the total charge
is the sum of the totals and the radical counts add up (a doublet skeleton with a doublet label is a triplet). -/
theorem join_charge_mult_neutral (m₁ m₂ m : Mol) (p q : Nat) (h : join m₁ m₂ p q = some m)
    (hp0 : ∀ hp : p < m₁.atoms.length, (m₁.atoms[p]).charge = 0 ∧ (m₁.atoms[p]).spin = 0)
    (hq0 : ∀ hq : q < m₂.atoms.length, (m₂.atoms[q]).charge = 0 ∧ (m₂.atoms[q]).spin = 0) :
    m.charge = m₁.charge + m₂.charge ∧ m.mult + 1 = m₁.mult + m₂.mult := by
  obtain ⟨hp, hq, hc, hm⟩ := join_charge_mult m₁ m₂ m p q h
  obtain ⟨c1, s1⟩ := hp0 hp
  obtain ⟨c2, s2⟩ := hq0 hq
  rw [c1, c2] at hc; rw [s1, s2] at hm
  constructor <;> omega

/-- a whole fragment with its nested fragments (each already evaluated): every nested fragment contributes its
atoms minus two (its attachment point and the place-holder) and its bonds minus one. -/
theorem nested_counts (done : List (Option Mol)) (f : RawFrag) (r : Mol) (h : evalFrag done f = some r) :
    r.atoms.length + 2 * (nestedSizes done f.nodes).length =
      (f.nodes.filter (fun n => !isMulti n)).length + (nestedSizes done f.nodes).sum := by
  unfold evalFrag at h
  cases hm : flat f with
  | none => simp [hm] at h
  | some m =>
    simp only [hm, Option.bind_eq_bind, Option.bind_some] at h
    have h1 := (joinNested_counts done f.nodes m r h).1
    have h2 := (flat_counts f m hm).1
    unfold atomNodes at h2
    omega

/-- "one bond per drawn bond" joins two atoms of the molecule: in whatever `_parse_fragment` returns — any number
of nodes and bonds, hapto expansion, nested fragments to any depth — every bond refers to two existing atoms
(no dangling end after the deletions and index shifts of the joins). -/
theorem bonds_join_existing_atoms (fs : List RawFrag) (m : Mol) (h : parseFragment fs = some m) :
    ∀ b ∈ m.bonds, b.a1 < m.atoms.length ∧ b.a2 < m.atoms.length :=
  parseFragment_wf fs m h

/-- the stereo marks of a drawing play no role in the constitution: two `<b>` records that differ only in a
wedge / hash / bold mark give the same bond type ("mirroring … leaves the constitution unchanged"). -/
theorem constitution_ignores_stereo_marks (b : RawBond) (d₁ d₂ : Option String)
    (h₁ : d₁ ≠ some "Dash") (h₂ : d₂ ≠ some "Dash") :
    bondType { b with display := d₁ } = bondType { b with display := d₂ } := by
  simp [bondType, h₁, h₂]

/-! ## label resolution -/

/-- "a label always resolves to the same fragment" — what the rule picks: the fragment of the label's own group
if there is one; otherwise a listed fragment lying above the label such that no listed fragment strictly nearer
(L1) lies above it. -/
theorem resolve_spec (frags : List FragPos) (sib : Option Nat) (l : P) (i : Nat)
    (h : resolve frags sib l = some i) :
    sib = some i ∨
    (sib = none ∧ ∃ f ∈ frags, f.id = i ∧ f.pos.y < l.y ∧ ∀ g ∈ frags, l1 g.pos l < l1 f.pos l → ¬ g.pos.y < l.y) := by
  cases sib with
  | some j => left; simpa [resolve] using h
  | none => right; exact ⟨rfl, resolve_nearest_above frags l i h⟩

/-- moving the whole page (all fragments and the label) by a vector `t` does not change the fragment a label
resolves to. -/
theorem resolve_translation_invariant (frags : List FragPos) (sib : Option Nat) (l t : P) :
    resolve (frags.map (shift t)) sib (l.add t) = resolve frags sib l :=
  resolve_shift frags sib l t

/-- listing the fragments in another order does not change the fragment a label resolves to, provided no two
fragments are at the same L1 distance from the label (the order of equidistant candidates is the KD-tree's). -/
theorem resolve_permutation_invariant (frags₁ frags₂ : List FragPos) (sib : Option Nat) (l : P)
    (hp : frags₁.Perm frags₂) (hd : DistinctDist frags₁ l) :
    resolve frags₁ sib l = resolve frags₂ sib l :=
  resolve_perm frags₁ frags₂ sib l hp hd

example : DistinctDist [⟨0, ⟨0, 0⟩⟩, ⟨1, ⟨3, 2⟩⟩, ⟨2, ⟨1, 7⟩⟩] ⟨1, 5⟩ ∧
    [(⟨0, ⟨0, 0⟩⟩ : FragPos), ⟨1, ⟨3, 2⟩⟩, ⟨2, ⟨1, 7⟩⟩].Perm [⟨2, ⟨1, 7⟩⟩, ⟨0, ⟨0, 0⟩⟩, ⟨1, ⟨3, 2⟩⟩] := by
  refine ⟨?_, by decide⟩
  intro a ha b hb
  simp only [List.mem_cons, List.not_mem_nil, or_false] at ha hb
  rcases ha with rfl | rfl | rfl <;> rcases hb with rfl | rfl | rfl <;> decide +kernel

/-- "parsing is deterministic" (logic part): the constitution and the resolved fragment are functions of the
drawn records — equal records give equal results. -/
theorem determinism (fs₁ fs₂ : List RawFrag) (frags₁ frags₂ : List FragPos) (sib : Option Nat) (l : P)
    (hf : fs₁ = fs₂) (hp : frags₁ = frags₂) :
    parseFragment fs₁ = parseFragment fs₂ ∧ resolve frags₁ sib l = resolve frags₂ sib l := by
  subst hf hp; exact ⟨rfl, rfl⟩

/-! ## handedness: soundness of the mirror oracle -/

/-- The sign of the signed volume at a centre `c` with neighbours `a, b, d`
 * is invariant under translation, under every linear map of determinant 1 (proper rigid motions in particular;
   row-vector convention as numpy's `coords @ R`) and under positive scaling,
 * flips under the reflection in the drawing plane and under exchanging two neighbours.
So "the sign changed between the original and the mirrored drawing" is a statement about handedness and not about
where or how large the embedding heuristic happened to put the model. -/
theorem orientation_flips (c a b d t : V3) (m : M3) (s : Rat) (hm : m.det = 1) (hs : 0 < s) :
    signOf (signedVol (c.add t) (a.add t) (b.add t) (d.add t)) = signOf (signedVol c a b d) ∧
    signOf (signedVol (c.mulM m) (a.mulM m) (b.mulM m) (d.mulM m)) = signOf (signedVol c a b d) ∧
    signOf (signedVol (V3.smul s c) (V3.smul s a) (V3.smul s b) (V3.smul s d)) = signOf (signedVol c a b d) ∧
    signOf (signedVol c.mirror a.mirror b.mirror d.mirror) = (signOf (signedVol c a b d)).flip ∧
    signOf (signedVol c b a d) = (signOf (signedVol c a b d)).flip := by
  refine ⟨?_, ?_, ?_, ?_, ?_⟩
  · rw [signedVol_translate]
  · rw [signedVol_linear, hm]; congr 1; grind
  · rw [signedVol_scale]
    have h3 : 0 < s * s * s := Rat.mul_pos (Rat.mul_pos hs hs) hs
    exact signOf_pos_mul _ _ h3
  · rw [signedVol_mirror, signOf_neg]
  · rw [signedVol_swap, signOf_neg]

/-- an improper linear map (determinant −1, e.g. any reflection) flips the sign -/
theorem orientation_flips_improper (c a b d : V3) (m : M3) (hm : m.det = -1) :
    signOf (signedVol (c.mulM m) (a.mulM m) (b.mulM m) (d.mulM m)) = (signOf (signedVol c a b d)).flip := by
  rw [signedVol_linear, hm, ← signOf_neg]
  have : signedVol c a b d * -1 = -signedVol c a b d := by grind
  rw [this]

/-- the threshold predicate the harness evaluates: with `eps ≥ 0`, a centre found non-planar has the sign of its
signed volume, and mirrored coordinates give the flipped answer (also for `zero`). -/
theorem orient_mirror (eps : Rat) (he : 0 ≤ eps) (c a b d : V3) :
    orient eps c.mirror a.mirror b.mirror d.mirror = (orient eps c a b d).flip := by
  simp only [orient, signedVol_mirror]
  by_cases h1 : eps < signedVol c a b d <;> by_cases h2 : signedVol c a b d < -eps <;>
    simp [h1, h2, Sign.flip] <;> grind

theorem orient_sound (eps : Rat) (he : 0 ≤ eps) (c a b d : V3) :
    (orient eps c a b d = .pos → signOf (signedVol c a b d) = .pos) ∧
    (orient eps c a b d = .neg → signOf (signedVol c a b d) = .neg) := by
  simp only [orient, signOf]
  constructor
  · intro h
    by_cases h1 : eps < signedVol c a b d
    · have : 0 < signedVol c a b d := by grind
      simp [this]
    · by_cases h2 : signedVol c a b d < -eps <;> simp [h1, h2] at h
  · intro h
    by_cases h1 : eps < signedVol c a b d
    · simp [h1] at h
    · by_cases h2 : signedVol c a b d < -eps
      · have h3 : signedVol c a b d < 0 := by grind
        have h4 : ¬ 0 < signedVol c a b d := by grind
        simp [h3, h4]
      · simp [h1, h2] at h

example : orient (1/1000000) ⟨0, 0, 0⟩ ⟨1, 0, 0⟩ ⟨0, 1, 0⟩ ⟨0, 0, 1⟩ = .pos ∧
    orient (1/1000000) ⟨0, 0, 0⟩ ⟨1, 0, 0⟩ ⟨0, 1, 0⟩ ⟨0, 0, -1⟩ = .neg ∧
    orient (1/1000000) ⟨0, 0, 0⟩ ⟨1, 0, 0⟩ ⟨0, 1, 0⟩ ⟨1, 1, 0⟩ = .zero := by decide +kernel

end Molli.Props.C13
