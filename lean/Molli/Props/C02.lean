/-
C02 — A library file is an insert-only key-value map over any operation history.

  "For every sequence of opens, closes, reopenings, puts, gets and key listings on a UKV file …
   - through one handle or several handles on the same path - get(k) returns exactly the bytes of the
   one successful put(k), the key listing is exactly the set of successfully put keys, file headers
   (h1, comment, descriptor block) are preserved, and an operation that fails (duplicate key,
   oversize key, write on read-only handle) leaves both the file and every handle's view unchanged."

Model: `Molli.Model.Ukv.step` (byte-level file, any number of handle objects with cached, possibly
stale tables of contents).  Scope (`Allowed`): a put happens only while every *other* handle is closed
(what the reader–writer lock of C04 guarantees to sessions); a truncating (re-)creation `w` happens
only when no other handle object exists; a closed handle is not reopened in mode w/x.
All theorems are for op histories of any length, any number of handles, records of any size.
-/
import Molli.Lemmas.UkvWorld
import Molli.Props.C03
namespace Molli.Props.C02
open Molli.Util Molli.Model.Ukv Molli.Lemmas.Ukv

/-- The world is a well-formed file holding exactly `recs` (distinct keys) under the header
`(h1, h2, b0)`, and every handle object caches a prefix of it (all of it while open). -/
structure WF (w : World) (h1 h2 b0 : Bytes) (recs : List KV) : Prop where
  file : w.file = some (wfFile h1 h2 b0 recs)
  hdr : HdrOk h2 b0
  ok : ∀ r ∈ recs, r.ok
  nodup : (recs.map (·.key)).Nodup
  handles : ∀ i h, getH w i = some h → HInv h h2 b0 recs
  cmode : ∀ i h, getH w i = some h → h.closed = true → h.mode = .r ∨ h.mode = .a

/-- World invariant: no file and no handle object yet, or a well-formed file. -/
inductive WInv (w : World) : Prop
  | empty : w.file = none → (∀ i, getH w i = none) → WInv w
  | wf (h1 h2 b0 : Bytes) (recs : List KV) : WF w h1 h2 b0 recs → WInv w

def othersClosed (w : World) (i : Nat) : Prop := ∀ j h, j ≠ i → getH w j = some h → h.closed = true
def othersNone (w : World) (i : Nat) : Prop := ∀ j, j ≠ i → getH w j = none

/-- The scope of the claim (see file header). -/
def Allowed (w : World) : Op → Prop
  | .put i _ _ => othersClosed w i
  | .new i m _ h2 b0 => ((m = .w ∨ m = .x) → HdrOk h2 b0) ∧ (m = .w → w.file = none ∨ othersNone w i)
  | .reopen _ (some .w) => False
  | .reopen _ (some .x) => False
  | _ => True

theorem absFile_wf (h1 h2 b0 : Bytes) (hh : HdrOk h2 b0) (recs : List KV) (hc : ∀ r ∈ recs, r.ok) :
    absFile (wfFile h1 h2 b0 recs) = recs := by
  have := Molli.Props.C03.crash_atomic h1 h2 b0 hh recs [] hc (by simp) 0
  simpa [image_nil, completePrefix] using this

/-! ### frame: what does not change -/

theorem hinv_other {w : World} {i j : Nat} {x : Option Handle} (hij : j ≠ i) {h : Handle}
    (hg : getH (setH w i x) j = some h) : getH w j = some h := by
  rwa [getH_setH_other w i j x hij] at hg

/-- An `HInv` for `recs` is an `HInv` for `recs ++ [kv]` as long as the handle is closed. -/
theorem hinv_extend (h : Handle) (h2 b0 : Bytes) (recs : List KV) (kv : KV)
    (hi : HInv h h2 b0 recs) (hc : h.closed = true) : HInv h h2 b0 (recs ++ [kv]) := by
  obtain ⟨j, htoc, heof⟩ := hi.pre
  refine ⟨hi.hdr2, hi.hdr0, ⟨min j recs.length, ?_, ?_⟩, fun ho => by rw [hc] at ho; cases ho⟩
  · rw [htoc, List.take_append_of_le_length (Nat.min_le_right _ _)]
    congr 1
    by_cases hj : j ≤ recs.length
    · rw [Nat.min_eq_left hj]
    · rw [Nat.min_eq_right (by omega), List.take_of_length_le (by omega), List.take_of_length_le (Nat.le_refl _)]
  · rw [heof, List.take_append_of_le_length (Nat.min_le_right _ _)]
    congr 3
    by_cases hj : j ≤ recs.length
    · rw [Nat.min_eq_left hj]
    · rw [Nat.min_eq_right (by omega), List.take_of_length_le (by omega), List.take_of_length_le (Nat.le_refl _)]

theorem step_get_world (w : World) (i : Nat) (k : Bytes) : (step w (.get i k)).1 = w := by
  simp only [step]; repeat' split
  all_goals rfl

theorem step_keys_world (w : World) (i : Nat) : (step w (.keys i)).1 = w := by
  simp only [step]; repeat' split
  all_goals rfl

/-- WF is insensitive to replacing handle `i` by a handle that satisfies the handle invariant. -/
theorem wf_setH {w : World} {h1 h2 b0 : Bytes} {recs : List KV} (hw : WF w h1 h2 b0 recs) (i : Nat)
    (x : Option Handle) (hx : ∀ h, x = some h → HInv h h2 b0 recs ∧ (h.closed = true → h.mode = .r ∨ h.mode = .a)) :
    WF (setH w i x) h1 h2 b0 recs := by
  refine ⟨hw.file, hw.hdr, hw.ok, hw.nodup, ?_, ?_⟩
  · intro j h hg
    by_cases hij : j = i
    · subst hij; rw [getH_setH_same] at hg; exact (hx h hg).1
    · exact hw.handles j h (hinv_other hij hg)
  · intro j h hg
    by_cases hij : j = i
    · subst hij; rw [getH_setH_same] at hg; exact (hx h hg).2
    · exact hw.cmode j h (hinv_other hij hg)

theorem wf_close {w : World} {h1 h2 b0 : Bytes} {recs : List KV} (hw : WF w h1 h2 b0 recs) (i : Nat) :
    WF (step w (.close i)).1 h1 h2 b0 recs := by
  simp only [step]
  cases hg : getH w i with
  | none => exact hw
  | some h =>
    apply wf_setH hw
    intro h' he
    cases he
    have hi := hw.handles i h hg
    refine ⟨⟨hi.hdr2, hi.hdr0, hi.pre, fun ho => by cases ho⟩, fun _ => ?_⟩
    cases hm : h.mode <;> simp

/-- (Re)opening in mode r or a on a well-formed file. -/
theorem wf_open_ra {w : World} {h1 h2 b0 : Bytes} {recs : List KV} (hw : WF w h1 h2 b0 recs) (i : Nat)
    (h : Handle) (hm : h.mode = .r ∨ h.mode = .a)
    (hpre : ∃ j, h.toc = tocOf (bofOf h2 b0) (recs.take j) ∧
          (h.eof = none ∨ h.eof = some (bofOf h2 b0 + (blocks (recs.take j)).length))) :
    ∃ h', openHandle h w.file = .ok (h', w.file) ∧ h'.closed = false ∧ HInv h' h2 b0 recs ∧ h'.mode = h.mode := by
  obtain ⟨l, hl⟩ := openHandle_wf h h1 h2 b0 hw.hdr recs hw.ok hw.nodup hm hpre
  rw [hw.file]
  exact ⟨_, hl, rfl, ⟨rfl, rfl, ⟨recs.length, by simp, by simp⟩, fun _ => ⟨rfl, rfl⟩⟩, rfl⟩

/-- A file freshly created through handle `i` (modes w, x) while no other handle object exists. -/
theorem wf_create (w : World) (i : Nat) (m : Mode) (x1 x2 x3 : Bytes) (hh : HdrOk x2 x3)
    (hm : m = .w ∨ m = .x) (hnone : othersNone w i) :
    WF (setH { w with file := some (encHeader (newHandle m x1 x2 x3).h1 x2 x3) } i
          (some { newHandle m x1 x2 x3 with closed := false, eof := some (bofOf x2 x3) }))
       (newHandle m x1 x2 x3).h1 x2 x3 [] := by
  refine ⟨by simp [wfFile, blocks], hh, by simp, by simp, ?_, ?_⟩
  · intro j h hg
    by_cases hij : j = i
    · subst hij
      rw [getH_setH_same] at hg; cases hg
      exact ⟨rfl, rfl, ⟨0, by simp [newHandle, tocOf], by simp [blocks]⟩,
        fun _ => ⟨by simp [newHandle, tocOf], by simp [blocks]⟩⟩
    · rw [getH_setH_other _ _ _ _ hij] at hg
      have := hnone j hij
      simp only [getH_file_update] at hg
      rw [this] at hg; cases hg
  · intro j h hg hc
    by_cases hij : j = i
    · subst hij
      rw [getH_setH_same] at hg; cases hg; cases hc
    · rw [getH_setH_other _ _ _ _ hij] at hg
      have := hnone j hij
      simp only [getH_file_update] at hg
      rw [this] at hg; cases hg

/-- `UKVFile(path, mode)` with mode r, a or x on an existing well-formed file: same file, same header. -/
theorem wf_new_rax {w : World} {h1 h2 b0 : Bytes} {recs : List KV} (hw : WF w h1 h2 b0 recs)
    (i : Nat) (m : Mode) (hm : m ≠ .w) (x1 x2 x3 : Bytes) :
    WF (step w (.new i m x1 x2 x3)).1 h1 h2 b0 recs := by
  cases m with
  | r =>
    obtain ⟨h', ho, hc, hi, hmode⟩ := wf_open_ra hw i (newHandle .r x1 x2 x3) (Or.inl rfl)
      ⟨0, by simp [newHandle, tocOf], Or.inl rfl⟩
    simp only [step, ho]
    exact wf_setH hw i _ (fun h he => by cases he; exact ⟨hi, fun hc' => by rw [hc] at hc'; cases hc'⟩)
  | a =>
    obtain ⟨h', ho, hc, hi, hmode⟩ := wf_open_ra hw i (newHandle .a x1 x2 x3) (Or.inr rfl)
      ⟨0, by simp [newHandle, tocOf], Or.inl rfl⟩
    simp only [step, ho]
    exact wf_setH hw i _ (fun h he => by cases he; exact ⟨hi, fun hc' => by rw [hc] at hc'; cases hc'⟩)
  | x =>
    simp only [step, openHandle, newHandle, hw.file]
    exact wf_setH hw i none (fun h he => by cases he)
  | w => exact absurd rfl hm

theorem inv_new_wf {w : World} {h1 h2 b0 : Bytes} {recs : List KV} (hw : WF w h1 h2 b0 recs)
    (i : Nat) (m : Mode) (x1 x2 x3 : Bytes) (ha : Allowed w (.new i m x1 x2 x3)) :
    WInv (step w (.new i m x1 x2 x3)).1 := by
  by_cases hm : m = .w
  · subst hm
    have hh : HdrOk x2 x3 := ha.1 (Or.inl rfl)
    have hnone : othersNone w i := by
      rcases ha.2 rfl with hf | hn
      · rw [hw.file] at hf; cases hf
      · exact hn
    simp only [step, openHandle]
    exact .wf _ x2 x3 [] (wf_create w i .w x1 x2 x3 hh (Or.inl rfl) hnone)
  · exact .wf h1 h2 b0 recs (wf_new_rax hw i m hm x1 x2 x3)

theorem inv_new_empty {w : World} (hf : w.file = none) (hn : ∀ i, getH w i = none)
    (i : Nat) (m : Mode) (x1 x2 x3 : Bytes) (ha : Allowed w (.new i m x1 x2 x3)) :
    WInv (step w (.new i m x1 x2 x3)).1 := by
  have hnone : othersNone w i := fun j _ => hn j
  cases m with
  | r =>
    simp only [step, openHandle, newHandle, hf]
    exact .empty hf (fun j => by by_cases hij : j = i <;> simp [getH, setH, hij, hn j] <;> exact hn j)
  | a =>
    simp only [step, openHandle, newHandle, hf]
    exact .empty hf (fun j => by by_cases hij : j = i <;> simp [getH, setH, hij, hn j] <;> exact hn j)
  | x =>
    simp only [step, openHandle, hf]
    exact .wf _ x2 x3 [] (wf_create w i .x x1 x2 x3 (ha.1 (Or.inr rfl)) (Or.inr rfl) hnone)
  | w =>
    simp only [step, openHandle]
    exact .wf _ x2 x3 [] (wf_create w i .w x1 x2 x3 (ha.1 (Or.inl rfl)) (Or.inl rfl) hnone)

theorem hinv_weaken_pre {h : Handle} {h2 b0 : Bytes} {recs : List KV} (hi : HInv h h2 b0 recs) :
    ∃ j, h.toc = tocOf (bofOf h2 b0) (recs.take j) ∧
      (h.eof = none ∨ h.eof = some (bofOf h2 b0 + (blocks (recs.take j)).length)) := by
  obtain ⟨j, a, b⟩ := hi.pre
  exact ⟨j, a, Or.inr b⟩

theorem inv_reopen_wf {w : World} {h1 h2 b0 : Bytes} {recs : List KV} (hw : WF w h1 h2 b0 recs)
    (i : Nat) (m : Option Mode) (ha : Allowed w (.reopen i m)) :
    WF (step w (.reopen i m)).1 h1 h2 b0 recs := by
  simp only [step]
  cases hg : getH w i with
  | none => exact hw
  | some h =>
    simp only
    by_cases hc : h.closed = true
    · have hnc : (!h.closed) = false := by rw [hc]; rfl
      simp only [hnc, Bool.false_eq_true, ↓reduceIte]
      have hi := hw.handles i h hg
      have hcm := hw.cmode i h hg hc
      -- the handle with its mode assigned
      have key : ∀ h₀ : Handle, h₀.toc = h.toc → h₀.eof = h.eof → h₀.h2 = h.h2 → h₀.b0 = h.b0 → h₀.closed = true →
          (h₀.mode = .r ∨ h₀.mode = .a) →
          WF (match openHandle h₀ w.file with
              | .error _ => setH w i (some h₀)
              | .ok (h', f) => setH { w with file := f } i (some h')) h1 h2 b0 recs := by
        intro h₀ e1 e2 e3 e4 e5 hm
        obtain ⟨h', ho, hc', hi', _⟩ := wf_open_ra hw i h₀ hm (by
          obtain ⟨j, a, b⟩ := hinv_weaken_pre hi
          exact ⟨j, by rw [e1]; exact a, by rw [e2]; exact b⟩)
        rw [ho]
        exact wf_setH hw i _ (fun x hx => by cases hx; exact ⟨hi', fun hcc => by rw [hc'] at hcc; cases hcc⟩)
      cases m with
      | none =>
        have := key h rfl rfl rfl rfl hc hcm
        revert this
        cases openHandle h w.file with
        | error e => exact id
        | ok p => obtain ⟨a, b⟩ := p; exact id
      | some m =>
        cases m with
        | w => exact absurd ha (by simp [Allowed])
        | x => exact absurd ha (by simp [Allowed])
        | r =>
          have := key { h with mode := .r } rfl rfl rfl rfl hc (Or.inl rfl)
          revert this
          cases openHandle { h with mode := .r } w.file with
          | error e => exact id
          | ok p => obtain ⟨a, b⟩ := p; exact id
        | a =>
          have := key { h with mode := .a } rfl rfl rfl rfl hc (Or.inr rfl)
          revert this
          cases openHandle { h with mode := .a } w.file with
          | error e => exact id
          | ok p => obtain ⟨a, b⟩ := p; exact id
    · have : h.closed = false := by cases hcl : h.closed <;> simp_all
      simp only [this, Bool.not_false, ↓reduceIte]
      exact hw

/-- What a `put` does on a well-formed world (any outcome). -/
theorem put_cases {w : World} {h1 h2 b0 : Bytes} {recs : List KV} (hw : WF w h1 h2 b0 recs)
    (i : Nat) (k v : Bytes) (ha : Allowed w (.put i k v)) :
    (∃ e, step w (.put i k v) = (w, .err e)) ∨
    ((step w (.put i k v)).2 = .ok ∧ k ∉ recs.map (·.key) ∧ KV.ok ⟨k, v⟩ ∧
      WF (step w (.put i k v)).1 h1 h2 b0 (recs ++ [⟨k, v⟩])) := by
  cases hg : getH w i with
  | none => left; exact ⟨.noHandle, by simp [step, hg]⟩
  | some h =>
    by_cases hwr : h.writable = true
    · by_cases hex : (tocFind h.toc k).isSome = true
      · left; exact ⟨.keyExists, by simp [step, hg, hw.file, hwr, hex]⟩
      · by_cases hok : KV.ok ⟨k, v⟩
        · right
          have hopen : h.closed = false := by
            simp only [Handle.writable, Bool.and_eq_true, Bool.not_eq_true'] at hwr; exact hwr.1
          have hmode : h.mode ≠ .r := by
            simp only [Handle.writable, Bool.and_eq_true, bne_iff_ne] at hwr; exact hwr.2
          have hi := hw.handles i h hg
          obtain ⟨htoc, heof⟩ := hi.sync hopen
          have hs : Synced h h2 b0 recs := ⟨hopen, hmode, htoc, heof⟩
          have hfresh : k ∉ recs.map (·.key) := by
            intro hmem
            apply hex
            rw [tocFind_isSome_iff, htoc, tocOf_keys]; exact hmem
          obtain ⟨h', hstep, hs', e1, e2, e3, _⟩ := put_synced w i h h1 h2 b0 recs ⟨k, v⟩ hg hw.file hs hok hfresh
          refine ⟨by rw [hstep], hfresh, hok, ?_⟩
          rw [hstep]
          refine ⟨by simp, hw.hdr, ?_, ?_, ?_, ?_⟩
          · intro r hr
            rcases List.mem_append.mp hr with hr | hr
            · exact hw.ok r hr
            · simp only [List.mem_singleton] at hr; subst hr; exact hok
          · rw [List.map_append, List.nodup_append]
            refine ⟨hw.nodup, by simp, ?_⟩
            intro a ha' b hb
            simp only [List.map_cons, List.map_nil, List.mem_singleton] at hb
            subst hb; intro he; subst he; exact hfresh ha'
          · intro j hj hgj
            by_cases hij : j = i
            · subst hij
              rw [getH_setH_same] at hgj; cases hgj
              refine ⟨by rw [e2]; exact hi.hdr2, by rw [e3]; exact hi.hdr0,
                ⟨(recs ++ [(⟨k, v⟩ : KV)]).length, ?_, ?_⟩, fun _ => ⟨hs'.toc, hs'.eof⟩⟩
              · rw [List.take_of_length_le (Nat.le_refl _)]; exact hs'.toc
              · rw [List.take_of_length_le (Nat.le_refl _)]; exact hs'.eof
            · rw [getH_setH_other _ _ _ _ hij] at hgj
              simp only [getH_file_update] at hgj
              exact hinv_extend hj h2 b0 recs ⟨k, v⟩ (hw.handles j hj hgj) (ha j hj hij hgj)
          · intro j hj hgj hc
            by_cases hij : j = i
            · subst hij
              rw [getH_setH_same] at hgj; cases hgj
              rw [hs'.open_] at hc; cases hc
            · rw [getH_setH_other _ _ _ _ hij] at hgj
              simp only [getH_file_update] at hgj
              exact hw.cmode j hj hgj hc
        · left; exact ⟨.tooLong, by simp [step, hg, hw.file, hwr, hex, hok]⟩
    · left; exact ⟨.notWritable, by simp [step, hg, hw.file, hwr]⟩

/-- **Invariant step**: every allowed operation preserves the world invariant. -/
theorem inv_step (w : World) (op : Op) (hi : WInv w) (ha : Allowed w op) : WInv (step w op).1 := by
  cases hi with
  | empty hf hn =>
    cases op with
    | new i m x1 x2 x3 => exact inv_new_empty hf hn i m x1 x2 x3 ha
    | reopen i m => simp only [step, hn i]; exact .empty hf hn
    | close i => simp only [step, hn i]; exact .empty hf hn
    | put i k v => simp only [step, hn i]; exact .empty hf hn
    | get i k => rw [step_get_world]; exact .empty hf hn
    | keys i => rw [step_keys_world]; exact .empty hf hn
  | wf h1 h2 b0 recs hw =>
    cases op with
    | new i m x1 x2 x3 => exact inv_new_wf hw i m x1 x2 x3 ha
    | reopen i m => exact .wf h1 h2 b0 recs (inv_reopen_wf hw i m ha)
    | close i => exact .wf h1 h2 b0 recs (wf_close hw i)
    | put i k v =>
      rcases put_cases hw i k v ha with ⟨e, he⟩ | ⟨_, _, _, hw'⟩
      · rw [he]; exact .wf h1 h2 b0 recs hw
      · exact .wf h1 h2 b0 _ hw'
    | get i k => rw [step_get_world]; exact .wf h1 h2 b0 recs hw
    | keys i => rw [step_keys_world]; exact .wf h1 h2 b0 recs hw

/-- A history in which every operation is within the scope of the claim. -/
def AllowedRun : World → List Op → Prop
  | _, [] => True
  | w, op :: ops => Allowed w op ∧ AllowedRun (step w op).1 ops

theorem runW_cons (w : World) (op : Op) (ops : List Op) : runW w (op :: ops) = runW (step w op).1 ops := rfl

/-- **The invariant holds in every reachable world**: after any allowed history, of any length, from
the empty world (no file, no handles). -/
theorem inv_history (ops : List Op) : ∀ w, WInv w → AllowedRun w ops → WInv (runW w ops) := by
  induction ops with
  | nil => intro w hi _; exact hi
  | cons op ops ih =>
    intro w hi ha
    rw [runW_cons]
    exact ih _ (inv_step w op hi ha.1) ha.2

theorem inv_init : WInv initWorld := .empty rfl (fun _ => rfl)

/-! ### refinement to the insert-only map -/

/-- What the world means: the key/value pairs stored in the file. -/
def absW (w : World) : List KV :=
  match w.file with
  | some f => absFile f
  | none => []

theorem absW_wf {w : World} {h1 h2 b0 : Bytes} {recs : List KV} (hw : WF w h1 h2 b0 recs) : absW w = recs := by
  simp only [absW, hw.file]; exact absFile_wf h1 h2 b0 hw.hdr recs hw.ok

/-- "get(k) returns exactly the bytes of the one successful put(k)": through any open handle. -/
theorem get_returns_put_value {w : World} {h1 h2 b0 : Bytes} {recs : List KV} (hw : WF w h1 h2 b0 recs)
    (i : Nat) (h : Handle) (hg : getH w i = some h) (ho : h.closed = false) (r : KV) (hr : r ∈ recs) :
    step w (.get i r.key) = (w, .val r.val) := by
  obtain ⟨htoc, _⟩ := (hw.handles i h hg).sync ho
  obtain ⟨rec, hf, hv, hval⟩ := tocFind_tocOf (encHeader h1 h2 b0) recs [] hw.nodup r hr
  rw [encHeader_length] at hf
  simp only [step, hg, hw.file, ho, htoc, hf]
  simp only [List.append_nil] at hval
  simp [wfFile, hval]

theorem get_missing_key {w : World} {h1 h2 b0 : Bytes} {recs : List KV} (hw : WF w h1 h2 b0 recs)
    (i : Nat) (h : Handle) (hg : getH w i = some h) (ho : h.closed = false) (k : Bytes)
    (hk : k ∉ recs.map (·.key)) : step w (.get i k) = (w, .err .noKey) := by
  obtain ⟨htoc, _⟩ := (hw.handles i h hg).sync ho
  have : tocFind h.toc k = none := by
    rw [htoc]; apply tocFind_none_of_not_mem; rw [tocOf_keys]; exact hk
  simp [step, hg, hw.file, ho, this]

/-- "the key listing is exactly the set of successfully put keys": through any open handle. -/
theorem keys_lists_exactly {w : World} {h1 h2 b0 : Bytes} {recs : List KV} (hw : WF w h1 h2 b0 recs)
    (i : Nat) (h : Handle) (hg : getH w i = some h) (ho : h.closed = false) :
    step w (.keys i) = (w, .keys (recs.map (·.key))) := by
  obtain ⟨htoc, _⟩ := (hw.handles i h hg).sync ho
  simp [step, hg, htoc, tocOf_keys]

/-- A put succeeds exactly when the handle is writable, the key is new and key/value fit the block
header; then the map gains exactly that pair, and nothing else changes. -/
theorem put_refines {w : World} {h1 h2 b0 : Bytes} {recs : List KV} (hw : WF w h1 h2 b0 recs)
    (i : Nat) (k v : Bytes) (ha : Allowed w (.put i k v)) :
    ((step w (.put i k v)).2 = .ok → absW (step w (.put i k v)).1 = absW w ++ [⟨k, v⟩] ∧ k ∉ (absW w).map (·.key)) ∧
    (∀ e, (step w (.put i k v)).2 = .err e → (step w (.put i k v)).1 = w) := by
  rw [absW_wf hw]
  rcases put_cases hw i k v ha with ⟨e, he⟩ | ⟨hok, hfresh, _, hw'⟩
  · rw [he]; exact ⟨fun h => by simp at h, fun _ _ => rfl⟩
  · exact ⟨fun _ => ⟨absW_wf hw', hfresh⟩, fun e he => by rw [hok] at he; cases he⟩

/-- **A failed operation changes nothing**: the file bytes and every handle's cached view (table of
contents, end-of-file mark) are what they were.  (A constructor that raises leaves no object; a failed
`open(mode)` has only assigned the mode.)  Holds for every world, not only well-formed ones. -/
theorem put_ok_or_same (w : World) (i : Nat) (k v : Bytes) :
    (step w (.put i k v)).1 = w ∨ (step w (.put i k v)).2 = .ok := by
  simp only [step]
  repeat' split
  all_goals first | (left; rfl) | (right; rfl)

theorem close_ok_or_same (w : World) (i : Nat) :
    (step w (.close i)).1 = w ∨ (step w (.close i)).2 = .ok := by
  simp only [step]
  repeat' split
  all_goals first | (left; rfl) | (right; rfl)

theorem reopen_cases (w : World) (i : Nat) (m : Option Mode) :
    (step w (.reopen i m)).1 = w ∨ (step w (.reopen i m)).2 = .ok ∨
    ∃ h h₀, getH w i = some h ∧ h₀.toc = h.toc ∧ h₀.eof = h.eof ∧ (step w (.reopen i m)).1 = setH w i (some h₀) := by
  simp only [step]
  cases hg : getH w i with
  | none => left; rfl
  | some h =>
    simp only []
    split
    · left; rfl
    · split
      · right; right
        refine ⟨h, _, rfl, ?_, ?_, rfl⟩ <;> (cases m <;> rfl)
      · right; left; rfl

theorem failed_op_frame (w : World) (op : Op) (e : Err) (he : (step w op).2 = .err e) :
    (step w op).1.file = w.file ∧
    ∀ j h', getH (step w op).1 j = some h' → ∃ h, getH w j = some h ∧ h'.toc = h.toc ∧ h'.eof = h.eof := by
  have same : ∀ w' : World, w' = w → w'.file = w.file ∧
      ∀ j h', getH w' j = some h' → ∃ h, getH w j = some h ∧ h'.toc = h.toc ∧ h'.eof = h.eof := by
    intro w' hw'; subst hw'; exact ⟨rfl, fun j h' hg => ⟨h', hg, rfl, rfl⟩⟩
  cases op with
  | get i k => exact same _ (step_get_world w i k)
  | keys i => exact same _ (step_keys_world w i)
  | close i =>
    rcases close_ok_or_same w i with h | h
    · exact same _ h
    · rw [h] at he; cases he
  | put i k v =>
    rcases put_ok_or_same w i k v with h | h
    · exact same _ h
    · rw [h] at he; cases he
  | new i m x1 x2 x3 =>
    simp only [step] at he ⊢
    cases ho : openHandle (newHandle m x1 x2 x3) w.file with
    | ok p => obtain ⟨a, b⟩ := p; simp [ho] at he
    | error e' =>
      simp only []
      refine ⟨rfl, fun j h' hg => ?_⟩
      by_cases hij : j = i
      · subst hij; rw [getH_setH_same] at hg; cases hg
      · rw [getH_setH_other _ _ _ _ hij] at hg; exact ⟨h', hg, rfl, rfl⟩
  | reopen i m =>
    rcases reopen_cases w i m with h | h | ⟨h, h₀, hg, e1, e2, hw'⟩
    · exact same _ h
    · rw [h] at he; cases he
    · rw [hw']
      refine ⟨rfl, fun j h' hgj => ?_⟩
      by_cases hij : j = i
      · subst hij; rw [getH_setH_same] at hgj; cases hgj; exact ⟨h, hg, e1, e2⟩
      · rw [getH_setH_other _ _ _ _ hij] at hgj; exact ⟨h', hgj, rfl, rfl⟩

/-- "file headers (h1, comment, descriptor block) are preserved": every allowed operation other than
the truncating re-creation `UKVFile(path, "w")` leaves a well-formed file with the *same* header
triple, holding the same records or exactly one more. -/
theorem header_preserved {w : World} {h1 h2 b0 : Bytes} {recs : List KV} (hw : WF w h1 h2 b0 recs)
    (op : Op) (ha : Allowed w op) (hnc : ∀ i x1 x2 x3, op ≠ .new i .w x1 x2 x3) :
    ∃ recs', WF (step w op).1 h1 h2 b0 recs' ∧ (recs' = recs ∨ ∃ kv, recs' = recs ++ [kv]) := by
  cases op with
  | new i m x1 x2 x3 =>
    have hm : m ≠ .w := fun he => hnc i x1 x2 x3 (by rw [he])
    exact ⟨recs, wf_new_rax hw i m hm x1 x2 x3, Or.inl rfl⟩
  | reopen i m => exact ⟨recs, inv_reopen_wf hw i m ha, Or.inl rfl⟩
  | close i => exact ⟨recs, wf_close hw i, Or.inl rfl⟩
  | put i k v =>
    rcases put_cases hw i k v ha with ⟨e, he⟩ | ⟨_, _, _, hw'⟩
    · rw [he]; exact ⟨recs, hw, Or.inl rfl⟩
    · exact ⟨_, hw', Or.inr ⟨_, rfl⟩⟩
  | get i k => rw [step_get_world]; exact ⟨recs, hw, Or.inl rfl⟩
  | keys i => rw [step_keys_world]; exact ⟨recs, hw, Or.inl rfl⟩

/-- Soundness of the `(eof, last)` shortcut of `map_blocks` on insert-only files: if a handle's cached
end-of-file mark equals the file size, its cached table of contents is already complete — so skipping
the rescan loses nothing.  (This is the lemma a relaxed comparison in the shortcut falsifies.) -/
theorem shortcut_sound (h : Handle) (h1 h2 b0 : Bytes) (recs : List KV) (hi : HInv h h2 b0 recs)
    (hs : h.eof = some (wfFile h1 h2 b0 recs).length) : h.toc = tocOf (bofOf h2 b0) recs := by
  obtain ⟨j, htoc, heof⟩ := hi.pre
  rw [heof, wfFile_length] at hs
  have hj : (blocks (recs.take j)).length = (blocks recs).length := by
    have := Option.some.inj hs; omega
  rw [htoc, take_eq_of_blocks_length recs j hj]

/-! ### non-vacuity: a concrete multi-handle history within the scope, and what it yields -/

def exOps : List Op :=
  [ .new 0 .w [] [99] [], .put 0 [97] [49], .close 0,          -- create, put a=1, close
    .new 1 .a [] [] [], .put 1 [98] [], .close 1,               -- second handle appends b=""
    .reopen 0 none, .keys 0, .get 0 [98], .put 0 [97] [50] ]    -- stale handle 0 reopens (mode a): sees both; duplicate put fails

/-- the hypotheses are satisfiable: creating a file and putting into it is within the scope, and the
invariant then holds with exactly the record that was put -/
example : Allowed initWorld (.new 0 .w [] [99] []) ∧
    Allowed (step initWorld (.new 0 .w [] [99] [])).1 (.put 0 [97] [49]) := by
  refine ⟨⟨fun _ => by simp [HdrOk], fun _ => Or.inl rfl⟩, ?_⟩
  intro j h hj hg
  have : (step initWorld (.new 0 .w [] [99] [])).1 =
      setH { initWorld with file := some (encHeader (newHandle .w [] [99] []).h1 [99] []) } 0
        (some { newHandle .w [] [99] [] with closed := false, eof := some (bofOf [99] []) }) := rfl
  rw [this, getH_setH_other _ _ _ _ hj] at hg
  cases hg

example : runOuts initWorld exOps =
    [.ok, .ok, .ok, .ok, .ok, .ok, .ok, .keys [[97], [98]], .val [], .err .keyExists] := by decide +kernel

example : absW (runW initWorld exOps) = [⟨[97], [49]⟩, ⟨[98], []⟩] := by decide +kernel

end Molli.Props.C02
