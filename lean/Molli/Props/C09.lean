/-
C09 — Every public load/dump entry point agrees with the class-level codec.

  "ml.load / loads / load_all / loads_all and ml.dump / dumps, for each supported format, each source or
   target kind (path, open stream, string) and each output type (molecule, ensemble, list), return or write
   exactly what the corresponding Molecule / ConformerEnsemble class methods do: the same objects, lists where
   lists are promised, text written to the stream given, honoured name overrides, and ValueError for
   unsupported formats."

Reading.  The quantifier "for the full matrix {load, loads, load_all, loads_all, dump, dumps} × {xyz, mol2,
cdxml, unsupported} × {path, stream, str} × {molecule, ensemble, Structure class} × {name given, not given}" is a
finite table: `Molli.Model.Dispatch.Config` (432 configurations).  A path source / target can name its format a
second time, by its suffix, so the matrix carries a sixth dimension, the FORM of the path argument (explicit format
with a matching / no / other supported / unsupported suffix, or format deduced from the suffix of the path as given,
also when that path is a symbolic link to a file named otherwise):
`Molli.Model.Dispatch.Cell` (2592 cells, `allCells`, `mem_allCells`).
`Molli.Gen.Dispatch.observed` is what the code DOES in each cell (regenerated from the live repository on every
run by spying on the class methods); `Molli.Model.Dispatch.spec` is what the property DEMANDS (written from the
statement above).  `dispatch_agrees` is the whole property at the level of dispatch; the corollaries spell out
its clauses about the observed behaviour.  Agreement of the *content* (same objects, same text) per cell is the
correspondence run of harness/c09.py.
-/
import Molli.Lemmas.Dispatch
import Molli.Gen.Dispatch
namespace Molli.Props.C09
open Molli.Model.Dispatch Molli.Lemmas.Dispatch Molli.Gen.Dispatch

/-- "…return or write exactly what the corresponding … class methods do" — in EVERY cell of the matrix the
observed action of the entry point is the specified one (exhaustive finite quantifier, lifted from the table
check `table_agrees`, one pass over the table) by `lookup_of_zip_all` (row `c.idx` of the enumeration is the cell `c`). -/
theorem dispatch_agrees : ∀ c : Cell, observed c = spec classRaises c := by
  intro c
  exact lookup_of_zip_all table_complete table_agrees c

/-- the matrix has 2592 cells and every cell has its own row of the observed table -/
theorem matrix_complete : allCells.length = 2592 ∧ table.length = 2592 ∧ ∀ c : Cell, c.idx < table.length := by
  refine ⟨allCells_length, table_complete, fun c => ?_⟩
  rw [table_complete]; exact idx_lt c

/-- a cell is called exactly when it lies in the domain of its entry point; the others are recorded as such -/
theorem applicable_cells : ∀ c : Cell, (observed c).applicable = applicable c := by
  intro c; rw [dispatch_agrees]; exact spec_applicable _ c

/-- "for each supported format, each source or target kind (path, …)": for a path source or target the action does
not depend on the FORM of the path — an explicitly given format wins over whatever suffix the path carries (none,
that of another supported format, an unsupported one), and an omitted format is the one the suffix names. -/
theorem path_form_irrelevant (c : Cell) (hk : c.kind = .path) (p : PathForm) :
    observed ⟨c.toConfig, p⟩ = observed c := by
  rw [dispatch_agrees, dispatch_agrees]; exact spec_form_irrelevant _ c hk p

example : (observed ⟨⟨.dump, .xyz, .path, .molecule, .notGiven⟩, .explicitOtherSuffix⟩).reached = .meth .molecule .dump .xyz ∧
    (observed ⟨⟨.load, .unsupported, .path, .molecule, .notGiven⟩, .explicitOtherSuffix⟩).result = .raised .valueError := by
  decide +kernel

/-- "lists where lists are promised": `load_all` / `loads_all` never return a bare object — whatever they return
is a list of the requested class; and for the xyz / mol2 codecs they do return that list whenever the class-level
codec works. -/
theorem lists_where_promised (c : Cell) (hl : c.entry = .loadAll ∨ c.entry = .loadsAll) :
    (∀ k, (observed c).result = .returned k → k = .list c.otype.cls) ∧
    (applicable c = true → c.otype ≠ .ensemble → (c.fmt = .xyz ∨ c.fmt = .mol2) →
      classRaises c.otype c.entry c.fmt = false → (observed c).result = .returned (.list c.otype.cls)) := by
  have hl' : c.entry.listPromised = true := by rcases hl with h | h <;> simp [h, Entry.listPromised]
  rw [dispatch_agrees]
  exact ⟨fun k hr => spec_list _ c hl' k hr, fun ha ho hf hc => spec_list_returned _ c ha hl' ho hf hc⟩

example : (observed ⟨⟨.loadsAll, .xyz, .str, .molecule, .notGiven⟩, .explicitMatching⟩).result = .returned (.list .molecule) := by
  decide +kernel

/-- "ValueError for unsupported formats": in every applicable cell with an unsupported format the entry point
raises ValueError itself, before any codec is reached and without writing anything; caller-owned streams stay open. -/
theorem unsupported_is_valueerror (c : Cell) (ha : applicable c = true) (hf : c.fmt = .unsupported) :
    (observed c).result = .raised .valueError ∧ (observed c).reached = .none ∧
    (observed c).wrote = .nothing ∧ (observed c).streamOk = true := by
  rw [dispatch_agrees, spec_unsupported _ c ha hf]; simp [refuse]

example : applicable ⟨⟨.dump, .unsupported, .stream, .ensemble, .notGiven⟩, .explicitMatching⟩ = true := by decide

/-- "honoured name overrides": whenever a name is given and the entry point returns, the name was forwarded to
the class-level codec AND every returned object carries it; without a name none is invented. -/
theorem name_honoured (c : Cell) :
    (c.name = .given → ∀ k, (observed c).result = .returned k → (observed c).nameFwd = true ∧ (observed c).named = true) ∧
    (c.name = .notGiven → (observed c).nameFwd = false ∧ (observed c).named = false) := by
  rw [dispatch_agrees]
  exact ⟨fun hn k hr => spec_name _ c hn k hr, fun hn => spec_no_name _ c hn⟩

example : ∃ k, (observed ⟨⟨.loads, .mol2, .str, .ensemble, .given⟩, .explicitMatching⟩).result = .returned k :=
  ⟨.obj .ensemble, by decide +kernel⟩

/-- "text written to the stream given": `dump` into an open stream returns `None` with the text in the caller's
stream, and in EVERY cell (also when an exception is raised) the caller's stream is left open and every file the
entry point opened itself is closed. -/
theorem stream_untouched (c : Cell) :
    (observed c).streamOk = true ∧
    (c.entry = .dump → c.kind = .stream → ∀ k, (observed c).result = .returned k →
      k = .none ∧ (observed c).wrote = .callerStream) := by
  rw [dispatch_agrees]
  exact ⟨spec_streamOk _ c, fun he hk k hr => spec_dump_stream _ c he hk k hr⟩

example : (observed ⟨⟨.dump, .mol2, .stream, .molecule, .notGiven⟩, .explicitMatching⟩).result = .returned .none := by decide +kernel

/-- "the corresponding Molecule / ConformerEnsemble class methods": for the molli codecs the class method of the
requested class, the same operation and the same format is the one reached, with the caller's source / target. -/
theorem reaches_class_codec (c : Cell) (ha : applicable c = true) (hf : c.fmt = .xyz ∨ c.fmt = .mol2)
    (hle : ¬ (c.entry.listPromised = true ∧ c.otype = .ensemble)) :
    (observed c).reached = .meth c.otype.cls c.entry.mop c.fmt ∧ (observed c).argOk = true := by
  rw [dispatch_agrees]; exact spec_reaches _ c ha hf hle

/-- the entry point returns what the class method returns: a failure of the class-level codec itself (a matter of
the codec's own properties) comes through unchanged instead of being masked or replaced. -/
theorem class_failure_propagates (c : Cell) (ha : applicable c = true) (hf : c.fmt = .xyz ∨ c.fmt = .mol2)
    (hle : ¬ (c.entry.listPromised = true ∧ c.otype = .ensemble))
    (hc : classRaises c.otype c.entry c.fmt = true) : (observed c).result = .propagated := by
  rw [dispatch_agrees]; exact spec_propagates _ c ha hf hle hc

/-- the entry points raise nothing of their own but ValueError (and NotImplementedError for CDXML text, for
which no class-level codec exists): no UnboundLocalError, TypeError, KeyError … in any cell. -/
theorem raises_only_documented (c : Cell) (e : Exc) (hr : (observed c).result = .raised e) :
    e = .valueError ∨ (e = .notImplemented ∧ c.fmt = .cdxml ∧ (c.entry = .loads ∨ c.entry = .loadsAll)) := by
  rw [dispatch_agrees] at hr; exact spec_raises_only _ c e hr

end Molli.Props.C09
