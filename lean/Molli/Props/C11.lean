/-
C11 — Geometric operations are rigid motions with the documented effect.

  "translate, rotate/transform with a rotation matrix, rotate_dihedral, centering and alignment to
   reference coordinates leave every interatomic distance and every stereocentre's handedness
   within the moved part unchanged; a substructure edit moves exactly the selected atoms.
   rotation_matrix_from_vectors(v1, v2) is a proper rotation taking the direction of v1 to that of
   v2 (also for nearly opposite vectors), rotation_matrix_from_axis is a proper rotation about that
   axis by that angle, rotate_dihedral leaves the requested dihedral at the target value, and
   alignment returns the RMSD it actually achieved and is independent of the input's initial pose."

Reading.  Model: `Molli.Model.Geom` (row-vector convention of the code, `coords @ R`).  All theorems
hold over ANY field (ℚ, ℝ, …), for all vectors / matrices / coordinate lists of any length.
  * "interatomic distance"  = `dist2` (squared distance; equal squares ⇔ equal distances);
  * "handedness of a stereocentre" = sign of `triple p q r o` (signed volume of the centre's
    substituents); the theorems show the signed volume itself is unchanged;
  * "proper rotation" = `M3.IsRot` : `R Rᵀ = I ∧ det R = 1`;
  * square roots and arctan2 are runtime notions and never enter: normalised vectors / norms are
    inputs constrained by their defining equation (`a·a = 1`, `l*l = v·v`), an angle is the pair
    (sin, cos) with `s² + c² = 1`, `arctan2(A, B) = τ` is stated as `(A, B) = (ρ sin τ, ρ cos τ)`.
  * `.repaired` / `.asShipped` : the code after / before the `fix:` commits for D23 (`rotate_dihedral`
    sign) and D25 (random helper vector in the antiparallel branch).
Partial (named in design_notes/C11.md): float rounding (A-fp); pose-independence of alignment depends
on the external Kabsch `func` and is sampled by the harness, not proved.
-/
import Mathlib.Algebra.Field.Rat
import Molli.Lemmas.GeomOrdered
import Molli.Lemmas.GeomView
namespace Molli.Props.C11
open Molli.Model.Geom Molli.Lemmas.Geom Molli.Lemmas.GeomView

set_option linter.unusedVariables false
set_option linter.unusedSectionVars false
set_option linter.unusedSimpArgs false

variable {α : Type} [Field α]

/-! ## rotation_matrix_from_vectors -/

/-- "rotation_matrix_from_vectors(v1, v2) is a proper rotation": `R Rᵀ = I` (general branch,
`v1n = a`, `v2n = b`, `c = a·b ≠ −1`). -/
theorem rotVec_orth (a b : V3 α) (ha : a.dot a = 1) (hb : b.dot b = 1) (hc : 1 + a.dot b ≠ 0) :
    (rotVec a b).IsOrth := (rotVec_isRot a b ha hb hc).1

/-- "… a proper rotation": `det R = +1`. -/
theorem rotVec_det (a b : V3 α) (ha : a.dot a = 1) (hb : b.dot b = 1) (hc : 1 + a.dot b ≠ 0) :
    (rotVec a b).det = 1 := (rotVec_isRot a b ha hb hc).2

/-- "… taking the direction of v1 to that of v2": `v1n @ R = v2n` (the docstring's equation). -/
theorem rotVec_maps (a b : V3 α) (ha : a.dot a = 1) (hb : b.dot b = 1) (hc : 1 + a.dot b ≠ 0) :
    a.mulM (rotVec a b) = b := Molli.Lemmas.Geom.rotVec_maps a b ha hb hc

/-- The same for un-normalised inputs `v1`, `v2` with norms `l1`, `l2`: `v1 @ R` is `v2` rescaled by
the positive factor `l1/l2` — the direction of `v1` is taken to the direction of `v2`. -/
theorem rotVec_maps_direction (v1 v2 : V3 α) (l1 l2 : α) (h1 : l1 * l1 = v1.dot v1)
    (h2 : l2 * l2 = v2.dot v2) (hl1 : l1 ≠ 0) (hl2 : l2 ≠ 0)
    (hc : 1 + (v1.smul (1 / l1)).dot (v2.smul (1 / l2)) ≠ 0) :
    v1.mulM (rotVec (v1.smul (1 / l1)) (v2.smul (1 / l2))) = v2.smul (l1 / l2) := by
  have ha : (v1.smul (1 / l1)).dot (v1.smul (1 / l1)) = 1 := by
    rw [dot_smul_smul, ← h1]; field_simp
  have hb : (v2.smul (1 / l2)).dot (v2.smul (1 / l2)) = 1 := by
    rw [dot_smul_smul, ← h2]; field_simp
  have hm := Molli.Lemmas.Geom.rotVec_maps _ _ ha hb hc
  have hv : v1 = (v1.smul (1 / l1)).smul l1 := by
    apply V3.eq_of <;> simp only [V3.smul] <;> field_simp
  have hv' : v1.mulM (rotVec (v1.smul (1 / l1)) (v2.smul (1 / l2))) =
      ((v1.smul (1 / l1)).smul l1).mulM (rotVec (v1.smul (1 / l1)) (v2.smul (1 / l2))) := by
    rw [← hv]
  rw [hv', mulM_smul, hm]
  apply V3.eq_of <;> simp only [V3.smul] <;> field_simp

/-- "(also for nearly opposite vectors)": the antiparallel branch — two general-branch rotations
through a helper direction — is a proper rotation taking `a` to `b`, for BOTH variants, i.e. for
the deterministic helper of the repaired code and for every random vector `rv` the shipped code may
draw (`n` = norm of the Gram–Schmidt residue, non-zero). -/
theorem rotVec_antiparallel [LE α] [DecidableLE α] (v : Variant) (a b rv : V3 α) (tol n : α)
    (ha : a.dot a = 1) (hb : b.dot b = 1) (hbranch : a.dot b ≤ -1 + tol)
    (hn0 : n ≠ 0)
    (hn : match v with
      | .repaired => n * n = (gramSchmidt (basis (argminAbs b)) b).dot (gramSchmidt (basis (argminAbs b)) b)
      | .asShipped => n * n = (gramSchmidt rv b).dot (gramSchmidt rv b))
    (hao : match v with
      | .repaired => 1 + a.dot (orthoTo b n) ≠ 0
      | .asShipped => 1 + a.dot ((gramSchmidt rv b).smul (1 / n)) ≠ 0) :
    (rotVecFull v a b tol n rv).IsRot ∧ a.mulM (rotVecFull v a b tol n rv) = b := by
  unfold rotVecFull
  rw [if_pos hbranch]
  cases v with
  | repaired =>
    obtain ⟨ho, hob⟩ := helper_unit_perp (basis (argminAbs b)) b n hb hn hn0
    exact rotVecVia_spec a _ b ha ho hb hob hao
  | asShipped =>
    obtain ⟨ho, hob⟩ := helper_unit_perp rv b n hb hn hn0
    exact rotVecVia_spec a _ b ha ho hb hob hao

/-- For exactly opposite vectors the side condition on the helper is automatic (`a·o = −b·o = 0`),
and the norm of the repaired helper is `n² = 1 − b_k²`. -/
theorem rotVec_antiparallel_exact [LE α] [DecidableLE α] (b : V3 α) (tol n : α) (rv : V3 α)
    (hb : b.dot b = 1) (hbranch : b.neg.dot b ≤ -1 + tol) (hn0 : n ≠ 0)
    (hn : n * n = 1 - b.get (argminAbs b) * b.get (argminAbs b)) :
    (rotVecFull .repaired b.neg b tol n rv).IsRot ∧
      b.neg.mulM (rotVecFull .repaired b.neg b tol n rv) = b := by
  have ha : b.neg.dot b.neg = 1 := by
    obtain ⟨b1, b2, b3⟩ := b; simp only [V3.dot, V3.neg] at *; linear_combination hb
  have hn' := (gramSchmidt_basis_norm (argminAbs b) b hb).symm ▸ hn
  obtain ⟨ho, hob⟩ := helper_unit_perp (basis (argminAbs b)) b n hb hn' hn0
  apply rotVec_antiparallel .repaired b.neg b rv tol n ha hb hbranch hn0 hn'
  show 1 + b.neg.dot (orthoTo b n) ≠ 0
  have : b.neg.dot (orthoTo b n) = 0 := by
    have h0 : b.neg.dot (orthoTo b n) = -((orthoTo b n).dot b) := by
      simp only [V3.dot, V3.neg]; ring
    rw [h0]; unfold orthoTo; rw [hob, neg_zero]
  rw [this, _root_.add_zero]; exact one_ne_zero

/-- Both branches together: whatever branch `rotation_matrix_from_vectors` takes, the result is a
proper rotation taking the direction of `v1` to that of `v2`. -/
theorem rotVecFull_spec [LE α] [DecidableLE α] (a b rv : V3 α) (tol n : α)
    (ha : a.dot a = 1) (hb : b.dot b = 1)
    (hgen : ¬ a.dot b ≤ -1 + tol → 1 + a.dot b ≠ 0)
    (hn0 : n ≠ 0)
    (hn : n * n = (gramSchmidt (basis (argminAbs b)) b).dot (gramSchmidt (basis (argminAbs b)) b))
    (hao : 1 + a.dot (orthoTo b n) ≠ 0) :
    (rotVecFull .repaired a b tol n rv).IsRot ∧ a.mulM (rotVecFull .repaired a b tol n rv) = b := by
  by_cases hbr : a.dot b ≤ -1 + tol
  · exact rotVec_antiparallel .repaired a b rv tol n ha hb hbr hn0 hn hao
  · unfold rotVecFull
    rw [if_neg hbr]
    exact ⟨rotVec_isRot a b ha hb (hgen hbr), Molli.Lemmas.Geom.rotVec_maps a b ha hb (hgen hbr)⟩

/-- "the result does not depend on hidden state" (rotation part): the repaired constructor is a
function of its arguments — the random vector is ignored. -/
theorem rotVecFull_repaired_deterministic [LE α] [DecidableLE α] (a b rv rv' : V3 α) (tol n : α) :
    rotVecFull .repaired a b tol n rv = rotVecFull .repaired a b tol n rv' := rfl

/-- D25: the shipped antiparallel branch depends on the random vector: `a = −ẑ`, `b = ẑ`, helper
drawn as `x̂` or as `ŷ` give different rotation matrices (both proper, both taking `a` to `b`). -/
theorem rotVecFull_shipped_depends_on_rng :
    rotVecFull .asShipped (⟨0, 0, -1⟩ : V3 Int) ⟨0, 0, 1⟩ 0 1 ⟨1, 0, 0⟩ ≠
    rotVecFull .asShipped (⟨0, 0, -1⟩ : V3 Int) ⟨0, 0, 1⟩ 0 1 ⟨0, 1, 0⟩ := by decide

/-! ### full strength over an ordered field (ℚ, ℝ): no side condition is left -/

section Ordered
variable {β : Type} [Field β] [LinearOrder β] [IsStrictOrderedRing β]

/-- "(also for nearly opposite vectors)", both variants, ordered field: in the antiparallel branch
(`a·b ≤ −1 + tol`, `tol < 1`) the helper can never be opposite to `a` (Bessel's inequality), so the
result IS a proper rotation taking `a` to `b` for every helper of non-zero norm — no further
hypothesis. -/
theorem rotVec_antiparallel_ordered (v : Variant) (a b rv : V3 β) (tol n : β)
    (ha : a.dot a = 1) (hb : b.dot b = 1) (hbranch : a.dot b ≤ -1 + tol) (ht1 : tol < 1)
    (hn0 : n ≠ 0)
    (hn : match v with
      | .repaired => n * n = (gramSchmidt (basis (argminAbs b)) b).dot (gramSchmidt (basis (argminAbs b)) b)
      | .asShipped => n * n = (gramSchmidt rv b).dot (gramSchmidt rv b)) :
    (rotVecFull v a b tol n rv).IsRot ∧ a.mulM (rotVecFull v a b tol n rv) = b := by
  have hc : a.dot b ≠ 0 := by
    have : a.dot b < 0 := by linarith
    exact ne_of_lt this
  apply rotVec_antiparallel v a b rv tol n ha hb hbranch hn0 hn
  cases v with
  | repaired =>
    obtain ⟨ho, hob⟩ := helper_unit_perp (basis (argminAbs b)) b n hb hn hn0
    exact helper_side_condition a _ b ha ho hb hob hc
  | asShipped =>
    obtain ⟨ho, hob⟩ := helper_unit_perp rv b n hb hn hn0
    exact helper_side_condition a _ b ha ho hb hob hc

/-- **`rotation_matrix_from_vectors` (repaired), every input**: for unit `a`, `b`, any `0 ≤ tol < 1`,
with `n` the norm of the deterministic helper (`n² = 1 − b_k²`, `k = argmin |b|`): the result is a
proper rotation taking the direction of `v1` to that of `v2` — general position, nearly opposite,
exactly opposite. -/
theorem rotVecFull_spec_ordered (a b rv : V3 β) (tol n : β)
    (ha : a.dot a = 1) (hb : b.dot b = 1) (ht0 : 0 ≤ tol) (ht1 : tol < 1)
    (hn : n * n = 1 - b.get (argminAbs b) * b.get (argminAbs b)) :
    (rotVecFull .repaired a b tol n rv).IsRot ∧ a.mulM (rotVecFull .repaired a b tol n rv) = b := by
  have hpos := repaired_helper_norm_pos b hb
  have hn0 : n ≠ 0 := by
    intro h; rw [h, mul_zero] at hn; rw [← hn] at hpos; exact lt_irrefl _ hpos
  have hn' : n * n = (gramSchmidt (basis (argminAbs b)) b).dot (gramSchmidt (basis (argminAbs b)) b) := by
    rw [gramSchmidt_basis_norm (argminAbs b) b hb]; exact hn
  by_cases hbr : a.dot b ≤ -1 + tol
  · exact rotVec_antiparallel_ordered .repaired a b rv tol n ha hb hbr ht1 hn0 hn'
  · have hc : 1 + a.dot b ≠ 0 := by
      have : -1 + tol < a.dot b := lt_of_not_ge hbr
      have : 0 < 1 + a.dot b := by linarith
      exact ne_of_gt this
    unfold rotVecFull
    rw [if_neg hbr]
    exact ⟨rotVec_isRot a b ha hb hc, Molli.Lemmas.Geom.rotVec_maps a b ha hb hc⟩

end Ordered

/-! ## rotation_matrix_from_axis -/

/-- "rotation_matrix_from_axis is a proper rotation": `R Rᵀ = I` (`u` the normalised axis,
`s = sin angle`, `c = cos angle`). -/
theorem rotAxis_orth (u : V3 α) (s c : α) (hu : u.dot u = 1) (ht : s * s + c * c = 1) :
    (rotAxis u s c).IsOrth := rotAxis_isOrth u s c hu ht

/-- "… a proper rotation": `det R = +1`. -/
theorem rotAxis_det (u : V3 α) (s c : α) (hu : u.dot u = 1) (ht : s * s + c * c = 1) :
    (rotAxis u s c).det = 1 := Molli.Lemmas.Geom.rotAxis_det u s c hu ht

/-- "… about that axis": the axis is fixed, as a column (`R u = u`) and as a row (`u R = u`). -/
theorem rotAxis_fixes_axis (u : V3 α) (s c : α) (hu : u.dot u = 1) :
    (rotAxis u s c).mulV u = u ∧ u.mulM (rotAxis u s c) = u :=
  ⟨rotAxis_fixes_col u s c hu, rotAxis_fixes_row u s c hu⟩

/-- "… by that angle": for every `v ⊥ u` the matrix turns `v` by exactly the angle, counter-clockwise
seen against the axis: `(R v)·v = cos·|v|²` and `u·(v × R v) = sin·|v|²`. -/
theorem rotAxis_angle (u v : V3 α) (s c : α) (hu : u.dot u = 1) (ht : s * s + c * c = 1)
    (hv : u.dot v = 0) :
    ((rotAxis u s c).mulV v).dot v = c * v.dot v ∧
    u.dot (v.cross ((rotAxis u s c).mulV v)) = s * v.dot v := by
  obtain ⟨ux, uy, uz⟩ := u
  obtain ⟨v1, v2, v3⟩ := v
  simp only [V3.dot] at hu hv
  exact ⟨Molli.Lemmas.GeomCert.rotAxis_angle_cos ux uy uz s c v1 v2 v3 hu ht hv,
    Molli.Lemmas.GeomCert.rotAxis_angle_sin ux uy uz s c v1 v2 v3 hu ht hv⟩

/-- The way molli applies it (`coords @ R`, row vectors) the same matrix turns by MINUS the angle —
the fact behind D23. -/
theorem rotAxis_row_angle (u v : V3 α) (s c : α) (hu : u.dot u = 1) (ht : s * s + c * c = 1)
    (hv : u.dot v = 0) :
    (v.mulM (rotAxis u s c)).dot v = c * v.dot v ∧
    u.dot (v.cross (v.mulM (rotAxis u s c))) = -(s * v.dot v) := by
  obtain ⟨ux, uy, uz⟩ := u
  obtain ⟨v1, v2, v3⟩ := v
  simp only [V3.dot] at hu hv
  exact ⟨Molli.Lemmas.GeomCert.rotAxis_row_angle_cos ux uy uz s c v1 v2 v3 hu ht hv,
    Molli.Lemmas.GeomCert.rotAxis_row_angle_sin ux uy uz s c v1 v2 v3 hu ht hv⟩

/-! ## rigid motions -/

/-- "leave every interatomic distance … unchanged": a rigid motion `p ↦ p @ R + t` (`R` a proper
rotation; `Rigid` in `Molli.Lemmas.Geom`) preserves every squared distance. -/
theorem rigid_dist {f : V3 α → V3 α} (h : Rigid f) (p q : V3 α) : dist2 (f p) (f q) = dist2 p q :=
  h.dist p q

/-- "… and every stereocentre's handedness": the signed volume spanned by a centre `p` and three
substituents is unchanged (never mirrored). -/
theorem rigid_chirality {f : V3 α → V3 α} (h : Rigid f) (p q r o : V3 α) :
    triple (f p) (f q) (f r) (f o) = triple p q r o := h.triple p q r o

/-- `translate(v)` -/
theorem rigid_translate (v : V3 α) : Rigid (fun p => p.add v) := Rigid.translate v

/-- `transform(R)` / `rotate(R)` with a rotation matrix -/
theorem rigid_transform (r : M3 α) (hr : r.IsRot) : Rigid (fun p => p.mulM r) := Rigid.transform r hr

/-- `translate(-o); transform(R); translate(o)` (the body of `rotate_dihedral`) -/
theorem rigid_rotateAbout (o : V3 α) (r : M3 α) (hr : r.IsRot) : Rigid (rotateAbout o r) :=
  Rigid.rotateAbout o r hr

/-- rigid motions compose (centre, then rotate, then shift: alignment) -/
theorem rigid_comp {f g : V3 α → V3 α} (hf : Rigid f) (hg : Rigid g) : Rigid (fun p => g (f p)) :=
  hf.comp hg

/-- Whole-geometry operations are the point map applied to every row. -/
theorem translate_eq_map (coords : List (V3 α)) (v : V3 α) :
    translate coords v = coords.map (fun p => p.add v) := rfl
theorem transform_eq_map (coords : List (V3 α)) (r : M3 α) :
    transform coords r = coords.map (fun p => p.mulM r) := rfl

/-- "a substructure edit moves exactly the selected atoms": rows outside the selection are
untouched, rows inside are the edited ones, the number of rows is unchanged. -/
theorem substructure_moves_only_selected (coords : List (V3 α)) (sel : List Nat)
    (f : V3 α → V3 α) :
    (updateSel coords sel f).length = coords.length ∧
    (∀ i, i ∉ sel → (updateSel coords sel f)[i]? = coords[i]?) ∧
    (∀ i, i ∈ sel → (updateSel coords sel f)[i]? = (coords[i]?).map f) := by
  refine ⟨updateSel_length coords sel f, fun i hi => ?_, fun i hi => ?_⟩
  · rw [updateSel_getElem?]; simp only [hi, if_false]; cases coords[i]? <;> rfl
  · rw [updateSel_getElem?]; simp only [hi, if_true]

/-! ### substructure handles made BEFORE the parent was edited

A `Substructure` keeps atom identities; `parent_atom_indices` resolves them against the parent's
atom list at every `coords` access (`viewRows`).  So the claim "a substructure edit moves exactly the
selected atoms" holds for a handle of any age. -/

/-- Row by row, against the parent's CURRENT atom list (`atoms`, pairwise distinct identities):
an edit through a handle changes row `i` iff the atom now sitting in row `i` belongs to the handle. -/
theorem substructure_view_moves_its_atoms (atoms handle : List Nat) (hnd : atoms.Nodup)
    (coords : List (V3 α)) (f : V3 α → V3 α) (i : Nat) :
    (viewEdit atoms coords handle f)[i]? =
      (coords[i]?).map (fun p => if selRow atoms handle i = true then f p else p) :=
  viewEdit_getElem? atoms handle hnd coords f i

/-- Edits of the parent made after the handle was created do not disturb it: deleting parent atom
`k` (with its row) and then editing through the old handle is the same as editing first and deleting
afterwards; likewise for an atom appended by `add_atom`. -/
theorem substructure_view_survives_parent_edits (atoms handle : List Nat) (coords : List (V3 α))
    (f : V3 α → V3 α) :
    (∀ k, atoms.Nodup → viewEdit (atoms.eraseIdx k) (coords.eraseIdx k) handle f =
      (viewEdit atoms coords handle f).eraseIdx k) ∧
    (∀ a p, (atoms ++ [a]).Nodup → coords.length = atoms.length → a ∉ handle →
      viewEdit (atoms ++ [a]) (coords ++ [p]) handle f = viewEdit atoms coords handle f ++ [p]) :=
  ⟨fun k hnd => viewEdit_eraseIdx atoms handle hnd coords f k,
   fun a p hnd hlen ha => viewEdit_append atoms handle hnd coords f p hlen ha⟩

/-- A handle that froze its ROW NUMBERS when it was created would move the wrong atom after the
parent lost a lower-indexed atom: atoms `[10,11,12,13]`, handle `{12}`, delete atom 10 — the frozen
row 2 now holds atom 13. -/
theorem substructure_cached_rows_counterexample :
    viewEditCached [10, 11, 12, 13] [(⟨1, 0, 0⟩ : V3 Int), ⟨2, 0, 0⟩, ⟨3, 0, 0⟩] [12] (fun p => p.add ⟨0, 0, 5⟩) ≠
    viewEdit [11, 12, 13] [(⟨1, 0, 0⟩ : V3 Int), ⟨2, 0, 0⟩, ⟨3, 0, 0⟩] [12] (fun p => p.add ⟨0, 0, 5⟩) := by
  decide

/-- "… within the moved part unchanged": after a rigid edit of the rows `sel`, any two (four) moved
atoms keep their distance (signed volume); so do any unmoved ones. -/
theorem moved_part_rigid (coords : List (V3 α)) (sel : List Nat) (f : V3 α → V3 α) (hf : Rigid f)
    (i j k m : Nat) (p q r o : V3 α)
    (hi : coords[i]? = some p) (hj : coords[j]? = some q) (hk : coords[k]? = some r)
    (hm : coords[m]? = some o)
    (hsel : (i ∈ sel ∧ j ∈ sel ∧ k ∈ sel ∧ m ∈ sel) ∨ (i ∉ sel ∧ j ∉ sel ∧ k ∉ sel ∧ m ∉ sel)) :
    ∃ p' q' r' o', (updateSel coords sel f)[i]? = some p' ∧ (updateSel coords sel f)[j]? = some q' ∧
      (updateSel coords sel f)[k]? = some r' ∧ (updateSel coords sel f)[m]? = some o' ∧
      dist2 p' q' = dist2 p q ∧ triple p' q' r' o' = triple p q r o := by
  obtain ⟨_, hout, hin⟩ := substructure_moves_only_selected coords sel f
  rcases hsel with ⟨si, sj, sk, sm⟩ | ⟨si, sj, sk, sm⟩
  · refine ⟨f p, f q, f r, f o, ?_, ?_, ?_, ?_, rigid_dist hf p q, rigid_chirality hf p q r o⟩
    · rw [hin i si, hi]; rfl
    · rw [hin j sj, hj]; rfl
    · rw [hin k sk, hk]; rfl
    · rw [hin m sm, hm]; rfl
  · exact ⟨p, q, r, o, by rw [hout i si, hi], by rw [hout j sj, hj], by rw [hout k sk, hk],
      by rw [hout m sm, hm], rfl, rfl⟩

/-! ## rotate_dihedral -/

/-- Rotating the far side of the bond `p2 → p3` (`p3 = p2 + l·u`, `u` the unit axis) with
`rotation_matrix_from_axis(u, angle)` applied to row vectors turns the dihedral
`arctan2(A, B)` by MINUS the angle: `(A', B') = (A cos − B sin, B cos + A sin)`; the near side
`p1, p2` and the axis atom `p3` stay where they are. -/
theorem dihedral_after_rotation (p1 p2 p4 u : V3 α) (l s c : α)
    (hu : u.dot u = 1) (ht : s * s + c * c = 1) :
    let p3 := p2.add (u.smul l)
    let f := rotateAbout p2 (rotAxis u s c)
    f p3 = p3 ∧
    dihedralPair p1 p2 (f p3) (f p4) l =
      ((dihedralPair p1 p2 p3 p4 l).1 * c - (dihedralPair p1 p2 p3 p4 l).2 * s,
       (dihedralPair p1 p2 p3 p4 l).2 * c + (dihedralPair p1 p2 p3 p4 l).1 * s) :=
  ⟨rotateAbout_axis_point p2 u l s c hu, Molli.Lemmas.Geom.dihedral_after_rotation p1 p2 p4 u l s c hu ht⟩

/-- The full statement for a variant of the code: if the current dihedral is `φ`
(`(A, B) = (ρ sin φ, ρ cos φ)`) then after `rotate_dihedral(…, τ)` it is `τ`
(`(A', B') = (ρ sin τ, ρ cos τ)`, same `ρ`). -/
def rotate_dihedral_hits_target_statement (v : Variant) (α : Type) [Field α] : Prop :=
  ∀ (p1 p2 p4 u : V3 α) (l ρ sφ cφ sτ cτ : α), u.dot u = 1 →
    sφ * sφ + cφ * cφ = 1 → sτ * sτ + cτ * cτ = 1 →
    dihedralPair p1 p2 (p2.add (u.smul l)) p4 l = (ρ * sφ, ρ * cφ) →
    let sc := dihedralRotation v sφ cφ sτ cτ
    let f := rotateAbout p2 (rotAxis u sc.1 sc.2)
    dihedralPair p1 p2 (f (p2.add (u.smul l))) (f p4) l = (ρ * sτ, ρ * cτ)

/-- "rotate_dihedral leaves the requested dihedral at the target value" — the repaired code
(`rotation_angle = dihedral − target_angle`). -/
theorem rotate_dihedral_hits_target : rotate_dihedral_hits_target_statement .repaired α := by
  intro p1 p2 p4 u l ρ sφ cφ sτ cτ hu hφ hτ hcur
  have ht := dihedralRotation_unit .repaired sφ cφ sτ cτ hφ hτ
  have h := Molli.Lemmas.Geom.dihedral_after_rotation p1 p2 p4 u l _ _ hu ht
  simp only at h ⊢
  rw [h, hcur]
  simp only [dihedralRotation]
  apply Prod.ext
  · show ρ * sφ * (cφ * cτ + sφ * sτ) - ρ * cφ * (sφ * cτ - cφ * sτ) = ρ * sτ
    linear_combination (ρ * sτ) * hφ
  · show ρ * cφ * (cφ * cτ + sφ * sτ) + ρ * sφ * (sφ * cτ - cφ * sτ) = ρ * cτ
    linear_combination (ρ * cτ) * hφ

/-- D23: the shipped code (`rotation_angle = target_angle − dihedral`) ends at `2φ − τ`.
Witness over ℚ: `p1 = x̂`, `p2 = 0`, `p3 = ẑ`, `p4 = x̂ + ẑ` (dihedral 0), target 90° → lands at −90°. -/
theorem rotate_dihedral_counterexample : ¬ rotate_dihedral_hits_target_statement .asShipped ℚ := by
  intro h
  have h' := h ⟨1, 0, 0⟩ ⟨0, 0, 0⟩ ⟨1, 0, 1⟩ ⟨0, 0, 1⟩ 1 1 0 1 1 0
    (by decide +kernel) (by decide +kernel) (by decide +kernel) (by decide +kernel)
  revert h'
  decide +kernel

/-- What the shipped code does achieve: the dihedral moves to `2φ − τ`
(`sin(2φ−τ) = 2 sφ cφ cτ − (cφ² − sφ²) sτ`, `cos(2φ−τ) = (cφ² − sφ²) cτ + 2 sφ cφ sτ`). -/
theorem rotate_dihedral_shipped_partial (p1 p2 p4 u : V3 α) (l ρ sφ cφ sτ cτ : α)
    (hu : u.dot u = 1) (hφ : sφ * sφ + cφ * cφ = 1) (hτ : sτ * sτ + cτ * cτ = 1)
    (hcur : dihedralPair p1 p2 (p2.add (u.smul l)) p4 l = (ρ * sφ, ρ * cφ)) :
    let sc := dihedralRotation .asShipped sφ cφ sτ cτ
    let f := rotateAbout p2 (rotAxis u sc.1 sc.2)
    dihedralPair p1 p2 (f (p2.add (u.smul l))) (f p4) l =
      (ρ * (2 * sφ * cφ * cτ - (cφ * cφ - sφ * sφ) * sτ),
       ρ * ((cφ * cφ - sφ * sφ) * cτ + 2 * sφ * cφ * sτ)) := by
  have ht := dihedralRotation_unit .asShipped sφ cφ sτ cτ hφ hτ
  have h := Molli.Lemmas.Geom.dihedral_after_rotation p1 p2 p4 u l _ _ hu ht
  simp only at h ⊢
  rw [h, hcur]
  simp only [dihedralRotation]
  apply Prod.ext
  · show ρ * sφ * (cτ * cφ + sτ * sφ) - ρ * cφ * (sτ * cφ - cτ * sφ) = _
    ring
  · show ρ * cφ * (cτ * cφ + sτ * sφ) + ρ * sφ * (sτ * cφ - cτ * sφ) = _
    ring

/-- `rotate_dihedral` on the coordinate list: exactly the rows yielded by the BFS move, by one
rigid motion (rotation about the bond through `atoms[1]`). -/
theorem rotate_dihedral_rigid (v : Variant) (coords : List (V3 α)) (sel : List Nat) (p2 u : V3 α)
    (sφ cφ sτ cτ : α) (hu : u.dot u = 1) (hφ : sφ * sφ + cφ * cφ = 1)
    (hτ : sτ * sτ + cτ * cτ = 1) :
    ∃ f, Rigid f ∧ rotateDihedral v coords sel p2 u sφ cφ sτ cτ = updateSel coords sel f :=
  ⟨_, rigid_rotateAbout p2 _ (rotAxis_isRot u _ _ hu (dihedralRotation_unit v sφ cφ sτ cτ hφ hτ)), rfl⟩

/-! ## centring -/

/-- "centering": after `center_at_core(core)` (one conformer) / the first step of alignment, the
centroid of the core atoms is the origin; the whole geometry was moved by one translation. -/
theorem centroid_after_centering (coords : List (V3 α)) (core : List Nat)
    (hn : ((gather coords core).length : α) ≠ 0) :
    centroid (gather (centerAt coords core) core) = V3.zero ∧
    centerAt coords core = coords.map (fun p => p.add (centroid (gather coords core)).neg) := by
  refine ⟨?_, rfl⟩
  unfold centerAt translate
  rw [gather_map]
  have h := centroid_translate (gather coords core) (centroid (gather coords core)).neg hn
  unfold translate at h
  rw [h, add_neg_self]

/-! ## ensembles: every conformer undergoes the single-geometry operation -/

/-- `ConformerEnsemble.translate` (1-d and 2-d vector), `rotate` (one matrix / a stack) and
`center_at_core` act conformer by conformer as `translate` / `transform` / `centerAt`. -/
theorem ens_conformerwise (ens : List (List (V3 α))) (k : Nat) (conf : List (V3 α))
    (hk : ens[k]? = some conf) :
    (∀ v, (ensTranslate1 ens v)[k]? = some (translate conf v)) ∧
    (∀ vs v, vs[k]? = some v → (ensTranslate2 ens vs)[k]? = some (translate conf v)) ∧
    (∀ r, (ensRotate1 ens r)[k]? = some (transform conf r)) ∧
    (∀ rs r, rs[k]? = some r → (ensRotateN ens rs)[k]? = some (transform conf r)) ∧
    (∀ core, (ensCenterAtCore ens core)[k]? = some (centerAt conf core)) := by
  refine ⟨fun v => ?_, fun vs v hv => ?_, fun r => ?_, fun rs r hr => ?_, fun core => ?_⟩
  · simp only [ensTranslate1, List.getElem?_map, hk, Option.map_some]
  · simp only [ensTranslate2, List.getElem?_zipWith, hk, hv, Option.map_some, Option.bind_some]
  · simp only [ensRotate1, List.getElem?_map, hk, Option.map_some]
  · simp only [ensRotateN, List.getElem?_zipWith, hk, hr, Option.map_some, Option.bind_some]
  · simp only [ensCenterAtCore, List.getElem?_map, hk, Option.map_some]

/-! ## alignment -/

/-- "alignment returns the RMSD it actually achieved": if the supplied `func` is truthful — the
value it reports for `(X, Y)` is the deviation `dev (X @ R) Y` of its own rotation — then the value
returned by `align_to_ref_coords` is the deviation between the reference and the FINAL coordinates
of the winning index list (before the optional shift by `vec`, i.e. measured against `ref + vec`),
it was reported for one of the candidate lists, and no candidate reported a smaller one.
`dev` is any deviation measure (RMSD in the code); `hundred` is the start value `100.0`. -/
theorem align_reports_achieved [LinearOrder α]
    (func : List (V3 α) → List (V3 α) → M3 α × α) (dev : List (V3 α) → List (V3 α) → α)
    (htruth : ∀ X Y, dev (transform X (func X Y).1) Y = (func X Y).2)
    (hundred : α) (idxs : List (List Nat)) (ref coords : List (V3 α)) (vec : Option (V3 α))
    (final : List (V3 α)) (r : α) (idx : List Nat)
    (h : alignMol func hundred idxs ref vec coords = some (final, r, idx)) :
    idx ∈ idxs ∧
    (∃ X, dev X ref = r ∧
      gather final idx = applyVec X vec) ∧
    (∀ idx' ∈ idxs, ¬ (func (gather (centerAt coords (idxs.headD [])) idx') ref).2 < r) := by
  obtain ⟨rot, hbf, hfin⟩ := alignMol_some func hundred idxs ref coords vec final r idx h
  have hs := bestFit_spec func (centerAt coords (idxs.headD [])) ref idxs (hundred, none) [] hundred
    ⟨le_refl _, fun _ _ hh => by simp at hh, fun _ hh => by simp at hh⟩
  simp only [List.nil_append] at hs
  rw [hbf] at hs
  obtain ⟨_, hbest, hmin⟩ := hs
  obtain ⟨hmem, hfun, _⟩ := hbest rot idx rfl
  refine ⟨hmem, ⟨transform (gather (centerAt coords (idxs.headD [])) idx) rot, ?_, ?_⟩, hmin⟩
  · have := htruth (gather (centerAt coords (idxs.headD [])) idx) ref
    rw [hfun] at this
    exact this
  · subst hfin
    cases vec with
    | none => simp only [applyVec, transform, gather_map]
    | some v => simp only [applyVec, transform, translate, gather_map]

/-- Where the geometry ends up, for ANY list of candidate mappings (several distinct sites of the
molecule, symmetry permutations, …): the whole geometry is centred on the centroid of the FIRST
mapping, turned by the rotation that `func` returned for the WINNING mapping `idx` (the one whose
reported value `r` is returned), then shifted by `vec` — centring, rotation and reported value can
never come from three different mappings. -/
theorem align_final_pose [LinearOrder α]
    (func : List (V3 α) → List (V3 α) → M3 α × α)
    (hundred : α) (idxs : List (List Nat)) (ref coords : List (V3 α)) (vec : Option (V3 α))
    (final : List (V3 α)) (r : α) (idx : List Nat)
    (h : alignMol func hundred idxs ref vec coords = some (final, r, idx)) :
    ∃ rot, func (gather (centerAt coords (idxs.headD [])) idx) ref = (rot, r) ∧
      final = applyVec (transform (centerAt coords (idxs.headD [])) rot) vec := by
  obtain ⟨rot, hbf, hfin⟩ := alignMol_some func hundred idxs ref coords vec final r idx h
  have hs := bestFit_spec func (centerAt coords (idxs.headD [])) ref idxs (hundred, none) [] hundred
    ⟨le_refl _, fun _ _ hh => by simp at hh, fun _ hh => by simp at hh⟩
  simp only [List.nil_append] at hs
  rw [hbf] at hs
  obtain ⟨_, hbest, _⟩ := hs
  obtain ⟨_, hfun, _⟩ := hbest rot idx rfl
  exact ⟨rot, hfun, hfin⟩

/-- Alignment moves the whole geometry by ONE rigid motion (centre, rotate, shift), provided the
matrix returned by `func` is a proper rotation. -/
theorem align_rigid [LinearOrder α]
    (func : List (V3 α) → List (V3 α) → M3 α × α) (hrot : ∀ X Y, (func X Y).1.IsRot)
    (hundred : α) (idxs : List (List Nat)) (ref coords : List (V3 α)) (vec : Option (V3 α))
    (final : List (V3 α)) (r : α) (idx : List Nat)
    (h : alignMol func hundred idxs ref vec coords = some (final, r, idx)) :
    ∃ f, Rigid f ∧ final = coords.map f := by
  obtain ⟨rot, hbf, hfin⟩ := alignMol_some func hundred idxs ref coords vec final r idx h
  have hs := bestFit_spec func (centerAt coords (idxs.headD [])) ref idxs (hundred, none) [] hundred
    ⟨le_refl _, fun _ _ hh => by simp at hh, fun _ hh => by simp at hh⟩
  simp only [List.nil_append] at hs
  rw [hbf] at hs
  obtain ⟨_, hbest, _⟩ := hs
  obtain ⟨_, hfun, _⟩ := hbest rot idx rfl
  have hr : rot.IsRot := by
    have := hrot (gather (centerAt coords (idxs.headD [])) idx) ref
    rw [hfun] at this; exact this
  have h1 := rigid_comp (rigid_translate (centroid (gather coords (idxs.headD []))).neg)
    (rigid_transform rot hr)
  subst hfin
  cases vec with
  | none =>
    exact ⟨_, h1, by simp only [applyVec, transform, centerAt, translate, List.map_map]; rfl⟩
  | some v =>
    exact ⟨_, rigid_comp h1 (rigid_translate v),
      by simp only [applyVec, transform, centerAt, translate, List.map_map]; rfl⟩

/-! ## non-vacuity: concrete instances meeting the hypotheses -/

/-- unit vectors in general position (Pythagorean triple / quadruple) -/
example : (⟨3/5, 4/5, 0⟩ : V3 ℚ).dot ⟨3/5, 4/5, 0⟩ = 1 ∧ (⟨1/3, 2/3, 2/3⟩ : V3 ℚ).dot ⟨1/3, 2/3, 2/3⟩ = 1 ∧
    (1 : ℚ) + (⟨3/5, 4/5, 0⟩ : V3 ℚ).dot ⟨1/3, 2/3, 2/3⟩ ≠ 0 := by decide +kernel

/-- the theorems applied to it: a genuinely non-trivial rotation -/
example : (rotVec (⟨3/5, 4/5, 0⟩ : V3 ℚ) ⟨1/3, 2/3, 2/3⟩).IsRot ∧
    (⟨3/5, 4/5, 0⟩ : V3 ℚ).mulM (rotVec ⟨3/5, 4/5, 0⟩ ⟨1/3, 2/3, 2/3⟩) = ⟨1/3, 2/3, 2/3⟩ ∧
    rotVec (⟨3/5, 4/5, 0⟩ : V3 ℚ) ⟨1/3, 2/3, 2/3⟩ ≠ M3.one :=
  ⟨⟨rotVec_orth _ _ (by decide +kernel) (by decide +kernel) (by decide +kernel),
    rotVec_det _ _ (by decide +kernel) (by decide +kernel) (by decide +kernel)⟩,
   rotVec_maps _ _ (by decide +kernel) (by decide +kernel) (by decide +kernel), by decide +kernel⟩

/-- antiparallel, repaired branch: `a = −b`, `b = (8,9,12)/17`, helper norm `15/17` -/
example : ((⟨8/17, 9/17, 12/17⟩ : V3 ℚ).neg).dot ⟨8/17, 9/17, 12/17⟩ ≤ -1 + 1/100000000 ∧
    (15/17 : ℚ) * (15/17) = 1 - (⟨8/17, 9/17, 12/17⟩ : V3 ℚ).get (argminAbs ⟨8/17, 9/17, 12/17⟩) *
      (⟨8/17, 9/17, 12/17⟩ : V3 ℚ).get (argminAbs ⟨8/17, 9/17, 12/17⟩) := by decide +kernel

/-- axis rotation by the rational angle (s, c) = (4/5, 3/5) about (1,2,2)/3; `v = (2,-1,0) ⊥ u` -/
example : (⟨1/3, 2/3, 2/3⟩ : V3 ℚ).dot ⟨1/3, 2/3, 2/3⟩ = 1 ∧ (4/5 : ℚ) * (4/5) + 3/5 * (3/5) = 1 ∧
    (⟨1/3, 2/3, 2/3⟩ : V3 ℚ).dot ⟨2, -1, 0⟩ = 0 ∧ rotAxis (⟨1/3, 2/3, 2/3⟩ : V3 ℚ) (4/5) (3/5) ≠ M3.one := by
  decide +kernel

/-- a dihedral that is not already at its target: current 0, target 90° -/
example : dihedralPair (⟨1, 0, 0⟩ : V3 ℚ) ⟨0, 0, 0⟩ (V3.add ⟨0, 0, 0⟩ (V3.smul 1 ⟨0, 0, 1⟩)) ⟨1, 0, 1⟩ 1 = (1 * 0, 1 * 1) ∧
    dihedralPair (⟨1, 0, 0⟩ : V3 ℚ) ⟨0, 0, 0⟩ (V3.add ⟨0, 0, 0⟩ (V3.smul 1 ⟨0, 0, 1⟩)) ⟨1, 0, 1⟩ 1 ≠ (1 * 1, 1 * 0) := by
  decide +kernel

/-- a selection that is neither empty nor everything, and a core with non-zero size -/
example : updateSel [(⟨0, 0, 0⟩ : V3 ℚ), ⟨1, 0, 0⟩, ⟨0, 1, 0⟩] [1, 2] (fun p => p.add ⟨0, 0, 5⟩) =
    [⟨0, 0, 0⟩, ⟨1, 0, 5⟩, ⟨0, 1, 5⟩] ∧
    (((gather [(⟨0, 0, 0⟩ : V3 ℚ), ⟨1, 0, 0⟩, ⟨0, 1, 0⟩] [1, 2]).length : ℚ) ≠ 0) := by
  decide +kernel

/-- an alignment scan that succeeds with the second candidate (identity "func" reporting a constant
per index-list length) -/
example : (alignMol (fun X _ => (M3.one, (X.length : ℚ))) 100 [[0, 1, 2], [0, 1]]
    [⟨0, 0, 0⟩] none [(⟨0, 0, 0⟩ : V3 ℚ), ⟨3, 0, 0⟩, ⟨0, 3, 0⟩]).map (fun x => (x.2.1, x.2.2)) =
    some (2, [0, 1]) := by decide +kernel

end Molli.Props.C11
