/-
C17 — A job runs exactly what was asked and reports exactly what happened.

  "A JobInput built through a driver reflects that driver instance's executable, processor count and
   environment and the caller's arguments, irrespective of which other drivers exist or were used before.
   Executing it materialises the input files, runs the commands in order in a private scratch directory,
   stops at the first failing command, captures each named command's stdout/stderr, returns the requested
   files byte for byte with the input's hash, exits 0 iff every command succeeded and every requested file
   exists, and leaves no scratch residue."

Reading.  Model: `Molli.Model.Job`.  Part 1: `bind`/`runEvs` over every history of driver creations and
uses.  Part 2: `runJob` with one scripted `Outcome` per command (the shell and the programs are
environment).  The statements are about `Variant.repaired` — the behaviour the property demands; for
`Variant.asShipped` (the pinned commit) the three places where it differs are exhibited by closed
counterexamples (D33: first instance's settings stick; D34: JobOutput.exitcode 0 while the process exits 1;
`return_files=None` — the dataclass default — kills the runner).
Hypothesis `Clean`: the capture files `<name>.out/.err` are pairwise different and no scripted effect
writes to one of them (otherwise "the command's stdout" is not well defined).
-/
import Molli.Lemmas.Job
namespace Molli.Props.C17
open Molli.Util Molli.Model.Job Molli.Lemmas.Job

/-! ## Part 1: binding -/

/-- the instance table after a history (independent of the variant and of the job state) -/
def instsAfter (insts : List (Nat × Attrs)) : List Ev → List (Nat × Attrs)
  | [] => insts
  | .create i a :: es => instsAfter (setInst insts i a) es
  | .use _ :: es => instsAfter insts es
  | .mutate i a :: es => instsAfter (if (lookupInst insts i).isSome then setInst insts i a else insts) es
  | .discard i :: es => instsAfter (dropInst insts i) es

theorem runEvs_repaired_world (cls : Attrs) (w : World) (evs : List Ev) :
    (runEvs .repaired cls w evs).1 = { job := w.job, insts := instsAfter w.insts evs } := by
  induction evs generalizing w with
  | nil => rfl
  | cons e es ih =>
    cases e with
    | create i a => simp only [runEvs, stepEv, instsAfter]; rw [ih]
    | discard i => simp only [runEvs, stepEv, instsAfter]; rw [ih]
    | mutate i a =>
      simp only [runEvs, stepEv, instsAfter]
      cases lookupInst w.insts i with
      | none => simp only [Option.isSome_none, Bool.false_eq_true, if_false]; rw [ih]
      | some a' => simp only [Option.isSome_some, if_true]; rw [ih]
    | use i =>
      simp only [runEvs, stepEv, instsAfter]
      cases lookupInst w.insts i with
      | none => simp only; rw [ih]
      | some a => simp only [Molli.Model.Job.bind]; rw [ih]

theorem runEvs_append (v : Variant) (cls : Attrs) (w : World) (e1 e2 : List Ev) :
    (runEvs v cls w (e1 ++ e2)).2 = (runEvs v cls w e1).2 ++ (runEvs v cls (runEvs v cls w e1).1 e2).2 := by
  induction e1 generalizing w with
  | nil => simp [runEvs]
  | cons e es ih => simp only [List.cons_append, runEvs]; rw [ih]

/-- "reflects that driver instance's executable, processor count and environment …, irrespective of which
other drivers exist or were used before": after ANY history of creations, attribute changes, uses and disposals of
drivers, using driver `i` gives exactly `resolve job cls a`, where `a` are the attributes `i` has at that moment
(as created or as last assigned) — a function of the job declaration, the class and that instance's current
attributes alone; nothing remembered from an earlier use of this or of any other (live or discarded) driver. -/
theorem bind_history_independent (job cls : Attrs) (hist : List Ev) (i : Nat) (a : Attrs)
    (hi : lookupInst (instsAfter [] hist) i = some a) :
    (runEvs .repaired cls { job := job, insts := [] } (hist ++ [.use i])).2.getLast? =
      some (some (resolve job cls a)) := by
  rw [runEvs_append, runEvs_repaired_world]
  simp only [runEvs, stepEv, hi, Molli.Model.Job.bind]
  simp

/-- two histories that agree on how driver `i` was created give the same prepared settings for `i`. -/
theorem bind_same_for_all_histories (job cls : Attrs) (h1 h2 : List Ev) (i : Nat) (a : Attrs)
    (e1 : lookupInst (instsAfter [] h1) i = some a) (e2 : lookupInst (instsAfter [] h2) i = some a) :
    (runEvs .repaired cls { job := job, insts := [] } (h1 ++ [.use i])).2.getLast? =
    (runEvs .repaired cls { job := job, insts := [] } (h2 ++ [.use i])).2.getLast? := by
  rw [bind_history_independent job cls h1 i a e1, bind_history_independent job cls h2 i a e2]

/-- the shared job object is never changed by a use -/
theorem bind_leaves_job_unchanged (cls : Attrs) (w : World) (evs : List Ev) :
    (runEvs .repaired cls w evs).1.job = w.job := by
  rw [runEvs_repaired_world]

/-- what the resolved settings are: the instance's executable and processor count unless the declaration
fixes them, and the class → instance → declaration overlay of the environment -/
theorem resolve_instance_settings (cls inst : Attrs) (exe : String) (n : Nat)
    (he : inst.executable = some exe) (hn : inst.nprocs = some n) :
    (resolve {} cls inst).executable = some exe ∧ (resolve {} cls inst).nprocs = n ∧
    (resolve {} cls inst).envars = dmerge cls.envars inst.envars := by
  simp [resolve, he, hn, dmerge]

/-- the instance's own class can be folded into the instance: `resolve` with the class given separately and with the
class attributes folded in agree on executable, processor count and memory (and on the environment as a mapping) -/
theorem resolve_foldClass (job cls inst : Attrs) :
    (resolve job {} (foldClass cls inst)).executable = (resolve job cls inst).executable ∧
    (resolve job {} (foldClass cls inst)).nprocs = (resolve job cls inst).nprocs ∧
    (resolve job {} (foldClass cls inst)).memory = (resolve job cls inst).memory := by
  refine ⟨?_, ?_, ?_⟩ <;> simp only [resolve, foldClass] <;>
    (first | cases job.executable <;> cases inst.executable <;> cases cls.executable <;> rfl
           | cases job.nprocs <;> cases inst.nprocs <;> cases cls.nprocs <;> rfl
           | cases job.memory <;> cases inst.memory <;> cases cls.memory <;> rfl)

/-- "reflects that driver instance's executable": an instance created with an explicit `executable=` prepares inputs with
exactly that program (as found on the PATH when `find`), an instance created without one with its class's declared
default — whatever other instances, of this or other classes, with explicit or default executables, were created or used
before (`bind_history_independent`: nothing but the instance's own attributes enters). -/
theorem prepared_executable_is_the_requested_one (which : String → Option String) (decl : Option String) (req cls : Attrs)
    (find : Bool) (hist : List Ev) (i : Nat)
    (hi : lookupInst (instsAfter [] hist) i = some (foldClass cls (initAttrs which decl req find))) :
    ((runEvs .repaired {} { job := {}, insts := [] } (hist ++ [.use i])).2.getLast?.bind id).map (·.executable) =
      some ((initExecutable which decl req.executable find) <|> cls.executable) := by
  rw [bind_history_independent {} {} hist i _ hi]
  simp [resolve, foldClass, initAttrs]

example : initExecutable (fun n => if n = "xtb" then some "/usr/bin/xtb" else if n = "myxtb" then some "/opt/bin/myxtb" else none)
      (some "xtb") none true = some "/usr/bin/xtb" ∧
    initExecutable (fun n => if n = "xtb" then some "/usr/bin/xtb" else if n = "myxtb" then some "/opt/bin/myxtb" else none)
      (some "xtb") (some "myxtb") true = some "/opt/bin/myxtb" ∧
    initExecutable (fun _ => none) (some "xtb") (some "/abs/prog") false = some "/abs/prog" := by
  decide

def d33a : Attrs := { executable := some "xtb-a", nprocs := some 2, envars := [("OMP", "2")] }
def d33b : Attrs := { executable := some "xtb-b", nprocs := some 8, envars := [("MKL", "8")] }

example : (runEvs .repaired {} { job := {}, insts := [] } [.create 0 d33a, .create 1 d33b, .use 0, .use 1]).2 =
    [none, none, some ⟨some "xtb-a", 2, 1000, [("OMP", "2")]⟩, some ⟨some "xtb-b", 8, 1000, [("MKL", "8")]⟩] := by
  decide

example : (runEvs .repaired {} { job := {}, insts := [] }
      [.create 0 d33a, .use 0, .discard 0, .create 1 d33b, .use 1, .mutate 1 d33a, .use 1, .use 0]).2 =
    [none, some ⟨some "xtb-a", 2, 1000, [("OMP", "2")]⟩, none, none, some ⟨some "xtb-b", 8, 1000, [("MKL", "8")]⟩, none,
     some ⟨some "xtb-a", 2, 1000, [("OMP", "2")]⟩, none] := by
  decide

/-- D33 (the pinned commit): the second driver prepares inputs with the first driver's executable and
processor count, and inherits its environment. -/
theorem bind_shipped_counterexample :
    (runEvs .asShipped {} { job := {}, insts := [] } [.create 0 d33a, .create 1 d33b, .use 0, .use 1]).2.getLast? ≠
      some (some (resolve {} {} d33b)) := by
  decide

/-! ## Part 2: running -/

section run
variable (hash : JobInput → String) (baseEnv : Env) (scratch : List String) (td : String)
  (inp : JobInput) (script : List Outcome)

/-- the `ran` component is the executed prefix of the job's commands -/
theorem runJob_ran (v : Variant) : (runJob v hash baseEnv scratch td inp script).ran = ranCmds baseEnv inp script := by
  unfold runJob
  simp only
  split
  · rfl
  · split <;> rfl

/-- "runs the commands in order …, stops at the first failing command": the commands started are a prefix of
the job's commands, in order; every one before the last succeeded; the loop stops early only at a command
that failed; at least one command is started. -/
theorem run_in_order_until_failure (v : Variant) :
    let ran := (runJob v hash baseEnv scratch td inp script).ran
    ran <+: jobCmds inp script ∧
    (∀ c ∈ ran.dropLast, c.2.code = 0) ∧
    (ran.length < (jobCmds inp script).length → ∃ c, ran.getLast? = some c ∧ c.2.code ≠ 0) ∧
    ((∀ c ∈ jobCmds inp script, c.2.code = 0) → ran = jobCmds inp script) ∧
    (jobCmds inp script ≠ [] → ran ≠ []) := by
  simp only [runJob_ran, ranCmds]
  exact ⟨exec_ran_prefix _ _ _, exec_ran_dropLast_ok _ _ _, exec_stopped_failed _ _ _,
    exec_all_ok_ran_all _ _ _, exec_ran_ne_nil _ _ _⟩

/-- "materialises the input files": the private directory starts with exactly the input files
(distinct names), byte for byte. -/
theorem dget_mem_nodup {β : Type} (l : List (String × β)) (e : String × β) (hnd : (l.map (·.1)).Nodup) (he : e ∈ l) :
    dget l e.1 = some e.2 := by
  induction l with
  | nil => cases he
  | cons x xs ih =>
    simp only [List.map_cons, List.nodup_cons] at hnd
    rcases List.mem_cons.mp he with rfl | he
    · simp [dget]
    · have hne : x.1 ≠ e.1 := fun h => hnd.1 (List.mem_map.mpr ⟨e, he, h.symm⟩)
      have hb : (x.1 == e.1) = false := by simpa using hne
      simp only [dget, List.find?_cons, hb]
      exact ih hnd.2 he

theorem files_materialised (hnd : (inp.files.map (·.1)).Nodup) (f : String) :
    dget (initFS inp) f = dget inp.files f ∧ (f ∉ inp.files.map (·.1) → dget (initFS inp) f = none) := by
  unfold initFS
  by_cases hm : f ∈ inp.files.map (·.1)
  · refine ⟨?_, fun h => absurd hm h⟩
    obtain ⟨e, he, rfl⟩ := List.mem_map.mp hm
    rw [dget_foldl_dset_mem inp.files [] e.1 e.2 hnd he, dget_mem_nodup inp.files e hnd he]
  · have h0 : dget (inp.files.foldl (fun fs f => dset fs f.1 f.2) []) f = none := by
      rw [dget_foldl_dset_not_mem _ _ _ hm]; rfl
    refine ⟨?_, fun _ => h0⟩
    rw [h0]
    symm
    simp only [dget, Option.map_eq_none_iff, List.find?_eq_none]
    intro x hx hxe
    exact hm (List.mem_map.mpr ⟨x, hx, by simpa using hxe⟩)

/-- under `Clean`, every capture file can be read back: the runner does not die -/
theorem captures_present (hc : Clean (jobCmds inp script)) :
    (captures (finalFS baseEnv inp script) (namesOf (ranCmds baseEnv inp script))).any
      (fun c => c.2.1.isNone || c.2.2.isNone) = false := by
  rw [List.any_eq_false]
  intro c hcm
  simp only [captures, List.mem_map] at hcm
  obtain ⟨nm, hnm, rfl⟩ := hcm
  simp only [namesOf, List.mem_filterMap] at hnm
  obtain ⟨⟨n, o⟩, hmem, hn⟩ := hnm
  simp only at hn
  subst hn
  have := exec_captured (jobEnv baseEnv inp) (initFS inp) (jobCmds inp script) hc nm o hmem
  simp only [finalFS, this.1, this.2]
  simp

/-- the runner writes a JobOutput whenever the job has a command (repaired code; `Clean` script) -/
theorem output_written (hne : jobCmds inp script ≠ []) (hc : Clean (jobCmds inp script)) :
    ∃ o, (runJob .repaired hash baseEnv scratch td inp script).output = some o := by
  unfold runJob
  simp only
  have h1 : (ranCmds baseEnv inp script).isEmpty = false := by
    have := exec_ran_ne_nil (jobEnv baseEnv inp) (initFS inp) _ hne
    simpa [ranCmds, List.isEmpty_iff] using this
  rw [h1, captures_present baseEnv inp script hc]
  simp only [Bool.or_self, Bool.false_eq_true, if_false]
  cases inp.returnFiles <;> exact ⟨_, rfl⟩

/-- the JobOutput of the repaired runner, spelled out -/
theorem output_eq (hne : jobCmds inp script ≠ []) (hc : Clean (jobCmds inp script)) :
    (runJob .repaired hash baseEnv scratch td inp script).output = some
      { stdouts := (captures (finalFS baseEnv inp script) (namesOf (ranCmds baseEnv inp script))).foldl
          (fun d c => dset d c.1 (c.2.1.getD [])) []
        stderrs := (captures (finalFS baseEnv inp script) (namesOf (ranCmds baseEnv inp script))).foldl
          (fun d c => dset d c.1 (c.2.2.getD [])) []
        exitcode := exitcodeOf .repaired (failedCode (ranCmds baseEnv inp script))
          ((requested inp).all fun f => dhas (finalFS baseEnv inp script) f)
        files := collect (finalFS baseEnv inp script) (requested inp)
        inputHash := hash inp } ∧
    (runJob .repaired hash baseEnv scratch td inp script).exit =
      if (failedCode (ranCmds baseEnv inp script)).isNone &&
         ((requested inp).all fun f => dhas (finalFS baseEnv inp script) f) then 0 else 1 := by
  unfold runJob
  simp only
  have h1 : (ranCmds baseEnv inp script).isEmpty = false := by
    have := exec_ran_ne_nil (jobEnv baseEnv inp) (initFS inp) _ hne
    simpa [ranCmds, List.isEmpty_iff] using this
  rw [h1, captures_present baseEnv inp script hc]
  simp only [Bool.or_self, Bool.false_eq_true, if_false]
  simp only [requested]
  split
  · rename_i h2; cases h2
  · exact ⟨rfl, rfl⟩

/-- "captures each named command's stdout/stderr": the JobOutput maps the name of every started named command
to exactly what that command printed, and has no other keys. -/
theorem named_output_captured (hne : jobCmds inp script ≠ []) (hc : Clean (jobCmds inp script)) :
    ∃ o, (runJob .repaired hash baseEnv scratch td inp script).output = some o ∧
      (∀ nm oc, (some nm, oc) ∈ (runJob .repaired hash baseEnv scratch td inp script).ran →
        dget o.stdouts nm = some oc.out ∧ dget o.stderrs nm = some oc.err) ∧
      (∀ nm, nm ∉ namesOf (runJob .repaired hash baseEnv scratch td inp script).ran →
        dget o.stdouts nm = none ∧ dget o.stderrs nm = none) := by
  obtain ⟨ho, _⟩ := output_eq hash baseEnv scratch td inp script hne hc
  refine ⟨_, ho, ?_, ?_⟩
  · intro nm oc hmem
    rw [runJob_ran] at hmem
    have hcap := exec_captured (jobEnv baseEnv inp) (initFS inp) (jobCmds inp script) hc nm oc hmem
    have hnames : nm ∈ namesOf (ranCmds baseEnv inp script) := by
      simp only [namesOf, List.mem_filterMap]; exact ⟨(some nm, oc), hmem, rfl⟩
    have hnd : (namesOf (ranCmds baseEnv inp script)).Nodup := by
      have hp := namesOf_prefix (exec_ran_prefix (jobEnv baseEnv inp) (initFS inp) (jobCmds inp script))
      exact (hp.sublist).nodup (namesOf_nodup_of_clean _ hc)
    simp only
    constructor
    · have := dget_foldl_dset_mem
        ((captures (finalFS baseEnv inp script) (namesOf (ranCmds baseEnv inp script))).map fun c => (c.1, c.2.1.getD []))
        [] nm oc.out (by simpa [captures, List.map_map, Function.comp_def] using hnd)
        (by simp only [captures, List.map_map, List.mem_map, Function.comp_def]
            exact ⟨nm, hnames, by simp [finalFS, hcap.1]⟩)
      simpa [List.foldl_map] using this
    · have := dget_foldl_dset_mem
        ((captures (finalFS baseEnv inp script) (namesOf (ranCmds baseEnv inp script))).map fun c => (c.1, c.2.2.getD []))
        [] nm oc.err (by simpa [captures, List.map_map, Function.comp_def] using hnd)
        (by simp only [captures, List.map_map, List.mem_map, Function.comp_def]
            exact ⟨nm, hnames, by simp [finalFS, hcap.2]⟩)
      simpa [List.foldl_map] using this
  · intro nm hnm
    rw [runJob_ran] at hnm
    simp only
    constructor
    · have := dget_foldl_dset_not_mem
        ((captures (finalFS baseEnv inp script) (namesOf (ranCmds baseEnv inp script))).map fun c => (c.1, c.2.1.getD []))
        ([] : List (String × Bytes)) nm (by simpa [captures, List.map_map, Function.comp_def] using hnm)
      simpa [List.foldl_map, dget_nil] using this
    · have := dget_foldl_dset_not_mem
        ((captures (finalFS baseEnv inp script) (namesOf (ranCmds baseEnv inp script))).map fun c => (c.1, c.2.2.getD []))
        ([] : List (String × Bytes)) nm (by simpa [captures, List.map_map, Function.comp_def] using hnm)
      simpa [List.foldl_map, dget_nil] using this

/-- "returns the requested files byte for byte": a requested file is returned iff it exists when the loop ends,
with exactly the bytes it then has; nothing that was not requested is returned; and a requested input file that
no command touches comes back with exactly the bytes of the input. -/
theorem files_byte_for_byte (hne : jobCmds inp script ≠ []) (hc : Clean (jobCmds inp script)) :
    ∃ o, (runJob .repaired hash baseEnv scratch td inp script).output = some o ∧
      (∀ f, dget o.files f = if f ∈ requested inp then dget (finalFS baseEnv inp script) f else none) ∧
      (∀ f, f ∈ requested inp → f ∉ capFiles (jobCmds inp script) →
        (∀ c ∈ jobCmds inp script, ∀ e ∈ c.2.effects, f ≠ target e) →
        dget o.files f = dget (initFS inp) f) := by
  obtain ⟨ho, _⟩ := output_eq hash baseEnv scratch td inp script hne hc
  refine ⟨_, ho, fun f => dget_collect _ _ f, ?_⟩
  intro f hf hcap heff
  simp only
  rw [dget_collect, if_pos hf, finalFS, exec_frame _ _ _ f hcap heff]

/-- requested files may live in sub-directories: two requested paths with the same base name in different directories
are two entries of the JobOutput, each under its own (normalised) path with its own bytes -/
theorem same_basename_different_directories (hne : jobCmds inp script ≠ []) (hc : Clean (jobCmds inp script))
    (f g : String) (hf : f ∈ requested inp) (hg : g ∈ requested inp) :
    ∃ o, (runJob .repaired hash baseEnv scratch td inp script).output = some o ∧
      dget o.files f = dget (finalFS baseEnv inp script) f ∧ dget o.files g = dget (finalFS baseEnv inp script) g := by
  obtain ⟨o, ho, hfiles, _⟩ := files_byte_for_byte hash baseEnv scratch td inp script hne hc
  exact ⟨o, ho, by rw [hfiles, if_pos hf], by rw [hfiles, if_pos hg]⟩

example : normPath "./r.dat" = "r.dat" ∧ normPath "a//b/./r.bin" = "a/b/r.bin" ∧ normPath "a/r.bin" ≠ normPath "b/r.bin" ∧
    normPath "sub/" = "sub" ∧ normPath "../x" = "../x" := by decide

/-- "exits 0 iff every command succeeded and every requested file exists" — and the JobOutput says the same:
its exit code is 0 exactly when the process exits 0; after a failing command it is that command's code. -/
theorem exit_zero_iff (hne : jobCmds inp script ≠ []) (hc : Clean (jobCmds inp script)) :
    ((runJob .repaired hash baseEnv scratch td inp script).exit = 0 ↔
      (∀ c ∈ jobCmds inp script, c.2.code = 0) ∧
      (∀ f ∈ requested inp, (dget (finalFS baseEnv inp script) f).isSome)) ∧
    ∃ o, (runJob .repaired hash baseEnv scratch td inp script).output = some o ∧
      (o.exitcode = 0 ↔ (runJob .repaired hash baseEnv scratch td inp script).exit = 0) ∧
      (∀ c, failedCode (runJob .repaired hash baseEnv scratch td inp script).ran = some c → o.exitcode = c) := by
  obtain ⟨ho, he⟩ := output_eq hash baseEnv scratch td inp script hne hc
  have hfail := failedCode_none_iff (jobEnv baseEnv inp) (initFS inp) (jobCmds inp script)
  have hall : ((requested inp).all fun f => dhas (finalFS baseEnv inp script) f) = true ↔
      ∀ f ∈ requested inp, (dget (finalFS baseEnv inp script) f).isSome := by
    simp [List.all_eq_true, dhas_eq_isSome]
  constructor
  · rw [he]
    constructor
    · intro h
      by_cases hb : ((failedCode (ranCmds baseEnv inp script)).isNone &&
          (requested inp).all fun f => dhas (finalFS baseEnv inp script) f) = true
      · rw [Bool.and_eq_true] at hb
        exact ⟨hfail.mp (by simpa [ranCmds] using hb.1), hall.mp hb.2⟩
      · rw [if_neg hb] at h; cases h
    · rintro ⟨h1, h2⟩
      have : failedCode (ranCmds baseEnv inp script) = none := hfail.mpr h1
      rw [this, hall.mpr h2]; rfl
  · refine ⟨_, ho, ?_, ?_⟩
    · rw [he]
      simp only [runJob_ran]
      cases hf : failedCode (ranCmds baseEnv inp script) with
      | some c =>
        have := failedCode_some_ne_zero _ c hf
        simp only [exitcodeOf, Option.isNone_some, Bool.false_and, Bool.false_eq_true, if_false]
        constructor
        · intro h; exact absurd (by exact_mod_cast h) this
        · intro h; cases h
      | none =>
        simp only [exitcodeOf, Option.isNone_none, Bool.true_and]
        cases (requested inp).all fun f => dhas (finalFS baseEnv inp script) f <;> simp
    · intro c hcf
      rw [runJob_ran] at hcf
      simp only [hcf, exitcodeOf]

/-- a command killed by a signal (`subprocess` reports `-n`) is a failing command like any other: nothing after it is
started, the runner exits non-zero and the JobOutput records `-n`. -/
theorem signalled_command_fails (hne : jobCmds inp script ≠ []) (hc : Clean (jobCmds inp script))
    (c : Option String × Outcome) (hlast : (runJob .repaired hash baseEnv scratch td inp script).ran.getLast? = some c)
    (hneg : c.2.code < 0) :
    (runJob .repaired hash baseEnv scratch td inp script).exit ≠ 0 ∧
    ∃ o, (runJob .repaired hash baseEnv scratch td inp script).output = some o ∧ o.exitcode = c.2.code := by
  obtain ⟨⟨hex, _⟩, o, ho, hcode, hfail⟩ := exit_zero_iff hash baseEnv scratch td inp script hne hc
  have hf : failedCode (runJob .repaired hash baseEnv scratch td inp script).ran = some c.2.code := by
    unfold failedCode
    rw [hlast]
    have : c.2.code ≠ 0 := by omega
    simp [this]
  refine ⟨fun h0 => ?_, o, ho, hfail _ hf⟩
  have hall := (hex h0).1
  have hran : (runJob .repaired hash baseEnv scratch td inp script).ran = jobCmds inp script := by
    rw [runJob_ran]; exact exec_all_ok_ran_all _ _ _ hall
  have hmem : c ∈ jobCmds inp script := by
    rw [← hran]; exact List.mem_of_getLast? hlast
  have := hall c hmem
  omega

/-- "with the input's hash" -/
theorem output_hash_is_input_hash (v : Variant) (o : JobOutput)
    (h : (runJob v hash baseEnv scratch td inp script).output = some o) : o.inputHash = hash inp := by
  unfold runJob at h
  simp only at h
  split at h
  · cases h
  · split at h
    · cases h
    · simp only [Option.some.injEq] at h; rw [← h]

/-- "leaves no scratch residue": whatever happened (failure, missing files, even a crash of the runner), the
scratch directory afterwards has exactly the entries it had before. -/
theorem no_residue (v : Variant) :
    (runJob v hash baseEnv scratch td inp script).scratchAfter = scratch := by
  have : (td :: scratch).erase td = scratch := by simp
  unfold runJob
  simp only
  split
  · exact this
  · split <;> exact this

end run

/-! ## program lookup -/

theorem dget_dmerge_right (a b : Env) (k v : String) (hnd : (b.map (·.1)).Nodup) (h : dget b k = some v) :
    dget (dmerge a b) k = some v := by
  unfold dmerge
  apply dget_foldl_dset_mem b a k v hnd
  simp only [dget, Option.map_eq_some_iff] at h
  obtain ⟨e, he, rfl⟩ := h
  have hk : e.1 = k := by simpa using List.find?_some he
  have := List.mem_of_find?_eq_some he
  rw [← hk]; exact this

/-- "reflects … that driver instance's environment": when the job's `envars` set `PATH`, the program a command starts is
the one THAT path selects — the same whatever the `PATH` (or anything else) of the runner's own environment is. -/
theorem program_selected_by_job_environment (base base' : Env) (inp : JobInput) (p : String)
    (hnd : (inp.envars.map (·.1)).Nodup) (hp : dget inp.envars "PATH" = some p) (has : String → Bool) (prog : String) :
    resolveProgram (jobEnv base inp) has prog = resolveProgram (jobEnv base' inp) has prog ∧
    pathDirs (jobEnv base inp) = p.splitOn ":" := by
  have h1 := dget_dmerge_right base inp.envars "PATH" p hnd hp
  have h2 := dget_dmerge_right base' inp.envars "PATH" p hnd hp
  simp only [resolveProgram, pathDirs, jobEnv, h1, h2, and_self]

/-! ## path arguments -/

/-- "reports exactly what happened" includes *where*: the JobOutput is written to the output directory as the caller
named it — resolved against the directory the runner was started in, never against the private scratch directory —
so a relative and an absolute spelling of the same directory give the same file, whatever the scratch directory is. -/
theorem output_location_independent (cwd0 td td' : List String) (out : PathArg) (stem : String) :
    outputLocation false cwd0 td out stem = outputLocation false cwd0 td' out stem ∧
    outputLocation false cwd0 td (.rel p) stem = outputLocation false cwd0 td (.abs (cwd0 ++ p)) stem := by
  simp [outputLocation, PathArg.resolve]

/-- a runner that dumps while still inside its private directory puts a relative output directory inside the
directory that is removed afterwards (absolute paths are unaffected) -/
theorem output_location_counterexample :
    outputLocation true ["w"] ["w", "scr", "j__x"] (.rel ["out"]) "job" ≠ outputLocation false ["w"] ["w", "scr", "j__x"] (.rel ["out"]) "job" ∧
    outputLocation true ["w"] ["w", "scr", "j__x"] (.abs ["w", "out"]) "job" = outputLocation false ["w"] ["w", "scr", "j__x"] (.abs ["w", "out"]) "job" := by
  decide

/-! ## a concrete job (non-vacuity) and the shipped behaviour -/

def demoInput : JobInput :=
  { jid := "j", commands := [("sh -c A", some "a"), ("sh -c B", none), ("sh -c C", some "c")],
    files := [("in.txt", [116, 10]), ("b.bin", [0, 255])],
    returnFiles := some ["r.bin", "copy.txt", "never.txt"], envars := [("A", "1")] }

def sigScript : List Outcome :=
  [ { effects := [.write "r.bin" [1]], out := [104], err := [], code := -9 },
    { effects := [.write "never.txt" [1]], out := [], err := [], code := 0 },
    { effects := [], out := [], err := [], code := 0 } ]

example :
    let r := runJob .repaired (fun _ => "H") [] [] "j__x" demoInput sigScript
    r.ran.length = 1 ∧ r.exit = 1 ∧ (r.output.map (·.exitcode)) = some (-9) ∧
    (r.output.map (·.files)) = some [("r.bin", [1])] := by
  decide

def demoScript : List Outcome :=
  [ { effects := [.write "r.bin" [65, 0, 255]], out := [104, 105, 10], err := [101, 10], code := 0 },
    { effects := [.copy "in.txt" "copy.txt"], out := [], err := [], code := 3 },
    { effects := [.write "never.txt" [1]], out := [110], err := [], code := 0 } ]

example : Clean (jobCmds demoInput demoScript) ∧ jobCmds demoInput demoScript ≠ [] := by
  refine ⟨⟨by decide, ?_⟩, by decide⟩
  decide

example :
    let r := runJob .repaired (fun _ => "H") [] ["keep"] "j__x" demoInput demoScript
    r.ran.length = 2 ∧ r.exit = 1 ∧ r.scratchAfter = ["keep"] ∧
    r.output = some { stdouts := [("a", [104, 105, 10])], stderrs := [("a", [101, 10])], exitcode := 3,
                      files := [("copy.txt", [116, 10]), ("r.bin", [65, 0, 255])], inputHash := "H" } := by
  decide

def d34Input : JobInput :=
  { jid := "j", commands := [("sh -c true", some "a")], files := [], returnFiles := some ["missing.txt"], envars := [] }
def d34Script : List Outcome := [{ effects := [], out := [], err := [], code := 0 }]

/-- D34 (the pinned commit): a requested file is missing, the process exits 1, but the JobOutput records 0. -/
theorem exit_shipped_counterexample :
    (runJob .asShipped (fun _ => "H") [] [] "j__x" d34Input d34Script).exit = 1 ∧
    ((runJob .asShipped (fun _ => "H") [] [] "j__x" d34Input d34Script).output.map (·.exitcode)) = some 0 := by
  decide

/-- the pinned commit dies on the dataclass default `return_files=None`: no JobOutput at all. -/
theorem return_files_none_shipped_counterexample :
    (runJob .asShipped (fun _ => "H") [] [] "j__x" { d34Input with returnFiles := none } d34Script).output = none ∧
    ((runJob .repaired (fun _ => "H") [] [] "j__x" { d34Input with returnFiles := none } d34Script).output.map (·.exitcode)) = some 0 := by
  decide

end Molli.Props.C17
