/-
Lemmas for the session transition system (C04): shapes of programs, phases of a session, how one
scheduling decision changes the system.  Core Lean only.
-/
import Molli.Model.Sessions
namespace Molli.Lemmas.Sessions
open Molli.Model.Ukv Molli.Model.Sessions

/-! ### program shapes -/

/-- every `writeBegin` is immediately followed by its `writeEnd`; no stray `writeEnd` -/
def paired : List Act → Bool
  | [] => true
  | .writeBegin :: .writeEnd :: t => paired t
  | .writeBegin :: _ => false
  | .writeEnd :: _ => false
  | _ :: t => paired t

def Act.isWrite : Act → Bool
  | .writeBegin => true
  | .writeEnd => true
  | .enqueue _ => true
  | _ => false

/-- The part of a program between `acquire w` and `release`. -/
def midOK (w : Bool) (mid : List Act) : Bool :=
  mid.all (fun a => !a.isLock) && paired mid && (w || mid.all (fun a => !Act.isWrite a))

/-- A whole session program: `acquire w`, a lock-free middle, `release`. -/
def goodProg : List Act → Bool
  | .acquire w :: rest =>
    match rest.getLast? with
    | some .release => midOK w rest.dropLast
    | _ => false
  | _ => false

theorem dropLast_getLast? {α} {l : List α} {a : α} (h : l.getLast? = some a) : l.dropLast ++ [a] = l := by
  have hne : l ≠ [] := by intro he; subst he; simp at h
  rw [List.getLast?_eq_some_getLast hne] at h
  have := List.dropLast_concat_getLast hne
  rw [Option.some.inj h] at this; exact this

theorem goodProg_shape {p : List Act} (h : goodProg p = true) :
    ∃ w mid, p = .acquire w :: (mid ++ [.release]) ∧ midOK w mid = true := by
  match p, h with
  | .acquire w :: rest, h =>
    simp only [goodProg] at h
    cases hl : rest.getLast? with
    | none => simp [hl] at h
    | some a =>
      cases a <;> simp [hl] at h
      refine ⟨w, rest.dropLast, ?_, h⟩
      rw [dropLast_getLast? hl]

theorem midOK_cons {w : Bool} {a : Act} {t : List Act} (h : midOK w (a :: t) = true)
    (ha : a ≠ .writeBegin) : midOK w t = true ∧ a.isLock = false ∧ (w = false → Act.isWrite a = false) ∧ a ≠ .writeEnd := by
  simp only [midOK, List.all_cons, Bool.and_eq_true, Bool.not_eq_true', Bool.or_eq_true] at h ⊢
  obtain ⟨⟨⟨hl, hall⟩, hp⟩, hw⟩ := h
  have hne : a ≠ .writeEnd := by
    intro he; subst he; simp [paired] at hp
  have hp' : paired t = true := by
    cases a <;> simp_all [paired]
  refine ⟨⟨⟨hall, hp'⟩, ?_⟩, hl, ?_, hne⟩
  · rcases hw with hw | hw
    · exact Or.inl hw
    · exact Or.inr hw.2
  · intro hwf
    rcases hw with hw | hw
    · rw [hwf] at hw; cases hw
    · exact hw.1

theorem midOK_writeBegin {w : Bool} {t : List Act} (h : midOK w (.writeBegin :: t) = true) :
    w = true ∧ ∃ t', t = .writeEnd :: t' ∧ midOK true t' = true := by
  simp only [midOK, List.all_cons, Bool.and_eq_true, Bool.not_eq_true', Bool.or_eq_true] at h
  obtain ⟨⟨⟨_, hall⟩, hp⟩, hw⟩ := h
  have hwt : w = true := by
    rcases hw with hw | hw
    · exact hw
    · simp [Act.isWrite] at hw
  match t, hp, hall with
  | .writeEnd :: t', hp, hall =>
    refine ⟨hwt, t', rfl, ?_⟩
    simp only [paired] at hp
    simp only [List.all_cons, Bool.and_eq_true] at hall
    simp [midOK, hall.2, hp]
  | [], hp, _ => simp [paired] at hp
  | .acquire _ :: _, hp, _ => simp [paired] at hp
  | .release :: _, hp, _ => simp [paired] at hp
  | .openFile :: _, hp, _ => simp [paired] at hp
  | .closeFile :: _, hp, _ => simp [paired] at hp
  | .updateKeys :: _, hp, _ => simp [paired] at hp
  | .enqueue _ :: _, hp, _ => simp [paired] at hp
  | .readAll :: _, hp, _ => simp [paired] at hp
  | .writeBegin :: _, hp, _ => simp [paired] at hp

end Molli.Lemmas.Sessions

namespace Molli.Lemmas.Sessions
open Molli.Model.Ukv Molli.Model.Sessions

/-! ### phases of a session -/

/-- Where a session is in its program. -/
inductive Phase (x : Sess) : Prop
  | pre : x.inCS = false → goodProg x.prog = true → Phase x
  | cs (mid : List Act) : x.inCS = true → x.prog = mid ++ [.release] → midOK x.writer mid = true → Phase x
  | mw (mid : List Act) : x.inCS = true → x.writer = true → x.prog = .writeEnd :: (mid ++ [.release]) →
      midOK true mid = true → Phase x
  | done : x.inCS = false → x.prog = [] → Phase x

/-- The system invariant. -/
structure SInv (s : Sys) : Prop where
  phase : ∀ i, i < s.n → Phase (s.sess i)
  excl : ∀ i j, i < s.n → j < s.n → i ≠ j → (s.sess i).inCS = true → (s.sess j).inCS = true →
           (s.sess i).writer = false ∧ (s.sess j).writer = false
  torn : s.torn = true → ∃ i, i < s.n ∧ (s.sess i).inCS = true ∧ (s.sess i).writer = true ∧
           ∃ t, (s.sess i).prog = .writeEnd :: t
  ghost : ∀ i, i < s.n → (s.sess i).enq = (s.sess i).written ++ (s.sess i).queue
  infile : ∀ i, i < s.n → ∀ kv ∈ (s.sess i).written, kv ∈ s.file
  clean : ∀ i, i < s.n → (s.sess i).sawTorn = false

@[simp] theorem setSess_same (s : Sys) (i : Nat) (x : Sess) : (setSess s i x).sess i = x := by simp [setSess]
theorem setSess_other (s : Sys) (i j : Nat) (x : Sess) (h : j ≠ i) : (setSess s i x).sess j = s.sess j := by
  simp [setSess, h]
@[simp] theorem setSess_n (s : Sys) (i : Nat) (x : Sess) : (setSess s i x).n = s.n := rfl
@[simp] theorem setSess_file (s : Sys) (i : Nat) (x : Sess) : (setSess s i x).file = s.file := rfl
@[simp] theorem setSess_torn (s : Sys) (i : Nat) (x : Sess) : (setSess s i x).torn = s.torn := rfl

theorem anyInCS_false {s : Sys} {i : Nat} (h : anyInCS s i = false) :
    ∀ j, j < s.n → j ≠ i → (s.sess j).inCS = false := by
  intro j hj hne
  simp only [anyInCS, List.any_eq_false, List.mem_range] at h
  have := h j hj
  simp only [bne_iff_ne, ne_eq, hne, not_false_eq_true, decide_true, Bool.true_and, Bool.and_eq_true, not_and] at this
  cases hc : (s.sess j).inCS <;> simp_all

theorem writerInCS_false {s : Sys} {i : Nat} (h : writerInCS s i = false) :
    ∀ j, j < s.n → j ≠ i → (s.sess j).inCS = true → (s.sess j).writer = false := by
  intro j hj hne hc
  simp only [writerInCS, List.any_eq_false, List.mem_range] at h
  have := h j hj
  cases hw : (s.sess j).writer <;> simp_all

end Molli.Lemmas.Sessions

namespace Molli.Lemmas.Sessions
open Molli.Model.Ukv Molli.Model.Sessions

/-- Re-establishing the invariant after session `i` was replaced by `x'` and the file/torn flag updated. -/
theorem sinv_update {s : Sys} (hs : SInv s) (i : Nat) (hi : i < s.n) (x' : Sess) (file' : List KV) (torn' : Bool)
    (hphase : Phase x')
    (hexcl : x'.inCS = true → ∀ j, j < s.n → j ≠ i → (s.sess j).inCS = true →
        x'.writer = false ∧ (s.sess j).writer = false)
    (htorn : torn' = true →
        (x'.inCS = true ∧ x'.writer = true ∧ ∃ t, x'.prog = .writeEnd :: t) ∨
        (∃ j, j ≠ i ∧ j < s.n ∧ (s.sess j).inCS = true ∧ (s.sess j).writer = true ∧ ∃ t, (s.sess j).prog = .writeEnd :: t))
    (hghost : x'.enq = x'.written ++ x'.queue)
    (hfile : ∀ kv ∈ s.file, kv ∈ file')
    (hin : ∀ kv ∈ x'.written, kv ∈ file')
    (hclean : x'.sawTorn = false) :
    SInv (setSess { s with file := file', torn := torn' } i x') := by
  refine ⟨?_, ?_, ?_, ?_, ?_, ?_⟩
  · intro j hj
    by_cases hji : j = i
    · subst hji; simpa using hphase
    · rw [setSess_other _ _ _ _ hji]; exact hs.phase j hj
  · intro a b ha hb hab hca hcb
    simp only [setSess_n] at ha hb
    by_cases hai : a = i
    · subst hai
      have hbi : b ≠ a := fun h => hab h.symm
      rw [setSess_same] at hca ⊢
      rw [setSess_other _ _ _ _ hbi] at hcb ⊢
      exact hexcl hca b hb hbi hcb
    · by_cases hbi : b = i
      · subst hbi
        rw [setSess_same] at hcb ⊢
        rw [setSess_other _ _ _ _ hai] at hca ⊢
        exact (hexcl hcb a ha hai hca).symm
      · rw [setSess_other _ _ _ _ hai] at hca ⊢
        rw [setSess_other _ _ _ _ hbi] at hcb ⊢
        exact hs.excl a b ha hb hab hca hcb
  · intro ht
    simp only [setSess_torn] at ht
    rcases htorn ht with ⟨h1, h2, h3⟩ | ⟨j, hji, hj, h1, h2, h3⟩
    · exact ⟨i, hi, by simpa using h1, by simpa using h2, by simpa using h3⟩
    · exact ⟨j, hj, by rw [setSess_other _ _ _ _ hji]; exact h1, by rw [setSess_other _ _ _ _ hji]; exact h2,
        by rw [setSess_other _ _ _ _ hji]; exact h3⟩
  · intro j hj
    by_cases hji : j = i
    · subst hji; simpa using hghost
    · rw [setSess_other _ _ _ _ hji]; exact hs.ghost j hj
  · intro j hj kv hkv
    by_cases hji : j = i
    · subst hji; rw [setSess_same] at hkv; exact hin kv hkv
    · rw [setSess_other _ _ _ _ hji] at hkv; exact hfile kv (hs.infile j hj kv hkv)
  · intro j hj
    by_cases hji : j = i
    · subst hji; simpa using hclean
    · rw [setSess_other _ _ _ _ hji]; exact hs.clean j hj

/-- the torn witness of the old state survives a step of session `i` whose head action is not `writeEnd` -/
theorem torn_other {s : Sys} (hs : SInv s) (i : Nat) (a : Act) (rest : List Act)
    (hp : (s.sess i).prog = a :: rest) (ha : a ≠ .writeEnd) (ht : s.torn = true) :
    ∃ j, j ≠ i ∧ j < s.n ∧ (s.sess j).inCS = true ∧ (s.sess j).writer = true ∧ ∃ t, (s.sess j).prog = .writeEnd :: t := by
  obtain ⟨k, hk, h1, h2, t, h3⟩ := hs.torn ht
  refine ⟨k, ?_, hk, h1, h2, t, h3⟩
  intro hki; subst hki
  rw [hp] at h3; cases h3; exact ha rfl

end Molli.Lemmas.Sessions

namespace Molli.Lemmas.Sessions
open Molli.Model.Ukv Molli.Model.Sessions

theorem midOK_no_lock_head {w : Bool} {a : Act} {t : List Act} (h : midOK w (a :: t) = true) : a.isLock = false := by
  simp only [midOK, List.all_cons, Bool.and_eq_true, Bool.not_eq_true'] at h
  exact h.1.1.1

theorem phase_acquire {x : Sess} {w : Bool} {rest : List Act} (hp : Phase x) (h : x.prog = .acquire w :: rest) :
    x.inCS = false ∧ ∃ mid, rest = mid ++ [.release] ∧ midOK w mid = true := by
  cases hp with
  | pre hc hg =>
    obtain ⟨w', mid, he, hm⟩ := goodProg_shape hg
    rw [h] at he
    cases he
    exact ⟨hc, mid, rfl, hm⟩
  | cs mid hc he hm =>
    rw [h] at he
    cases mid with
    | nil => cases he
    | cons a t =>
      cases he
      have := midOK_no_lock_head hm
      simp [Act.isLock] at this
  | mw mid _ _ he _ => rw [h] at he; cases he
  | done _ he => rw [h] at he; cases he

theorem phase_release {x : Sess} {rest : List Act} (hp : Phase x) (h : x.prog = .release :: rest) :
    x.inCS = true ∧ rest = [] := by
  cases hp with
  | pre hc hg =>
    obtain ⟨w', mid, he, hm⟩ := goodProg_shape hg
    rw [h] at he; cases he
  | cs mid hc he hm =>
    rw [h] at he
    cases mid with
    | nil => cases he; exact ⟨hc, rfl⟩
    | cons a t =>
      cases he
      have := midOK_no_lock_head hm
      simp [Act.isLock] at this
  | mw mid _ _ he _ => rw [h] at he; cases he
  | done _ he => rw [h] at he; cases he

theorem phase_writeEnd {x : Sess} {rest : List Act} (hp : Phase x) (h : x.prog = .writeEnd :: rest) :
    x.inCS = true ∧ x.writer = true ∧ ∃ mid, rest = mid ++ [.release] ∧ midOK true mid = true := by
  cases hp with
  | pre hc hg =>
    obtain ⟨w', mid, he, hm⟩ := goodProg_shape hg
    rw [h] at he; cases he
  | cs mid hc he hm =>
    rw [h] at he
    cases mid with
    | nil => cases he
    | cons a t =>
      cases he
      simp [midOK, paired] at hm
  | mw mid hc hw he hm => rw [h] at he; cases he; exact ⟨hc, hw, mid, rfl, hm⟩
  | done _ he => rw [h] at he; cases he

theorem phase_writeBegin {x : Sess} {rest : List Act} (hp : Phase x) (h : x.prog = .writeBegin :: rest) :
    x.inCS = true ∧ x.writer = true ∧ ∃ mid, rest = .writeEnd :: (mid ++ [.release]) ∧ midOK true mid = true := by
  cases hp with
  | pre hc hg =>
    obtain ⟨w', mid, he, hm⟩ := goodProg_shape hg
    rw [h] at he; cases he
  | cs mid hc he hm =>
    rw [h] at he
    cases mid with
    | nil => cases he
    | cons a t =>
      cases he
      obtain ⟨hw, t', ht, hm'⟩ := midOK_writeBegin hm
      subst ht
      exact ⟨hc, hw, t', rfl, hm'⟩
  | mw mid _ _ he _ => rw [h] at he; cases he
  | done _ he => rw [h] at he; cases he

/-- any other action: the session is inside its critical section, and stays there -/
theorem phase_other {x : Sess} {a : Act} {rest : List Act} (hp : Phase x) (h : x.prog = a :: rest)
    (h1 : a.isLock = false) (h2 : a ≠ .writeBegin) (h3 : a ≠ .writeEnd) :
    x.inCS = true ∧ (x.writer = false → Act.isWrite a = false) ∧
      ∃ mid, rest = mid ++ [.release] ∧ midOK x.writer mid = true := by
  cases hp with
  | pre hc hg =>
    obtain ⟨w', mid, he, hm⟩ := goodProg_shape hg
    rw [h] at he; cases he; simp [Act.isLock] at h1
  | cs mid hc he hm =>
    rw [h] at he
    cases mid with
    | nil => cases he; simp [Act.isLock] at h1
    | cons a' t =>
      cases he
      obtain ⟨hm', _, hw, _⟩ := midOK_cons hm h2
      exact ⟨hc, hw, t, rfl, hm'⟩
  | mw mid _ _ he _ => rw [h] at he; cases he; exact absurd rfl h3
  | done _ he => rw [h] at he; cases he

end Molli.Lemmas.Sessions

namespace Molli.Lemmas.Sessions
open Molli.Model.Ukv Molli.Model.Sessions

theorem sys_eta (s : Sys) : ({ s with file := s.file, torn := s.torn } : Sys) = s := rfl

/-- **Invariant step**: any scheduling decision preserves the system invariant. -/
theorem inv_tick (s : Sys) (i : Nat) (hs : SInv s) : SInv (tick s i) := by
  unfold tick
  by_cases hen : i < s.n ∧ enabled s i = true
  · rw [if_pos hen]
    obtain ⟨hi, he⟩ := hen
    have hph := hs.phase i hi
    have hgh := hs.ghost i hi
    have hcl := hs.clean i hi
    have hinf := hs.infile i hi
    cases hp : (s.sess i).prog with
    | nil => simp only [hp]; exact hs
    | cons a rest =>
      simp only [hp]
      cases a with
      | acquire w =>
        obtain ⟨hc, mid, hr, hm⟩ := phase_acquire hph hp
        have := sinv_update hs i hi { (s.sess i) with prog := rest, inCS := true, writer := w } s.file s.torn
          (.cs mid rfl hr hm)
          (by
            intro _ j hj hji hcj
            simp only [enabled, hp] at he
            cases w with
            | true =>
              have := anyInCS_false (by simpa using he) j hj hji
              rw [this] at hcj; cases hcj
            | false =>
              exact ⟨rfl, writerInCS_false (by simpa using he) j hj hji hcj⟩)
          (fun ht => Or.inr (torn_other hs i _ rest hp (by simp) ht))
          hgh (fun _ h => h) hinf hcl
        exact this
      | release =>
        obtain ⟨hc, hr⟩ := phase_release hph hp
        exact sinv_update hs i hi { (s.sess i) with prog := rest, inCS := false } s.file s.torn
          (.done rfl hr) (fun h => by cases h)
          (fun ht => Or.inr (torn_other hs i _ rest hp (by simp) ht))
          hgh (fun _ h => h) hinf hcl
      | openFile =>
        obtain ⟨hc, _, mid, hr, hm⟩ := phase_other hph hp rfl (by simp) (by simp)
        exact sinv_update hs i hi { (s.sess i) with prog := rest, fileOpen := true } s.file s.torn
          (.cs mid hc hr hm) (fun _ j hj hji hcj => hs.excl i j hi hj (Ne.symm hji) hc hcj)
          (fun ht => Or.inr (torn_other hs i _ rest hp (by simp) ht))
          hgh (fun _ h => h) hinf hcl
      | closeFile =>
        obtain ⟨hc, _, mid, hr, hm⟩ := phase_other hph hp rfl (by simp) (by simp)
        exact sinv_update hs i hi { (s.sess i) with prog := rest, fileOpen := false } s.file s.torn
          (.cs mid hc hr hm) (fun _ j hj hji hcj => hs.excl i j hi hj (Ne.symm hji) hc hcj)
          (fun ht => Or.inr (torn_other hs i _ rest hp (by simp) ht))
          hgh (fun _ h => h) hinf hcl
      | updateKeys =>
        obtain ⟨hc, _, mid, hr, hm⟩ := phase_other hph hp rfl (by simp) (by simp)
        exact sinv_update hs i hi { (s.sess i) with prog := rest } s.file s.torn
          (.cs mid hc hr hm) (fun _ j hj hji hcj => hs.excl i j hi hj (Ne.symm hji) hc hcj)
          (fun ht => Or.inr (torn_other hs i _ rest hp (by simp) ht))
          hgh (fun _ h => h) hinf hcl
      | enqueue kv =>
        obtain ⟨hc, _, mid, hr, hm⟩ := phase_other hph hp rfl (by simp) (by simp)
        exact sinv_update hs i hi
          { (s.sess i) with prog := rest, queue := (s.sess i).queue ++ [kv], enq := (s.sess i).enq ++ [kv] } s.file s.torn
          (.cs mid hc hr hm) (fun _ j hj hji hcj => hs.excl i j hi hj (Ne.symm hji) hc hcj)
          (fun ht => Or.inr (torn_other hs i _ rest hp (by simp) ht))
          (by simp [hgh, List.append_assoc]) (fun _ h => h) hinf hcl
      | readAll =>
        obtain ⟨hc, _, mid, hr, hm⟩ := phase_other hph hp rfl (by simp) (by simp)
        have hnt : s.torn = false := by
          cases ht : s.torn with
          | false => rfl
          | true =>
            obtain ⟨j, hji, hj, h1, h2, _⟩ := torn_other hs i _ rest hp (by simp) ht
            have := (hs.excl i j hi hj (Ne.symm hji) hc h1).2
            rw [h2] at this; cases this
        exact sinv_update hs i hi
          { (s.sess i) with prog := rest, seen := (s.sess i).seen ++ [s.file], sawTorn := (s.sess i).sawTorn || s.torn }
          s.file s.torn
          (.cs mid hc hr hm) (fun _ j hj hji hcj => hs.excl i j hi hj (Ne.symm hji) hc hcj)
          (fun ht => Or.inr (torn_other hs i _ rest hp (by simp) ht))
          hgh (fun _ h => h) hinf (by simp [hcl, hnt])
      | writeBegin =>
        obtain ⟨hc, hw, mid, hr, hm⟩ := phase_writeBegin hph hp
        exact sinv_update hs i hi { (s.sess i) with prog := rest } s.file true
          (.mw mid hc hw hr hm) (fun _ j hj hji hcj => hs.excl i j hi hj (Ne.symm hji) hc hcj)
          (fun _ => Or.inl ⟨hc, hw, _, hr⟩)
          hgh (fun _ h => h) hinf hcl
      | writeEnd =>
        obtain ⟨hc, hw, mid, hr, hm⟩ := phase_writeEnd hph hp
        cases hq : (s.sess i).queue with
        | nil =>
          simp only [hq]
          exact sinv_update hs i hi { (s.sess i) with prog := rest, queue := [] } s.file false
            (.cs mid hc hr (by rw [hw]; exact hm)) (fun _ j hj hji hcj => hs.excl i j hi hj (Ne.symm hji) hc hcj)
            (fun h => by cases h)
            (by simp [hgh, hq]) (fun _ h => h) hinf hcl
        | cons kv q =>
          simp only [hq]
          exact sinv_update hs i hi
            { (s.sess i) with prog := rest, queue := q, written := (s.sess i).written ++ [kv] } (s.file ++ [kv]) false
            (.cs mid hc hr (by rw [hw]; exact hm)) (fun _ j hj hji hcj => hs.excl i j hi hj (Ne.symm hji) hc hcj)
            (fun h => by cases h)
            (by simp [hgh, hq, List.append_assoc])
            (fun _ h => List.mem_append_left _ h)
            (by
              intro kv' hkv'
              rcases List.mem_append.mp hkv' with h | h
              · exact List.mem_append_left _ (hinf kv' h)
              · exact List.mem_append_right _ h)
            hcl
  · rw [if_neg hen]; exact hs

end Molli.Lemmas.Sessions

namespace Molli.Lemmas.Sessions
open Molli.Model.Ukv Molli.Model.Sessions

/-! ### a well-bracketed skeleton expands to good programs -/

theorem paired_append {a b : List Act} (h : paired a = true) : paired (a ++ b) = paired b := by
  fun_induction paired a with
  | case1 => rfl
  | case2 t ih => simp only [List.cons_append, paired]; exact ih h
  | case3 t _ => simp [paired] at h
  | case4 t => simp [paired] at h
  | case5 x t h1 h2 h3 ih =>
    have : paired ((x :: t) ++ b) = paired (t ++ b) := by
      cases x <;> simp_all [paired]
    rw [this]; apply ih
    cases x <;> simp_all [paired]

theorem paired_flatMap {α} (l : List α) (f : α → List Act) (h : ∀ x ∈ l, paired (f x) = true) :
    paired (l.flatMap f) = true := by
  induction l with
  | nil => rfl
  | cons x t ih =>
    rw [List.flatMap_cons, paired_append (h x (by simp))]
    exact ih (fun y hy => h y (by simp [hy]))

theorem paired_enqueues (ps : List KV) : paired (ps.map Act.enqueue) = true := by
  induction ps with
  | nil => rfl
  | cons p t ih => simpa [paired] using ih

theorem paired_writes (m : Nat) : paired (List.replicate m [Act.writeBegin, Act.writeEnd]).flatten = true := by
  induction m with
  | zero => rfl
  | succ m ih => simpa [List.replicate_succ, paired] using ih

theorem expandStep_paired (p : Plan) (st : Step) : paired (expandStep p st) = true := by
  cases st <;> simp only [expandStep]
  · rfl
  · split <;> rfl
  · split <;> rfl
  · cases p.kind with
    | reading => simp only []; split <;> rfl
    | writing => exact paired_enqueues _
  · split
    · rfl
    · exact paired_writes _
  · split <;> rfl
  · rfl

theorem expandStep_nolock (p : Plan) (st : Step) (h1 : st ≠ .acquire) (h2 : st ≠ .release) :
    (expandStep p st).all (fun a => !a.isLock) = true := by
  cases st <;> simp only [expandStep]
  · exact absurd rfl h1
  · split <;> simp [Act.isLock]
  · split <;> simp [Act.isLock]
  · cases p.kind with
    | reading => simp only []; split <;> simp [Act.isLock]
    | writing => simp [Act.isLock]
  · split
    · simp
    · simp only [List.all_eq_true, List.mem_flatten, List.mem_replicate]
      intro a ⟨l, ⟨_, hl⟩, ha⟩
      subst hl
      simp only [List.mem_cons, List.not_mem_nil, or_false] at ha
      rcases ha with rfl | rfl <;> rfl
  · split <;> simp [Act.isLock]
  · exact absurd rfl h2

theorem expandStep_nowrite (p : Plan) (hk : p.kind = .reading) (st : Step) :
    (expandStep p st).all (fun a => !Act.isWrite a) = true := by
  cases st <;> simp only [expandStep, hk]
  · simp [Act.isWrite]
  · split <;> simp [Act.isWrite]
  · split <;> simp [Act.isWrite]
  · split <;> simp [Act.isWrite]
  · simp
  · split <;> simp [Act.isWrite]
  · simp [Act.isWrite]

theorem all_flatMap {α β} (l : List α) (f : α → List β) (q : β → Bool) (h : ∀ x ∈ l, (f x).all q = true) :
    (l.flatMap f).all q = true := by
  simp only [List.all_eq_true, List.mem_flatMap]
  intro b ⟨a, ha, hb⟩
  exact List.all_eq_true.mp (h a ha) b hb

/-- A session program obtained from a well-bracketed trace is a good program. -/
theorem program_good_of_trace (p : Plan) (tr : List Step) (h : goodTrace tr = true) :
    goodProg (tr.flatMap (expandStep p)) = true := by
  match tr, h with
  | s :: rest, h =>
    simp only [goodTrace, Bool.and_eq_true, beq_iff_eq] at h
    obtain ⟨⟨hs, hl⟩, hall⟩ := h
    subst hs
    have hrest := dropLast_getLast? hl
    have hprog : (Step.acquire :: rest).flatMap (expandStep p) =
        Act.acquire (p.kind == .writing) :: ((rest.dropLast.flatMap (expandStep p)) ++ [Act.release]) := by
      rw [List.flatMap_cons, ← hrest, List.flatMap_append]
      simp [expandStep]
    rw [hprog]
    simp only [goodProg, List.getLast?_append, List.getLast?_singleton, Option.some_or, List.dropLast_concat]
    have hsteps : ∀ x ∈ rest.dropLast, x ≠ Step.acquire ∧ x ≠ Step.release := by
      intro x hx
      have := List.all_eq_true.mp hall x hx
      simpa using this
    simp only [midOK, Bool.and_eq_true, Bool.or_eq_true]
    refine ⟨⟨?_, ?_⟩, ?_⟩
    · exact all_flatMap _ _ _ (fun x hx => expandStep_nolock p x (hsteps x hx).1 (hsteps x hx).2)
    · exact paired_flatMap _ _ (fun x _ => expandStep_paired p x)
    · cases hk : p.kind with
      | writing => left; rfl
      | reading => right; exact all_flatMap _ _ _ (fun x _ => expandStep_nowrite p hk x)

end Molli.Lemmas.Sessions
