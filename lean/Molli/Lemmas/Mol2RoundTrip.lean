/-
What `dump_mol2` writes is read back by `read_mol2` / `yield_from_mol2` (C07): token level (blocks) and
value level (molecules).  Statements about `Molli.Model.Mol2`, parametric in the typing tables; the table
facts enter as the Boolean obligations of the generated module.
-/
import Molli.Lemmas.Mol2Reader
import Molli.Lemmas.Text
import Molli.Lemmas.Num
import Molli.Lemmas.Mol2Types
namespace Molli.Lemmas.Mol2RoundTrip
open Molli.Model.Text Molli.Model.Mol2Types Molli.Model.Mol2
open Molli.Lemmas.Text Molli.Lemmas.Num Molli.Lemmas.Mol2Types Molli.Lemmas.Mol2Reader

/-! ### lines made of tokens separated by whitespace -/

/-- `w₁ t₁ w₂ t₂ … trail`: every `wᵢ` a non-empty run of whitespace -/
def segLine : List (Str × Str) → Str → Str
  | [], trail => trail
  | (w, t) :: r, trail => w ++ (t ++ segLine r trail)

theorem pySplit_tok_segLine (r : List (Str × Str)) (trail : Str) (htr : Ws trail)
    (hr : ∀ p ∈ r, Ws p.1 ∧ p.1 ≠ [] ∧ Tok p.2) :
    ∀ t, Tok t → pySplit (t ++ segLine r trail) = t :: r.map (·.2) := by
  induction r with
  | nil =>
    intro t ht
    simp only [segLine, List.map_nil]
    cases trail with
    | nil => rw [List.append_nil]; exact pySplit_tok t ht
    | cons c tr =>
      have hc : isWs c = true := htr c (by simp)
      rw [pySplit_tok_cons t c tr ht hc, pySplit_ws tr (fun x hx => htr x (by simp [hx]))]
  | cons p r ih =>
    intro t ht
    obtain ⟨w, t2⟩ := p
    have hp := hr (w, t2) (by simp)
    simp only [segLine, List.map_cons]
    cases w with
    | nil => exact absurd rfl hp.2.1
    | cons c w' =>
      have hc : isWs c = true := hp.1 c (by simp)
      rw [List.cons_append, pySplit_tok_cons t c _ ht hc,
        pySplit_ws_append w' _ (fun x hx => hp.1 x (by simp [hx]))]
      rw [ih (fun q hq => hr q (by simp [hq])) t2 hp.2.2]

theorem ws_space : isWs ' ' = true := by decide

theorem ws_sp_replicate (a b : Nat) : Ws (List.replicate a ' ' ++ ' ' :: List.replicate b ' ') := by
  intro c hc
  simp only [List.mem_append, List.mem_cons, List.mem_replicate] at hc
  rcases hc with ⟨_, rfl⟩ | rfl | ⟨_, rfl⟩ <;> exact ws_space

theorem ws_singleton_sp : Ws [' '] := by intro c hc; simp only [List.mem_singleton] at hc; subst hc; exact ws_space

theorem ws_sp_cons_replicate (b : Nat) : Ws (' ' :: List.replicate b ' ') := ws_sp_replicate 0 b

theorem ws_replicate_sp (a : Nat) : Ws (List.replicate a ' ' ++ [' ']) := ws_sp_replicate a 0

section lines
variable (tt : TypeTable) (bt : BondTable)

theorem lit_unl : " 1 UNL1 ".toList = [' ', '1', ' ', 'U', 'N', 'L', '1', ' '] := by decide

/-- the fields of a written atom line -/
def atomFields (k : Kind) (i : Nat) (a : AtomV) : List Str :=
  [natStr (i + 1), labelTok tt a, fmtFixed 6 a.x, fmtFixed 6 a.y, fmtFixed 6 a.z, typeTok tt a,
   ['1'], ['U', 'N', 'L', '1'], chargeTok k a]

def bondFields (i : Nat) (b : BondV) : List Str :=
  [natStr (i + 1), natStr (b.a1 + 1), natStr (b.a2 + 1), bt.emitStr b.btype]

theorem chargeTok_tok (k : Kind) (a : AtomV) : Tok (chargeTok k a) := by
  rcases k with _ | _
  · exact fmtFixed_tok 3 _
  · show Tok "0.0".toList; decide

theorem pySplit_atomLine (k : Kind) (i : Nat) (a : AtomV) (hl : Tok (labelTok tt a)) (ht : Tok (typeTok tt a)) :
    pySplit (atomLine tt k i a) = atomFields tt k i a := by
  have hform : atomLine tt k i a =
      List.replicate (6 - (natStr (i + 1)).length) ' ' ++ (natStr (i + 1) ++ segLine
        [([' '], labelTok tt a),
         (List.replicate (3 - (labelTok tt a).length) ' ' ++ ' ' :: List.replicate (12 - (fmtFixed 6 a.x).length) ' ', fmtFixed 6 a.x),
         (' ' :: List.replicate (12 - (fmtFixed 6 a.y).length) ' ', fmtFixed 6 a.y),
         (' ' :: List.replicate (12 - (fmtFixed 6 a.z).length) ' ', fmtFixed 6 a.z),
         ([' '], typeTok tt a),
         (List.replicate (10 - (typeTok tt a).length) ' ' ++ [' '], ['1']),
         ([' '], ['U', 'N', 'L', '1']),
         ([' '], chargeTok k a)] []) := by
    simp only [atomLine, padLeft, padRight, sp, segLine, lit_unl, List.append_assoc, List.cons_append,
      List.nil_append, List.append_nil]
  rw [hform, pySplit_ws_append _ _ (ws_replicate _)]
  rw [pySplit_tok_segLine _ _ (by intro c hc; simp at hc) _ _ (natStr_tok _)]
  · rfl
  · intro p hp
    simp only [List.mem_cons, List.not_mem_nil, or_false] at hp
    rcases hp with rfl | rfl | rfl | rfl | rfl | rfl | rfl | rfl
    · exact ⟨ws_singleton_sp, by simp, hl⟩
    · exact ⟨ws_sp_replicate _ _, by simp, fmtFixed_tok 6 _⟩
    · exact ⟨ws_sp_cons_replicate _, by simp, fmtFixed_tok 6 _⟩
    · exact ⟨ws_sp_cons_replicate _, by simp, fmtFixed_tok 6 _⟩
    · exact ⟨ws_singleton_sp, by simp, ht⟩
    · exact ⟨ws_replicate_sp _, by simp, (by decide : Tok ['1'])⟩
    · exact ⟨ws_singleton_sp, by simp, (by decide : Tok ['U', 'N', 'L', '1'])⟩
    · exact ⟨ws_singleton_sp, by simp, chargeTok_tok k a⟩

theorem atomRec_atomLine (k : Kind) (i : Nat) (a : AtomV) (hl : Tok (labelTok tt a)) (ht : Tok (typeTok tt a)) :
    atomRec (pyStrip (atomLine tt k i a)) = .ok ⟨atomFields tt k i a, []⟩ := by
  have hs := pySplit_atomLine tt k i a hl ht
  simp only [atomRec]
  rw [pySplitMax_pyStrip 10 _ (by rw [hs]; simp [atomFields]), hs]
  simp [atomFields]

theorem pySplit_bondLine (k : Kind) (i : Nat) (b : BondV) (ht : Tok (bt.emitStr b.btype)) :
    pySplit (bondLine bt k i b) = bondFields bt i b := by
  have hform : ∃ w, bondLine bt k i b =
      List.replicate (6 - (natStr (i + 1)).length) ' ' ++ (natStr (i + 1) ++ segLine
        [(' ' :: List.replicate (6 - (natStr (b.a1 + 1)).length) ' ', natStr (b.a1 + 1)),
         (' ' :: List.replicate (6 - (natStr (b.a2 + 1)).length) ' ', natStr (b.a2 + 1)),
         (' ' :: List.replicate (w - (bt.emitStr b.btype).length) ' ',
            bt.emitStr b.btype)] []) := by
    refine ⟨(match k with | .molecule => 3 | .structure => 10), ?_⟩
    rcases k with _ | _ <;>
    simp only [bondLine, padLeft, sp, segLine, List.append_assoc, List.cons_append,
      List.nil_append, List.append_nil]
  obtain ⟨w, hform⟩ := hform
  rw [hform, pySplit_ws_append _ _ (ws_replicate _)]
  rw [pySplit_tok_segLine _ _ (by intro c hc; simp at hc) _ _ (natStr_tok _)]
  · rfl
  · intro p hp
    simp only [List.mem_cons, List.not_mem_nil, or_false] at hp
    rcases hp with rfl | rfl | rfl
    · exact ⟨ws_sp_cons_replicate _, by simp, natStr_tok (b.a1 + 1)⟩
    · exact ⟨ws_sp_cons_replicate _, by simp, natStr_tok (b.a2 + 1)⟩
    · exact ⟨ws_sp_cons_replicate _, by simp, ht⟩

theorem bondRec_bondLine (k : Kind) (i : Nat) (b : BondV) (ht : Tok (bt.emitStr b.btype)) :
    bondRec (pyStrip (bondLine bt k i b)) = .ok ⟨bondFields bt i b, []⟩ := by
  have hs := pySplit_bondLine bt k i b ht
  simp only [bondRec]
  rw [pySplitMax_pyStrip 5 _ (by rw [hs]; simp [bondFields]), hs]
  simp [bondFields]

end lines

/-! ### blocks: `read_mol2` on what `dump_mol2` wrote -/

section blocks
variable (tt : TypeTable) (bt : BondTable)

/-- the molecule is inside the domain of the property: one-line name without outer whitespace,
whitespace-free labels, valid typing states, bond endpoints inside the atom list -/
structure Admissible (m : MolV) : Prop where
  name_line : '\n' ∉ m.name
  name_strip : pyStrip m.name = m.name
  atoms : ∀ a ∈ m.atoms, InRange tt a.st ∧ (a.label = [] ∨ Tok a.label)
  bonds : ∀ b ∈ m.bonds, b.a1 < m.atoms.length ∧ b.a2 < m.atoms.length ∧ b.btype < bt.nB

/-- the table facts the round trip rests on (all are generated obligations) -/
structure TablesOk : Prop where
  acc : tt.everyAccepted = true
  agree : tt.setModelAgrees = true
  toks : tt.tokensOk = true
  syms : tt.symsOk = true
  elem : tt.elementPreserved = true
  cyc : tt.secondCycleFixed = true
  bacc : bt.tokenAccepted = true
  btoks : bt.tokensOk = true
  bcyc : bt.bondCycleFixed = true
  bexpr : bt.expressiblePreserved = true
  bpre : bt.prefixFree = true

def headerOf (m : MolV) : Header :=
  ⟨m.name, "SMALL".toList, "USER_CHARGES".toList, (m.atoms.length : Int), some (m.bonds.length : Int)⟩

def atomRecs (k : Kind) (i : Nat) (as : List AtomV) : List Rec :=
  mapIdxFrom (fun j a => (⟨atomFields tt k j a, []⟩ : Rec)) i as

def bondRecs (i : Nat) (bs : List BondV) : List Rec :=
  mapIdxFrom (fun j b => (⟨bondFields bt j b, []⟩ : Rec)) i bs

/-- the block `read_mol2` returns for a written molecule: every field as the token that was written -/
def blockOf (k : Kind) (m : MolV) : Block :=
  ⟨headerOf m, some (atomRecs tt k 0 m.atoms), some (bondRecs bt 0 m.bonds)⟩

theorem labelTok_tok (h : TablesOk tt bt) (a : AtomV) (ha : InRange tt a.st ∧ (a.label = [] ∨ Tok a.label)) :
    Tok (labelTok tt a) := by
  simp only [labelTok]
  split
  · exact (symsOk_spec tt h.syms a.st.e ha.1.1).1
  · rcases ha.2 with h0 | h1
    · contradiction
    · exact h1

theorem typeTok_eq (h : TablesOk tt bt) (a : AtomV) (ha : InRange tt a.st) : typeTok tt a = tt.emitStr a.st := by
  have := tokensOk_spec tt h.toks a.st ha
  simp only [typeTok]
  rw [if_neg this.1]

theorem typeTok_tok (h : TablesOk tt bt) (a : AtomV) (ha : InRange tt a.st) : Tok (typeTok tt a) := by
  rw [typeTok_eq tt bt h a ha]; exact tokensOk_spec tt h.toks a.st ha

theorem mapIdxFrom_length {α β : Type} (f : Nat → α → β) (i : Nat) (l : List α) :
    (mapIdxFrom f i l).length = l.length := by
  induction l generalizing i with
  | nil => rfl
  | cons a l ih => simp only [mapIdxFrom, List.length_cons, ih]

theorem mapE_atomLines (h : TablesOk tt bt) (k : Kind) (as : List AtomV)
    (ha : ∀ a ∈ as, InRange tt a.st ∧ (a.label = [] ∨ Tok a.label)) (i : Nat) :
    mapE atomRec ((mapIdxFrom (atomLine tt k) i as).map pyStrip) = .ok (atomRecs tt k i as) := by
  induction as generalizing i with
  | nil => rfl
  | cons a as ih =>
    simp only [mapIdxFrom, List.map_cons, mapE, atomRecs]
    rw [atomRec_atomLine tt k i a (labelTok_tok tt bt h a (ha a (by simp))) (typeTok_tok tt bt h a (ha a (by simp)).1)]
    simp only
    have := ih (fun b hb => ha b (by simp [hb])) (i + 1)
    simp only [atomRecs] at this
    rw [this]

theorem mapE_bondLines (h : TablesOk tt bt) (k : Kind) (bs : List BondV)
    (hb : ∀ b ∈ bs, b.btype < bt.nB) (i : Nat) :
    mapE bondRec ((mapIdxFrom (bondLine bt k) i bs).map pyStrip) = .ok (bondRecs bt i bs) := by
  induction bs generalizing i with
  | nil => rfl
  | cons b bs ih =>
    simp only [mapIdxFrom, List.map_cons, mapE, bondRecs]
    rw [bondRec_bondLine bt k i b (bondTokensOk_spec bt h.btoks b.btype (hb b (by simp)))]
    simp only
    have := ih (fun c hc => hb c (by simp [hc])) (i + 1)
    simp only [bondRecs] at this
    rw [this]

/-- the stripped lines of one written molecule, as the reader iterates them -/
def sLines (k : Kind) (m : MolV) : List Str := (writeLines tt bt k m).map pyStrip

theorem parseInt_zero : parseInt ['0'] = some 0 := by decide

theorem countsLine_parse (n nb : Nat) :
    parseCounts (pyStrip (natStr n ++ sp ++ natStr nb ++ " 0 0 0".toList)) = .ok ((n : Int), some (nb : Int)) := by
  have hform : natStr n ++ sp ++ natStr nb ++ " 0 0 0".toList =
      natStr n ++ segLine [([' '], natStr nb), ([' '], ['0']), ([' '], ['0']), ([' '], ['0'])] [] := by
    have : " 0 0 0".toList = [' ', '0', ' ', '0', ' ', '0'] := by decide
    simp only [this, sp, segLine, List.append_assoc, List.cons_append, List.nil_append, List.append_nil]
  simp only [parseCounts]
  rw [pySplit_pyStrip, hform, pySplit_tok_segLine _ _ (by intro c hc; simp at hc) _ _ (natStr_tok n)]
  · simp only [List.map_cons, List.map_nil, parseInt_natStr, parseInt_zero, allSome, Option.map_some]
    rw [if_neg (by omega)]
  · intro p hp
    simp only [List.mem_cons, List.not_mem_nil, or_false] at hp
    rcases hp with rfl | rfl | rfl | rfl
    · exact ⟨ws_singleton_sp, by simp, natStr_tok nb⟩
    · exact ⟨ws_singleton_sp, by simp, (by decide : Tok ['0'])⟩
    · exact ⟨ws_singleton_sp, by simp, (by decide : Tok ['0'])⟩
    · exact ⟨ws_singleton_sp, by simp, (by decide : Tok ['0'])⟩

/-- the reader state after the last line of a written molecule -/
def stOf (k : Kind) (m : MolV) : RSt :=
  ⟨some (headerOf m), some (atomRecs tt k 0 m.atoms), some (bondRecs bt 0 m.bonds), false⟩

theorem flush_stOf (k : Kind) (m : MolV) : flush (stOf tt bt k m) = [blockOf tt bt k m] := rfl

/-- reading the lines of one written molecule from any state: the pending block is emitted, and the
reader is left in the state that holds exactly this molecule -/
theorem readLoop_sLines (h : TablesOk tt bt) (k : Kind) (m : MolV) (hm : Admissible tt bt m)
    (st : RSt) (rest : List Str) (f : Nat) :
    readLoop (f + 4) st (sLines tt bt k m ++ rest) =
      (match readLoop f (stOf tt bt k m) rest with
       | .ok more => .ok (flush st ++ more)
       | .error e => .error e) := by
  have e1 : pyStrip "# Produced with molli package".toList = "# Produced with molli package".toList := by decide
  have e2 : pyStrip "@<TRIPOS>MOLECULE".toList = "@<TRIPOS>MOLECULE".toList := by decide
  have e3 : pyStrip "SMALL".toList = "SMALL".toList := by decide
  have e4 : pyStrip "USER_CHARGES".toList = "USER_CHARGES".toList := by decide
  have e5 : pyStrip [] = [] := by decide
  have e6 : pyStrip "@<TRIPOS>ATOM".toList = "@<TRIPOS>ATOM".toList := by decide
  have e7 : pyStrip "@<TRIPOS>BOND".toList = "@<TRIPOS>BOND".toList := by decide
  have hl : sLines tt bt k m ++ rest =
      "# Produced with molli package".toList :: "@<TRIPOS>MOLECULE".toList ::
      ([m.name, pyStrip (natStr m.atoms.length ++ sp ++ natStr m.bonds.length ++ " 0 0 0".toList),
        "SMALL".toList, "USER_CHARGES".toList, []] ++
       ("@<TRIPOS>ATOM".toList :: ((mapIdxFrom (atomLine tt k) 0 m.atoms).map pyStrip ++
        ("@<TRIPOS>BOND".toList :: ((mapIdxFrom (bondLine bt k) 0 m.bonds).map pyStrip ++ rest))))) := by
    simp only [sLines, writeLines, List.map_cons, List.map_append, e1, e2, e3, e4, e5, e6, e7,
      hm.name_strip, List.cons_append, List.nil_append, List.append_assoc]
  rw [hl]
  -- comment line
  rw [readLoop_step]
  have s1 : ∀ ls, step st "# Produced with molli package".toList ls = .ok ([], st, ls) := by
    intro ls; simp only [step]; rw [if_neg (by decide), if_pos (by decide)]
  rw [s1, cont_nil]
  -- MOLECULE
  rw [readLoop_step]
  have s2 : ∀ rest5, step st "@<TRIPOS>MOLECULE".toList
      ([m.name, pyStrip (natStr m.atoms.length ++ sp ++ natStr m.bonds.length ++ " 0 0 0".toList),
        "SMALL".toList, "USER_CHARGES".toList, []] ++ rest5) =
      .ok (flush st, ⟨some (headerOf m), none, none, false⟩, rest5) := by
    intro rest5
    simp only [step]
    rw [if_neg (by decide), if_neg (by decide)]
    have ht : triposTag "@<TRIPOS>MOLECULE".toList = some "MOLECULE".toList := by decide
    rw [ht]
    simp only [if_true]
    have htl := takeLines_append [m.name, pyStrip (natStr m.atoms.length ++ sp ++ natStr m.bonds.length ++ " 0 0 0".toList),
        "SMALL".toList, "USER_CHARGES".toList, []] rest5
    simp only [List.length_cons, List.length_nil] at htl
    rw [htl]
    simp only [countsLine_parse]
    have hn : (triposTag ([] : Str)).isSome = false := by decide
    have hs : ¬ (([] : Str) = star4) := by decide
    simp only [hn, hs, if_false, Bool.false_eq_true, headerOf]
  rw [s2]
  simp only [cont]
  -- ATOM
  rw [readLoop_step]
  have s3 : ∀ rest', step ⟨some (headerOf m), none, none, false⟩ "@<TRIPOS>ATOM".toList
      ((mapIdxFrom (atomLine tt k) 0 m.atoms).map pyStrip ++ rest') =
      .ok ([], ⟨some (headerOf m), some (atomRecs tt k 0 m.atoms), none, false⟩, rest') := by
    intro rest'
    simp only [step]
    rw [if_neg (by decide), if_neg (by decide)]
    have ht : triposTag "@<TRIPOS>ATOM".toList = some "ATOM".toList := by decide
    rw [ht]
    have hne : ¬ ("ATOM".toList = "MOLECULE".toList) := by decide
    simp only [hne, if_false, if_true]
    have hlen : ((mapIdxFrom (atomLine tt k) 0 m.atoms).map pyStrip).length = (headerOf m).nAtoms.toNat := by
      simp only [headerOf, List.length_map, mapIdxFrom_length, Int.toNat_natCast]
    rw [← hlen, takeLines_append]
    simp only [mapE_atomLines tt bt h k m.atoms hm.atoms 0]
  rw [s3, cont_nil]
  -- BOND
  rw [readLoop_step]
  have s4 : step ⟨some (headerOf m), some (atomRecs tt k 0 m.atoms), none, false⟩ "@<TRIPOS>BOND".toList
      ((mapIdxFrom (bondLine bt k) 0 m.bonds).map pyStrip ++ rest) =
      .ok ([], stOf tt bt k m, rest) := by
    simp only [step]
    rw [if_neg (by decide), if_neg (by decide)]
    have ht : triposTag "@<TRIPOS>BOND".toList = some "BOND".toList := by decide
    rw [ht]
    have hne : ¬ ("BOND".toList = "MOLECULE".toList) := by decide
    have hne2 : ¬ ("BOND".toList = "ATOM".toList) := by decide
    simp only [hne, hne2, if_false, if_true, headerOf]
    have hlen : ((mapIdxFrom (bondLine bt k) 0 m.bonds).map pyStrip).length = ((m.bonds.length : Int)).toNat := by
      simp only [List.length_map, mapIdxFrom_length, Int.toNat_natCast]
    rw [← hlen, takeLines_append]
    simp only [mapE_bondLines tt bt h k m.bonds (fun b hb => (hm.bonds b hb).2.2) 0, stOf, headerOf]
  rw [s4, cont_nil]
  cases readLoop f (stOf tt bt k m) rest <;> simp

theorem sLines_length_ge (k : Kind) (m : MolV) : 4 ≤ (sLines tt bt k m).length := by
  simp only [sLines, writeLines, List.length_map, List.length_append, List.length_cons, List.length_nil]
  omega

/-- any number of written molecules, from any state: the pending block, then one block per molecule,
in order -/
theorem readLoop_many (h : TablesOk tt bt) (k : Kind) (ms : List MolV) :
    ∀ (m : MolV), (∀ x ∈ m :: ms, Admissible tt bt x) → ∀ (st : RSt) (fuel : Nat),
      ((m :: ms).flatMap (sLines tt bt k)).length < fuel →
      readLoop fuel st ((m :: ms).flatMap (sLines tt bt k)) = .ok (flush st ++ (m :: ms).map (blockOf tt bt k)) := by
  induction ms with
  | nil =>
    intro m hm st fuel hfuel
    simp only [List.flatMap_cons, List.flatMap_nil, List.append_nil] at hfuel ⊢
    have h4 := sLines_length_ge tt bt k m
    obtain ⟨f, rfl⟩ : ∃ f, fuel = f + 4 := ⟨fuel - 4, by omega⟩
    have := readLoop_sLines tt bt h k m (hm m (by simp)) st [] f
    rw [List.append_nil] at this
    rw [this]
    obtain ⟨g, rfl⟩ : ∃ g, f = g + 1 := ⟨f - 1, by omega⟩
    rw [readLoop_nil]
    simp only [flushFinal, stOf, List.map_cons, List.map_nil, blockOf]
  | cons m2 ms ih =>
    intro m hm st fuel hfuel
    have h4 := sLines_length_ge tt bt k m
    rw [List.flatMap_cons] at hfuel ⊢
    have hfuel' := hfuel
    simp only [List.length_append] at hfuel'
    obtain ⟨f, rfl⟩ : ∃ f, fuel = f + 4 := ⟨fuel - 4, by omega⟩
    rw [readLoop_sLines tt bt h k m (hm m (by simp)) st _ f]
    rw [ih m2 (fun x hx => hm x (by simp [hx])) (stOf tt bt k m) f (by
      simp only [List.length_append] at hfuel; omega)]
    simp only [flush_stOf, List.map_cons, List.singleton_append]

end blocks

end Molli.Lemmas.Mol2RoundTrip
