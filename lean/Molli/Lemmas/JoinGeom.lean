/-
Geometry of `Structure.join` over a field: where each atom of the two fragments ends up, the rigid
motion applied to the second fragment, the two ends of the new bond.
-/
import Mathlib.Tactic.Ring
import Mathlib.Tactic.LinearCombination
import Mathlib.Tactic.FieldSimp
import Molli.Lemmas.GeomField
import Molli.Lemmas.Join
namespace Molli.Lemmas.JoinGeom
open Molli.Model.Geom Molli.Model.Join Molli.Lemmas.Geom Molli.Lemmas.Join

set_option linter.unusedSectionVars false
set_option linter.unusedVariables false

variable {α : Type} [Field α] [LE α] [DecidableLE α]

/-- the hypotheses under which the rotation used by `join` is what C11 proves it to be:
unit attachment directions, a proper rotation, taking B's attachment direction onto minus A's -/
def JoinGeomOK (v : Variant) (v1n v2n : V3 α) (tol n : α) (rv : V3 α) : Prop :=
  v1n.dot v1n = 1 ∧ v2n.dot v2n = 1 ∧ (rotVecFull v v2n v1n.neg tol n rv).IsRot ∧
    v2n.mulM (rotVecFull v v2n v1n.neg tol n rv) = v1n.neg

theorem neg_unit (a : V3 α) (h : a.dot a = 1) : a.neg.dot a.neg = 1 := by
  obtain ⟨x, y, z⟩ := a; simp only [V3.dot, V3.neg] at *; linear_combination h

theorem joinCoords_left (v : Variant) (ca cb : List (V3 α)) (i1 i2 : Nat) (r1 r2 v1n v2n : V3 α)
    (d tol n : α) (rv : V3 α) (opt : Option (α × α)) (h1 : i1 < ca.length)
    (j : Nat) (hj : j < ca.length) (hne : j ≠ i1) :
    (joinCoords v ca cb i1 i2 r1 r2 v1n v2n d tol n rv opt)[reidx i1 j]? =
      (ca[j]?).map (fun p => p.sub r1) := by
  unfold joinCoords
  have hlt : reidx i1 j < ((ca.eraseIdx i1).map (fun p => p.sub r1)).length := by
    rw [List.length_map, List.length_eraseIdx]; simp only [h1, if_true]
    exact reidx_lt i1 j ca.length hne hj h1
  rw [List.getElem?_append_left hlt, List.getElem?_map, getElem?_eraseIdx_reidx ca i1 j hne]

theorem joinCoords_right (v : Variant) (ca cb : List (V3 α)) (i1 i2 : Nat) (r1 r2 v1n v2n : V3 α)
    (d tol n : α) (rv : V3 α) (opt : Option (α × α)) (h1 : i1 < ca.length)
    (j : Nat) (hne : j ≠ i2) :
    (joinCoords v ca cb i1 i2 r1 r2 v1n v2n d tol n rv opt)[ca.length - 1 + reidx i2 j]? =
      (cb[j]?).map (moveB v r2 v1n v2n d tol n rv opt) := by
  unfold joinCoords
  have hlen : ((ca.eraseIdx i1).map (fun p => p.sub r1)).length = ca.length - 1 := by
    rw [List.length_map, List.length_eraseIdx]; simp only [h1, if_true]
  rw [List.getElem?_append_right (by omega), hlen, Nat.add_sub_cancel_left, List.getElem?_map,
    getElem?_eraseIdx_reidx cb i2 j hne]

theorem joinCoords_length (v : Variant) (ca cb : List (V3 α)) (i1 i2 : Nat) (r1 r2 v1n v2n : V3 α)
    (d tol n : α) (rv : V3 α) (opt : Option (α × α)) (h1 : i1 < ca.length) (h2 : i2 < cb.length) :
    (joinCoords v ca cb i1 i2 r1 r2 v1n v2n d tol n rv opt).length = ca.length - 1 + (cb.length - 1) := by
  unfold joinCoords
  simp only [List.length_append, List.length_map, List.length_eraseIdx, h1, h2, if_true]

/-- the second fragment is moved by ONE rigid motion (rotation onto −v̂1, shift by d·v̂1, optional
rotation about v̂1) -/
theorem moveB_rigid (v : Variant) (r2 v1n v2n : V3 α) (d tol n : α) (rv : V3 α)
    (opt : Option (α × α)) (hok : JoinGeomOK v v1n v2n tol n rv)
    (hopt : ∀ sc, opt = some sc → sc.1 * sc.1 + sc.2 * sc.2 = 1) :
    Rigid (moveB v r2 v1n v2n d tol n rv opt) := by
  obtain ⟨h1, h2, hrot, hmap⟩ := hok
  have hbase : Rigid (fun p : V3 α => ((p.sub r2).mulM (rotVecFull v v2n v1n.neg tol n rv)).add (v1n.smul d)) :=
    ((Rigid.sub r2).comp (Rigid.transform _ hrot)).comp (Rigid.translate (v1n.smul d))
  cases opt with
  | none => exact hbase
  | some sc =>
    exact hbase.comp (Rigid.transform _ (rotAxis_isRot v1n sc.1 sc.2 h1 (hopt sc rfl)))

/-- the former neighbour of B's attachment point lands at `d·v̂1`, whatever the scan angle -/
theorem moveB_anchor (v : Variant) (r2 v1n v2n : V3 α) (d tol n : α) (rv : V3 α)
    (opt : Option (α × α)) (h1 : v1n.dot v1n = 1) :
    moveB v r2 v1n v2n d tol n rv opt r2 = v1n.smul d := by
  have hbase : ((r2.sub r2).mulM (rotVecFull v v2n v1n.neg tol n rv)).add (v1n.smul d) = v1n.smul d := by
    rw [sub_self_zero, zero_mulM]
    apply V3.eq_of <;> simp only [V3.add, V3.zero, V3.smul] <;> ring
  unfold moveB
  cases opt with
  | none => exact hbase
  | some sc =>
    simp only
    rw [hbase, mulM_smul, rotAxis_fixes_row v1n sc.1 sc.2 h1]

/-- B's attachment point itself (at `r2 + l2·v̂2`) would land at `(d − l2)·v̂1`: B's attachment
direction is turned onto MINUS A's, so the fragments face each other -/
theorem moveB_attachment (v : Variant) (r2 v1n v2n : V3 α) (d l2 tol n : α) (rv : V3 α)
    (opt : Option (α × α)) (hok : JoinGeomOK v v1n v2n tol n rv) :
    moveB v r2 v1n v2n d tol n rv opt (r2.add (v2n.smul l2)) = v1n.smul (d - l2) := by
  obtain ⟨h1, h2, hrot, hmap⟩ := hok
  have hsub : (r2.add (v2n.smul l2)).sub r2 = v2n.smul l2 := by
    apply V3.eq_of <;> simp only [V3.add, V3.sub, V3.smul] <;> ring
  have hbase : (((r2.add (v2n.smul l2)).sub r2).mulM (rotVecFull v v2n v1n.neg tol n rv)).add (v1n.smul d)
      = v1n.smul (d - l2) := by
    rw [hsub, mulM_smul, hmap]
    apply V3.eq_of <;> simp only [V3.add, V3.neg, V3.smul] <;> ring
  unfold moveB
  cases opt with
  | none => exact hbase
  | some sc =>
    simp only
    rw [hbase, mulM_smul, rotAxis_fixes_row v1n sc.1 sc.2 h1]

end Molli.Lemmas.JoinGeom
