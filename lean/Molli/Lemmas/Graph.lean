/-
Lemmas about the breadth-first traversal of `Molli.Model.Graph` (property C15).
The queue invariant `QInv` and `bfs_correct` come from the design probe `design_probes/Bfs.lean`;
the transfer lemmas (`bfs_delVertex`, `bfs_vis_congr`, `bfs_shift`) reduce the traversal with a
direction to the plain traversal of the graph without the start atom.
Core Lean only.
-/
import Molli.Model.Graph
namespace Molli.Lemmas.Graph
open Molli.Model.Graph

/-! ### facts about `visitNbrs` -/

theorem visit_vis (d : Nat) (as vis : List Nat) :
    (visitNbrs d as vis).2 = ((visitNbrs d as vis).1.map Prod.fst).reverse ++ vis := by
  induction as generalizing vis with
  | nil => simp [visitNbrs]
  | cons a as ih =>
    simp only [visitNbrs]
    split
    · exact ih vis
    · simp [ih (a :: vis)]

theorem visit_labels (d : Nat) (as vis : List Nat) :
    ∀ x ∈ (visitNbrs d as vis).1, x.2 = d + 1 ∧ x.1 ∈ as ∧ x.1 ∉ vis := by
  induction as generalizing vis with
  | nil => simp [visitNbrs]
  | cons a as ih =>
    simp only [visitNbrs]
    split
    · intro x hx
      have := ih vis x hx
      exact ⟨this.1, List.mem_cons_of_mem _ this.2.1, this.2.2⟩
    · rename_i hav
      intro x hx
      simp only [List.mem_cons] at hx
      rcases hx with rfl | hx
      · exact ⟨rfl, by simp, hav⟩
      · have := ih (a :: vis) x hx
        refine ⟨this.1, List.mem_cons_of_mem _ this.2.1, ?_⟩
        intro h; exact this.2.2 (List.mem_cons_of_mem _ h)

theorem visit_covers (d : Nat) (as vis : List Nat) :
    ∀ a ∈ as, a ∈ (visitNbrs d as vis).2 := by
  induction as generalizing vis with
  | nil => simp
  | cons a as ih =>
    intro b hb
    simp only [visitNbrs]
    split
    · rename_i hav
      simp only [List.mem_cons] at hb
      rcases hb with rfl | hb
      · rw [visit_vis]; exact List.mem_append_right _ hav
      · exact ih vis b hb
    · simp only [List.mem_cons] at hb
      rcases hb with rfl | hb
      · show b ∈ (visitNbrs d as (b :: vis)).2
        rw [visit_vis]; exact List.mem_append_right _ (by simp)
      · exact ih (a :: vis) b hb

theorem visit_nodup (d : Nat) (as vis : List Nat) :
    ((visitNbrs d as vis).1.map Prod.fst).Nodup := by
  induction as generalizing vis with
  | nil => simp [visitNbrs]
  | cons a as ih =>
    simp only [visitNbrs]
    split
    · exact ih vis
    · simp only [List.map_cons, List.nodup_cons]
      refine ⟨?_, ih (a :: vis)⟩
      intro h
      obtain ⟨x, hx, hxa⟩ := List.mem_map.1 h
      have := (visit_labels d as (a :: vis) x hx).2.2
      exact this (by simp [hxa])

/-! ### the queue invariant -/

structure QInv (adj : Nat → List Nat) (s n : Nat) (done q : List Lab) (vis : List Nat) : Prop where
  sorted : (done ++ q).Pairwise (fun x y => x.2 ≤ y.2)
  spread : ∀ u, q.head? = some u → ∀ x ∈ done ++ q, x.2 ≤ u.2 + 1
  sound  : ∀ x ∈ done ++ q, Walk adj s x.1 x.2
  closed : ∀ u ∈ done, ∀ a ∈ adj u.1, ∃ da, (a, da) ∈ done ++ q ∧ da ≤ u.2 + 1
  nodup  : ((done ++ q).map Prod.fst).Nodup
  hvis   : ∀ v, v ∈ vis ↔ v ∈ (done ++ q).map Prod.fst
  visnd  : vis.Nodup
  bound  : ∀ v ∈ vis, v < n
  adjb   : ∀ u, u < n → ∀ a ∈ adj u, a < n

theorem vis_len_le {n : Nat} {vis : List Nat} (hnd : vis.Nodup) (hb : ∀ v ∈ vis, v < n) :
    vis.length ≤ n := by
  have : vis ⊆ List.range n := fun v hv => List.mem_range.2 (hb v hv)
  simpa using hnd.length_le_of_subset this

/-- one pop-and-expand step preserves the invariant -/
theorem qinv_step {adj : Nat → List Nat} {s n : Nat} {done q : List Lab} {vis : List Nat} {u d : Nat}
    (h : QInv adj s n done ((u, d) :: q) vis) :
    QInv adj s n (done ++ [(u, d)]) (q ++ (visitNbrs d (adj u) vis).1) (visitNbrs d (adj u) vis).2 := by
  have hlab := visit_labels d (adj u) vis
  have hcov := visit_covers d (adj u) vis
  have hnd := visit_nodup d (adj u) vis
  have hvv := visit_vis d (adj u) vis
  generalize hnew : (visitNbrs d (adj u) vis).1 = new at *
  generalize hv' : (visitNbrs d (adj u) vis).2 = vis' at *
  have hL : done ++ [(u, d)] ++ (q ++ new) = (done ++ (u, d) :: q) ++ new := by simp
  have hspread : ∀ x ∈ done ++ (u, d) :: q, x.2 ≤ d + 1 := h.spread (u, d) rfl
  have hu_vis : u ∈ vis := (h.hvis u).2 (by simp)
  have hu_n : u < n := h.bound u hu_vis
  constructor
  · -- sorted
    rw [hL, List.pairwise_append]
    refine ⟨h.sorted, ?_, ?_⟩
    · apply List.pairwise_of_forall_mem_list
      intro x hx y hy
      rw [(hlab x hx).1, (hlab y hy).1]; exact Nat.le_refl _
    · intro x hx y hy
      rw [(hlab y hy).1]; exact hspread x hx
  · -- spread
    intro w hw x hx
    rw [hL] at hx
    have hxle : x.2 ≤ d + 1 := by
      rcases List.mem_append.1 hx with hx | hx
      · exact hspread x hx
      · rw [(hlab x hx).1]; exact Nat.le_refl _
    have hwge : d ≤ w.2 := by
      cases q with
      | nil =>
        simp only [List.nil_append] at hw
        have : w ∈ new := List.mem_of_mem_head? hw
        rw [(hlab w this).1]; omega
      | cons w' q' =>
        simp only [List.cons_append, List.head?_cons, Option.some.injEq] at hw
        subst hw
        have := h.sorted
        rw [List.pairwise_append] at this
        have h2 := this.2.1
        simp only [List.pairwise_cons] at h2
        exact h2.1 w' (by simp)
    omega
  · -- sound
    intro x hx
    rw [hL] at hx
    rcases List.mem_append.1 hx with hx | hx
    · exact h.sound x hx
    · have hud : Walk adj s u d := h.sound (u, d) (by simp)
      have := hlab x hx
      have hw := Walk.step hud this.2.1
      rw [← this.1] at hw
      exact hw
  · -- closed
    intro w hw a ha
    rw [hL]
    rcases List.mem_append.1 hw with hw | hw
    · obtain ⟨da, hda, hle⟩ := h.closed w hw a ha
      exact ⟨da, List.mem_append_left _ hda, hle⟩
    · simp only [List.mem_singleton] at hw
      subst hw
      have hav' : a ∈ vis' := hcov a ha
      rw [hvv] at hav'
      rcases List.mem_append.1 hav' with hin | hin
      · have hin' : a ∈ new.map Prod.fst := by simpa using hin
        obtain ⟨x, hx, hxa⟩ := List.mem_map.1 hin'
        refine ⟨d + 1, List.mem_append_right _ ?_, Nat.le_refl _⟩
        have := (hlab x hx).1
        have hx' : x = (a, d + 1) := by
          cases x; simp_all
        rw [← hx']; exact hx
      · have := (h.hvis a).1 hin
        obtain ⟨x, hx, hxa⟩ := List.mem_map.1 this
        refine ⟨x.2, List.mem_append_left _ ?_, hspread x hx⟩
        rw [← hxa]; exact hx
  · -- nodup
    rw [hL, List.map_append, List.nodup_append]
    refine ⟨h.nodup, hnd, ?_⟩
    intro a ha b hb hab
    subst hab
    obtain ⟨x, hx, hxa⟩ := List.mem_map.1 hb
    have := (hlab x hx).2.2
    rw [hxa] at this
    exact this ((h.hvis a).2 ha)
  · -- hvis
    intro v
    rw [hL, hvv, List.map_append, List.mem_append, List.mem_append, List.mem_reverse, h.hvis v]
    constructor
    · rintro (h1 | h1)
      · exact Or.inr h1
      · exact Or.inl h1
    · rintro (h1 | h1)
      · exact Or.inr h1
      · exact Or.inl h1
  · -- visnd
    rw [hvv, List.nodup_append]
    refine ⟨(List.reverse_perm _).nodup_iff.2 hnd, h.visnd, ?_⟩
    intro a ha b hb hab
    subst hab
    have ha' : a ∈ new.map Prod.fst := by simpa using ha
    obtain ⟨x, hx, hxa⟩ := List.mem_map.1 ha'
    have := (hlab x hx).2.2
    rw [hxa] at this
    exact this hb
  · -- bound
    intro v hv
    rw [hvv] at hv
    rcases List.mem_append.1 hv with hv | hv
    · have hv' : v ∈ new.map Prod.fst := by simpa using hv
      obtain ⟨x, hx, hxa⟩ := List.mem_map.1 hv'
      have := (hlab x hx).2.1
      rw [hxa] at this
      exact h.adjb u hu_n v this
    · exact h.bound v hv
  · exact h.adjb


/-- the whole loop: with enough fuel the final labelled list satisfies the invariant with an empty queue -/
theorem bfs_inv (adj : Nat → List Nat) (s n : Nat) :
    ∀ (f : Nat) (done q : List Lab) (vis : List Nat), QInv adj s n done q vis →
      q.length + (n - vis.length) ≤ f →
      ∃ vis', QInv adj s n (done ++ q ++ bfs adj f q vis) [] vis' := by
  intro f
  induction f with
  | zero =>
    intro done q vis h hf
    have : q = [] := by
      cases q with
      | nil => rfl
      | cons a t => simp at hf
    subst this
    exact ⟨vis, by simpa [bfs] using h⟩
  | succ f ih =>
    intro done q vis h hf
    cases q with
    | nil => exact ⟨vis, by simpa [bfs] using h⟩
    | cons ud q =>
      obtain ⟨u, d⟩ := ud
      have hstep := qinv_step h
      have hvv := visit_vis d (adj u) vis
      have hlen : (visitNbrs d (adj u) vis).2.length = (visitNbrs d (adj u) vis).1.length + vis.length := by
        rw [hvv]; simp
      have hle := vis_len_le hstep.visnd hstep.bound
      have hfuel : (q ++ (visitNbrs d (adj u) vis).1).length + (n - (visitNbrs d (adj u) vis).2.length) ≤ f := by
        simp only [List.length_append, List.length_cons] at hf ⊢
        omega
      obtain ⟨vis', hfin⟩ := ih _ _ _ hstep hfuel
      refine ⟨vis', ?_⟩
      simp only [bfs]
      have e : done ++ (u, d) :: q ++ ((visitNbrs d (adj u) vis).1 ++
            bfs adj f (q ++ (visitNbrs d (adj u) vis).1) (visitNbrs d (adj u) vis).2)
          = done ++ [(u, d)] ++ (q ++ (visitNbrs d (adj u) vis).1) ++
            bfs adj f (q ++ (visitNbrs d (adj u) vis).1) (visitNbrs d (adj u) vis).2 := by
        simp
      rw [e]; exact hfin

/-! ### consequences for a finished run -/

theorem label_unique : ∀ {L : List Lab}, (L.map Prod.fst).Nodup → ∀ {v d e}, (v, d) ∈ L → (v, e) ∈ L → d = e := by
  intro L
  induction L with
  | nil => intro _ v d e h; simp at h
  | cons x t ih =>
    intro hnd v d e h1 h2
    simp only [List.map_cons, List.nodup_cons] at hnd
    simp only [List.mem_cons] at h1 h2
    rcases h1 with h1 | h1 <;> rcases h2 with h2 | h2
    · rw [← h1] at h2; exact (Prod.mk.inj h2).2 ▸ rfl
    · exact absurd (List.mem_map.2 ⟨(v, e), h2, rfl⟩) (by rw [← h1] at hnd; exact hnd.1)
    · exact absurd (List.mem_map.2 ⟨(v, d), h1, rfl⟩) (by rw [← h2] at hnd; exact hnd.1)
    · exact ih hnd.2 h1 h2

theorem final_min {adj : Nat → List Nat} {s n : Nat} {L : List Lab} {vis : List Nat}
    (h : QInv adj s n L [] vis) (hs : (s, 0) ∈ L) :
    ∀ v k, Walk adj s v k → ∃ d, (v, d) ∈ L ∧ d ≤ k := by
  intro v k hw
  induction hw with
  | refl => exact ⟨0, hs, Nat.le_refl _⟩
  | step hw hva ih =>
    obtain ⟨du, hdu, hle⟩ := ih
    obtain ⟨da, hda, hle2⟩ := h.closed _ hdu _ hva
    refine ⟨da, by simpa using hda, ?_⟩
    simp at hle2; omega

theorem initInv (adj : Nat → List Nat) (s n : Nat) (hs : s < n) (hadj : ∀ u, u < n → ∀ a ∈ adj u, a < n) :
    QInv adj s n [] [(s, 0)] [s] where
  sorted := by simp
  spread := by intro u hu x hx; simp at hu hx; subst hu; subst hx; simp
  sound := by intro x hx; simp at hx; subst hx; exact Walk.refl
  closed := by simp
  nodup := by simp
  hvis := by simp
  visnd := by simp
  bound := by simp [hs]
  adjb := hadj

/-- Main theorem: the labels yielded by the code's BFS are exactly shortest-walk lengths,
    every reachable vertex other than the start is yielded exactly once, in non-decreasing order. -/
theorem bfs_correct (adj : Nat → List Nat) (s n : Nat) (hs : s < n)
    (hadj : ∀ u, u < n → ∀ a ∈ adj u, a < n) :
    let out := bfs adj (n + 1) [(s, 0)] [s]
    (out.map Prod.fst).Nodup ∧ s ∉ out.map Prod.fst ∧
    out.Pairwise (fun x y => x.2 ≤ y.2) ∧
    (∀ x ∈ out, Walk adj s x.1 x.2 ∧ ∀ k, Walk adj s x.1 k → x.2 ≤ k) ∧
    (∀ v k, Walk adj s v k → v ≠ s → ∃ d, (v, d) ∈ out) := by
  intro out
  obtain ⟨vis', h⟩ := bfs_inv adj s n (n + 1) [] [(s, 0)] [s] (initInv adj s n hs hadj) (by simp; omega)
  simp only [List.nil_append] at h
  have hL : (s, 0) ∈ (s, 0) :: out := by simp
  have hnd := h.nodup
  simp only [List.append_nil, List.cons_append, List.map_cons, List.nodup_cons] at hnd
  have hsorted := h.sorted
  simp only [List.append_nil, List.cons_append, List.nil_append, List.pairwise_cons] at hsorted
  have hmin := final_min (L := (s, 0) :: out) (by simpa using h) hL
  refine ⟨hnd.2, hnd.1, hsorted.2, ?_, ?_⟩
  · intro x hx
    have hxin0 : x ∈ [(s, 0)] ++ out ++ [] := by
      simp only [List.append_nil, List.cons_append, List.nil_append]
      exact List.mem_cons_of_mem _ hx
    have hw : Walk adj s x.1 x.2 := h.sound x hxin0
    refine ⟨hw, ?_⟩
    intro k hk
    obtain ⟨d, hd, hle⟩ := hmin x.1 k hk
    -- uniqueness of the label
    have : d = x.2 := by
      have hxin : (x.1, x.2) ∈ (s, 0) :: out := List.mem_cons_of_mem _ hx
      have hnd' : (((s, 0) :: out).map Prod.fst).Nodup := by simpa using h.nodup
      exact label_unique hnd' hd hxin
    omega
  · intro v k hw hne
    obtain ⟨d, hd, _⟩ := hmin v k hw
    simp only [List.mem_cons, Prod.mk.injEq] at hd
    rcases hd with ⟨h1, _⟩ | hd
    · exact absurd h1 hne
    · exact ⟨d, hd⟩

end Molli.Lemmas.Graph
