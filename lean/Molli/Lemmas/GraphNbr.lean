/-
`bonds_with_atom`, `connected_atoms`, `bonded_valence` against the bond list; the adjacency of a
bond list is symmetric and bounded; deleting a bond from the list = deleting the adjacency (C15).
Core Lean only.
-/
import Molli.Lemmas.GraphDir
namespace Molli.Lemmas.Graph
open Molli.Model.Graph

variable {EA : Type}

theorem has_iff (b : Bond EA) (u : Nat) : b.has u = true ↔ b.a1 = u ∨ b.a2 = u := by
  simp [Bond.has]

theorem mem_bondsWith {bonds : List (Bond EA)} {u : Nat} {x : Bond EA} :
    x ∈ bondsWith bonds u ↔ x ∈ bonds ∧ (x.a1 = u ∨ x.a2 = u) := by
  simp [bondsWith, List.mem_filter, has_iff]

theorem other?_eq_some {b : Bond EA} {u v : Nat} :
    b.other? u = some v ↔ (b.a1 = u ∧ b.a2 = v) ∨ (b.a2 = u ∧ b.a1 = v) := by
  unfold Bond.other?
  by_cases h1 : b.a1 = u
  · simp only [h1, if_true, Option.some.injEq, true_and]
    constructor
    · intro h; exact Or.inl h
    · rintro (h | ⟨h2, h3⟩)
      · exact h
      · rw [h2, ← h3]
  · by_cases h2 : b.a2 = u
    · simp [h1, h2]
    · simp [h1, h2]

theorem other?_isSome_of_has {b : Bond EA} {u : Nat} (h : b.has u = true) :
    ∃ v, b.other? u = some v := by
  rcases (has_iff b u).1 h with h | h
  · exact ⟨b.a2, by simp [Bond.other?, h]⟩
  · by_cases h1 : b.a1 = u
    · exact ⟨b.a2, by simp [Bond.other?, h1]⟩
    · exact ⟨b.a1, by simp [Bond.other?, h1, h]⟩

theorem mem_neighbors {bonds : List (Bond EA)} {u v : Nat} :
    v ∈ neighbors bonds u ↔ ∃ x ∈ bonds, (x.a1 = u ∧ x.a2 = v) ∨ (x.a2 = u ∧ x.a1 = v) := by
  unfold neighbors
  rw [List.mem_filterMap]
  constructor
  · rintro ⟨x, hx, hv⟩
    exact ⟨x, (mem_bondsWith.1 hx).1, other?_eq_some.1 hv⟩
  · rintro ⟨x, hx, h⟩
    refine ⟨x, mem_bondsWith.2 ⟨hx, ?_⟩, other?_eq_some.2 h⟩
    rcases h with h | h
    · exact Or.inl h.1
    · exact Or.inr h.1

theorem neighbors_symm {bonds : List (Bond EA)} {u v : Nat} :
    v ∈ neighbors bonds u ↔ u ∈ neighbors bonds v := by
  rw [mem_neighbors, mem_neighbors]
  constructor <;> (rintro ⟨x, hx, h⟩; exact ⟨x, hx, by rcases h with h | h <;> simp [h]⟩)

/-- every incident bond contributes exactly one neighbour, in bond-list order -/
theorem neighbors_length (bonds : List (Bond EA)) (u : Nat) :
    (neighbors bonds u).length = (bondsWith bonds u).length := by
  unfold neighbors bondsWith
  induction bonds with
  | nil => simp
  | cons b t ih =>
    by_cases h : b.has u = true
    · obtain ⟨v, hv⟩ := other?_isSome_of_has h
      simp [h, hv, ih]
    · simp [h, ih]

theorem neighbors_bounded {bonds : List (Bond EA)} {n : Nat}
    (hwf : ∀ b ∈ bonds, b.a1 < n ∧ b.a2 < n) : ∀ u, u < n → ∀ a ∈ neighbors bonds u, a < n := by
  intro u _ a ha
  obtain ⟨x, hx, h⟩ := mem_neighbors.1 ha
  rcases h with h | h
  · rw [← h.2]; exact (hwf x hx).2
  · rw [← h.2]; exact (hwf x hx).1

theorem valence_eq_sum (order : EA → Rat) (bonds : List (Bond EA)) (u : Nat) :
    valence order bonds u = (bonds.map (fun b => if b.has u then order b.attr else 0)).sum := by
  unfold valence bondsWith
  induction bonds with
  | nil => simp
  | cons b t ih =>
    by_cases h : b.has u = true
    · simp [h, ih]
    · simp [h, ih, Rat.zero_add]

/-- the bond list without every bond between `a` and `b` -/
def delBond (bonds : List (Bond EA)) (a b : Nat) : List (Bond EA) :=
  bonds.filter (fun x => !((x.a1 == a && x.a2 == b) || (x.a1 == b && x.a2 == a)))

theorem mem_neighbors_delBond {bonds : List (Bond EA)} {a b u v : Nat} :
    v ∈ neighbors (delBond bonds a b) u ↔ v ∈ delEdge (neighbors bonds) a b u := by
  rw [mem_delEdge, mem_neighbors, mem_neighbors]
  unfold delBond
  constructor
  · rintro ⟨x, hx, h⟩
    rw [List.mem_filter] at hx
    refine ⟨⟨x, hx.1, h⟩, ?_, ?_⟩
    · rintro ⟨rfl, rfl⟩
      have := hx.2
      rcases h with h | h <;> simp [h.1, h.2] at this
    · rintro ⟨rfl, rfl⟩
      have := hx.2
      rcases h with h | h <;> simp [h.1, h.2] at this
  · rintro ⟨⟨x, hx, h⟩, h1, h2⟩
    refine ⟨x, List.mem_filter.2 ⟨hx, ?_⟩, h⟩
    simp only [Bool.not_eq_true', Bool.or_eq_false_iff, Bool.and_eq_false_iff, beq_eq_false_iff_ne, ne_eq]
    rcases h with h | h
    · rw [h.1, h.2]
      exact ⟨by by_cases hu : u = a <;> simp_all, by by_cases hu : u = b <;> simp_all⟩
    · rw [h.1, h.2]
      exact ⟨by by_cases hu : v = a <;> simp_all, by by_cases hu : v = b <;> simp_all⟩

/-! ### walks in symmetric graphs can be reversed -/

theorem Walk.prepend {adj : Nat → List Nat} {s₀ s v k : Nat} (h : s ∈ adj s₀) (w : Walk adj s v k) :
    Walk adj s₀ v (k + 1) := by
  induction w with
  | refl => exact Walk.step Walk.refl h
  | step _ hv ih => exact Walk.step ih hv

theorem Walk.reverse {adj : Nat → List Nat} (hsym : ∀ u v, v ∈ adj u → u ∈ adj v) {s v k : Nat}
    (w : Walk adj s v k) : Walk adj v s k := by
  induction w with
  | refl => exact Walk.refl
  | step _ hv ih => exact Walk.prepend (hsym _ _ hv) ih

end Molli.Lemmas.Graph
