/-
Numeric layer of the text codecs (C07, C08): decimal digits, `int()` / `float()` on the tokens molli
writes, `format(x, '.Nf')` and its inverse.  All statements are about the executable definitions of
`Molli.Model.Text`.
-/
import Molli.Model.Text
namespace Molli.Lemmas.Num
open Molli.Model.Text

/-! ### digits -/

theorem digitChar_spec : ∀ d, d < 10 → isDigit (digitChar d) = true ∧ digitVal (digitChar d) = d := by
  decide

theorem digitsVal_foldl (s : Str) (a : Nat) :
    s.foldl (fun acc c => 10 * acc + digitVal c) a = a * 10 ^ s.length + digitsVal s := by
  induction s generalizing a with
  | nil => simp [digitsVal]
  | cons c cs ih =>
    simp only [List.foldl_cons, List.length_cons, digitsVal]
    rw [ih, ih (10 * 0 + digitVal c)]
    simp only [Nat.pow_succ, Nat.mul_zero, Nat.zero_add, Nat.add_mul]
    rw [Nat.add_assoc]
    congr 1
    rw [Nat.mul_comm 10 a, Nat.mul_assoc, Nat.mul_comm 10]

theorem digitsVal_append (a b : Str) :
    digitsVal (a ++ b) = digitsVal a * 10 ^ b.length + digitsVal b := by
  unfold digitsVal
  rw [List.foldl_append, digitsVal_foldl]
  rfl

/-- value of a little-endian digit list -/
def valRev : List Nat → Nat
  | [] => 0
  | d :: ds => d + 10 * valRev ds

theorem valRev_digitsRev (fuel n : Nat) (h : n ≤ fuel) : valRev (digitsRev fuel n) = n := by
  induction fuel generalizing n with
  | zero => have : n = 0 := by omega
            subst this; rfl
  | succ f ih =>
    unfold digitsRev
    split
    · next h0 => subst h0; rfl
    · simp only [valRev]
      rw [ih _ (by omega)]
      omega

theorem digitsVal_revmap (l : List Nat) (h : ∀ x ∈ l, x < 10) :
    digitsVal (l.reverse.map digitChar) = valRev l := by
  induction l with
  | nil => rfl
  | cons d ds ih =>
    rw [List.reverse_cons, List.map_append, digitsVal_append,
      ih (fun x hx => h x (List.mem_cons_of_mem _ hx))]
    have hd := (digitChar_spec d (h d List.mem_cons_self)).2
    simp only [List.map_cons, List.map_nil, List.length_singleton, digitsVal, List.foldl_cons,
      List.foldl_nil, hd, valRev]
    omega

theorem digitsRev_length (fuel n d : Nat) (h : n < 10 ^ d) : (digitsRev fuel n).length ≤ d := by
  induction fuel generalizing n d with
  | zero => simp [digitsRev]
  | succ f ih =>
    unfold digitsRev
    split
    · simp
    · next h0 =>
      cases d with
      | zero => simp at h; omega
      | succ d' =>
        simp only [List.length_cons]
        have := ih (n / 10) d' (by rw [Nat.pow_succ] at h; omega)
        omega

theorem pyStrip_noWs (s : Str) (h : ∀ c ∈ s, isWs c = false) : pyStrip s = s := by
  have key : ∀ t : Str, (∀ c ∈ t, isWs c = false) → t.dropWhile isWs = t := by
    intro t ht
    cases t with
    | nil => rfl
    | cons c cs => rw [List.dropWhile_cons, if_neg (by simp [ht c List.mem_cons_self])]
  unfold pyStrip dropWsEnd
  rw [key s h, key s.reverse (fun c hc => h c (List.mem_reverse.1 hc)), List.reverse_reverse]

theorem digitsRev_lt (fuel n : Nat) : ∀ x ∈ digitsRev fuel n, x < 10 := by
  induction fuel generalizing n with
  | zero => intro x hx; simp [digitsRev] at hx
  | succ f ih =>
    intro x hx
    unfold digitsRev at hx
    split at hx
    · simp at hx
    · rcases List.mem_cons.1 hx with h | h
      · omega
      · exact ih _ _ h

theorem digitsRev_ne_nil (fuel n : Nat) (h0 : 0 < n) (hf : 0 < fuel) : digitsRev fuel n ≠ [] := by
  cases fuel with
  | zero => omega
  | succ f =>
    unfold digitsRev
    rw [if_neg (by omega)]
    exact List.cons_ne_nil _ _

theorem natStr_ne_nil (n : Nat) : natStr n ≠ [] := by
  unfold natStr
  split
  · exact List.cons_ne_nil _ _
  · next h =>
    intro hc
    rw [List.map_eq_nil_iff, List.reverse_eq_nil_iff] at hc
    exact digitsRev_ne_nil n n (by omega) (by omega) hc

theorem natStr_digits (n : Nat) : ∀ c ∈ natStr n, isDigit c = true := by
  unfold natStr
  split
  · intro c hc
    rw [List.mem_singleton] at hc
    subst hc; decide
  · intro c hc
    rw [List.mem_map] at hc
    obtain ⟨x, hx, rfl⟩ := hc
    exact (digitChar_spec x (digitsRev_lt n n x (List.mem_reverse.1 hx))).1

theorem digitsVal_natStr (n : Nat) : digitsVal (natStr n) = n := by
  unfold natStr
  split
  · next h => subst h; decide
  · rw [digitsVal_revmap _ (digitsRev_lt n n), valRev_digitsRev n n (Nat.le_refl n)]

/-- a number below `10^d` has at most `d` digits -/
theorem natStr_length_le (n d : Nat) (h : n < 10 ^ d) (hd : 0 < d) : (natStr n).length ≤ d := by
  unfold natStr
  split
  · exact hd
  · rw [List.length_map, List.length_reverse]
    exact digitsRev_length n n d h

theorem digit_not_ws (c : Char) (h : isDigit c = true) : isWs c = false := by
  cases hws : isWs c with
  | false => rfl
  | true =>
    exfalso
    simp only [isWs, Bool.or_eq_true, decide_eq_true_eq] at hws
    rcases hws with ((((((((h1 | h1) | h1) | h1) | h1) | h1) | h1) | h1) | h1) | h1 <;>
      (subst h1; exact absurd h (by decide))

theorem natStr_tok (n : Nat) : Tok (natStr n) :=
  ⟨natStr_ne_nil n, fun c hc => digit_not_ws c (natStr_digits n c hc)⟩

theorem digitPart_true (s : Str) (h : ∀ c ∈ s, isDigit c = true) : digitPart s true = some s := by
  induction s with
  | nil => rfl
  | cons c cs ih =>
    unfold digitPart
    rw [if_pos (h c List.mem_cons_self), ih (fun x hx => h x (List.mem_cons_of_mem _ hx))]
    rfl

theorem digitPart_of_digits (s : Str) (h : ∀ c ∈ s, isDigit c = true) (hne : s ≠ []) :
    digitPart s false = some s := by
  cases s with
  | nil => exact absurd rfl hne
  | cons c cs =>
    unfold digitPart
    rw [if_pos (h c List.mem_cons_self),
      digitPart_true cs (fun x hx => h x (List.mem_cons_of_mem _ hx))]
    rfl

/-! ### `int()` on what the writers produce -/

theorem sign_match_neg (r : Str) :
    parseInt.match_1 (fun _ => Bool × List Char) ('-' :: r)
      (fun r => (true, r)) (fun r => (false, r)) (fun r => (false, r)) = (true, r) := rfl

theorem sign_match_none (s : Str) (h1 : ∀ r, s ≠ '-' :: r) (h2 : ∀ r, s ≠ '+' :: r) :
    parseInt.match_1 (fun _ => Bool × List Char) s
      (fun r => (true, r)) (fun r => (false, r)) (fun r => (false, r)) = (false, s) := by
  split
  · exact absurd rfl (h1 _)
  · exact absurd rfl (h2 _)
  · rfl

theorem sign_match_digit (s : Str) (h : ∀ c ∈ s, isDigit c = true) :
    parseInt.match_1 (fun _ => Bool × List Char) s
      (fun r => (true, r)) (fun r => (false, r)) (fun r => (false, r)) = (false, s) := by
  apply sign_match_none
  · intro r hr; subst hr; exact absurd (h _ List.mem_cons_self) (by decide)
  · intro r hr; subst hr; exact absurd (h _ List.mem_cons_self) (by decide)

theorem parseInt_natStr (n : Nat) : parseInt (natStr n) = some (n : Int) := by
  have hne := natStr_ne_nil n
  have hd := natStr_digits n
  have hv := digitsVal_natStr n
  have hp := digitPart_of_digits _ hd hne
  unfold parseInt
  rw [pyStrip_noWs _ (natStr_tok n).2]
  dsimp only
  rw [sign_match_digit _ hd]
  dsimp only
  rw [hp]
  dsimp only
  rw [if_neg hne, hv]
  rfl

/-! ### `format(x, '.df')` -/

theorem zeroPad_digits (w : Nat) (s : Str) (h : ∀ c ∈ s, isDigit c = true) :
    ∀ c ∈ zeroPad w s, isDigit c = true := by
  intro c hc
  unfold zeroPad at hc
  rcases List.mem_append.1 hc with h1 | h1
  · rw [(List.mem_replicate.1 h1).2]; decide
  · exact h c h1

theorem zeroPad_length (w : Nat) (s : Str) (h : s.length ≤ w) : (zeroPad w s).length = w := by
  unfold zeroPad
  rw [List.length_append, List.length_replicate]
  omega

theorem digitsVal_zeros (k : Nat) : digitsVal (List.replicate k '0') = 0 := by
  induction k with
  | zero => rfl
  | succ k ih =>
    rw [List.replicate_succ, ← List.singleton_append, digitsVal_append, ih]
    have h0 : digitsVal ['0'] = 0 := by decide
    rw [h0, Nat.zero_mul]

theorem digitsVal_zeroPad (w : Nat) (s : Str) : digitsVal (zeroPad w s) = digitsVal s := by
  unfold zeroPad
  rw [digitsVal_append, digitsVal_zeros, Nat.zero_mul, Nat.zero_add]

/-- the part of `fixedStr` after the sign, for `d > 0` -/
def fixedBody (d n : Nat) : Str :=
  natStr (n / pow10 d) ++ '.' :: zeroPad d (natStr (n % pow10 d))

theorem fixedStr_eq (d : Nat) (hd : 0 < d) (neg : Bool) (n : Nat) :
    fixedStr d neg n = (if neg then ['-'] else []) ++ fixedBody d n := by
  unfold fixedStr fixedBody
  rw [if_neg (show ¬ d = 0 by omega), List.append_assoc]

theorem fixedStr_chars (d : Nat) (neg : Bool) (n : Nat) :
    ∀ c ∈ fixedStr d neg n, c = '-' ∨ c = '.' ∨ isDigit c = true := by
  intro c hc
  unfold fixedStr at hc
  rcases List.mem_append.1 hc with h1 | h1
  · rcases List.mem_append.1 h1 with h2 | h2
    · cases neg
      · simp at h2
      · exact Or.inl (List.mem_singleton.1 h2)
    · exact Or.inr (Or.inr (natStr_digits _ c h2))
  · split at h1
    · simp at h1
    · rcases List.mem_cons.1 h1 with h2 | h2
      · exact Or.inr (Or.inl h2)
      · exact Or.inr (Or.inr (zeroPad_digits _ _ (natStr_digits _) c h2))

theorem fixedStr_tok (d : Nat) (neg : Bool) (n : Nat) : Tok (fixedStr d neg n) := by
  constructor
  · unfold fixedStr
    intro h
    have h1 := (List.append_eq_nil_iff.1 h).1
    exact natStr_ne_nil _ (List.append_eq_nil_iff.1 h1).2
  · intro c hc
    rcases fixedStr_chars d neg n c hc with h | h | h
    · subst h; decide
    · subst h; decide
    · exact digit_not_ws c h

theorem fmtFixed_tok (d : Nat) (x : Num) : Tok (fmtFixed d x) := by
  cases x with
  | fin neg m e => exact fixedStr_tok d neg _
  | inf neg =>
    cases neg
    · exact (by decide : Tok "inf".toList)
    · exact (by decide : Tok "-inf".toList)
  | nan => exact (by decide : Tok "nan".toList)

theorem splitAt1_none (p : Char → Bool) (s : Str) (h : ∀ c ∈ s, p c = false) :
    splitAt1 p s = (s, none) := by
  induction s with
  | nil => rfl
  | cons c cs ih =>
    unfold splitAt1
    rw [h c List.mem_cons_self, ih (fun x hx => h x (List.mem_cons_of_mem _ hx))]
    rfl

theorem splitAt1_at (p : Char → Bool) (a : Str) (x : Char) (b : Str)
    (h : ∀ c ∈ a, p c = false) (hx : p x = true) :
    splitAt1 p (a ++ x :: b) = (a, some b) := by
  induction a with
  | nil =>
    rw [List.nil_append]
    unfold splitAt1
    rw [hx]
    rfl
  | cons c cs ih =>
    rw [List.cons_append]
    unfold splitAt1
    rw [h c List.mem_cons_self, ih (fun y hy => h y (List.mem_cons_of_mem _ hy))]
    rfl

theorem fixedBody_chars (d n : Nat) : ∀ c ∈ fixedBody d n, c = '.' ∨ isDigit c = true := by
  intro c hc
  unfold fixedBody at hc
  rcases List.mem_append.1 hc with h1 | h1
  · exact Or.inr (natStr_digits _ c h1)
  · rcases List.mem_cons.1 h1 with h2 | h2
    · exact Or.inl h2
    · exact Or.inr (zeroPad_digits _ _ (natStr_digits _) c h2)

theorem fixedBody_sign (d : Nat) (hd : 0 < d) (neg : Bool) (n : Nat) :
    parseInt.match_1 (fun _ => Bool × List Char) (fixedStr d neg n)
      (fun r => (true, r)) (fun r => (false, r)) (fun r => (false, r)) = (neg, fixedBody d n) := by
  rw [fixedStr_eq d hd]
  cases neg
  · have hne := natStr_ne_nil (n / pow10 d)
    have hdg := natStr_digits (n / pow10 d)
    rw [if_neg (by decide), List.nil_append]
    unfold fixedBody
    generalize natStr (n / pow10 d) = s at *
    cases s with
    | nil => exact absurd rfl hne
    | cons c t =>
      have hc := hdg c List.mem_cons_self
      rw [List.cons_append]
      apply sign_match_none
      · intro r hr; injection hr with h1 h2; subst h1; exact absurd hc (by decide)
      · intro r hr; injection hr with h1 h2; subst h1; exact absurd hc (by decide)
  · rfl

theorem dot_mem_fixedBody (d n : Nat) : '.' ∈ fixedBody d n := by
  unfold fixedBody
  exact List.mem_append_right _ List.mem_cons_self

/-- reading back a written fixed-point token gives exactly the scaled integer that was written -/
theorem parseFloat_fixedStr (d : Nat) (hd : 0 < d) (neg : Bool) (n : Nat) :
    parseFloat (fixedStr d neg n) = some (.fin neg n (-(d : Int))) := by
  have hdot : '.' ∈ (fixedBody d n).map lowerAscii :=
    List.mem_map.2 ⟨'.', dot_mem_fixedBody d n, by decide⟩
  have hlow1 : ¬ ((fixedBody d n).map lowerAscii = "inf".toList ∨
      (fixedBody d n).map lowerAscii = "infinity".toList) := by
    intro h
    rcases h with h | h <;> (rw [h] at hdot; exact absurd hdot (by decide))
  have hlow2 : ¬ ((fixedBody d n).map lowerAscii = "nan".toList) := by
    intro h
    rw [h] at hdot; exact absurd hdot (by decide)
  have hE : splitAt1 (fun c => c = 'e' || c = 'E') (fixedBody d n) = (fixedBody d n, none) := by
    apply splitAt1_none
    intro c hc
    rcases fixedBody_chars d n c hc with h | h
    · subst h; decide
    · cases hp : (decide (c = 'e') || decide (c = 'E')) with
      | false => rfl
      | true =>
        exfalso
        simp only [Bool.or_eq_true, decide_eq_true_eq] at hp
        rcases hp with h1 | h1 <;> (subst h1; exact absurd h (by decide))
  have hD : splitAt1 (fun c => c = '.') (fixedBody d n) =
      (natStr (n / pow10 d), some (zeroPad d (natStr (n % pow10 d)))) := by
    unfold fixedBody
    apply splitAt1_at
    · intro c hc
      have h := natStr_digits _ c hc
      cases hp : decide (c = '.') with
      | false => rfl
      | true =>
        exfalso
        simp only [decide_eq_true_eq] at hp
        subst hp; exact absurd h (by decide)
    · decide
  have hlen : (zeroPad d (natStr (n % pow10 d))).length = d :=
    zeroPad_length _ _ (natStr_length_le _ _ (Nat.mod_lt _ (show 0 < pow10 d from Nat.pow_pos (by decide))) hd)
  have hzne : zeroPad d (natStr (n % pow10 d)) ≠ [] := by
    intro h; rw [h] at hlen; simp at hlen; omega
  have hip := digitPart_of_digits _ (natStr_digits (n / pow10 d)) (natStr_ne_nil _)
  have hfp := digitPart_of_digits _ (zeroPad_digits d _ (natStr_digits (n % pow10 d))) hzne
  have hval : digitsVal (natStr (n / pow10 d) ++ zeroPad d (natStr (n % pow10 d))) = n := by
    rw [digitsVal_append, hlen, digitsVal_zeroPad, digitsVal_natStr, digitsVal_natStr]
    exact Nat.div_add_mod' n (10 ^ d)
  unfold parseFloat
  rw [pyStrip_noWs _ (fixedStr_tok d neg n).2]
  dsimp only
  rw [fixedBody_sign d hd]
  dsimp only
  rw [if_neg hlow1, if_neg hlow2, hE]
  dsimp only
  rw [hD]
  dsimp only
  rw [if_neg (natStr_ne_nil _), if_neg hzne, hip, hfp]
  dsimp only
  rw [if_neg (fun h => natStr_ne_nil _ h.1), hval, hlen, Int.zero_sub]

/-- `float(format(x, '.df'))` is `x` rounded to `d` decimals (also for inf and nan) -/
theorem parseFloat_fmtFixed (d : Nat) (hd : 0 < d) (x : Num) :
    parseFloat (fmtFixed d x) = some (roundNum d x) := by
  cases x with
  | fin neg m e => exact parseFloat_fixedStr d hd neg _
  | inf neg =>
    cases neg
    · exact (by decide : parseFloat "inf".toList = some (.inf false))
    · exact (by decide : parseFloat "-inf".toList = some (.inf true))
  | nan => exact (by decide : parseFloat "nan".toList = some .nan)

theorem scaledRound_self (d n : Nat) : scaledRound d n (-(d : Int)) = n := by
  unfold scaledRound
  dsimp only
  rw [if_pos (by omega)]
  have h : (-(d : Int) + d).toNat = 0 := by omega
  rw [h]
  exact Nat.mul_one n

/-- the written text is a fixed point: formatting the value read back gives the same text -/
theorem fmtFixed_roundNum (d : Nat) (x : Num) : fmtFixed d (roundNum d x) = fmtFixed d x := by
  cases x with
  | fin neg m e =>
    show fixedStr d neg (scaledRound d (scaledRound d m e) (-(d : Int))) = _
    rw [scaledRound_self]
    rfl
  | inf neg => rfl
  | nan => rfl

theorem roundNum_idem (d : Nat) (x : Num) : roundNum d (roundNum d x) = roundNum d x := by
  cases x with
  | fin neg m e =>
    show Num.fin neg (scaledRound d (scaledRound d m e) (-(d : Int))) (-(d : Int)) = _
    rw [scaledRound_self]
    rfl
  | inf neg => rfl
  | nan => rfl

/-- rounding error, in integers: with `k = -(e+d) > 0` dropped digits, `|n·10^k − m| ≤ 10^k / 2`
(i.e. `|n/10^d − m·10^e| ≤ ½·10^-d`); with `e + d ≥ 0` nothing is dropped. -/
theorem scaledRound_error (d m : Nat) (e : Int) :
    (0 ≤ e + d → scaledRound d m e = m * 10 ^ (e + d).toNat) ∧
    (e + d < 0 →
      let k := (-(e + d)).toNat
      let n := scaledRound d m e
      2 * (n * 10 ^ k - m) ≤ 10 ^ k ∧ 2 * (m - n * 10 ^ k) ≤ 10 ^ k) := by
  constructor
  · intro h
    unfold scaledRound
    dsimp only
    rw [if_pos h]
    rfl
  · intro h
    dsimp only
    unfold scaledRound
    dsimp only
    rw [if_neg (by omega)]
    unfold pow10
    generalize hp : 10 ^ (-(e + d)).toNat = p
    have hpos : 0 < p := by rw [← hp]; exact Nat.pow_pos (by decide)
    have hdm := Nat.div_add_mod m p
    have hr := Nat.mod_lt m hpos
    generalize m / p = q at *
    generalize m % p = r at *
    have h1 : (q + 1) * p = p * q + p := by rw [Nat.add_mul, Nat.one_mul, Nat.mul_comm]
    have h2 : q * p = p * q := Nat.mul_comm q p
    generalize p * q = pq at *
    split
    · rw [h1]; omega
    · split
      · split
        · rw [h2]; omega
        · rw [h1]; omega
      · rw [h2]; omega

end Molli.Lemmas.Num
