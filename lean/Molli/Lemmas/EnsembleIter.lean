/-
Iterator and slice lemmas of the ensemble model.  Core Lean only.
-/
import Molli.Lemmas.Ensemble
namespace Molli.Lemmas.Ensemble
open Molli.Model.Ensemble

/-! ### one `next()` -/

theorem iterNext_repaired_lt (w : World) (k p n : Nat) (hk : w.iters[k]? = some ⟨p, n⟩) (h : p < n) :
    iterNext .repaired w k = ({ w with iters := w.iters.set k ⟨p + 1, n⟩ }, some p) := by
  simp only [iterNext, hk, h, if_true]

theorem iterNext_repaired_ge (w : World) (k p n : Nat) (hk : w.iters[k]? = some ⟨p, n⟩) (h : ¬ p < n) :
    iterNext .repaired w k = (w, none) := by
  simp only [iterNext, hk, h, if_false]

/-- `next()` on one iterator leaves every other iterator as it was -/
theorem iterNext_frame (w : World) (k j : Nat) (h : j ≠ k) :
    (iterNext .repaired w k).1.iters[j]? = w.iters[j]? := by
  simp only [iterNext]
  split
  · split
    · simp [List.getElem?_set_ne (Ne.symm h)]
    · rfl
  · rfl

theorem iterNext_length (w : World) (k : Nat) : (iterNext .repaired w k).1.iters.length = w.iters.length := by
  simp only [iterNext]
  split
  · split
    · simp
    · rfl
  · rfl

theorem get_lt_of_some {α : Type} (l : List α) (k : Nat) (x : α) (h : l[k]? = some x) : k < l.length := by
  rcases Nat.lt_or_ge k l.length with hlt | hge
  · exact hlt
  · rw [List.getElem?_eq_none hge] at h; cases h

/-! ### draining one iterator -/

theorem drain_spec (fuel : Nat) (w : World) (k p n : Nat) (hk : w.iters[k]? = some ⟨p, n⟩) (hf : n - p < fuel) :
    (drain .repaired fuel w k).2 = List.range' p (n - p) := by
  induction fuel generalizing w p with
  | zero => omega
  | succ f ih =>
    simp only [drain]
    by_cases h : p < n
    · rw [iterNext_repaired_lt w k p n hk h]
      simp only
      have hlt := get_lt_of_some _ _ _ hk
      have hk' : ({ w with iters := w.iters.set k ⟨p + 1, n⟩ } : World).iters[k]? = some ⟨p + 1, n⟩ := by
        simp [List.getElem?_set_self hlt]
      rw [ih _ (p + 1) hk' (by omega)]
      have : n - p = (n - (p + 1)) + 1 := by omega
      rw [this, List.range'_succ]
    · rw [iterNext_repaired_ge w k p n hk h]
      have : n - p = 0 := by omega
      simp [this]

theorem drain_frame (fuel : Nat) (w : World) (k j : Nat) (h : j ≠ k) :
    (drain .repaired fuel w k).1.iters[j]? = w.iters[j]? := by
  induction fuel generalizing w with
  | zero => rfl
  | succ f ih =>
    simp only [drain]
    have hfr := iterNext_frame w k j h
    split
    · rename_i w' i heq
      rw [heq] at hfr
      simp only at hfr
      rw [ih, hfr]
    · rename_i w' heq
      rw [heq] at hfr
      exact hfr

theorem drain_length (fuel : Nat) (w : World) (k : Nat) :
    (drain .repaired fuel w k).1.iters.length = w.iters.length := by
  induction fuel generalizing w with
  | zero => rfl
  | succ f ih =>
    simp only [drain]
    have hl := iterNext_length w k
    split
    · rename_i w' i heq
      rw [heq] at hl
      simp only at hl
      rw [ih, hl]
    · rename_i w' heq
      rw [heq] at hl
      exact hl

/-- a fresh iterator: created by `iter(ens)` at the end of the list, over `range(n_conformers)` -/
theorem iterNew_repaired (w : World) :
    (iterNew .repaired w).2 = w.iters.length ∧
    (iterNew .repaired w).1.iters[w.iters.length]? = some ⟨0, w.ens.nC⟩ ∧
    (iterNew .repaired w).1.ens = w.ens ∧
    (iterNew .repaired w).1.iters.length = w.iters.length + 1 ∧
    ∀ j, j < w.iters.length → (iterNew .repaired w).1.iters[j]? = w.iters[j]? := by
  refine ⟨rfl, by simp [iterNew], rfl, by simp [iterNew], ?_⟩
  intro j hj
  simp [iterNew, List.getElem?_append_left hj]

/-- `for c in ens` visits `0, 1, …, n-1` -/
theorem loop_spec (w : World) :
    (step .repaired w .loop).2 = .idxs (List.range w.ens.nC) := by
  simp only [step]
  obtain ⟨_, hget, hens, _, _⟩ := iterNew_repaired w
  have := drain_spec ((iterNew .repaired w).1.ens.nC + 1) (iterNew .repaired w).1 w.iters.length 0 w.ens.nC
    (by simp [iterNew]) (by rw [hens]; omega)
  simp only [iterNew] at this ⊢
  rw [this]
  simp [List.range_eq_range']

/-! ### nested loops -/

theorem nestedInner_spec (w : World) (i : Nat) :
    (nestedInner .repaired w i).2 = (List.range w.ens.nC).map (fun j => (i, j)) ∧
    (nestedInner .repaired w i).1.ens = w.ens ∧
    ∀ j, j < w.iters.length → (nestedInner .repaired w i).1.iters[j]? = w.iters[j]? := by
  obtain ⟨_, hget, hens, _, hold⟩ := iterNew_repaired w
  refine ⟨?_, nestedInner_ens _ _ _, ?_⟩
  · simp only [nestedInner]
    have := drain_spec ((iterNew .repaired w).1.ens.nC + 1) (iterNew .repaired w).1 w.iters.length 0 w.ens.nC
      (by simp [iterNew]) (by rw [hens]; omega)
    simp only [iterNew] at this ⊢
    rw [this]
    simp [List.range_eq_range']
  · intro j hj
    simp only [nestedInner]
    have h1 := drain_frame ((iterNew .repaired w).1.ens.nC + 1) (iterNew .repaired w).1 w.iters.length j (by omega)
    simp only [iterNew] at h1 ⊢
    rw [h1]
    simp [List.getElem?_append_left hj]

theorem nestedOuter_spec (fuel : Nat) (w : World) (k p n : Nat) (hk : w.iters[k]? = some ⟨p, n⟩)
    (hf : n - p < fuel) :
    (nestedOuter .repaired fuel w k).2 =
      (List.range' p (n - p)).flatMap (fun i => (List.range w.ens.nC).map (fun j => (i, j))) := by
  induction fuel generalizing w p with
  | zero => omega
  | succ f ih =>
    simp only [nestedOuter]
    by_cases h : p < n
    · rw [iterNext_repaired_lt w k p n hk h]
      simp only
      have hlt := get_lt_of_some _ _ _ hk
      let w' : World := { w with iters := w.iters.set k ⟨p + 1, n⟩ }
      have hk' : w'.iters[k]? = some ⟨p + 1, n⟩ := by simp [w', List.getElem?_set_self hlt]
      obtain ⟨hps, hens, hold⟩ := nestedInner_spec w' p
      have hk2 : (nestedInner .repaired w' p).1.iters[k]? = some ⟨p + 1, n⟩ := by
        rw [hold k (by simp [w']; exact hlt)]; exact hk'
      have := ih (nestedInner .repaired w' p).1 (p + 1) hk2 (by omega)
      show (nestedInner .repaired w' p).2 ++ (nestedOuter .repaired f (nestedInner .repaired w' p).1 k).2 = _
      rw [this, hps, hens]
      have e : n - p = (n - (p + 1)) + 1 := by omega
      rw [e, List.range'_succ, List.flatMap_cons]
    · rw [iterNext_repaired_ge w k p n hk h]
      have : n - p = 0 := by omega
      simp [this]

/-- `for a in ens: for b in ens` visits the full product in lexicographic order -/
theorem nested_spec (w : World) :
    (step .repaired w .nestedLoop).2 =
      .pairs ((List.range w.ens.nC).flatMap (fun i => (List.range w.ens.nC).map (fun j => (i, j)))) := by
  simp only [step, nested]
  obtain ⟨_, hget, hens, _, _⟩ := iterNew_repaired w
  have := nestedOuter_spec ((iterNew .repaired w).1.ens.nC + 1) (iterNew .repaired w).1 w.iters.length 0 w.ens.nC
    (by simp [iterNew]) (by rw [hens]; omega)
  simp only [iterNew] at this ⊢
  rw [this]
  simp [List.range_eq_range']

/-! ### slices -/

theorem pyRange_pos (fuel : Nat) (s e st : Int) (hst : 0 < st) : ∀ x ∈ pyRange fuel s e st, s ≤ x ∧ x < e := by
  induction fuel generalizing s with
  | zero => intro x hx; cases hx
  | succ f ih =>
    intro x hx
    simp only [pyRange] at hx
    split at hx
    · rename_i hc
      simp only [List.mem_cons] at hx
      rcases hx with rfl | hx
      · omega
      · have := ih (s + st) x hx; omega
    · cases hx

theorem pyRange_neg (fuel : Nat) (s e st : Int) (hst : st < 0) : ∀ x ∈ pyRange fuel s e st, e < x ∧ x ≤ s := by
  induction fuel generalizing s with
  | zero => intro x hx; cases hx
  | succ f ih =>
    intro x hx
    simp only [pyRange] at hx
    split at hx
    · rename_i hc
      simp only [List.mem_cons] at hx
      rcases hx with rfl | hx
      · omega
      · have := ih (s + st) x hx; omega
    · cases hx

theorem pyRange_unit (n : Nat) : ∀ (fuel s : Nat), s + fuel = n → pyRange fuel (s : Int) (n : Int) 1 = (List.range' s fuel).map Int.ofNat := by
  intro fuel
  induction fuel with
  | zero => intro s _; rfl
  | succ f ih =>
    intro s hs
    simp only [pyRange]
    have : ((1 : Int) > 0 ∧ (s : Int) < (n : Int)) ∨ ((1 : Int) < 0 ∧ (s : Int) > (n : Int)) := Or.inl ⟨by decide, by omega⟩
    rw [if_pos this]
    have := ih (s + 1) (by omega)
    simp only [Int.natCast_add, Int.natCast_one] at this
    rw [this, List.range'_succ]
    rfl

end Molli.Lemmas.Ensemble
