/-
The brute-force induced-embedding enumerator of `Molli.Model.Graph` returns exactly the valid maps,
each once — for ANY node / edge compatibility predicates (property C15).
Core Lean only.
-/
import Molli.Model.Graph
namespace Molli.Lemmas.Graph
open Molli.Model.Graph

section
variable {NA NB EA EB : Type} (nodeOK : NA → NB → Bool) (edgeOK : EA → EB → Bool)
  (P : LGraph NB EB) (G : LGraph NA EA)

/-- `φ` is a valid image of the pattern atoms `0 … k-1`: injective, node-compatible, and for every
pair of pattern atoms bonded ↦ bonded (compatible attributes), non-bonded ↦ non-bonded -/
structure IsPartial (k : Nat) (φ : List Nat) : Prop where
  len : φ.length = k
  inj : φ.Nodup
  node : ∀ i, i < k → nodeCond nodeOK P.nodes G.nodes i (φ.getD i 0) = true
  edge : ∀ i j, i < j → j < k →
    edgeCond edgeOK P.bonds G.bonds i j (φ.getD i 0) (φ.getD j 0) = true

theorem getD_snoc_lt {ψ : List Nat} {x i : Nat} (h : i < ψ.length) :
    (ψ ++ [x]).getD i 0 = ψ.getD i 0 := by
  simp [List.getD_eq_getElem?_getD, List.getElem?_append_left h]

theorem getD_snoc_eq {ψ : List Nat} {x : Nat} : (ψ ++ [x]).getD ψ.length 0 = x := by
  simp [List.getD_eq_getElem?_getD]

theorem isPartial_snoc (ψ : List Nat) (x k : Nat) (hlen : ψ.length = k) :
    IsPartial nodeOK edgeOK P G (k + 1) (ψ ++ [x]) ↔
      IsPartial nodeOK edgeOK P G k ψ ∧ extOK nodeOK edgeOK P G ψ x = true := by
  subst hlen
  constructor
  · intro h
    have hnd := h.inj
    rw [List.nodup_append] at hnd
    refine ⟨⟨rfl, hnd.1, ?_, ?_⟩, ?_⟩
    · intro i hi
      have := h.node i (by omega)
      rwa [getD_snoc_lt hi] at this
    · intro i j hij hj
      have := h.edge i j hij (by omega)
      rwa [getD_snoc_lt (by omega), getD_snoc_lt hj] at this
    · unfold extOK
      simp only [Bool.and_eq_true, Bool.not_eq_true', List.all_eq_true, List.mem_range]
      refine ⟨⟨?_, ?_⟩, ?_⟩
      · have : x ∉ ψ := fun hx => hnd.2.2 x hx x (by simp) rfl
        simpa using this
      · have := h.node ψ.length (by omega)
        rwa [getD_snoc_eq] at this
      · intro i hi
        have := h.edge i ψ.length hi (by omega)
        rwa [getD_snoc_lt hi, getD_snoc_eq] at this
  · rintro ⟨h, hx⟩
    unfold extOK at hx
    simp only [Bool.and_eq_true, Bool.not_eq_true', List.all_eq_true, List.mem_range] at hx
    obtain ⟨⟨hx1, hx2⟩, hx3⟩ := hx
    have hxn : x ∉ ψ := by simpa using hx1
    refine ⟨by simp, ?_, ?_, ?_⟩
    · rw [List.nodup_append]
      refine ⟨h.inj, by simp, ?_⟩
      intro a ha b hb hab
      simp only [List.mem_singleton] at hb
      subst hb; subst hab; exact hxn ha
    · intro i hi
      by_cases hi' : i < ψ.length
      · rw [getD_snoc_lt hi']; exact h.node i hi'
      · have : i = ψ.length := by omega
        subst this; rw [getD_snoc_eq]; exact hx2
    · intro i j hij hj
      by_cases hj' : j < ψ.length
      · rw [getD_snoc_lt (by omega), getD_snoc_lt hj']; exact h.edge i j hij hj'
      · have : j = ψ.length := by omega
        subst this
        rw [getD_snoc_lt hij, getD_snoc_eq]; exact hx3 i hij

theorem extOK_lt {ψ : List Nat} {x : Nat} (h : extOK nodeOK edgeOK P G ψ x = true) : x < G.n := by
  unfold extOK at h
  simp only [Bool.and_eq_true] at h
  have h2 := h.1.2
  unfold nodeCond at h2
  split at h2
  · rename_i np ng _ hg
    have := (List.getElem?_eq_some_iff.1 hg).1
    exact this
  · simp at h2

theorem mem_partials (k : Nat) : ∀ φ : List Nat,
    φ ∈ partials nodeOK edgeOK P G k ↔ IsPartial nodeOK edgeOK P G k φ := by
  induction k with
  | zero =>
    intro φ
    simp only [partials, List.mem_singleton]
    constructor
    · rintro rfl; exact ⟨rfl, by simp, by intro i hi; omega, by intro i j _ hj; omega⟩
    · intro h; exact List.length_eq_zero_iff.1 h.len
  | succ k ih =>
    intro φ
    simp only [partials, List.mem_flatMap, List.mem_map, List.mem_filter, List.mem_range]
    constructor
    · rintro ⟨ψ, hψ, x, ⟨_, hx⟩, rfl⟩
      have hp := (ih ψ).1 hψ
      exact (isPartial_snoc nodeOK edgeOK P G ψ x k hp.len).2 ⟨hp, hx⟩
    · intro h
      rcases List.eq_nil_or_concat φ with rfl | ⟨ψ, x, rfl⟩
      · have := h.len; simp at this
      · rw [List.concat_eq_append] at h ⊢
        have hl : ψ.length = k := by have := h.len; simp at this; exact this
        obtain ⟨hp, hx⟩ := (isPartial_snoc nodeOK edgeOK P G ψ x k hl).1 h
        exact ⟨ψ, (ih ψ).2 hp, x, ⟨extOK_lt nodeOK edgeOK P G hx, hx⟩, rfl⟩

theorem nodup_partials (k : Nat) : (partials nodeOK edgeOK P G k).Nodup := by
  induction k with
  | zero => simp [partials]
  | succ k ih =>
    simp only [partials]
    unfold List.Nodup
    rw [List.pairwise_flatMap]
    constructor
    · intro ψ _
      rw [List.pairwise_map]
      have : ((List.range G.n).filter (extOK nodeOK edgeOK P G ψ)).Nodup :=
        List.Nodup.sublist List.filter_sublist List.nodup_range
      refine List.Pairwise.imp ?_ this
      intro a b hab h
      exact hab (by simpa using h)
    · refine List.Pairwise.imp ?_ ih
      intro ψ₁ ψ₂ hne a ha b hb hab
      simp only [List.mem_map] at ha hb
      obtain ⟨x, _, rfl⟩ := ha
      obtain ⟨y, _, rfl⟩ := hb
      have := List.append_inj_left' hab rfl
      exact hne this

end
end Molli.Lemmas.Graph
