/-
Lemmas about the ensemble model (`Molli.Model.Ensemble`): what `rect` means, that every
operation keeps it, frame facts of the writes through a conformer, iterator facts.
Core Lean only.
-/
import Molli.Model.Ensemble
namespace Molli.Lemmas.Ensemble
open Molli.Model.Ensemble

/-! ### rectangularity as a proposition -/

def ConfOk (nA : Nat) (c : Conf) : Prop := c.length = nA ∧ ∀ r ∈ c, r.length = 3

theorem confOk_iff (nA : Nat) (c : Conf) : confOk nA c = true ↔ ConfOk nA c := by
  simp [confOk, ConfOk, List.all_eq_true]

/-- the three arrays agree on the number of conformers and every row has `nA` atoms (of three numbers) -/
structure Rect (e : Ens) : Prop where
  charges_len : e.charges.length = e.coords.length
  weights_len : e.weights.length = e.coords.length
  confs : ∀ c ∈ e.coords, ConfOk e.nA c
  charge_rows : ∀ q ∈ e.charges, q.length = e.nA

theorem rect_iff (e : Ens) : e.rect = true ↔ Rect e := by
  constructor
  · intro h
    simp only [Ens.rect, Bool.and_eq_true, beq_iff_eq, List.all_eq_true] at h
    exact ⟨h.1.1.1, h.1.1.2, fun c hc => (confOk_iff _ _).mp (h.1.2 c hc), fun q hq => by simpa using h.2 q hq⟩
  · intro h
    simp only [Ens.rect, Bool.and_eq_true, beq_iff_eq, List.all_eq_true]
    exact ⟨⟨⟨h.charges_len, h.weights_len⟩, fun c hc => (confOk_iff _ _).mpr (h.confs c hc)⟩,
      fun q hq => by simpa using h.charge_rows q hq⟩

/-! ### allocation -/

theorem nanConf_ok (nA : Nat) : ConfOk nA (nanConf nA) := by
  constructor
  · simp [nanConf]
  · intro r hr
    simp only [nanConf, List.mem_replicate] at hr
    rw [hr.2]; rfl

theorem rect_alloc (nA nC : Nat) : Rect (alloc nA nC) := by
  refine ⟨by simp [alloc], by simp [alloc, ones], ?_, ?_⟩
  · intro c hc
    simp only [alloc, List.mem_replicate] at hc
    rw [hc.2]; exact nanConf_ok nA
  · intro q hq
    simp only [alloc, List.mem_replicate] at hq
    rw [hq.2]; simp [zeros, alloc]

theorem rect_allocFromMol (nA k : Nat) : Rect (allocFromMol nA k) := rect_alloc _ _

theorem rect_allocFromMols (ms : List Geom) (e : Ens) (h : allocFromMols ms = some e) : Rect e := by
  cases ms with
  | nil => simp [allocFromMols] at h
  | cons m0 rest =>
    simp only [allocFromMols] at h
    split at h
    · rename_i hall
      injection h with h
      subst h
      simp only [List.all_eq_true, Bool.and_eq_true, beq_iff_eq] at hall
      refine ⟨by simp, by simp [ones], ?_, ?_⟩
      · intro c hc
        obtain ⟨m, hm, rfl⟩ := List.mem_map.mp hc
        exact (confOk_iff _ _).mp (hall m hm).1
      · intro q hq
        obtain ⟨m, hm, rfl⟩ := List.mem_map.mp hq
        exact (hall m hm).2
    · cases h

/-! ### growing -/

theorem rect_append (e : Ens) (g : Geom) (e' : Ens) (hr : Rect e) (h : append .repaired e g = some e') : Rect e' := by
  simp only [append] at h
  split at h
  · rename_i hc
    simp only [Bool.and_eq_true, beq_iff_eq] at hc
    injection h with h
    subst h
    refine ⟨by simp [hr.charges_len], by simp [hr.weights_len], ?_, ?_⟩
    · intro c hcm
      simp only [List.mem_append, List.mem_singleton] at hcm
      rcases hcm with hcm | rfl
      · exact hr.confs c hcm
      · exact (confOk_iff _ _).mp hc.1
    · intro q hq
      simp only [List.mem_append, List.mem_singleton] at hq
      rcases hq with hq | rfl
      · exact hr.charge_rows q hq
      · exact hc.2
  · cases h

theorem rect_extendEns (e o : Ens) (e' : Ens) (hr : Rect e) (h : extendEns .repaired e o = some e') : Rect e' := by
  simp only [extendEns] at h
  split at h
  · rename_i hc
    simp only [Bool.and_eq_true, beq_iff_eq, List.all_eq_true] at hc
    injection h with h
    subst h
    refine ⟨by simp [hr.charges_len, hc.1.2], by simp [hr.weights_len, hc.2], ?_, ?_⟩
    · intro c hcm
      simp only [List.mem_append] at hcm
      rcases hcm with hcm | hcm
      · exact hr.confs c hcm
      · exact (confOk_iff _ _).mp (hc.1.1.1.2 c hcm)
    · intro q hq
      simp only [List.mem_append] at hq
      rcases hq with hq | hq
      · exact hr.charge_rows q hq
      · simpa using hc.1.1.2 q hq
  · cases h

theorem rect_extendGeoms (e : Ens) (gs : List Geom) (e' : Ens) (hr : Rect e)
    (h : extendGeoms .repaired e gs = some e') : Rect e' := by
  simp only [extendGeoms] at h
  split at h
  · cases h
  · split at h
    · rename_i hc
      simp only [List.all_eq_true, Bool.and_eq_true, beq_iff_eq] at hc
      injection h with h
      subst h
      refine ⟨by simp [hr.charges_len], by simp [hr.weights_len, ones], ?_, ?_⟩
      · intro c hcm
        simp only [List.mem_append, List.mem_map] at hcm
        rcases hcm with hcm | ⟨g, hg, rfl⟩
        · exact hr.confs c hcm
        · exact (confOk_iff _ _).mp (hc g hg).1
      · intro q hq
        simp only [List.mem_append, List.mem_map] at hq
        rcases hq with hq | ⟨g, hg, rfl⟩
        · exact hr.charge_rows q hq
        · exact (hc g hg).2
    · cases h

/-! ### transformations keep every length -/

theorem rect_mapRows (f : Row → Row) (hf : ∀ r, r.length = 3 → (f r).length = 3) (e : Ens) (hr : Rect e) :
    Rect (mapRows f e) := by
  refine ⟨by simp [mapRows, hr.charges_len], by simp [mapRows, hr.weights_len], ?_, hr.charge_rows⟩
  intro c hc
  simp only [mapRows, List.mem_map] at hc
  obtain ⟨c0, hc0, rfl⟩ := hc
  have := hr.confs c0 hc0
  refine ⟨by simp [this.1, mapRows], ?_⟩
  intro r hrm
  obtain ⟨r0, hr0, rfl⟩ := List.mem_map.mp hrm
  exact hf r0 (this.2 r0 hr0)

theorem rowAdd_length (r v : Row) (h : r.length = 3) : (rowAdd r v).length = 3 := by
  unfold rowAdd
  split <;> simp_all

theorem rowMul_length (r : Row) (m : Mat) : (rowMul r m).length = 3 := rfl

theorem zipConfs_length {α : Type} (f : Conf → α → Conf) (cs : List Conf) (as : List α) :
    (zipConfs f cs as).length = cs.length := by
  induction cs generalizing as with
  | nil => cases as <;> rfl
  | cons c cs ih => cases as <;> simp [zipConfs, ih]

theorem zipConfs_ok {α : Type} (nA : Nat) (f : Conf → α → Conf) (hf : ∀ c a, ConfOk nA c → ConfOk nA (f c a))
    (cs : List Conf) (as : List α) (h : ∀ c ∈ cs, ConfOk nA c) : ∀ c ∈ zipConfs f cs as, ConfOk nA c := by
  induction cs generalizing as with
  | nil => cases as <;> simp [zipConfs]
  | cons c cs ih =>
    cases as with
    | nil => simpa [zipConfs] using h
    | cons a as =>
      intro c' hc'
      simp only [zipConfs, List.mem_cons] at hc'
      rcases hc' with rfl | hc'
      · exact hf c a (h c (List.mem_cons_self))
      · exact ih as (fun c0 h0 => h c0 (List.mem_cons_of_mem _ h0)) c' hc'

theorem confOk_map (nA : Nat) (f : Row → Row) (hf : ∀ r, r.length = 3 → (f r).length = 3) (c : Conf)
    (h : ConfOk nA c) : ConfOk nA (c.map f) := by
  refine ⟨by simp [h.1], ?_⟩
  intro r hr
  obtain ⟨r0, hr0, rfl⟩ := List.mem_map.mp hr
  exact hf r0 (h.2 r0 hr0)

theorem rect_scale (e : Ens) (f : Rat) (a : Bool) (e' : Ens) (hr : Rect e) (h : scale e f a = some e') : Rect e' := by
  simp only [scale] at h
  split at h
  · cases h
  · split at h
    · cases h
    · injection h with h
      subst h
      exact rect_mapRows _ (fun r hr3 => by simp [hr3]) e hr

theorem rect_translate (e : Ens) (x : Row) (e' : Ens) (hr : Rect e) (h : translate e x = some e') : Rect e' := by
  simp only [translate] at h
  split at h
  · injection h with h
    subst h
    exact rect_mapRows _ (fun r hr3 => by simp [hr3, rowAdd_length]) e hr
  · cases h

theorem rect_rotate (e : Ens) (m : Mat) (e' : Ens) (hr : Rect e) (h : rotate e m = some e') : Rect e' := by
  simp only [rotate] at h
  split at h
  · injection h with h
    subst h
    exact rect_mapRows _ (fun r hr3 => by simp [hr3, rowMul_length]) e hr
  · cases h

theorem rect_translateEach (e : Ens) (vs : List Row) (e' : Ens) (hr : Rect e)
    (h : translateEach e vs = some e') : Rect e' := by
  simp only [translateEach] at h
  split at h
  · injection h with h
    subst h
    refine ⟨by simp [zipConfs_length, hr.charges_len], by simp [zipConfs_length, hr.weights_len], ?_, hr.charge_rows⟩
    exact zipConfs_ok e.nA _ (fun c a hc => confOk_map _ _ (fun r hr3 => by simp [hr3, rowAdd_length]) c hc) _ _ hr.confs
  · cases h

theorem rect_rotateEach (e : Ens) (ms : List Mat) (e' : Ens) (hr : Rect e)
    (h : rotateEach e ms = some e') : Rect e' := by
  simp only [rotateEach] at h
  split at h
  · injection h with h
    subst h
    refine ⟨by simp [zipConfs_length, hr.charges_len], by simp [zipConfs_length, hr.weights_len], ?_, hr.charge_rows⟩
    exact zipConfs_ok e.nA _ (fun c a hc => confOk_map _ _ (fun r hr3 => by simp [hr3, rowMul_length]) c hc) _ _ hr.confs
  · cases h

/-! ### setters -/

theorem rect_setCoords (e : Ens) (cs : List Conf) (e' : Ens) (hr : Rect e) (h : setCoords e cs = some e') : Rect e' := by
  simp only [setCoords] at h
  split at h
  · rename_i hc
    injection h with h
    subst h
    simp only [Ens.nC, List.all_eq_true] at hc
    exact ⟨by simp [hr.charges_len, hc.1], by simp [hr.weights_len, hc.1],
      fun c hcm => (confOk_iff _ _).mp (hc.2 c hcm), hr.charge_rows⟩
  · cases h

theorem rect_setWeights (e : Ens) (ws : List Num) (e' : Ens) (hr : Rect e) (h : setWeights e ws = some e') : Rect e' := by
  simp only [setWeights] at h
  split at h
  · rename_i hc
    injection h with h
    subst h
    exact ⟨hr.charges_len, by simp [hc, hr.weights_len], hr.confs, hr.charge_rows⟩
  · cases h

theorem rect_setCharges (e : Ens) (qs : List (List Num)) (e' : Ens) (hr : Rect e) (h : setCharges e qs = some e') : Rect e' := by
  simp only [setCharges] at h
  split at h
  · rename_i hc
    injection h with h
    subst h
    simp only [List.all_eq_true, beq_iff_eq] at hc
    exact ⟨by simp [hc.1, hr.charges_len], hr.weights_len, hr.confs, fun q hq => hc.2 q hq⟩
  · cases h

/-! ### writes through a conformer -/

theorem mem_set {α : Type} (l : List α) (i : Nat) (x y : α) (h : y ∈ l.set i x) : y = x ∨ y ∈ l := by
  induction l generalizing i with
  | nil => simp at h
  | cons a l ih =>
    cases i with
    | zero =>
      simp only [List.set_cons_zero, List.mem_cons] at h
      rcases h with h | h
      · exact Or.inl h
      · exact Or.inr (List.mem_cons_of_mem _ h)
    | succ i =>
      simp only [List.set_cons_succ, List.mem_cons] at h
      rcases h with h | h
      · exact Or.inr (h ▸ List.mem_cons_self)
      · rcases ih i h with h' | h'
        · exact Or.inl h'
        · exact Or.inr (List.mem_cons_of_mem _ h')

theorem rect_writeCoords (e : Ens) (i : Nat) (c : Conf) (e' : Ens) (hr : Rect e)
    (h : writeCoords e i c = some e') : Rect e' := by
  simp only [writeCoords] at h
  split at h
  · rename_i hc
    injection h with h
    subst h
    refine ⟨by simp [hr.charges_len], by simp [hr.weights_len], ?_, hr.charge_rows⟩
    intro c' hc'
    rcases mem_set _ _ _ _ hc' with rfl | hm
    · exact (confOk_iff _ _).mp hc.2
    · exact hr.confs c' hm
  · cases h

theorem rect_writeCharges (e : Ens) (i : Nat) (q : List Num) (e' : Ens) (hr : Rect e)
    (h : writeCharges .repaired e i q = some e') : Rect e' := by
  simp only [writeCharges] at h
  split at h
  · rename_i hc
    injection h with h
    subst h
    refine ⟨by simp [hr.charges_len], hr.weights_len, hr.confs, ?_⟩
    intro q' hq'
    rcases mem_set _ _ _ _ hq' with rfl | hm
    · exact hc.2.2
    · exact hr.charge_rows q' hm
  · cases h

theorem rect_writeAtom (e : Ens) (i a : Nat) (xyz : Row) (e' : Ens) (hr : Rect e)
    (h : writeAtom e i a xyz = some e') : Rect e' := by
  simp only [writeAtom] at h
  split at h
  · rename_i c hci
    split at h
    · rename_i hc
      injection h with h
      subst h
      have hcm : c ∈ e.coords := List.mem_of_getElem? hci
      have hok := hr.confs c hcm
      refine ⟨by simp [hr.charges_len], by simp [hr.weights_len], ?_, hr.charge_rows⟩
      intro c' hc'
      rcases mem_set _ _ _ _ hc' with rfl | hm
      · refine ⟨by simp [hok.1], ?_⟩
        intro r hrm
        rcases mem_set _ _ _ _ hrm with rfl | hm2
        · exact hc.2
        · exact hok.2 r hm2
      · exact hr.confs c' hm
    · cases h
  · cases h

theorem rect_writeCharge (e : Ens) (i a : Nat) (x : Num) (e' : Ens) (hr : Rect e)
    (h : writeCharge e i a x = some e') : Rect e' := by
  simp only [writeCharge] at h
  split at h
  · rename_i c q hci hqi
    split at h
    · injection h with h
      subst h
      have hqm : q ∈ e.charges := List.mem_of_getElem? hqi
      refine ⟨by simp [hr.charges_len], hr.weights_len, hr.confs, ?_⟩
      intro q' hq'
      rcases mem_set _ _ _ _ hq' with rfl | hm
      · simp [hr.charge_rows q hqm]
      · exact hr.charge_rows q' hm
    · cases h
  · cases h

/-! ### broadcast arguments -/

theorem rect_bind {α : Type} (o : Option α) (f : α → Option Ens) (e' : Ens) (P : Ens → Prop)
    (hf : ∀ a e', f a = some e' → P e') (h : o.bind f = some e') : P e' := by
  cases o with
  | none => cases h
  | some a => exact hf a e' h

theorem rect_translateB (e : Ens) (x : List Num) (e' : Ens) (hr : Rect e) (h : translateB e x = some e') : Rect e' :=
  rect_bind _ _ e' Rect (fun a e'' h' => rect_translate e a e'' hr h') h

theorem rect_translateEachB (e : Ens) (vs : List (List Num)) (e' : Ens) (hr : Rect e)
    (h : translateEachB e vs = some e') : Rect e' :=
  rect_bind _ _ e' Rect (fun a e'' h' =>
    rect_bind _ _ e'' Rect (fun b e3 h3 => rect_translateEach e b e3 hr h3) h') h

theorem rect_rotateB (e : Ens) (m : Mat) (e' : Ens) (hr : Rect e) (h : rotateB e m = some e') : Rect e' :=
  rect_bind _ _ e' Rect (fun a e'' h' => rect_rotate e a e'' hr h') h

theorem rect_rotateEachB (e : Ens) (ms : List Mat) (e' : Ens) (hr : Rect e) (h : rotateEachB e ms = some e') : Rect e' := by
  simp only [rotateEachB] at h
  split at h
  · exact rect_bind _ _ e' Rect (fun a e'' h' =>
      rect_bind _ _ e'' Rect (fun b e3 h3 => rect_rotateEach e b e3 hr h3) h') h
  · cases h

theorem rect_setCoordsB (e : Ens) (cs : List Conf) (e' : Ens) (hr : Rect e) (h : setCoordsB e cs = some e') : Rect e' := by
  simp only [setCoordsB] at h
  split at h
  · exact rect_bind _ _ e' Rect (fun a e'' h' => rect_setCoords e a e'' hr h') h
  · cases h

theorem rect_setWeightsB (e : Ens) (ws : List Num) (e' : Ens) (hr : Rect e) (h : setWeightsB e ws = some e') : Rect e' :=
  rect_bind _ _ e' Rect (fun a e'' h' => rect_setWeights e a e'' hr h') h

theorem rect_setChargesB (e : Ens) (qs : List (List Num)) (e' : Ens) (hr : Rect e) (h : setChargesB e qs = some e') : Rect e' := by
  simp only [setChargesB] at h
  split at h
  · exact rect_bind _ _ e' Rect (fun a e'' h' => rect_setCharges e a e'' hr h') h
  · cases h

/-- the constructor with array arguments yields a rectangular ensemble or raises -/
theorem rect_optSet {α : Type} (f : Ens → α → Option Ens) (hf : ∀ e a e', Rect e → f e a = some e' → Rect e')
    (e : Ens) (a : Option α) (e' : Ens) (hr : Rect e) (h : optSet f e a = some e') : Rect e' := by
  cases a with
  | none => simp only [optSet] at h; injection h with h; subst h; exact hr
  | some x => exact hf e x e' hr h

theorem rect_ctorKw (nA nC : Nat) (cs : Option (List Conf)) (qs : Option (List (List Num))) (ws : Option (List Num)) (e : Ens)
    (h : ctorKw nA nC cs qs ws = some e) : Rect e := by
  simp only [ctorKw] at h
  cases h1 : optSet setCoordsB (alloc nA nC) cs with
  | none => rw [h1] at h; cases h
  | some e1 =>
    rw [h1] at h
    simp only [Option.bind_some] at h
    have r1 := rect_optSet setCoordsB (fun e a e' hr hh => rect_setCoordsB e a e' hr hh) _ cs e1 (rect_alloc nA nC) h1
    cases h2 : optSet setChargesB e1 qs with
    | none => rw [h2] at h; cases h
    | some e2 =>
      rw [h2] at h
      simp only [Option.bind_some] at h
      have r2 := rect_optSet setChargesB (fun e a e' hr hh => rect_setChargesB e a e' hr hh) _ qs e2 r1 h2
      exact rect_optSet setWeightsB (fun e a e' hr hh => rect_setWeightsB e a e' hr hh) _ ws e r2 h

/-! ### one step -/

theorem upd_ens (w : World) (o : Option Ens) :
    (upd w o).1.ens = o.getD w.ens ∧ (upd w o).1.iters = w.iters ∧ (upd w o).1.cursor = w.cursor := by
  cases o <;> simp [upd]

theorem rect_upd (w : World) (o : Option Ens) (hr : Rect w.ens) (h : ∀ e', o = some e' → Rect e') :
    Rect (upd w o).1.ens := by
  cases o with
  | none => exact hr
  | some e' => exact h e' rfl

theorem iterNext_ens (v : Variant) (w : World) (k : Nat) : (iterNext v w k).1.ens = w.ens := by
  cases v
  · simp only [iterNext]; split <;> rfl
  · simp only [iterNext]
    split
    · split <;> rfl
    · rfl

theorem iterNew_ens (v : Variant) (w : World) : (iterNew v w).1.ens = w.ens := by
  cases v <;> rfl

theorem drain_ens (v : Variant) (fuel : Nat) (w : World) (k : Nat) : (drain v fuel w k).1.ens = w.ens := by
  induction fuel generalizing w with
  | zero => rfl
  | succ f ih =>
    simp only [drain]
    have h := iterNext_ens v w k
    split
    · rename_i w' i heq
      rw [heq] at h
      simp only at h
      rw [ih, h]
    · rename_i w' heq
      rw [heq] at h
      exact h

theorem nestedInner_ens (v : Variant) (w : World) (i : Nat) : (nestedInner v w i).1.ens = w.ens := by
  simp only [nestedInner]
  rw [drain_ens, iterNew_ens]

theorem nestedOuter_ens (v : Variant) (fuel : Nat) (w : World) (k : Nat) : (nestedOuter v fuel w k).1.ens = w.ens := by
  induction fuel generalizing w with
  | zero => rfl
  | succ f ih =>
    simp only [nestedOuter]
    have h := iterNext_ens v w k
    split
    · rename_i w' i heq
      rw [heq] at h
      simp only at h
      rw [ih, nestedInner_ens, h]
    · rename_i w' heq
      rw [heq] at h
      exact h

theorem nested_ens (v : Variant) (w : World) : (nested v w).1.ens = w.ens := by
  simp only [nested]
  rw [nestedOuter_ens, iterNew_ens]

/-- **every operation keeps the ensemble rectangular** (repaired code) -/
theorem rect_step (w : World) (op : Op) (hr : Rect w.ens) (ho : ∀ e ∈ w.others, Rect e) :
    Rect (step .repaired w op).1.ens := by
  cases op with
  | ctorAtoms nA nC => exact rect_alloc nA nC
  | ctorMol nA k => exact rect_allocFromMol nA k
  | ctorMols ms =>
    simp only [step]
    split
    · rename_i e he; exact rect_allocFromMols ms e he
    · exact hr
  | ctorCopy => exact hr
  | append g => exact rect_upd w _ hr (fun e' h => rect_append _ _ e' hr h)
  | extendEns o => exact rect_upd w _ hr (fun e' h => rect_extendEns _ _ e' hr h)
  | extendSelf => exact rect_upd w _ hr (fun e' h => rect_extendEns _ _ e' hr h)
  | extendGeoms gs => exact rect_upd w _ hr (fun e' h => rect_extendGeoms _ _ e' hr h)
  | scale f a => exact rect_upd w _ hr (fun e' h => rect_scale _ _ _ e' hr h)
  | invert => exact rect_upd w _ hr (fun e' h => rect_scale _ _ _ e' hr h)
  | translate x => exact rect_upd w _ hr (fun e' h => rect_translateB _ _ e' hr h)
  | translateEach vs => exact rect_upd w _ hr (fun e' h => rect_translateEachB _ _ e' hr h)
  | rotate m => exact rect_upd w _ hr (fun e' h => rect_rotateB _ _ e' hr h)
  | rotateEach ms => exact rect_upd w _ hr (fun e' h => rect_rotateEachB _ _ e' hr h)
  | setCoords cs => exact rect_upd w _ hr (fun e' h => rect_setCoordsB _ _ e' hr h)
  | setWeights ws => exact rect_upd w _ hr (fun e' h => rect_setWeightsB _ _ e' hr h)
  | setCharges qs => exact rect_upd w _ hr (fun e' h => rect_setChargesB _ _ e' hr h)
  | writeCoords i c => exact rect_upd w _ hr (fun e' h => rect_writeCoords _ _ _ e' hr h)
  | writeCharges i q => exact rect_upd w _ hr (fun e' h => rect_writeCharges _ _ _ e' hr h)
  | writeAtom i a xyz => exact rect_upd w _ hr (fun e' h => rect_writeAtom _ _ _ _ e' hr h)
  | writeCharge i a x => exact rect_upd w _ hr (fun e' h => rect_writeCharge _ _ _ _ e' hr h)
  | read i => simp only [step]; split <;> exact hr
  | slice a b c => simp only [step]; split <;> exact hr
  | dump i => simp only [step]; split <;> exact hr
  | serialise => simp only [step]; split <;> exact hr
  | iterNew => simp only [step]; rw [iterNew_ens]; exact hr
  | iterNext k =>
    simp only [step]
    split
    · exact hr
    · rw [iterNext_ens]; exact hr
  | loop => simp only [step]; rw [drain_ens, iterNew_ens]; exact hr
  | nestedLoop => simp only [step]; rw [nested_ens]; exact hr
  | ctorCopyKw => exact hr
  | swap k =>
    simp only [step]
    split
    · rename_i o ho'; exact ho o (List.mem_of_getElem? ho')
    · exact hr
  | iterNextKeep k =>
    simp only [step]
    split
    · exact hr
    · show Rect (iterNext .repaired w k).1.ens
      rw [iterNext_ens]; exact hr
  | loopKeep =>
    simp only [step]
    show Rect (drain .repaired _ _ _).1.ens
    rw [drain_ens, iterNew_ens]; exact hr
  | readKept j => simp only [step]; (repeat' split) <;> exact hr
  | writeKept j c =>
    simp only [step]
    split
    · exact rect_upd w _ hr (fun e' h => rect_writeCoords _ _ _ e' hr h)
    · exact hr
  | dumpKept j => simp only [step]; (repeat' split) <;> exact hr
  | ctorAtomsKw nA nC cs qs ws =>
    simp only [step]
    split
    · rename_i e he
      exact rect_ctorKw nA nC cs qs ws e he
    · exact hr
  | readAt i => simp only [step]; (repeat' split) <;> exact hr
  | writeAt i c =>
    simp only [step]
    split
    · exact rect_upd w _ hr (fun e' h => rect_writeCoords _ _ _ e' hr h)
    · exact hr
  | reload =>
    simp only [step, reloaded]
    split
    · rename_i e he
      split at he
      · injection he with he; subst he; exact hr
      · cases he
    · exact hr

/-! ### several live ensembles, kept conformers: what iteration machinery never touches -/

/-- `w'` differs from `w` at most in its iterator objects and cursor -/
def Same (w w' : World) : Prop := w'.ens = w.ens ∧ w'.others = w.others ∧ w'.kept = w.kept

theorem Same.refl (w : World) : Same w w := ⟨rfl, rfl, rfl⟩
theorem Same.trans {a b c : World} (h1 : Same a b) (h2 : Same b c) : Same a c :=
  ⟨h2.1.trans h1.1, h2.2.1.trans h1.2.1, h2.2.2.trans h1.2.2⟩

theorem iterNext_same (v : Variant) (w : World) (k : Nat) : Same w (iterNext v w k).1 := by
  cases v
  · simp only [iterNext]; split <;> exact ⟨rfl, rfl, rfl⟩
  · simp only [iterNext]
    split
    · split <;> exact ⟨rfl, rfl, rfl⟩
    · exact ⟨rfl, rfl, rfl⟩

theorem iterNew_same (v : Variant) (w : World) : Same w (iterNew v w).1 := by
  cases v <;> exact ⟨rfl, rfl, rfl⟩

theorem drain_same (v : Variant) (fuel : Nat) (w : World) (k : Nat) : Same w (drain v fuel w k).1 := by
  induction fuel generalizing w with
  | zero => exact Same.refl w
  | succ f ih =>
    simp only [drain]
    have h := iterNext_same v w k
    split
    · rename_i w' i heq
      rw [heq] at h
      exact Same.trans h (ih w')
    · rename_i w' heq
      rw [heq] at h
      exact h

theorem nestedInner_same (v : Variant) (w : World) (i : Nat) : Same w (nestedInner v w i).1 := by
  simp only [nestedInner]
  exact Same.trans (iterNew_same v w) (drain_same v _ _ _)

theorem nestedOuter_same (v : Variant) (fuel : Nat) (w : World) (k : Nat) : Same w (nestedOuter v fuel w k).1 := by
  induction fuel generalizing w with
  | zero => exact Same.refl w
  | succ f ih =>
    simp only [nestedOuter]
    have h := iterNext_same v w k
    split
    · rename_i w' i heq
      rw [heq] at h
      exact Same.trans h (Same.trans (nestedInner_same v w' i) (ih _))
    · rename_i w' heq
      rw [heq] at h
      exact h

theorem nested_same (v : Variant) (w : World) : Same w (nested v w).1 := by
  simp only [nested]
  exact Same.trans (iterNew_same v w) (nestedOuter_same v _ _ _)

theorem upd_others (w : World) (o : Option Ens) : (upd w o).1.others = w.others ∧ (upd w o).1.kept = w.kept := by
  cases o <;> simp [upd]

/-- which operations can change the list of other live ensembles at all -/
def touchesOthers : Op → Bool
  | .ctorCopy | .ctorCopyKw | .swap _ => true
  | _ => false

/-- **nothing else changes**: every operation other than making a copy or switching to another ensemble - every
write through a conformer, every append, transformation, iteration - leaves every other live ensemble as it is -/
theorem others_frame (v : Variant) (w : World) (op : Op) (h : touchesOthers op = false) :
    (step v w op).1.others = w.others := by
  cases op <;> simp only [touchesOthers, Bool.true_eq_false] at h <;> simp only [step] <;>
    first
      | exact (upd_others w _).1
      | rfl
      | (split <;> first | rfl | exact (upd_others w _).1)
      | skip
  case iterNew => exact (iterNew_same v w).2.1
  case iterNext k =>
    split
    · rfl
    · exact (iterNext_same v w k).2.1
  case loop => exact ((iterNew_same v w).trans (drain_same v _ _ _)).2.1
  case nestedLoop => exact (nested_same v w).2.1
  case iterNextKeep k =>
    split
    · rfl
    · exact (iterNext_same v w k).2.1
  case loopKeep => exact ((iterNew_same v w).trans (drain_same v _ _ _)).2.1
  case readKept j => (repeat' split) <;> rfl
  case dumpKept j => (repeat' split) <;> rfl
  case readAt i => (repeat' split) <;> rfl

/-- the other live ensembles after a step are the ones before it, plus possibly the ensemble that was current
(a copy keeps its source alive, a swap puts the current one among the others) -/
theorem others_step (w : World) (op : Op) : ∀ e ∈ (step .repaired w op).1.others, e ∈ w.others ∨ e = w.ens := by
  intro e he
  by_cases h : touchesOthers op = false
  · rw [others_frame _ w op h] at he; exact Or.inl he
  · cases op <;> simp only [touchesOthers, not_true_eq_false] at h
    · simp only [step, copyCtor, List.mem_cons] at he
      rcases he with rfl | he
      · exact Or.inr rfl
      · exact Or.inl he
    · simp only [step] at he
      split at he
      · simp only at he
        rcases mem_set _ _ _ _ he with rfl | hm
        · exact Or.inr rfl
        · exact Or.inl hm
      · exact Or.inl he
    · simp only [step, copyCtor, List.mem_cons] at he
      rcases he with rfl | he
      · exact Or.inr rfl
      · exact Or.inl he

end Molli.Lemmas.Ensemble
