/-
Facts about the specification `Molli.Model.Dispatch.spec`, for EVERY class-level behaviour `cr`
(so they do not depend on the generated table and are not re-proved when the table changes),
and the enumeration lemma that lifts a check over `allCells` to `∀ c : Cell`.
Core Lean only.
-/
import Molli.Model.Dispatch
namespace Molli.Lemmas.Dispatch
open Molli.Model.Dispatch

theorem Entry.mem_all (e : Entry) : e ∈ Entry.all := by cases e <;> decide
theorem Fmt.mem_all (f : Fmt) : f ∈ Fmt.all := by cases f <;> decide
theorem Kind.mem_all (k : Kind) : k ∈ Kind.all := by cases k <;> decide
theorem OType.mem_all (o : OType) : o ∈ OType.all := by cases o <;> decide
theorem NameArg.mem_all (n : NameArg) : n ∈ NameArg.all := by cases n <;> decide

/-- `allCells` really is the whole matrix. -/
theorem mem_allCells (c : Cell) : c ∈ allCells := by
  obtain ⟨e, f, k, o, n⟩ := c
  simp only [allCells, List.mem_flatMap, List.mem_map]
  exact ⟨e, Entry.mem_all e, f, Fmt.mem_all f, k, Kind.mem_all k, o, OType.mem_all o, n, NameArg.mem_all n, rfl⟩

theorem allCells_length : allCells.length = 432 := by decide +kernel

/-- a Boolean check over the table of all cells is a statement about every cell -/
theorem forall_of_allCells {p : Cell → Bool} (h : allCells.all p = true) (c : Cell) : p c = true :=
  List.all_eq_true.mp h c (mem_allCells c)

/-- the row index is injective on the matrix: no two cells share a table row -/
theorem idx_lt (c : Cell) : c.idx < 432 := by
  obtain ⟨e, f, k, o, n⟩ := c
  cases e <;> cases f <;> cases k <;> cases o <;> cases n <;> decide

theorem idx_injective_table : (allCells.map Cell.idx) = List.range 432 := by decide +kernel

/-! ### what `spec` says, for every class-level behaviour -/

section
variable (cr : ClassRaises)

theorem spec_na (c : Cell) (h : applicable c = false) : spec cr c = Action.na := by
  simp [spec, h]

theorem spec_applicable (c : Cell) : (spec cr c).applicable = applicable c := by
  obtain ⟨e, f, k, o, n⟩ := c
  cases e <;> cases f <;> cases k <;> cases o <;> cases n <;>
    simp [spec, applicable, Action.na, refuse, viaCodec, Entry.listPromised]

/-- no cell of the specification leaves a caller's stream closed or an own file handle open -/
theorem spec_streamOk (c : Cell) : (spec cr c).streamOk = true := by
  obtain ⟨e, f, k, o, n⟩ := c
  cases e <;> cases f <;> cases k <;> cases o <;> cases n <;>
    simp [spec, applicable, Action.na, refuse, viaCodec, Entry.listPromised]

theorem spec_unsupported (c : Cell) (ha : applicable c = true) (hf : c.fmt = .unsupported) :
    spec cr c = refuse .valueError := by
  obtain ⟨e, f, k, o, n⟩ := c
  simp only at hf; subst hf
  cases e <;> cases k <;> cases o <;> cases n <;> simp_all [spec, applicable, Entry.listPromised]

/-- a list loader returns a list of the requested class or raises; it never returns a bare object -/
theorem spec_list (c : Cell) (hl : c.entry.listPromised = true) (k : RetKind)
    (hr : (spec cr c).result = .returned k) : k = .list c.otype.cls := by
  obtain ⟨e, f, kd, o, n⟩ := c
  cases e <;> simp [Entry.listPromised] at hl <;>
    cases f <;> cases kd <;> cases o <;> cases n <;>
      simp [spec, applicable, Action.na, refuse, viaCodec, Entry.listPromised, retKind] at hr <;>
      (first | (split at hr <;> simp_all [OType.cls]) | simp_all [OType.cls])

/-- for the molli codecs (xyz, mol2) a list loader asked for molecules / structures returns a list whenever the
class-level codec works -/
theorem spec_list_returned (c : Cell) (ha : applicable c = true) (hl : c.entry.listPromised = true)
    (ho : c.otype ≠ .ensemble) (hf : c.fmt = .xyz ∨ c.fmt = .mol2) (hc : cr c.otype c.entry c.fmt = false) :
    (spec cr c).result = .returned (.list c.otype.cls) := by
  obtain ⟨e, f, kd, o, n⟩ := c
  simp only at hf hc ho
  rcases hf with rfl | rfl <;>
    cases e <;> simp [Entry.listPromised] at hl <;>
      cases kd <;> cases o <;> cases n <;>
        simp_all [spec, applicable, viaCodec, Entry.listPromised, retKind, OType.cls]

/-- whenever a name is given and the entry point returns, the name was forwarded and the result carries it -/
theorem spec_name (c : Cell) (hn : c.name = .given) (k : RetKind) (hr : (spec cr c).result = .returned k) :
    (spec cr c).nameFwd = true ∧ (spec cr c).named = true := by
  obtain ⟨e, f, kd, o, n⟩ := c
  simp only at hn; subst hn
  cases e <;> cases f <;> cases kd <;> cases o <;>
    simp [spec, applicable, Action.na, refuse, viaCodec, Entry.listPromised] at hr ⊢ <;>
    (first | (split at hr <;> simp_all [Entry.isLoader]) | simp_all [Entry.isLoader])

/-- no name given: none is invented -/
theorem spec_no_name (c : Cell) (hn : c.name = .notGiven) :
    (spec cr c).nameFwd = false ∧ (spec cr c).named = false := by
  obtain ⟨e, f, kd, o, n⟩ := c
  simp only at hn; subst hn
  cases e <;> cases f <;> cases kd <;> cases o <;>
    simp [spec, applicable, Action.na, refuse, viaCodec, Entry.listPromised]

/-- `dump` into an open stream: when it returns, it returned `None` and the text is in the caller's stream -/
theorem spec_dump_stream (c : Cell) (he : c.entry = .dump) (hk : c.kind = .stream) (k : RetKind)
    (hr : (spec cr c).result = .returned k) : k = .none ∧ (spec cr c).wrote = .callerStream := by
  obtain ⟨e, f, kd, o, n⟩ := c
  simp only at he hk; subst he hk
  cases f <;> cases o <;> cases n <;>
    simp [spec, applicable, Action.na, refuse, viaCodec, Entry.listPromised, retKind, target] at hr ⊢ <;>
    (first | (split at hr <;> simp_all) | simp_all)

/-- for the molli codecs the class method of the requested class, operation and format is the one reached, and
it receives the caller's source / target -/
theorem spec_reaches (c : Cell) (ha : applicable c = true) (hf : c.fmt = .xyz ∨ c.fmt = .mol2)
    (hle : ¬ (c.entry.listPromised = true ∧ c.otype = .ensemble)) :
    (spec cr c).reached = .meth c.otype.cls c.entry.mop c.fmt ∧ (spec cr c).argOk = true := by
  obtain ⟨e, f, kd, o, n⟩ := c
  simp only at hf hle
  rcases hf with rfl | rfl <;>
    cases e <;> cases kd <;> cases o <;> cases n <;>
      simp_all [spec, applicable, viaCodec, Entry.listPromised, OType.cls, Entry.mop]

/-- a failure of the class-level codec comes through unchanged -/
theorem spec_propagates (c : Cell) (ha : applicable c = true) (hf : c.fmt = .xyz ∨ c.fmt = .mol2)
    (hle : ¬ (c.entry.listPromised = true ∧ c.otype = .ensemble)) (hc : cr c.otype c.entry c.fmt = true) :
    (spec cr c).result = .propagated := by
  obtain ⟨e, f, kd, o, n⟩ := c
  simp only at hf hle hc
  rcases hf with rfl | rfl <;>
    cases e <;> cases kd <;> cases o <;> cases n <;>
      simp_all [spec, applicable, viaCodec, Entry.listPromised]

/-- the entry points never raise anything but ValueError / NotImplementedError by themselves -/
theorem spec_raises_only (c : Cell) (e : Exc) (hr : (spec cr c).result = .raised e) :
    e = .valueError ∨ (e = .notImplemented ∧ c.fmt = .cdxml ∧ (c.entry = .loads ∨ c.entry = .loadsAll)) := by
  obtain ⟨en, f, kd, o, n⟩ := c
  cases en <;> cases f <;> cases kd <;> cases o <;> cases n <;>
    simp [spec, applicable, Action.na, refuse, viaCodec, Entry.listPromised] at hr ⊢ <;>
    (first | (split at hr <;> simp_all) | simp_all)

end
end Molli.Lemmas.Dispatch
