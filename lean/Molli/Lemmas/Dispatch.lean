/-
Facts about the specification `Molli.Model.Dispatch.spec`, for EVERY class-level behaviour `cr`
(so they do not depend on the generated table and are not re-proved when the table changes),
and the enumeration lemma that lifts a check over `allCells` to `∀ c : Cell`.
Core Lean only.
-/
import Molli.Model.Dispatch
namespace Molli.Lemmas.Dispatch
open Molli.Model.Dispatch

/-! ## the five dimensions of the property (`Config`) -/

theorem Entry.mem_all (e : Entry) : e ∈ Entry.all := by cases e <;> decide
theorem Fmt.mem_all (f : Fmt) : f ∈ Fmt.all := by cases f <;> decide
theorem Kind.mem_all (k : Kind) : k ∈ Kind.all := by cases k <;> decide
theorem OType.mem_all (o : OType) : o ∈ OType.all := by cases o <;> decide
theorem NameArg.mem_all (n : NameArg) : n ∈ NameArg.all := by cases n <;> decide

theorem PathForm.mem_all (p : PathForm) : p ∈ PathForm.all := by cases p <;> decide

theorem mem_allConfigs (c : Config) : c ∈ allConfigs := by
  obtain ⟨e, f, k, o, n⟩ := c
  simp only [allConfigs, List.mem_flatMap, List.mem_map]
  exact ⟨e, Entry.mem_all e, f, Fmt.mem_all f, k, Kind.mem_all k, o, OType.mem_all o, n, NameArg.mem_all n, rfl⟩

/-- `allCells` really is the whole matrix. -/
theorem mem_allCells (c : Cell) : c ∈ allCells := by
  obtain ⟨b, p⟩ := c
  simp only [allCells, List.mem_flatMap, List.mem_map]
  exact ⟨b, mem_allConfigs b, p, PathForm.mem_all p, rfl⟩

theorem allCells_length : allCells.length = 2592 := by decide +kernel

/-- a Boolean check over the table of all cells is a statement about every cell -/
theorem forall_of_allCells {p : Cell → Bool} (h : allCells.all p = true) (c : Cell) : p c = true :=
  List.all_eq_true.mp h c (mem_allCells c)

theorem cfg_idx_lt (c : Config) : c.idx < 432 := by
  obtain ⟨e, f, k, o, n⟩ := c
  cases e <;> cases f <;> cases k <;> cases o <;> cases n <;> decide

/-- every cell has a row of the table -/
theorem idx_lt (c : Cell) : c.idx < 2592 := by
  have h := cfg_idx_lt c.toConfig
  have hp : c.form.idx < 6 := by cases c.form <;> decide
  unfold Cell.idx; omega

/-- the row index is injective on the matrix: no two cells share a table row -/
theorem idx_injective_table : (allCells.map Cell.idx) = List.range 2592 := by decide +kernel

/-- row `c.idx` of the enumeration is the cell `c` itself -/
theorem allCells_at_idx (c : Cell) : allCells[c.idx]? = some c := by
  obtain ⟨i, hi, hc⟩ := List.mem_iff_getElem.mp (mem_allCells c)
  have h1 : (allCells.map Cell.idx)[i]? = some c.idx := by
    simp [List.getElem?_map, List.getElem?_eq_getElem hi, hc]
  rw [idx_injective_table] at h1
  have hi' : i < 2592 := by rw [← allCells_length]; exact hi
  rw [List.getElem?_range hi'] at h1
  have : i = c.idx := by simpa using h1
  subst this
  rw [List.getElem?_eq_getElem hi, hc]

/-- a single pass over the table next to the enumeration of the matrix is a statement about every cell looked up by
its row index -/
theorem lookup_of_zip_all {tbl : List Action} {f : Cell → Action} (hlen : tbl.length = 2592)
    (h : (tbl.zip allCells).all (fun p => decide (p.1 = f p.2)) = true) (c : Cell) :
    tbl.getD c.idx Action.missing = f c := by
  have hi : c.idx < tbl.length := by rw [hlen]; exact idx_lt c
  have hz : (tbl.zip allCells)[c.idx]? = some (tbl[c.idx], c) := by
    rw [List.getElem?_zip_eq_some]
    exact ⟨List.getElem?_eq_getElem hi, allCells_at_idx c⟩
  have hm : (tbl[c.idx], c) ∈ tbl.zip allCells := List.mem_of_getElem? hz
  have := List.all_eq_true.mp h _ hm
  simp only [decide_eq_true_eq] at this
  simp [List.getD, List.getElem?_eq_getElem hi, this]

/-! ### what `specCfg` says, for every class-level behaviour -/

section
variable (cr : ClassRaises)

theorem cfg_na (c : Config) (h : applicableCfg c = false) : specCfg cr c = Action.na := by
  simp [specCfg, h]

theorem cfg_applicable (c : Config) : (specCfg cr c).applicable = applicableCfg c := by
  obtain ⟨e, f, k, o, n⟩ := c
  cases e <;> cases f <;> cases k <;> cases o <;> cases n <;>
    simp [specCfg, applicableCfg, Action.na, refuse, viaCodec, Entry.listPromised]

/-- no cell of the specification leaves a caller's stream closed or an own file handle open -/
theorem cfg_streamOk (c : Config) : (specCfg cr c).streamOk = true := by
  obtain ⟨e, f, k, o, n⟩ := c
  cases e <;> cases f <;> cases k <;> cases o <;> cases n <;>
    simp [specCfg, applicableCfg, Action.na, refuse, viaCodec, Entry.listPromised]

theorem cfg_unsupported (c : Config) (ha : applicableCfg c = true) (hf : c.fmt = .unsupported) :
    specCfg cr c = refuse .valueError := by
  obtain ⟨e, f, k, o, n⟩ := c
  simp only at hf; subst hf
  cases e <;> cases k <;> cases o <;> cases n <;> simp_all [specCfg, applicableCfg, Entry.listPromised]

/-- a list loader returns a list of the requested class or raises; it never returns a bare object -/
theorem cfg_list (c : Config) (hl : c.entry.listPromised = true) (k : RetKind)
    (hr : (specCfg cr c).result = .returned k) : k = .list c.otype.cls := by
  obtain ⟨e, f, kd, o, n⟩ := c
  cases e <;> simp [Entry.listPromised] at hl <;>
    cases f <;> cases kd <;> cases o <;> cases n <;>
      simp [specCfg, applicableCfg, Action.na, refuse, viaCodec, Entry.listPromised, retKind] at hr <;>
      (first | (split at hr <;> simp_all [OType.cls]) | simp_all [OType.cls])

/-- for the molli codecs (xyz, mol2) a list loader asked for molecules / structures returns a list whenever the
class-level codec works -/
theorem cfg_list_returned (c : Config) (ha : applicableCfg c = true) (hl : c.entry.listPromised = true)
    (ho : c.otype ≠ .ensemble) (hf : c.fmt = .xyz ∨ c.fmt = .mol2) (hc : cr c.otype c.entry c.fmt = false) :
    (specCfg cr c).result = .returned (.list c.otype.cls) := by
  obtain ⟨e, f, kd, o, n⟩ := c
  simp only at hf hc ho
  rcases hf with rfl | rfl <;>
    cases e <;> simp [Entry.listPromised] at hl <;>
      cases kd <;> cases o <;> cases n <;>
        simp_all [specCfg, applicableCfg, viaCodec, Entry.listPromised, retKind, OType.cls]

/-- whenever a name is given and the entry point returns, the name was forwarded and the result carries it -/
theorem cfg_name (c : Config) (hn : c.name = .given) (k : RetKind) (hr : (specCfg cr c).result = .returned k) :
    (specCfg cr c).nameFwd = true ∧ (specCfg cr c).named = true := by
  obtain ⟨e, f, kd, o, n⟩ := c
  simp only at hn; subst hn
  cases e <;> cases f <;> cases kd <;> cases o <;>
    simp [specCfg, applicableCfg, Action.na, refuse, viaCodec, Entry.listPromised] at hr ⊢ <;>
    (first | (split at hr <;> simp_all [Entry.isLoader]) | simp_all [Entry.isLoader])

/-- no name given: none is invented -/
theorem cfg_no_name (c : Config) (hn : c.name = .notGiven) :
    (specCfg cr c).nameFwd = false ∧ (specCfg cr c).named = false := by
  obtain ⟨e, f, kd, o, n⟩ := c
  simp only at hn; subst hn
  cases e <;> cases f <;> cases kd <;> cases o <;>
    simp [specCfg, applicableCfg, Action.na, refuse, viaCodec, Entry.listPromised]

/-- `dump` into an open stream: when it returns, it returned `None` and the text is in the caller's stream -/
theorem cfg_dump_stream (c : Config) (he : c.entry = .dump) (hk : c.kind = .stream) (k : RetKind)
    (hr : (specCfg cr c).result = .returned k) : k = .none ∧ (specCfg cr c).wrote = .callerStream := by
  obtain ⟨e, f, kd, o, n⟩ := c
  simp only at he hk; subst he hk
  cases f <;> cases o <;> cases n <;>
    simp [specCfg, applicableCfg, Action.na, refuse, viaCodec, Entry.listPromised, retKind, target] at hr ⊢ <;>
    (first | (split at hr <;> simp_all) | simp_all)

/-- for the molli codecs the class method of the requested class, operation and format is the one reached, and
it receives the caller's source / target -/
theorem cfg_reaches (c : Config) (ha : applicableCfg c = true) (hf : c.fmt = .xyz ∨ c.fmt = .mol2)
    (hle : ¬ (c.entry.listPromised = true ∧ c.otype = .ensemble)) :
    (specCfg cr c).reached = .meth c.otype.cls c.entry.mop c.fmt ∧ (specCfg cr c).argOk = true := by
  obtain ⟨e, f, kd, o, n⟩ := c
  simp only at hf hle
  rcases hf with rfl | rfl <;>
    cases e <;> cases kd <;> cases o <;> cases n <;>
      simp_all [specCfg, applicableCfg, viaCodec, Entry.listPromised, OType.cls, Entry.mop]

/-- a failure of the class-level codec comes through unchanged -/
theorem cfg_propagates (c : Config) (ha : applicableCfg c = true) (hf : c.fmt = .xyz ∨ c.fmt = .mol2)
    (hle : ¬ (c.entry.listPromised = true ∧ c.otype = .ensemble)) (hc : cr c.otype c.entry c.fmt = true) :
    (specCfg cr c).result = .propagated := by
  obtain ⟨e, f, kd, o, n⟩ := c
  simp only at hf hle hc
  rcases hf with rfl | rfl <;>
    cases e <;> cases kd <;> cases o <;> cases n <;>
      simp_all [specCfg, applicableCfg, viaCodec, Entry.listPromised]

/-- the entry points never raise anything but ValueError / NotImplementedError by themselves -/
theorem cfg_raises_only (c : Config) (e : Exc) (hr : (specCfg cr c).result = .raised e) :
    e = .valueError ∨ (e = .notImplemented ∧ c.fmt = .cdxml ∧ (c.entry = .loads ∨ c.entry = .loadsAll)) := by
  obtain ⟨en, f, kd, o, n⟩ := c
  cases en <;> cases f <;> cases kd <;> cases o <;> cases n <;>
    simp [specCfg, applicableCfg, Action.na, refuse, viaCodec, Entry.listPromised] at hr ⊢ <;>
    (first | (split at hr <;> simp_all) | simp_all)

end

/-! ## the whole matrix (`Cell` = `Config` × form of the path argument) -/

section
variable (cr : ClassRaises)

theorem spec_of_form (c : Cell) (h : formApplicable c = true) : spec cr c = specCfg cr c.toConfig := by
  simp [spec, h]

theorem spec_of_not_form (c : Cell) (h : formApplicable c = false) : spec cr c = Action.na := by
  simp [spec, h]

theorem form_of_applicable (c : Cell) (ha : applicable c = true) :
    formApplicable c = true ∧ applicableCfg c.toConfig = true := by
  simp only [applicable, Bool.and_eq_true] at ha; exact ⟨ha.2, ha.1⟩

/-- the new dimension changes nothing: for a path source / target, whatever suffix the path carries and whether
the format is given or deduced from the matching suffix, the demanded action is that of the plain configuration -/
theorem spec_form_irrelevant (c : Cell) (hk : c.kind = .path) (p : PathForm) :
    spec cr ⟨c.toConfig, p⟩ = spec cr c := by
  have h1 : formApplicable ⟨c.toConfig, p⟩ = true := by simp [formApplicable, hk]
  have h2 : formApplicable c = true := by simp [formApplicable, hk]
  rw [spec_of_form cr _ h1, spec_of_form cr _ h2]

theorem spec_applicable (c : Cell) : (spec cr c).applicable = applicable c := by
  by_cases h : formApplicable c = true
  · rw [spec_of_form cr c h, cfg_applicable]; simp [applicable, h]
  · have h' : formApplicable c = false := by simpa using h
    rw [spec_of_not_form cr c h']; simp [applicable, h', Action.na]

theorem spec_streamOk (c : Cell) : (spec cr c).streamOk = true := by
  by_cases h : formApplicable c = true
  · rw [spec_of_form cr c h]; exact cfg_streamOk cr _
  · have h' : formApplicable c = false := by simpa using h
    rw [spec_of_not_form cr c h']; rfl

theorem spec_unsupported (c : Cell) (ha : applicable c = true) (hf : c.fmt = .unsupported) :
    spec cr c = refuse .valueError := by
  obtain ⟨h1, h2⟩ := form_of_applicable c ha
  rw [spec_of_form cr c h1]; exact cfg_unsupported cr _ h2 hf

theorem spec_list (c : Cell) (hl : c.entry.listPromised = true) (k : RetKind)
    (hr : (spec cr c).result = .returned k) : k = .list c.otype.cls := by
  by_cases h : formApplicable c = true
  · rw [spec_of_form cr c h] at hr; exact cfg_list cr _ hl k hr
  · have h' : formApplicable c = false := by simpa using h
    rw [spec_of_not_form cr c h'] at hr; simp [Action.na] at hr

theorem spec_list_returned (c : Cell) (ha : applicable c = true) (hl : c.entry.listPromised = true)
    (ho : c.otype ≠ .ensemble) (hf : c.fmt = .xyz ∨ c.fmt = .mol2) (hc : cr c.otype c.entry c.fmt = false) :
    (spec cr c).result = .returned (.list c.otype.cls) := by
  obtain ⟨h1, h2⟩ := form_of_applicable c ha
  rw [spec_of_form cr c h1]; exact cfg_list_returned cr _ h2 hl ho hf hc

theorem spec_name (c : Cell) (hn : c.name = .given) (k : RetKind) (hr : (spec cr c).result = .returned k) :
    (spec cr c).nameFwd = true ∧ (spec cr c).named = true := by
  by_cases h : formApplicable c = true
  · rw [spec_of_form cr c h] at hr ⊢; exact cfg_name cr _ hn k hr
  · have h' : formApplicable c = false := by simpa using h
    rw [spec_of_not_form cr c h'] at hr; simp [Action.na] at hr

theorem spec_no_name (c : Cell) (hn : c.name = .notGiven) :
    (spec cr c).nameFwd = false ∧ (spec cr c).named = false := by
  by_cases h : formApplicable c = true
  · rw [spec_of_form cr c h]; exact cfg_no_name cr _ hn
  · have h' : formApplicable c = false := by simpa using h
    rw [spec_of_not_form cr c h']; simp [Action.na]

theorem spec_dump_stream (c : Cell) (he : c.entry = .dump) (hk : c.kind = .stream) (k : RetKind)
    (hr : (spec cr c).result = .returned k) : k = .none ∧ (spec cr c).wrote = .callerStream := by
  by_cases h : formApplicable c = true
  · rw [spec_of_form cr c h] at hr ⊢; exact cfg_dump_stream cr _ he hk k hr
  · have h' : formApplicable c = false := by simpa using h
    rw [spec_of_not_form cr c h'] at hr; simp [Action.na] at hr

theorem spec_reaches (c : Cell) (ha : applicable c = true) (hf : c.fmt = .xyz ∨ c.fmt = .mol2)
    (hle : ¬ (c.entry.listPromised = true ∧ c.otype = .ensemble)) :
    (spec cr c).reached = .meth c.otype.cls c.entry.mop c.fmt ∧ (spec cr c).argOk = true := by
  obtain ⟨h1, h2⟩ := form_of_applicable c ha
  rw [spec_of_form cr c h1]; exact cfg_reaches cr _ h2 hf hle

theorem spec_propagates (c : Cell) (ha : applicable c = true) (hf : c.fmt = .xyz ∨ c.fmt = .mol2)
    (hle : ¬ (c.entry.listPromised = true ∧ c.otype = .ensemble)) (hc : cr c.otype c.entry c.fmt = true) :
    (spec cr c).result = .propagated := by
  obtain ⟨h1, h2⟩ := form_of_applicable c ha
  rw [spec_of_form cr c h1]; exact cfg_propagates cr _ h2 hf hle hc

theorem spec_raises_only (c : Cell) (e : Exc) (hr : (spec cr c).result = .raised e) :
    e = .valueError ∨ (e = .notImplemented ∧ c.fmt = .cdxml ∧ (c.entry = .loads ∨ c.entry = .loadsAll)) := by
  by_cases h : formApplicable c = true
  · rw [spec_of_form cr c h] at hr; exact cfg_raises_only cr _ e hr
  · have h' : formApplicable c = false := by simpa using h
    rw [spec_of_not_form cr c h'] at hr; simp [Action.na] at hr

end
end Molli.Lemmas.Dispatch
