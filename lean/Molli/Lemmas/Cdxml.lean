/-
Lemmas about the CDXML model (Molli.Model.Cdxml): counting lemmas for the constitution, invariances of the
label resolution, algebra of the orientation predicate.  Core Lean only (`grind` for the ring identities).
-/
import Molli.Model.Cdxml
namespace Molli.Lemmas.Cdxml
open Molli.Model.Cdxml

/-! ## orientation -/

theorem det3_mulM (u v w : V3) (m : M3) :
    det3 (u.mulM m) (v.mulM m) (w.mulM m) = det3 u v w * m.det := by
  simp only [det3, V3.mulM, M3.det]; grind

theorem sub_mulM (a b : V3) (m : M3) : (a.sub b).mulM m = (a.mulM m).sub (b.mulM m) := by
  simp only [V3.sub, V3.mulM, V3.mk.injEq]; grind

theorem sub_add_right (a b t : V3) : (a.add t).sub (b.add t) = a.sub b := by
  simp only [V3.sub, V3.add, V3.mk.injEq]; grind

theorem signedVol_translate (c a b d t : V3) :
    signedVol (c.add t) (a.add t) (b.add t) (d.add t) = signedVol c a b d := by
  simp only [signedVol, sub_add_right]

theorem signedVol_linear (c a b d : V3) (m : M3) :
    signedVol (c.mulM m) (a.mulM m) (b.mulM m) (d.mulM m) = signedVol c a b d * m.det := by
  simp only [signedVol, ← sub_mulM, det3_mulM]

theorem signedVol_scale (s : Rat) (c a b d : V3) :
    signedVol (V3.smul s c) (V3.smul s a) (V3.smul s b) (V3.smul s d) = s * s * s * signedVol c a b d := by
  simp only [signedVol, det3, V3.sub, V3.smul]; grind

theorem signedVol_mirror (c a b d : V3) :
    signedVol c.mirror a.mirror b.mirror d.mirror = - signedVol c a b d := by
  simp only [signedVol, det3, V3.sub, V3.mirror]; grind

/-- swapping two neighbours reverses the sign (the predicate really is an orientation) -/
theorem signedVol_swap (c a b d : V3) : signedVol c b a d = - signedVol c a b d := by
  simp only [signedVol, det3, V3.sub]; grind

theorem signOf_neg (r : Rat) : signOf (-r) = (signOf r).flip := by
  unfold signOf Sign.flip
  by_cases h1 : 0 < r <;> by_cases h2 : r < 0 <;> simp_all <;> grind

theorem signOf_pos_mul (s r : Rat) (hs : 0 < s) : signOf (s * r) = signOf r := by
  unfold signOf
  by_cases h1 : 0 < r
  · have : 0 < s * r := Rat.mul_pos hs h1
    simp [h1, this]
  · by_cases h2 : r < 0
    · have h3 : s * r < 0 := by
        have := Rat.mul_pos hs (show 0 < -r by grind)
        grind
      have h4 : ¬ 0 < s * r := by grind
      simp [h1, h2, h3, h4]
    · have : r = 0 := by grind
      subst this
      simp

/-! ## label resolution -/

/-- the whole page moved by `t` -/
def shift (t : P) (f : FragPos) : FragPos := ⟨f.id, f.pos.add t⟩

theorem l1_add (a b t : P) : l1 (a.add t) (b.add t) = l1 a b := by
  have hx : a.x + t.x - (b.x + t.x) = a.x - b.x := by grind
  have hy : a.y + t.y - (b.y + t.y) = a.y - b.y := by grind
  simp only [l1, P.add, hx, hy]

theorem closer_shift (l t : P) (a b : FragPos) : closer (l.add t) (shift t a) (shift t b) = closer l a b := by
  simp only [closer, shift, l1_add]

theorem above_shift (l t : P) (f : FragPos) : above (l.add t) (shift t f) = above l f := by
  have : (f.pos.y + t.y < l.y + t.y) ↔ (f.pos.y < l.y) := by grind
  simp only [above, shift, P.add, this]

theorem nearest_shift (k : Nat) (frags : List FragPos) (l t : P) :
    nearest k (frags.map (shift t)) (l.add t) = (nearest k frags l).map (shift t) := by
  unfold nearest
  rw [List.map_take]
  congr 1
  exact (List.map_mergeSort (fun a _ b _ => (closer_shift l t a b).symm)).symm

theorem closer_trans (l : P) (a b c : FragPos) : closer l a b = true → closer l b c = true → closer l a c = true := by
  simp only [closer, decide_eq_true_eq]; exact Rat.le_trans

theorem closer_total (l : P) (a b : FragPos) : (closer l a b || closer l b a) = true := by
  simp only [closer, Bool.or_eq_true, decide_eq_true_eq]; exact Rat.le_total

theorem nearest_sorted (k : Nat) (frags : List FragPos) (l : P) :
    (nearest k frags l).Pairwise (fun a b => closer l a b = true) := by
  unfold nearest
  exact (List.pairwise_mergeSort (closer_trans l) (closer_total l) frags).sublist (List.take_sublist _ _)

/-- no two fragments at the same L1 distance from the label -/
def DistinctDist (frags : List FragPos) (l : P) : Prop :=
  ∀ a ∈ frags, ∀ b ∈ frags, l1 a.pos l = l1 b.pos l → a = b

theorem sorted_perm_eq (frags₁ frags₂ : List FragPos) (l : P) (hp : frags₁.Perm frags₂)
    (hd : DistinctDist frags₁ l) :
    frags₁.mergeSort (closer l) = frags₂.mergeSort (closer l) := by
  apply List.Perm.eq_of_pairwise (le := fun a b => closer l a b = true)
  · intro a b ha hb hab hba
    simp only [closer, decide_eq_true_eq] at hab hba
    have ha' : a ∈ frags₁ := List.mem_mergeSort.mp ha
    have hb' : b ∈ frags₁ := hp.symm.subset (List.mem_mergeSort.mp hb)
    exact hd a ha' b hb' (Rat.le_antisymm hab hba)
  · exact List.pairwise_mergeSort (closer_trans l) (closer_total l) frags₁
  · exact List.pairwise_mergeSort (closer_trans l) (closer_total l) frags₂
  · exact (List.mergeSort_perm frags₁ _).trans (hp.trans (List.mergeSort_perm frags₂ _).symm)

theorem resolve_shift (frags : List FragPos) (sib : Option Nat) (l t : P) :
    resolve (frags.map (shift t)) sib (l.add t) = resolve frags sib l := by
  cases sib with
  | some i => rfl
  | none =>
    have hab : (above (l.add t) ∘ shift t) = above l := funext (above_shift l t)
    simp only [resolve, nearest_shift, List.find?_map, hab]
    cases List.find? (above l) (nearest 5 frags l) <;> rfl

theorem resolve_perm (frags₁ frags₂ : List FragPos) (sib : Option Nat) (l : P) (hp : frags₁.Perm frags₂)
    (hd : DistinctDist frags₁ l) : resolve frags₁ sib l = resolve frags₂ sib l := by
  unfold resolve nearest
  rw [sorted_perm_eq frags₁ frags₂ l hp hd]

/-- what the rule picks: a listed fragment that lies above the label, such that every listed fragment strictly
nearer to the label (L1) does not lie above it — the nearest fragment above, as long as it is among the five nearest -/
theorem resolve_nearest_above (frags : List FragPos) (l : P) (i : Nat) (h : resolve frags none l = some i) :
    ∃ f ∈ frags, f.id = i ∧ f.pos.y < l.y ∧ ∀ g ∈ frags, l1 g.pos l < l1 f.pos l → ¬ g.pos.y < l.y := by
  simp only [resolve, Option.map_eq_some_iff] at h
  obtain ⟨f, hf, hid⟩ := h
  obtain ⟨hab, as, bs, hsplit, has⟩ := List.find?_eq_some_iff_append.mp hf
  have hmem : f ∈ nearest 5 frags l := by rw [hsplit]; simp
  have hfm : f ∈ frags := List.mem_mergeSort.mp (List.mem_of_mem_take hmem)
  refine ⟨f, hfm, hid, by simpa [above] using hab, ?_⟩
  intro g hg hlt
  -- the whole sorted list is `as ++ f :: (bs ++ rest)`
  have hsorted := List.pairwise_mergeSort (closer_trans l) (closer_total l) frags
  have hwhole : frags.mergeSort (closer l) = as ++ f :: (bs ++ (frags.mergeSort (closer l)).drop 5) := by
    have := List.take_append_drop 5 (frags.mergeSort (closer l))
    unfold nearest at hsplit
    rw [hsplit] at this
    simpa using this.symm
  have hg' : g ∈ frags.mergeSort (closer l) := List.mem_mergeSort.mpr hg
  rw [hwhole] at hg' hsorted
  rcases List.mem_append.mp hg' with hga | hgr
  · have := has g hga
    simpa [above] using this
  · rcases List.mem_cons.mp hgr with rfl | hgt
    · exact absurd hlt (Rat.lt_irrefl)
    · have hp := (List.pairwise_append.mp hsorted).2.1
      have := (List.pairwise_cons.mp hp).1 g hgt
      simp only [closer, decide_eq_true_eq] at this
      exact absurd hlt (Rat.not_lt.mpr this)

/-! ## constitution: counting -/

theorem mapM_some_map {α β : Type} (f : α → Option β) : ∀ (l : List α) (l' : List β),
    l.mapM f = some l' → l.map f = l'.map some
  | [], l', h => by
    simp only [List.mapM_nil] at h
    cases h; rfl
  | a :: l, l', h => by
    rw [List.mapM_cons] at h
    cases hfa : f a with
    | none => simp [hfa] at h
    | some b =>
      cases hl : l.mapM f with
      | none => simp [hfa, hl] at h
      | some bs =>
        simp [hfa, hl] at h
        subst h
        simp [hfa, mapM_some_map f l bs hl]

theorem mapM_some_length {α β : Type} (f : α → Option β) (l : List α) (l' : List β)
    (h : l.mapM f = some l') : l'.length = l.length := by
  have := congrArg List.length (mapM_some_map f l l' h)
  simpa using this.symm

theorem filter_has_split (bs : List MBond) (p : Nat) :
    bs.length = (bs.filter (·.has p)).length + (bs.filter (fun b => !b.has p)).length := by
  induction bs with
  | nil => rfl
  | cons b bs ih =>
    by_cases h : b.has p <;> simp [h] <;> omega

theorem delAtom_atoms_length (m : Mol) (p : Nat) (hp : p < m.atoms.length) :
    (m.delAtom p).atoms.length = m.atoms.length - 1 := by
  simp [Mol.delAtom, List.length_eraseIdx, hp]

theorem delAtom_bonds_length (m : Mol) (p : Nat) :
    (m.delAtom p).bonds.length = m.bonds.length - (m.bonds.filter (·.has p)).length := by
  have := filter_has_split m.bonds p
  simp only [Mol.delAtom, List.length_map]
  omega

/-- `join`: both attachment atoms disappear, both of their bonds are replaced by ONE new bond -/
theorem join_counts (m₁ m₂ m : Mol) (p q : Nat) (h : join m₁ m₂ p q = some m) :
    m.atoms.length + 2 = m₁.atoms.length + m₂.atoms.length ∧
    m.bonds.length + 1 = m₁.bonds.length + m₂.bonds.length := by
  unfold join at h
  split at h
  · rename_i b₁ b₂ h₁ h₂
    split at h
    · rename_i hpq
      simp only [Option.some.injEq] at h
      subst h
      have a₁ := delAtom_atoms_length m₁ p hpq.1
      have a₂ := delAtom_atoms_length m₂ q hpq.2.1
      have c₁ := delAtom_bonds_length m₁ p
      have c₂ := delAtom_bonds_length m₂ q
      have s₁ := filter_has_split m₁.bonds p
      have s₂ := filter_has_split m₂.bonds q
      rw [h₁] at c₁ s₁
      rw [h₂] at c₂ s₂
      simp only [List.length_append, List.length_map, List.length_cons, List.length_nil] at *
      omega
    · simp at h
  · simp at h

/-- sizes of the nested fragments that get joined -/
def nestedSizes (done : List (Option Mol)) (ns : List RawNode) : List Nat :=
  ns.filterMap fun n => n.nested.map fun k => match (done[k]?).join with
    | some sub => sub.atoms.length
    | none => 0

def nestedBonds (done : List (Option Mol)) (ns : List RawNode) : List Nat :=
  ns.filterMap fun n => n.nested.map fun k => match (done[k]?).join with
    | some sub => sub.bonds.length
    | none => 0

theorem joinNested_counts (done : List (Option Mol)) : ∀ (ns : List RawNode) (m r : Mol),
    joinNested done m ns = some r →
    r.atoms.length + 2 * (nestedSizes done ns).length = m.atoms.length + (nestedSizes done ns).sum ∧
    r.bonds.length + (nestedBonds done ns).length = m.bonds.length + (nestedBonds done ns).sum
  | [], m, r, h => by
    simp only [joinNested, Option.some.injEq] at h
    subst h; simp [nestedSizes, nestedBonds]
  | n :: rest, m, r, h => by
    unfold joinNested at h
    cases hn : n.nested with
    | none =>
      simp only [hn] at h
      have := joinNested_counts done rest m r h
      simpa [nestedSizes, nestedBonds, hn] using this
    | some k =>
      simp only [hn] at h
      cases hsub : (done[k]?).join with
      | none => simp [hsub] at h
      | some sub =>
        simp only [hsub, Option.bind_eq_bind, Option.bind_some] at h
        split at h
        · simp at h
        · cases hap : findLabel m n.id with
          | none => simp [hap] at h
          | some ap =>
            cases hsap : sub.attachmentPoints.head? with
            | none => simp [hap, hsap] at h
            | some sap =>
              cases hj : join m sub ap sap with
              | none => simp [hap, hsap, hj] at h
              | some m' =>
                simp only [hap, hsap, hj, Option.bind_some] at h
                have ih := joinNested_counts done rest m' r h
                have jc := join_counts m sub m' ap sap hj
                simp only [nestedSizes, nestedBonds, List.filterMap_cons, hn, Option.map_some, hsub,
                  List.length_cons, List.sum_cons] at ih ⊢
                omega

/-! ### sums over a list with one position erased (charge / radical bookkeeping of `join`) -/

theorem sum_map_eraseIdx_int {α} (f : α → Int) (l : List α) (p : Nat) (hp : p < l.length) :
    ((l.eraseIdx p).map f).sum + f l[p] = (l.map f).sum := by
  induction l generalizing p with
  | nil => simp at hp
  | cons a t ih =>
    cases p with
    | zero => simp [Int.add_comm]
    | succ p =>
      simp only [List.length_cons, Nat.add_lt_add_iff_right] at hp
      simp only [List.eraseIdx_cons_succ, List.map_cons, List.sum_cons, List.getElem_cons_succ]
      have := ih p hp
      omega

theorem sum_map_eraseIdx_nat {α} (f : α → Nat) (l : List α) (p : Nat) (hp : p < l.length) :
    ((l.eraseIdx p).map f).sum + f l[p] = (l.map f).sum := by
  induction l generalizing p with
  | nil => simp at hp
  | cons a t ih =>
    cases p with
    | zero => simp [Nat.add_comm]
    | succ p =>
      simp only [List.length_cons, Nat.add_lt_add_iff_right] at hp
      simp only [List.eraseIdx_cons_succ, List.map_cons, List.sum_cons, List.getElem_cons_succ]
      have := ih p hp
      omega

/-! ### the flat fragment -/

/-- the drawn formal charge / radical / isotope of a node (raw attributes read as the drawing means them) -/
def rawCharge (n : RawNode) : Int := match n.charge with
  | none => 0
  | some s => (pyInt? s).getD 0
def rawSpin (n : RawNode) : Nat := match n.radical with
  | some "Doublet" => 1
  | some "Singlet" => 2
  | _ => 0
def rawIsotope (n : RawNode) : Option Int := n.isotope.bind pyInt?

theorem mkAtom_fields (n : RawNode) (a : MAtom) (h : mkAtom n = some a) :
    a.charge = rawCharge n ∧ a.spin = rawSpin n ∧ a.isotope = rawIsotope n := by
  unfold mkAtom at h
  simp only at h
  split at h
  · rename_i z0 iso charge implicitH hz hiso hcharge hH
    split at h
    · simp only [Option.some.injEq] at h
      subst h
      refine ⟨?_, rfl, ?_⟩
      · simp only [rawCharge]
        cases hc : n.charge with
        | none => simp [hc] at hcharge; exact hcharge.symm
        | some s => simp [hc] at hcharge; simp [hcharge]
      · simp only [rawIsotope]
        cases hi : n.isotope with
        | none => simp [hi] at hiso; simp [← hiso]
        | some s =>
          simp [hi] at hiso
          obtain ⟨v, hv, hv'⟩ := hiso
          simp [hv, ← hv']
    · simp at h
  · simp at h

theorem mapM_mkAtom_fields : ∀ (ns : List RawNode) (as : List MAtom), ns.mapM mkAtom = some as →
    as.map (·.charge) = ns.map rawCharge ∧ as.map (·.spin) = ns.map rawSpin ∧
    as.map (·.isotope) = ns.map rawIsotope
  | [], as, h => by simp only [List.mapM_nil] at h; cases h; simp
  | n :: ns, as, h => by
    rw [List.mapM_cons] at h
    cases hn : mkAtom n with
    | none => simp [hn] at h
    | some a =>
      cases hl : ns.mapM mkAtom with
      | none => simp [hn, hl] at h
      | some as' =>
        simp [hn, hl] at h
        subst h
        have ih := mapM_mkAtom_fields ns as' hl
        have hf := mkAtom_fields n a hn
        simp [ih, hf]

theorem zip_range_map_length {α β : Type} (l : List α) (g : Nat × α → β) :
    (((List.range l.length).zip l).map g).length = l.length := by simp

theorem markCenters_field {β : Type} (centers : List Nat) (atoms : List MAtom) (g : MAtom → β)
    (hg : ∀ a : MAtom, g { a with atype := atCoordinationCenter } = g a) :
    (((List.range atoms.length).zip atoms).map fun (ia : Nat × MAtom) =>
      g (if centers.contains ia.1 then { ia.2 with atype := atCoordinationCenter } else ia.2)) = atoms.map g := by
  have : ∀ ia : Nat × MAtom,
      g (if centers.contains ia.1 then { ia.2 with atype := atCoordinationCenter } else ia.2) = g ia.2 := by
    intro ia; split <;> simp [hg]
  simp only [this]
  rw [show (fun ia : Nat × MAtom => g ia.2) = g ∘ Prod.snd from rfl, ← List.map_map]
  congr 1
  exact List.map_snd_zip (by simp)

theorem multiOf_none (f : RawFrag) (hno : f.nodes.filter isMulti = []) (id : Option String) :
    multiOf f id = none := by
  simp [multiOf, hno]

theorem bondsOf_single (f : RawFrag) (hno : f.nodes.filter isMulti = []) (b : RawBond)
    (l : List MBond) (c : Option Nat) (h : bondsOf f b = some (l, c)) : l.length = 1 ∧ c = none := by
  unfold bondsOf at h
  simp only [multiOf_none f hno] at h
  cases hi : atomIndex f b.b with
  | none => simp [hi] at h
  | some i =>
    cases hj : atomIndex f b.e with
    | none => simp [hi, hj] at h
    | some j =>
      cases ht : bondType b with
      | none => simp [hi, hj, ht] at h
      | some t =>
        simp [hi, hj, ht] at h
        obtain ⟨h1, h2⟩ := h
        subst h1 h2
        simp

theorem flatten_singletons {α β : Type} (g : β → List α) : ∀ (bs : List β), (∀ x ∈ bs, (g x).length = 1) →
    ((bs.map g).flatten).length = bs.length
  | [], _ => rfl
  | x :: bs, h => by
    have h1 := h x (by simp)
    have ih := flatten_singletons g bs (fun y hy => h y (by simp [hy]))
    simp [h1, ih]; omega

theorem mapM_mem {α β : Type} (f : α → Option β) : ∀ (l : List α) (l' : List β), l.mapM f = some l' →
    ∀ y ∈ l', ∃ x ∈ l, f x = some y
  | [], l', h, y, hy => by simp only [List.mapM_nil] at h; cases h; simp at hy
  | a :: l, l', h, y, hy => by
    rw [List.mapM_cons] at h
    cases hfa : f a with
    | none => simp [hfa] at h
    | some b =>
      cases hl : l.mapM f with
      | none => simp [hfa, hl] at h
      | some bs =>
        simp [hfa, hl] at h
        subst h
        rcases List.mem_cons.mp hy with rfl | hy'
        · exact ⟨a, by simp, hfa⟩
        · obtain ⟨x, hx, hfx⟩ := mapM_mem f l bs hl y hy'
          exact ⟨x, by simp [hx], hfx⟩

/-- the flat fragment: one atom per node that is not a multi-attachment node, carrying the drawn formal charge,
radical count and isotope; without hapto nodes one bond per `<b>` -/
theorem flat_counts (f : RawFrag) (m : Mol) (h : flat f = some m) :
    m.atoms.length = (atomNodes f).length ∧
    m.atoms.map (·.charge) = (atomNodes f).map rawCharge ∧
    m.atoms.map (·.spin) = (atomNodes f).map rawSpin ∧
    m.atoms.map (·.isotope) = (atomNodes f).map rawIsotope ∧
    (f.nodes.filter isMulti = [] → m.bonds.length = f.bonds.length) := by
  unfold flat at h
  cases ha : (atomNodes f).mapM mkAtom with
  | none => simp [ha] at h
  | some atoms =>
    cases hb : f.bonds.mapM (bondsOf f) with
    | none => simp [ha, hb] at h
    | some bs =>
      simp only [ha, hb, Option.bind_eq_bind, Option.bind_some, Option.some.injEq] at h
      subst h
      have hlen := mapM_some_length mkAtom _ _ ha
      have hfields := mapM_mkAtom_fields _ _ ha
      refine ⟨?_, ?_, ?_, ?_, ?_⟩
      · simp [hlen]
      · rw [← hfields.1]
        simp only [List.map_map]
        exact markCenters_field _ atoms (·.charge) (fun _ => rfl)
      · rw [← hfields.2.1]
        simp only [List.map_map]
        exact markCenters_field _ atoms (·.spin) (fun _ => rfl)
      · rw [← hfields.2.2]
        simp only [List.map_map]
        exact markCenters_field _ atoms (·.isotope) (fun _ => rfl)
      · intro hno
        have hl := mapM_some_length (bondsOf f) _ _ hb
        rw [← hl]
        apply flatten_singletons
        intro x hx
        obtain ⟨b, _, hbx⟩ := mapM_mem (bondsOf f) _ _ hb x hx
        exact (bondsOf_single f hno b x.1 x.2 hbx).1

/-- every bond joins two existing atoms -/
def WF (m : Mol) : Prop := ∀ b ∈ m.bonds, b.a1 < m.atoms.length ∧ b.a2 < m.atoms.length

theorem atomIndex_lt (f : RawFrag) (id : Option String) (i : Nat) (h : atomIndex f id = some i) :
    i < (atomNodes f).length := by
  unfold atomIndex at h
  have := List.mem_of_find?_eq_some h
  simpa using this

theorem bondsOf_wf (f : RawFrag) (b : RawBond) (l : List MBond) (c : Option Nat) (h : bondsOf f b = some (l, c)) :
    ∀ x ∈ l, x.a1 < (atomNodes f).length ∧ x.a2 < (atomNodes f).length := by
  unfold bondsOf at h
  simp only at h
  split at h
  · -- B is a multi-attachment node
    rename_i att hatt
    cases hc : atomIndex f b.e with
    | none => simp [hc] at h
    | some ci =>
      cases he : att.mapM (fun t => atomIndex f (some t)) with
      | none => simp [hc, he] at h
      | some ends =>
        simp only [hc, he, Option.bind_eq_bind, Option.bind_some] at h
        split at h
        · simp at h
        · simp only [Option.some.injEq, Prod.mk.injEq] at h
          obtain ⟨hl, _⟩ := h
          subst hl
          intro x hx
          simp only [List.mem_map] at hx
          obtain ⟨t, ht, rfl⟩ := hx
          obtain ⟨s, _, hs⟩ := mapM_mem _ att ends he t ht
          exact ⟨atomIndex_lt f _ _ hc, atomIndex_lt f _ _ hs⟩
  · split at h
    · rename_i att hatt
      cases hc : atomIndex f b.b with
      | none => simp [hc] at h
      | some ci =>
        cases he : att.mapM (fun t => atomIndex f (some t)) with
        | none => simp [hc, he] at h
        | some ends =>
          simp only [hc, he, Option.bind_eq_bind, Option.bind_some] at h
          split at h
          · simp at h
          · simp only [Option.some.injEq, Prod.mk.injEq] at h
            obtain ⟨hl, _⟩ := h
            subst hl
            intro x hx
            simp only [List.mem_map] at hx
            obtain ⟨t, ht, rfl⟩ := hx
            obtain ⟨s, _, hs⟩ := mapM_mem _ att ends he t ht
            exact ⟨atomIndex_lt f _ _ hc, atomIndex_lt f _ _ hs⟩
    · cases hi : atomIndex f b.b with
      | none => simp [hi] at h
      | some i =>
        cases hj : atomIndex f b.e with
        | none => simp [hi, hj] at h
        | some j =>
          cases ht : bondType b with
          | none => simp [hi, hj, ht] at h
          | some t =>
            simp [hi, hj, ht] at h
            obtain ⟨hl, _⟩ := h
            subst hl
            intro x hx
            simp only [List.mem_singleton] at hx
            subst hx
            exact ⟨atomIndex_lt f _ _ hi, atomIndex_lt f _ _ hj⟩


theorem flat_wf (f : RawFrag) (m : Mol) (h : flat f = some m) : WF m := by
  have hlen := (flat_counts f m h).1
  unfold flat at h
  cases ha : (atomNodes f).mapM mkAtom with
  | none => simp [ha] at h
  | some atoms =>
    cases hb : f.bonds.mapM (bondsOf f) with
    | none => simp [ha, hb] at h
    | some bs =>
      simp only [ha, hb, Option.bind_eq_bind, Option.bind_some, Option.some.injEq] at h
      intro b hbm
      rw [hlen]
      subst h
      simp only [List.mem_flatten, List.mem_map] at hbm
      obtain ⟨l, ⟨x, hx, rfl⟩, hbl⟩ := hbm
      obtain ⟨rb, _, hrb⟩ := mapM_mem (bondsOf f) _ _ hb x hx
      exact bondsOf_wf f rb x.1 x.2 hrb b hbl

theorem afterDel_lt (p i n : Nat) (hi : i < n) (hp : p < n) (hne : i ≠ p) : afterDel p i < n - 1 := by
  unfold afterDel; split <;> omega

theorem delAtom_wf (m : Mol) (p : Nat) (hp : p < m.atoms.length) (h : WF m) : WF (m.delAtom p) := by
  intro b hb
  rw [delAtom_atoms_length m p hp]
  simp only [Mol.delAtom, List.mem_map, List.mem_filter] at hb
  obtain ⟨b0, ⟨hb0, hnot⟩, rfl⟩ := hb
  have hb0' := h b0 hb0
  simp only [MBond.has, Bool.not_eq_true', Bool.or_eq_false_iff, beq_eq_false_iff_ne, ne_eq] at hnot
  exact ⟨afterDel_lt p b0.a1 _ hb0'.1 hp hnot.1, afterDel_lt p b0.a2 _ hb0'.2 hp hnot.2⟩

theorem other_lt (m : Mol) (h : WF m) (b : MBond) (hb : b ∈ m.bonds) (p : Nat) : b.other p < m.atoms.length := by
  unfold MBond.other; split
  · exact (h b hb).2
  · exact (h b hb).1

/-- joining two well-formed molecules gives a well-formed molecule: every bond of the result — the kept ones
and the new one — joins two atoms of the result -/
theorem join_wf (m₁ m₂ m : Mol) (p q : Nat) (h₁ : WF m₁) (h₂ : WF m₂) (h : join m₁ m₂ p q = some m) : WF m := by
  unfold join at h
  split at h
  · rename_i b₁ b₂ hb₁ hb₂
    split at h
    · rename_i hpq
      obtain ⟨hp, hq, ho₁, ho₂⟩ := hpq
      simp only [Option.some.injEq] at h
      subst h
      have a₁ := delAtom_atoms_length m₁ p hp
      have a₂ := delAtom_atoms_length m₂ q hq
      have w₁ := delAtom_wf m₁ p hp h₁
      have w₂ := delAtom_wf m₂ q hq h₂
      have hb₁m : b₁ ∈ m₁.bonds := (List.mem_filter.mp (by rw [hb₁]; simp : b₁ ∈ m₁.bonds.filter (·.has p))).1
      have hb₂m : b₂ ∈ m₂.bonds := (List.mem_filter.mp (by rw [hb₂]; simp : b₂ ∈ m₂.bonds.filter (·.has q))).1
      have o₁ := afterDel_lt p (b₁.other p) _ (other_lt m₁ h₁ b₁ hb₁m p) hp ho₁
      have o₂ := afterDel_lt q (b₂.other q) _ (other_lt m₂ h₂ b₂ hb₂m q) hq ho₂
      intro b hb
      simp only [List.length_append] at *
      simp only [List.mem_append, List.mem_map, List.mem_singleton] at hb
      rcases hb with (hb | ⟨b0, hb0, rfl⟩) | rfl
      · have := w₁ b hb; omega
      · have := w₂ b0 hb0
        simp only [MBond.remap]; omega
      · simp only; omega
    · simp at h
  · simp at h

theorem joinNested_wf (done : List (Option Mol)) (hd : ∀ s, some s ∈ done → WF s) :
    ∀ (ns : List RawNode) (m r : Mol), WF m → joinNested done m ns = some r → WF r
  | [], m, r, hm, h => by
    simp only [joinNested, Option.some.injEq] at h
    subst h; exact hm
  | n :: rest, m, r, hm, h => by
    unfold joinNested at h
    cases hn : n.nested with
    | none =>
      simp only [hn] at h
      exact joinNested_wf done hd rest m r hm h
    | some k =>
      simp only [hn] at h
      cases hsub : (done[k]?).join with
      | none => simp [hsub] at h
      | some sub =>
        have hsubwf : WF sub := by
          apply hd
          cases hk : done[k]? with
          | none => simp [hk] at hsub
          | some o =>
            simp [hk] at hsub
            subst hsub
            exact List.mem_of_getElem? hk
        simp only [hsub, Option.bind_eq_bind, Option.bind_some] at h
        split at h
        · simp at h
        · cases hap : findLabel m n.id with
          | none => simp [hap] at h
          | some ap =>
            cases hsap : sub.attachmentPoints.head? with
            | none => simp [hap, hsap] at h
            | some sap =>
              cases hj : join m sub ap sap with
              | none => simp [hap, hsap, hj] at h
              | some m' =>
                simp only [hap, hsap, hj, Option.bind_some] at h
                exact joinNested_wf done hd rest m' r (join_wf m sub m' ap sap hm hsubwf hj) h

theorem evalFrag_wf (done : List (Option Mol)) (hd : ∀ s, some s ∈ done → WF s) (f : RawFrag) (r : Mol)
    (h : evalFrag done f = some r) : WF r := by
  unfold evalFrag at h
  cases hm : flat f with
  | none => simp [hm] at h
  | some m =>
    simp only [hm, Option.bind_eq_bind, Option.bind_some] at h
    exact joinNested_wf done hd f.nodes m r (flat_wf f m hm) h

theorem evalAll_wf : ∀ (fs : List RawFrag) (done : List (Option Mol)), (∀ s, some s ∈ done → WF s) →
    ∀ s, some s ∈ evalAll fs done → WF s
  | [], done, hd, s, hs => hd s hs
  | f :: fs, done, hd, s, hs => by
    unfold evalAll at hs
    apply evalAll_wf fs (done ++ [evalFrag done f]) _ s hs
    intro t ht
    rcases List.mem_append.mp ht with h | h
    · exact hd t h
    · simp only [List.mem_singleton] at h
      exact evalFrag_wf done hd f t h.symm

/-- whatever `_parse_fragment` returns (any nesting depth): every bond joins two atoms of the molecule -/
theorem parseFragment_wf (fs : List RawFrag) (m : Mol) (h : parseFragment fs = some m) : WF m := by
  unfold parseFragment at h
  cases hl : (evalAll fs []).getLast? with
  | none => simp [hl] at h
  | some o =>
    simp [hl] at h
    subst h
    exact evalAll_wf fs [] (by simp) m (List.mem_of_getLast? hl)

end Molli.Lemmas.Cdxml
