/-
Complete-or-error and termination at the level of `loads_all_mol2` / `loads_all_xyz` (C10):
every returned molecule has exactly the atom and bond counts its own header declares.
-/
import Molli.Lemmas.Mol2Reader
import Molli.Lemmas.XyzReader
namespace Molli.Lemmas.Complete
open Molli.Model.Text Molli.Model.Mol2Types

/-- the two lists have the same length and `R` holds position by position -/
inductive Forall2 {α β : Type} (R : α → β → Prop) : List α → List β → Prop
  | nil : Forall2 R [] []
  | cons {a b l r} : R a b → Forall2 R l r → Forall2 R (a :: l) (b :: r)

theorem Forall2.length_eq {α β : Type} {R : α → β → Prop} {l : List α} {r : List β} (h : Forall2 R l r) :
    l.length = r.length := by
  induction h with
  | nil => rfl
  | cons _ _ ih => simp only [List.length_cons, ih]

/-! ### mol2 -/
section mol2
open Molli.Model.Mol2 Molli.Lemmas.Mol2Reader
variable (tt : TypeTable) (bt : BondTable)

theorem fieldAt_err (r : Rec) (i : Nat) (e : Err) (h : fieldAt r i = .error e) : e = .value := by
  unfold fieldAt at h
  split at h <;> simp at h
  exact h.symm

theorem floatField_err (r : Rec) (i : Nat) (e : Err) (h : floatField r i = .error e) : e = .value := by
  unfold floatField at h
  split at h
  · rename_i e' he'
    simp only [Except.error.injEq] at h; subst h
    exact fieldAt_err r i _ he'
  · split at h <;> simp at h
    exact h.symm

theorem intField_err (r : Rec) (i : Nat) (e : Err) (h : intField r i = .error e) : e = .value := by
  unfold intField at h
  split at h
  · rename_i e' he'
    simp only [Except.error.injEq] at h; subst h
    exact fieldAt_err r i _ he'
  · split at h <;> simp at h
    exact h.symm

theorem buildAtom_err (wc : Bool) (r : Rec) (e : Err) (h : buildAtom tt wc r = .error e) : e = .value := by
  unfold buildAtom at h
  repeat' split at h
  all_goals try dsimp only at h
  all_goals repeat' split at h
  all_goals first
    | (simp at h; done)
    | (simp only [Except.error.injEq] at h; exact h.symm)
    | (rename_i e' he' _; simp only [Except.error.injEq] at h; subst h; exact floatField_err r 8 _ he')
    | (rename_i e' he'; simp only [Except.error.injEq] at h; subst h;
       first | exact fieldAt_err r 5 _ he' | exact floatField_err r 8 _ he')
    | skip

theorem buildAtom_ne_fuel (wc : Bool) (r : Rec) : buildAtom tt wc r ≠ .error .fuel := by
  intro h; have := buildAtom_err tt wc r _ h; simp at this

theorem buildBond_ne_fuel (n : Nat) (r : Rec) : buildBond bt n r ≠ .error .fuel := by
  unfold buildBond
  split
  · split <;> simp
  · simp

theorem buildMol_ne_fuel (k : Kind) (name : Option Str) (b : Block) : buildMol tt bt k name b ≠ .error .fuel := by
  unfold buildMol
  split
  · simp
  · cases b.atoms with
    | none => simp
    | some as =>
      cases b.bonds with
      | none => simp
      | some bs =>
        dsimp only
        cases hA : mapE (buildAtom tt (decide (k = Kind.molecule ∧ b.header.chrgType ≠ noCharges))) as with
        | error e =>
          intro h
          simp only [Except.error.injEq] at h
          subst h
          exact mapE_ne_fuel _ (buildAtom_ne_fuel tt _) _ hA
        | ok atoms =>
          dsimp only
          cases hB : mapE (buildBond bt atoms.length) bs with
          | error e =>
            intro h
            simp only [Except.error.injEq] at h
            subst h
            exact mapE_ne_fuel _ (buildBond_ne_fuel bt _) _ hB
          | ok bonds => simp

/-- "The readers terminate on every input": the fuel the model gives the reader (`number of lines + 1`)
is never exhausted, on any text. -/
theorem loadsAll_ne_fuel (k : Kind) (name : Option Str) (text : Str) :
    loadsAll tt bt k name text ≠ .error .fuel := by
  unfold loadsAll readBlocks
  split
  · rename_i e he
    intro h; simp only [Except.error.injEq] at h; subst h
    exact readLoop_terminates _ _ _ (Nat.lt_succ_self _) he
  · exact mapE_ne_fuel _ (buildMol_ne_fuel tt bt k name) _

/-- a header the reader accepted declares non-negative counts -/
def HdrOk (h : Header) : Prop := 0 ≤ h.nAtoms ∧ ∀ nb, h.nBonds = some nb → 0 ≤ nb

def StHdrOk (st : RSt) : Prop := ∀ h, st.hdr = some h → HdrOk h

theorem parseCounts_nonneg (s : Str) (na : Int) (nb? : Option Int) (h : parseCounts s = .ok (na, nb?)) :
    0 ≤ na ∧ ∀ nb, nb? = some nb → 0 ≤ nb := by
  unfold parseCounts at h
  repeat' split at h
  all_goals first
    | (simp at h; done)
    | (simp only [Except.ok.injEq, Prod.mk.injEq] at h; obtain ⟨rfl, rfl⟩ := h
       refine ⟨by omega, ?_⟩
       intro nb hnb
       first
        | (simp at hnb; done)
        | (simp only [Option.some.injEq] at hnb; subst hnb; omega))

theorem flush_hdr (st : RSt) (hst : StHdrOk st) : ∀ b ∈ flush st, HdrOk b.header := by
  intro b hb
  unfold flush at hb
  split at hb
  · rename_i h hh
    simp only [List.mem_singleton] at hb
    subst hb
    exact hst h hh
  · simp at hb

theorem step_hdr (st : RSt) (line : Str) (ls : List Str) (hst : StHdrOk st) :
    ∀ pre st' rest, step st line ls = .ok (pre, st', rest) →
      (∀ b ∈ pre, HdrOk b.header) ∧ StHdrOk st' := by
  intro pre st' rest h
  have same : ∀ (x : RSt), x.hdr = st.hdr → StHdrOk x := by
    intro x hx h' hh'; rw [hx] at hh'; exact hst h' hh'
  have nilok : ∀ b ∈ ([] : List Block), HdrOk b.header := by intro b hb; simp at hb
  unfold step at h
  split at h
  · simp only [Except.ok.injEq, Prod.mk.injEq] at h; obtain ⟨rfl, rfl, rfl⟩ := h; exact ⟨nilok, hst⟩
  split at h
  · simp only [Except.ok.injEq, Prod.mk.injEq] at h; obtain ⟨rfl, rfl, rfl⟩ := h; exact ⟨nilok, hst⟩
  split at h
  · split at h
    · -- MOLECULE
      split at h
      · simp at h
      · split at h
        · split at h
          · simp at h
          · rename_i na nb hpc
            dsimp only at h
            split at h
            · simp at h
            · simp only [Except.ok.injEq, Prod.mk.injEq] at h
              obtain ⟨rfl, rfl, rfl⟩ := h
              refine ⟨flush_hdr st hst, ?_⟩
              intro h' hh'
              simp only [Option.some.injEq] at hh'
              subst hh'
              exact parseCounts_nonneg _ _ _ hpc
        · simp at h
    · split at h
      · -- ATOM
        split at h
        · simp at h
        · split at h
          · simp at h
          · split at h
            · simp at h
            · simp only [Except.ok.injEq, Prod.mk.injEq] at h
              obtain ⟨rfl, rfl, rfl⟩ := h
              exact ⟨nilok, same _ rfl⟩
      · split at h
        · -- BOND
          split at h
          · simp at h
          · split at h
            · simp at h
            · split at h
              · simp at h
              · split at h
                · simp at h
                · simp only [Except.ok.injEq, Prod.mk.injEq] at h
                  obtain ⟨rfl, rfl, rfl⟩ := h
                  exact ⟨nilok, same _ rfl⟩
        · split at h
          · -- UNITY_ATOM_ATTR
            split at h
            · simp at h
            · simp only [Except.ok.injEq, Prod.mk.injEq] at h
              obtain ⟨rfl, rfl, rfl⟩ := h
              exact ⟨nilok, same _ rfl⟩
          · split at h
            · split at h
              · simp at h
              · simp only [Except.ok.injEq, Prod.mk.injEq] at h
                obtain ⟨rfl, rfl, rfl⟩ := h
                exact ⟨nilok, same _ rfl⟩
            · simp only [Except.ok.injEq, Prod.mk.injEq] at h
              obtain ⟨rfl, rfl, rfl⟩ := h
              exact ⟨nilok, same _ rfl⟩
  · split at h
    · simp only [Except.ok.injEq, Prod.mk.injEq] at h; obtain ⟨rfl, rfl, rfl⟩ := h; exact ⟨nilok, hst⟩
    · simp at h

/-- every block returned by the reader has a header with non-negative counts -/
theorem readLoop_hdr : ∀ (f : Nat) (st : RSt) (ls : List Str) (bs : List Block),
    StHdrOk st → readLoop f st ls = .ok bs → ∀ b ∈ bs, HdrOk b.header := by
  intro f
  induction f with
  | zero => intro st ls bs _ h; simp [readLoop] at h
  | succ f ih =>
    intro st ls bs hst h
    cases ls with
    | nil =>
      rw [readLoop_nil] at h
      unfold flushFinal at h
      split at h
      · rename_i hd hh
        simp only [Except.ok.injEq] at h
        subst h
        intro b hb
        simp only [List.mem_singleton] at hb
        subst hb
        exact hst hd hh
      · simp at h
    | cons line ls =>
      rw [readLoop_step] at h
      unfold cont at h
      split at h
      · simp at h
      · rename_i pre st' rest hstep
        have := step_hdr st line ls hst pre st' rest hstep
        split at h
        · simp at h
        · rename_i more hmore
          simp only [Except.ok.injEq] at h
          subst h
          intro b hb
          rcases List.mem_append.1 hb with hb | hb
          · exact this.1 b hb
          · exact ih st' rest more this.2 hmore b hb

/-- a built molecule has the counts of its block's header -/
theorem buildMol_counts (k : Kind) (name : Option Str) (b : Block) (m : MolV) (hb : Complete b)
    (hh : HdrOk b.header) (h : buildMol tt bt k name b = .ok m) :
    (m.atoms.length : Int) = b.header.nAtoms ∧ some (m.bonds.length : Int) = b.header.nBonds := by
  unfold buildMol at h
  split at h
  · simp at h
  · cases has : b.atoms with
    | none => rw [has] at h; simp at h
    | some as =>
      cases hbs : b.bonds with
      | none => rw [has, hbs] at h; simp at h
      | some bs =>
        rw [has, hbs] at h
        dsimp only at h
        cases hA : mapE (buildAtom tt (decide (k = Kind.molecule ∧ b.header.chrgType ≠ noCharges))) as with
        | error e => rw [hA] at h; simp at h
        | ok atoms =>
          rw [hA] at h
          dsimp only at h
          cases hB : mapE (buildBond bt atoms.length) bs with
          | error e => rw [hB] at h; simp at h
          | ok bonds =>
            rw [hB] at h
            simp only [Except.ok.injEq] at h
            subst h
            have h1 := mapE_length _ _ _ hA
            have h2 := mapE_length _ _ _ hB
            have ha := hb.1 as has
            obtain ⟨nb, hnb, hlen⟩ := hb.2 bs hbs
            have hn0 := hh.1
            have hnb0 := hh.2 nb hnb
            simp only
            refine ⟨by omega, ?_⟩
            rw [hnb]
            congr 1
            omega

theorem mapE_forall₂ {α β : Type} (f : α → Except Err β) (l : List α) (r : List β) (h : mapE f l = .ok r) :
    Forall2 (fun a b => f a = .ok b) l r := by
  induction l generalizing r with
  | nil => simp only [mapE, Except.ok.injEq] at h; subst h; exact .nil
  | cons a l ih =>
    simp only [mapE] at h
    split at h
    · simp at h
    · rename_i b hb
      split at h
      · simp at h
      · rename_i bs hbs
        simp only [Except.ok.injEq] at h
        subst h
        exact .cons hb (ih bs hbs)

/-- "the result is either an exception or a sequence of complete molecules: each has exactly the atom
and bond counts its own header declares": if `loads_all_mol2` returns, the text had blocks `bs`, one per
returned molecule, and molecule `i` has exactly `bs[i].header.nAtoms` atoms and `bs[i].header.nBonds` bonds. -/
theorem loadsAll_complete (k : Kind) (name : Option Str) (text : Str) (ms : List MolV)
    (h : loadsAll tt bt k name text = .ok ms) :
    ∃ bs, readBlocks text = .ok bs ∧
      Forall2 (fun (b : Block) (m : MolV) =>
        (m.atoms.length : Int) = b.header.nAtoms ∧ some (m.bonds.length : Int) = b.header.nBonds) bs ms := by
  unfold loadsAll at h
  split at h
  · simp at h
  · rename_i bs hbs
    refine ⟨bs, hbs, ?_⟩
    have hc : ∀ b ∈ bs, Complete b := by
      unfold readBlocks at hbs
      exact readLoop_complete _ _ _ _ stOk_init hbs
    have hh : ∀ b ∈ bs, HdrOk b.header := by
      unfold readBlocks at hbs
      exact readLoop_hdr _ _ _ _ (by intro h' hh'; simp [RSt.init] at hh') hbs
    have hf := mapE_forall₂ _ _ _ h
    clear h hbs
    induction hf with
    | nil => exact .nil
    | @cons b m bs' ms' hab _ ih =>
      refine .cons (buildMol_counts tt bt k name b m (hc b (by simp)) (hh b (by simp)) hab) ?_
      exact ih (fun x hx => hc x (by simp [hx])) (fun x hx => hh x (by simp [hx]))

end mol2

/-! ### xyz -/
section xyz
open Molli.Model.Xyz Molli.Lemmas.XyzReader
variable (tt : TypeTable)

theorem xmapE_ne_fuel {α β : Type} (f : α → Except Err β) (hf : ∀ a, f a ≠ .error .fuel) (l : List α) :
    Molli.Model.Xyz.mapE f l ≠ .error .fuel := by
  induction l with
  | nil => simp [Molli.Model.Xyz.mapE]
  | cons a l ih =>
    simp only [Molli.Model.Xyz.mapE]
    split
    · rename_i e he; intro h; simp only [Except.error.injEq] at h; subst h; exact hf a he
    · split
      · rename_i e he; intro h; simp only [Except.error.injEq] at h; subst h; exact ih he
      · simp

theorem xmapE_length {α β : Type} (f : α → Except Err β) (l : List α) (r : List β)
    (h : Molli.Model.Xyz.mapE f l = .ok r) : r.length = l.length := by
  induction l generalizing r with
  | nil => simp only [Molli.Model.Xyz.mapE, Except.ok.injEq] at h; subst h; rfl
  | cons a l ih =>
    simp only [Molli.Model.Xyz.mapE] at h
    split at h
    · simp at h
    · split at h
      · simp at h
      · rename_i bs hbs
        simp only [Except.ok.injEq] at h
        subst h
        simp only [List.length_cons, ih bs hbs]

theorem xmapE_forall₂ {α β : Type} (f : α → Except Err β) (l : List α) (r : List β)
    (h : Molli.Model.Xyz.mapE f l = .ok r) : Forall2 (fun a b => f a = .ok b) l r := by
  induction l generalizing r with
  | nil => simp only [Molli.Model.Xyz.mapE, Except.ok.injEq] at h; subst h; exact .nil
  | cons a l ih =>
    simp only [Molli.Model.Xyz.mapE] at h
    split at h
    · simp at h
    · rename_i b hb
      split at h
      · simp at h
      · rename_i bs hbs
        simp only [Except.ok.injEq] at h
        subst h
        exact .cons hb (ih bs hbs)

theorem buildAtom_xyz_ne_fuel (a : RawAtom) : Molli.Model.Xyz.buildAtom tt a ≠ .error .fuel := by
  unfold Molli.Model.Xyz.buildAtom
  split
  · simp
  · split <;> simp

theorem buildFrame_ne_fuel (b : RawBlock) : buildFrame tt b ≠ .error .fuel := by
  unfold buildFrame
  split
  · simp
  · split
    · rename_i e he
      intro h; simp only [Except.error.injEq] at h; subst h
      exact xmapE_ne_fuel _ (buildAtom_xyz_ne_fuel tt) _ he
    · simp

/-- `loads_all_xyz` terminates on every input: the fuel is never exhausted -/
theorem xyz_loadsAll_ne_fuel (text : Str) : Molli.Model.Xyz.loadsAll tt text ≠ .error .fuel := by
  unfold Molli.Model.Xyz.loadsAll Molli.Model.Xyz.readBlocks
  split
  · rename_i e he
    intro h; simp only [Except.error.injEq] at h; subst h
    exact Molli.Lemmas.XyzReader.readLoop_terminates _ _ (Nat.lt_succ_self _) he
  · exact xmapE_ne_fuel _ (buildFrame_ne_fuel tt) _

/-- every returned frame has exactly the number of atoms its own count line declares -/
theorem xyz_loadsAll_complete (text : Str) (fs : List Frame) (h : Molli.Model.Xyz.loadsAll tt text = .ok fs) :
    ∃ bs, Molli.Model.Xyz.readBlocks text = .ok bs ∧
      Forall2 (fun (b : RawBlock) (f : Frame) => (f.atoms.length : Int) = b.n) bs fs := by
  unfold Molli.Model.Xyz.loadsAll at h
  split at h
  · simp at h
  · rename_i bs hbs
    refine ⟨bs, hbs, ?_⟩
    have hc : ∀ b ∈ bs, b.atoms.length = b.n.toNat := by
      unfold Molli.Model.Xyz.readBlocks at hbs
      exact Molli.Lemmas.XyzReader.readLoop_complete _ _ _ hbs
    have hf := xmapE_forall₂ _ _ _ h
    clear h hbs
    induction hf with
    | nil => exact .nil
    | @cons b f bs' fs' hab _ ih =>
      refine .cons ?_ (ih (fun x hx => hc x (by simp [hx])))
      unfold buildFrame at hab
      split at hab
      · simp at hab
      · split at hab
        · simp at hab
        · rename_i as has
          simp only [Except.ok.injEq] at hab
          subst hab
          have := xmapE_length _ _ _ has
          have := hc b (by simp)
          simp only
          omega

end xyz

end Molli.Lemmas.Complete
