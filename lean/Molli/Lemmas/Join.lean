/-
List lemmas behind C12: dropping one atom and re-indexing, the atom bookkeeping of iterated
joins (`molli combine`).  Core Lean only.
-/
import Molli.Model.Join
namespace Molli.Lemmas.Join
open Molli.Model.Join Molli.Model.Geom

variable {A B : Type}

/-- after dropping position `k`, the atom formerly at `j ≠ k` sits at `reidx k j` -/
theorem getElem?_eraseIdx_reidx (l : List A) (k j : Nat) (h : j ≠ k) :
    (l.eraseIdx k)[reidx k j]? = l[j]? := by
  rw [List.getElem?_eraseIdx]
  unfold reidx
  by_cases hjk : j < k
  · simp only [hjk, if_true]
  · have hk : k < j := by omega
    have h1 : ¬ (j - 1 < k) := by omega
    simp only [hjk, if_false, h1]
    congr 1; omega

theorem reidx_lt (k j n : Nat) (h : j ≠ k) (hj : j < n) (hk : k < n) : reidx k j < n - 1 := by
  unfold reidx; split <;> omega

theorem reidx_inj (k a b : Nat) (ha : a ≠ k) (hb : b ≠ k) (h : reidx k a = reidx k b) : a = b := by
  unfold reidx at h; split at h <;> split at h <;> omega

theorem reidx_lt_iff (k a b : Nat) (ha : a ≠ k) (hb : b ≠ k) : reidx k a < reidx k b ↔ a < b := by
  unfold reidx; split <;> split <;> omega

theorem nodup_map_of_inj_on {f : Nat → Nat} {l : List Nat} (h : l.Nodup)
    (hinj : ∀ a ∈ l, ∀ b ∈ l, f a = f b → a = b) : (l.map f).Nodup := by
  unfold List.Nodup at *
  rw [List.pairwise_map]
  exact List.Pairwise.imp_of_mem (fun ha hb hne heq => hne (hinj _ ha _ hb heq)) h

/-! ### iterated joins: which atom does step `i` address? -/

/-- the loop only looks at the addresses: equal address sequences give equal runs -/
theorem combine_congr (v v' : Variant) (aps aps' : List Nat) (i i' : Nat)
    (h : ∀ j, address v aps (i + j) = address v' aps' (i' + j))
    (cur : List A) (exts : List (List A)) :
    combineAtoms v aps i cur exts = combineAtoms v' aps' i' cur exts := by
  induction exts generalizing i i' cur with
  | nil => simp [combineAtoms]
  | cons ext exts ih =>
    have h0 := h 0
    simp only [Nat.add_zero] at h0
    simp only [combineAtoms, h0]
    cases (address v' aps' i').bind (pyIndex cur.length) with
    | none => rfl
    | some k =>
      simp only
      rw [ih (i + 1) (i' + 1) (fun j => by
        have := h (j + 1)
        rw [show i + (j + 1) = i + 1 + j by omega, show i' + (j + 1) = i' + 1 + j by omega] at this
        exact this)]

theorem filter_lt_map_reidx (x a : Nat) (l : List Nat) (hl : ∀ y ∈ l, y ≠ x) (ha : a ≠ x) :
    ((l.map (reidx x)).filter (· < reidx x a)).length = (l.filter (· < a)).length := by
  induction l with
  | nil => rfl
  | cons y r ih =>
    have hy : y ≠ x := hl y (by simp)
    have ihr := ih (fun z hz => hl z (by simp [hz]))
    simp only [List.map_cons, List.filter_cons]
    have hiff := reidx_lt_iff x y a hy ha
    by_cases hya : y < a
    · have : reidx x y < reidx x a := hiff.mpr hya
      simp only [this, hya, decide_true, if_true, List.length_cons, ihr]
    · have : ¬ reidx x y < reidx x a := fun h => hya (hiff.mp h)
      simp only [this, hya, decide_false]
      exact ihr

/-- Peeling the first attachment point: from the second step on, the repaired addresses for
`x :: r` are the repaired addresses for the list re-mapped after dropping `x`. -/
theorem address_peel (x : Nat) (r : List Nat) (hnd : (x :: r).Nodup) (i : Nat) :
    address .repaired (x :: r) (i + 1) = address .repaired (r.map (reidx x)) i := by
  have hxr : x ∉ r := (List.nodup_cons.mp hnd).1
  have hne : ∀ y ∈ r, y ≠ x := fun y hy h => hxr (h ▸ hy)
  unfold address
  simp only [List.getElem?_cons_succ, List.getElem?_map]
  cases hri : r[i]? with
  | none => simp
  | some a =>
    have ha : a ∈ r := List.mem_of_getElem? hri
    have hax : a ≠ x := hne a ha
    simp only [Option.map_some, Option.some.injEq]
    unfold consumedBefore
    rw [List.take_succ_cons, ← List.map_take,
      filter_lt_map_reidx x a (r.take i) (fun y hy => hne y (List.mem_of_mem_take hy)) hax]
    simp only [List.filter_cons]
    unfold reidx
    by_cases hxa : x < a
    · have h1 : ¬ a < x := by omega
      simp only [hxa, decide_true, if_true, h1, if_false, List.length_cons]
      omega
    · have h1 : a < x := by omega
      simp only [hxa, decide_false, h1, if_true]
      simp

/-- **The repaired index shift addresses, at every step, the original attachment point.**
For pairwise distinct valid attachment indices the atoms consumed by the loop are exactly the
core's atoms at `aps[0], aps[1], …` in that order. -/
theorem combine_repaired_spec (n : Nat) : ∀ (aps : List Nat) (cur : List A) (exts : List (List A)),
    aps.length = n → aps.Nodup → (∀ a ∈ aps, a < cur.length) → exts.length = aps.length →
    (combineAtoms .repaired aps 0 cur exts).1 = aps.map (fun a => cur[a]?) := by
  induction n with
  | zero =>
    intro aps cur exts hn _ _ hlen
    have : aps = [] := List.eq_nil_of_length_eq_zero hn
    subst this
    have : exts = [] := List.eq_nil_of_length_eq_zero (by simpa using hlen)
    subst this
    simp [combineAtoms]
  | succ n ih =>
    intro aps cur exts hn hnd hlt hlen
    match aps, exts with
    | [], _ => simp at hn
    | x :: r, [] => simp at hlen
    | x :: r, ext :: exts =>
      have hx : x < cur.length := hlt x (by simp)
      have hxr : x ∉ r := (List.nodup_cons.mp hnd).1
      have hr : r.Nodup := (List.nodup_cons.mp hnd).2
      have hne : ∀ y ∈ r, y ≠ x := fun y hy h => hxr (h ▸ hy)
      have haddr : (address .repaired (x :: r) 0).bind (pyIndex cur.length) = some x := by
        simp only [address, consumedBefore, List.getElem?_cons_zero, List.take_zero, List.filter_nil,
          List.length_nil, Int.natCast_zero, Int.sub_zero, Option.bind_some, pyIndex]
        have h0 : (0 : Int) ≤ (x : Int) := Int.natCast_nonneg x
        have h1 : (x : Int) < (cur.length : Int) := Int.ofNat_lt.mpr hx
        simp only [h0, h1, if_true, Int.toNat_natCast]
      simp only [combineAtoms, haddr, List.map_cons]
      congr 1
      rw [combine_congr .repaired .repaired (x :: r) (r.map (reidx x)) 1 0
        (fun j => by rw [Nat.add_comm 1 j, Nat.zero_add]; exact address_peel x r hnd j)]
      rw [ih (r.map (reidx x)) (cur.eraseIdx x ++ ext) exts]
      · rw [List.map_map]
        apply List.map_congr_left
        intro y hy
        have hy' : y < cur.length := hlt y (by simp [hy])
        have hlt2 : reidx x y < (cur.eraseIdx x).length := by
          rw [List.length_eraseIdx]; simp only [hx, if_true]
          exact reidx_lt x y cur.length (hne y hy) hy' hx
        show (cur.eraseIdx x ++ ext)[reidx x y]? = cur[y]?
        rw [List.getElem?_append_left hlt2]
        exact getElem?_eraseIdx_reidx cur x y (hne y hy)
      · simp only [List.length_map]; simp only [List.length_cons] at hn; omega
      · exact nodup_map_of_inj_on hr (fun a ha b hb hab => reidx_inj x a b (hne a ha) (hne b hb) hab)
      · intro a ha
        obtain ⟨y, hy, rfl⟩ := List.mem_map.mp ha
        have hy' : y < cur.length := hlt y (by simp [hy])
        have := reidx_lt x y cur.length (hne y hy) hy' hx
        rw [List.length_append, List.length_eraseIdx]; simp only [hx, if_true]; omega
      · simp only [List.length_map]; simp only [List.length_cons] at hlen; omega

/-- for ascending attachment indices the shipped `ap_i - i` is the repaired shift -/
theorem address_shipped_sorted (aps : List Nat) (hs : aps.Pairwise (· < ·)) (i : Nat) :
    address .asShipped aps i = address .repaired aps i := by
  unfold address
  cases hai : aps[i]? with
  | none => rfl
  | some a =>
    simp only [Option.some.injEq]
    have hi : i < aps.length := by
      rcases Nat.lt_or_ge i aps.length with h | h
      · exact h
      · rw [List.getElem?_eq_none_iff.mpr h] at hai; simp at hai
    have hall : ∀ y ∈ aps.take i, y < a := by
      intro y hy
      obtain ⟨j, hj, rfl⟩ := List.getElem_of_mem hy
      have hj' : j < i := by simp only [List.length_take] at hj; omega
      rw [List.getElem_take]
      have ha : a = aps[i] := by
        rw [List.getElem?_eq_getElem hi] at hai; exact (Option.some.inj hai).symm
      rw [ha]
      exact List.pairwise_iff_getElem.mp hs j i (by omega) hi hj'
    have hcount : consumedBefore aps i a = i := by
      unfold consumedBefore
      rw [List.filter_eq_self.mpr (fun y hy => by simpa using hall y hy), List.length_take]
      omega
    rw [hcount]

/-! ### the combinatorial result of one join -/

theorem joinTopo_some {v : Variant} {atomsA : List A} {bondsA : List (Bond B)} {qA mA : Int}
    {atomsB : List A} {bondsB : List (Bond B)} {qB mB : Int} {i1 i2 : Nat} {nb : B}
    {charge? mult? : Option Int} {t : Topo A B}
    (h : joinTopo v atomsA bondsA qA mA atomsB bondsB qB mB i1 i2 nb charge? mult? = some t) :
    i1 < atomsA.length ∧ i2 < atomsB.length ∧ nBondsWith bondsA i1 = 1 ∧ nBondsWith bondsB i2 = 1 ∧
    ∃ n1 n2, neighbour? bondsA i1 = some n1 ∧ neighbour? bondsB i2 = some n2 ∧
      t.atoms = atomsA.eraseIdx i1 ++ atomsB.eraseIdx i2 ∧
      t.bonds = keptBonds bondsA i1 0 ++ keptBonds bondsB i2 (atomsA.length - 1) ++
        [⟨reidx i1 n1, atomsA.length - 1 + reidx i2 n2, nb⟩] ∧
      t.charge = pick v charge? (qA + qB) ∧ t.mult = ctorMult (pick v mult? (mA + mB - 1)) ∧
      t.r1 = reidx i1 n1 ∧ t.r2 = atomsA.length - 1 + reidx i2 n2 := by
  unfold joinTopo at h
  split at h
  · rename_i hc
    obtain ⟨h1, h2, h3, h4⟩ := hc
    split at h
    · rename_i n1 n2 hn1 hn2
      simp only [Option.some.injEq] at h
      subst h
      exact ⟨h1, h2, h3, h4, n1, n2, hn1, hn2, rfl, rfl, rfl, rfl, rfl, rfl⟩
    · simp at h
  · simp at h

/-- the unique bond at an attachment point: its other end is the `neighbour?` -/
theorem neighbour_spec {bonds : List (Bond B)} {i n : Nat} (h : neighbour? bonds i = some n) :
    ∃ b ∈ bonds, b.touches i = true ∧ b.other i = n := by
  unfold neighbour? at h
  cases hf : bonds.find? (·.touches i) with
  | none => rw [hf] at h; simp at h
  | some b =>
    rw [hf] at h
    simp only [Option.map_some, Option.some.injEq] at h
    exact ⟨b, List.mem_of_find?_eq_some hf, by simpa using List.find?_some hf, h⟩

theorem atoms_left {atomsA atomsB : List A} {i1 i2 : Nat} (h1 : i1 < atomsA.length)
    (j : Nat) (hj : j < atomsA.length) (hne : j ≠ i1) :
    (atomsA.eraseIdx i1 ++ atomsB.eraseIdx i2)[reidx i1 j]? = atomsA[j]? := by
  have hlt : reidx i1 j < (atomsA.eraseIdx i1).length := by
    rw [List.length_eraseIdx]; simp only [h1, if_true]
    exact reidx_lt i1 j atomsA.length hne hj h1
  rw [List.getElem?_append_left hlt]
  exact getElem?_eraseIdx_reidx atomsA i1 j hne

theorem atoms_right {atomsA atomsB : List A} {i1 i2 : Nat} (h1 : i1 < atomsA.length)
    (j : Nat) (hne : j ≠ i2) :
    (atomsA.eraseIdx i1 ++ atomsB.eraseIdx i2)[atomsA.length - 1 + reidx i2 j]? = atomsB[j]? := by
  have hlen : (atomsA.eraseIdx i1).length = atomsA.length - 1 := by
    rw [List.length_eraseIdx]; simp only [h1, if_true]
  rw [List.getElem?_append_right (by omega), hlen, Nat.add_sub_cancel_left]
  exact getElem?_eraseIdx_reidx atomsB i2 j hne

theorem filter_not_length (l : List (Bond B)) (p : Bond B → Bool) :
    (l.filter (fun b => !p b)).length + (l.filter p).length = l.length := by
  induction l with
  | nil => rfl
  | cons a r ih =>
    simp only [List.filter_cons]
    cases hp : p a <;> simp only [Bool.not_false, Bool.not_true, if_true, List.length_cons] <;> simp <;> omega

theorem keptBonds_length (bonds : List (Bond B)) (k off : Nat) :
    (keptBonds bonds k off).length = bonds.length - nBondsWith bonds k := by
  unfold keptBonds nBondsWith
  rw [List.length_map]
  have := filter_not_length bonds (fun b => b.touches k)
  omega

theorem mem_keptBonds {bonds : List (Bond B)} {k off : Nat} {b : Bond B} (hb : b ∈ bonds)
    (hk : b.touches k = false) :
    (⟨off + reidx k b.a1, off + reidx k b.a2, b.data⟩ : Bond B) ∈ keptBonds bonds k off := by
  unfold keptBonds
  apply List.mem_map.mpr
  exact ⟨b, List.mem_filter.mpr ⟨hb, by simp [hk]⟩, rfl⟩

theorem of_mem_keptBonds {bonds : List (Bond B)} {k off : Nat} {b' : Bond B}
    (hb : b' ∈ keptBonds bonds k off) :
    ∃ b ∈ bonds, b.touches k = false ∧ b' = ⟨off + reidx k b.a1, off + reidx k b.a2, b.data⟩ := by
  unfold keptBonds at hb
  obtain ⟨b, hbm, rfl⟩ := List.mem_map.mp hb
  obtain ⟨h1, h2⟩ := List.mem_filter.mp hbm
  exact ⟨b, h1, by simpa using h2, rfl⟩

theorem not_touches {b : Bond B} {k : Nat} (h : b.touches k = false) : b.a1 ≠ k ∧ b.a2 ≠ k := by
  unfold Bond.touches at h
  simp only [Bool.or_eq_false_iff, beq_eq_false_iff_ne] at h
  exact h

end Molli.Lemmas.Join
