/-
Ordered-field facts that discharge the side conditions of the antiparallel branch of
`rotation_matrix_from_vectors`: the helper direction is never opposite to `a`, and the norm of the
repaired helper (`n² = 1 − b_k²`, `k = argmin |b|`) is never zero.
-/
import Mathlib.Tactic.Ring
import Mathlib.Tactic.LinearCombination
import Mathlib.Tactic.Linarith
import Mathlib.Algebra.Order.Field.Basic
import Molli.Lemmas.GeomField
namespace Molli.Lemmas.Geom
open Molli.Model.Geom

set_option linter.unusedSimpArgs false
set_option linter.unusedVariables false
set_option linter.unusedSectionVars false

variable {α : Type} [Field α] [LinearOrder α] [IsStrictOrderedRing α]

theorem dot_self_nonneg (r : V3 α) : 0 ≤ r.dot r := by
  obtain ⟨x, y, z⟩ := r
  simp only [V3.dot]
  have := mul_self_nonneg x; have := mul_self_nonneg y; have := mul_self_nonneg z
  linarith

/-- Bessel: for orthonormal `o`, `b` and a unit vector `a`: `(a·o)² + (a·b)² ≤ 1`. -/
theorem bessel2 (a o b : V3 α) (ha : a.dot a = 1) (ho : o.dot o = 1) (hb : b.dot b = 1)
    (hob : o.dot b = 0) : a.dot o * a.dot o + a.dot b * a.dot b ≤ 1 := by
  have hr := dot_self_nonneg ((a.sub (o.smul (a.dot o))).sub (b.smul (a.dot b)))
  have key : ((a.sub (o.smul (a.dot o))).sub (b.smul (a.dot b))).dot
      ((a.sub (o.smul (a.dot o))).sub (b.smul (a.dot b))) =
      1 - a.dot o * a.dot o - a.dot b * a.dot b := by
    obtain ⟨a1, a2, a3⟩ := a
    obtain ⟨o1, o2, o3⟩ := o
    obtain ⟨b1, b2, b3⟩ := b
    simp only [V3.dot, V3.sub, V3.smul] at *
    linear_combination ha + ((a1 * o1 + a2 * o2 + a3 * o3) ^ 2) * ho +
      ((a1 * b1 + a2 * b2 + a3 * b3) ^ 2) * hb +
      (2 * (a1 * o1 + a2 * o2 + a3 * o3) * (a1 * b1 + a2 * b2 + a3 * b3)) * hob
  rw [key] at hr
  linarith

/-- In the antiparallel branch (`a·b ≠ 0`) a unit helper `o ⊥ b` is never opposite to `a`:
the first of the two rotations is always in its general branch. -/
theorem helper_side_condition (a o b : V3 α) (ha : a.dot a = 1) (ho : o.dot o = 1)
    (hb : b.dot b = 1) (hob : o.dot b = 0) (hc : a.dot b ≠ 0) : 1 + a.dot o ≠ 0 := by
  intro h
  have hao : a.dot o = -1 := by linarith
  have hbes := bessel2 a o b ha ho hb hob
  rw [hao] at hbes
  have h1 : a.dot b * a.dot b ≤ 0 := by linarith
  have h2 := mul_self_nonneg (a.dot b)
  have h3 : a.dot b * a.dot b = 0 := le_antisymm h1 h2
  exact hc (mul_self_eq_zero.mp h3)

theorem absv_mul_self (x : α) : absv x * absv x = x * x := by
  unfold absv; split <;> ring

theorem absv_nonneg (x : α) : 0 ≤ absv x := by
  unfold absv; split
  · assumption
  · rename_i h; have := lt_of_not_ge h; linarith

theorem sq_le_of_absv_le {x y : α} (h : absv x ≤ absv y) : x * x ≤ y * y := by
  rw [← absv_mul_self x, ← absv_mul_self y]
  exact mul_self_le_mul_self (absv_nonneg x) h

/-- `argminAbs` really picks a smallest |component| -/
theorem argminAbs_le (b : V3 α) (i : Fin 3) :
    absv (b.get (argminAbs b)) ≤ absv (b.get i) := by
  obtain ⟨x, y, z⟩ := b
  unfold argminAbs
  simp only
  by_cases h1 : absv x ≤ absv y
  · by_cases h2 : absv x ≤ absv z
    · simp only [h1, h2, if_true]
      match i with
      | 0 => exact le_refl _
      | 1 => exact h1
      | 2 => exact h2
    · simp only [h1, h2, if_true, if_false]
      have h2' : absv z ≤ absv x := le_of_lt (lt_of_not_ge h2)
      match i with
      | 0 => exact h2'
      | 1 => exact le_trans h2' h1
      | 2 => exact le_refl _
  · have h1' : absv y ≤ absv x := le_of_lt (lt_of_not_ge h1)
    by_cases h3 : absv y ≤ absv z
    · simp only [h1, h3, if_true, if_false]
      match i with
      | 0 => exact h1'
      | 1 => exact le_refl _
      | 2 => exact h3
    · simp only [h1, h3, if_false]
      have h3' : absv z ≤ absv y := le_of_lt (lt_of_not_ge h3)
      match i with
      | 0 => exact le_trans h3' h1'
      | 1 => exact h3'
      | 2 => exact le_refl _

/-- the smallest squared component of a unit vector is at most 1/3, so `1 − b_k² > 0`:
the repaired helper never has norm zero -/
theorem repaired_helper_norm_pos (b : V3 α) (hb : b.dot b = 1) :
    0 < 1 - b.get (argminAbs b) * b.get (argminAbs b) := by
  have h0 := sq_le_of_absv_le (argminAbs_le b 0)
  have h1 := sq_le_of_absv_le (argminAbs_le b 1)
  have h2 := sq_le_of_absv_le (argminAbs_le b 2)
  obtain ⟨x, y, z⟩ := b
  simp only [V3.dot, V3.get] at *
  have := mul_self_nonneg (V3.get ⟨x, y, z⟩ (argminAbs ⟨x, y, z⟩))
  simp only [V3.get] at *
  linarith

end Molli.Lemmas.Geom
