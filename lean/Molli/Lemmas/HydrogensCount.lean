/-
The count formula of `add_implicit_hydrogens` (C16): bounds, behaviour under added single bonds
(`⌈bv + k⌉ = ⌈bv⌉ + k`), length of the placement branches, coordinates only appended, and the
"exactly one bond" lemma for new atoms.  Core Lean only.
-/
import Molli.Lemmas.Hydrogens
namespace Molli.Lemmas.Hydrogens
open Molli.Model.Graph Molli.Model.Hydrogens Molli.Lemmas.Graph

theorem ceil_nonneg {q : Rat} (h : 0 ≤ q) : 0 ≤ q.ceil := by
  have h1 : (((-1 : Int)) : Rat) < q := by
    have : (((-1 : Int)) : Rat) < 0 := by decide
    exact Std.lt_of_lt_of_le this h
  have := Rat.lt_ceil_iff.2 h1
  omega

/-- without a hint at most four hydrogens are ever requested (for non-negative bond orders) -/
theorem hcountFree_le_four (e : Int) (bv : Rat) (h : 0 ≤ bv) : hcountFree e bv ≤ 4 := by
  unfold hcountFree
  have := ceil_nonneg h
  omega

/-- `k` more single bonds lower the count by `k` -/
theorem hcountFree_add_nat (e : Int) (bv : Rat) (k : Nat) :
    hcountFree e (bv + (k : Rat)) = hcountFree e bv - k := by
  unfold hcountFree
  have : (bv + (k : Rat)).ceil = bv.ceil + (k : Int) := by
    rw [← Rat.intCast_natCast, Rat.ceil_add_intCast]
  rw [this]
  omega

theorem rat_sum_nonneg (l : List Rat) (h : ∀ x ∈ l, 0 ≤ x) : 0 ≤ l.sum := by
  induction l with
  | nil => simp
  | cons a t ih =>
    rw [List.sum_cons]
    exact Rat.add_nonneg (h a (by simp)) (ih (fun x hx => h x (List.mem_cons_of_mem _ hx)))

theorem valence_nonneg (bonds : List (Bond Rat)) (h : ∀ b ∈ bonds, 0 ≤ b.attr) (j : Nat) :
    0 ≤ valence id bonds j := by
  unfold valence
  apply rat_sum_nonneg
  intro x hx
  obtain ⟨b, hb, rfl⟩ := List.mem_map.1 hx
  exact h b (mem_bondsWith.1 hb).1

/-! ### placement: as many positions as hydrogens -/

theorem placeH_length {α : Type} [Add α] [Sub α] [Mul α] (c s : α) (tet : List (V3 α)) (a : V3 α) (L : α)
    (F : Frame α) (k : Nat) (hk : k ≤ 4) (ht : tet.length = 4) : (placeH c s tet a L F k).length = k := by
  rcases k with _ | _ | _ | _ | _ | k
  · rfl
  · rfl
  · rfl
  · simp [placeH, ht]
  · simp [placeH, ht]
  · omega

theorem nPlaced_le (h : Nat) : nPlaced h ≤ 4 := by unfold nPlaced; omega

theorem kOf_le {α : Type} (T : Tables) (m : Mol α) (i : Nat) : kOf T m i ≤ 4 := by
  unfold kOf; split
  · exact nPlaced_le _
  · omega

section
variable {α : Type} [Add α] [Sub α] [Mul α] [Inhabited α]
variable (T : Tables) (cast : Rat → α) (G : Nat → Frame α)

theorem step_coords_length (m : Mol α) (i : Nat) (ht : T.tet.length = 4) :
    ∃ Y, (step T cast G m i).coords = m.coords ++ Y ∧ Y.length = kOf T m i := by
  refine ⟨_, rfl, ?_⟩
  exact placeH_length _ _ _ _ _ _ _ (kOf_le T m i) (by simpa using ht)

/-- coordinates after the loop: the old rows, then one row per new atom -/
theorem addHSeq_coords (ht : T.tet.length = 4) (cs : List Nat) : ∀ (m : Mol α),
    ∃ Y, (addHSeq T cast G cs m).coords = m.coords ++ Y ∧
      m.atoms.length + Y.length = (addHSeq T cast G cs m).atoms.length := by
  induction cs with
  | nil => intro m; exact ⟨[], by simp [addHSeq], by simp [addHSeq]⟩
  | cons c cs ih =>
    intro m
    rw [addHSeq_cons]
    obtain ⟨Y', h1, h2⟩ := ih (step T cast G m c)
    obtain ⟨Y, h3, h4⟩ := step_coords_length T cast G m c ht
    refine ⟨Y ++ Y', ?_, ?_⟩
    · rw [h1, h3, List.append_assoc]
    · rw [← h2, step_length, List.length_append, h4]; omega

end

/-! ### a list in which exactly position `t` satisfies `p` filters to that element -/

theorem filter_unique {β : Type} (p : β → Bool) : ∀ (X : List β) (t : Nat) (x : β), X[t]? = some x →
    (∀ i y, X[i]? = some y → (p y = true ↔ i = t)) → X.filter p = [x] := by
  intro X
  induction X with
  | nil => intro t x h; simp at h
  | cons a X ih =>
    intro t x hx hp
    cases t with
    | zero =>
      simp only [List.getElem?_cons_zero, Option.some.injEq] at hx
      subst hx
      have ha : p a = true := (hp 0 a (by simp)).2 rfl
      have hrest : X.filter p = [] := by
        apply List.filter_eq_nil_iff.2
        intro y hy
        obtain ⟨i, hi⟩ := List.mem_iff_getElem?.1 hy
        intro hpy
        have := (hp (i + 1) y (by simpa using hi)).1 hpy
        omega
      simp [ha, hrest]
    | succ t =>
      have ha : ¬ p a = true := fun h => by have := (hp 0 a (by simp)).1 h; omega
      simp only [List.getElem?_cons_succ] at hx
      have := ih t x hx (fun i y hi => by
        have := hp (i + 1) y (by simpa using hi)
        constructor
        · intro h; have := this.1 h; omega
        · intro h; exact this.2 (by omega))
      simp [ha, this]

end Molli.Lemmas.Hydrogens
