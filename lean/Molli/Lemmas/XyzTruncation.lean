/-
Truncation of an xyz text written by molli at an arbitrary byte (C10).  The full statement (error or a
content-equal prefix of the frames) is FALSE when the cut falls inside the last coordinate token of the
last atom line of a frame (the shortened token is still a number); it holds for every other cut.
-/
import Molli.Lemmas.XyzReader
namespace Molli.Lemmas.XyzTruncation
open Molli.Model.Text Molli.Model.Mol2Types Molli.Model.Xyz
open Molli.Lemmas.Text Molli.Lemmas.Num Molli.Lemmas.XyzReader

section
variable (tt : TypeTable)

/-- the atoms of the frames, which is all the content `loads_all_xyz` returns (the comment is dropped) -/
def content (fs : List Frame) : List (List XAtom) := fs.map (·.atoms)

/-! ### cutting a line cannot create tokens -/

theorem splitWs_prefix_length (p t cur : Str) :
    (splitWs p cur).length ≤ (splitWs (p ++ t) cur).length := by
  induction p generalizing cur with
  | nil =>
    rw [splitWs_nil, List.nil_append]
    by_cases h : cur = []
    · rw [if_pos h]; exact Nat.zero_le _
    · rw [if_neg h]; exact splitWs_length_pos t cur h
  | cons c p ih =>
    rw [List.cons_append]
    cases hc : isWs c with
    | true =>
      rw [splitWs_cons_ws _ _ _ hc, splitWs_cons_ws _ _ _ hc]
      by_cases h : cur = []
      · rw [if_pos h, if_pos h]; exact ih []
      · rw [if_neg h, if_neg h]; simp only [List.length_cons]; exact Nat.succ_le_succ (ih [])
    | false =>
      rw [splitWs_cons_nws _ _ _ hc, splitWs_cons_nws _ _ _ hc]; exact ih _

/-- a prefix of a line has at most as many tokens as the line -/
theorem pySplit_prefix_length {p s : Str} (h : p <+: s) : (pySplit p).length ≤ (pySplit s).length := by
  obtain ⟨t, rfl⟩ := h
  exact splitWs_prefix_length p t []

theorem parseAtomLine_few (p : Str) (h : (pySplit p).length ≤ 3) : parseAtomLine p = .error .atom := by
  unfold parseAtomLine
  split
  · rename_i a x y z he
    rw [he] at h
    simp only [List.length_cons, List.length_nil] at h
    omega
  · rfl

/-- the atom line without its last coordinate token -/
def atomPre (a : XAtom) : Str :=
  padRight 5 (strOf (tt.sym a.e)) ++ [' '] ++ padLeft 12 (fmtFixed 6 a.x) ++ [' '] ++
  padLeft 12 (fmtFixed 6 a.y) ++ [' '] ++ List.replicate (12 - (fmtFixed 6 a.z).length) ' '

theorem atomLine_eq (a : XAtom) : atomLine tt a = atomPre tt a ++ fmtFixed 6 a.z := by
  simp only [atomLine, atomPre, padLeft, List.append_assoc]

theorem pySplit_atomPre (a : XAtom) (hs : Tok (strOf (tt.sym a.e))) :
    pySplit (atomPre tt a) = [strOf (tt.sym a.e), fmtFixed 6 a.x, fmtFixed 6 a.y] := by
  have hx := fmtFixed_tok 6 a.x
  have hy := fmtFixed_tok 6 a.y
  simp only [atomPre, padRight, padLeft, List.append_assoc]
  rw [← List.append_assoc (List.replicate _ ' ') [' '], replicate_append_singleton, List.cons_append]
  rw [pySplit_tok_cons _ _ _ hs ws_space]
  rw [pySplit_ws_append _ _ (ws_replicate _), pySplit_ws_append _ _ (ws_replicate _)]
  simp only [List.singleton_append]
  rw [pySplit_tok_cons _ _ _ hx ws_space, pySplit_ws_append _ _ (ws_replicate _)]
  rw [pySplit_tok_cons _ _ _ hy ws_space, pySplit_ws _ (ws_replicate _)]

/-- an atom line cut before its last coordinate token starts is rejected -/
theorem parseAtomLine_cut (a : XAtom) (hs : Tok (strOf (tt.sym a.e))) (p : Str)
    (hp : p <+: atomLine tt a) (hlen : p.length + (fmtFixed 6 a.z).length ≤ (atomLine tt a).length) :
    parseAtomLine p = .error .atom := by
  rw [atomLine_eq] at hp hlen
  rw [List.length_append] at hlen
  have hle : p.length ≤ (atomPre tt a).length := by omega
  have hpre : p <+: atomPre tt a := by
    have h1 := List.prefix_iff_eq_take.1 hp
    rw [List.take_append_of_le_length hle] at h1
    rw [h1]
    exact List.take_prefix _ _
  apply parseAtomLine_few
  have := pySplit_prefix_length hpre
  rw [pySplit_atomPre tt a hs] at this
  exact this

theorem readAtoms_bad (as : List XAtom) (n : Nat) (p : Str) (rest : List Str) (e : Err)
    (hn : as.length < n) (hs : ∀ a ∈ as, Tok (strOf (tt.sym a.e))) (hp : parseAtomLine p = .error e) :
    readAtoms n (as.map (atomLine tt) ++ p :: rest) = .error e := by
  induction as generalizing n with
  | nil =>
    cases n with
    | zero => simp at hn
    | succ n => simp only [List.map_nil, List.nil_append, readAtoms]; rw [hp]
  | cons a as ih =>
    cases n with
    | zero => simp at hn
    | succ n =>
      simp only [List.map_cons, List.cons_append, readAtoms]
      rw [parseAtomLine_atomLine tt a (hs a (by simp))]
      simp only
      rw [ih n (by simp only [List.length_cons] at hn; omega) (fun b hb => hs b (by simp [hb]))]

/-- the reader loop on complete lines followed by a non-empty cut line -/
theorem readLoop_cut (fs : List Frame) (hs : ∀ f ∈ fs, ∀ a ∈ f.atoms, Tok (strOf (tt.sym a.e))) :
    ∀ (k fuel : Nat) (p l : Str), (fs.flatMap (frameLines tt))[k]? = some l → p <+: l →
      (∀ f ∈ fs, ∀ a ∈ f.atoms, l = atomLine tt a → p.length + (fmtFixed 6 a.z).length ≤ l.length) →
      ((fs.flatMap (frameLines tt)).take k ++ [p]).length < fuel →
      (∃ gs g c, gs ++ [g] <+: fs ∧ g.atoms = [] ∧
        readLoop fuel ((fs.flatMap (frameLines tt)).take k ++ [p]) =
          .ok (gs.map (rawOf tt) ++ [⟨0, c, []⟩])) ∨
      (∃ e, readLoop fuel ((fs.flatMap (frameLines tt)).take k ++ [p]) = .error e) := by
  induction fs with
  | nil => intro k fuel p l hl; simp at hl
  | cons f fs ih =>
    intro k fuel p l hl hp hz hfuel
    cases fuel with
    | zero => omega
    | succ fuel =>
      have hlenF := frameLines_length tt f
      by_cases hk : (frameLines tt f).length ≤ k
      · have htake : ((f :: fs).flatMap (frameLines tt)).take k =
            frameLines tt f ++ (fs.flatMap (frameLines tt)).take (k - (frameLines tt f).length) := by
          simp only [List.flatMap_cons]
          rw [List.take_append]
          rw [List.take_of_length_le hk]
        have hl' : (fs.flatMap (frameLines tt))[k - (frameLines tt f).length]? = some l := by
          simp only [List.flatMap_cons] at hl
          rw [List.getElem?_append_right hk] at hl
          exact hl
        rw [htake, List.append_assoc] at hfuel ⊢
        simp only [List.length_append] at hfuel
        have hrec := ih (fun g hg => hs g (by simp [hg])) (k - (frameLines tt f).length) fuel p l hl' hp
          (fun g hg => hz g (by simp [hg])) (by simp only [List.length_append]; omega)
        have hstep : ∀ rest, readLoop (fuel + 1) (frameLines tt f ++ rest) =
            (match readLoop fuel rest with
             | .error e => .error e
             | .ok more => .ok (rawOf tt f :: more)) := by
          intro rest
          simp only [frameLines, List.cons_append, List.nil_append, readLoop]
          rw [parseInt_natStr]
          simp only [Int.toNat_natCast]
          rw [readAtoms_atomLines tt f.atoms _ (hs f (by simp))]
          simp only [rawOf]
          cases readLoop fuel rest <;> rfl
        rw [hstep]
        rcases hrec with ⟨gs, g, c, hpre, hg, hr⟩ | ⟨e, he⟩
        · left
          refine ⟨f :: gs, g, c, ?_, hg, ?_⟩
          · rw [List.cons_append, List.cons_prefix_cons]; exact ⟨rfl, hpre⟩
          · rw [hr]; simp only [List.map_cons, List.cons_append]
        · right; exact ⟨e, by rw [he]⟩
      · have hk' : k < f.atoms.length + 2 := by omega
        have htake : ((f :: fs).flatMap (frameLines tt)).take k = (frameLines tt f).take k := by
          simp only [List.flatMap_cons]
          rw [List.take_append_of_le_length (by omega)]
        have hl' : (frameLines tt f)[k]? = some l := by
          simp only [List.flatMap_cons] at hl
          rw [List.getElem?_append_left (by omega)] at hl
          exact hl
        rw [htake] at hfuel ⊢
        match k, hk', hl', hfuel with
        | 0, _, _, _ =>
          right
          simp only [List.take_zero, List.nil_append, readLoop]
          cases parseInt p with
          | none => exact ⟨_, rfl⟩
          | some n => exact ⟨_, rfl⟩
        | 1, _, _, hfuel =>
          simp only [frameLines, List.cons_append, List.nil_append, List.take_succ_cons, List.take_zero,
            List.length_cons, List.length_nil] at hfuel
          cases fuel with
          | zero => omega
          | succ fuel =>
            simp only [frameLines, List.cons_append, List.nil_append, List.take_succ_cons, List.take_zero, readLoop]
            rw [parseInt_natStr]
            simp only [Int.toNat_natCast]
            cases hat : f.atoms with
            | nil =>
              left
              refine ⟨[], f, pyStrip p, ?_, hat, ?_⟩
              · rw [List.nil_append, List.cons_prefix_cons]; exact ⟨rfl, List.nil_prefix⟩
              · simp [readAtoms, readLoop]
            | cons a as =>
              right
              exact ⟨.eof, by simp [readAtoms]⟩
        | k + 2, hk2, hl', _ =>
          right
          refine ⟨.atom, ?_⟩
          simp only [frameLines, List.cons_append, List.nil_append, List.getElem?_cons_succ,
            List.getElem?_map, Option.map_eq_some_iff] at hl'
          obtain ⟨a, hak, hal⟩ := hl'
          have ham : a ∈ f.atoms := List.mem_of_getElem? hak
          have hsa := hs f (by simp) a ham
          have hlen := hz f (by simp) a ham hal.symm
          rw [← hal] at hp hlen
          have hbad := parseAtomLine_cut tt a hsa p hp hlen
          simp only [frameLines, List.cons_append, List.nil_append, List.take_succ_cons, readLoop]
          rw [parseInt_natStr]
          simp only [Int.toNat_natCast]
          rw [← List.map_take]
          rw [readAtoms_bad tt (f.atoms.take k) f.atoms.length p [] .atom
            (by simp only [List.length_take]; omega)
            (fun a ha => hs f (by simp) a (List.mem_of_mem_take ha)) hbad]

theorem loadsAll_congr (t1 t2 : Str) (h : splitLines t1 = splitLines t2) : loadsAll tt t1 = loadsAll tt t2 := by
  simp only [loadsAll, readBlocks, h]

theorem mapE_buildFrame_snoc (hsym : tt.symbolRoundtrip = true) (hok : tt.symsOk = true)
    (gs : List Frame) (c : Str) (hg : ∀ f ∈ gs, ∀ a ∈ f.atoms, a.e < tt.nE) :
    mapE (buildFrame tt) (gs.map (rawOf tt) ++ [⟨0, c, []⟩]) = .ok (gs.map normFrame ++ [⟨c, []⟩]) := by
  induction gs with
  | nil => simp [mapE, buildFrame]
  | cons g gs ih =>
    simp only [List.map_cons, List.cons_append, mapE]
    rw [buildFrame_rawOf tt hsym hok g (hg g (by simp))]
    simp only
    rw [ih (fun f hfm => hg f (by simp [hfm]))]

/-- Every prefix of the written text is `complete lines ++ p` with `p` a prefix of the next line
(`Molli.Lemmas.Text.take_joinLines`).  If `p` is empty, or the whole line, or — when the line is an atom
line — ends before the last coordinate token starts, the reader rejects the cut text or returns frames
whose content is exactly that of the first `j` frames. -/
theorem loadsAll_cut (hsym : tt.symbolRoundtrip = true) (hok : tt.symsOk = true) (fs : List Frame)
    (hf : ∀ f ∈ fs, (∀ a ∈ f.atoms, a.e < tt.nE) ∧ '\n' ∉ f.comment)
    (k : Nat) (p l : Str) (hl : (fs.flatMap (frameLines tt))[k]? = some l) (hp : p <+: l)
    (hz : ∀ f ∈ fs, ∀ a ∈ f.atoms, l = atomLine tt a → p = l ∨ p.length + (fmtFixed 6 a.z).length ≤ l.length) :
    (∃ j r, j ≤ fs.length ∧
      loadsAll tt (joinLines ((fs.flatMap (frameLines tt)).take k) ++ p) = .ok r ∧
      content r = content ((fs.take j).map normFrame)) ∨
    (∃ e, loadsAll tt (joinLines ((fs.flatMap (frameLines tt)).take k) ++ p) = .error e) := by
  have hs : ∀ f ∈ fs, ∀ a ∈ f.atoms, Tok (strOf (tt.sym a.e)) :=
    fun f hfm a ha => (Molli.Lemmas.Mol2Types.symsOk_spec tt hok a.e ((hf f hfm).1 a ha)).1
  have hnlL : ∀ x ∈ fs.flatMap (frameLines tt), '\n' ∉ x := by
    intro x hx
    simp only [List.mem_flatMap] at hx
    obtain ⟨f, hfm, hx⟩ := hx
    exact frameLines_no_nl tt f (hf f hfm).2 (hs f hfm) x hx
  have hnl : ∀ x ∈ (fs.flatMap (frameLines tt)).take k, '\n' ∉ x :=
    fun x hx => hnlL x (List.mem_of_mem_take hx)
  have hnlp : '\n' ∉ p := fun h => hnlL l (List.mem_of_getElem? hl) (hp.subset h)
  by_cases hp0 : p = []
  · subst hp0
    rw [List.append_nil]
    rcases loadsAll_take_lines tt hsym hok fs hf k with ⟨j, hj, hr⟩ | ⟨e, he⟩
    · left; exact ⟨j, _, hj, hr, rfl⟩
    · right; exact ⟨e, he⟩
  · have hlines : splitLines (joinLines ((fs.flatMap (frameLines tt)).take k) ++ p) =
        (fs.flatMap (frameLines tt)).take k ++ [p] := by
      rw [splitLines_joinLines_append _ _ hnl hnlp, if_neg hp0]
    by_cases hpl : p = l
    · have htk : (fs.flatMap (frameLines tt)).take k ++ [p] = (fs.flatMap (frameLines tt)).take (k + 1) := by
        rw [List.take_add_one, hl, hpl]; rfl
      have hnl1 : ∀ x ∈ (fs.flatMap (frameLines tt)).take (k + 1), '\n' ∉ x :=
        fun x hx => hnlL x (List.mem_of_mem_take hx)
      have hcong := loadsAll_congr tt (joinLines ((fs.flatMap (frameLines tt)).take k) ++ p)
        (joinLines ((fs.flatMap (frameLines tt)).take (k + 1)))
        (by rw [hlines, htk, splitLines_joinLines _ hnl1])
      rw [hcong]
      rcases loadsAll_take_lines tt hsym hok fs hf (k + 1) with ⟨j, hj, hr⟩ | ⟨e, he⟩
      · left; exact ⟨j, _, hj, hr, rfl⟩
      · right; exact ⟨e, he⟩
    · have hz' : ∀ f ∈ fs, ∀ a ∈ f.atoms, l = atomLine tt a →
          p.length + (fmtFixed 6 a.z).length ≤ l.length := by
        intro f hfm a ha hla
        rcases hz f hfm a ha hla with h | h
        · exact absurd h hpl
        · exact h
      simp only [loadsAll, readBlocks]
      rw [hlines]
      rcases readLoop_cut tt fs hs k _ p l hl hp hz' (Nat.lt_succ_self _) with ⟨gs, g, c, hpre, hg, hr⟩ | ⟨e, he⟩
      · left
        have hlen := hpre.length_le
        have htakej := List.prefix_iff_eq_take.1 hpre
        simp only [List.length_append, List.length_cons, List.length_nil] at hlen htakej
        have hgs : ∀ f ∈ gs, ∀ a ∈ f.atoms, a.e < tt.nE := by
          intro f hfm
          exact (hf f (hpre.subset (List.mem_append_left _ hfm))).1
        refine ⟨gs.length + 1, gs.map normFrame ++ [⟨c, []⟩], by omega, ?_, ?_⟩
        · rw [hr]
          simp only
          exact mapE_buildFrame_snoc tt hsym hok gs c hgs
        · rw [← htakej]
          simp [content, normFrame, hg]
      · right; exact ⟨e, by rw [he]⟩

end

end Molli.Lemmas.XyzTruncation
