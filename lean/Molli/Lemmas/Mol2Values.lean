/-
Value level of the mol2 round trip (C07): `yield_from_mol2` on the blocks of a written molecule gives the
molecule back, normalised exactly as the property allows (coordinates and charges at the written
precision, empty label → element symbol, typing state after one table cycle, inexpressible bond types
→ what their token reads as).  Parametric in the typing tables.
-/
import Molli.Lemmas.Mol2RoundTrip
namespace Molli.Lemmas.Mol2Values
open Molli.Model.Text Molli.Model.Mol2Types Molli.Model.Mol2
open Molli.Lemmas.Text Molli.Lemmas.Num Molli.Lemmas.Mol2Types Molli.Lemmas.Mol2Reader Molli.Lemmas.Mol2RoundTrip

section
variable (tt : TypeTable) (bt : BondTable)

/-- typing state after one write/read cycle -/
def normSt (s : St) : St := (tt.acceptStr (tt.emitStr s)).getD s

def normCharge (k : Kind) (c : Num) : Num :=
  match k with
  | .molecule => roundNum 3 (chargeOr0 c)
  | .structure => .fin false 0 0

/-- an atom after one write/read cycle -/
def normAtom (k : Kind) (a : AtomV) : AtomV :=
  ⟨normSt tt a.st, labelTok tt a, roundNum 6 a.x, roundNum 6 a.y, roundNum 6 a.z, normCharge k a.charge⟩

def normBond (b : BondV) : BondV := ⟨b.a1, b.a2, (bt.acceptStr (bt.emitStr b.btype)).getD b.btype⟩

/-- a molecule after one write/read cycle: same name, same atom order, same bond list -/
def normMol (k : Kind) (m : MolV) : MolV := ⟨m.name, m.atoms.map (normAtom tt k), m.bonds.map (normBond bt)⟩

theorem acceptStr_typeTok (h : TablesOk tt bt) (a : AtomV) (ha : InRange tt a.st) :
    ∃ s', tt.acceptStr (typeTok tt a) = some s' ∧ InRange tt s' ∧ normSt tt a.st = s' ∧ s'.e = a.st.e := by
  rw [typeTok_eq tt bt h a ha]
  obtain ⟨s', hs', hr⟩ := everyAccepted_spec tt h.acc a.st ha
  have hagree := setModelAgrees_spec tt h.agree a.st ha
  have hacc : tt.acceptStr (tt.emitStr a.st) = some s' := by rw [acceptStr_emitStr, hagree, hs']
  refine ⟨s', hacc, hr, ?_, ?_⟩
  · simp only [normSt, hacc, Option.getD_some]
  · exact elementPreserved_spec tt h.elem a.st ha s' hs'

theorem getElem?_atomFields (k : Kind) (i : Nat) (a : AtomV) :
    (atomFields tt k i a)[2]? = some (fmtFixed 6 a.x) ∧ (atomFields tt k i a)[3]? = some (fmtFixed 6 a.y) ∧
    (atomFields tt k i a)[4]? = some (fmtFixed 6 a.z) ∧ (atomFields tt k i a)[5]? = some (typeTok tt a) ∧
    (atomFields tt k i a)[8]? = some (chargeTok k a) ∧ (atomFields tt k i a).getD 1 [] = labelTok tt a := by
  simp [atomFields]

theorem buildAtom_fields (h : TablesOk tt bt) (k : Kind) (i : Nat) (a : AtomV) (ha : InRange tt a.st) :
    buildAtom tt (decide (k = .molecule)) ⟨atomFields tt k i a, []⟩ = .ok (normAtom tt k a) := by
  obtain ⟨h2, h3, h4, h5, h8, h1⟩ := getElem?_atomFields tt k i a
  obtain ⟨s', hacc, _, hnorm, _⟩ := acceptStr_typeTok tt bt h a ha
  simp only [buildAtom, floatField, fieldAt, h2, h3, h4, h5, h8, h1, parseFloat_fmtFixed 6 (by omega), hacc,
    dictGet, List.find?_nil]
  rcases k with _ | _
  · simp only [decide_true, chargeTok, parseFloat_fmtFixed 3 (by omega), Bool.not_true, Bool.false_eq_true,
      if_false, if_true, normAtom, normCharge, hnorm]
  · have : decide (Kind.structure = Kind.molecule) = false := by decide
    simp only [this, Bool.not_true, Bool.false_eq_true, if_false, normAtom, normCharge, hnorm]

theorem mapE_buildAtom (h : TablesOk tt bt) (k : Kind) (as : List AtomV) (ha : ∀ a ∈ as, InRange tt a.st) (i : Nat) :
    mapE (buildAtom tt (decide (k = .molecule))) (atomRecs tt k i as) = .ok (as.map (normAtom tt k)) := by
  induction as generalizing i with
  | nil => rfl
  | cons a as ih =>
    simp only [atomRecs, mapIdxFrom, mapE, List.map_cons]
    rw [buildAtom_fields tt bt h k i a (ha a (by simp))]
    simp only
    have := ih (fun b hb => ha b (by simp [hb])) (i + 1)
    simp only [atomRecs] at this
    rw [this]

theorem pyIndex_succ_sub_one (n a : Nat) (h : a < n) : pyIndex n (((a + 1 : Nat) : Int) - 1) = some a := by
  have : (((a + 1 : Nat) : Int) - 1) = (a : Int) := by omega
  rw [this]
  simp only [pyIndex]
  rw [if_pos (by omega), Int.toNat_natCast, if_pos h]

theorem bond_acceptStr (h : TablesOk tt bt) (b : Nat) (hb : b < bt.nB) :
    ∃ b', bt.acceptStr (bt.emitStr b) = some b' ∧ b' < bt.nB := by
  have := allBelow_spec h.bacc b hb
  simp only [BondTable.acceptStr, BondTable.emitStr]
  have hlt : ∀ x ∈ bt.emitCodes b, x < 256 := by
    intro x hx; simp only [BondTable.emitCodes] at hx; exact unpack_lt _ _ x hx
  rw [codesOf_strOf hlt]
  split at this
  · rename_i b' hb'
    exact ⟨b', hb', by simpa [Nat.blt_eq] using this⟩
  · exact Bool.noConfusion this

theorem buildBond_fields (h : TablesOk tt bt) (n i : Nat) (b : BondV)
    (hb : b.a1 < n ∧ b.a2 < n ∧ b.btype < bt.nB) :
    buildBond bt n ⟨bondFields bt i b, []⟩ = .ok (normBond bt b) := by
  obtain ⟨b', hacc, _⟩ := bond_acceptStr tt bt h b.btype hb.2.2
  simp only [buildBond, intField, fieldAt, bondFields, List.getElem?_cons_succ, List.getElem?_cons_zero,
    parseInt_natStr, pyIndex_succ_sub_one _ _ hb.1, pyIndex_succ_sub_one _ _ hb.2.1, hacc, normBond,
    Option.getD_some]

theorem mapE_buildBond (h : TablesOk tt bt) (n : Nat) (bs : List BondV)
    (hb : ∀ b ∈ bs, b.a1 < n ∧ b.a2 < n ∧ b.btype < bt.nB) (i : Nat) :
    mapE (buildBond bt n) (bondRecs bt i bs) = .ok (bs.map (normBond bt)) := by
  induction bs generalizing i with
  | nil => rfl
  | cons b bs ih =>
    simp only [bondRecs, mapIdxFrom, mapE, List.map_cons]
    rw [buildBond_fields tt bt h n i b (hb b (by simp))]
    simp only
    have := ih (fun c hc => hb c (by simp [hc])) (i + 1)
    simp only [bondRecs] at this
    rw [this]

/-- `yield_from_mol2` on the block of a written molecule -/
theorem buildMol_blockOf (h : TablesOk tt bt) (k : Kind) (m : MolV) (hm : Admissible tt bt m) :
    buildMol tt bt k none (blockOf tt bt k m) = .ok (normMol tt bt k m) := by
  have hch : ("USER_CHARGES".toList ≠ noCharges) := by decide
  unfold buildMol
  have hn : ¬ (blockOf tt bt k m).header.nAtoms < 0 := by simp only [blockOf, headerOf]; omega
  rw [if_neg hn]
  have hwc : decide (k = Kind.molecule ∧ (blockOf tt bt k m).header.chrgType ≠ noCharges) = decide (k = .molecule) := by
    simp only [blockOf, headerOf, hch, ne_eq, not_false_eq_true, and_true]
  have ha : (blockOf tt bt k m).atoms = some (atomRecs tt k 0 m.atoms) := rfl
  have hb : (blockOf tt bt k m).bonds = some (bondRecs bt 0 m.bonds) := rfl
  rw [ha, hb]
  simp only [hwc]
  rw [mapE_buildAtom tt bt h k m.atoms (fun a ha => (hm.atoms a ha).1) 0]
  simp only [List.length_map]
  rw [mapE_buildBond tt bt h m.atoms.length m.bonds hm.bonds 0]
  rfl

/-! ### the whole text -/

theorem nl_not_mem_of_tok {s : Str} (h : Tok s) : '\n' ∉ s := by
  intro hm
  have := h.2 _ hm
  exact Bool.noConfusion (this.symm.trans (by decide : isWs '\n' = true))

theorem nl_not_mem_replicate (k : Nat) : '\n' ∉ List.replicate k ' ' := by
  intro hm
  exact absurd (List.mem_replicate.1 hm).2 (by decide)

theorem mem_mapIdxFrom {α β : Type} (f : Nat → α → β) (l : List α) (i : Nat) (y : β)
    (h : y ∈ mapIdxFrom f i l) : ∃ j a, a ∈ l ∧ y = f j a := by
  induction l generalizing i with
  | nil => simp [mapIdxFrom] at h
  | cons a l ih =>
    simp only [mapIdxFrom, List.mem_cons] at h
    rcases h with rfl | h
    · exact ⟨i, a, by simp, rfl⟩
    · obtain ⟨j, b, hb, rfl⟩ := ih (i + 1) h
      exact ⟨j, b, by simp [hb], rfl⟩

theorem atomLine_no_nl (h : TablesOk tt bt) (k : Kind) (i : Nat) (a : AtomV)
    (ha : InRange tt a.st ∧ (a.label = [] ∨ Tok a.label)) : '\n' ∉ atomLine tt k i a := by
  have h1 := nl_not_mem_of_tok (natStr_tok (i + 1))
  have h2 := nl_not_mem_of_tok (labelTok_tok tt bt h a ha)
  have h3 := nl_not_mem_of_tok (fmtFixed_tok 6 a.x)
  have h4 := nl_not_mem_of_tok (fmtFixed_tok 6 a.y)
  have h5 := nl_not_mem_of_tok (fmtFixed_tok 6 a.z)
  have h6 := nl_not_mem_of_tok (typeTok_tok tt bt h a ha.1)
  have h7 := nl_not_mem_of_tok (chargeTok_tok k a)
  have hsp : '\n' ∉ sp := by decide
  have hlit : '\n' ∉ " 1 UNL1 ".toList := by decide
  simp only [atomLine, padLeft, padRight, List.mem_append, not_or]
  exact ⟨⟨⟨⟨⟨⟨⟨⟨⟨⟨⟨⟨⟨nl_not_mem_replicate _, h1⟩, hsp⟩, h2, nl_not_mem_replicate _⟩, hsp⟩, nl_not_mem_replicate _, h3⟩, hsp⟩,
    nl_not_mem_replicate _, h4⟩, hsp⟩, nl_not_mem_replicate _, h5⟩, hsp⟩, h6, nl_not_mem_replicate _⟩, hlit⟩, h7⟩

theorem bondLine_no_nl (h : TablesOk tt bt) (k : Kind) (i : Nat) (b : BondV) (hb : b.btype < bt.nB) :
    '\n' ∉ bondLine bt k i b := by
  have h1 := nl_not_mem_of_tok (natStr_tok (i + 1))
  have h2 := nl_not_mem_of_tok (natStr_tok (b.a1 + 1))
  have h3 := nl_not_mem_of_tok (natStr_tok (b.a2 + 1))
  have h4 := nl_not_mem_of_tok (bondTokensOk_spec bt h.btoks b.btype hb)
  have hsp : '\n' ∉ sp := by decide
  simp only [bondLine, padLeft, List.mem_append, not_or]
  exact ⟨⟨⟨⟨⟨⟨⟨nl_not_mem_replicate _, h1⟩, hsp⟩, nl_not_mem_replicate _, h2⟩, hsp⟩, nl_not_mem_replicate _, h3⟩, hsp⟩,
    nl_not_mem_replicate _, h4⟩

theorem lit1_no_nl : '\n' ∉ "# Produced with molli package".toList := by decide
theorem lit2_no_nl : '\n' ∉ "@<TRIPOS>MOLECULE".toList := by decide
theorem lit3_no_nl : '\n' ∉ "SMALL".toList := by decide
theorem lit4_no_nl : '\n' ∉ "USER_CHARGES".toList := by decide
theorem lit5_no_nl : '\n' ∉ "@<TRIPOS>ATOM".toList := by decide
theorem lit6_no_nl : '\n' ∉ "@<TRIPOS>BOND".toList := by decide
theorem lit7_no_nl : '\n' ∉ " 0 0 0".toList := by decide
theorem sp_no_nl : '\n' ∉ sp := by decide

theorem writeLines_no_nl (h : TablesOk tt bt) (k : Kind) (m : MolV) (hm : Admissible tt bt m) :
    ∀ l ∈ writeLines tt bt k m, '\n' ∉ l := by
  intro l hl
  simp only [writeLines, List.cons_append, List.nil_append, List.mem_cons, List.mem_append, List.not_mem_nil,
    or_false] at hl
  rcases hl with rfl | rfl | rfl | rfl | rfl | rfl | rfl | rfl | (hl | rfl) | hl
  · exact lit1_no_nl
  · exact lit2_no_nl
  · exact hm.name_line
  · have h1 := nl_not_mem_of_tok (natStr_tok m.atoms.length)
    have h2 := nl_not_mem_of_tok (natStr_tok m.bonds.length)
    simp only [List.mem_append, not_or]
    exact ⟨⟨⟨h1, sp_no_nl⟩, h2⟩, lit7_no_nl⟩
  · exact lit3_no_nl
  · exact lit4_no_nl
  · exact List.not_mem_nil
  · exact lit5_no_nl
  · obtain ⟨j, a, ha, hla⟩ := mem_mapIdxFrom (atomLine tt k) m.atoms 0 l hl
    rw [hla]
    exact atomLine_no_nl tt bt h k j a (hm.atoms a ha)
  · exact lit6_no_nl
  · obtain ⟨j, b, hb, hlb⟩ := mem_mapIdxFrom (bondLine bt k) m.bonds 0 l hl
    rw [hlb]
    exact bondLine_no_nl tt bt h k j b (hm.bonds b hb).2.2

theorem mapE_buildMol (h : TablesOk tt bt) (k : Kind) (ms : List MolV) (hm : ∀ m ∈ ms, Admissible tt bt m) :
    mapE (buildMol tt bt k none) (ms.map (blockOf tt bt k)) = .ok (ms.map (normMol tt bt k)) := by
  induction ms with
  | nil => rfl
  | cons m ms ih =>
    simp only [List.map_cons, mapE]
    rw [buildMol_blockOf tt bt h k m (hm m (by simp))]
    simp only
    rw [ih (fun x hx => hm x (by simp [hx]))]

/-- `loads_all_mol2(dumps_mol2(…))` for one or more molecules written back to back (an ensemble): every
molecule comes back, in order, normalised only as far as the written precision and vocabulary require. -/
theorem loadsAll_writeTextMany (h : TablesOk tt bt) (k : Kind) (m : MolV) (ms : List MolV)
    (hm : ∀ x ∈ m :: ms, Admissible tt bt x) :
    loadsAll tt bt k none (writeTextMany tt bt k (m :: ms)) = .ok ((m :: ms).map (normMol tt bt k)) := by
  have hnl : ∀ l ∈ (m :: ms).flatMap (writeLines tt bt k), '\n' ∉ l := by
    intro l hl
    simp only [List.mem_flatMap] at hl
    obtain ⟨x, hx, hl⟩ := hl
    exact writeLines_no_nl tt bt h k x (hm x hx) l hl
  simp only [loadsAll, readBlocks, writeTextMany]
  rw [splitLines_joinLines _ hnl]
  have hmap : ((m :: ms).flatMap (writeLines tt bt k)).map pyStrip = (m :: ms).flatMap (sLines tt bt k) := by
    simp only [List.map_flatMap]; rfl
  rw [hmap, readLoop_many tt bt h k ms m hm RSt.init _ (Nat.lt_succ_self _)]
  simp only [flush_init, List.nil_append]
  exact mapE_buildMol tt bt h k (m :: ms) hm

end

end Molli.Lemmas.Mol2Values
