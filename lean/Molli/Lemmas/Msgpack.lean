/-
`unpack (pack v) = N v`: the msgpack byte format round trip, for every packable value
(any nesting, any lengths below 2^32, integers in [-2^63, 2^64)).  Core Lean only.
-/
import Molli.Model.Msgpack
import Molli.Lemmas.Codec
namespace Molli.Lemmas.Msgpack
open Molli.Util Molli.Model.Codec Molli.Model.Msgpack Molli.Lemmas.Codec

/-! ### big-endian numbers -/

theorem beN_length (k n : Nat) : (beN k n).length = k := by
  induction k with
  | zero => rfl
  | succ k ih => simp [beN, ih]

theorem rdN_beN (k n : Nat) : rdN (beN k n) = n % 256 ^ k := by
  induction k with
  | zero => simp [beN, rdN, Nat.mod_one]
  | succ k ih =>
    simp only [beN, rdN, beN_length, ih, UInt8.toNat_ofNat', Nat.reducePow]
    have h1 : n / 256 ^ k % 256 % 256 = n / 256 ^ k % 256 := Nat.mod_mod _ _
    rw [h1, Nat.pow_succ, Nat.mod_mul]
    rw [Nat.mul_comm]
    omega

theorem readN_beN (k n : Nat) (h : n < 256 ^ k) (rest : Bytes) : readN k (beN k n ++ rest) = some (n, rest) := by
  have hl := beN_length k n
  simp only [readN, List.length_append, hl]
  rw [if_neg (by omega), List.take_append_of_le_length (by omega), List.take_of_length_le (by omega),
    List.drop_append_of_le_length (by omega), List.drop_of_length_le (by omega), rdN_beN, Nat.mod_eq_of_lt h]
  simp

theorem takeN_append (l rest : Bytes) : takeN l.length (l ++ rest) = some (l, rest) := by
  simp only [takeN, List.length_append]
  rw [if_neg (by omega), List.take_append_of_le_length (by omega), List.take_of_length_le (by omega),
    List.drop_append_of_le_length (by omega), List.drop_of_length_le (by omega)]
  simp

/-! ### the first byte decides -/

theorem ofNat_toNat (n : Nat) (h : n < 256) : (UInt8.ofNat n).toNat = n := by
  rw [UInt8.toNat_ofNat']; exact Nat.mod_eq_of_lt h

theorem unpack_fixint (fuel n : Nat) (h : n < 128) (bs : Bytes) :
    unpack fuel (UInt8.ofNat n :: bs) = some (.int n, bs) := by
  rw [unpack.eq_def]
  simp only []
  simp only [ofNat_toNat n (by omega), h, if_true]

theorem unpack_negfix (fuel n : Nat) (h1 : 224 ≤ n) (h2 : n < 256) (bs : Bytes) :
    unpack fuel (UInt8.ofNat n :: bs) = some (.int ((n : Int) - 256), bs) := by
  rw [unpack.eq_def]
  simp only []
  simp only [ofNat_toNat n h2]
  rw [if_neg (by omega), if_neg (by omega), if_neg (by omega), if_neg (by omega)]
  repeat rw [if_neg (by omega)]
  rw [if_pos h1]

theorem unpack_fixstr (fuel n : Nat) (h : n < 32) (bs : Bytes) :
    unpack fuel (UInt8.ofNat (160 + n) :: bs) = (takeN n bs).map (fun r => (.str r.1, r.2)) := by
  rw [unpack.eq_def]
  simp only []
  simp only [ofNat_toNat (160 + n) (by omega)]
  rw [if_neg (by omega), if_neg (by omega), if_neg (by omega), if_pos (by omega)]
  simp

theorem unpack_fixarr (f n : Nat) (h : n < 16) (bs : Bytes) :
    unpack (f + 1) (UInt8.ofNat (144 + n) :: bs) = (unpackL f n bs).map (fun r => (.arr false r.1, r.2)) := by
  rw [unpack.eq_def]
  simp only []
  simp only [ofNat_toNat (144 + n) (by omega)]
  rw [if_neg (by omega), if_neg (by omega), if_pos (by omega)]
  simp

theorem unpack_fixmap (f n : Nat) (h : n < 16) (bs : Bytes) :
    unpack (f + 1) (UInt8.ofNat (128 + n) :: bs) = (unpackM f n bs).map (fun r => (.map r.1, r.2)) := by
  rw [unpack.eq_def]
  simp only []
  simp only [ofNat_toNat (128 + n) (by omega)]
  rw [if_neg (by omega), if_pos (by omega)]
  simp

theorem unpack_c0 (fuel : Nat) (bs : Bytes) : unpack fuel (0xc0 :: bs) = some (.nil, bs) := by
  rw [unpack.eq_def]; simp
theorem unpack_c2 (fuel : Nat) (bs : Bytes) : unpack fuel (0xc2 :: bs) = some (.bool false, bs) := by
  rw [unpack.eq_def]; simp
theorem unpack_c3 (fuel : Nat) (bs : Bytes) : unpack fuel (0xc3 :: bs) = some (.bool true, bs) := by
  rw [unpack.eq_def]; simp
theorem unpack_c4 (fuel : Nat) (bs : Bytes) : unpack fuel (0xc4 :: bs) = (readN 1 bs).bind (fun r => (takeN r.1 r.2).map (fun x => (.bin x.1, x.2))) := by
  rw [unpack.eq_def]; simp
theorem unpack_c5 (fuel : Nat) (bs : Bytes) : unpack fuel (0xc5 :: bs) = (readN 2 bs).bind (fun r => (takeN r.1 r.2).map (fun x => (.bin x.1, x.2))) := by
  rw [unpack.eq_def]; simp
theorem unpack_c6 (fuel : Nat) (bs : Bytes) : unpack fuel (0xc6 :: bs) = (readN 4 bs).bind (fun r => (takeN r.1 r.2).map (fun x => (.bin x.1, x.2))) := by
  rw [unpack.eq_def]; simp
theorem unpack_ca (fuel : Nat) (bs : Bytes) : unpack fuel (0xca :: bs) = (readN 4 bs).map (fun r => (.f64 (widen (UInt32.ofNat r.1)), r.2)) := by
  rw [unpack.eq_def]; simp
theorem unpack_cb (fuel : Nat) (bs : Bytes) : unpack fuel (0xcb :: bs) = (readN 8 bs).map (fun r => (.f64 (UInt64.ofNat r.1), r.2)) := by
  rw [unpack.eq_def]; simp
theorem unpack_cc (fuel : Nat) (bs : Bytes) : unpack fuel (0xcc :: bs) = (readN 1 bs).map (fun r => (.int r.1, r.2)) := by
  rw [unpack.eq_def]; simp
theorem unpack_cd (fuel : Nat) (bs : Bytes) : unpack fuel (0xcd :: bs) = (readN 2 bs).map (fun r => (.int r.1, r.2)) := by
  rw [unpack.eq_def]; simp
theorem unpack_ce (fuel : Nat) (bs : Bytes) : unpack fuel (0xce :: bs) = (readN 4 bs).map (fun r => (.int r.1, r.2)) := by
  rw [unpack.eq_def]; simp
theorem unpack_cf (fuel : Nat) (bs : Bytes) : unpack fuel (0xcf :: bs) = (readN 8 bs).map (fun r => (.int r.1, r.2)) := by
  rw [unpack.eq_def]; simp
theorem unpack_d0 (fuel : Nat) (bs : Bytes) : unpack fuel (0xd0 :: bs) = (readN 1 bs).map (fun r => (.int (signed 1 r.1), r.2)) := by
  rw [unpack.eq_def]; simp
theorem unpack_d1 (fuel : Nat) (bs : Bytes) : unpack fuel (0xd1 :: bs) = (readN 2 bs).map (fun r => (.int (signed 2 r.1), r.2)) := by
  rw [unpack.eq_def]; simp
theorem unpack_d2 (fuel : Nat) (bs : Bytes) : unpack fuel (0xd2 :: bs) = (readN 4 bs).map (fun r => (.int (signed 4 r.1), r.2)) := by
  rw [unpack.eq_def]; simp
theorem unpack_d3 (fuel : Nat) (bs : Bytes) : unpack fuel (0xd3 :: bs) = (readN 8 bs).map (fun r => (.int (signed 8 r.1), r.2)) := by
  rw [unpack.eq_def]; simp
theorem unpack_d9 (fuel : Nat) (bs : Bytes) : unpack fuel (0xd9 :: bs) = (readN 1 bs).bind (fun r => (takeN r.1 r.2).map (fun x => (.str x.1, x.2))) := by
  rw [unpack.eq_def]; simp
theorem unpack_da (fuel : Nat) (bs : Bytes) : unpack fuel (0xda :: bs) = (readN 2 bs).bind (fun r => (takeN r.1 r.2).map (fun x => (.str x.1, x.2))) := by
  rw [unpack.eq_def]; simp
theorem unpack_db (fuel : Nat) (bs : Bytes) : unpack fuel (0xdb :: bs) = (readN 4 bs).bind (fun r => (takeN r.1 r.2).map (fun x => (.str x.1, x.2))) := by
  rw [unpack.eq_def]; simp
theorem unpack_dc (f : Nat) (bs : Bytes) : unpack (f + 1) (0xdc :: bs) = (readN 2 bs).bind (fun r => (unpackL f r.1 r.2).map (fun x => (.arr false x.1, x.2))) := by
  rw [unpack.eq_def]; simp
theorem unpack_dd (f : Nat) (bs : Bytes) : unpack (f + 1) (0xdd :: bs) = (readN 4 bs).bind (fun r => (unpackL f r.1 r.2).map (fun x => (.arr false x.1, x.2))) := by
  rw [unpack.eq_def]; simp
theorem unpack_de (f : Nat) (bs : Bytes) : unpack (f + 1) (0xde :: bs) = (readN 2 bs).bind (fun r => (unpackM f r.1 r.2).map (fun x => (.map x.1, x.2))) := by
  rw [unpack.eq_def]; simp
theorem unpack_df (f : Nat) (bs : Bytes) : unpack (f + 1) (0xdf :: bs) = (readN 4 bs).bind (fun r => (unpackM f r.1 r.2).map (fun x => (.map x.1, x.2))) := by
  rw [unpack.eq_def]; simp

/-! ### scalars -/

theorem unpack_packInt (i : Int) (h1 : -9223372036854775808 ≤ i) (h2 : i < 18446744073709551616) (fuel : Nat)
    (rest : Bytes) : unpack fuel (packInt i ++ rest) = some (.int i, rest) := by
  unfold packInt
  by_cases h0 : 0 ≤ i
  · rw [if_pos h0]
    have hi : ((i.toNat : Nat) : Int) = i := Int.toNat_of_nonneg h0
    simp only
    by_cases a1 : i.toNat < 128
    · rw [if_pos a1]; simp only [List.cons_append, List.nil_append]
      rw [unpack_fixint fuel _ a1, hi]
    · rw [if_neg a1]
      by_cases a2 : i.toNat < 256
      · rw [if_pos a2]; simp only [List.cons_append]
        rw [unpack_cc, readN_beN 1 _ (by simpa using a2)]; simp [hi]
      · rw [if_neg a2]
        by_cases a3 : i.toNat < 65536
        · rw [if_pos a3]; simp only [List.cons_append]
          rw [unpack_cd, readN_beN 2 _ (by simpa using a3)]; simp [hi]
        · rw [if_neg a3]
          by_cases a4 : i.toNat < 4294967296
          · rw [if_pos a4]; simp only [List.cons_append]
            rw [unpack_ce, readN_beN 4 _ (by simpa using a4)]; simp [hi]
          · rw [if_neg a4]; simp only [List.cons_append]
            rw [unpack_cf, readN_beN 8 _ (by simp; omega)]; simp [hi]
  · rw [if_neg h0]
    by_cases b1 : -32 ≤ i
    · rw [if_pos b1]; simp only [List.cons_append, List.nil_append]
      have hm : ((i + 256).toNat : Int) = i + 256 := Int.toNat_of_nonneg (by omega)
      rw [unpack_negfix fuel _ (by omega) (by omega), hm]
      have e : i + 256 - 256 = i := by omega
      rw [e]
    · rw [if_neg b1]
      by_cases b2 : -128 ≤ i
      · rw [if_pos b2]; simp only [List.cons_append]
        have hm : ((i + 256).toNat : Int) = i + 256 := Int.toNat_of_nonneg (by omega)
        rw [unpack_d0, readN_beN 1 _ (by simp; omega)]
        simp only [Option.map_some, signed, Nat.reducePow, Nat.reduceDiv]
        rw [if_neg (by omega), hm]
        congr 2; simp
      · rw [if_neg b2]
        by_cases b3 : -32768 ≤ i
        · rw [if_pos b3]; simp only [List.cons_append]
          have hm : ((i + 65536).toNat : Int) = i + 65536 := Int.toNat_of_nonneg (by omega)
          rw [unpack_d1, readN_beN 2 _ (by simp; omega)]
          simp only [Option.map_some, signed, Nat.reducePow, Nat.reduceDiv]
          rw [if_neg (by omega), hm]
          congr 2; simp
        · rw [if_neg b3]
          by_cases b4 : -2147483648 ≤ i
          · rw [if_pos b4]; simp only [List.cons_append]
            have hm : ((i + 4294967296).toNat : Int) = i + 4294967296 := Int.toNat_of_nonneg (by omega)
            rw [unpack_d2, readN_beN 4 _ (by simp; omega)]
            simp only [Option.map_some, signed, Nat.reducePow, Nat.reduceDiv]
            rw [if_neg (by omega), hm]
            congr 2; simp
          · rw [if_neg b4]; simp only [List.cons_append]
            have hm : ((i + 18446744073709551616).toNat : Int) = i + 18446744073709551616 := Int.toNat_of_nonneg (by omega)
            rw [unpack_d3, readN_beN 8 _ (by simp; omega)]
            simp only [Option.map_some, signed, Nat.reducePow, Nat.reduceDiv]
            rw [if_neg (by omega), hm]
            congr 2; simp

theorem unpack_str (s : Bytes) (h : s.length < 4294967296) (fuel : Nat) (rest : Bytes) :
    unpack fuel ((strHdr s.length ++ s) ++ rest) = some (.str s, rest) := by
  unfold strHdr
  by_cases a1 : s.length < 32
  · rw [if_pos a1]; simp only [List.cons_append, List.nil_append]
    rw [unpack_fixstr fuel _ a1, takeN_append]; rfl
  · rw [if_neg a1]
    by_cases a2 : s.length < 256
    · rw [if_pos a2]; simp only [List.cons_append, List.append_assoc]
      rw [unpack_d9, readN_beN 1 _ (by simpa using a2)]; simp [takeN_append]
    · rw [if_neg a2]
      by_cases a3 : s.length < 65536
      · rw [if_pos a3]; simp only [List.cons_append, List.append_assoc]
        rw [unpack_da, readN_beN 2 _ (by simpa using a3)]; simp [takeN_append]
      · rw [if_neg a3]; simp only [List.cons_append, List.append_assoc]
        rw [unpack_db, readN_beN 4 _ (by simpa using h)]; simp [takeN_append]

theorem unpack_bin (b : Bytes) (h : b.length < 4294967296) (fuel : Nat) (rest : Bytes) :
    unpack fuel ((binHdr b.length ++ b) ++ rest) = some (.bin b, rest) := by
  unfold binHdr
  by_cases a2 : b.length < 256
  · rw [if_pos a2]; simp only [List.cons_append, List.append_assoc]
    rw [unpack_c4, readN_beN 1 _ (by simpa using a2)]; simp [takeN_append]
  · rw [if_neg a2]
    by_cases a3 : b.length < 65536
    · rw [if_pos a3]; simp only [List.cons_append, List.append_assoc]
      rw [unpack_c5, readN_beN 2 _ (by simpa using a3)]; simp [takeN_append]
    · rw [if_neg a3]; simp only [List.cons_append, List.append_assoc]
      rw [unpack_c6, readN_beN 4 _ (by simpa using h)]; simp [takeN_append]

/-- an array header followed by anything: the decoder goes on to read `n` items -/
theorem unpack_arrHdr (n : Nat) (h : n < 4294967296) (f : Nat) (bs : Bytes) :
    unpack (f + 1) (arrHdr n ++ bs) = (unpackL f n bs).map (fun r => (.arr false r.1, r.2)) := by
  unfold arrHdr
  by_cases a1 : n < 16
  · rw [if_pos a1]; simp only [List.cons_append, List.nil_append]
    exact unpack_fixarr f n a1 bs
  · rw [if_neg a1]
    by_cases a3 : n < 65536
    · rw [if_pos a3]; simp only [List.cons_append]
      rw [unpack_dc, readN_beN 2 _ (by simpa using a3)]; rfl
    · rw [if_neg a3]; simp only [List.cons_append]
      rw [unpack_dd, readN_beN 4 _ (by simpa using h)]; rfl

theorem unpack_mapHdr (n : Nat) (h : n < 4294967296) (f : Nat) (bs : Bytes) :
    unpack (f + 1) (mapHdr n ++ bs) = (unpackM f n bs).map (fun r => (.map r.1, r.2)) := by
  unfold mapHdr
  by_cases a1 : n < 16
  · rw [if_pos a1]; simp only [List.cons_append, List.nil_append]
    exact unpack_fixmap f n a1 bs
  · rw [if_neg a1]
    by_cases a3 : n < 65536
    · rw [if_pos a3]; simp only [List.cons_append]
      rw [unpack_de, readN_beN 2 _ (by simpa using a3)]; rfl
    · rw [if_neg a3]; simp only [List.cons_append]
      rw [unpack_df, readN_beN 4 _ (by simpa using h)]; rfl

/-! ### the round trip -/

mutual
/-- **`decode (encode v) = N v`** for every packable value, with any bytes following -/
theorem unpack_pack : ∀ (v : MVal), packable v = true → ∀ (fuel : Nat) (rest : Bytes), depth v ≤ fuel →
    unpack fuel (pack v ++ rest) = some (N v, rest)
  | .nil, _, fuel, rest, _ => unpack_c0 fuel rest
  | .bool false, _, fuel, rest, _ => unpack_c2 fuel rest
  | .bool true, _, fuel, rest, _ => unpack_c3 fuel rest
  | .int i, hp, fuel, rest, _ => by
    simp only [packable, Bool.and_eq_true, decide_eq_true_eq] at hp
    simp only [pack, N]
    exact unpack_packInt i hp.1 hp.2 fuel rest
  | .f32 b, _, fuel, rest, _ => by
    simp only [pack, N, List.cons_append]
    rw [unpack_ca, readN_beN 4 _ (by have := b.toNat_lt; simpa using this)]
    simp
  | .f64 b, _, fuel, rest, _ => by
    simp only [pack, N, List.cons_append]
    rw [unpack_cb, readN_beN 8 _ (by have := b.toNat_lt; simpa using this)]
    simp
  | .str s, hp, fuel, rest, _ => by
    simp only [packable, decide_eq_true_eq] at hp
    simp only [pack, N]
    exact unpack_str s hp fuel rest
  | .bin b, hp, fuel, rest, _ => by
    simp only [packable, decide_eq_true_eq] at hp
    simp only [pack, N]
    exact unpack_bin b hp fuel rest
  | .arr isList l, hp, fuel, rest, hf => by
    simp only [packable, Bool.and_eq_true, decide_eq_true_eq] at hp
    simp only [depth] at hf
    obtain ⟨f, rfl⟩ : ∃ f, fuel = f + 1 := ⟨fuel - 1, by omega⟩
    simp only [pack, N, List.append_assoc]
    rw [unpack_arrHdr l.length hp.1 f, unpackL_packL l hp.2 f rest (by omega)]
    rfl
  | .map l, hp, fuel, rest, hf => by
    simp only [packable, Bool.and_eq_true, decide_eq_true_eq] at hp
    simp only [depth] at hf
    obtain ⟨f, rfl⟩ : ∃ f, fuel = f + 1 := ⟨fuel - 1, by omega⟩
    simp only [pack, N, List.append_assoc]
    rw [unpack_mapHdr l.length hp.1 f, unpackM_packM l hp.2 f rest (by omega)]
    rfl
theorem unpackL_packL : ∀ (l : List MVal), packableL l = true → ∀ (fuel : Nat) (rest : Bytes), depthL l ≤ fuel →
    unpackL fuel l.length (packL l ++ rest) = some (Nl l, rest)
  | [], _, fuel, rest, _ => by simp [unpackL, packL, Nl]
  | v :: vs, hp, fuel, rest, hf => by
    simp only [packableL, Bool.and_eq_true] at hp
    simp only [depthL] at hf
    simp only [List.length_cons, packL, List.append_assoc, unpackL, Nl]
    rw [unpack_pack v hp.1 fuel _ (by omega)]
    simp only
    rw [unpackL_packL vs hp.2 fuel rest (by omega)]
theorem unpackM_packM : ∀ (l : List (MVal × MVal)), packableM l = true → ∀ (fuel : Nat) (rest : Bytes), depthM l ≤ fuel →
    unpackM fuel l.length (packM l ++ rest) = some (Nm l, rest)
  | [], _, fuel, rest, _ => by simp [unpackM, packM, Nm]
  | (k, v) :: r, hp, fuel, rest, hf => by
    simp only [packableM, Bool.and_eq_true] at hp
    simp only [depthM] at hf
    simp only [List.length_cons, packM, List.append_assoc, unpackM, Nm]
    rw [unpack_pack k hp.1.1 fuel _ (by omega)]
    simp only
    rw [unpack_pack v hp.1.2 fuel _ (by omega)]
    simp only
    rw [unpackM_packM r hp.2 fuel rest (by omega)]
end

mutual
theorem depth_le_length : ∀ v : MVal, depth v ≤ (pack v).length
  | .arr _ l => by
    simp only [depth, pack, List.length_append]
    have := depthL_le_length l
    have : 1 ≤ (arrHdr l.length).length := by unfold arrHdr; split <;> (try split) <;> simp
    omega
  | .map l => by
    simp only [depth, pack, List.length_append]
    have := depthM_le_length l
    have : 1 ≤ (mapHdr l.length).length := by unfold mapHdr; split <;> (try split) <;> simp
    omega
  | .nil => by simp [depth]
  | .bool _ => by simp [depth]
  | .int _ => by simp [depth]
  | .f32 _ => by simp [depth]
  | .f64 _ => by simp [depth]
  | .str _ => by simp [depth]
  | .bin _ => by simp [depth]
theorem depthL_le_length : ∀ l : List MVal, depthL l ≤ (packL l).length
  | [] => by simp [depthL]
  | v :: vs => by
    simp only [depthL, packL, List.length_append]
    have := depth_le_length v
    have := depthL_le_length vs
    omega
theorem depthM_le_length : ∀ l : List (MVal × MVal), depthM l ≤ (packM l).length
  | [] => by simp [depthM]
  | (k, v) :: r => by
    simp only [depthM, packM, List.length_append]
    have := depth_le_length k
    have := depth_le_length v
    have := depthM_le_length r
    omega
end

/-- `msgpack.loads(msgpack.dumps(v), use_list=False, strict_map_key=False) = N v` at the byte level -/
theorem loads_pack (v : MVal) (hp : packable v = true) : loads (pack v) = some (N v) := by
  have h := unpack_pack v hp (pack v).length [] (depth_le_length v)
  simp only [List.append_nil] at h
  simp [loads, h]

end Molli.Lemmas.Msgpack
