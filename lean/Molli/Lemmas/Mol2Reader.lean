/-
Structure of the mol2 reader model (C10, C07): termination, complete-or-error, independence of
molecules.  All statements are about the executable definitions of `Molli.Model.Mol2`.
-/
import Molli.Model.Mol2
namespace Molli.Lemmas.Mol2Reader
open Molli.Model.Text Molli.Model.Mol2Types Molli.Model.Mol2

theorem takeLines_len : ∀ n ls a r, takeLines n ls = .ok (a, r) → a.length = n ∧ r.length + n = ls.length := by
  intro n
  induction n with
  | zero => intro ls a r h; simp [takeLines] at h; obtain ⟨rfl, rfl⟩ := h; simp
  | succ n ih =>
    intro ls a r h
    cases ls with
    | nil => simp [takeLines] at h
    | cons l ls =>
      simp only [takeLines] at h
      split at h
      · rename_i a' r' hv
        simp only [Except.ok.injEq, Prod.mk.injEq] at h
        obtain ⟨rfl, rfl⟩ := h
        have := ih ls a' r' hv
        simp; omega
      · simp at h

theorem takeLines_ne_fuel (n : Nat) (ls : List Str) : takeLines n ls ≠ .error .fuel := by
  induction n generalizing ls with
  | zero => simp [takeLines]
  | succ n ih =>
    cases ls with
    | nil => simp [takeLines]
    | cons l ls =>
      simp only [takeLines]
      have := ih ls
      split
      · simp
      · rename_i e he; intro h; simp only [Except.error.injEq] at h; subst h; exact this he

/-- exactly the first `n` lines, when there are enough -/
theorem takeLines_append (a b : List Str) : takeLines a.length (a ++ b) = .ok (a, b) := by
  induction a with
  | nil => simp [takeLines]
  | cons x a ih => simp [takeLines, ih]

theorem mapE_length {α β : Type} (f : α → Except Err β) (l : List α) (r : List β) (h : mapE f l = .ok r) :
    r.length = l.length := by
  induction l generalizing r with
  | nil => simp [mapE] at h; subst h; rfl
  | cons a as ih =>
    simp only [mapE] at h
    split at h
    · simp at h
    · split at h
      · simp at h
      · rename_i bs hbs
        simp only [Except.ok.injEq] at h
        subst h
        simp [ih bs hbs]

theorem mapE_ok_of_forall {α β : Type} (f : α → Except Err β) (g : α → β) (l : List α)
    (h : ∀ a ∈ l, f a = .ok (g a)) : mapE f l = .ok (l.map g) := by
  induction l with
  | nil => simp [mapE]
  | cons a as ih =>
    have h1 := h a (by simp)
    have h2 := ih (fun x hx => h x (by simp [hx]))
    simp [mapE, h1, h2]

theorem mapE_ne_fuel {α β : Type} (f : α → Except Err β) (hf : ∀ a, f a ≠ .error .fuel) (l : List α) :
    mapE f l ≠ .error .fuel := by
  induction l with
  | nil => simp [mapE]
  | cons a as ih =>
    simp only [mapE]
    split
    · rename_i e he; intro h; simp only [Except.error.injEq] at h; subst h; exact hf a he
    · split
      · rename_i e he; intro h; simp only [Except.error.injEq] at h; subst h; exact ih he
      · simp

theorem applyAttrs_length (i : Nat) (al : List Str) : ∀ (rs rs' : List Rec),
    applyAttrs rs i al = .ok rs' → rs'.length = rs.length := by
  induction al with
  | nil => intro rs rs' h; simp [applyAttrs] at h; subst h; rfl
  | cons l ls ih =>
    intro rs rs' h
    simp only [applyAttrs] at h
    split at h
    · have := ih _ _ h
      simpa [setAttr] using this
    · simp at h

theorem applyAttrs_ne_fuel (i : Nat) (al : List Str) : ∀ (rs : List Rec),
    applyAttrs rs i al ≠ .error .fuel := by
  induction al with
  | nil => intro rs; simp [applyAttrs]
  | cons l ls ih =>
    intro rs
    simp only [applyAttrs]
    split
    · exact ih _
    · simp

/-- the UNITY attribute loop keeps the number of records, consumes lines, and never runs out of fuel
when given more fuel than lines -/
theorem unityLoop_spec (f : Nat) (recs : Option (List Rec)) (ls : List Str) (hf : ls.length < f) :
    unityLoop f recs ls ≠ .error .fuel ∧
    ∀ recs' rest, unityLoop f recs ls = .ok (recs', rest) →
      rest.length ≤ ls.length ∧ (recs'.map List.length = recs.map List.length) := by
  induction f generalizing recs ls with
  | zero => omega
  | succ f ih =>
    cases ls with
    | nil => simp [unityLoop]
    | cons line ls =>
      simp only [List.length_cons] at hf
      simp only [unityLoop]
      split
      · simp
      · split
        · rename_i idx nattr _
          split
          · rename_i e he
            refine ⟨?_, by simp⟩
            intro h; simp only [Except.error.injEq] at h; subst h
            exact takeLines_ne_fuel _ _ he
          · rename_i al rest hv
            have hl := (takeLines_len _ _ _ _ hv).2
            split
            · have := ih recs rest (by omega)
              refine ⟨this.1, ?_⟩
              intro recs' rest' h
              have := this.2 recs' rest' h
              simp only [List.length_cons]
              exact ⟨by omega, this.2⟩
            · split
              · simp
              · rename_i rs
                split
                · simp
                · rename_i i _
                  split
                  · rename_i e he
                    refine ⟨?_, by simp⟩
                    intro h; simp only [Except.error.injEq] at h; subst h
                    exact applyAttrs_ne_fuel _ _ _ he
                  · rename_i rs' hrs'
                    have hlen := applyAttrs_length _ _ _ _ hrs'
                    have := ih (some rs') rest (by omega)
                    refine ⟨this.1, ?_⟩
                    intro recs' rest' h
                    have := this.2 recs' rest' h
                    simp only [List.length_cons]
                    refine ⟨by omega, ?_⟩
                    rw [this.2]; simp [hlen]
        · simp

/-- what one iteration of `readLoop` does before it recurses: blocks emitted, next state, remaining lines -/
def step (st : RSt) (line : Str) (ls : List Str) : Except Err (List Block × RSt × List Str) :=
  if line = [] then .ok ([], st, ls)
  else if line.head? = some '#' then .ok ([], st, ls)
  else
    match triposTag line with
    | some tag =>
      if tag = "MOLECULE".toList then
        match takeLines 5 ls with
        | .error e => .error e
        | .ok (h5, rest) =>
          match h5 with
          | [nm, cnt, ty, ch, status] =>
            match parseCounts cnt with
            | .error e => .error e
            | .ok (na, nb) =>
              let rest'? : Except Err (List Str) :=
                if (triposTag status).isSome then .ok (status :: rest)
                else if status = star4 then
                  (match rest with | [] => .error .eof | _ :: r => .ok r)
                else .ok rest
              match rest'? with
              | .error e => .error e
              | .ok rest' => .ok (flush st, ⟨some ⟨nm, ty, ch, na, nb⟩, none, none, false⟩, rest')
          | _ => .error .syntax
      else if tag = "ATOM".toList then
        match st.hdr with
        | none => .error .value
        | some h =>
          match takeLines h.nAtoms.toNat ls with
          | .error e => .error e
          | .ok (al, rest) =>
            match mapE atomRec al with
            | .error e => .error e
            | .ok recs => .ok ([], { st with atoms := some recs, skip := false }, rest)
      else if tag = "BOND".toList then
        match st.hdr with
        | none => .error .value
        | some h =>
          match h.nBonds with
          | none => .error .value
          | some nb =>
            match takeLines nb.toNat ls with
            | .error e => .error e
            | .ok (bl, rest) =>
              match mapE bondRec bl with
              | .error e => .error e
              | .ok recs => .ok ([], { st with bonds := some recs, skip := false }, rest)
      else if tag = "UNITY_ATOM_ATTR".toList then
        match unityLoop (ls.length + 1) st.atoms ls with
        | .error e => .error e
        | .ok (atoms', rest) => .ok ([], { st with atoms := atoms', skip := false }, rest)
      else if tag = "UNITY_BOND_ATTR".toList then
        match unityLoop (ls.length + 1) st.bonds ls with
        | .error e => .error e
        | .ok (bonds', rest) => .ok ([], { st with bonds := bonds', skip := false }, rest)
      else .ok ([], { st with skip := true }, ls)
    | none => if st.skip then .ok ([], st, ls) else .error .syntax

/-- continue with the rest -/
def cont (f : Nat) (r : Except Err (List Block × RSt × List Str)) : Except Err (List Block) :=
  match r with
  | .error e => .error e
  | .ok (pre, st', rest) =>
    match readLoop f st' rest with
    | .error e => .error e
    | .ok more => .ok (pre ++ more)

theorem cont_nil (f : Nat) (st : RSt) (ls : List Str) : cont f (.ok ([], st, ls)) = readLoop f st ls := by
  simp only [cont]
  cases readLoop f st ls <;> simp

theorem readLoop_step (f : Nat) (st : RSt) (line : Str) (ls : List Str) :
    readLoop (f + 1) st (line :: ls) = cont f (step st line ls) := by
  by_cases h1 : line = []
  · simp only [readLoop, step, if_pos h1, cont_nil]
  by_cases h2 : line.head? = some '#'
  · simp only [readLoop, step, if_neg h1, if_pos h2, cont_nil]
  cases ht : triposTag line with
  | none =>
    simp only [readLoop, step, if_neg h1, if_neg h2, ht]
    cases st.skip
    · simp [cont]
    · simp [cont_nil]
  | some tag =>
    by_cases hm : tag = "MOLECULE".toList
    · simp only [readLoop, step, if_neg h1, if_neg h2, ht, if_pos hm]
      cases h5 : takeLines 5 ls with
      | error e => simp [cont]
      | ok v =>
        obtain ⟨h5, rest⟩ := v
        simp only []
        split
        · rename_i nm cnt ty ch status
          cases hc : parseCounts cnt with
          | error e => simp [cont, hc]
          | ok c =>
            obtain ⟨na, nb⟩ := c
            simp only [hc]
            by_cases hs : (triposTag status).isSome = true
            · simp only [if_pos hs, cont]; rfl
            · by_cases h4 : status = star4
              · simp only [if_neg hs, if_pos h4]
                cases rest <;> simp only [cont] <;> rfl
              · simp only [if_neg hs, if_neg h4, cont]; rfl
        · simp [cont]
    by_cases ha : tag = "ATOM".toList
    · simp only [readLoop, step, if_neg h1, if_neg h2, ht, if_neg hm, if_pos ha]
      cases hh : st.hdr with
      | none => simp [cont]
      | some h =>
        simp only []
        cases hv : takeLines h.nAtoms.toNat ls with
        | error e => simp [cont]
        | ok v =>
          obtain ⟨al, rest⟩ := v
          simp only []
          cases hr : mapE atomRec al with
          | error e => simp [cont]
          | ok recs => simp only [cont_nil]
    by_cases hb : tag = "BOND".toList
    · simp only [readLoop, step, if_neg h1, if_neg h2, ht, if_neg hm, if_neg ha, if_pos hb]
      cases hh : st.hdr with
      | none => simp [cont]
      | some h =>
        simp only []
        cases hnb : h.nBonds with
        | none => simp [cont]
        | some nb =>
          simp only []
          cases hv : takeLines nb.toNat ls with
          | error e => simp [cont]
          | ok v =>
            obtain ⟨al, rest⟩ := v
            simp only []
            cases hr : mapE bondRec al with
            | error e => simp [cont]
            | ok recs => simp only [cont_nil]
    by_cases hua : tag = "UNITY_ATOM_ATTR".toList
    · simp only [readLoop, step, if_neg h1, if_neg h2, ht, if_neg hm, if_neg ha, if_neg hb, if_pos hua]
      cases hu : unityLoop (ls.length + 1) st.atoms ls with
      | error e => simp [cont]
      | ok v => obtain ⟨a', rest⟩ := v; simp only [cont_nil]
    by_cases hub : tag = "UNITY_BOND_ATTR".toList
    · simp only [readLoop, step, if_neg h1, if_neg h2, ht, if_neg hm, if_neg ha, if_neg hb, if_neg hua, if_pos hub]
      cases hu : unityLoop (ls.length + 1) st.bonds ls with
      | error e => simp [cont]
      | ok v => obtain ⟨a', rest⟩ := v; simp only [cont_nil]
    simp only [readLoop, step, if_neg h1, if_neg h2, ht, if_neg hm, if_neg ha, if_neg hb, if_neg hua, if_neg hub, cont_nil]

/-- a block is complete: the sections that are present have exactly the declared number of records -/
def Complete (b : Block) : Prop :=
  (∀ a, b.atoms = some a → a.length = b.header.nAtoms.toNat) ∧
  (∀ bs, b.bonds = some bs → ∃ nb, b.header.nBonds = some nb ∧ bs.length = nb.toNat)

/-- invariant of the reader state -/
def StOk (st : RSt) : Prop :=
  ∀ h, st.hdr = some h →
    (∀ a, st.atoms = some a → a.length = h.nAtoms.toNat) ∧
    (∀ bs, st.bonds = some bs → ∃ nb, h.nBonds = some nb ∧ bs.length = nb.toNat)

theorem stOk_init : StOk RSt.init := by
  intro h hh; simp [RSt.init] at hh

theorem flush_complete (st : RSt) (h : StOk st) : ∀ b ∈ flush st, Complete b := by
  intro b hb
  unfold flush at hb
  cases hh : st.hdr with
  | none => simp [hh] at hb
  | some hd =>
    simp [hh] at hb; subst hb
    exact h hd hh

theorem flushFinal_complete (st : RSt) (h : StOk st) (bs : List Block) (hb : flushFinal st = .ok bs) :
    ∀ b ∈ bs, Complete b := by
  unfold flushFinal at hb
  cases hh : st.hdr with
  | none => simp [hh] at hb
  | some hd =>
    simp [hh] at hb; subst hb
    intro b hb
    simp at hb; subst hb
    exact h hd hh

theorem flushFinal_ne_fuel (st : RSt) : flushFinal st ≠ .error .fuel := by
  unfold flushFinal; split <;> simp

theorem parseCounts_ne_fuel (s : Str) : parseCounts s ≠ .error .fuel := by
  unfold parseCounts
  split
  · simp
  · simp
  · split <;> simp
  · split <;> simp

theorem atomRec_ne_fuel (s : Str) : atomRec s ≠ .error .fuel := by
  unfold atomRec
  simp only []
  split <;> simp

theorem bondRec_ne_fuel (s : Str) : bondRec s ≠ .error .fuel := by
  unfold bondRec
  simp only []
  split <;> simp

theorem ne_fuel_of_eq {α : Type} {x : Except Err α} {e : Err} (hx : x = .error e) (h : x ≠ .error .fuel) :
    (Except.error e : Except Err α) ≠ .error .fuel := by
  rw [← hx]; exact h

/-- what `step` guarantees -/
def StepOk (st : RSt) (ls : List Str) (r : Except Err (List Block × RSt × List Str)) : Prop :=
  r ≠ .error .fuel ∧
  ∀ pre st' rest, r = .ok (pre, st', rest) →
    rest.length ≤ ls.length ∧ (StOk st → StOk st' ∧ ∀ b ∈ pre, Complete b)

theorem stepOk_error (st : RSt) (ls : List Str) (e : Err) (he : e ≠ .fuel) : StepOk st ls (.error e) := by
  refine ⟨?_, ?_⟩
  · intro h; simp only [Except.error.injEq] at h; exact he h
  · intro pre st' rest h; simp at h

theorem stepOk_error_of {α : Type} (st : RSt) (ls : List Str) {x : Except Err α} {e : Err} (hx : x = .error e)
    (h : x ≠ .error .fuel) : StepOk st ls (.error e) := by
  apply stepOk_error
  intro he; subst he; exact h hx

theorem stepOk_ok (st st' : RSt) (pre : List Block) (ls rest : List Str) (hl : rest.length ≤ ls.length)
    (hok : StOk st → StOk st' ∧ ∀ b ∈ pre, Complete b) : StepOk st ls (.ok (pre, st', rest)) := by
  refine ⟨by simp, ?_⟩
  intro pre' st'' rest' h
  simp only [Except.ok.injEq, Prod.mk.injEq] at h
  obtain ⟨rfl, rfl, rfl⟩ := h
  exact ⟨hl, hok⟩

theorem stOk_atoms (st : RSt) (h : Header) (recs : List Rec) (hst : StOk st) (hh : st.hdr = some h)
    (hl : recs.length = h.nAtoms.toNat) : StOk { st with atoms := some recs, skip := false } := by
  intro h' hh'
  simp only at hh'
  rw [hh] at hh'
  simp only [Option.some.injEq] at hh'
  subst hh'
  refine ⟨?_, (hst h hh).2⟩
  intro a ha
  simp only [Option.some.injEq] at ha
  subst ha; exact hl

theorem stOk_bonds (st : RSt) (h : Header) (nb : Int) (recs : List Rec) (hst : StOk st) (hh : st.hdr = some h)
    (hnb : h.nBonds = some nb)
    (hl : recs.length = nb.toNat) : StOk { st with bonds := some recs, skip := false } := by
  intro h' hh'
  simp only at hh'
  rw [hh] at hh'
  simp only [Option.some.injEq] at hh'
  subst hh'
  refine ⟨(hst h hh).1, ?_⟩
  intro a ha
  simp only [Option.some.injEq] at ha
  subst ha; exact ⟨nb, hnb, hl⟩

theorem map_length_some {a' a : Option (List Rec)} (h : a'.map List.length = a.map List.length)
    {x : List Rec} (hx : a' = some x) : ∃ y, a = some y ∧ x.length = y.length := by
  subst hx
  cases a with
  | none => simp at h
  | some y => simp at h; exact ⟨y, rfl, h⟩

theorem stOk_uatoms (st : RSt) (a' : Option (List Rec)) (hst : StOk st)
    (hl : a'.map List.length = st.atoms.map List.length) : StOk { st with atoms := a', skip := false } := by
  intro h hh
  refine ⟨?_, (hst h hh).2⟩
  intro a ha
  simp only at ha
  obtain ⟨y, hy, hlen⟩ := map_length_some hl ha
  rw [hlen]; exact (hst h hh).1 y hy

theorem stOk_ubonds (st : RSt) (b' : Option (List Rec)) (hst : StOk st)
    (hl : b'.map List.length = st.bonds.map List.length) : StOk { st with bonds := b', skip := false } := by
  intro h hh
  refine ⟨(hst h hh).1, ?_⟩
  intro a ha
  simp only at ha
  obtain ⟨y, hy, hlen⟩ := map_length_some hl ha
  rw [hlen]; exact (hst h hh).2 y hy

theorem stOk_new (hd : Header) : StOk ⟨some hd, none, none, false⟩ := by
  intro h hh
  exact ⟨by intro a ha; simp at ha, by intro a ha; simp at ha⟩

theorem step_spec (st : RSt) (line : Str) (ls : List Str) : StepOk st ls (step st line ls) := by
  have triv : ∀ b, StepOk st ls (.ok ([], { st with skip := b }, ls)) := fun b =>
    stepOk_ok _ _ _ _ _ (Nat.le_refl _) (fun hst => ⟨fun h hh => hst h hh, by simp⟩)
  have triv' : StepOk st ls (.ok ([], st, ls)) :=
    stepOk_ok _ _ _ _ _ (Nat.le_refl _) (fun hst => ⟨hst, by simp⟩)
  unfold step
  split
  · exact triv'
  split
  · exact triv'
  split
  · rename_i tag ht
    split
    · -- MOLECULE
      split
      · rename_i e he; exact stepOk_error_of _ _ he (takeLines_ne_fuel _ _)
      · rename_i h5 rest hv
        have hl := (takeLines_len _ _ _ _ hv).2
        split
        · rename_i nm cnt ty ch status
          split
          · rename_i e he; exact stepOk_error_of _ _ he (parseCounts_ne_fuel _)
          · rename_i na nb hc
            simp only []
            split
            · rename_i e he
              apply stepOk_error
              intro hf; subst hf
              split at he
              · simp at he
              · split at he
                · split at he <;> simp at he
                · simp at he
            · rename_i rest' hr
              refine stepOk_ok _ _ _ _ _ ?_ (fun hst => ⟨stOk_new _, flush_complete st hst⟩)
              split at hr
              · simp only [Except.ok.injEq] at hr; subst hr; simp only [List.length_cons]; omega
              · split at hr
                · split at hr
                  · simp at hr
                  · simp only [Except.ok.injEq] at hr; subst hr; simp only [List.length_cons] at hl; omega
                · simp only [Except.ok.injEq] at hr; subst hr; omega
        · exact stepOk_error _ _ _ (by simp)
    split
    · -- ATOM
      split
      · exact stepOk_error _ _ _ (by simp)
      · rename_i h hh
        split
        · rename_i e he; exact stepOk_error_of _ _ he (takeLines_ne_fuel _ _)
        · rename_i al rest hv
          have hl := takeLines_len _ _ _ _ hv
          split
          · rename_i e he; exact stepOk_error_of _ _ he (mapE_ne_fuel _ atomRec_ne_fuel _)
          · rename_i recs hr
            have hlen := mapE_length _ _ _ hr
            exact stepOk_ok _ _ _ _ _ (by omega)
              (fun hst => ⟨stOk_atoms st h recs hst hh (by omega), by simp⟩)
    split
    · -- BOND
      split
      · exact stepOk_error _ _ _ (by simp)
      · rename_i h hh
        split
        · exact stepOk_error _ _ _ (by simp)
        · rename_i nb hnb
          split
          · rename_i e he; exact stepOk_error_of _ _ he (takeLines_ne_fuel _ _)
          · rename_i al rest hv
            have hl := takeLines_len _ _ _ _ hv
            split
            · rename_i e he; exact stepOk_error_of _ _ he (mapE_ne_fuel _ bondRec_ne_fuel _)
            · rename_i recs hr
              have hlen := mapE_length _ _ _ hr
              exact stepOk_ok _ _ _ _ _ (by omega)
                (fun hst => ⟨stOk_bonds st h nb recs hst hh hnb (by omega), by simp⟩)
    split
    · -- UNITY_ATOM_ATTR
      have hu := unityLoop_spec (ls.length + 1) st.atoms ls (by omega)
      split
      · rename_i e he; exact stepOk_error_of _ _ he hu.1
      · rename_i a' rest hv
        have := hu.2 _ _ hv
        exact stepOk_ok _ _ _ _ _ this.1 (fun hst => ⟨stOk_uatoms st a' hst this.2, by simp⟩)
    split
    · -- UNITY_BOND_ATTR
      have hu := unityLoop_spec (ls.length + 1) st.bonds ls (by omega)
      split
      · rename_i e he; exact stepOk_error_of _ _ he hu.1
      · rename_i a' rest hv
        have := hu.2 _ _ hv
        exact stepOk_ok _ _ _ _ _ this.1 (fun hst => ⟨stOk_ubonds st a' hst this.2, by simp⟩)
    exact triv true
  · split
    · exact triv'
    · exact stepOk_error _ _ _ (by simp)

theorem readLoop_nil (f : Nat) (st : RSt) : readLoop (f + 1) st [] = flushFinal st := by
  simp only [readLoop]

/-- every block the reader returns carries exactly the counts its own header declares -/
theorem readLoop_complete : ∀ (f : Nat) (st : RSt) (ls : List Str) (bs : List Block),
    StOk st → readLoop f st ls = .ok bs → ∀ b ∈ bs, Complete b := by
  intro f
  induction f with
  | zero => intro st ls bs _ h; simp [readLoop] at h
  | succ f ih =>
    intro st ls bs hst h
    cases ls with
    | nil =>
      rw [readLoop_nil] at h
      exact flushFinal_complete st hst bs h
    | cons line ls =>
      rw [readLoop_step] at h
      have hs := (step_spec st line ls).2
      cases hr : step st line ls with
      | error e => rw [hr] at h; simp [cont] at h
      | ok v =>
        obtain ⟨pre, st', rest⟩ := v
        have := (hs pre st' rest hr).2 hst
        rw [hr] at h
        simp only [cont] at h
        split at h
        · simp at h
        · rename_i more hmore
          simp only [Except.ok.injEq] at h
          subst h
          intro b hb
          rcases List.mem_append.1 hb with hb | hb
          · exact this.2 b hb
          · exact ih st' rest more this.1 hmore b hb

/-- the put-back never stalls the reader: fuel `ls.length + 1` always suffices -/
theorem readLoop_terminates : ∀ (f : Nat) (st : RSt) (ls : List Str),
    ls.length < f → readLoop f st ls ≠ .error .fuel := by
  intro f
  induction f with
  | zero => intro st ls h; omega
  | succ f ih =>
    intro st ls hlen
    cases ls with
    | nil => rw [readLoop_nil]; exact flushFinal_ne_fuel st
    | cons line ls =>
      simp only [List.length_cons] at hlen
      rw [readLoop_step]
      have hs := step_spec st line ls
      cases hr : step st line ls with
      | error e =>
        simp only [cont]
        rw [hr] at hs
        intro h; simp only [Except.error.injEq] at h; subst h
        exact hs.1 rfl
      | ok v =>
        obtain ⟨pre, st', rest⟩ := v
        have := (hs.2 pre st' rest hr).1
        simp only [cont]
        split
        · rename_i e he
          intro h; simp only [Except.error.injEq] at h; subst h
          exact ih st' rest (by omega) he
        · simp

/-- more fuel than needed changes nothing -/
theorem readLoop_fuel_mono : ∀ (f g : Nat) (st : RSt) (ls : List Str),
    ls.length < f → ls.length < g → readLoop f st ls = readLoop g st ls := by
  intro f
  induction f with
  | zero => intro g st ls h; omega
  | succ f ih =>
    intro g st ls hf hg
    cases g with
    | zero => omega
    | succ g =>
      cases ls with
      | nil => rw [readLoop_nil, readLoop_nil]
      | cons line ls =>
        simp only [List.length_cons] at hf hg
        rw [readLoop_step, readLoop_step]
        have hs := step_spec st line ls
        cases hr : step st line ls with
        | error e => simp only [cont]
        | ok v =>
          obtain ⟨pre, st', rest⟩ := v
          have := (hs.2 pre st' rest hr).1
          simp only [cont]
          rw [ih g st' rest (by omega) (by omega)]

theorem step_molecule (line : Str) (ls : List Str)
    (hne : line ≠ []) (hc : line.head? ≠ some '#') (htag : triposTag line = some "MOLECULE".toList) :
    ∃ r : Except Err (RSt × List Str), ∀ st, step st line ls =
      match r with
      | .error e => .error e
      | .ok (st', rest) => .ok (flush st, st', rest) := by
  simp only [step, if_neg hne, if_neg hc, htag, if_true]
  cases h5 : takeLines 5 ls with
  | error e => exact ⟨.error e, fun st => rfl⟩
  | ok v =>
    obtain ⟨h5, rest⟩ := v
    simp only []
    split
    · rename_i nm cnt ty ch status
      cases hc : parseCounts cnt with
      | error e => exact ⟨.error e, fun st => rfl⟩
      | ok c =>
        obtain ⟨na, nb⟩ := c
        simp only []
        split
        · rename_i e he; exact ⟨.error e, fun st => rfl⟩
        · rename_i rest' hr; exact ⟨.ok (_, rest'), fun st => rfl⟩
    · exact ⟨.error .syntax, fun st => rfl⟩

theorem flush_init : flush RSt.init = [] := rfl

/-- No state crosses `@<TRIPOS>MOLECULE`: whatever was read before (state `st`), the blocks produced
from a MOLECULE line on are those the reader produces for that text alone, after the block pending in `st`. -/
theorem readLoop_molecule_independent (f : Nat) (st : RSt) (line : Str) (ls : List Str)
    (hne : line ≠ []) (hc : line.head? ≠ some '#') (htag : triposTag line = some "MOLECULE".toList) :
    readLoop (f + 1) st (line :: ls) =
      (match readLoop (f + 1) RSt.init (line :: ls) with
       | .ok more => .ok (flush st ++ more)
       | .error e => .error e) := by
  obtain ⟨r, hr⟩ := step_molecule line ls hne hc htag
  rw [readLoop_step, readLoop_step, hr st, hr RSt.init]
  cases r with
  | error e => simp only [cont]
  | ok v =>
    obtain ⟨st', rest⟩ := v
    simp only [cont, flush_init, List.nil_append]
    cases readLoop f st' rest <;> rfl

end Molli.Lemmas.Mol2Reader
