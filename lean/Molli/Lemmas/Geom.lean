/-
Algebra of the geometry model (`Molli.Model.Geom`) over commutative rings / fields:
rigid motions preserve squared distances and signed volumes, products of rotations are
rotations, and the V3/M3-level forms of the kernel-checked certificates of
`Molli.Lemmas.GeomCert` for `rotation_matrix_from_axis` and `rotation_matrix_from_vectors`.
-/
import Mathlib.Tactic.Ring
import Mathlib.Tactic.LinearCombination
import Mathlib.Tactic.FieldSimp
import Molli.Lemmas.GeomCert
namespace Molli.Lemmas.Geom
open Molli.Model.Geom

set_option linter.unusedSimpArgs false
set_option linter.unusedVariables false

section Ring
variable {α : Type} [CommRing α]

omit [CommRing α] in
theorem V3.eq_of {a b : V3 α} (h1 : a.x = b.x) (h2 : a.y = b.y) (h3 : a.z = b.z) : a = b := by
  cases a; cases b; simp only [V3.mk.injEq]; exact ⟨h1, h2, h3⟩

omit [CommRing α] in
theorem M3.eq_of {a b : M3 α} (h1 : a.r1 = b.r1) (h2 : a.r2 = b.r2) (h3 : a.r3 = b.r3) : a = b := by
  cases a; cases b; simp only [M3.mk.injEq]; exact ⟨h1, h2, h3⟩

omit [CommRing α] in
theorem M3.eq_of9 {a b : M3 α}
    (h11 : a.r1.x = b.r1.x) (h12 : a.r1.y = b.r1.y) (h13 : a.r1.z = b.r1.z)
    (h21 : a.r2.x = b.r2.x) (h22 : a.r2.y = b.r2.y) (h23 : a.r2.z = b.r2.z)
    (h31 : a.r3.x = b.r3.x) (h32 : a.r3.y = b.r3.y) (h33 : a.r3.z = b.r3.z) : a = b :=
  M3.eq_of (V3.eq_of h11 h12 h13) (V3.eq_of h21 h22 h23) (V3.eq_of h31 h32 h33)

/-! ### vectors -/

theorem add_sub_add (p q t : V3 α) : (p.add t).sub (q.add t) = p.sub q := by
  apply V3.eq_of <;> simp only [V3.add, V3.sub] <;> ring

theorem mulM_sub (p q : V3 α) (r : M3 α) : (p.mulM r).sub (q.mulM r) = (p.sub q).mulM r := by
  apply V3.eq_of <;> simp only [V3.sub, V3.mulM] <;> ring

theorem mulM_add (p q : V3 α) (r : M3 α) : (p.mulM r).add (q.mulM r) = (p.add q).mulM r := by
  apply V3.eq_of <;> simp only [V3.add, V3.mulM] <;> ring

theorem mulM_smul (k : α) (p : V3 α) (r : M3 α) : (p.smul k).mulM r = (p.mulM r).smul k := by
  apply V3.eq_of <;> simp only [V3.smul, V3.mulM] <;> ring

theorem mulM_neg (p : V3 α) (r : M3 α) : p.neg.mulM r = (p.mulM r).neg := by
  apply V3.eq_of <;> simp only [V3.neg, V3.mulM] <;> ring

theorem mulM_one (p : V3 α) : p.mulM M3.one = p := by
  apply V3.eq_of <;> simp only [V3.mulM, M3.one] <;> ring

/-- `(v @ A) @ B = v @ (A @ B)` -/
theorem mulM_mul (v : V3 α) (a b : M3 α) : (v.mulM a).mulM b = v.mulM (a.mul b) := by
  apply V3.eq_of <;> simp only [V3.mulM, M3.mul] <;> ring

theorem det_mul (a b : M3 α) : (a.mul b).det = a.det * b.det := by
  simp only [M3.det, M3.mul, V3.mulM, V3.dot, V3.cross]; ring

theorem det_one : (M3.one : M3 α).det = 1 := by
  simp only [M3.det, M3.one, V3.dot, V3.cross]; ring

theorem sub_self_zero (p : V3 α) : p.sub p = V3.zero := by
  apply V3.eq_of <;> simp only [V3.sub, V3.zero] <;> ring

theorem add_zero (p : V3 α) : p.add V3.zero = p := by
  apply V3.eq_of <;> simp only [V3.add, V3.zero] <;> ring

theorem zero_mulM (r : M3 α) : (V3.zero : V3 α).mulM r = V3.zero := by
  apply V3.eq_of <;> simp only [V3.mulM, V3.zero] <;> ring

theorem add_neg_self (p : V3 α) : p.add p.neg = V3.zero := by
  apply V3.eq_of <;> simp only [V3.add, V3.neg, V3.zero] <;> ring

theorem sub_add_cancel (p q : V3 α) : (p.sub q).add q = p := by
  apply V3.eq_of <;> simp only [V3.add, V3.sub] <;> ring

theorem dot_smul_smul (k : α) (p q : V3 α) : (p.smul k).dot (q.smul k) = k * k * p.dot q := by
  simp only [V3.dot, V3.smul]; ring

/-! ### orthogonal matrices -/

/-- the nine scalar equations of `R Rᵀ = I` -/
theorem isOrth_iff (r : M3 α) : r.IsOrth ↔
    ((r.r1.dot r.r1 = 1 ∧ r.r1.dot r.r2 = 0 ∧ r.r1.dot r.r3 = 0) ∧
     (r.r2.dot r.r1 = 0 ∧ r.r2.dot r.r2 = 1 ∧ r.r2.dot r.r3 = 0) ∧
     (r.r3.dot r.r1 = 0 ∧ r.r3.dot r.r2 = 0 ∧ r.r3.dot r.r3 = 1)) := by
  obtain ⟨⟨a, b, c⟩, ⟨d, e, f⟩, ⟨g, h, i⟩⟩ := r
  simp only [M3.IsOrth, M3.mul, M3.transpose, M3.one, V3.mulM, V3.dot, M3.mk.injEq, V3.mk.injEq]

/-- an orthogonal matrix preserves the scalar product of row vectors -/
theorem orth_dot {r : M3 α} (h : r.IsOrth) (v w : V3 α) :
    (v.mulM r).dot (w.mulM r) = v.dot w := by
  rw [isOrth_iff] at h
  obtain ⟨⟨h11, h12, h13⟩, ⟨h21, h22, h23⟩, ⟨h31, h32, h33⟩⟩ := h
  obtain ⟨⟨a, b, c⟩, ⟨d, e, f⟩, ⟨g, hh, i⟩⟩ := r
  obtain ⟨v1, v2, v3⟩ := v
  obtain ⟨w1, w2, w3⟩ := w
  simp only [V3.dot, V3.mulM] at *
  linear_combination (v1 * w1) * h11 + (v1 * w2) * h12 + (v1 * w3) * h13 +
    (v2 * w1) * h21 + (v2 * w2) * h22 + (v2 * w3) * h23 +
    (v3 * w1) * h31 + (v3 * w2) * h32 + (v3 * w3) * h33

/-- conversely, a matrix that preserves all scalar products of rows is orthogonal -/
theorem isOrth_of_dot {r : M3 α} (h : ∀ v w : V3 α, (v.mulM r).dot (w.mulM r) = v.dot w) :
    r.IsOrth := by
  rw [isOrth_iff]
  obtain ⟨⟨a, b, c⟩, ⟨d, e, f⟩, ⟨g, hh, i⟩⟩ := r
  have k11 := h ⟨1, 0, 0⟩ ⟨1, 0, 0⟩
  have k12 := h ⟨1, 0, 0⟩ ⟨0, 1, 0⟩
  have k13 := h ⟨1, 0, 0⟩ ⟨0, 0, 1⟩
  have k21 := h ⟨0, 1, 0⟩ ⟨1, 0, 0⟩
  have k22 := h ⟨0, 1, 0⟩ ⟨0, 1, 0⟩
  have k23 := h ⟨0, 1, 0⟩ ⟨0, 0, 1⟩
  have k31 := h ⟨0, 0, 1⟩ ⟨1, 0, 0⟩
  have k32 := h ⟨0, 0, 1⟩ ⟨0, 1, 0⟩
  have k33 := h ⟨0, 0, 1⟩ ⟨0, 0, 1⟩
  simp only [V3.dot, V3.mulM] at *
  refine ⟨⟨?_, ?_, ?_⟩, ⟨?_, ?_, ?_⟩, ⟨?_, ?_, ?_⟩⟩
  · linear_combination k11
  · linear_combination k12
  · linear_combination k13
  · linear_combination k21
  · linear_combination k22
  · linear_combination k23
  · linear_combination k31
  · linear_combination k32
  · linear_combination k33

theorem isOrth_one : (M3.one : M3 α).IsOrth :=
  isOrth_of_dot (fun v w => by rw [mulM_one, mulM_one])

theorem IsOrth.mul {a b : M3 α} (ha : a.IsOrth) (hb : b.IsOrth) : (a.mul b).IsOrth :=
  isOrth_of_dot (fun v w => by rw [← mulM_mul, ← mulM_mul, orth_dot hb, orth_dot ha])

theorem isRot_one : (M3.one : M3 α).IsRot := ⟨isOrth_one, det_one⟩

/-- a product of proper rotations is a proper rotation -/
theorem IsRot.mul {a b : M3 α} (ha : a.IsRot) (hb : b.IsRot) : (a.mul b).IsRot :=
  ⟨IsOrth.mul ha.1 hb.1, by rw [det_mul, ha.2, hb.2, mul_one]⟩

/-! ### rigid motions: `p ↦ p @ R + t` -/

theorem rigid_dist {r : M3 α} (h : r.IsOrth) (t p q : V3 α) :
    dist2 ((p.mulM r).add t) ((q.mulM r).add t) = dist2 p q := by
  unfold dist2
  rw [add_sub_add, mulM_sub, orth_dot h]

/-- signed volumes are multiplied by the determinant (no orthogonality needed) -/
theorem rigid_triple_det (r : M3 α) (t p q s o : V3 α) :
    triple ((p.mulM r).add t) ((q.mulM r).add t) ((s.mulM r).add t) ((o.mulM r).add t)
      = r.det * triple p q s o := by
  simp only [triple, M3.det, V3.dot, V3.cross, V3.sub, V3.add, V3.mulM]; ring

theorem rigid_triple {r : M3 α} (h : r.det = 1) (t p q s o : V3 α) :
    triple ((p.mulM r).add t) ((q.mulM r).add t) ((s.mulM r).add t) ((o.mulM r).add t)
      = triple p q s o := by
  rw [rigid_triple_det, h, one_mul]

theorem translate_dist (t p q : V3 α) : dist2 (p.add t) (q.add t) = dist2 p q := by
  unfold dist2; rw [add_sub_add]

theorem translate_triple (t p q s o : V3 α) :
    triple (p.add t) (q.add t) (s.add t) (o.add t) = triple p q s o := by
  simp only [triple, V3.dot, V3.cross, V3.sub, V3.add]; ring

/-- rotation about a point: `translate(-o); transform(R); translate(o)` is the rigid motion
`p ↦ p @ R + (o - o @ R)` -/
theorem rotateAbout_eq (o : V3 α) (r : M3 α) (p : V3 α) :
    rotateAbout o r p = (p.mulM r).add (o.sub (o.mulM r)) := by
  apply V3.eq_of <;> simp only [rotateAbout, V3.add, V3.sub, V3.mulM] <;> ring

/-! ### rotation_matrix_from_axis -/

theorem rotAxis_isOrth (u : V3 α) (s c : α) (hu : u.dot u = 1) (ht : s * s + c * c = 1) :
    (rotAxis u s c).IsOrth := by
  obtain ⟨ux, uy, uz⟩ := u
  simp only [V3.dot] at hu
  unfold M3.IsOrth
  exact M3.eq_of9
    (GeomCert.rotAxis_orth_r1x ux uy uz s c hu ht) (GeomCert.rotAxis_orth_r1y ux uy uz s c hu ht)
    (GeomCert.rotAxis_orth_r1z ux uy uz s c hu ht) (GeomCert.rotAxis_orth_r2x ux uy uz s c hu ht)
    (GeomCert.rotAxis_orth_r2y ux uy uz s c hu ht) (GeomCert.rotAxis_orth_r2z ux uy uz s c hu ht)
    (GeomCert.rotAxis_orth_r3x ux uy uz s c hu ht) (GeomCert.rotAxis_orth_r3y ux uy uz s c hu ht)
    (GeomCert.rotAxis_orth_r3z ux uy uz s c hu ht)

theorem rotAxis_det (u : V3 α) (s c : α) (hu : u.dot u = 1) (ht : s * s + c * c = 1) :
    (rotAxis u s c).det = 1 := by
  obtain ⟨ux, uy, uz⟩ := u
  simp only [V3.dot] at hu
  exact GeomCert.rotAxis_det ux uy uz s c hu ht

theorem rotAxis_isRot (u : V3 α) (s c : α) (hu : u.dot u = 1) (ht : s * s + c * c = 1) :
    (rotAxis u s c).IsRot := ⟨rotAxis_isOrth u s c hu ht, rotAxis_det u s c hu ht⟩

theorem rotAxis_fixes_row (u : V3 α) (s c : α) (hu : u.dot u = 1) :
    u.mulM (rotAxis u s c) = u := by
  obtain ⟨ux, uy, uz⟩ := u
  simp only [V3.dot] at hu
  exact V3.eq_of (GeomCert.rotAxis_fixes_row_x ux uy uz s c hu)
    (GeomCert.rotAxis_fixes_row_y ux uy uz s c hu) (GeomCert.rotAxis_fixes_row_z ux uy uz s c hu)

theorem rotAxis_fixes_col (u : V3 α) (s c : α) (hu : u.dot u = 1) :
    (rotAxis u s c).mulV u = u := by
  obtain ⟨ux, uy, uz⟩ := u
  simp only [V3.dot] at hu
  exact V3.eq_of (GeomCert.rotAxis_fixes_col_x ux uy uz s c hu)
    (GeomCert.rotAxis_fixes_col_y ux uy uz s c hu) (GeomCert.rotAxis_fixes_col_z ux uy uz s c hu)

/-! ### rotation_matrix_from_vectors, general branch -/

theorem rotVecK_eq_closed (a b : V3 α) (k : α) (ha : a.dot a = 1) (hb : b.dot b = 1)
    (hk : k * (1 + a.dot b) = 1) :
    rotVecK a b k = GeomCert.rotVecClosed a.x a.y a.z b.x b.y b.z k := by
  obtain ⟨a1, a2, a3⟩ := a
  obtain ⟨b1, b2, b3⟩ := b
  simp only [V3.dot] at ha hb hk
  exact M3.eq_of9
    (GeomCert.rotVecK_closed_r1x a1 a2 a3 b1 b2 b3 k ha hb hk) (GeomCert.rotVecK_closed_r1y a1 a2 a3 b1 b2 b3 k ha hb hk)
    (GeomCert.rotVecK_closed_r1z a1 a2 a3 b1 b2 b3 k ha hb hk) (GeomCert.rotVecK_closed_r2x a1 a2 a3 b1 b2 b3 k ha hb hk)
    (GeomCert.rotVecK_closed_r2y a1 a2 a3 b1 b2 b3 k ha hb hk) (GeomCert.rotVecK_closed_r2z a1 a2 a3 b1 b2 b3 k ha hb hk)
    (GeomCert.rotVecK_closed_r3x a1 a2 a3 b1 b2 b3 k ha hb hk) (GeomCert.rotVecK_closed_r3y a1 a2 a3 b1 b2 b3 k ha hb hk)
    (GeomCert.rotVecK_closed_r3z a1 a2 a3 b1 b2 b3 k ha hb hk)

theorem rotVecK_isOrth (a b : V3 α) (k : α) (ha : a.dot a = 1) (hb : b.dot b = 1)
    (hk : k * (1 + a.dot b) = 1) : (rotVecK a b k).IsOrth := by
  rw [rotVecK_eq_closed a b k ha hb hk]
  obtain ⟨a1, a2, a3⟩ := a
  obtain ⟨b1, b2, b3⟩ := b
  simp only [V3.dot] at ha hb hk
  unfold M3.IsOrth
  exact M3.eq_of9
    (GeomCert.rotVecClosed_orth_r1x a1 a2 a3 b1 b2 b3 k ha hb hk) (GeomCert.rotVecClosed_orth_r1y a1 a2 a3 b1 b2 b3 k ha hb hk)
    (GeomCert.rotVecClosed_orth_r1z a1 a2 a3 b1 b2 b3 k ha hb hk) (GeomCert.rotVecClosed_orth_r2x a1 a2 a3 b1 b2 b3 k ha hb hk)
    (GeomCert.rotVecClosed_orth_r2y a1 a2 a3 b1 b2 b3 k ha hb hk) (GeomCert.rotVecClosed_orth_r2z a1 a2 a3 b1 b2 b3 k ha hb hk)
    (GeomCert.rotVecClosed_orth_r3x a1 a2 a3 b1 b2 b3 k ha hb hk) (GeomCert.rotVecClosed_orth_r3y a1 a2 a3 b1 b2 b3 k ha hb hk)
    (GeomCert.rotVecClosed_orth_r3z a1 a2 a3 b1 b2 b3 k ha hb hk)

theorem rotVecK_det (a b : V3 α) (k : α) (ha : a.dot a = 1) (hb : b.dot b = 1)
    (hk : k * (1 + a.dot b) = 1) : (rotVecK a b k).det = 1 := by
  rw [rotVecK_eq_closed a b k ha hb hk]
  obtain ⟨a1, a2, a3⟩ := a
  obtain ⟨b1, b2, b3⟩ := b
  simp only [V3.dot] at ha hb hk
  exact GeomCert.rotVecClosed_det a1 a2 a3 b1 b2 b3 k ha hb hk

theorem rotVecK_maps (a b : V3 α) (k : α) (ha : a.dot a = 1) (hb : b.dot b = 1)
    (hk : k * (1 + a.dot b) = 1) : a.mulM (rotVecK a b k) = b := by
  rw [rotVecK_eq_closed a b k ha hb hk]
  obtain ⟨a1, a2, a3⟩ := a
  obtain ⟨b1, b2, b3⟩ := b
  simp only [V3.dot] at ha hb hk
  exact V3.eq_of (GeomCert.rotVecClosed_maps_x a1 a2 a3 b1 b2 b3 k ha hb hk)
    (GeomCert.rotVecClosed_maps_y a1 a2 a3 b1 b2 b3 k ha hb hk)
    (GeomCert.rotVecClosed_maps_z a1 a2 a3 b1 b2 b3 k ha hb hk)

/-! ### Gram–Schmidt helper of the antiparallel branch -/

theorem gramSchmidt_perp (rv b : V3 α) (hb : b.dot b = 1) : (gramSchmidt rv b).dot b = 0 := by
  obtain ⟨r1, r2, r3⟩ := rv
  obtain ⟨b1, b2, b3⟩ := b
  simp only [gramSchmidt, V3.dot, V3.sub, V3.smul] at *
  linear_combination (-(r1 * b1 + r2 * b2 + r3 * b3)) * hb

theorem gramSchmidt_norm (rv b : V3 α) (hb : b.dot b = 1) :
    (gramSchmidt rv b).dot (gramSchmidt rv b) = rv.dot rv - rv.dot b * rv.dot b := by
  obtain ⟨r1, r2, r3⟩ := rv
  obtain ⟨b1, b2, b3⟩ := b
  simp only [gramSchmidt, V3.dot, V3.sub, V3.smul] at *
  linear_combination ((r1 * b1 + r2 * b2 + r3 * b3) ^ 2) * hb

theorem basis_dot_self (k : Fin 3) : (basis k : V3 α).dot (basis k) = 1 := by
  match k with
  | 0 => simp only [basis, V3.dot]; ring
  | 1 => simp only [basis, V3.dot]; ring
  | 2 => simp only [basis, V3.dot]; ring

theorem basis_dot (k : Fin 3) (b : V3 α) : (basis k : V3 α).dot b = b.get k := by
  match k with
  | 0 => simp only [basis, V3.dot, V3.get]; ring
  | 1 => simp only [basis, V3.dot, V3.get]; ring
  | 2 => simp only [basis, V3.dot, V3.get]; ring

/-- the deterministic helper of the repaired code: `|e_k − b_k b|² = 1 − b_k²` -/
theorem gramSchmidt_basis_norm (k : Fin 3) (b : V3 α) (hb : b.dot b = 1) :
    (gramSchmidt (basis k) b).dot (gramSchmidt (basis k) b) = 1 - b.get k * b.get k := by
  rw [gramSchmidt_norm _ _ hb, basis_dot_self, basis_dot]

/-- a vector scaled by the inverse `m` of its norm `n` is a unit vector, still ⊥ b -/
theorem scaled_unit_perp (g b : V3 α) (n m : α) (hg : g.dot b = 0) (hn : n * n = g.dot g)
    (hm : m * n = 1) : (g.smul m).dot (g.smul m) = 1 ∧ (g.smul m).dot b = 0 := by
  obtain ⟨g1, g2, g3⟩ := g
  obtain ⟨b1, b2, b3⟩ := b
  simp only [V3.dot, V3.smul] at *
  constructor
  · linear_combination (-(m ^ 2)) * hn + (m * n + 1) * hm
  · linear_combination m * hg

/-! ### dihedral -/

/-- A point on the rotation axis through `p2` does not move. -/
theorem rotateAbout_axis_point (p2 u : V3 α) (l s c : α) (hu : u.dot u = 1) :
    rotateAbout p2 (rotAxis u s c) (p2.add (u.smul l)) = p2.add (u.smul l) := by
  obtain ⟨ux, uy, uz⟩ := u
  obtain ⟨p2x, p2y, p2z⟩ := p2
  simp only [V3.dot] at hu
  exact V3.eq_of (GeomCert.rotateAbout_axis_point_x 0 0 0 p2x p2y p2z 0 0 0 l ux uy uz s c hu)
    (GeomCert.rotateAbout_axis_point_y 0 0 0 p2x p2y p2z 0 0 0 l ux uy uz s c hu)
    (GeomCert.rotateAbout_axis_point_z 0 0 0 p2x p2y p2z 0 0 0 l ux uy uz s c hu)

/-- Rotating the far side (`p3` on the axis, `p4`) about the central bond `p2 → p3 = p2 + l·u` by
`rotation_matrix_from_axis(u, angle)` applied to ROW vectors turns the dihedral's
(sin-like, cos-like) pair by MINUS the angle:  `(A', B') = (A c − B s, B c + A s)`. -/
theorem dihedral_after_rotation (p1 p2 p4 u : V3 α) (l s c : α)
    (hu : u.dot u = 1) (ht : s * s + c * c = 1) :
    let p3 := p2.add (u.smul l)
    let f := rotateAbout p2 (rotAxis u s c)
    dihedralPair p1 p2 (f p3) (f p4) l =
      ((dihedralPair p1 p2 p3 p4 l).1 * c - (dihedralPair p1 p2 p3 p4 l).2 * s,
       (dihedralPair p1 p2 p3 p4 l).2 * c + (dihedralPair p1 p2 p3 p4 l).1 * s) := by
  obtain ⟨ux, uy, uz⟩ := u
  obtain ⟨p1x, p1y, p1z⟩ := p1
  obtain ⟨p2x, p2y, p2z⟩ := p2
  obtain ⟨qx, qy, qz⟩ := p4
  simp only [V3.dot] at hu
  exact Prod.ext
    (GeomCert.dihedral_after_rotation_sin p1x p1y p1z p2x p2y p2z qx qy qz l ux uy uz s c hu ht)
    (GeomCert.dihedral_after_rotation_cos p1x p1y p1z p2x p2y p2z qx qy qz l ux uy uz s c hu ht)

/-- the composed angle is again a (sin, cos) pair, in both variants -/
theorem dihedralRotation_unit (v : Variant) (sφ cφ sτ cτ : α)
    (hφ : sφ * sφ + cφ * cφ = 1) (hτ : sτ * sτ + cτ * cτ = 1) :
    (dihedralRotation v sφ cφ sτ cτ).1 * (dihedralRotation v sφ cφ sτ cτ).1 +
      (dihedralRotation v sφ cφ sτ cτ).2 * (dihedralRotation v sφ cφ sτ cτ).2 = 1 := by
  cases v <;> simp only [dihedralRotation] <;>
    linear_combination (sτ * sτ + cτ * cτ) * hφ + hτ

end Ring

section Lists
variable {α : Type} [CommRing α]

/-! ### coordinate lists and substructure edits -/

omit [CommRing α] in
theorem updateSel_length (coords : List (V3 α)) (sel : List Nat) (f : V3 α → V3 α) :
    (updateSel coords sel f).length = coords.length := by
  simp only [updateSel, List.length_mapIdx]

omit [CommRing α] in
theorem updateSel_getElem? (coords : List (V3 α)) (sel : List Nat) (f : V3 α → V3 α) (i : Nat) :
    (updateSel coords sel f)[i]? = (coords[i]?).map (fun p => if i ∈ sel then f p else p) := by
  simp only [updateSel, List.getElem?_mapIdx]

omit [CommRing α] in
theorem gather_map (coords : List (V3 α)) (sel : List Nat) (f : V3 α → V3 α) :
    gather (coords.map f) sel = (gather coords sel).map f := by
  induction sel with
  | nil => rfl
  | cons i rest ih =>
    simp only [gather, List.filterMap_cons, List.getElem?_map] at *
    cases h : coords[i]? with
    | none => simpa using ih
    | some p => simpa using ih

theorem vsum_translate (l : List (V3 α)) (v : V3 α) :
    vsum (translate l v) = (vsum l).add (v.smul (l.length : α)) := by
  induction l with
  | nil =>
    apply V3.eq_of <;> simp [vsum, translate, V3.add, V3.smul, V3.zero]
  | cons p rest ih =>
    simp only [vsum, translate, List.map_cons, List.foldr_cons, List.length_cons] at *
    rw [ih]
    apply V3.eq_of <;> simp only [V3.add, V3.smul] <;> push_cast <;> ring

end Lists

end Molli.Lemmas.Geom
