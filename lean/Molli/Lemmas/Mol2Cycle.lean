/-
What a write/read cycle preserves, and the fixed point from the second cycle on (C07).
Parametric in the typing tables.
-/
import Molli.Lemmas.Mol2Values
namespace Molli.Lemmas.Mol2Cycle
open Molli.Model.Text Molli.Model.Mol2Types Molli.Model.Mol2
open Molli.Lemmas.Text Molli.Lemmas.Num Molli.Lemmas.Mol2Types Molli.Lemmas.Mol2Reader Molli.Lemmas.Mol2RoundTrip
open Molli.Lemmas.Mol2Values

section
variable (tt : TypeTable) (bt : BondTable)

/-- the read-back molecule is again inside the domain of the property -/
theorem admissible_normMol (h : TablesOk tt bt) (k : Kind) (m : MolV) (hm : Admissible tt bt m) :
    Admissible tt bt (normMol tt bt k m) := by
  refine ⟨hm.name_line, hm.name_strip, ?_, ?_⟩
  · intro a' ha'
    simp only [normMol, List.mem_map] at ha'
    obtain ⟨a, ha, rfl⟩ := ha'
    obtain ⟨s', _, hr, hn, _⟩ := acceptStr_typeTok tt bt h a (hm.atoms a ha).1
    refine ⟨?_, Or.inr ?_⟩
    · simp only [normAtom, hn]; exact hr
    · exact labelTok_tok tt bt h a (hm.atoms a ha)
  · intro b' hb'
    simp only [normMol, List.mem_map] at hb'
    obtain ⟨b, hb, rfl⟩ := hb'
    obtain ⟨b2, hacc, hlt⟩ := bond_acceptStr tt bt h b.btype (hm.bonds b hb).2.2
    simp only [normMol, normBond, List.length_map, hacc, Option.getD_some]
    exact ⟨(hm.bonds b hb).1, (hm.bonds b hb).2.1, hlt⟩

/-- the label written for a read-back atom is the label that was written before -/
theorem labelTok_normAtom (h : TablesOk tt bt) (k : Kind) (a : AtomV)
    (ha : InRange tt a.st ∧ (a.label = [] ∨ Tok a.label)) :
    labelTok tt (normAtom tt k a) = labelTok tt a := by
  have := labelTok_tok tt bt h a ha
  have hne : ¬ (normAtom tt k a).label = [] := this.1
  show (if (normAtom tt k a).label = [] then _ else (normAtom tt k a).label) = labelTok tt a
  rw [if_neg hne]
  rfl

/-- the type token written after the second cycle is the one written after the first -/
theorem typeTok_normAtom2 (h : TablesOk tt bt) (k : Kind) (a : AtomV) (ha : InRange tt a.st) :
    typeTok tt (normAtom tt k (normAtom tt k a)) = typeTok tt (normAtom tt k a) := by
  obtain ⟨s1, s2, h1, h2, he, hsh⟩ := secondCycleFixed_spec tt h.cyc a.st ha
  obtain ⟨s', hacc, hr, hn, _⟩ := acceptStr_typeTok tt bt h a ha
  have hs1 : s' = s1 := by
    have := setModelAgrees_spec tt h.agree a.st ha
    rw [typeTok_eq tt bt h a ha, acceptStr_emitStr, this] at hacc
    simp only [cycleSt] at h1
    rw [h1] at hacc
    exact (Option.some.inj hacc).symm
  subst hs1
  have hn1 : (normAtom tt k a).st = s' := by simp only [normAtom, hn]
  obtain ⟨s'', hacc2, hr2, hn2, _⟩ := acceptStr_typeTok tt bt h (normAtom tt k a) (by rw [hn1]; exact hr)
  have hs2 : s'' = s2 := by
    have := setModelAgrees_spec tt h.agree s' hr
    rw [typeTok_eq tt bt h _ (by rw [hn1]; exact hr), hn1, acceptStr_emitStr, this] at hacc2
    simp only [cycleSt] at h2
    rw [h2] at hacc2
    exact (Option.some.inj hacc2).symm
  subst hs2
  have hn2' : (normAtom tt k (normAtom tt k a)).st = s'' := by
    simp only [normAtom] at hn2 ⊢; exact hn2
  rw [typeTok_eq tt bt h _ (by rw [hn2']; exact hr2), typeTok_eq tt bt h _ (by rw [hn1]; exact hr), hn2', hn1]
  simp only [TypeTable.emitStr, TypeTable.emitCodes, he, hsh]

theorem chargeOr0_round (c : Num) :
    chargeOr0 (roundNum 3 (chargeOr0 (roundNum 3 (chargeOr0 c)))) = chargeOr0 (roundNum 3 (chargeOr0 c)) := by
  generalize chargeOr0 c = y
  cases y with
  | inf neg => simp [roundNum, chargeOr0, Num.isZero]
  | nan => simp [roundNum, chargeOr0, Num.isZero]
  | fin neg m e =>
    simp only [roundNum]
    by_cases hz : scaledRound 3 m e = 0
    · simp only [chargeOr0, Num.isZero, hz, beq_self_eq_true, if_true]
      have : scaledRound 3 0 0 = 0 := by decide
      simp [this]
    · have hne : (scaledRound 3 m e == 0) = false := by simpa using hz
      simp only [chargeOr0, Num.isZero, hne, Bool.false_eq_true, if_false, scaledRound_self]

/-- the charge text written after the second cycle is the one written after the first -/
theorem chargeTok_normAtom2 (k : Kind) (a : AtomV) :
    chargeTok k (normAtom tt k (normAtom tt k a)) = chargeTok k (normAtom tt k a) := by
  rcases k with _ | _
  · simp only [chargeTok, normAtom, normCharge]
    rw [chargeOr0_round]
  · rfl

theorem atomLine_normAtom2 (h : TablesOk tt bt) (k : Kind) (i : Nat) (a : AtomV)
    (ha : InRange tt a.st ∧ (a.label = [] ∨ Tok a.label)) :
    atomLine tt k i (normAtom tt k (normAtom tt k a)) = atomLine tt k i (normAtom tt k a) := by
  have hadm : InRange tt (normAtom tt k a).st ∧ ((normAtom tt k a).label = [] ∨ Tok (normAtom tt k a).label) := by
    obtain ⟨s', _, hr, hn, _⟩ := acceptStr_typeTok tt bt h a ha.1
    exact ⟨by simp only [normAtom, hn]; exact hr, Or.inr (labelTok_tok tt bt h a ha)⟩
  simp only [atomLine]
  rw [labelTok_normAtom tt bt h k _ hadm, typeTok_normAtom2 tt bt h k a ha.1, chargeTok_normAtom2]
  simp only [normAtom, roundNum_idem]

theorem bondLine_normBond (h : TablesOk tt bt) (k : Kind) (i : Nat) (b : BondV) (hb : b.btype < bt.nB) :
    bondLine bt k i (normBond bt b) = bondLine bt k i b := by
  obtain ⟨b2, hacc, _⟩ := bond_acceptStr tt bt h b.btype hb
  have hfix := allBelow_spec h.bcyc b.btype hb
  have hlt : ∀ x ∈ bt.emitCodes b.btype, x < 256 := by
    intro x hx; simp only [BondTable.emitCodes] at hx; exact unpack_lt _ _ x hx
  simp only [BondTable.acceptStr, BondTable.emitStr] at hacc
  rw [codesOf_strOf hlt] at hacc
  rw [hacc] at hfix
  simp only [beq_iff_eq] at hfix
  simp only [bondLine, normBond, BondTable.acceptStr, BondTable.emitStr, codesOf_strOf hlt, hacc, Option.getD_some, hfix]

theorem mapIdxFrom_congr {α β : Type} (f g : Nat → α → β) (l : List α) (i : Nat)
    (h : ∀ j, ∀ a ∈ l, f j a = g j a) : mapIdxFrom f i l = mapIdxFrom g i l := by
  induction l generalizing i with
  | nil => rfl
  | cons a l ih =>
    simp only [mapIdxFrom]
    rw [h i a (by simp), ih (i + 1) (fun j b hb => h j b (by simp [hb]))]

theorem mapIdxFrom_map {α β γ : Type} (f : Nat → β → γ) (g : α → β) (l : List α) (i : Nat) :
    mapIdxFrom f i (l.map g) = mapIdxFrom (fun j a => f j (g a)) i l := by
  induction l generalizing i with
  | nil => rfl
  | cons a l ih => simp only [List.map_cons, mapIdxFrom, ih]

/-- "a second write/read cycle changes nothing further": the lines written for the molecule read back
twice are the lines written for the molecule read back once. -/
theorem writeLines_normMol2 (h : TablesOk tt bt) (k : Kind) (m : MolV) (hm : Admissible tt bt m) :
    writeLines tt bt k (normMol tt bt k (normMol tt bt k m)) = writeLines tt bt k (normMol tt bt k m) := by
  have hA : mapIdxFrom (atomLine tt k) 0 ((m.atoms.map (normAtom tt k)).map (normAtom tt k)) =
      mapIdxFrom (atomLine tt k) 0 (m.atoms.map (normAtom tt k)) := by
    rw [mapIdxFrom_map, mapIdxFrom_map, mapIdxFrom_map]
    apply mapIdxFrom_congr
    intro j a ha
    exact atomLine_normAtom2 tt bt h k j a (hm.atoms a ha)
  have hB : mapIdxFrom (bondLine bt k) 0 ((m.bonds.map (normBond bt)).map (normBond bt)) =
      mapIdxFrom (bondLine bt k) 0 (m.bonds.map (normBond bt)) := by
    rw [mapIdxFrom_map, mapIdxFrom_map, mapIdxFrom_map]
    apply mapIdxFrom_congr
    intro j b hb
    have hb' : (normBond bt b).btype < bt.nB := by
      obtain ⟨b2, hacc, hlt⟩ := bond_acceptStr tt bt h b.btype (hm.bonds b hb).2.2
      simp only [normBond, hacc, Option.getD_some]; exact hlt
    exact bondLine_normBond tt bt h k j (normBond bt b) hb'
  simp only [writeLines, normMol, List.length_map, hA, hB]

/-- bond types mol2 can express are read back unchanged -/
theorem normBond_expressible (h : TablesOk tt bt) (b : BondV) (tok : Codes)
    (hex : (tok, b.btype) ∈ bt.expressible) : (normBond bt b).btype = b.btype := by
  have hall := h.bexpr
  simp only [BondTable.expressiblePreserved, List.all_eq_true] at hall
  have := hall (tok, b.btype) hex
  simp only [Bool.and_eq_true, beq_iff_eq] at this
  obtain ⟨h1, h2⟩ := this
  have hlt : ∀ x ∈ bt.emitCodes b.btype, x < 256 := by
    intro x hx; simp only [BondTable.emitCodes] at hx; exact unpack_lt _ _ x hx
  simp only [normBond, BondTable.acceptStr, BondTable.emitStr]
  rw [codesOf_strOf hlt, h1, h2]
  rfl

end

end Molli.Lemmas.Mol2Cycle
