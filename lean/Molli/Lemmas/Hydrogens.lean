/-
Combinatorial lemmas about the model of `add_implicit_hydrogens` (`Molli.Model.Hydrogens`), property C16:
one loop iteration only appends; bonds appended for one centre never touch another old atom, so the
count of every centre is the count computed on the molecule as it was before the call.
Core Lean only.
-/
import Molli.Model.Hydrogens
import Molli.Lemmas.GraphNbr
namespace Molli.Lemmas.Hydrogens
open Molli.Model.Graph Molli.Model.Hydrogens Molli.Lemmas.Graph

/-! ### sums of rationals -/

theorem rat_sum_append (l₁ l₂ : List Rat) : (l₁ ++ l₂).sum = l₁.sum + l₂.sum := by
  induction l₁ with
  | nil => simp [Rat.zero_add]
  | cons a t ih => simp [ih, Rat.add_assoc]

theorem rat_sum_replicate_one (k : Nat) : (List.replicate k (1 : Rat)).sum = (k : Rat) := by
  induction k with
  | zero => simp
  | succ k ih =>
    rw [List.replicate_succ, List.sum_cons, ih, Rat.add_comm]
    simp [Rat.natCast_add]

theorem rat_sum_ones (l : List Rat) (h : ∀ x ∈ l, x = 1) : l.sum = (l.length : Rat) := by
  have : l = List.replicate l.length 1 := List.eq_replicate_iff.2 ⟨rfl, h⟩
  rw [this, rat_sum_replicate_one]; simp

/-! ### the bonds appended for one centre -/

theorem mem_stepBonds {i n k : Nat} {b : Bond Rat} :
    b ∈ stepBonds i n k ↔ ∃ t, t < k ∧ b = ⟨i, n + t, 1⟩ := by
  unfold stepBonds
  simp only [List.mem_map, List.mem_range]
  constructor
  · rintro ⟨t, ht, rfl⟩; exact ⟨t, ht, rfl⟩
  · rintro ⟨t, ht, rfl⟩; exact ⟨t, ht, rfl⟩

theorem stepBonds_length (i n k : Nat) : (stepBonds i n k).length = k := by simp [stepBonds]

theorem stepBonds_getElem? (i n k t : Nat) (ht : t < k) : (stepBonds i n k)[t]? = some ⟨i, n + t, 1⟩ := by
  simp [stepBonds, List.getElem?_range ht]

theorem bondsWith_stepBonds_self (i n k : Nat) : bondsWith (stepBonds i n k) i = stepBonds i n k := by
  unfold bondsWith
  apply List.filter_eq_self.2
  intro b hb
  obtain ⟨t, _, rfl⟩ := mem_stepBonds.1 hb
  simp [Bond.has]

theorem bondsWith_stepBonds_other (i n k j : Nat) (hji : j ≠ i) (hj : j < n) : bondsWith (stepBonds i n k) j = [] := by
  unfold bondsWith
  apply List.filter_eq_nil_iff.2
  intro b hb
  obtain ⟨t, _, rfl⟩ := mem_stepBonds.1 hb
  simp only [Bond.has, Bool.or_eq_true, beq_iff_eq, not_or]
  exact ⟨fun h => hji h.symm, by omega⟩

theorem bondsWith_append (b₁ b₂ : List (Bond Rat)) (j : Nat) :
    bondsWith (b₁ ++ b₂) j = bondsWith b₁ j ++ bondsWith b₂ j := by
  simp [bondsWith]

theorem valence_of_bondsWith {b₁ b₂ : List (Bond Rat)} {j : Nat} {ys : List (Bond Rat)}
    (h : bondsWith b₂ j = bondsWith b₁ j ++ ys) (hy : ∀ y ∈ ys, y.attr = 1) :
    valence id b₂ j = valence id b₁ j + (ys.length : Rat) := by
  unfold valence
  rw [h, List.map_append, rat_sum_append]
  congr 1
  rw [rat_sum_ones]
  · simp
  · intro x hx
    obtain ⟨y, hy', rfl⟩ := List.mem_map.1 hx
    exact hy y hy'

/-! ### one iteration -/

section
variable {α : Type} [Add α] [Sub α] [Mul α] [Inhabited α]
variable (T : Tables) (cast : Rat → α) (G : Nat → Frame α)

theorem step_atoms (m : Mol α) (i : Nat) :
    (step T cast G m i).atoms = m.atoms.modify i HAtom.clearHint ++ List.replicate (kOf T m i) (hyd T) := rfl

theorem step_bonds (m : Mol α) (i : Nat) :
    (step T cast G m i).bonds = m.bonds ++ stepBonds i m.atoms.length (kOf T m i) := rfl

theorem step_charges (m : Mol α) (i : Nat) :
    (step T cast G m i).charges = m.charges ++ List.replicate (kOf T m i) none := rfl

theorem step_length (m : Mol α) (i : Nat) :
    (step T cast G m i).atoms.length = m.atoms.length + kOf T m i := by
  simp [step_atoms]

theorem step_atom_other (m : Mol α) (i j : Nat) (hji : j ≠ i) (hj : j < m.atoms.length) :
    (step T cast G m i).atoms[j]? = m.atoms[j]? := by
  rw [step_atoms, List.getElem?_append_left (by simpa using hj)]
  exact List.getElem?_modify_ne _ _ (Ne.symm hji)

theorem step_atom_self (m : Mol α) (i : Nat) (hi : i < m.atoms.length) :
    (step T cast G m i).atoms[i]? = (m.atoms[i]?).map HAtom.clearHint := by
  rw [step_atoms, List.getElem?_append_left (by simpa using hi)]
  exact List.getElem?_modify_eq _ _ _

theorem step_atom_new (m : Mol α) (i j : Nat) (hj : m.atoms.length ≤ j) (hj' : j < (step T cast G m i).atoms.length) :
    (step T cast G m i).atoms[j]? = some (hyd T) := by
  rw [step_length] at hj'
  rw [step_atoms, List.getElem?_append_right (by simpa using hj)]
  simp only [List.length_modify]
  exact List.getElem?_replicate_of_lt (by omega)

theorem step_bondsWith_other (m : Mol α) (i j : Nat) (hji : j ≠ i) (hj : j < m.atoms.length) :
    bondsWith (step T cast G m i).bonds j = bondsWith m.bonds j := by
  rw [step_bonds, bondsWith_append, bondsWith_stepBonds_other i _ _ j hji hj, List.append_nil]

theorem step_bondsWith_self (m : Mol α) (i : Nat) :
    bondsWith (step T cast G m i).bonds i = bondsWith m.bonds i ++ stepBonds i m.atoms.length (kOf T m i) := by
  rw [step_bonds, bondsWith_append, bondsWith_stepBonds_self]

/-- the count of another old atom is not affected by an iteration -/
theorem step_kOf_other (m : Mol α) (i j : Nat) (hji : j ≠ i) (hj : j < m.atoms.length) :
    kOf T (step T cast G m i) j = kOf T m j := by
  unfold kOf
  rw [step_atom_other T cast G m i j hji hj]
  have : valence id (step T cast G m i).bonds j = valence id m.bonds j := by
    unfold valence; rw [step_bondsWith_other T cast G m i j hji hj]
  rw [this]

/-! ### the loop -/

theorem addHSeq_cons (c : Nat) (cs : List Nat) (m : Mol α) :
    addHSeq T cast G (c :: cs) m = addHSeq T cast G cs (step T cast G m c) := rfl

theorem addHSeq_length_le (cs : List Nat) : ∀ m : Mol α, m.atoms.length ≤ (addHSeq T cast G cs m).atoms.length := by
  induction cs with
  | nil => intro m; exact Nat.le_refl _
  | cons c cs ih =>
    intro m
    rw [addHSeq_cons]
    have := ih (step T cast G m c)
    rw [step_length] at this
    omega

/-- incident bonds of an old atom after the loop: the old ones, followed by exactly `kOf` (computed on
the molecule BEFORE the loop) new single bonds that start at it and end at new atoms — if it is one of
the processed atoms; nothing otherwise. -/
theorem addHSeq_bondsWith (cs : List Nat) : ∀ (m : Mol α), cs.Nodup → (∀ c ∈ cs, c < m.atoms.length) →
    ∀ j, j < m.atoms.length →
    ∃ ys, bondsWith (addHSeq T cast G cs m).bonds j = bondsWith m.bonds j ++ ys ∧
      ys.length = (if j ∈ cs then kOf T m j else 0) ∧
      ∀ y ∈ ys, y.a1 = j ∧ y.attr = 1 ∧ m.atoms.length ≤ y.a2 := by
  induction cs with
  | nil => intro m _ _ j _; exact ⟨[], by simp [addHSeq], by simp, by simp⟩
  | cons c cs ih =>
    intro m hnd hb j hj
    rw [List.nodup_cons] at hnd
    rw [addHSeq_cons]
    have hlen := step_length T cast G m c
    have hb' : ∀ c' ∈ cs, c' < (step T cast G m c).atoms.length := by
      intro c' hc'; have := hb c' (List.mem_cons_of_mem _ hc'); omega
    obtain ⟨ys', h1, h2, h3⟩ := ih (step T cast G m c) hnd.2 hb' j (by omega)
    by_cases hjc : j = c
    · subst hjc
      refine ⟨stepBonds j m.atoms.length (kOf T m j) ++ ys', ?_, ?_, ?_⟩
      · rw [h1, step_bondsWith_self, List.append_assoc]
      · rw [if_neg hnd.1] at h2
        simp [stepBonds_length, List.length_eq_zero_iff.1 h2]
      · intro y hy
        rcases List.mem_append.1 hy with hy | hy
        · obtain ⟨t, _, rfl⟩ := mem_stepBonds.1 hy
          exact ⟨rfl, rfl, by simp⟩
        · have := h3 y hy; exact ⟨this.1, this.2.1, by omega⟩
    · refine ⟨ys', ?_, ?_, ?_⟩
      · rw [h1, step_bondsWith_other T cast G m c j hjc hj]
      · rw [h2, step_kOf_other T cast G m c j hjc hj]
        simp [hjc]
      · intro y hy; have := h3 y hy; exact ⟨this.1, this.2.1, by omega⟩

/-- old atoms after the loop: unchanged, except that the hint of a processed atom has been consumed -/
theorem addHSeq_old_atoms (cs : List Nat) : ∀ (m : Mol α), (∀ c ∈ cs, c < m.atoms.length) →
    ∀ j, j < m.atoms.length →
    (addHSeq T cast G cs m).atoms[j]? = (m.atoms[j]?).map (fun a => if j ∈ cs then a.clearHint else a) := by
  induction cs with
  | nil => intro m _ j _; simp [addHSeq]
  | cons c cs ih =>
    intro m hb j hj
    rw [addHSeq_cons]
    have hlen := step_length T cast G m c
    have hb' : ∀ c' ∈ cs, c' < (step T cast G m c).atoms.length := by
      intro c' hc'; have := hb c' (List.mem_cons_of_mem _ hc'); omega
    rw [ih (step T cast G m c) hb' j (by omega)]
    by_cases hjc : j = c
    · subst hjc
      rw [step_atom_self T cast G m j hj]
      cases m.atoms[j]? with
      | none => rfl
      | some a => by_cases h : j ∈ cs <;> simp [h, HAtom.clearHint]
    · rw [step_atom_other T cast G m c j hjc hj]
      simp [hjc]

/-- atoms beyond the old length are hydrogens -/
theorem addHSeq_new_atoms (cs : List Nat) : ∀ (m : Mol α), (∀ c ∈ cs, c < m.atoms.length) →
    ∀ j, m.atoms.length ≤ j → j < (addHSeq T cast G cs m).atoms.length →
    (addHSeq T cast G cs m).atoms[j]? = some (hyd T) := by
  induction cs with
  | nil => intro m _ j h1 h2; simp [addHSeq] at h2; omega
  | cons c cs ih =>
    intro m hb j h1 h2
    rw [addHSeq_cons] at h2 ⊢
    have hlen := step_length T cast G m c
    have hb' : ∀ c' ∈ cs, c' < (step T cast G m c).atoms.length := by
      intro c' hc'; have := hb c' (List.mem_cons_of_mem _ hc'); omega
    by_cases hj : j < (step T cast G m c).atoms.length
    · have hold := addHSeq_old_atoms T cast G cs (step T cast G m c) hb' j hj
      rw [hold, step_atom_new T cast G m c j h1 hj]
      by_cases h : j ∈ cs <;> simp [h, HAtom.clearHint, hyd]
    · exact ih (step T cast G m c) hb' j (by omega) h2

/-- the bond list after the loop: the old list, then one bond per new atom, the `t`-th new bond joining
a processed atom to the `t`-th new atom with order 1 -/
theorem addHSeq_bonds (cs : List Nat) : ∀ (m : Mol α),
    ∃ X, (addHSeq T cast G cs m).bonds = m.bonds ++ X ∧
      m.atoms.length + X.length = (addHSeq T cast G cs m).atoms.length ∧
      ∀ t, t < X.length → ∃ c ∈ cs, X[t]? = some ⟨c, m.atoms.length + t, 1⟩ := by
  induction cs with
  | nil => intro m; exact ⟨[], by simp [addHSeq], by simp [addHSeq], by simp⟩
  | cons c cs ih =>
    intro m
    rw [addHSeq_cons]
    obtain ⟨X', h1, h2, h3⟩ := ih (step T cast G m c)
    have hlen := step_length T cast G m c
    refine ⟨stepBonds c m.atoms.length (kOf T m c) ++ X', ?_, ?_, ?_⟩
    · rw [h1, step_bonds, List.append_assoc]
    · rw [← h2, hlen]; simp [stepBonds_length]; omega
    · intro t ht
      by_cases htk : t < kOf T m c
      · refine ⟨c, by simp, ?_⟩
        rw [List.getElem?_append_left (by simpa [stepBonds_length] using htk)]
        exact stepBonds_getElem? c _ _ t htk
      · simp only [List.length_append, stepBonds_length] at ht
        obtain ⟨c', hc', hx⟩ := h3 (t - kOf T m c) (by omega)
        refine ⟨c', List.mem_cons_of_mem _ hc', ?_⟩
        rw [List.getElem?_append_right (by simp [stepBonds_length]; omega), stepBonds_length, hx, hlen]
        congr 2
        omega

/-- partial charges after the loop: the old ones, then one entry per new atom -/
theorem addHSeq_charges (cs : List Nat) : ∀ (m : Mol α),
    ∃ K, (addHSeq T cast G cs m).charges = m.charges ++ List.replicate K none ∧
      m.atoms.length + K = (addHSeq T cast G cs m).atoms.length := by
  induction cs with
  | nil => intro m; exact ⟨0, by simp [addHSeq], by simp [addHSeq]⟩
  | cons c cs ih =>
    intro m
    rw [addHSeq_cons]
    obtain ⟨K, h1, h2⟩ := ih (step T cast G m c)
    refine ⟨kOf T m c + K, ?_, ?_⟩
    · rw [h1, step_charges, List.append_assoc, List.replicate_append_replicate]
    · rw [← h2, step_length]; omega

/-- a loop all of whose iterations add nothing and consume nothing is the identity -/
theorem addHSeq_noop (cs : List Nat) (m : Mol α)
    (h : ∀ c ∈ cs, kOf T m c = 0 ∧ ∀ a, m.atoms[c]? = some a → a.hint = none) :
    addHSeq T cast G cs m = m := by
  induction cs with
  | nil => rfl
  | cons c cs ih =>
    rw [addHSeq_cons]
    have hc := h c (by simp)
    have hs : step T cast G m c = m := by
      have hat : m.atoms.modify c HAtom.clearHint = m.atoms := by
        apply List.ext_getElem?
        intro j
        by_cases hj : c = j
        · subst hj
          rw [List.getElem?_modify_eq]
          cases ha : m.atoms[c]? with
          | none => rfl
          | some a =>
            have := hc.2 a ha
            simp [HAtom.clearHint, ← this]
        · rw [List.getElem?_modify_ne _ _ hj]
      cases m with
      | mk atoms bonds coords charges =>
        simp only [step, hc.1, stepBonds, placeH, List.range_zero, List.map_nil, List.append_nil,
          List.replicate_zero] at hat ⊢
        simp only [Mol.mk.injEq, and_true]
        exact hat
    rw [hs]
    exact ih (fun c' hc' => h c' (List.mem_cons_of_mem _ hc'))

end
end Molli.Lemmas.Hydrogens
