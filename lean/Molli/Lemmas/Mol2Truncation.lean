/-
Truncation of a mol2 text written by molli at a line boundary (C10): the reader rejects it or returns
exactly the molecules that are complete — a prefix of the undamaged file's molecules, never a partial one.
Parametric in the typing tables.
-/
import Molli.Lemmas.Mol2Values
namespace Molli.Lemmas.Mol2Truncation
open Molli.Model.Text Molli.Model.Mol2Types Molli.Model.Mol2
open Molli.Lemmas.Text Molli.Lemmas.Num Molli.Lemmas.Mol2Types Molli.Lemmas.Mol2Reader Molli.Lemmas.Mol2RoundTrip
open Molli.Lemmas.Mol2Values

/-! ### generic facts -/

theorem takeLines_short : ∀ (n : Nat) (ls : List Str), ls.length < n → takeLines n ls = .error .eof := by
  intro n
  induction n with
  | zero => intro ls h; omega
  | succ n ih =>
    intro ls h
    cases ls with
    | nil => rfl
    | cons l ls =>
      simp only [List.length_cons] at h
      simp only [takeLines, ih ls (by omega)]

/-- a block with a missing section: `yield_from_mol2` raises on it -/
def Bad (b : Block) : Prop := b.atoms = none ∨ b.bonds = none

theorem flushFinal_cases (st : RSt) : (∃ e, flushFinal st = .error e) ∨ flushFinal st = .ok (flush st) := by
  unfold flushFinal flush
  cases st.hdr with
  | none => left; exact ⟨_, rfl⟩
  | some h => right; rfl

theorem mapE_append_bad {α β : Type} (f : α → Except Err β) (xs : List α) (b : α) (hb : ∃ e, f b = .error e) :
    ∃ e, mapE f (xs ++ [b]) = .error e := by
  induction xs with
  | nil =>
    obtain ⟨e, he⟩ := hb
    exact ⟨e, by simp only [List.nil_append, mapE, he]⟩
  | cons x xs ih =>
    obtain ⟨e, he⟩ := ih
    simp only [List.cons_append, mapE, he]
    cases f x with
    | error e' => exact ⟨e', rfl⟩
    | ok y => exact ⟨e, rfl⟩

section
variable (tt : TypeTable) (bt : BondTable)

theorem buildMol_bad (k : Kind) (name : Option Str) (b : Block) (hb : Bad b) :
    ∃ e, buildMol tt bt k name b = .error e := by
  obtain ⟨hd, a, bo⟩ := b
  unfold buildMol
  split
  · exact ⟨_, rfl⟩
  · rcases hb with hb | hb
    · simp only at hb
      subst hb
      exact ⟨_, rfl⟩
    · simp only at hb
      subst hb
      cases a <;> exact ⟨_, rfl⟩

/-! ### the lines of one written molecule, in sections -/

def cLine : Str := "# Produced with molli package".toList
def mLine : Str := "@<TRIPOS>MOLECULE".toList
def aLine : Str := "@<TRIPOS>ATOM".toList
def bLine : Str := "@<TRIPOS>BOND".toList

def hdr5 (m : MolV) : List Str :=
  [m.name, pyStrip (natStr m.atoms.length ++ sp ++ natStr m.bonds.length ++ " 0 0 0".toList),
    "SMALL".toList, "USER_CHARGES".toList, []]

def aL (k : Kind) (m : MolV) : List Str := (mapIdxFrom (atomLine tt k) 0 m.atoms).map pyStrip
def bL (k : Kind) (m : MolV) : List Str := (mapIdxFrom (bondLine bt k) 0 m.bonds).map pyStrip

theorem aL_length (k : Kind) (m : MolV) : (aL tt k m).length = m.atoms.length := by
  simp only [aL, List.length_map, mapIdxFrom_length]

theorem bL_length (k : Kind) (m : MolV) : (bL bt k m).length = m.bonds.length := by
  simp only [bL, List.length_map, mapIdxFrom_length]

theorem hdr5_length (m : MolV) : (hdr5 m).length = 5 := rfl

theorem sLines_eq (k : Kind) (m : MolV) (hm : Admissible tt bt m) :
    sLines tt bt k m = cLine :: mLine :: (hdr5 m ++ (aLine :: (aL tt k m ++ (bLine :: bL bt k m)))) := by
  have e1 : pyStrip "# Produced with molli package".toList = "# Produced with molli package".toList := by decide
  have e2 : pyStrip "@<TRIPOS>MOLECULE".toList = "@<TRIPOS>MOLECULE".toList := by decide
  have e3 : pyStrip "SMALL".toList = "SMALL".toList := by decide
  have e4 : pyStrip "USER_CHARGES".toList = "USER_CHARGES".toList := by decide
  have e5 : pyStrip [] = [] := by decide
  have e6 : pyStrip "@<TRIPOS>ATOM".toList = "@<TRIPOS>ATOM".toList := by decide
  have e7 : pyStrip "@<TRIPOS>BOND".toList = "@<TRIPOS>BOND".toList := by decide
  unfold cLine mLine aLine bLine hdr5 aL bL
  simp only [sLines, writeLines, List.map_cons, List.map_append, e1, e2, e3, e4, e5, e6, e7,
    hm.name_strip, List.cons_append, List.nil_append, List.append_assoc]

/-- reader state after the header -/
def st1 (m : MolV) : RSt := ⟨some (headerOf m), none, none, false⟩
/-- reader state after the ATOM section -/
def st2 (k : Kind) (m : MolV) : RSt := ⟨some (headerOf m), some (atomRecs tt k 0 m.atoms), none, false⟩

theorem step_comment (st : RSt) (ls : List Str) : step st cLine ls = .ok ([], st, ls) := by
  unfold cLine
  simp only [step]; rw [if_neg (by decide), if_pos (by decide)]

theorem step_molecule_ok (st : RSt) (m : MolV) (rest5 : List Str) :
    step st mLine (hdr5 m ++ rest5) = .ok (flush st, st1 m, rest5) := by
  unfold mLine
  simp only [step]
  rw [if_neg (by decide), if_neg (by decide)]
  have ht : triposTag "@<TRIPOS>MOLECULE".toList = some "MOLECULE".toList := by decide
  rw [ht]
  simp only [if_true]
  have htl := takeLines_append (hdr5 m) rest5
  rw [hdr5_length] at htl
  rw [htl]
  simp only [hdr5, countsLine_parse]
  have hn : (triposTag ([] : Str)).isSome = false := by decide
  have hs : ¬ (([] : Str) = star4) := by decide
  simp only [hn, hs, if_false, Bool.false_eq_true, headerOf, st1]

theorem step_molecule_short (st : RSt) (ls : List Str) (hl : ls.length < 5) :
    step st mLine ls = .error .eof := by
  unfold mLine
  simp only [step]
  rw [if_neg (by decide), if_neg (by decide)]
  have ht : triposTag "@<TRIPOS>MOLECULE".toList = some "MOLECULE".toList := by decide
  rw [ht]
  simp only [if_true]
  rw [takeLines_short 5 ls hl]

theorem step_atom_ok (h : TablesOk tt bt) (k : Kind) (m : MolV) (hm : Admissible tt bt m) (rest : List Str) :
    step (st1 m) aLine (aL tt k m ++ rest) = .ok ([], st2 tt k m, rest) := by
  unfold aLine st1
  simp only [step]
  rw [if_neg (by decide), if_neg (by decide)]
  have ht : triposTag "@<TRIPOS>ATOM".toList = some "ATOM".toList := by decide
  rw [ht]
  have hne : ¬ ("ATOM".toList = "MOLECULE".toList) := by decide
  simp only [hne, if_false, if_true]
  have hlen : (aL tt k m).length = (headerOf m).nAtoms.toNat := by
    simp only [headerOf, aL_length, Int.toNat_natCast]
  rw [← hlen, takeLines_append]
  simp only [aL, mapE_atomLines tt bt h k m.atoms hm.atoms 0, st2]

theorem step_atom_short (m : MolV) (ls : List Str) (hl : ls.length < m.atoms.length) :
    step (st1 m) aLine ls = .error .eof := by
  unfold aLine st1
  simp only [step]
  rw [if_neg (by decide), if_neg (by decide)]
  have ht : triposTag "@<TRIPOS>ATOM".toList = some "ATOM".toList := by decide
  rw [ht]
  have hne : ¬ ("ATOM".toList = "MOLECULE".toList) := by decide
  simp only [hne, if_false, if_true]
  rw [takeLines_short _ ls (by simp only [headerOf, Int.toNat_natCast]; exact hl)]

theorem step_bond_short (k : Kind) (m : MolV) (ls : List Str) (hl : ls.length < m.bonds.length) :
    step (st2 tt k m) bLine ls = .error .eof := by
  unfold bLine st2
  simp only [step]
  rw [if_neg (by decide), if_neg (by decide)]
  have ht : triposTag "@<TRIPOS>BOND".toList = some "BOND".toList := by decide
  rw [ht]
  have hne : ¬ ("BOND".toList = "MOLECULE".toList) := by decide
  have hne2 : ¬ ("BOND".toList = "ATOM".toList) := by decide
  simp only [hne, hne2, if_false, if_true, headerOf]
  rw [takeLines_short _ ls (by simp only [Int.toNat_natCast]; exact hl)]

/-! ### a truncated molecule -/

/-- the cut falls at or after the `@<TRIPOS>ATOM` line: the reader fails or ends with an incomplete block -/
theorem readLoop_tail (h : TablesOk tt bt) (k : Kind) (m : MolV) (hm : Admissible tt bt m) :
    ∀ (q f : Nat), q < (aLine :: (aL tt k m ++ (bLine :: bL bt k m))).length → q < f →
      (∃ e, readLoop f (st1 m) ((aLine :: (aL tt k m ++ (bLine :: bL bt k m))).take q) = .error e) ∨
      (∃ b, Bad b ∧ readLoop f (st1 m) ((aLine :: (aL tt k m ++ (bLine :: bL bt k m))).take q) = .ok [b]) := by
  intro q f hq hf
  simp only [List.length_cons, List.length_append, aL_length, bL_length] at hq
  cases q with
  | zero =>
    right
    obtain ⟨g, rfl⟩ : ∃ g, f = g + 1 := ⟨f - 1, by omega⟩
    rw [List.take_zero, readLoop_nil]
    exact ⟨⟨headerOf m, none, none⟩, Or.inl rfl, rfl⟩
  | succ r =>
    obtain ⟨g, rfl⟩ : ∃ g, f = g + 1 := ⟨f - 1, by omega⟩
    rw [List.take_succ_cons, readLoop_step]
    by_cases hr : r < m.atoms.length
    · left
      rw [List.take_append_of_le_length (by rw [aL_length]; omega)]
      rw [step_atom_short m _ (by rw [List.length_take, aL_length]; omega)]
      exact ⟨_, rfl⟩
    · rw [List.take_append, List.take_of_length_le (by rw [aL_length]; omega), aL_length]
      rw [step_atom_ok tt bt h k m hm, cont_nil]
      obtain ⟨g', rfl⟩ : ∃ g', g = g' + 1 := ⟨g - 1, by omega⟩
      cases hs : r - m.atoms.length with
      | zero =>
        right
        rw [List.take_zero, readLoop_nil]
        exact ⟨⟨headerOf m, some (atomRecs tt k 0 m.atoms), none⟩, Or.inr rfl, rfl⟩
      | succ s =>
        left
        rw [List.take_succ_cons, readLoop_step,
          step_bond_short tt k m _ (by rw [List.length_take, bL_length]; omega)]
        exact ⟨_, rfl⟩

/-- what the reader may return: failure, or the pending block and `pre`, possibly followed by one incomplete block -/
def Res (st : RSt) (pre : List Block) (r : Except Err (List Block)) : Prop :=
  (∃ e, r = .error e) ∨ r = .ok (flush st ++ pre) ∨ ∃ b, Bad b ∧ r = .ok (flush st ++ pre ++ [b])

/-- the first `p` lines of one written molecule (a proper prefix), then end of input -/
theorem readLoop_prefix (h : TablesOk tt bt) (k : Kind) (m : MolV) (hm : Admissible tt bt m) (st : RSt) :
    ∀ (p fuel : Nat), p < (sLines tt bt k m).length → p < fuel →
      Res st [] (readLoop fuel st ((sLines tt bt k m).take p)) := by
  intro p fuel hp hfuel
  rw [sLines_eq tt bt k m hm] at hp ⊢
  obtain ⟨f, rfl⟩ : ∃ f, fuel = f + 1 := ⟨fuel - 1, by omega⟩
  have hfin : ∀ g, Res st [] (readLoop (g + 1) st []) := by
    intro g
    rw [readLoop_nil]
    rcases flushFinal_cases st with he | hok
    · exact Or.inl he
    · exact Or.inr (Or.inl (by rw [hok, List.append_nil]))
  cases p with
  | zero => rw [List.take_zero]; exact hfin f
  | succ p =>
    rw [List.take_succ_cons, readLoop_step, step_comment, cont_nil]
    obtain ⟨f', rfl⟩ : ∃ f', f = f' + 1 := ⟨f - 1, by omega⟩
    cases p with
    | zero => rw [List.take_zero]; exact hfin f'
    | succ p =>
      rw [List.take_succ_cons, readLoop_step]
      by_cases h5 : p < 5
      · left
        rw [step_molecule_short st _ (by rw [List.length_take]; omega)]
        exact ⟨_, rfl⟩
      · rw [List.take_append, List.take_of_length_le (by rw [hdr5_length]; omega), hdr5_length,
          step_molecule_ok]
        simp only [List.length_cons, List.length_append, hdr5_length, aL_length, bL_length] at hp
        have ht := readLoop_tail tt bt h k m hm (p - 5) f'
          (by simp only [List.length_cons, List.length_append, aL_length, bL_length]; omega) (by omega)
        rcases ht with ⟨e, he⟩ | ⟨b, hb, he⟩
        · left; exact ⟨e, by simp only [cont, he]⟩
        · right; right
          exact ⟨b, hb, by simp only [cont, he, List.append_nil]⟩

/-! ### several molecules -/

theorem readLoop_take_many (h : TablesOk tt bt) (k : Kind) :
    ∀ (ms : List MolV), (∀ x ∈ ms, Admissible tt bt x) → ∀ (n : Nat) (st : RSt) (fuel : Nat),
      ((ms.flatMap (sLines tt bt k)).take n).length < fuel →
      ∃ j, j ≤ ms.length ∧
        Res st ((ms.take j).map (blockOf tt bt k)) (readLoop fuel st ((ms.flatMap (sLines tt bt k)).take n)) := by
  intro ms
  induction ms with
  | nil =>
    intro _ n st fuel hfuel
    refine ⟨0, Nat.le_refl _, ?_⟩
    obtain ⟨f, rfl⟩ : ∃ f, fuel = f + 1 := ⟨fuel - 1, by omega⟩
    simp only [List.flatMap_nil, List.take_nil, List.map_nil]
    rw [readLoop_nil]
    rcases flushFinal_cases st with he | hok
    · exact Or.inl he
    · exact Or.inr (Or.inl (by rw [hok, List.append_nil]))
  | cons m ms ih =>
    intro hm n st fuel hfuel
    have hadm := hm m (by simp)
    by_cases hk : (sLines tt bt k m).length ≤ n
    · have htake : ((m :: ms).flatMap (sLines tt bt k)).take n =
          sLines tt bt k m ++ (ms.flatMap (sLines tt bt k)).take (n - (sLines tt bt k m).length) := by
        simp only [List.flatMap_cons]
        rw [List.take_append, List.take_of_length_le hk]
      rw [htake] at hfuel ⊢
      simp only [List.length_append] at hfuel
      have h4 := sLines_length_ge tt bt k m
      obtain ⟨f, rfl⟩ : ∃ f, fuel = f + 4 := ⟨fuel - 4, by omega⟩
      rw [readLoop_sLines tt bt h k m hadm st _ f]
      obtain ⟨j, hj, hr⟩ := ih (fun x hx => hm x (by simp [hx])) (n - (sLines tt bt k m).length)
        (stOf tt bt k m) f (by omega)
      refine ⟨j + 1, by simp only [List.length_cons]; omega, ?_⟩
      rcases hr with ⟨e, he⟩ | he | ⟨b, hb, he⟩
      · left; exact ⟨e, by rw [he]⟩
      · right; left
        rw [he]
        simp only [flush_stOf, List.take_succ_cons, List.map_cons, List.singleton_append]
      · right; right
        refine ⟨b, hb, ?_⟩
        rw [he]
        simp only [flush_stOf, List.take_succ_cons, List.map_cons, List.append_assoc,
          List.cons_append, List.nil_append]
    · have htake : ((m :: ms).flatMap (sLines tt bt k)).take n = (sLines tt bt k m).take n := by
        simp only [List.flatMap_cons]
        rw [List.take_append_of_le_length (by omega)]
      rw [htake] at hfuel ⊢
      rw [List.length_take] at hfuel
      refine ⟨0, Nat.zero_le _, ?_⟩
      simp only [List.take_zero, List.map_nil]
      exact readLoop_prefix tt bt h k m hadm st n fuel (by omega) (by omega)

/-- "for every truncation point (all line boundaries)": the text of any number of written molecules,
cut after any number `n` of lines, is rejected or gives exactly the first `j` molecules, content-equal
to what the undamaged text gives. -/
theorem loadsAll_take_lines (h : TablesOk tt bt) (k : Kind) (ms : List MolV)
    (hm : ∀ x ∈ ms, Admissible tt bt x) (n : Nat) :
    (∃ j, j ≤ ms.length ∧
      loadsAll tt bt k none (joinLines ((ms.flatMap (writeLines tt bt k)).take n)) =
        .ok ((ms.take j).map (normMol tt bt k))) ∨
    (∃ e, loadsAll tt bt k none (joinLines ((ms.flatMap (writeLines tt bt k)).take n)) = .error e) := by
  have hnl : ∀ l ∈ (ms.flatMap (writeLines tt bt k)).take n, '\n' ∉ l := by
    intro l hl
    have hl' := List.mem_of_mem_take hl
    simp only [List.mem_flatMap] at hl'
    obtain ⟨x, hx, hl'⟩ := hl'
    exact writeLines_no_nl tt bt h k x (hm x hx) l hl'
  have hmap : ((ms.flatMap (writeLines tt bt k)).take n).map pyStrip = (ms.flatMap (sLines tt bt k)).take n := by
    rw [List.map_take, List.map_flatMap]; rfl
  have hL : loadsAll tt bt k none (joinLines ((ms.flatMap (writeLines tt bt k)).take n)) =
      (match readLoop (((ms.flatMap (sLines tt bt k)).take n).length + 1) RSt.init
          ((ms.flatMap (sLines tt bt k)).take n) with
       | .error e => .error e
       | .ok bs => mapE (buildMol tt bt k none) bs) := by
    simp only [loadsAll, readBlocks]
    rw [splitLines_joinLines _ hnl, hmap]
    rfl
  rw [hL]
  obtain ⟨j, hj, hr⟩ := readLoop_take_many tt bt h k ms hm n RSt.init _ (Nat.lt_succ_self _)
  rcases hr with ⟨e, he⟩ | he | ⟨b, hb, he⟩
  · right; exact ⟨e, by rw [he]⟩
  · left
    refine ⟨j, hj, ?_⟩
    rw [he]
    simp only [flush_init, List.nil_append]
    exact mapE_buildMol tt bt h k (ms.take j) (fun x hx => hm x (List.mem_of_mem_take hx))
  · right
    rw [he]
    simp only [flush_init, List.nil_append]
    exact mapE_append_bad _ _ b (buildMol_bad tt bt k none b hb)

end

end Molli.Lemmas.Mol2Truncation
