/-
Helper lemmas for C17: association-list dictionaries, frame lemmas for the command loop, the shape of
the executed prefix.  Core Lean only.
-/
import Molli.Model.Job
namespace Molli.Lemmas.Job
open Molli.Util Molli.Model.Job

/-! ### dictionaries -/
section dict
variable {β : Type}

theorem dget_nil (k : String) : dget ([] : List (String × β)) k = none := rfl

theorem dget_dset_self (d : List (String × β)) (k : String) (v : β) : dget (dset d k v) k = some v := by
  simp [dget, dset]

theorem dget_filter_ne (d : List (String × β)) (k k' : String) (h : k' ≠ k) :
    dget (d.filter (fun e => !(e.1 == k))) k' = dget d k' := by
  have hfun : (fun (a : String × β) => decide ((!a.fst == k) = true ∧ (a.fst == k') = true)) = (fun e => e.1 == k') := by
    funext e
    by_cases hk : e.1 = k'
    · simp [hk, h]
    · simp [hk]
  simp only [dget, List.find?_filter, hfun]

theorem dget_dset_ne (d : List (String × β)) (k k' : String) (v : β) (h : k' ≠ k) :
    dget (dset d k v) k' = dget d k' := by
  have hb : (k == k') = false := by simpa using (fun h' : k = k' => h h'.symm)
  have := dget_filter_ne d k k' h
  simp only [dget, dset, List.find?_cons, hb] at this ⊢
  exact this

theorem dget_ddel_ne (d : List (String × β)) (k k' : String) (h : k' ≠ k) :
    dget (ddel d k) k' = dget d k' := dget_filter_ne d k k' h

theorem dhas_eq_isSome (d : List (String × β)) (k : String) : dhas d k = (dget d k).isSome := by
  induction d with
  | nil => rfl
  | cons e d ih =>
    simp only [dhas, dget, List.any_cons, List.find?_cons] at ih ⊢
    by_cases hk : e.1 = k
    · simp [hk]
    · have : (e.1 == k) = false := by simpa using hk
      simp [this]
      simpa using ih

/-- folding `dset` over pairs with distinct keys: every pair can be read back, nothing else is there -/
theorem dget_foldl_dset_mem (l : List (String × β)) (acc : List (String × β)) (k : String) (v : β)
    (hnd : (l.map (·.1)).Nodup) (hm : (k, v) ∈ l) :
    dget (l.foldl (fun d c => dset d c.1 c.2) acc) k = some v := by
  induction l generalizing acc with
  | nil => cases hm
  | cons e l ih =>
    simp only [List.map_cons, List.nodup_cons] at hnd
    simp only [List.foldl_cons]
    rcases List.mem_cons.mp hm with rfl | hm
    · -- the key is set now and never again
      clear ih
      have hk : ∀ c ∈ l, c.1 ≠ k := fun c hc h => hnd.1 (List.mem_map.mpr ⟨c, hc, h⟩)
      suffices ∀ (l : List (String × β)) (acc : List (String × β)), (∀ c ∈ l, c.1 ≠ k) → dget acc k = some v →
          dget (l.foldl (fun d c => dset d c.1 c.2) acc) k = some v from
        this l _ hk (dget_dset_self _ _ _)
      intro l
      induction l with
      | nil => intro acc _ h; exact h
      | cons c l ih2 =>
        intro acc hk h
        simp only [List.foldl_cons]
        apply ih2 _ (fun c' hc' => hk c' (by simp [hc']))
        rw [dget_dset_ne _ _ _ _ (fun h' => hk c (by simp) h'.symm)]
        exact h
    · exact ih _ hnd.2 hm

theorem dget_foldl_dset_not_mem (l : List (String × β)) (acc : List (String × β)) (k : String)
    (hm : k ∉ l.map (·.1)) :
    dget (l.foldl (fun d c => dset d c.1 c.2) acc) k = dget acc k := by
  induction l generalizing acc with
  | nil => rfl
  | cons e l ih =>
    simp only [List.map_cons, List.mem_cons, not_or] at hm
    simp only [List.foldl_cons]
    rw [ih _ hm.2, dget_dset_ne _ _ _ _ hm.1]

end dict

/-! ### collecting the requested files -/

theorem dget_collect_aux (fs : FS) (req : List String) (acc : List (String × Bytes)) (k : String) :
    dget (req.foldl (collectStep fs) acc) k =
      if k ∈ req then (match dget fs k with | some b => some b | none => dget acc k) else dget acc k := by
  induction req generalizing acc with
  | nil => simp
  | cons f req ih =>
    simp only [List.foldl_cons]
    rw [ih]
    by_cases hkf : k = f
    · subst hkf
      cases hfs : dget fs k with
      | none => simp [collectStep, hfs]
      | some b => simp [collectStep, hfs, dget_dset_self]
    · have hmem : (k ∈ f :: req) ↔ k ∈ req := by simp [hkf]
      cases hfs : dget fs f with
      | none => simp only [hmem, collectStep, hfs]
      | some b => simp only [hmem, collectStep, hfs, dget_dset_ne _ _ _ _ hkf]

/-- a requested file is returned iff it exists at the end, with exactly its final bytes; nothing else is returned -/
theorem dget_collect (fs : FS) (req : List String) (k : String) :
    dget (collect fs req) k = if k ∈ req then dget fs k else none := by
  unfold collect
  rw [dget_collect_aux]
  cases dget fs k <;> simp [dget_nil]

/-! ### effects and the command loop -/

def target : Effect → String
  | .write n _ => n
  | .copy _ d => d
  | .remove n => n
  | .dumpEnv _ d => d

theorem applyEffect_frame (env : Env) (fs : FS) (e : Effect) (f : String) (h : f ≠ target e) :
    dget (applyEffect env fs e) f = dget fs f := by
  cases e with
  | write n d => exact dget_dset_ne _ _ _ _ h
  | copy s d =>
    simp only [applyEffect]
    cases dget fs s with
    | none => rfl
    | some b => exact dget_dset_ne _ _ _ _ h
  | remove n => exact dget_ddel_ne _ _ _ h
  | dumpEnv v d => exact dget_dset_ne _ _ _ _ h

theorem effects_frame (env : Env) (fs : FS) (es : List Effect) (f : String) (h : ∀ e ∈ es, f ≠ target e) :
    dget (es.foldl (applyEffect env) fs) f = dget fs f := by
  induction es generalizing fs with
  | nil => rfl
  | cons e es ih =>
    simp only [List.foldl_cons]
    rw [ih _ (fun e' he' => h e' (by simp [he'])), applyEffect_frame _ _ _ _ (h e (by simp))]

/-- the capture files of a command list -/
def capFiles (cmds : List (Option String × Outcome)) : List String :=
  (namesOf cmds).flatMap fun n => [n ++ ".out", n ++ ".err"]

theorem capFiles_cons_none (o : Outcome) (rest : List (Option String × Outcome)) :
    capFiles ((none, o) :: rest) = capFiles rest := by
  simp [capFiles, namesOf]

theorem capFiles_cons_some (n : String) (o : Outcome) (rest : List (Option String × Outcome)) :
    capFiles ((some n, o) :: rest) = (n ++ ".out") :: (n ++ ".err") :: capFiles rest := by
  simp [capFiles, namesOf]

/-- a file that is neither a capture file of the command nor a target of its effects is left alone -/
theorem runOne_frame (env : Env) (fs : FS) (n : Option String) (o : Outcome) (f : String)
    (hcap : f ∉ capFiles [(n, o)]) (heff : ∀ e ∈ o.effects, f ≠ target e) :
    dget (runOne env fs n o) f = dget fs f := by
  cases n with
  | none => exact effects_frame env fs _ f heff
  | some nm =>
    rw [capFiles_cons_some] at hcap
    simp only [List.mem_cons, not_or] at hcap
    simp only [runOne]
    rw [dget_dset_ne _ _ _ _ hcap.2.1, dget_dset_ne _ _ _ _ hcap.1, effects_frame env _ _ f heff,
      dget_dset_ne _ _ _ _ hcap.2.1, dget_dset_ne _ _ _ _ hcap.1]

theorem runOne_captured (env : Env) (fs : FS) (nm : String) (o : Outcome) (hne : nm ++ ".out" ≠ nm ++ ".err") :
    dget (runOne env fs (some nm) o) (nm ++ ".out") = some o.out ∧
    dget (runOne env fs (some nm) o) (nm ++ ".err") = some o.err := by
  simp only [runOne]
  exact ⟨by rw [dget_dset_ne _ _ _ _ hne, dget_dset_self], dget_dset_self _ _ _⟩

theorem exec_frame (env : Env) (fs : FS) (cmds : List (Option String × Outcome)) (f : String)
    (hcap : f ∉ capFiles cmds) (heff : ∀ c ∈ cmds, ∀ e ∈ c.2.effects, f ≠ target e) :
    dget (exec env fs cmds).1 f = dget fs f := by
  induction cmds generalizing fs with
  | nil => rfl
  | cons c rest ih =>
    obtain ⟨n, o⟩ := c
    have hcap1 : f ∉ capFiles [(n, o)] ∧ f ∉ capFiles rest := by
      cases n with
      | none => rw [capFiles_cons_none] at hcap ⊢; exact ⟨by simp [capFiles, namesOf], hcap⟩
      | some nm =>
        rw [capFiles_cons_some] at hcap
        rw [capFiles_cons_some]
        simp only [List.mem_cons, not_or] at hcap ⊢
        exact ⟨⟨hcap.1, hcap.2.1, by simp [capFiles, namesOf]⟩, hcap.2.2⟩
    have h1 := runOne_frame env fs n o f hcap1.1 (heff (n, o) (by simp))
    simp only [exec]
    split
    · exact h1
    · simp only
      rw [ih _ hcap1.2 (fun c hc => heff c (by simp [hc])), h1]

/-! ### the executed prefix -/

theorem exec_ran_prefix (env : Env) (fs : FS) (cmds : List (Option String × Outcome)) :
    (exec env fs cmds).2 <+: cmds := by
  induction cmds generalizing fs with
  | nil => simp [exec]
  | cons c rest ih =>
    obtain ⟨n, o⟩ := c
    simp only [exec]
    split
    · exact List.prefix_cons_inj _ |>.mpr List.nil_prefix
    · exact List.prefix_cons_inj _ |>.mpr (ih _)

theorem exec_ran_ne_nil (env : Env) (fs : FS) (cmds : List (Option String × Outcome)) (h : cmds ≠ []) :
    (exec env fs cmds).2 ≠ [] := by
  cases cmds with
  | nil => exact absurd rfl h
  | cons c rest =>
    obtain ⟨n, o⟩ := c
    simp only [exec]
    split <;> simp

/-- every command before the last started one succeeded -/
theorem exec_ran_dropLast_ok (env : Env) (fs : FS) (cmds : List (Option String × Outcome)) :
    ∀ c ∈ (exec env fs cmds).2.dropLast, c.2.code = 0 := by
  induction cmds generalizing fs with
  | nil => simp [exec]
  | cons c rest ih =>
    obtain ⟨n, o⟩ := c
    simp only [exec]
    split
    · simp
    · rename_i hok
      have hok : o.code = 0 := by simpa using hok
      intro c hc
      cases hr : (exec env (runOne env fs n o) rest).2 with
      | nil => simp [hr] at hc
      | cons r rs =>
        simp only [hr, List.dropLast_cons_cons] at hc
        rcases List.mem_cons.mp hc with rfl | hc
        · exact hok
        · have := ih (runOne env fs n o) c
          rw [hr] at this
          exact this hc

/-- no failure was seen iff all commands of the job returned 0; then all of them ran -/
theorem failedCode_none_iff (env : Env) (fs : FS) (cmds : List (Option String × Outcome)) :
    failedCode (exec env fs cmds).2 = none ↔ ∀ c ∈ cmds, c.2.code = 0 := by
  induction cmds generalizing fs with
  | nil => simp [exec, failedCode]
  | cons c rest ih =>
    obtain ⟨n, o⟩ := c
    simp only [exec]
    split
    · rename_i hbad
      simp only [failedCode, List.getLast?_singleton, if_pos hbad]
      constructor
      · intro h; cases h
      · intro h; exact absurd (h (n, o) (by simp)) (by simpa using hbad)
    · rename_i hok
      have hok : o.code = 0 := by simpa using hok
      have hne : ∀ (r : List (Option String × Outcome)), failedCode ((n, o) :: r) = none ↔ failedCode r = none := by
        intro r
        cases r with
        | nil => simp [failedCode, hok]
        | cons x xs => simp [failedCode, List.getLast?_cons_cons]
      simp only
      rw [hne, ih]
      constructor
      · intro h c hc
        rcases List.mem_cons.mp hc with rfl | hc
        · exact hok
        · exact h c hc
      · intro h c hc; exact h c (by simp [hc])

theorem failedCode_some_ne_zero (ran : List (Option String × Outcome)) (c : Int) (h : failedCode ran = some c) : c ≠ 0 := by
  unfold failedCode at h
  cases hr : ran.getLast? with
  | none => simp [hr] at h
  | some x =>
    simp only [hr] at h
    split at h
    · rename_i hx; simp only [Option.some.injEq] at h; rw [← h]; exact hx
    · cases h

theorem exec_all_ok_ran_all (env : Env) (fs : FS) (cmds : List (Option String × Outcome))
    (h : ∀ c ∈ cmds, c.2.code = 0) : (exec env fs cmds).2 = cmds := by
  induction cmds generalizing fs with
  | nil => rfl
  | cons c rest ih =>
    obtain ⟨n, o⟩ := c
    have hok : o.code = 0 := h (n, o) (by simp)
    simp only [exec, hok, ne_eq, not_true_eq_false, if_false]
    rw [ih _ (fun c hc => h c (by simp [hc]))]

/-- if the loop stopped early, the last started command is the failing one -/
theorem exec_stopped_failed (env : Env) (fs : FS) (cmds : List (Option String × Outcome))
    (h : (exec env fs cmds).2.length < cmds.length) :
    ∃ c, (exec env fs cmds).2.getLast? = some c ∧ c.2.code ≠ 0 := by
  induction cmds generalizing fs with
  | nil => simp [exec] at h
  | cons c rest ih =>
    obtain ⟨n, o⟩ := c
    simp only [exec] at h ⊢
    split
    · rename_i hbad; exact ⟨(n, o), by simp, hbad⟩
    · rename_i hok
      rw [if_neg hok] at h
      simp only [List.length_cons, Nat.add_lt_add_iff_right] at h
      obtain ⟨c, hc, hcode⟩ := ih _ h
      refine ⟨c, ?_, hcode⟩
      cases hr : (exec env (runOne env fs n o) rest).2 with
      | nil => simp [hr] at hc
      | cons x xs => simp only [hr] at hc ⊢; simpa [List.getLast?_cons_cons] using hc

/-! ### captured streams -/

/-- capture files are pairwise different and no scripted effect writes to one -/
def Clean (cmds : List (Option String × Outcome)) : Prop :=
  (capFiles cmds).Nodup ∧ ∀ c ∈ cmds, ∀ e ∈ c.2.effects, target e ∉ capFiles cmds

theorem Clean.tail {c : Option String × Outcome} {rest : List (Option String × Outcome)} (h : Clean (c :: rest)) :
    Clean rest := by
  obtain ⟨n, o⟩ := c
  cases n with
  | none =>
    rw [Clean, capFiles_cons_none] at h
    exact ⟨h.1, fun c hc => h.2 c (by simp [hc])⟩
  | some nm =>
    rw [Clean, capFiles_cons_some] at h
    refine ⟨(List.nodup_cons.mp (List.nodup_cons.mp h.1).2).2, fun c hc e he hm => ?_⟩
    exact h.2 c (by simp [hc]) e he (by simp [hm])

/-- after the loop, the capture files of every started named command hold exactly what it printed -/
theorem exec_captured (env : Env) (fs : FS) (cmds : List (Option String × Outcome)) (hc : Clean cmds)
    (nm : String) (o : Outcome) (hm : (some nm, o) ∈ (exec env fs cmds).2) :
    dget (exec env fs cmds).1 (nm ++ ".out") = some o.out ∧ dget (exec env fs cmds).1 (nm ++ ".err") = some o.err := by
  induction cmds generalizing fs with
  | nil => simp [exec] at hm
  | cons c rest ih =>
    obtain ⟨n, o'⟩ := c
    simp only [exec] at hm ⊢
    split at hm
    · -- the first command failed: it is the only one started
      rename_i hbad
      rw [if_pos hbad]
      simp only [List.mem_singleton, Prod.mk.injEq] at hm
      obtain ⟨rfl, rfl⟩ := hm
      have hnd := hc.1
      rw [capFiles_cons_some] at hnd
      have hne : nm ++ ".out" ≠ nm ++ ".err" := by
        intro h
        have := (List.nodup_cons.mp hnd).1
        rw [h] at this
        exact this (by simp)
      exact runOne_captured env fs nm o hne
    · rename_i hok
      rw [if_neg hok]
      rcases List.mem_cons.mp hm with heq | hm
      · simp only [Prod.mk.injEq] at heq
        obtain ⟨rfl, rfl⟩ := heq
        have hnd := hc.1
        rw [capFiles_cons_some] at hnd
        have hnd1 := List.nodup_cons.mp hnd
        have hnd2 := List.nodup_cons.mp hnd1.2
        have hne : nm ++ ".out" ≠ nm ++ ".err" := by
          intro h
          rw [h] at hnd1
          exact hnd1.1 (by simp)
        have hcap := runOne_captured env fs nm o hne
        have hout : nm ++ ".out" ∉ capFiles rest := fun h => hnd1.1 (by simp [h])
        have herr : nm ++ ".err" ∉ capFiles rest := hnd2.1
        have heff : ∀ f, f = nm ++ ".out" ∨ f = nm ++ ".err" → ∀ c ∈ rest, ∀ e ∈ c.2.effects, f ≠ target e := by
          intro f hf c hcm e he h
          have := hc.2 c (by simp [hcm]) e he
          rw [capFiles_cons_some] at this
          rcases hf with rfl | rfl
          · exact this (by rw [← h]; simp)
          · exact this (by rw [← h]; simp)
        constructor
        · rw [exec_frame env _ rest _ hout (heff _ (Or.inl rfl))]; exact hcap.1
        · rw [exec_frame env _ rest _ herr (heff _ (Or.inr rfl))]; exact hcap.2
      · exact ih _ hc.tail hm

theorem namesOf_nodup_of_clean (cmds : List (Option String × Outcome)) (hc : Clean cmds) : (namesOf cmds).Nodup := by
  induction cmds with
  | nil => simp [namesOf]
  | cons c rest ih =>
    obtain ⟨n, o⟩ := c
    cases n with
    | none => simpa [namesOf] using ih hc.tail
    | some nm =>
      have hnd := hc.1
      rw [capFiles_cons_some] at hnd
      have h1 := List.nodup_cons.mp hnd
      have : namesOf ((some nm, o) :: rest) = nm :: namesOf rest := by simp [namesOf]
      rw [this, List.nodup_cons]
      refine ⟨fun hmem => ?_, ih hc.tail⟩
      apply h1.1
      simp only [List.mem_cons]
      right
      simp only [capFiles, List.mem_flatMap]
      exact ⟨nm, hmem, by simp⟩

theorem namesOf_prefix {a b : List (Option String × Outcome)} (h : a <+: b) : namesOf a <+: namesOf b := by
  obtain ⟨t, rfl⟩ := h
  simp [namesOf, List.filterMap_append]

end Molli.Lemmas.Job
