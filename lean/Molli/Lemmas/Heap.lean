/-
Lemmas about the heap model of C06 (`Molli.Model.Heap`): frame, renumbering, the pieces of the
copy routes.  Core Lean only.
-/
import Molli.Model.Heap
namespace Molli.Lemmas.Heap
open Molli.Model.Heap

/-! ### containers -/

theorem strip_renum (e : Ents) : ∀ n, (e.renum n).strip = e.strip := by
  induction e with
  | nil => intro n; rfl
  | scalar k v r ih => intro n; simp [Ents.renum, Ents.strip, ih]
  | cont k t i inner r ih1 ih2 => intro n; simp [Ents.renum, Ents.strip, ih1, ih2]

theorem size_renum (e : Ents) : ∀ n, (e.renum n).size = e.size := by
  induction e with
  | nil => intro n; rfl
  | scalar k v r ih => intro n; simp [Ents.renum, Ents.size, ih]
  | cont k t i inner r ih1 ih2 => intro n; simp [Ents.renum, Ents.size, ih1, ih2]

theorem ids_renum_ge (e : Ents) : ∀ n x, x ∈ (e.renum n).ids → n ≤ x := by
  induction e with
  | nil => intro n x h; cases h
  | scalar k v r ih => intro n x h; exact ih n x h
  | cont k t i inner r ih1 ih2 =>
    intro n x h
    simp only [Ents.renum, Ents.ids, List.mem_cons, List.mem_append] at h
    rcases h with h | h | h
    · omega
    · have := ih1 _ x h; omega
    · have := ih2 _ x h; omega

theorem poke_of_not_mem (target : Nat) (k v : Int) (e : Ents) (h : target ∉ e.ids) : e.poke target k v = e := by
  induction e with
  | nil => rfl
  | scalar k' v' r ih => simp only [Ents.poke]; rw [ih h]
  | cont k' t i inner r ih1 ih2 =>
    simp only [Ents.ids, List.mem_cons, List.mem_append, not_or] at h
    simp only [Ents.poke]
    rw [ih1 h.2.1, ih2 h.2.2, if_neg (fun e => h.1 e.symm)]

theorem box_strip_renum (b : Box) (n : Nat) : (b.renum n).ents.strip = b.ents.strip := strip_renum _ _

theorem box_ids_renum_ge (b : Box) (n x : Nat) (h : x ∈ (b.renum n).ids) : n ≤ x := by
  simp only [Box.renum, Box.ids, List.mem_cons] at h
  rcases h with h | h
  · omega
  · have := ids_renum_ge _ _ _ h; omega

theorem box_size_renum (b : Box) (n : Nat) : (b.renum n).size = b.size := by
  simp [Box.renum, Box.size, size_renum]

theorem box_poke_of_not_mem (target : Nat) (k v : Int) (b : Box) (h : target ∉ b.ids) : b.poke target k v = b := by
  simp only [Box.ids, List.mem_cons, not_or] at h
  simp only [Box.poke]
  rw [poke_of_not_mem _ _ _ _ h.2, if_neg (fun e => h.1 e.symm)]

/-! ### frame: a mutation of an object that is not reachable changes nothing -/

theorem mutBox_frame (μ : Mutation) (b : Box) (h : μ.target ∉ b.ids) : mutBox μ b = b := by
  unfold mutBox
  split
  · exact box_poke_of_not_mem _ _ _ _ h
  · rfl

theorem mutAtom_frame (μ : Mutation) (a : AtomO) (h : μ.target ∉ a.reach) : mutAtom μ a = a := by
  simp only [AtomO.reach, List.mem_cons, not_or] at h
  unfold mutAtom
  rw [mutBox_frame μ a.attrib h.2]
  split
  · rw [if_neg (fun e => h.1 e.symm)]
  · rfl

theorem mutBond_frame (μ : Mutation) (b : BondO) (h : μ.target ∉ b.reach) : mutBond μ b = b := by
  simp only [BondO.reach, List.mem_cons, not_or] at h
  unfold mutBond
  rw [mutBox_frame μ b.attrib h.2]
  split
  · rw [if_neg (fun e => h.1 e.symm)]
  · rfl

theorem mutArr_frame (μ : Mutation) (r : Arr) (h : μ.target ≠ r.id) : mutArr μ r = r := by
  unfold mutArr
  split
  · rw [if_neg (fun e => h e.symm)]
  · rfl

theorem map_frame {α} (f : α → α) (l : List α) (h : ∀ a ∈ l, f a = a) : l.map f = l := by
  induction l with
  | nil => rfl
  | cons a l ih =>
    simp only [List.map_cons]
    rw [h a (List.mem_cons_self), ih (fun x hx => h x (List.mem_cons_of_mem _ hx))]

/-- **Frame.** A mutation whose target is not reachable from `o` leaves `o` as it is. -/
theorem applyMut_frame (μ : Mutation) (o : MolO) (h : μ.target ∉ o.reach) : applyMut μ o = o := by
  simp only [MolO.reach, List.mem_cons, List.mem_append, List.mem_flatMap, List.mem_map, not_or, not_exists,
    not_and] at h
  obtain ⟨h0, ⟨⟨hattr, hai, hatoms⟩, hbi, hbonds⟩, harr⟩ := h
  have hA : o.atoms.map (mutAtom μ) = o.atoms :=
    map_frame _ _ (fun a ha => mutAtom_frame μ a (hatoms a ha))
  have hB : o.bonds.map (mutBond μ) = o.bonds :=
    map_frame _ _ (fun b hb => mutBond_frame μ b (hbonds b hb))
  have hR : o.arrays.map (mutArr μ) = o.arrays :=
    map_frame _ _ (fun r hr => mutArr_frame μ r (fun e => harr r hr e.symm))
  unfold applyMut
  simp only [hA, hB, hR, mutBox_frame μ o.attrib hattr]
  cases hk : μ.kind with
  | setKey k v => rfl
  | setField i v => simp only [if_neg (fun e : o.id = μ.target => h0 e.symm)]
  | setElem i v => rfl
  | removeAt i =>
    simp only [if_neg (fun e : o.atomsId = μ.target => hai e.symm), if_neg (fun e : o.bondsId = μ.target => hbi e.symm)]

theorem applyAll_frame (μs : List Mutation) (o : MolO) (h : ∀ μ ∈ μs, μ.target ∉ o.reach) :
    applyAll μs o = o := by
  induction μs with
  | nil => rfl
  | cons μ μs ih =>
    simp only [applyAll, List.foldl_cons]
    rw [applyMut_frame μ o (h μ (List.mem_cons_self))]
    exact ih (fun ν hν => h ν (List.mem_cons_of_mem _ hν))

/-! ### copying atoms -/

theorem copyAtoms_length (fl : Flags) (root : Nat) (l : List AtomO) : ∀ n, (copyAtoms fl root n l).length = l.length := by
  induction l with
  | nil => intro n; rfl
  | cons a l ih => intro n; simp [copyAtoms, ih]

theorem copyAtoms_append (fl : Flags) (root : Nat) (l1 l2 : List AtomO) : ∀ n,
    copyAtoms fl root n (l1 ++ l2) = copyAtoms fl root n l1 ++ copyAtoms fl root (n + atomsSize l1) l2 := by
  induction l1 with
  | nil => intro n; simp [copyAtoms, atomsSize]
  | cons a l ih =>
    intro n
    simp only [List.cons_append, copyAtoms, ih, atomsSize, List.map_cons, List.sum_cons]
    rw [Nat.add_assoc]

theorem copyAtoms_reach_ge (root : Nat) (l : List AtomO) : ∀ n x,
    x ∈ (copyAtoms repaired root n l).flatMap AtomO.reach → n ≤ x := by
  induction l with
  | nil => intro n x h; simp [copyAtoms] at h
  | cons a l ih =>
    intro n x h
    simp only [copyAtoms, List.flatMap_cons, List.mem_append] at h
    rcases h with h | h
    · simp only [copyAtom, repaired, AtomO.reach, List.mem_cons] at h
      rcases h with h | h
      · omega
      · have := box_ids_renum_ge _ _ _ h; omega
    · have := ih _ x h
      simp only [AtomO.size, Box.size] at this
      omega

theorem copyAtoms_ids_ge (fl : Flags) (root : Nat) (l : List AtomO) : ∀ n x,
    x ∈ (copyAtoms fl root n l).map (·.id) → n ≤ x := by
  induction l with
  | nil => intro n x h; simp [copyAtoms] at h
  | cons a l ih =>
    intro n x h
    simp only [copyAtoms, List.map_cons, List.mem_cons] at h
    rcases h with h | h
    · simp only [copyAtom] at h; omega
    · have := ih _ x h
      simp only [AtomO.size, Box.size] at this
      omega

theorem copyAtoms_ids_nodup (fl : Flags) (root : Nat) (l : List AtomO) : ∀ n,
    ((copyAtoms fl root n l).map (·.id)).Nodup := by
  induction l with
  | nil => intro n; simp [copyAtoms]
  | cons a l ih =>
    intro n
    simp only [copyAtoms, List.map_cons, List.nodup_cons]
    refine ⟨?_, ih _⟩
    intro hm
    have := copyAtoms_ids_ge fl root l _ _ hm
    simp only [copyAtom, AtomO.size, Box.size] at this
    omega

/-- what is observed of an atom whose parent is the molecule observed -/
def obsAtomT (a : AtomO) : AtomObs := { fields := a.fields, attrib := a.attrib.ents.strip, parentOk := true }

/-- what is observed of a bond whose parent is the molecule observed, `ids` being the atom list -/
def obsBondT (ids : List Nat) (b : BondO) : BondObs :=
  { e1 := ids.idxOf b.a1, e2 := ids.idxOf b.a2, fields := b.fields, attrib := b.attrib.ents.strip, parentOk := true }

theorem obsAtom_eq_T {root : Nat} {a : AtomO} (h : a.parent = some root) : obsAtom root a = obsAtomT a := by
  simp [obsAtom, obsAtomT, h]

theorem obsBond_eq_T {root : Nat} {ids : List Nat} {b : BondO} (h : b.parent = some root) :
    obsBond root ids b = obsBondT ids b := by
  simp [obsBond, obsBondT, h]

theorem obs_copyAtoms (root : Nat) (l : List AtomO) : ∀ n,
    (copyAtoms repaired root n l).map (obsAtom root) = l.map obsAtomT := by
  induction l with
  | nil => intro n; rfl
  | cons a l ih =>
    intro n
    simp only [copyAtoms, List.map_cons]
    rw [ih]
    congr 1
    simp [obsAtom, obsAtomT, copyAtom, repaired, box_strip_renum]

/-! ### `atom_map` -/

theorem idxOf_mapAtom {old new : List Nat} (hl : old.length = new.length) (hn : new.Nodup) (x : Nat)
    (hx : x ∈ old ∨ x ∉ new) : new.idxOf (mapAtom old new x) = old.idxOf x := by
  unfold mapAtom
  by_cases hm : x ∈ old
  · have hlt : old.idxOf x < new.length := hl ▸ List.idxOf_lt_length_of_mem hm
    rw [List.getElem?_eq_getElem hlt, Option.getD_some]
    exact List.Nodup.idxOf_getElem hn _ hlt
  · have hxn : x ∉ new := by
      rcases hx with h | h
      · exact absurd h hm
      · exact h
    have h1 : old.idxOf x = old.length := List.idxOf_eq_length hm
    rw [h1, hl, List.getElem?_eq_none (Nat.le_refl _), Option.getD_none, List.idxOf_eq_length hxn]

/-! ### copying bonds -/

theorem copyBonds_append (fl : Flags) (root : Nat) (old new : List Nat) (l1 l2 : List BondO) : ∀ n,
    copyBonds fl root old new n (l1 ++ l2) =
      copyBonds fl root old new n l1 ++ copyBonds fl root old new (n + bondsSize l1) l2 := by
  induction l1 with
  | nil => intro n; simp [copyBonds, bondsSize]
  | cons a l ih =>
    intro n
    simp only [List.cons_append, copyBonds, ih, bondsSize, List.map_cons, List.sum_cons]
    rw [Nat.add_assoc]

theorem copyBonds_reach_ge (root : Nat) (old new : List Nat) (l : List BondO) : ∀ n x,
    x ∈ (copyBonds repaired root old new n l).flatMap BondO.reach → n ≤ x := by
  induction l with
  | nil => intro n x h; simp [copyBonds] at h
  | cons b l ih =>
    intro n x h
    simp only [copyBonds, List.flatMap_cons, List.mem_append] at h
    rcases h with h | h
    · simp only [copyBond, repaired, BondO.reach, List.mem_cons] at h
      rcases h with h | h
      · omega
      · have := box_ids_renum_ge _ _ _ h; omega
    · have := ih _ x h
      simp only [BondO.size, Box.size] at this
      omega

/-- the copied bond is observed, in the new molecule, as the old bond was among the old atoms -/
theorem obs_copyBonds (root : Nat) (old new : List Nat) (hl : old.length = new.length) (hn : new.Nodup)
    (l : List BondO)
    (he : ∀ b ∈ l, (b.a1 ∈ old ∨ b.a1 ∉ new) ∧ (b.a2 ∈ old ∨ b.a2 ∉ new)) : ∀ n,
    (copyBonds repaired root old new n l).map (obsBond root new) = l.map (obsBondT old) := by
  induction l with
  | nil => intro n; rfl
  | cons b l ih =>
    intro n
    simp only [copyBonds, List.map_cons]
    rw [ih (fun x hx => he x (List.mem_cons_of_mem _ hx))]
    congr 1
    have hb := he b (List.mem_cons_self)
    simp [obsBond, obsBondT, copyBond, repaired, box_strip_renum,
      idxOf_mapAtom hl hn b.a1 hb.1, idxOf_mapAtom hl hn b.a2 hb.2]

/-! ### arrays -/

theorem copyArrays_data (l : List Arr) : ∀ n, (copyArrays n l).map (·.data) = l.map (·.data) := by
  induction l with
  | nil => intro n; rfl
  | cons r l ih => intro n; simp [copyArrays, ih]

theorem copyArrays_ids_ge (l : List Arr) : ∀ n x, x ∈ (copyArrays n l).map (·.id) → n ≤ x := by
  induction l with
  | nil => intro n x h; simp [copyArrays] at h
  | cons r l ih =>
    intro n x h
    simp only [copyArrays, List.map_cons, List.mem_cons] at h
    rcases h with h | h
    · omega
    · have := ih _ x h; omega

/-- like `obs_copyBonds`, for bonds re-targeted into a part `new` of a longer atom list `pre ++ new` -/
theorem obs_copyBonds_shift (root : Nat) (pre old new : List Nat) (hl : old.length = new.length)
    (hn : (pre ++ new).Nodup) (l : List BondO) (he : ∀ b ∈ l, b.a1 ∈ old ∧ b.a2 ∈ old) : ∀ n,
    (copyBonds repaired root old new n l).map (obsBond root (pre ++ new)) =
      l.map (fun b => { obsBondT old b with e1 := old.idxOf b.a1 + pre.length, e2 := old.idxOf b.a2 + pre.length }) := by
  have hnn : new.Nodup := (List.nodup_append.mp hn).2.1
  have key : ∀ x, x ∈ old → (pre ++ new).idxOf (mapAtom old new x) = old.idxOf x + pre.length := by
    intro x hx
    have hi := idxOf_mapAtom hl hnn x (Or.inl hx)
    have hm : mapAtom old new x ∈ new := by
      unfold mapAtom
      have hlt : old.idxOf x < new.length := hl ▸ List.idxOf_lt_length_of_mem hx
      rw [List.getElem?_eq_getElem hlt, Option.getD_some]
      exact List.getElem_mem hlt
    have hnp : mapAtom old new x ∉ pre := fun hp => (List.nodup_append.mp hn).2.2 _ hp _ hm rfl
    rw [List.idxOf_append, if_neg hnp, hi]
  induction l with
  | nil => intro n; rfl
  | cons b l ih =>
    intro n
    simp only [copyBonds, List.map_cons]
    rw [ih (fun x hx => he x (List.mem_cons_of_mem _ hx))]
    congr 1
    have hb := he b (List.mem_cons_self)
    simp [obsBond, obsBondT, copyBond, repaired, box_strip_renum, key _ hb.1, key _ hb.2]

theorem copyAtoms_ids_lt (fl : Flags) (root : Nat) (l : List AtomO) : ∀ n x,
    x ∈ (copyAtoms fl root n l).map (·.id) → x < n + atomsSize l := by
  induction l with
  | nil => intro n x h; simp [copyAtoms] at h
  | cons a l ih =>
    intro n x h
    simp only [copyAtoms, List.map_cons, List.mem_cons] at h
    simp only [atomsSize, List.map_cons, List.sum_cons]
    rcases h with h | h
    · simp only [copyAtom] at h
      simp only [AtomO.size, Box.size]
      omega
    · have := ih _ x h
      simp only [atomsSize] at this
      omega

/-! ### dictionaries merged by `|` -/

theorem strip_append (a b : Ents) : (a.append b).strip = a.strip.append b.strip := by
  induction a with
  | nil => rfl
  | scalar k v r ih => simp [Ents.append, Ents.strip, ih]
  | cont k t i inner r _ ih => simp [Ents.append, Ents.strip, ih]

theorem mem_ids_append (a b : Ents) (x : Nat) : x ∈ (a.append b).ids ↔ x ∈ a.ids ∨ x ∈ b.ids := by
  induction a with
  | nil => simp [Ents.append, Ents.ids]
  | scalar k v r ih => simpa [Ents.append, Ents.ids] using ih
  | cont k t i inner r _ ih =>
    simp only [Ents.append, Ents.ids, List.mem_cons, List.mem_append, ih]
    constructor
    · rintro (h | h | h | h)
      · exact Or.inl (Or.inl h)
      · exact Or.inl (Or.inr (Or.inl h))
      · exact Or.inl (Or.inr (Or.inr h))
      · exact Or.inr h
    · rintro ((h | h | h) | h)
      · exact Or.inl h
      · exact Or.inr (Or.inl h)
      · exact Or.inr (Or.inr (Or.inl h))
      · exact Or.inr (Or.inr (Or.inr h))

/-! ### bonds copied into a block of a longer atom list -/

theorem copyBonds_ends_mem (fl : Flags) (root : Nat) (old new : List Nat) (hl : old.length = new.length)
    (l : List BondO) (he : ∀ x ∈ l, x.a1 ∈ old ∧ x.a2 ∈ old) : ∀ (k : Nat) (b : BondO),
    b ∈ copyBonds fl root old new k l → b.a1 ∈ new ∧ b.a2 ∈ new := by
  have hmem : ∀ x, x ∈ old → mapAtom old new x ∈ new := by
    intro x hx
    unfold mapAtom
    have hlt : old.idxOf x < new.length := hl ▸ List.idxOf_lt_length_of_mem hx
    rw [List.getElem?_eq_getElem hlt, Option.getD_some]
    exact List.getElem_mem hlt
  induction l with
  | nil => intro k b h; simp [copyBonds] at h
  | cons x l ih =>
    intro k b h
    simp only [copyBonds, List.mem_cons] at h
    rcases h with h | h
    · subst h
      have := he x (List.mem_cons_self)
      exact ⟨hmem _ this.1, hmem _ this.2⟩
    · exact ih (fun y hy => he y (List.mem_cons_of_mem _ hy)) _ b h

theorem obsBond_append_right (root : Nat) (L M : List Nat) (b : BondO) (h1 : b.a1 ∈ L) (h2 : b.a2 ∈ L) :
    obsBond root (L ++ M) b = obsBond root L b := by
  simp only [obsBond]
  rw [List.idxOf_append, List.idxOf_append, if_pos h1, if_pos h2]

theorem copyAtoms_ids_lt' (fl : Flags) (root : Nat) (l : List AtomO) (n x : Nat)
    (h : x ∈ (copyAtoms fl root n l).map (·.id)) : x < n + atomsSize l := copyAtoms_ids_lt fl root l n x h

/-! ### concatenation of any number of sources -/

theorem concatAtoms_ids_ge (fl : Flags) (root : Nat) (ss : List MolO) : ∀ k x,
    x ∈ (concatAtoms fl root k ss).map (·.id) → k ≤ x := by
  induction ss with
  | nil => intro k x h; simp [concatAtoms] at h
  | cons s ss ih =>
    intro k x h
    simp only [concatAtoms, List.map_append, List.mem_append] at h
    rcases h with h | h
    · exact copyAtoms_ids_ge fl root s.atoms k x h
    · have := ih _ x h; omega

theorem concatAtoms_ids_nodup (fl : Flags) (root : Nat) (ss : List MolO) : ∀ k,
    ((concatAtoms fl root k ss).map (·.id)).Nodup := by
  induction ss with
  | nil => intro k; simp [concatAtoms]
  | cons s ss ih =>
    intro k
    simp only [concatAtoms, List.map_append]
    refine List.nodup_append.mpr ⟨copyAtoms_ids_nodup fl root s.atoms k, ih _, ?_⟩
    intro a ha b hb hab
    have := copyAtoms_ids_lt fl root s.atoms k a ha
    have := concatAtoms_ids_ge fl root ss _ b hb
    omega

theorem concatAtoms_reach_ge (root : Nat) (ss : List MolO) : ∀ k x,
    x ∈ (concatAtoms repaired root k ss).flatMap AtomO.reach → k ≤ x := by
  induction ss with
  | nil => intro k x h; simp [concatAtoms] at h
  | cons s ss ih =>
    intro k x h
    simp only [concatAtoms, List.flatMap_append, List.mem_append] at h
    rcases h with h | h
    · exact copyAtoms_reach_ge root s.atoms k x h
    · have := ih _ x h; omega

theorem concatBonds_reach_ge (root : Nat) (ss : List MolO) : ∀ ka kb x,
    x ∈ (concatBonds repaired root ka kb ss).flatMap BondO.reach → kb ≤ x := by
  induction ss with
  | nil => intro ka kb x h; simp [concatBonds] at h
  | cons s ss ih =>
    intro ka kb x h
    simp only [concatBonds, List.flatMap_append, List.mem_append] at h
    rcases h with h | h
    · exact copyBonds_reach_ge root _ _ s.bonds kb x h
    · have := ih _ _ x h; omega

theorem obs_concatAtoms (root : Nat) (ss : List MolO) : ∀ k,
    (concatAtoms repaired root k ss).map (obsAtom root) = ss.flatMap (fun s => s.atoms.map obsAtomT) := by
  induction ss with
  | nil => intro k; rfl
  | cons s ss ih =>
    intro k
    simp only [concatAtoms, List.map_append, List.flatMap_cons, obs_copyAtoms, ih]

/-- what is observed of the bonds of a concatenation: source by source, bond ends shifted by the number of
atoms of the sources before -/
def concatBondsObs : Nat → List MolO → List BondObs
  | _, [] => []
  | off, s :: ss =>
    s.bonds.map (fun b => { obsBondT (s.atoms.map (·.id)) b with
        e1 := (s.atoms.map (·.id)).idxOf b.a1 + off, e2 := (s.atoms.map (·.id)).idxOf b.a2 + off }) ++
      concatBondsObs (off + s.atoms.length) ss

theorem obs_concatBonds (root : Nat) (ss : List MolO)
    (hw : ∀ s ∈ ss, ∀ b ∈ s.bonds, b.a1 ∈ s.atoms.map (·.id) ∧ b.a2 ∈ s.atoms.map (·.id)) :
    ∀ (pre : List Nat) (ka kb : Nat), (∀ x ∈ pre, x < ka) → pre.Nodup →
    (concatBonds repaired root ka kb ss).map (obsBond root (pre ++ (concatAtoms repaired root ka ss).map (·.id))) =
      concatBondsObs pre.length ss := by
  induction ss with
  | nil => intro pre ka kb _ _; rfl
  | cons s ss ih =>
    intro pre ka kb hpre hnd
    have hws := hw s (List.mem_cons_self)
    have hl : (s.atoms.map (·.id)).length = ((copyAtoms repaired root ka s.atoms).map (·.id)).length := by
      simp [copyAtoms_length]
    have hnew := copyAtoms_ids_nodup repaired root s.atoms ka
    have hpn : (pre ++ (copyAtoms repaired root ka s.atoms).map (·.id)).Nodup := by
      refine List.nodup_append.mpr ⟨hnd, hnew, ?_⟩
      intro a ha b hb hab
      have := hpre a ha
      have := copyAtoms_ids_ge repaired root s.atoms ka b hb
      omega
    simp only [concatBonds, concatAtoms, List.map_append, concatBondsObs]
    congr 1
    · -- the bonds of `s`: their ends are among the new atoms of `s`
      rw [← obs_copyBonds_shift root pre _ _ hl hpn s.bonds hws kb]
      apply List.map_congr_left
      intro b hb
      have hm := copyBonds_ends_mem repaired root _ _ hl s.bonds hws kb b hb
      rw [← List.append_assoc]
      exact obsBond_append_right root _ _ b (List.mem_append_right _ hm.1) (List.mem_append_right _ hm.2)
    · have := ih (fun t ht => hw t (List.mem_cons_of_mem _ ht))
        (pre ++ (copyAtoms repaired root ka s.atoms).map (·.id)) (ka + atomsSize s.atoms) (kb + bondsSize s.bonds)
        (by
          intro x hx
          rcases List.mem_append.mp hx with hx | hx
          · have := hpre x hx; omega
          · exact copyAtoms_ids_lt repaired root s.atoms ka x hx)
        hpn
      rw [List.append_assoc] at this
      rw [this]
      simp [copyAtoms_length]

/-! ### sources whose atoms and bonds have no live owner

`atom.parent` is a weak reference: the atoms of a source may name nobody (or a dead object).  The copy routes never read the
parent of a source atom, so they give the same result as on the source with all parents set (`reparent`). -/

def ownAtom (p : Nat) (a : AtomO) : AtomO := { a with parent := some p }
def ownBond (p : Nat) (b : BondO) : BondO := { b with parent := some p }

/-- the source as it would be if its atoms and bonds named it as parent -/
def reparent (o : MolO) : MolO :=
  { o with atoms := o.atoms.map (ownAtom o.id), bonds := o.bonds.map (ownBond o.id) }

theorem ids_ownAtoms (p : Nat) (l : List AtomO) : (l.map (ownAtom p)).map (·.id) = l.map (·.id) := by
  simp [ownAtom, List.map_map, Function.comp_def]

theorem atomsSize_own (p : Nat) (l : List AtomO) : atomsSize (l.map (ownAtom p)) = atomsSize l := by
  simp only [atomsSize, List.map_map]
  congr 1

theorem bondsSize_own (p : Nat) (l : List BondO) : bondsSize (l.map (ownBond p)) = bondsSize l := by
  simp only [bondsSize, List.map_map]
  congr 1

theorem copyAtoms_own (fl : Flags) (root p : Nat) (l : List AtomO) : ∀ k,
    copyAtoms fl root k (l.map (ownAtom p)) = copyAtoms fl root k l := by
  induction l with
  | nil => intro k; rfl
  | cons a l ih => intro k; simp [copyAtoms, ih, copyAtom, ownAtom, AtomO.size]

theorem copyBonds_own (fl : Flags) (root p : Nat) (old new : List Nat) (l : List BondO) : ∀ k,
    copyBonds fl root old new k (l.map (ownBond p)) = copyBonds fl root old new k l := by
  induction l with
  | nil => intro k; rfl
  | cons b l ih => intro k; simp [copyBonds, ih, copyBond, ownBond, BondO.size]

theorem deepCopy_reparent (fl : Flags) (n : Nat) (src : MolO) : deepCopy fl n (reparent src) = deepCopy fl n src := by
  simp only [deepCopy, reparent, ids_ownAtoms, atomsSize_own, bondsSize_own, copyAtoms_own, copyBonds_own]

theorem concatAtoms_reparent (fl : Flags) (root : Nat) (ss : List MolO) : ∀ k,
    concatAtoms fl root k (ss.map reparent) = concatAtoms fl root k ss := by
  induction ss with
  | nil => intro k; rfl
  | cons s ss ih => intro k; simp [concatAtoms, reparent, copyAtoms_own, atomsSize_own, ih]

theorem concatBonds_reparent (fl : Flags) (root : Nat) (ss : List MolO) : ∀ ka kb,
    concatBonds fl root ka kb (ss.map reparent) = concatBonds fl root ka kb ss := by
  induction ss with
  | nil => intro ka kb; rfl
  | cons s ss ih =>
    intro ka kb
    have hid : (s.atoms.map (ownAtom s.id)).map (·.id) = s.atoms.map (·.id) := ids_ownAtoms _ _
    simp only [List.map_cons, concatBonds, reparent, copyAtoms_own, copyBonds_own, atomsSize_own, bondsSize_own, hid, ih]

theorem concatN_reparent (fl : Flags) (n cls : Nat) (ss : List MolO) :
    concatN fl n cls (ss.map reparent) = concatN fl n cls ss := by
  have h1 : totalAtomsSize (ss.map reparent) = totalAtomsSize ss := by
    simp [totalAtomsSize, reparent, atomsSize_own, List.map_map, Function.comp_def]
  have h2 : totalBondsSize (ss.map reparent) = totalBondsSize ss := by
    simp [totalBondsSize, reparent, bondsSize_own, List.map_map, Function.comp_def]
  have h3 : commonSlots (ss.map reparent) = commonSlots ss := by
    simp [commonSlots, reparent, List.map_map, Function.comp_def]
  have h4 : ∀ j, stackData (ss.map reparent) j = stackData ss j := by
    intro j; simp [stackData, reparent, List.flatMap_map]
  have h5 : ∀ i, (ss.map reparent).map (fun s => scalarAt s i) = ss.map (fun s => scalarAt s i) := by
    intro i; simp [scalarAt, reparent, List.map_map, Function.comp_def]
  simp only [concatN, h1, h2, h3, h4, h5, concatAtoms_reparent, concatBonds_reparent]

end Molli.Lemmas.Heap
