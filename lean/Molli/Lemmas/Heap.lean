/-
Lemmas about the heap model of C06 (`Molli.Model.Heap`): frame, renumbering, the pieces of the
copy routes.  Core Lean only.
-/
import Molli.Model.Heap
namespace Molli.Lemmas.Heap
open Molli.Model.Heap

/-! ### containers -/

theorem strip_renum (e : Ents) : ∀ n, (e.renum n).strip = e.strip := by
  induction e with
  | nil => intro n; rfl
  | scalar k v r ih => intro n; simp [Ents.renum, Ents.strip, ih]
  | cont k t i inner r ih1 ih2 => intro n; simp [Ents.renum, Ents.strip, ih1, ih2]

theorem size_renum (e : Ents) : ∀ n, (e.renum n).size = e.size := by
  induction e with
  | nil => intro n; rfl
  | scalar k v r ih => intro n; simp [Ents.renum, Ents.size, ih]
  | cont k t i inner r ih1 ih2 => intro n; simp [Ents.renum, Ents.size, ih1, ih2]

theorem ids_renum_ge (e : Ents) : ∀ n x, x ∈ (e.renum n).ids → n ≤ x := by
  induction e with
  | nil => intro n x h; cases h
  | scalar k v r ih => intro n x h; exact ih n x h
  | cont k t i inner r ih1 ih2 =>
    intro n x h
    simp only [Ents.renum, Ents.ids, List.mem_cons, List.mem_append] at h
    rcases h with h | h | h
    · omega
    · have := ih1 _ x h; omega
    · have := ih2 _ x h; omega

theorem poke_of_not_mem (target : Nat) (k v : Int) (e : Ents) (h : target ∉ e.ids) : e.poke target k v = e := by
  induction e with
  | nil => rfl
  | scalar k' v' r ih => simp only [Ents.poke]; rw [ih h]
  | cont k' t i inner r ih1 ih2 =>
    simp only [Ents.ids, List.mem_cons, List.mem_append, not_or] at h
    simp only [Ents.poke]
    rw [ih1 h.2.1, ih2 h.2.2, if_neg (fun e => h.1 e.symm)]

theorem box_strip_renum (b : Box) (n : Nat) : (b.renum n).ents.strip = b.ents.strip := strip_renum _ _

theorem box_ids_renum_ge (b : Box) (n x : Nat) (h : x ∈ (b.renum n).ids) : n ≤ x := by
  simp only [Box.renum, Box.ids, List.mem_cons] at h
  rcases h with h | h
  · omega
  · have := ids_renum_ge _ _ _ h; omega

theorem box_size_renum (b : Box) (n : Nat) : (b.renum n).size = b.size := by
  simp [Box.renum, Box.size, size_renum]

theorem box_poke_of_not_mem (target : Nat) (k v : Int) (b : Box) (h : target ∉ b.ids) : b.poke target k v = b := by
  simp only [Box.ids, List.mem_cons, not_or] at h
  simp only [Box.poke]
  rw [poke_of_not_mem _ _ _ _ h.2, if_neg (fun e => h.1 e.symm)]

/-! ### frame: a mutation of an object that is not reachable changes nothing -/

theorem mutBox_frame (μ : Mutation) (b : Box) (h : μ.target ∉ b.ids) : mutBox μ b = b := by
  unfold mutBox
  split
  · exact box_poke_of_not_mem _ _ _ _ h
  · rfl

theorem mutAtom_frame (μ : Mutation) (a : AtomO) (h : μ.target ∉ a.reach) : mutAtom μ a = a := by
  simp only [AtomO.reach, List.mem_cons, not_or] at h
  unfold mutAtom
  rw [mutBox_frame μ a.attrib h.2]
  split
  · rw [if_neg (fun e => h.1 e.symm)]
  · rfl

theorem mutBond_frame (μ : Mutation) (b : BondO) (h : μ.target ∉ b.reach) : mutBond μ b = b := by
  simp only [BondO.reach, List.mem_cons, not_or] at h
  unfold mutBond
  rw [mutBox_frame μ b.attrib h.2]
  split
  · rw [if_neg (fun e => h.1 e.symm)]
  · rfl

theorem mutArr_frame (μ : Mutation) (r : Arr) (h : μ.target ≠ r.id) : mutArr μ r = r := by
  unfold mutArr
  split
  · rw [if_neg (fun e => h e.symm)]
  · rfl

theorem map_frame {α} (f : α → α) (l : List α) (h : ∀ a ∈ l, f a = a) : l.map f = l := by
  induction l with
  | nil => rfl
  | cons a l ih =>
    simp only [List.map_cons]
    rw [h a (List.mem_cons_self), ih (fun x hx => h x (List.mem_cons_of_mem _ hx))]

/-- **Frame.** A mutation whose target is not reachable from `o` leaves `o` as it is. -/
theorem applyMut_frame (μ : Mutation) (o : MolO) (h : μ.target ∉ o.reach) : applyMut μ o = o := by
  simp only [MolO.reach, List.mem_cons, List.mem_append, List.mem_flatMap, List.mem_map, not_or, not_exists,
    not_and] at h
  obtain ⟨h0, ⟨⟨hattr, hai, hatoms⟩, hbi, hbonds⟩, harr⟩ := h
  have hA : o.atoms.map (mutAtom μ) = o.atoms :=
    map_frame _ _ (fun a ha => mutAtom_frame μ a (hatoms a ha))
  have hB : o.bonds.map (mutBond μ) = o.bonds :=
    map_frame _ _ (fun b hb => mutBond_frame μ b (hbonds b hb))
  have hR : o.arrays.map (mutArr μ) = o.arrays :=
    map_frame _ _ (fun r hr => mutArr_frame μ r (fun e => harr r hr e.symm))
  unfold applyMut
  simp only [hA, hB, hR, mutBox_frame μ o.attrib hattr]
  cases hk : μ.kind with
  | setKey k v => rfl
  | setField i v => simp only [if_neg (fun e : o.id = μ.target => h0 e.symm)]
  | setElem i v => rfl
  | removeAt i =>
    simp only [if_neg (fun e : o.atomsId = μ.target => hai e.symm), if_neg (fun e : o.bondsId = μ.target => hbi e.symm)]

theorem applyAll_frame (μs : List Mutation) (o : MolO) (h : ∀ μ ∈ μs, μ.target ∉ o.reach) :
    applyAll μs o = o := by
  induction μs with
  | nil => rfl
  | cons μ μs ih =>
    simp only [applyAll, List.foldl_cons]
    rw [applyMut_frame μ o (h μ (List.mem_cons_self))]
    exact ih (fun ν hν => h ν (List.mem_cons_of_mem _ hν))

/-! ### copying atoms -/

theorem copyAtoms_length (fl : Flags) (root : Nat) (l : List AtomO) : ∀ n, (copyAtoms fl root n l).length = l.length := by
  induction l with
  | nil => intro n; rfl
  | cons a l ih => intro n; simp [copyAtoms, ih]

theorem copyAtoms_append (fl : Flags) (root : Nat) (l1 l2 : List AtomO) : ∀ n,
    copyAtoms fl root n (l1 ++ l2) = copyAtoms fl root n l1 ++ copyAtoms fl root (n + atomsSize l1) l2 := by
  induction l1 with
  | nil => intro n; simp [copyAtoms, atomsSize]
  | cons a l ih =>
    intro n
    simp only [List.cons_append, copyAtoms, ih, atomsSize, List.map_cons, List.sum_cons]
    rw [Nat.add_assoc]

theorem copyAtoms_reach_ge (root : Nat) (l : List AtomO) : ∀ n x,
    x ∈ (copyAtoms repaired root n l).flatMap AtomO.reach → n ≤ x := by
  induction l with
  | nil => intro n x h; simp [copyAtoms] at h
  | cons a l ih =>
    intro n x h
    simp only [copyAtoms, List.flatMap_cons, List.mem_append] at h
    rcases h with h | h
    · simp only [copyAtom, repaired, AtomO.reach, List.mem_cons] at h
      rcases h with h | h
      · omega
      · have := box_ids_renum_ge _ _ _ h; omega
    · have := ih _ x h
      simp only [AtomO.size, Box.size] at this
      omega

theorem copyAtoms_ids_ge (fl : Flags) (root : Nat) (l : List AtomO) : ∀ n x,
    x ∈ (copyAtoms fl root n l).map (·.id) → n ≤ x := by
  induction l with
  | nil => intro n x h; simp [copyAtoms] at h
  | cons a l ih =>
    intro n x h
    simp only [copyAtoms, List.map_cons, List.mem_cons] at h
    rcases h with h | h
    · simp only [copyAtom] at h; omega
    · have := ih _ x h
      simp only [AtomO.size, Box.size] at this
      omega

theorem copyAtoms_ids_nodup (fl : Flags) (root : Nat) (l : List AtomO) : ∀ n,
    ((copyAtoms fl root n l).map (·.id)).Nodup := by
  induction l with
  | nil => intro n; simp [copyAtoms]
  | cons a l ih =>
    intro n
    simp only [copyAtoms, List.map_cons, List.nodup_cons]
    refine ⟨?_, ih _⟩
    intro hm
    have := copyAtoms_ids_ge fl root l _ _ hm
    simp only [copyAtom, AtomO.size, Box.size] at this
    omega

/-- what is observed of an atom whose parent is the molecule observed -/
def obsAtomT (a : AtomO) : AtomObs := { fields := a.fields, attrib := a.attrib.ents.strip, parentOk := true }

/-- what is observed of a bond whose parent is the molecule observed, `ids` being the atom list -/
def obsBondT (ids : List Nat) (b : BondO) : BondObs :=
  { e1 := ids.idxOf b.a1, e2 := ids.idxOf b.a2, fields := b.fields, attrib := b.attrib.ents.strip, parentOk := true }

theorem obsAtom_eq_T {root : Nat} {a : AtomO} (h : a.parent = some root) : obsAtom root a = obsAtomT a := by
  simp [obsAtom, obsAtomT, h]

theorem obsBond_eq_T {root : Nat} {ids : List Nat} {b : BondO} (h : b.parent = some root) :
    obsBond root ids b = obsBondT ids b := by
  simp [obsBond, obsBondT, h]

theorem obs_copyAtoms (root : Nat) (l : List AtomO) : ∀ n,
    (copyAtoms repaired root n l).map (obsAtom root) = l.map obsAtomT := by
  induction l with
  | nil => intro n; rfl
  | cons a l ih =>
    intro n
    simp only [copyAtoms, List.map_cons]
    rw [ih]
    congr 1
    simp [obsAtom, obsAtomT, copyAtom, repaired, box_strip_renum]

/-! ### `atom_map` -/

theorem idxOf_mapAtom {old new : List Nat} (hl : old.length = new.length) (hn : new.Nodup) (x : Nat)
    (hx : x ∈ old ∨ x ∉ new) : new.idxOf (mapAtom old new x) = old.idxOf x := by
  unfold mapAtom
  by_cases hm : x ∈ old
  · have hlt : old.idxOf x < new.length := hl ▸ List.idxOf_lt_length_of_mem hm
    rw [List.getElem?_eq_getElem hlt, Option.getD_some]
    exact List.Nodup.idxOf_getElem hn _ hlt
  · have hxn : x ∉ new := by
      rcases hx with h | h
      · exact absurd h hm
      · exact h
    have h1 : old.idxOf x = old.length := List.idxOf_eq_length hm
    rw [h1, hl, List.getElem?_eq_none (Nat.le_refl _), Option.getD_none, List.idxOf_eq_length hxn]

/-! ### copying bonds -/

theorem copyBonds_append (fl : Flags) (root : Nat) (old new : List Nat) (l1 l2 : List BondO) : ∀ n,
    copyBonds fl root old new n (l1 ++ l2) =
      copyBonds fl root old new n l1 ++ copyBonds fl root old new (n + bondsSize l1) l2 := by
  induction l1 with
  | nil => intro n; simp [copyBonds, bondsSize]
  | cons a l ih =>
    intro n
    simp only [List.cons_append, copyBonds, ih, bondsSize, List.map_cons, List.sum_cons]
    rw [Nat.add_assoc]

theorem copyBonds_reach_ge (root : Nat) (old new : List Nat) (l : List BondO) : ∀ n x,
    x ∈ (copyBonds repaired root old new n l).flatMap BondO.reach → n ≤ x := by
  induction l with
  | nil => intro n x h; simp [copyBonds] at h
  | cons b l ih =>
    intro n x h
    simp only [copyBonds, List.flatMap_cons, List.mem_append] at h
    rcases h with h | h
    · simp only [copyBond, repaired, BondO.reach, List.mem_cons] at h
      rcases h with h | h
      · omega
      · have := box_ids_renum_ge _ _ _ h; omega
    · have := ih _ x h
      simp only [BondO.size, Box.size] at this
      omega

/-- the copied bond is observed, in the new molecule, as the old bond was among the old atoms -/
theorem obs_copyBonds (root : Nat) (old new : List Nat) (hl : old.length = new.length) (hn : new.Nodup)
    (l : List BondO)
    (he : ∀ b ∈ l, (b.a1 ∈ old ∨ b.a1 ∉ new) ∧ (b.a2 ∈ old ∨ b.a2 ∉ new)) : ∀ n,
    (copyBonds repaired root old new n l).map (obsBond root new) = l.map (obsBondT old) := by
  induction l with
  | nil => intro n; rfl
  | cons b l ih =>
    intro n
    simp only [copyBonds, List.map_cons]
    rw [ih (fun x hx => he x (List.mem_cons_of_mem _ hx))]
    congr 1
    have hb := he b (List.mem_cons_self)
    simp [obsBond, obsBondT, copyBond, repaired, box_strip_renum,
      idxOf_mapAtom hl hn b.a1 hb.1, idxOf_mapAtom hl hn b.a2 hb.2]

/-! ### arrays -/

theorem copyArrays_data (l : List Arr) : ∀ n, (copyArrays n l).map (·.data) = l.map (·.data) := by
  induction l with
  | nil => intro n; rfl
  | cons r l ih => intro n; simp [copyArrays, ih]

theorem copyArrays_ids_ge (l : List Arr) : ∀ n x, x ∈ (copyArrays n l).map (·.id) → n ≤ x := by
  induction l with
  | nil => intro n x h; simp [copyArrays] at h
  | cons r l ih =>
    intro n x h
    simp only [copyArrays, List.map_cons, List.mem_cons] at h
    rcases h with h | h
    · omega
    · have := ih _ x h; omega

/-- like `obs_copyBonds`, for bonds re-targeted into a part `new` of a longer atom list `pre ++ new` -/
theorem obs_copyBonds_shift (root : Nat) (pre old new : List Nat) (hl : old.length = new.length)
    (hn : (pre ++ new).Nodup) (l : List BondO) (he : ∀ b ∈ l, b.a1 ∈ old ∧ b.a2 ∈ old) : ∀ n,
    (copyBonds repaired root old new n l).map (obsBond root (pre ++ new)) =
      l.map (fun b => { obsBondT old b with e1 := old.idxOf b.a1 + pre.length, e2 := old.idxOf b.a2 + pre.length }) := by
  have hnn : new.Nodup := (List.nodup_append.mp hn).2.1
  have key : ∀ x, x ∈ old → (pre ++ new).idxOf (mapAtom old new x) = old.idxOf x + pre.length := by
    intro x hx
    have hi := idxOf_mapAtom hl hnn x (Or.inl hx)
    have hm : mapAtom old new x ∈ new := by
      unfold mapAtom
      have hlt : old.idxOf x < new.length := hl ▸ List.idxOf_lt_length_of_mem hx
      rw [List.getElem?_eq_getElem hlt, Option.getD_some]
      exact List.getElem_mem hlt
    have hnp : mapAtom old new x ∉ pre := fun hp => (List.nodup_append.mp hn).2.2 _ hp _ hm rfl
    rw [List.idxOf_append, if_neg hnp, hi]
  induction l with
  | nil => intro n; rfl
  | cons b l ih =>
    intro n
    simp only [copyBonds, List.map_cons]
    rw [ih (fun x hx => he x (List.mem_cons_of_mem _ hx))]
    congr 1
    have hb := he b (List.mem_cons_self)
    simp [obsBond, obsBondT, copyBond, repaired, box_strip_renum, key _ hb.1, key _ hb.2]

theorem copyAtoms_ids_lt (fl : Flags) (root : Nat) (l : List AtomO) : ∀ n x,
    x ∈ (copyAtoms fl root n l).map (·.id) → x < n + atomsSize l := by
  induction l with
  | nil => intro n x h; simp [copyAtoms] at h
  | cons a l ih =>
    intro n x h
    simp only [copyAtoms, List.map_cons, List.mem_cons] at h
    simp only [atomsSize, List.map_cons, List.sum_cons]
    rcases h with h | h
    · simp only [copyAtom] at h
      simp only [AtomO.size, Box.size]
      omega
    · have := ih _ x h
      simp only [atomsSize] at this
      omega

end Molli.Lemmas.Heap
