/-
World-level lemmas for the UKV model: handles with (possibly stale) cached tables of contents on a
well-formed insert-only file.  Core Lean only.
-/
import Molli.Lemmas.Ukv
namespace Molli.Lemmas.Ukv
open Molli.Util Molli.Model.Ukv

/-! ### scanning a well-formed file -/

theorem completePrefix_nil (n : Nat) : completePrefix [] n = [] := rfl

theorem scanFile_wf (h1 h2 b0 : Bytes) (recs : List KV) (hc : ∀ r ∈ recs, r.ok) :
    scanFile (wfFile h1 h2 b0 recs) (bofOf h2 b0) =
      (tocOf (bofOf h2 b0) recs, bofOf h2 b0 + (blocks recs).length) := by
  have := scanFile_image h1 h2 b0 recs [] 0 hc (by simp)
  simpa [image_nil, completePrefix_nil] using this

theorem readHeader_wf (h1 h2 b0 : Bytes) (hh : HdrOk h2 b0) (recs : List KV) :
    readHeader (wfFile h1 h2 b0 recs) = some (pad16 h1, h2, b0) :=
  readHeader_encHeader h1 h2 b0 hh.1 hh.2 _

/-! ### merging a rescan into a stale table of contents -/

theorem tocSet_mem_same (t : Toc) (k : Bytes) (r : Rec) (hn : (t.map (·.1)).Nodup) (hm : (k, r) ∈ t) :
    tocSet t k r = t := by
  induction t with
  | nil => cases hm
  | cons a t ih =>
    obtain ⟨k', r'⟩ := a
    simp only [List.map_cons, List.nodup_cons] at hn
    rcases List.mem_cons.mp hm with heq | hmem
    · cases heq; simp [tocSet]
    · have hne : k' ≠ k := by
        intro he; subst he
        exact hn.1 (List.mem_map_of_mem (f := (·.1)) hmem)
      simp [tocSet, hne, ih hn.2 hmem]

theorem tocMerge_sub (t news : Toc) (hn : (t.map (·.1)).Nodup) (hs : ∀ x ∈ news, x ∈ t) :
    tocMerge t news = t := by
  induction news with
  | nil => rfl
  | cons a news ih =>
    obtain ⟨k, r⟩ := a
    have h1 : tocMerge t ((k, r) :: news) = tocMerge (tocSet t k r) news := by simp [tocMerge]
    rw [h1, tocSet_mem_same t k r hn (hs _ (by simp))]
    exact ih (fun x hx => hs x (by simp [hx]))

theorem tocMerge_append (t a b : Toc) : tocMerge t (a ++ b) = tocMerge (tocMerge t a) b := by
  simp [tocMerge, List.foldl_append]

theorem take_append_drop_blocks (recs : List KV) (j : Nat) :
    blocks recs = blocks (recs.take j) ++ blocks (recs.drop j) := by
  rw [← blocks_append, List.take_append_drop]

/-- Rescanning the whole file into a table of contents that holds a prefix of it gives the full table. -/
theorem tocMerge_prefix (pos : Nat) (recs : List KV) (j : Nat) (hk : (recs.map (·.key)).Nodup) :
    tocMerge (tocOf pos (recs.take j)) (tocOf pos recs) = tocOf pos recs := by
  have hsplit : tocOf pos recs = tocOf pos (recs.take j) ++ tocOf (pos + (blocks (recs.take j)).length) (recs.drop j) := by
    conv => lhs; rw [← List.take_append_drop j recs]
    exact tocOf_append pos _ _
  have hnd : ((tocOf pos recs).map (·.1)).Nodup := by rw [tocOf_keys]; exact hk
  rw [hsplit] at hnd ⊢
  rw [tocMerge_append]
  have hnd1 : ((tocOf pos (recs.take j)).map (·.1)).Nodup := by
    rw [List.map_append] at hnd; exact (List.nodup_append.mp hnd).1
  rw [tocMerge_sub _ _ hnd1 (fun x hx => hx)]
  exact tocMerge_fresh _ _ hnd

theorem take_eq_of_blocks_length (recs : List KV) (j : Nat)
    (h : (blocks (recs.take j)).length = (blocks recs).length) : recs.take j = recs := by
  have hs := take_append_drop_blocks recs j
  have hl : (blocks (recs.drop j)).length = 0 := by
    have := congrArg List.length hs
    rw [List.length_append] at this; omega
  have hd : (recs.drop j).length = 0 := by
    have := blocks_length_ge (recs.drop j); omega
  have : recs.drop j = [] := List.eq_nil_of_length_eq_zero hd
  conv => rhs; rw [← List.take_append_drop j recs, this, List.append_nil]

/-! ### the handle invariant -/

/-- What is known of a handle object on the file `wfFile _ h2 b0 recs`: its cached table of contents
describes a prefix of the file (it may be stale), and while it is open it is up to date. -/
structure HInv (h : Handle) (h2 b0 : Bytes) (recs : List KV) : Prop where
  hdr2 : h.h2 = h2
  hdr0 : h.b0 = b0
  pre : ∃ j, h.toc = tocOf (bofOf h2 b0) (recs.take j) ∧
          h.eof = some (bofOf h2 b0 + (blocks (recs.take j)).length)
  sync : h.closed = false → h.toc = tocOf (bofOf h2 b0) recs ∧
          h.eof = some (bofOf h2 b0 + (blocks recs).length)

/-- `map_blocks` on a well-formed file brings any such handle up to date and leaves the file alone —
whether the `(eof, last)` shortcut is taken or the file is rescanned. -/
theorem mapBlocks_wf (h : Handle) (h1 h2 b0 : Bytes) (recs : List KV)
    (hc : ∀ r ∈ recs, r.ok) (hk : (recs.map (·.key)).Nodup)
    (hh2 : h.h2 = h2) (hb0 : h.b0 = b0)
    (hpre : ∃ j, h.toc = tocOf (bofOf h2 b0) (recs.take j) ∧
          (h.eof = none ∨ h.eof = some (bofOf h2 b0 + (blocks (recs.take j)).length))) :
    ∃ l, mapBlocks h (wfFile h1 h2 b0 recs) =
      ({ h with toc := tocOf (bofOf h2 b0) recs, last := l,
                eof := some (bofOf h2 b0 + (blocks recs).length) }, wfFile h1 h2 b0 recs) := by
  obtain ⟨j, htoc, heof⟩ := hpre
  have hlen := wfFile_length h1 h2 b0 recs
  have hbof : h.bof = bofOf h2 b0 := by simp [Handle.bof, hh2, hb0]
  unfold mapBlocks
  by_cases hcond : h.eof = some (wfFile h1 h2 b0 recs).length ∧ h.eof = h.lastEnd
  · -- shortcut taken: eof = size, hence the cached prefix is the whole file
    rw [if_pos hcond]
    have he : h.eof = some (wfFile h1 h2 b0 recs).length := hcond.1
    have heofS : h.eof = some (bofOf h2 b0 + (blocks (recs.take j)).length) := by
      rcases heof with hn | hs
      · rw [hn] at he; cases he
      · exact hs
    clear heof
    rw [heofS, hlen] at he
    have hj : (blocks (recs.take j)).length = (blocks recs).length := by
      have := Option.some.inj he; omega
    have htk := take_eq_of_blocks_length recs j hj
    refine ⟨h.last, ?_⟩
    rw [htk] at htoc heofS
    clear hcond hbof hh2 hb0
    cases h
    simp only at htoc heofS
    subst htoc; subst heofS
    rfl
  · rw [if_neg hcond]
    simp only [hbof, scanFile_wf h1 h2 b0 recs hc, hlen]
    rw [htoc, tocMerge_prefix _ recs j hk]
    refine ⟨lastKey (tocOf (bofOf h2 b0) recs), ?_⟩
    simp

/-- Opening (mode r or a) any handle object whose cache is a prefix of a well-formed file succeeds,
brings it up to date and leaves the file unchanged. -/
theorem openHandle_wf (h : Handle) (h1 h2 b0 : Bytes) (hh : HdrOk h2 b0) (recs : List KV)
    (hc : ∀ r ∈ recs, r.ok) (hk : (recs.map (·.key)).Nodup) (hm : h.mode = .r ∨ h.mode = .a)
    (hpre : ∃ j, h.toc = tocOf (bofOf h2 b0) (recs.take j) ∧
          (h.eof = none ∨ h.eof = some (bofOf h2 b0 + (blocks (recs.take j)).length))) :
    ∃ l, openHandle h (some (wfFile h1 h2 b0 recs)) =
      .ok ({ h with h1 := pad16 h1, h2 := h2, b0 := b0, toc := tocOf (bofOf h2 b0) recs, last := l,
                    eof := some (bofOf h2 b0 + (blocks recs).length), closed := false },
           some (wfFile h1 h2 b0 recs)) := by
  have hrd := readHeader_wf h1 h2 b0 hh recs
  obtain ⟨mode, closed, a1, a2, a3, toc, last, eof⟩ := h
  simp only at hm hpre
  obtain ⟨l, hl⟩ := mapBlocks_wf ⟨mode, closed, pad16 h1, h2, b0, toc, last, eof⟩ h1 h2 b0 recs hc hk rfl rfl hpre
  refine ⟨l, ?_⟩
  rcases hm with rfl | rfl <;> (simp only [openHandle, hrd]; rw [hl])

/-! ### crash images as prefixes of the file after the session; prefixes of record lists -/


theorem take_image (h1 h2 b0 : Bytes) (committed ps : List KV) (n : Nat) :
    (wfFile h1 h2 b0 (committed ++ ps)).take (bofOf h2 b0 + (blocks committed).length + n) =
      image h1 h2 b0 committed ps n := by
  have hl := encHeader_length h1 h2 b0
  unfold wfFile image
  rw [blocks_append, ← List.append_assoc, List.take_append, List.take_of_length_le (by simp; omega)]
  congr 1
  simp only [List.length_append]
  congr 1
  omega

theorem take_eq_of_blocks_length_le (l : List KV) (j : Nat) (h : (blocks l).length ≤ (blocks (l.take j)).length) :
    l.take j = l := by
  have hs : blocks l = blocks (l.take j) ++ blocks (l.drop j) := by
    rw [← blocks_append, List.take_append_drop]
  have hl : (blocks (l.drop j)).length = 0 := by
    have := congrArg List.length hs
    simp only [List.length_append] at this
    omega
  have := blocks_length_ge (l.drop j)
  have hd : l.drop j = [] := List.eq_nil_of_length_eq_zero (by omega)
  conv => rhs; rw [← List.take_append_drop j l, hd, List.append_nil]


end Molli.Lemmas.Ukv
