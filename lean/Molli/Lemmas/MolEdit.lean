/-
Invariant of the edit-history model (`Molli.Model.MolEdit`) and its preservation by every
primitive edit.  Core Lean only.
-/
import Molli.Model.MolEdit
namespace Molli.Lemmas.MolEdit
open Molli.Model.MolEdit

/-- The alignment invariant of a molecule.  (`Inv` is a core name, hence `MInv`.) -/
structure MInv (m : Mol) : Prop where
  /-- the coordinate row at position `i` was given to the atom at position `i` -/
  rowTags : m.rows.map (·.1) = m.ids
  /-- the partial charge at position `i` was given to the atom at position `i` -/
  chargeTags : m.charges.map (·.1) = m.ids
  /-- every partial charge is a number (never Python `None`) -/
  numeric : ∀ c ∈ m.charges, c.2.isSome = true
  /-- no atom object is listed twice -/
  nodup : m.ids.Nodup
  /-- every bond joins two atoms of the molecule -/
  bondEnds : ∀ b ∈ m.bonds, b.a1 ∈ m.ids ∧ b.a2 ∈ m.ids
  /-- no bond object is listed twice -/
  bondNodup : (m.bonds.map (·.id)).Nodup
  /-- every atom reports the molecule as its parent -/
  atomParent : ∀ a ∈ m.atoms, a.parentOk = true
  /-- every bond reports the molecule as its parent -/
  bondParent : ∀ b ∈ m.bonds, b.parentOk = true
  /-- serial numbers of library-made atoms are below the counter -/
  atomFresh : ∀ a ∈ m.ids, ownBelow m.next a = true
  /-- serial numbers of bonds are below the counter -/
  bondFresh : ∀ b ∈ m.bonds, b.id < m.next

/-! ### list facts -/

theorem map_eraseIdx {α β} (f : α → β) : ∀ (l : List α) (i : Nat), (l.eraseIdx i).map f = (l.map f).eraseIdx i
  | [], _ => rfl
  | _ :: _, 0 => rfl
  | a :: l, i + 1 => by simp [List.eraseIdx, map_eraseIdx f l i]

theorem mem_eraseIdx_idxOf_of_ne {l : List AtomId} {x a : AtomId} (hx : x ∈ l) (hne : x ≠ a) :
    x ∈ l.eraseIdx (l.idxOf a) := by
  rw [← List.erase_eq_eraseIdx_of_idxOf rfl]
  exact (List.mem_erase_of_ne hne).mpr hx

theorem not_mem_eraseIdx_idxOf {l : List AtomId} {a : AtomId} (hn : l.Nodup) :
    a ∉ l.eraseIdx (l.idxOf a) := by
  rw [← List.erase_eq_eraseIdx_of_idxOf rfl]
  exact fun h => (List.Nodup.mem_erase_iff hn).mp h |>.1 rfl

theorem ownBelow_mono {n k : Nat} {a : AtomId} (h : n ≤ k) (ha : ownBelow n a = true) : ownBelow k a = true := by
  cases a with
  | ext _ => rfl
  | own j => simp [ownBelow] at *; omega

theorem le_bump (n : Nat) (a : AtomId) : n ≤ bump n a := by
  cases a with
  | ext _ => exact Nat.le_refl _
  | own j => exact Nat.le_max_left _ _

theorem ownBelow_bump (n : Nat) (a : AtomId) : ownBelow (bump n a) a = true := by
  cases a with
  | ext _ => rfl
  | own j =>
    simp only [ownBelow, bump]
    exact decide_eq_true (Nat.lt_of_lt_of_le (Nat.lt_succ_self j) (Nat.le_max_right _ _))

theorem own_not_mem {m : Mol} (h : MInv m) {k : Nat} (hk : m.next ≤ k) : AtomId.own k ∉ m.ids := by
  intro hm
  have := h.atomFresh _ hm
  simp [ownBelow] at this
  omega

/-! ### lengths (one row and one charge per atom) -/

theorem rows_length {m : Mol} (h : MInv m) : m.rows.length = m.atoms.length := by
  have := congrArg List.length h.rowTags
  simpa [Mol.ids] using this

theorem charges_length {m : Mol} (h : MInv m) : m.charges.length = m.atoms.length := by
  have := congrArg List.length h.chargeTags
  simpa [Mol.ids] using this

/-! ### the counter -/

theorem inv_next {m : Mol} (h : MInv m) {k : Nat} (hk : m.next ≤ k) : MInv { m with next := k } :=
  { rowTags := h.rowTags, chargeTags := h.chargeTags, numeric := h.numeric, nodup := h.nodup,
    bondEnds := h.bondEnds, bondNodup := h.bondNodup, atomParent := h.atomParent, bondParent := h.bondParent,
    atomFresh := fun a ha => ownBelow_mono hk (h.atomFresh a ha),
    bondFresh := fun b hb => Nat.lt_of_lt_of_le (h.bondFresh b hb) hk }

/-! ### appending an atom together with its row and charge -/

theorem ids_pushAtom (m : Mol) (s : AtomSpec) (c : Nat) (q : Option Nat) :
    (pushAtom m s c q).ids = m.ids ++ [s.id] := by
  simp [pushAtom, Mol.ids, mkAtom]

theorem inv_pushAtom {m : Mol} (h : MInv m) (s : AtomSpec) (c : Nat) (q : Option Nat) (hs : s.id ∉ m.ids) :
    MInv (pushAtom m s c q) := by
  have hids := ids_pushAtom m s c q
  refine { rowTags := ?_, chargeTags := ?_, numeric := ?_, nodup := ?_, bondEnds := ?_, bondNodup := h.bondNodup,
           atomParent := ?_, bondParent := h.bondParent, atomFresh := ?_, bondFresh := ?_ }
  · rw [hids]; simp [pushAtom, h.rowTags]
  · rw [hids]; simp [pushAtom, h.chargeTags]
  · intro x hx
    simp only [pushAtom, List.mem_append, List.mem_singleton] at hx
    rcases hx with hx | hx
    · exact h.numeric x hx
    · subst hx; rfl
  · rw [hids]
    refine List.nodup_append.mpr ⟨h.nodup, (by simp), ?_⟩
    intro a ha b hb
    simp only [List.mem_singleton] at hb
    subst hb
    exact fun e => hs (e ▸ ha)
  · intro b hb
    rw [hids]
    have := h.bondEnds b hb
    exact ⟨List.mem_append_left _ this.1, List.mem_append_left _ this.2⟩
  · intro a ha
    simp only [pushAtom, List.mem_append, List.mem_singleton] at ha
    rcases ha with ha | ha
    · exact h.atomParent a ha
    · subst ha; rfl
  · intro a ha
    rw [hids] at ha
    simp only [List.mem_append, List.mem_singleton] at ha
    show ownBelow (bump m.next s.id) a = true
    rcases ha with ha | ha
    · exact ownBelow_mono (le_bump _ _) (h.atomFresh a ha)
    · subst ha; exact ownBelow_bump _ _
  · intro b hb
    exact Nat.lt_of_lt_of_le (h.bondFresh b hb) (le_bump _ _)

/-- a library-made atom: the serial number is taken from the counter -/
theorem inv_pushOwn {m : Mol} (h : MInv m) (k : Nat) (hk : m.next < k) (e : Nat) (l : Option Nat) (c : Nat)
    (q : Option Nat) :
    MInv (pushAtom { m with next := k } { id := .own m.next, elem := e, label := l } c q) := by
  apply inv_pushAtom (inv_next h (Nat.le_of_lt hk))
  exact own_not_mem h (Nat.le_refl _)

theorem next_pushOwn (m : Mol) (k : Nat) (hk : m.next < k) (e : Nat) (l : Option Nat) (c : Nat) (q : Option Nat) :
    (pushAtom { m with next := k } { id := .own m.next, elem := e, label := l } c q).next = k := by
  simp [pushAtom, bump]; omega

/-! ### adopting the ends of an appended bond -/

theorem adopt_bonds (m : Mol) (s : AtomSpec) : (adopt m s).bonds = m.bonds := by
  unfold adopt; split <;> simp [pushAtom]

theorem inv_adopt {m : Mol} (h : MInv m) (s : AtomSpec) : MInv (adopt m s) := by
  unfold adopt; split
  · exact h
  · exact inv_pushAtom h s _ _ ‹_›

theorem mem_ids_adopt (m : Mol) (s : AtomSpec) : s.id ∈ (adopt m s).ids := by
  unfold adopt; split
  · assumption
  · rw [ids_pushAtom]; simp

theorem ids_subset_adopt (m : Mol) (s : AtomSpec) : m.ids ⊆ (adopt m s).ids := by
  unfold adopt; split
  · exact fun _ h => h
  · rw [ids_pushAtom]; exact fun _ h => List.mem_append_left _ h

theorem next_le_adopt (m : Mol) (s : AtomSpec) : m.next ≤ (adopt m s).next := by
  unfold adopt; split
  · exact Nat.le_refl _
  · exact le_bump _ _

theorem adopt_with_bonds (m : Mol) (B : List Bond) (s : AtomSpec) :
    adopt { m with bonds := B } s = { adopt m s with bonds := B } := by
  unfold adopt
  by_cases hs : s.id ∈ m.ids
  · have : s.id ∈ ({ m with bonds := B } : Mol).ids := hs
    rw [if_pos hs, if_pos this]
  · have : s.id ∉ ({ m with bonds := B } : Mol).ids := hs
    rw [if_neg hs, if_neg this]; rfl

theorem inv_addBond {m : Mol} (h : MInv m) (b : Bond) (h1 : b.a1 ∈ m.ids) (h2 : b.a2 ∈ m.ids)
    (hp : b.parentOk = true) (hid : b.id < m.next) (hnew : b.id ∉ m.bonds.map (·.id)) :
    MInv { m with bonds := m.bonds ++ [b] } := by
  refine { rowTags := h.rowTags, chargeTags := h.chargeTags, numeric := h.numeric, nodup := h.nodup,
           bondEnds := ?_, bondNodup := ?_, atomParent := h.atomParent, bondParent := ?_,
           atomFresh := h.atomFresh, bondFresh := ?_ }
  · intro x hx
    simp only [List.mem_append, List.mem_singleton] at hx
    rcases hx with hx | hx
    · exact h.bondEnds x hx
    · subst hx; exact ⟨h1, h2⟩
  · simp only [List.map_append, List.map_cons, List.map_nil]
    refine List.nodup_append.mpr ⟨h.bondNodup, (by simp), ?_⟩
    intro a ha c hc
    simp only [List.mem_singleton] at hc
    subst hc
    exact fun e => hnew (e ▸ ha)
  · intro x hx
    simp only [List.mem_append, List.mem_singleton] at hx
    rcases hx with hx | hx
    · exact h.bondParent x hx
    · subst hx; exact hp
  · intro x hx
    simp only [List.mem_append, List.mem_singleton] at hx
    rcases hx with hx | hx
    · exact h.bondFresh x hx
    · subst hx; exact hid

theorem bondId_fresh {m : Mol} (h : MInv m) {k : Nat} (hk : m.next ≤ k) : k ∉ m.bonds.map (·.id) := by
  intro hm
  obtain ⟨b, hb, rfl⟩ := List.mem_map.mp hm
  have := h.bondFresh b hb
  omega

theorem pushBond_eq (m : Mol) (bid : Nat) (x y : AtomSpec) :
    pushBond m bid x y =
      { adopt (adopt m x) y with
        bonds := m.bonds ++ [{ id := bid, a1 := x.id, a2 := y.id, parentOk := true }] } := by
  unfold pushBond
  simp only [adopt_with_bonds]

/-- `append_bond(Bond(x, y))` with a new bond object -/
theorem inv_pushBond {m : Mol} (h : MInv m) (bid : Nat) (hlt : bid < m.next) (hnew : bid ∉ m.bonds.map (·.id))
    (x y : AtomSpec) : MInv (pushBond m bid x y) := by
  rw [pushBond_eq]
  have h2 : MInv (adopt (adopt m x) y) := inv_adopt (inv_adopt h x) y
  have hb : (adopt (adopt m x) y).bonds = m.bonds := by rw [adopt_bonds, adopt_bonds]
  have := inv_addBond h2 { id := bid, a1 := x.id, a2 := y.id, parentOk := true }
    (ids_subset_adopt _ y (mem_ids_adopt m x)) (mem_ids_adopt _ y) rfl
    (Nat.lt_of_lt_of_le hlt (Nat.le_trans (next_le_adopt m x) (next_le_adopt _ y)))
    (by rw [hb]; exact hnew)
  rw [hb] at this
  exact this

theorem inv_pushBondNext {m : Mol} (h : MInv m) (x y : AtomSpec) :
    MInv (pushBond { m with next := m.next + 1 } m.next x y) :=
  inv_pushBond (inv_next h (Nat.le_succ _)) m.next (Nat.lt_succ_self _) (bondId_fresh h (Nat.le_refl _)) x y

/-! ### resolving references -/

theorem find_mem_ids {atoms : List Atom} {p : Atom → Bool} {x : Atom} (h : atoms.find? p = some x) :
    x.id ∈ atoms.map (·.id) :=
  List.mem_map.mpr ⟨x, List.mem_of_find?_eq_some h, rfl⟩

theorem pyIndex_lt {n : Nat} {i : Int} {k : Nat} (h : pyIndex n i = some k) : k < n := by
  unfold pyIndex at h
  split at h
  · split at h
    · cases h; assumption
    · cases h
  · split at h
    · cases h; omega
    · cases h

theorem resolveAtom_mem {atoms : List Atom} {r : Ref} {a : AtomId} (h : resolveAtom atoms r = some a) :
    a ∈ atoms.map (·.id) := by
  cases r with
  | obj b =>
    simp only [resolveAtom] at h
    split at h
    · cases h; assumption
    · cases h
  | idx i =>
    simp only [resolveAtom] at h
    cases hk : pyIndex atoms.length i with
    | none => simp [hk] at h
    | some k =>
      have hlt := pyIndex_lt hk
      simp only [hk, Option.bind_some, List.getElem?_eq_getElem hlt, Option.map_some] at h
      cases h
      exact List.mem_map.mpr ⟨atoms[k], List.getElem_mem hlt, rfl⟩
  | label l =>
    simp only [resolveAtom] at h
    cases hf : atoms.find? (fun x => x.label == some l) with
    | none => simp [hf] at h
    | some x => simp only [hf, Option.map_some] at h; cases h; exact find_mem_ids hf
  | elem e =>
    simp only [resolveAtom] at h
    cases hf : atoms.find? (fun x => x.elem == e) with
    | none => simp [hf] at h
    | some x => simp only [hf, Option.map_some] at h; cases h; exact find_mem_ids hf

/-- `get_atom_index` and `get_atom` agree: the index is the position of the atom object. -/
theorem resolveIndex_spec {atoms : List Atom} (hn : (atoms.map (·.id)).Nodup) {r : Ref} {i : Nat}
    (h : resolveIndex atoms r = some i) :
    ∃ a, resolveAtom atoms r = some a ∧ idxOfId (atoms.map (·.id)) a = i := by
  cases r with
  | obj b =>
    simp only [resolveIndex] at h
    split at h
    · cases h; exact ⟨b, by simp only [resolveAtom]; rw [if_pos ‹_›], rfl⟩
    · cases h
  | idx j =>
    simp only [resolveIndex] at h
    split at h
    · rename_i hj
      cases h
      have hlt : j.toNat < atoms.length := hj.2
      refine ⟨atoms[j.toNat].id, ?_, ?_⟩
      · simp only [resolveAtom, pyIndex]
        rw [if_pos hj.1, if_pos hlt]
        simp [List.getElem?_eq_getElem hlt]
      · have hlt' : j.toNat < (atoms.map (·.id)).length := by simpa using hlt
        have := List.Nodup.idxOf_getElem hn j.toNat hlt'
        simpa [idxOfId] using this
    · cases h
  | label l =>
    simp only [resolveIndex] at h
    cases hf : atoms.find? (fun x => x.label == some l) with
    | none => simp [hf] at h
    | some x =>
      simp only [hf, Option.map_some] at h; cases h
      exact ⟨x.id, by simp [resolveAtom, hf], rfl⟩
  | elem e =>
    simp only [resolveIndex] at h
    cases hf : atoms.find? (fun x => x.elem == e) with
    | none => simp [hf] at h
    | some x =>
      simp only [hf, Option.map_some] at h; cases h
      exact ⟨x.id, by simp [resolveAtom, hf], rfl⟩

/-! ### deleting an atom -/

theorem ids_delAt (m : Mol) (i : Nat) (a : AtomId) : (delAt m i a).ids = m.ids.eraseIdx (idxOfId m.ids a) := by
  simp [delAt, Mol.ids, map_eraseIdx]

theorem inv_delAt {m : Mol} (h : MInv m) (a : AtomId) :
    MInv (delAt m (idxOfId m.ids a) a) := by
  have hids := ids_delAt m (idxOfId m.ids a) a
  refine { rowTags := ?_, chargeTags := ?_, numeric := ?_, nodup := ?_, bondEnds := ?_, bondNodup := ?_,
           atomParent := ?_, bondParent := ?_, atomFresh := ?_, bondFresh := ?_ }
  · rw [hids]; simp [delAt, map_eraseIdx, h.rowTags]
  · rw [hids]; simp [delAt, map_eraseIdx, h.chargeTags]
  · intro c hc
    exact h.numeric c (List.mem_of_mem_eraseIdx hc)
  · rw [hids]; exact h.nodup.eraseIdx _
  · intro b hb
    rw [hids]
    simp only [delAt, List.mem_filter, incident, Bool.not_eq_true', Bool.or_eq_false_iff, beq_eq_false_iff_ne] at hb
    have := h.bondEnds b hb.1
    exact ⟨mem_eraseIdx_idxOf_of_ne this.1 hb.2.1, mem_eraseIdx_idxOf_of_ne this.2 hb.2.2⟩
  · exact h.bondNodup.sublist (List.Sublist.map _ List.filter_sublist)
  · intro x hx
    exact h.atomParent x (List.mem_of_mem_eraseIdx hx)
  · intro b hb
    exact h.bondParent b (List.mem_filter.mp hb).1
  · intro x hx
    rw [hids] at hx
    exact h.atomFresh x (List.mem_of_mem_eraseIdx hx)
  · intro b hb
    exact h.bondFresh b (List.mem_filter.mp hb).1

/-- what `del_atom` does once it succeeds: it is `delAt` at the position of the resolved atom -/
theorem delAtom_ok {m : Mol} (h : MInv m) {r : Ref} {m' : Mol} (hs : delAtom m r = (m', .ok)) :
    ∃ a, resolveAtom m.atoms r = some a ∧ a ∈ m.ids ∧ m' = delAt m (idxOfId m.ids a) a := by
  unfold delAtom at hs
  split at hs
  · split at hs
    · cases hs
    · rename_i i hi
      obtain ⟨a, ha, hidx⟩ := resolveIndex_spec h.nodup hi
      rw [ha] at hs
      simp only [Prod.mk.injEq, and_true] at hs
      exact ⟨a, ha, resolveAtom_mem ha, by rw [← hs]; show delAt m i a = _; rw [← hidx]; rfl⟩
  · split at hs
    · cases hs
    · rename_i a ha
      simp only [Prod.mk.injEq, and_true] at hs
      exact ⟨a, ha, resolveAtom_mem ha, hs.symm⟩

theorem delAtom_err {m : Mol} {r : Ref} {m' : Mol} (hs : delAtom m r = (m', .err)) : m' = m := by
  unfold delAtom at hs
  split at hs
  · split at hs
    · cases hs; rfl
    · split at hs <;> cases hs; rfl
  · split at hs <;> cases hs; rfl

theorem inv_delAtom {m : Mol} (h : MInv m) (r : Ref) : MInv (delAtom m r).1 := by
  cases hs : delAtom m r with
  | mk m' o =>
    cases o with
    | ok =>
      obtain ⟨a, _, _, rfl⟩ := delAtom_ok h hs
      exact inv_delAt h a
    | err => rw [delAtom_err hs]; exact h

theorem inv_delObj {m : Mol} (h : MInv m) (a : AtomId) : MInv (delObj m a) := inv_delAtom h _

theorem inv_foldl_delObj (l : List AtomId) {m : Mol} (h : MInv m) : MInv (l.foldl delObj m) := by
  induction l generalizing m with
  | nil => exact h
  | cons a l ih => exact ih (inv_delObj h a)

theorem next_delAtom (m : Mol) (r : Ref) : (delAtom m r).1.next = m.next := by
  unfold delAtom
  split
  · split
    · rfl
    · split <;> rfl
  · split <;> rfl

theorem next_foldl_delObj (l : List AtomId) (m : Mol) : (l.foldl delObj m).next = m.next := by
  induction l generalizing m with
  | nil => rfl
  | cons a l ih => rw [List.foldl_cons, ih]; exact next_delAtom m _

/-! ### the composite operations -/

theorem inv_connect {m : Mol} (h : MInv m) (r1 r2 : Ref) : MInv (step m (.connect r1 r2)).1 := by
  simp only [step]
  cases h1 : resolveAtom m.atoms r1 with
  | none => exact inv_next h (Nat.le_succ _)
  | some x =>
    cases h2 : resolveAtom m.atoms r2 with
    | none => exact inv_next h (Nat.le_succ _)
    | some y =>
      exact inv_addBond (m := { m with next := m.next + 1 }) (inv_next h (Nat.le_succ _))
        { id := m.next, a1 := x, a2 := y, parentOk := true }
        (resolveAtom_mem h1) (resolveAtom_mem h2) rfl (Nat.lt_succ_self _) (bondId_fresh h (Nat.le_refl _))

theorem inv_appendBonds (l : List (AtomSpec × AtomSpec)) {m : Mol} (h : MInv m) :
    MInv (l.foldl (fun acc p => pushBond { acc with next := acc.next + 1 } acc.next p.1 p.2) m) := by
  induction l generalizing m with
  | nil => exact h
  | cons p l ih => exact ih (inv_pushBondNext h p.1 p.2)

theorem inv_delBond {m : Mol} (h : MInv m) (b : Nat) : MInv (step m (.delBond b)).1 := by
  simp only [step]
  split
  · exact { rowTags := h.rowTags, chargeTags := h.chargeTags, numeric := h.numeric, nodup := h.nodup,
            bondEnds := fun x hx => h.bondEnds x (List.mem_filter.mp hx).1,
            bondNodup := h.bondNodup.sublist (List.Sublist.map _ List.filter_sublist),
            atomParent := h.atomParent,
            bondParent := fun x hx => h.bondParent x (List.mem_filter.mp hx).1,
            atomFresh := h.atomFresh,
            bondFresh := fun x hx => h.bondFresh x (List.mem_filter.mp hx).1 }
  · exact h

theorem ids_delObj_subset (m : Mol) (a : AtomId) : (delObj m a).ids ⊆ m.ids := by
  intro x hx
  unfold delObj delAtom at hx
  split at hx
  · split at hx
    · exact hx
    · split at hx
      · exact hx
      · rw [ids_delAt] at hx; exact List.mem_of_mem_eraseIdx hx
  · split at hx
    · exact hx
    · rw [ids_delAt] at hx; exact List.mem_of_mem_eraseIdx hx

theorem bonds_delObj_subset (m : Mol) (a : AtomId) : (delObj m a).bonds ⊆ m.bonds := by
  intro x hx
  unfold delObj delAtom at hx
  split at hx
  · split at hx
    · exact hx
    · split at hx
      · exact hx
      · exact (List.mem_filter.mp hx).1
  · split at hx
    · exact hx
    · exact (List.mem_filter.mp hx).1

theorem ids_foldl_delObj_subset (l : List AtomId) (m : Mol) : (l.foldl delObj m).ids ⊆ m.ids := by
  induction l generalizing m with
  | nil => exact fun _ hx => hx
  | cons a l ih => exact fun x hx => ids_delObj_subset m a (ih (delObj m a) hx)

theorem bonds_foldl_delObj_subset (l : List AtomId) (m : Mol) : (l.foldl delObj m).bonds ⊆ m.bonds := by
  induction l generalizing m with
  | nil => exact fun _ hx => hx
  | cons a l ih => exact fun x hx => bonds_delObj_subset m a (ih (delObj m a) hx)

theorem inv_removeSubstituent {m : Mol} (h : MInv m) (r1 r2 : Ref) (l : Option Nat) :
    MInv (step m (.removeSubstituent r1 r2 l)).1 := by
  have h0 : MInv { m with next := m.next + 2 } := inv_next h (by omega)
  simp only [step]
  cases hi : resolveIndex m.atoms r2 with
  | none => exact h0
  | some i2 =>
    dsimp only
    cases hrow : m.rows[i2]? with
    | none => exact h0
    | some row2 =>
      dsimp only
      cases h1 : resolveAtom m.atoms r1 with
      | none => exact h0
      | some a1 =>
        cases h2 : resolveAtom m.atoms r2 with
        | none => exact h0
        | some a2 =>
          dsimp only
          split
          · -- after the deletions
            have hd : MInv ((substituent m a1 a2).foldl delObj { m with next := m.next + 2 }) :=
              inv_foldl_delObj _ h0
            have hn : ((substituent m a1 a2).foldl delObj { m with next := m.next + 2 }).next = m.next + 2 :=
              next_foldl_delObj _ _
            -- the attachment point: a library-made atom with serial number `m.next`
            have hfresh : AtomId.own m.next ∉
                ((substituent m a1 a2).foldl delObj { m with next := m.next + 2 }).ids :=
              fun hm => own_not_mem h (Nat.le_refl _)
                (ids_foldl_delObj_subset (substituent m a1 a2) { m with next := m.next + 2 } hm)
            have hp := inv_pushAtom hd { id := .own m.next, elem := 0, label := l } row2.2 none hfresh
            have hpn : (pushAtom ((substituent m a1 a2).foldl delObj { m with next := m.next + 2 })
                { id := .own m.next, elem := 0, label := l } row2.2 none).next = m.next + 2 := by
              simp only [pushAtom, bump, hn]; omega
            split
            · rename_i x hx
              refine inv_addBond hp { id := m.next + 1, a1 := x, a2 := .own m.next, parentOk := true }
                (resolveAtom_mem hx) ?_ rfl (by rw [hpn]; show m.next + 1 < m.next + 2; omega) ?_
              · rw [ids_pushAtom]; simp
              · intro hm
                obtain ⟨b, hb, hbid⟩ := List.mem_map.mp hm
                have hb' : b ∈ ((substituent m a1 a2).foldl delObj { m with next := m.next + 2 }).bonds := hb
                have := h.bondFresh b
                  (bonds_foldl_delObj_subset (substituent m a1 a2) { m with next := m.next + 2 } hb')
                simp only at hbid
                omega
            · exact hp
          · exact h0

theorem inv_addHydrogens (hs : List (AtomId × Nat)) {m : Mol} (h : MInv m) :
    MInv (step m (.addHydrogens hs)).1 := by
  simp only [step]
  induction hs generalizing m with
  | nil => exact h
  | cons x hs ih =>
    rw [List.foldl_cons]
    apply ih
    split
    · rename_i hx
      have hp := inv_pushOwn h (m.next + 2) (by omega) 1 none x.2 none
      have hn := next_pushOwn m (m.next + 2) (by omega) 1 none x.2 none
      refine inv_addBond hp { id := m.next + 1, a1 := x.1, a2 := .own m.next, parentOk := true }
        ?_ ?_ rfl (by rw [hn]; show m.next + 1 < m.next + 2; omega) ?_
      · rw [ids_pushAtom]; exact List.mem_append_left _ hx
      · rw [ids_pushAtom]; simp
      · intro hm
        obtain ⟨b, hb, hbid⟩ := List.mem_map.mp hm
        have := h.bondFresh b hb
        simp only at hbid
        omega
    · exact inv_next h (by omega)

theorem inv_empty (k : Kind) : MInv (emptyMol k) :=
  { rowTags := rfl, chargeTags := rfl, numeric := by simp [emptyMol], nodup := by simp [emptyMol, Mol.ids],
    bondEnds := by simp [emptyMol], bondNodup := by simp [emptyMol], atomParent := by simp [emptyMol],
    bondParent := by simp [emptyMol], atomFresh := by simp [emptyMol, Mol.ids], bondFresh := by simp [emptyMol] }

theorem inv_loaded (k : Kind) (specs : List LoadAtom) (bonds : List (Nat × Nat)) : MInv (loaded k specs bonds) := by
  unfold loaded
  have h1 : ∀ (l : List LoadAtom) (m : Mol), MInv m →
      MInv (l.foldl (fun acc s =>
        pushAtom { acc with next := acc.next + 1 } { id := .own acc.next, elem := s.elem, label := s.label }
          s.coord (some s.charge)) m) := by
    intro l
    induction l with
    | nil => exact fun m h => h
    | cons s l ih => exact fun m h => ih _ (inv_pushOwn h (m.next + 1) (Nat.lt_succ_self _) _ _ _ _)
  have h2 : ∀ (l : List (Nat × Nat)) (m : Mol), MInv m →
      MInv (l.foldl (fun acc p => (step acc (.connect (.idx (Int.ofNat p.1)) (.idx (Int.ofNat p.2)))).1) m) := by
    intro l
    induction l with
    | nil => exact fun m h => h
    | cons p l ih => exact fun m h => ih _ (inv_connect h _ _)
  exact h2 _ _ (h1 _ _ (inv_empty k))

/-! ### views: rows are located through the atom objects at access time -/

/-- two lists related element by element -/
inductive Rel2 {α β : Type} (R : α → β → Prop) : List α → List β → Prop
  | nil : Rel2 R [] []
  | cons {a b as bs} : R a b → Rel2 R as bs → Rel2 R (a :: as) (b :: bs)

theorem Rel2.imp {α β : Type} {R S : α → β → Prop} (hrs : ∀ a b, R a b → S a b) {as : List α} {bs : List β}
    (h : Rel2 R as bs) : Rel2 S as bs := by
  induction h with
  | nil => exact .nil
  | cons h1 _ ih => exact .cons (hrs _ _ h1) ih

theorem set_idxOf_self {ids : List AtomId} {a : AtomId} (ha : a ∈ ids) : ids.set (ids.idxOf a) a = ids := by
  have hlt : ids.idxOf a < ids.length := List.idxOf_lt_length_of_mem ha
  have hg : ids[ids.idxOf a] = a := List.getElem_idxOf hlt
  calc ids.set (ids.idxOf a) a = ids.set (ids.idxOf a) ids[ids.idxOf a] := by rw [hg]
    _ = ids := List.set_getElem_self hlt

/-- the indices a view computes are the positions of its atom objects -/
theorem viewIndices_spec {m : Mol} : ∀ {as : List AtomId} {is : List Nat}, viewIndices m as = some is →
    Rel2 (fun a i => a ∈ m.ids ∧ i = m.ids.idxOf a) as is := by
  intro as
  induction as with
  | nil => intro is h; simp only [viewIndices, Option.some.injEq] at h; subst h; exact .nil
  | cons a as ih =>
    intro is h
    simp only [viewIndices] at h
    cases hi : resolveIndex m.atoms (.obj a) with
    | none => simp [hi] at h
    | some i =>
      cases hr : viewIndices m as with
      | none => simp [hi, hr] at h
      | some is' =>
        simp only [hi, hr, Option.some.injEq] at h
        subst h
        refine .cons ?_ (ih hr)
        simp only [resolveIndex] at hi
        split at hi
        · rename_i hm
          cases hi
          exact ⟨hm, rfl⟩
        · cases hi

theorem viewIndices_defined {m : Mol} : ∀ (as : List AtomId), (∀ a ∈ as, a ∈ m.ids) → (viewIndices m as).isSome = true := by
  intro as
  induction as with
  | nil => intro _; rfl
  | cons a as ih =>
    intro h
    have ha : a ∈ m.atoms.map (·.id) := h a (List.mem_cons_self)
    have hr := ih (fun x hx => h x (List.mem_cons_of_mem _ hx))
    cases hv : viewIndices m as with
    | none => simp [hv] at hr
    | some is => simp [viewIndices, resolveIndex, ha, hv]

theorem tags_writeRows {ids : List AtomId} : ∀ (is : List Nat) (as : List AtomId) (ps : List Nat)
    (rows : List (AtomId × Nat)), rows.map (·.1) = ids →
    Rel2 (fun a i => a ∈ ids ∧ i = ids.idxOf a) as is → (writeRows rows is as ps).map (·.1) = ids := by
  intro is
  induction is with
  | nil => intro as ps rows h _; cases as <;> cases ps <;> exact h
  | cons i is ih =>
    intro as ps rows h hf
    cases as with
    | nil => exact h
    | cons a as =>
      cases ps with
      | nil => exact h
      | cons p ps =>
        cases hf with
        | cons hh ht =>
          simp only [writeRows]
          apply ih as ps _ _ ht
          rw [List.map_set, h, hh.2]
          exact set_idxOf_self hh.1

theorem writeRows_frame : ∀ (is : List Nat) (as : List AtomId) (ps : List Nat) (rows : List (AtomId × Nat)) (j : Nat),
    j ∉ is → (writeRows rows is as ps)[j]? = rows[j]? := by
  intro is
  induction is with
  | nil => intro as ps rows j _; cases as <;> cases ps <;> rfl
  | cons i is ih =>
    intro as ps rows j hj
    cases as with
    | nil => rfl
    | cons a as =>
      cases ps with
      | nil => rfl
      | cons p ps =>
        simp only [writeRows]
        rw [ih as ps _ j (fun h => hj (List.mem_cons_of_mem _ h))]
        exact List.getElem?_set_ne (fun e => hj (by subst e; exact List.mem_cons_self))

/-- an entry is in a tagged list iff it sits at the position of its atom -/
theorem mem_tagged_iff {β} {l : List (AtomId × β)} {ids : List AtomId} (ht : l.map (·.1) = ids) (hn : ids.Nodup)
    {a : AtomId} {p : β} : (a, p) ∈ l ↔ l[ids.idxOf a]? = some (a, p) := by
  constructor
  · intro hm
    obtain ⟨j, hj⟩ := List.mem_iff_getElem?.mp hm
    have hida : ids[j]? = some a := by rw [← ht, List.getElem?_map, hj]; rfl
    have hlt : j < ids.length := by
      rcases Nat.lt_or_ge j ids.length with h | h
      · exact h
      · rw [List.getElem?_eq_none h] at hida; cases hida
    rw [List.getElem?_eq_getElem hlt] at hida
    have := List.Nodup.idxOf_getElem hn j hlt
    rw [Option.some.inj hida] at this
    rw [this]; exact hj
  · exact fun h => List.mem_of_getElem? h

theorem idxOf_inj {ids : List AtomId} {a b : AtomId} (ha : a ∈ ids) (hb : b ∈ ids) (h : ids.idxOf a = ids.idxOf b) : a = b := by
  have h1 : ids[ids.idxOf a]'(List.idxOf_lt_length_of_mem ha) = a := List.getElem_idxOf _
  have h2 : ids[ids.idxOf b]'(List.idxOf_lt_length_of_mem hb) = b := List.getElem_idxOf _
  rw [← h1, ← h2]
  congr 1

/-- a write through a view lands on the rows of the view's own atoms -/
theorem writeRows_lands {ids : List AtomId} : ∀ (is : List Nat) (as : List AtomId) (ps : List Nat)
    (rows : List (AtomId × Nat)), rows.length = ids.length → as.Nodup → ps.length = as.length →
    Rel2 (fun a i => a ∈ ids ∧ i = ids.idxOf a) as is →
    Rel2 (fun a p => (writeRows rows is as ps)[ids.idxOf a]? = some (a, p)) as ps := by
  intro is
  induction is with
  | nil =>
    intro as ps rows _ _ hl hf
    cases hf
    cases ps with
    | nil => exact .nil
    | cons _ _ => simp at hl
  | cons i is ih =>
    intro as ps rows hlen hn hl hf
    cases as with
    | nil => cases hf
    | cons a as =>
      cases ps with
      | nil => simp at hl
      | cons p ps =>
        cases hf with
        | cons hh ht =>
          simp only [List.nodup_cons] at hn
          simp only [writeRows]
          refine .cons ?_ (ih as ps _ (by simpa using hlen) hn.2 (by simpa using hl) ht)
          -- no later write goes to the row of `a`
          have hni : ids.idxOf a ∉ is := by
            intro hmem
            -- some later atom has the same index, hence is `a`
            have : ∀ (as' : List AtomId) (is' : List Nat),
                Rel2 (fun a i => a ∈ ids ∧ i = ids.idxOf a) as' is' → ids.idxOf a ∈ is' → a ∈ as' := by
              intro as' is' hf'
              induction hf' with
              | nil => intro h; cases h
              | cons h1 _ ih' =>
                intro h
                rcases List.mem_cons.mp h with h | h
                · rw [h1.2] at h
                  exact (idxOf_inj hh.1 h1.1 h) ▸ List.mem_cons_self
                · exact List.mem_cons_of_mem _ (ih' h)
            exact hn.1 (this as is ht hmem)
          rw [writeRows_frame is as ps _ _ hni, hh.2]
          have hlt : ids.idxOf a < rows.length := hlen ▸ List.idxOf_lt_length_of_mem hh.1
          simp [List.getElem?_set_self hlt]

theorem inv_viewWrite {m : Mol} (h : MInv m) (as : List AtomId) (ps : List Nat) :
    MInv (step m (.viewWrite as ps)).1 := by
  simp only [step]
  cases hv : viewIndices m as with
  | none => exact h
  | some is =>
    dsimp only
    split
    · exact { rowTags := tags_writeRows (ids := m.ids) is as ps m.rows h.rowTags (viewIndices_spec (m := m) hv),
              chargeTags := h.chargeTags, numeric := h.numeric, nodup := h.nodup, bondEnds := h.bondEnds,
              bondNodup := h.bondNodup, atomParent := h.atomParent, bondParent := h.bondParent,
              atomFresh := h.atomFresh, bondFresh := h.bondFresh }
    · exact h

/-! ### bond objects that exist already (stale handles) -/

theorem bondIds_pushBond (m : Mol) (bid : Nat) (x y : AtomSpec) :
    (pushBond m bid x y).bonds.map (·.id) = m.bonds.map (·.id) ++ [bid] := by
  rw [pushBond_eq]; simp

theorem inv_appendBondObj {m : Mol} (h : MInv m) (b : Nat) (x y : AtomSpec) (hb : b ∉ m.bonds.map (·.id)) :
    MInv (pushBond { m with next := max m.next (b + 1) } b x y) :=
  inv_pushBond (inv_next h (Nat.le_max_left _ _)) b
    (Nat.lt_of_lt_of_le (Nat.lt_succ_self b) (Nat.le_max_right _ _)) hb x y

theorem inv_appendBondObjs (l : List (Nat × AtomSpec × AtomSpec)) : ∀ {m : Mol}, MInv m →
    (∀ p ∈ l, p.1 ∉ m.bonds.map (·.id)) → (l.map (·.1)).Nodup →
    MInv (l.foldl (fun acc p => pushBond { acc with next := max acc.next (p.1 + 1) } p.1 p.2.1 p.2.2) m) := by
  induction l with
  | nil => intro m h _ _; exact h
  | cons p l ih =>
    intro m h hnm hnd
    simp only [List.map_cons, List.nodup_cons] at hnd
    rw [List.foldl_cons]
    apply ih (inv_appendBondObj h p.1 p.2.1 p.2.2 (hnm p (List.mem_cons_self)))
    · intro q hq hmem
      rw [bondIds_pushBond] at hmem
      simp only [List.mem_append, List.mem_singleton] at hmem
      rcases hmem with hmem | hmem
      · exact hnm q (List.mem_cons_of_mem _ hq) hmem
      · exact hnd.1 (hmem ▸ List.mem_map.mpr ⟨q, hq, rfl⟩)
    · exact hnd.2

theorem inv_chargeWrite {m : Mol} (h : MInv m) (ps : List Nat) : MInv (step m (.chargeWrite ps)).1 := by
  simp only [step]
  split
  · rename_i hl
    refine { rowTags := h.rowTags, chargeTags := ?_, numeric := ?_, nodup := h.nodup, bondEnds := h.bondEnds,
             bondNodup := h.bondNodup, atomParent := h.atomParent, bondParent := h.bondParent,
             atomFresh := h.atomFresh, bondFresh := h.bondFresh }
    · show (List.zipWith (fun a p => (a.id, some p)) m.atoms ps).map (·.1) = m.atoms.map (·.id)
      have : ∀ (as : List Atom) (ps : List Nat), ps.length = as.length →
          (List.zipWith (fun a p => (a.id, some p)) as ps).map (·.1) = as.map (·.id) := by
        intro as
        induction as with
        | nil => intro ps _; simp
        | cons a as ih =>
          intro ps hl
          cases ps with
          | nil => simp at hl
          | cons p ps => simp [ih ps (by simpa using hl)]
      exact this m.atoms ps hl
    · intro c hc
      have : ∀ (as : List Atom) (ps : List Nat) (c : AtomId × Option Nat),
          c ∈ List.zipWith (fun a p => (a.id, some p)) as ps → c.2.isSome = true := by
        intro as
        induction as with
        | nil => intro ps c h; simp at h
        | cons a as ih =>
          intro ps c h
          cases ps with
          | nil => simp at h
          | cons p ps =>
            simp only [List.zipWith_cons_cons, List.mem_cons] at h
            rcases h with h | h
            · subst h; rfl
            · exact ih ps c h
      exact this m.atoms ps c hc
  · exact h

/-- every operation preserves the invariant -/
theorem inv_step {m : Mol} (h : MInv m) (op : Op) : MInv (step m op).1 := by
  cases op with
  | addAtom s c q =>
    simp only [step]; split
    · exact h
    · exact inv_pushAtom h s c q ‹_›
  | addAtomBad s => exact h
  | newAtom e l c => exact inv_pushOwn h (m.next + 1) (Nat.lt_succ_self _) e l c none
  | delAtom r => exact inv_delAtom h r
  | connect r1 r2 => exact inv_connect h r1 r2
  | appendBond x y => exact inv_pushBondNext h x y
  | appendBonds l => exact inv_appendBonds l h
  | delBond b => exact inv_delBond h b
  | removeSubstituent r1 r2 l => exact inv_removeSubstituent h r1 r2 l
  | addHydrogens hs => exact inv_addHydrogens hs h
  | mkView refs => exact h
  | viewLocal => exact h
  | chargeWrite ps => exact inv_chargeWrite h ps
  | viewRead as => exact h
  | viewWrite as ps => exact inv_viewWrite h as ps
  | appendBondObj b x y =>
    simp only [step]; split
    · exact h
    · exact inv_appendBondObj h b x y ‹_›
  | appendBondObjs l =>
    simp only [step]; split
    · rename_i hc
      exact inv_appendBondObjs l h hc.1 hc.2
    · exact h

theorem inv_run (ops : List Op) {m : Mol} (h : MInv m) : MInv (run m ops) := by
  unfold run
  induction ops generalizing m with
  | nil => exact h
  | cons o ops ih => exact ih (inv_step h o)

/-! ### the executable check `invB` is sound for `MInv` -/

theorem invB_sound {m : Mol} (hb : invB m = true) : MInv m := by
  simp only [invB, Bool.and_eq_true, beq_iff_eq, List.all_eq_true, decide_eq_true_eq] at hb
  obtain ⟨⟨⟨⟨⟨⟨⟨⟨⟨h1, h2⟩, h3⟩, h4⟩, h5⟩, h6⟩, h7⟩, h8⟩, h9⟩, h10⟩ := hb
  exact { rowTags := h1, chargeTags := h2, numeric := h3, nodup := h4, bondEnds := h5, bondNodup := h6,
          atomParent := h7, bondParent := h8, atomFresh := h9, bondFresh := h10 }

/-! ### what an edit keeps: the payloads of the atoms that stay -/

/-- `m'` still holds, for atom `a`, every row and charge `m` held for it -/
def Keeps (m m' : Mol) (a : AtomId) : Prop :=
  (∀ p, (a, p) ∈ m.rows → (a, p) ∈ m'.rows) ∧ (∀ q, (a, q) ∈ m.charges → (a, q) ∈ m'.charges)

theorem Keeps.refl (m : Mol) (a : AtomId) : Keeps m m a := ⟨fun _ h => h, fun _ h => h⟩

theorem Keeps.trans {m1 m2 m3 : Mol} {a : AtomId} (h12 : Keeps m1 m2 a) (h23 : Keeps m2 m3 a) : Keeps m1 m3 a :=
  ⟨fun p h => h23.1 p (h12.1 p h), fun q h => h23.2 q (h12.2 q h)⟩

theorem keeps_of_sub {m m' : Mol} (a : AtomId) (hr : m.rows ⊆ m'.rows) (hc : m.charges ⊆ m'.charges) : Keeps m m' a :=
  ⟨fun _ h => hr h, fun _ h => hc h⟩

theorem keeps_pushAtom (m : Mol) (s : AtomSpec) (c : Nat) (q : Option Nat) (a : AtomId) :
    Keeps m (pushAtom m s c q) a :=
  keeps_of_sub a (fun _ h => List.mem_append_left _ h) (fun _ h => List.mem_append_left _ h)

theorem keeps_adopt (m : Mol) (s : AtomSpec) (a : AtomId) : Keeps m (adopt m s) a := by
  unfold adopt; split
  · exact Keeps.refl _ _
  · exact keeps_pushAtom _ _ _ _ _

theorem keeps_pushBond (m : Mol) (bid : Nat) (x y : AtomSpec) (a : AtomId) : Keeps m (pushBond m bid x y) a := by
  rw [pushBond_eq]
  exact Keeps.trans (keeps_adopt m x a) (keeps_adopt _ y a)

theorem mem_eraseIdx_of_tag {β} {l : List (AtomId × β)} {ids : List AtomId} (htag : l.map (·.1) = ids)
    (hn : ids.Nodup) {a b : AtomId} {p : β} (hp : (a, p) ∈ l) (ha : a ∈ ids.eraseIdx (ids.idxOf b)) :
    (a, p) ∈ l.eraseIdx (ids.idxOf b) := by
  have hab : a ≠ b := fun e => not_mem_eraseIdx_idxOf hn (e ▸ ha)
  obtain ⟨j, hj⟩ := List.mem_iff_getElem?.mp hp
  refine List.mem_eraseIdx_iff_getElem?.mpr ⟨j, ?_, hj⟩
  intro hje
  have hida : ids[j]? = some a := by
    rw [← htag, List.getElem?_map, hj]; rfl
  have hlt : j < ids.length := by
    rcases Nat.lt_or_ge j ids.length with h | h
    · exact h
    · rw [List.getElem?_eq_none h] at hida; cases hida
  have hbm : b ∈ ids := List.idxOf_lt_length_iff.mp (hje ▸ hlt)
  have : ids[j] = b := by
    subst hje
    exact List.getElem_idxOf hlt
  rw [List.getElem?_eq_getElem hlt, this] at hida
  exact hab (Option.some.inj hida).symm

theorem keeps_delAt {m : Mol} (h : MInv m) (b a : AtomId)
    (ha : a ∈ (delAt m (idxOfId m.ids b) b).ids) : Keeps m (delAt m (idxOfId m.ids b) b) a := by
  rw [ids_delAt] at ha
  exact ⟨fun p hp => mem_eraseIdx_of_tag h.rowTags h.nodup hp ha,
         fun q hq => mem_eraseIdx_of_tag h.chargeTags h.nodup hq ha⟩

theorem keeps_delAtom {m : Mol} (h : MInv m) (r : Ref) (a : AtomId) (ha : a ∈ (delAtom m r).1.ids) :
    Keeps m (delAtom m r).1 a := by
  cases hs : delAtom m r with
  | mk m' o =>
    rw [hs] at ha
    cases o with
    | ok =>
      obtain ⟨b, _, _, rfl⟩ := delAtom_ok h hs
      exact keeps_delAt h b a ha
    | err => rw [delAtom_err hs]; exact Keeps.refl _ _

theorem keeps_foldl_delObj (l : List AtomId) {m : Mol} (h : MInv m) (a : AtomId)
    (ha : a ∈ (l.foldl delObj m).ids) : Keeps m (l.foldl delObj m) a := by
  induction l generalizing m with
  | nil => exact Keeps.refl _ _
  | cons b l ih =>
    have h1 : a ∈ (delObj m b).ids := ids_foldl_delObj_subset l (delObj m b) ha
    exact Keeps.trans (keeps_delAtom h _ a h1) (ih (inv_delObj h b) ha)

theorem idx_not_mem_of_not_mem {ids : List AtomId} {a : AtomId} (ha : a ∈ ids) : ∀ (as : List AtomId) (is : List Nat),
    Rel2 (fun a i => a ∈ ids ∧ i = ids.idxOf a) as is → a ∉ as → ids.idxOf a ∉ is := by
  intro as is hf
  induction hf with
  | nil => intro _ h; cases h
  | cons h1 _ ih =>
    intro hna h
    rcases List.mem_cons.mp h with h | h
    · rw [h1.2] at h
      exact hna ((idxOf_inj ha h1.1 h) ▸ List.mem_cons_self)
    · exact ih (fun hm => hna (List.mem_cons_of_mem _ hm)) h

/-- a write through a view leaves the rows of all other atoms alone -/
theorem keeps_viewWrite {m : Mol} (h : MInv m) (as : List AtomId) (ps : List Nat) (a : AtomId) (ha : a ∈ m.ids)
    (hna : a ∉ as) : Keeps m (step m (.viewWrite as ps)).1 a := by
  have h' := inv_viewWrite h as ps
  simp only [step] at h' ⊢
  cases hv : viewIndices m as with
  | none => exact Keeps.refl _ _
  | some is =>
    rw [hv] at h'
    dsimp only at h' ⊢
    split
    · rename_i hl
      rw [if_pos hl] at h'
      refine ⟨fun p hp => ?_, fun q hq => hq⟩
      have hidx := idx_not_mem_of_not_mem ha as is (viewIndices_spec (m := m) hv) hna
      have e1 := (mem_tagged_iff h.rowTags h.nodup (a := a) (p := p)).mp hp
      exact (mem_tagged_iff (ids := m.ids) h'.rowTags h.nodup).mpr (by
        show (writeRows m.rows is as ps)[m.ids.idxOf a]? = some (a, p)
        rw [writeRows_frame is as ps m.rows _ hidx]; exact e1)
    · exact Keeps.refl _ _

/-- Every edit keeps, for every atom that is still in the molecule afterwards, the coordinate row and
the partial charge the atom had. -/
theorem keeps_step {m : Mol} (h : MInv m) (op : Op) (a : AtomId) (ha0 : a ∈ m.ids)
    (ha : a ∈ (step m op).1.ids) (hw : ∀ as ps, op = .viewWrite as ps → a ∉ as)
    (hq : ∀ ps, op ≠ .chargeWrite ps) : Keeps m (step m op).1 a := by
  cases op with
  | chargeWrite ps => exact absurd rfl (hq ps)
  | mkView refs => exact Keeps.refl _ _
  | viewLocal => exact Keeps.refl _ _
  | viewRead as => exact Keeps.refl _ _
  | viewWrite as ps => exact keeps_viewWrite h as ps a ha0 (hw as ps rfl)
  | appendBondObj b x y =>
    simp only [step]; split
    · exact Keeps.refl _ _
    · have := keeps_pushBond { m with next := max m.next (b + 1) } b x y a
      exact ⟨fun p hp => this.1 p hp, fun q hq => this.2 q hq⟩
  | appendBondObjs l =>
    simp only [step]; split
    · have : ∀ (l : List (Nat × AtomSpec × AtomSpec)) (m : Mol),
          Keeps m (l.foldl (fun acc p => pushBond { acc with next := max acc.next (p.1 + 1) } p.1 p.2.1 p.2.2) m) a := by
        intro l
        induction l with
        | nil => exact fun m => Keeps.refl _ _
        | cons p l ih =>
          intro m
          rw [List.foldl_cons]
          have k1 := keeps_pushBond { m with next := max m.next (p.1 + 1) } p.1 p.2.1 p.2.2 a
          exact Keeps.trans ⟨fun r hr => k1.1 r hr, fun q hq => k1.2 q hq⟩ (ih _)
      exact this l m
    · exact Keeps.refl _ _
  | addAtom s c q =>
    simp only [step]; split
    · exact Keeps.refl _ _
    · exact keeps_pushAtom _ _ _ _ _
  | addAtomBad s => exact Keeps.refl _ _
  | newAtom e l c => exact keeps_pushAtom { m with next := m.next + 1 } _ _ _ _
  | delAtom r => exact keeps_delAtom h r a ha
  | connect r1 r2 =>
    simp only [step]
    cases resolveAtom m.atoms r1 <;> cases resolveAtom m.atoms r2 <;> exact ⟨fun _ hp => hp, fun _ hq => hq⟩
  | appendBond x y => exact keeps_pushBond { m with next := m.next + 1 } _ _ _ _
  | appendBonds l =>
    simp only [step]
    have : ∀ (l : List (AtomSpec × AtomSpec)) (m : Mol),
        Keeps m (l.foldl (fun acc p => pushBond { acc with next := acc.next + 1 } acc.next p.1 p.2) m) a := by
      intro l
      induction l with
      | nil => exact fun m => Keeps.refl _ _
      | cons p l ih =>
        exact fun m => Keeps.trans (keeps_pushBond { m with next := m.next + 1 } m.next p.1 p.2 a) (ih _)
    exact this l m
  | delBond b =>
    simp only [step]; split
    · exact ⟨fun _ hp => hp, fun _ hq => hq⟩
    · exact Keeps.refl _ _
  | removeSubstituent r1 r2 l =>
    have k0 : Keeps m { m with next := m.next + 2 } a := ⟨fun _ hp => hp, fun _ hq => hq⟩
    simp only [step] at ha ⊢
    cases hi : resolveIndex m.atoms r2 with
    | none => exact k0
    | some i2 =>
      rw [hi] at ha
      dsimp only at ha ⊢
      cases hrow : m.rows[i2]? with
      | none => exact k0
      | some row2 =>
        rw [hrow] at ha
        dsimp only at ha ⊢
        cases h1 : resolveAtom m.atoms r1 with
        | none => exact k0
        | some a1 =>
          cases h2 : resolveAtom m.atoms r2 with
          | none => exact k0
          | some a2 =>
            rw [h1, h2] at ha
            dsimp only at ha ⊢
            split
            · rename_i hnb
              rw [if_pos hnb] at ha
              have h0 : MInv { m with next := m.next + 2 } := inv_next h (by omega)
              have hne : a ≠ AtomId.own m.next := fun e => own_not_mem h (Nat.le_refl _) (e ▸ ha0)
              -- `a` is still there after the deletions
              have had : a ∈ ((substituent m a1 a2).foldl delObj { m with next := m.next + 2 }).ids := by
                have hx : a ∈ (pushAtom ((substituent m a1 a2).foldl delObj { m with next := m.next + 2 })
                    { id := .own m.next, elem := 0, label := l } row2.2 none).ids := by
                  split at ha <;> exact ha
                rw [ids_pushAtom] at hx
                simp only [List.mem_append, List.mem_singleton] at hx
                rcases hx with hx | hx
                · exact hx
                · exact absurd hx hne
              have kd := keeps_foldl_delObj (substituent m a1 a2) h0 a had
              have kp := keeps_pushAtom ((substituent m a1 a2).foldl delObj { m with next := m.next + 2 })
                { id := .own m.next, elem := 0, label := l } row2.2 none a
              have kall := Keeps.trans k0 (Keeps.trans kd kp)
              split
              · exact ⟨fun p hp => kall.1 p hp, fun q hq => kall.2 q hq⟩
              · exact kall
            · exact k0
  | addHydrogens hs =>
    simp only [step]
    have : ∀ (hs : List (AtomId × Nat)) (m : Mol),
        Keeps m (hs.foldl (fun acc h =>
          let acc0 := { acc with next := acc.next + 2 }
          if h.1 ∈ acc.ids then
            let acc1 := pushAtom acc0 { id := .own acc.next, elem := 1, label := none } h.2 none
            { acc1 with bonds := acc1.bonds ++ [{ id := acc.next + 1, a1 := h.1, a2 := .own acc.next, parentOk := true }] }
          else acc0) m) a := by
      intro hs
      induction hs with
      | nil => exact fun m => Keeps.refl _ _
      | cons x hs ih =>
        intro m
        rw [List.foldl_cons]
        refine Keeps.trans ?_ (ih _)
        dsimp only
        split
        · have := keeps_pushAtom { m with next := m.next + 2 } { id := .own m.next, elem := 1, label := none } x.2 none a
          exact ⟨fun p hp => this.1 p hp, fun q hq => this.2 q hq⟩
        · exact ⟨fun _ hp => hp, fun _ hq => hq⟩
    exact this hs m

/-- the row (charge) of an atom is unique: two entries with the same tag are the same entry -/
theorem tagged_unique {β} {l : List (AtomId × β)} (hn : (l.map (·.1)).Nodup) {a : AtomId} {p q : β}
    (hp : (a, p) ∈ l) (hq : (a, q) ∈ l) : p = q := by
  induction l with
  | nil => cases hp
  | cons x l ih =>
    simp only [List.map_cons, List.nodup_cons] at hn
    rcases List.mem_cons.mp hp with hp | hp <;> rcases List.mem_cons.mp hq with hq | hq
    · rw [← hp] at hq; exact (Prod.mk.inj hq).2.symm ▸ rfl
    · exact absurd (List.mem_map.mpr ⟨(a, q), hq, rfl⟩) (by rw [← hp] at hn; exact hn.1)
    · exact absurd (List.mem_map.mpr ⟨(a, p), hp, rfl⟩) (by rw [← hq] at hn; exact hn.1)
    · exact ih hn.2 hp hq

/-- what a view reads are the rows of its own atoms -/
theorem rowsAt_spec {ids : List AtomId} {rows : List (AtomId × Nat)} (ht : rows.map (·.1) = ids) :
    ∀ {as : List AtomId} {is : List Nat} {ps : List Nat}, Rel2 (fun a i => a ∈ ids ∧ i = ids.idxOf a) as is →
    rowsAt rows is = some ps → Rel2 (fun a p => (a, p) ∈ rows) as ps := by
  intro as is ps hf
  induction hf generalizing ps with
  | nil => intro h; simp only [rowsAt, Option.some.injEq] at h; subst h; exact .nil
  | @cons a i as is h1 _ ih =>
    intro h
    simp only [rowsAt] at h
    cases hr : rows[i]? with
    | none => simp [hr] at h
    | some r =>
      cases hrest : rowsAt rows is with
      | none => simp [hr, hrest] at h
      | some ps' =>
        simp only [hr, hrest, Option.some.injEq] at h
        subst h
        refine .cons ?_ (ih hrest)
        have hlt : i < ids.length := h1.2 ▸ List.idxOf_lt_length_of_mem h1.1
        have hida : ids[i]? = some a := by
          rw [List.getElem?_eq_getElem hlt]
          have : ids[i] = a := by
            have := List.getElem_idxOf (h1.2 ▸ hlt : ids.idxOf a < ids.length)
            simp only [h1.2]; exact this
          rw [this]
        have : (rows.map (·.1))[i]? = some r.1 := by rw [List.getElem?_map, hr]; rfl
        rw [ht, hida] at this
        have hra : r.1 = a := (Option.some.inj this).symm
        have hmem := List.mem_of_getElem? hr
        rw [← hra]
        exact hmem

theorem rowsAt_defined {rows : List (AtomId × Nat)} : ∀ (is : List Nat), (∀ i ∈ is, i < rows.length) →
    (rowsAt rows is).isSome = true := by
  intro is
  induction is with
  | nil => intro _; rfl
  | cons i is ih =>
    intro h
    have hi := h i (List.mem_cons_self)
    have hr := ih (fun x hx => h x (List.mem_cons_of_mem _ hx))
    cases hv : rowsAt rows is with
    | none => simp [hv] at hr
    | some ps => simp [rowsAt, List.getElem?_eq_getElem hi, hv]

end Molli.Lemmas.MolEdit
