/-
Text layer of the mol2 / xyz codecs (C07, C08, C10): Python's `split`, `split(maxsplit=…)`, `strip`
and line iteration on lines assembled from tokens and whitespace.  All statements are about the
executable definitions of `Molli.Model.Text`.
-/
import Molli.Model.Text
namespace Molli.Lemmas.Text
open Molli.Model.Text

/-- a run of whitespace (possibly empty) -/
def Ws (s : Str) : Prop := ∀ c ∈ s, isWs c = true

theorem ws_replicate (n : Nat) : Ws (List.replicate n ' ') := by
  intro c hc
  rw [List.mem_replicate] at hc
  rw [hc.2]
  decide

/-! ### helpers -/

theorem ws_nil : Ws [] := by intro c hc; cases hc

theorem ws_cons {c : Char} {w : Str} : Ws (c :: w) ↔ isWs c = true ∧ Ws w := by
  constructor
  · intro h
    exact ⟨h c (List.mem_cons_self), fun d hd => h d (List.mem_cons_of_mem _ hd)⟩
  · rintro ⟨h1, h2⟩ d hd
    rcases List.mem_cons.1 hd with rfl | hd
    · exact h1
    · exact h2 d hd

theorem ws_append {a b : Str} : Ws (a ++ b) ↔ Ws a ∧ Ws b := by
  constructor
  · intro h
    exact ⟨fun c hc => h c (List.mem_append_left _ hc), fun c hc => h c (List.mem_append_right _ hc)⟩
  · rintro ⟨h1, h2⟩ c hc
    rcases List.mem_append.1 hc with hc | hc
    · exact h1 c hc
    · exact h2 c hc

theorem ws_reverse {a : Str} (h : Ws a) : Ws a.reverse := by
  intro c hc
  exact h c (List.mem_reverse.1 hc)

theorem splitWs_nil (cur : Str) : splitWs [] cur = if cur = [] then [] else [cur.reverse] := by
  cases cur <;> simp [splitWs]

theorem splitWs_cons_ws (c : Char) (cs cur : Str) (hc : isWs c = true) :
    splitWs (c :: cs) cur = if cur = [] then splitWs cs [] else cur.reverse :: splitWs cs [] := by
  rw [splitWs]; simp [hc]

theorem splitWs_cons_nws (c : Char) (cs cur : Str) (hc : isWs c = false) :
    splitWs (c :: cs) cur = splitWs cs (c :: cur) := by
  rw [splitWs]; simp [hc]

/-- non-whitespace characters are pushed on the accumulator -/
theorem splitWs_nws_append (t rest cur : Str) (ht : ∀ c ∈ t, isWs c = false) :
    splitWs (t ++ rest) cur = splitWs rest (t.reverse ++ cur) := by
  induction t generalizing cur with
  | nil => simp
  | cons c t ih =>
    have hc : isWs c = false := ht c List.mem_cons_self
    have ht' : ∀ d ∈ t, isWs d = false := fun d hd => ht d (List.mem_cons_of_mem _ hd)
    rw [List.cons_append, splitWs_cons_nws _ _ _ hc, ih _ ht']
    simp

theorem splitWs_ws_append_nil (w rest : Str) (hw : Ws w) : splitWs (w ++ rest) [] = splitWs rest [] := by
  induction w with
  | nil => simp
  | cons c w ih =>
    rw [ws_cons] at hw
    rw [List.cons_append, splitWs_cons_ws _ _ _ hw.1]
    simp [ih hw.2]

/-- trailing whitespace is not seen -/
theorem splitWs_append_ws (s w cur : Str) (hw : Ws w) : splitWs (s ++ w) cur = splitWs s cur := by
  induction s generalizing cur with
  | nil =>
    rw [List.nil_append]
    cases w with
    | nil => rfl
    | cons c w =>
      rw [ws_cons] at hw
      have h0 : splitWs w [] = [] := by
        have := splitWs_ws_append_nil w [] hw.2
        rw [List.append_nil] at this
        rw [this]; rfl
      rw [splitWs_cons_ws _ _ _ hw.1, h0, splitWs_nil]
  | cons c s ih =>
    rw [List.cons_append]
    cases hc : isWs c with
    | true => rw [splitWs_cons_ws _ _ _ hc, splitWs_cons_ws _ _ _ hc, ih]
    | false => rw [splitWs_cons_nws _ _ _ hc, splitWs_cons_nws _ _ _ hc, ih]

/-! ### `str.split()` -/

theorem pySplit_nil : pySplit [] = [] := by
  rfl

/-- leading whitespace is skipped -/
theorem pySplit_ws_append (w s : Str) (hw : Ws w) : pySplit (w ++ s) = pySplit s := by
  exact splitWs_ws_append_nil w s hw

/-- a token followed by a whitespace character is split off -/
theorem pySplit_tok_cons (t : Str) (c : Char) (s : Str) (ht : Tok t) (hc : isWs c = true) :
    pySplit (t ++ c :: s) = t :: pySplit s := by
  unfold pySplit
  rw [splitWs_nws_append _ _ _ ht.2, splitWs_cons_ws _ _ _ hc]
  have : t.reverse ++ [] ≠ [] := by simp [ht.1]
  rw [if_neg this]
  simp

/-- a token at the end of the line -/
theorem pySplit_tok (t : Str) (ht : Tok t) : pySplit t = [t] := by
  unfold pySplit
  have := splitWs_nws_append t [] [] ht.2
  rw [List.append_nil] at this
  rw [this, splitWs_nil]
  have : t.reverse ++ [] ≠ [] := by simp [ht.1]
  rw [if_neg this]
  simp

theorem pySplit_ws (w : Str) (hw : Ws w) : pySplit w = [] := by
  have := pySplit_ws_append w [] hw
  rw [List.append_nil] at this
  rw [this]; rfl

theorem splitWs_all_tok (s cur : Str) (hcur : ∀ c ∈ cur, isWs c = false) :
    ∀ t ∈ splitWs s cur, Tok t := by
  induction s generalizing cur with
  | nil =>
    intro t ht
    rw [splitWs_nil] at ht
    by_cases h : cur = []
    · simp [h] at ht
    · rw [if_neg h] at ht
      have : t = cur.reverse := by simpa using ht
      subst this
      refine ⟨by simpa using h, ?_⟩
      intro c hc
      exact hcur c (List.mem_reverse.1 hc)
  | cons c s ih =>
    intro t ht
    cases hc : isWs c with
    | true =>
      rw [splitWs_cons_ws _ _ _ hc] at ht
      have hnil : ∀ c ∈ ([] : Str), isWs c = false := by intro c h; cases h
      by_cases h : cur = []
      · rw [if_pos h] at ht
        exact ih [] hnil t ht
      · rw [if_neg h] at ht
        rcases List.mem_cons.1 ht with rfl | ht
        · refine ⟨by simpa using h, ?_⟩
          intro c hc
          exact hcur c (List.mem_reverse.1 hc)
        · exact ih [] hnil t ht
    | false =>
      rw [splitWs_cons_nws _ _ _ hc] at ht
      refine ih (c :: cur) ?_ t ht
      intro d hd
      rcases List.mem_cons.1 hd with rfl | hd
      · exact hc
      · exact hcur d hd

/-- every part `split()` returns is a token -/
theorem pySplit_all_tok (s : Str) : ∀ t ∈ pySplit s, Tok t := by
  exact splitWs_all_tok s [] (by intro c h; cases h)


/-! ### `str.split(maxsplit=k)` -/

theorem splitMaxAux_nil (k : Nat) (cur : Str) :
    splitMaxAux k [] cur = if cur = [] then [] else [cur.reverse] := by
  cases cur <;> simp [splitMaxAux]

theorem splitMaxAux_cons_ws (k : Nat) (c : Char) (cs cur : Str) (hc : isWs c = true) :
    splitMaxAux k (c :: cs) cur =
      if cur = [] then splitMaxAux k cs [] else cur.reverse :: splitMaxAux k cs [] := by
  rw [splitMaxAux.eq_def]; simp [hc]

theorem splitMaxAux_cons_nws_zero (c : Char) (cs : Str) (hc : isWs c = false) :
    splitMaxAux 0 (c :: cs) [] = [c :: cs] := by
  rw [splitMaxAux.eq_def]; simp [hc]

theorem splitMaxAux_cons_nws_succ (k : Nat) (c : Char) (cs : Str) (hc : isWs c = false) :
    splitMaxAux (k + 1) (c :: cs) [] = splitMaxAux k cs [c] := by
  rw [splitMaxAux.eq_def]; simp [hc]

theorem splitMaxAux_cons_nws_cur (k : Nat) (c : Char) (cs cur : Str) (hc : isWs c = false)
    (hcur : cur ≠ []) : splitMaxAux k (c :: cs) cur = splitMaxAux k cs (c :: cur) := by
  rw [splitMaxAux.eq_def]; simp [hc, hcur]

theorem splitMaxAux_nws_append (k : Nat) (t rest cur : Str) (ht : ∀ c ∈ t, isWs c = false)
    (hcur : cur ≠ []) : splitMaxAux k (t ++ rest) cur = splitMaxAux k rest (t.reverse ++ cur) := by
  induction t generalizing cur with
  | nil => simp
  | cons c t ih =>
    have hc : isWs c = false := ht c List.mem_cons_self
    have ht' : ∀ d ∈ t, isWs d = false := fun d hd => ht d (List.mem_cons_of_mem _ hd)
    rw [List.cons_append, splitMaxAux_cons_nws_cur _ _ _ _ hc hcur, ih _ ht' (by simp)]
    simp

theorem splitMaxAux_ws_append_nil (k : Nat) (w rest : Str) (hw : Ws w) :
    splitMaxAux k (w ++ rest) [] = splitMaxAux k rest [] := by
  induction w with
  | nil => simp
  | cons c w ih =>
    rw [ws_cons] at hw
    rw [List.cons_append, splitMaxAux_cons_ws _ _ _ _ hw.1]
    simp [ih hw.2]

theorem pySplitMax_ws_append (k : Nat) (w s : Str) (hw : Ws w) : pySplitMax k (w ++ s) = pySplitMax k s := by
  exact splitMaxAux_ws_append_nil k w s hw

/-- a token read with one split left: everything after its first character is accumulated -/
theorem splitMaxAux_tok (k : Nat) (t rest : Str) (ht : Tok t) :
    splitMaxAux (k + 1) (t ++ rest) [] = splitMaxAux k rest t.reverse := by
  obtain ⟨hne, hall⟩ := ht
  cases t with
  | nil => exact absurd rfl hne
  | cons c t =>
    have hc : isWs c = false := hall c List.mem_cons_self
    have ht' : ∀ d ∈ t, isWs d = false := fun d hd => hall d (List.mem_cons_of_mem _ hd)
    rw [List.cons_append, splitMaxAux_cons_nws_succ _ _ _ hc,
      splitMaxAux_nws_append _ _ _ _ ht' (by simp)]
    simp

theorem pySplitMax_tok_cons (k : Nat) (t : Str) (c : Char) (s : Str) (ht : Tok t) (hc : isWs c = true) :
    pySplitMax (k + 1) (t ++ c :: s) = t :: pySplitMax k s := by
  unfold pySplitMax
  rw [splitMaxAux_tok _ _ _ ht, splitMaxAux_cons_ws _ _ _ _ hc]
  have : t.reverse ≠ [] := by simp [ht.1]
  rw [if_neg this]
  simp

theorem pySplitMax_tok (k : Nat) (t : Str) (ht : Tok t) : pySplitMax (k + 1) t = [t] := by
  unfold pySplitMax
  have := splitMaxAux_tok k t [] ht
  rw [List.append_nil] at this
  rw [this, splitMaxAux_nil]
  have : t.reverse ≠ [] := by simp [ht.1]
  rw [if_neg this]
  simp

theorem pySplitMax_ws (k : Nat) (w : Str) (hw : Ws w) : pySplitMax k w = [] := by
  have := pySplitMax_ws_append k w [] hw
  rw [List.append_nil] at this
  rw [this]; rfl

theorem splitWs_length_pos (s cur : Str) (hcur : cur ≠ []) : 1 ≤ (splitWs s cur).length := by
  induction s generalizing cur with
  | nil => rw [splitWs_nil, if_neg hcur]; simp
  | cons c s ih =>
    cases hc : isWs c with
    | true => rw [splitWs_cons_ws _ _ _ hc, if_neg hcur]; simp
    | false => rw [splitWs_cons_nws _ _ _ hc]; exact ih _ (by simp)

theorem splitMaxAux_eq_splitWs (k : Nat) (s cur : Str)
    (h : (splitWs s cur).length ≤ k + (if cur = [] then 0 else 1)) :
    splitMaxAux k s cur = splitWs s cur := by
  induction s generalizing k cur with
  | nil => rw [splitMaxAux_nil, splitWs_nil]
  | cons c s ih =>
    cases hc : isWs c with
    | true =>
      rw [splitWs_cons_ws _ _ _ hc] at h
      rw [splitWs_cons_ws _ _ _ hc, splitMaxAux_cons_ws _ _ _ _ hc]
      by_cases hcur : cur = []
      · simp only [hcur, if_true, Nat.add_zero] at h
        rw [if_pos hcur, if_pos hcur]
        exact ih k [] (by simpa using h)
      · simp only [hcur, if_false, List.length_cons] at h
        rw [if_neg hcur, if_neg hcur]
        rw [ih k [] (by simp; omega)]
    | false =>
      rw [splitWs_cons_nws _ _ _ hc] at h
      rw [splitWs_cons_nws _ _ _ hc]
      by_cases hcur : cur = []
      · subst hcur
        cases k with
        | zero =>
          have := splitWs_length_pos s [c] (by simp)
          simp only [if_true] at h
          omega
        | succ k =>
          rw [splitMaxAux_cons_nws_succ _ _ _ hc]
          exact ih k [c] (by simp at h ⊢; omega)
      · rw [splitMaxAux_cons_nws_cur _ _ _ _ hc hcur]
        exact ih k (c :: cur) (by simp [hcur] at h ⊢; omega)

/-- with enough splits allowed `split(maxsplit=k)` is `split()` -/
theorem pySplitMax_eq_pySplit (k : Nat) (s : Str) (h : (pySplit s).length ≤ k) : pySplitMax k s = pySplit s := by
  exact splitMaxAux_eq_splitWs k s [] (by simpa [pySplit] using h)

theorem splitMaxAux_length_le (k : Nat) (s cur : Str) :
    (splitMaxAux k s cur).length ≤ k + 1 + (if cur = [] then 0 else 1) := by
  induction s generalizing k cur with
  | nil =>
    rw [splitMaxAux_nil]
    by_cases hcur : cur = [] <;> simp [hcur]
  | cons c s ih =>
    cases hc : isWs c with
    | true =>
      rw [splitMaxAux_cons_ws _ _ _ _ hc]
      have := ih k []
      by_cases hcur : cur = []
      · simp [hcur] at this ⊢; omega
      · simp [hcur] at this ⊢; omega
    | false =>
      by_cases hcur : cur = []
      · subst hcur
        cases k with
        | zero => rw [splitMaxAux_cons_nws_zero _ _ hc]; simp
        | succ k =>
          rw [splitMaxAux_cons_nws_succ _ _ _ hc]
          have := ih k [c]
          simp at this ⊢; omega
      · rw [splitMaxAux_cons_nws_cur _ _ _ _ hc hcur]
        have := ih k (c :: cur)
        simp [hcur] at this ⊢; omega

/-- the number of parts is at most `k + 1`, and at least `min (k+1) (number of tokens)` -/
theorem pySplitMax_length_le (k : Nat) (s : Str) : (pySplitMax k s).length ≤ k + 1 := by
  have := splitMaxAux_length_le k s []
  simpa [pySplitMax] using this


/-! ### `str.strip()` -/

theorem dropWhile_ws_append (w s : Str) (hw : Ws w) :
    (w ++ s).dropWhile isWs = s.dropWhile isWs := by
  induction w with
  | nil => rfl
  | cons c w ih =>
    rw [ws_cons] at hw
    rw [List.cons_append, List.dropWhile_cons, if_pos hw.1, ih hw.2]

theorem dropWhile_ws (w : Str) (hw : Ws w) : w.dropWhile isWs = [] := by
  have := dropWhile_ws_append w [] hw
  rw [List.append_nil] at this
  rw [this]; rfl

/-- `dropWhile isWs` removes a whitespace prefix -/
theorem dropWhile_spec (s : Str) : ∃ w, Ws w ∧ s = w ++ s.dropWhile isWs := by
  induction s with
  | nil => exact ⟨[], ws_nil, rfl⟩
  | cons c s ih =>
    cases hc : isWs c with
    | true =>
      obtain ⟨w, hw, hs⟩ := ih
      refine ⟨c :: w, ws_cons.2 ⟨hc, hw⟩, ?_⟩
      rw [List.dropWhile_cons, if_pos hc, List.cons_append, ← hs]
    | false =>
      refine ⟨[], ws_nil, ?_⟩
      rw [List.dropWhile_cons]
      simp [hc]

theorem head_dropWhile (s : Str) : ∀ c, (s.dropWhile isWs).head? = some c → isWs c = false := by
  induction s with
  | nil => intro c h; simp at h
  | cons d s ih =>
    intro c h
    rw [List.dropWhile_cons] at h
    cases hd : isWs d with
    | true => rw [if_pos hd] at h; exact ih c h
    | false =>
      simp [hd] at h
      rw [← h]; exact hd

theorem dropWhile_id (s : Str) (h1 : ∀ c, s.head? = some c → isWs c = false) :
    s.dropWhile isWs = s := by
  cases s with
  | nil => rfl
  | cons c s =>
    have := h1 c rfl
    rw [List.dropWhile_cons]
    simp [this]

theorem dropWsEnd_append_ws (s w : Str) (hw : Ws w) : dropWsEnd (s ++ w) = dropWsEnd s := by
  unfold dropWsEnd
  rw [List.reverse_append, dropWhile_ws_append _ _ (ws_reverse hw)]

/-- `dropWsEnd` removes a whitespace suffix -/
theorem dropWsEnd_spec (s : Str) : ∃ w, Ws w ∧ s = dropWsEnd s ++ w := by
  obtain ⟨w, hw, hs⟩ := dropWhile_spec s.reverse
  refine ⟨w.reverse, ws_reverse hw, ?_⟩
  unfold dropWsEnd
  rw [← List.reverse_append, ← hs, List.reverse_reverse]

theorem dropWsEnd_id (s : Str) (h2 : ∀ c, s.getLast? = some c → isWs c = false) :
    dropWsEnd s = s := by
  unfold dropWsEnd
  rw [dropWhile_id, List.reverse_reverse]
  intro c hc
  rw [List.head?_reverse] at hc
  exact h2 c hc

theorem getLast_dropWsEnd (s : Str) : ∀ c, (dropWsEnd s).getLast? = some c → isWs c = false := by
  intro c hc
  unfold dropWsEnd at hc
  rw [List.getLast?_reverse] at hc
  exact head_dropWhile _ c hc

theorem pyStrip_ws_append (w s : Str) (hw : Ws w) : pyStrip (w ++ s) = pyStrip s := by
  unfold pyStrip
  rw [dropWhile_ws_append _ _ hw]

theorem pyStrip_append_ws (s w : Str) (hw : Ws w) : pyStrip (s ++ w) = pyStrip s := by
  unfold pyStrip
  induction s with
  | nil =>
    rw [List.nil_append, dropWhile_ws w hw]; rfl
  | cons c s ih =>
    rw [List.cons_append, List.dropWhile_cons, List.dropWhile_cons]
    cases hc : isWs c with
    | true => rw [if_pos rfl, if_pos rfl]; exact ih
    | false =>
      simp only [Bool.false_eq_true, if_false]
      exact dropWsEnd_append_ws (c :: s) w hw

/-- a string that starts and ends with a non-whitespace character is not changed -/
theorem pyStrip_id (s : Str) (h1 : ∀ c, s.head? = some c → isWs c = false)
    (h2 : ∀ c, s.getLast? = some c → isWs c = false) : pyStrip s = s := by
  unfold pyStrip
  rw [dropWhile_id s h1, dropWsEnd_id s h2]

theorem pyStrip_tok (t : Str) (ht : Tok t) : pyStrip t = t := by
  apply pyStrip_id
  · intro c hc
    exact ht.2 c (List.mem_of_mem_head? hc)
  · intro c hc
    exact ht.2 c (List.mem_of_getLast? hc)

theorem pyStrip_idem (s : Str) : pyStrip (pyStrip s) = pyStrip s := by
  apply pyStrip_id
  · intro c hc
    unfold pyStrip at hc
    obtain ⟨w, _, hs⟩ := dropWsEnd_spec (s.dropWhile isWs)
    have h := head_dropWhile s
    rw [hs] at h
    apply h c
    cases hd : dropWsEnd (List.dropWhile isWs s) with
    | nil => rw [hd] at hc; simp at hc
    | cons a r => rw [hd] at hc; simpa using hc
  · exact getLast_dropWsEnd _

theorem pyStrip_ws (w : Str) (hw : Ws w) : pyStrip w = [] := by
  unfold pyStrip
  rw [dropWhile_ws w hw]; rfl

/-- splitting does not see what `strip` removes -/
theorem pySplit_pyStrip (s : Str) : pySplit (pyStrip s) = pySplit s := by
  unfold pyStrip
  obtain ⟨w1, hw1, hs1⟩ := dropWhile_spec s
  obtain ⟨w2, hw2, hs2⟩ := dropWsEnd_spec (s.dropWhile isWs)
  have e1 : pySplit s = pySplit (s.dropWhile isWs) := by
    conv => lhs; rw [hs1]
    exact pySplit_ws_append _ _ hw1
  have e2 : pySplit (s.dropWhile isWs) = pySplit (dropWsEnd (s.dropWhile isWs)) := by
    conv => lhs; rw [hs2]
    exact splitWs_append_ws _ _ _ hw2
  rw [e1, e2]

theorem pySplitMax_pyStrip (k : Nat) (s : Str) (h : (pySplit s).length ≤ k) :
    pySplitMax k (pyStrip s) = pySplit s := by
  rw [pySplitMax_eq_pySplit k (pyStrip s) (by rw [pySplit_pyStrip]; exact h), pySplit_pyStrip]

/-! ### lines -/

theorem joinLines_append (a b : List Str) : joinLines (a ++ b) = joinLines a ++ joinLines b := by
  induction a with
  | nil => rfl
  | cons l a ih => simp [joinLines, ih]

theorem linesAux_nil (cur : Str) : linesAux [] cur = if cur = [] then [] else [cur.reverse] := by
  cases cur <;> simp [linesAux]

theorem linesAux_cons_nl (cs cur : Str) : linesAux ('\n' :: cs) cur = cur.reverse :: linesAux cs [] := by
  rw [linesAux.eq_def]; simp

theorem linesAux_cons_ne (c : Char) (cs cur : Str) (hc : c ≠ '\n') :
    linesAux (c :: cs) cur = linesAux cs (c :: cur) := by
  rw [linesAux.eq_def]; simp [hc]

theorem linesAux_append (l rest cur : Str) (hl : '\n' ∉ l) :
    linesAux (l ++ rest) cur = linesAux rest (l.reverse ++ cur) := by
  induction l generalizing cur with
  | nil => simp
  | cons c l ih =>
    have hc : c ≠ '\n' := by
      intro h; apply hl; rw [h]; exact List.mem_cons_self
    have hl' : '\n' ∉ l := fun h => hl (List.mem_cons_of_mem _ h)
    rw [List.cons_append, linesAux_cons_ne _ _ _ hc, ih _ hl']
    simp

theorem linesAux_joinLines_append (ls : List Str) (p : Str) (h : ∀ l ∈ ls, '\n' ∉ l) (hp : '\n' ∉ p) :
    linesAux (joinLines ls ++ p) [] = ls ++ (if p = [] then [] else [p]) := by
  induction ls with
  | nil =>
    have := linesAux_append p [] [] hp
    rw [List.append_nil] at this
    simp only [joinLines, List.nil_append]
    rw [this, linesAux_nil]
    by_cases hp0 : p = [] <;> simp [hp0]
  | cons l ls ih =>
    have hl : '\n' ∉ l := h l List.mem_cons_self
    have h' : ∀ l ∈ ls, '\n' ∉ l := fun x hx => h x (List.mem_cons_of_mem _ hx)
    simp only [joinLines, List.append_assoc, List.cons_append]
    rw [linesAux_append _ _ _ hl, linesAux_cons_nl, ih h']
    simp

/-- writing lines and iterating over the text gives the lines back -/
theorem splitLines_joinLines (ls : List Str) (h : ∀ l ∈ ls, '\n' ∉ l) : splitLines (joinLines ls) = ls := by
  have := linesAux_joinLines_append ls [] h (by simp)
  simpa [splitLines] using this

/-- a text cut inside its last line: the complete lines, then the partial one (if non-empty) -/
theorem splitLines_joinLines_append (ls : List Str) (p : Str) (h : ∀ l ∈ ls, '\n' ∉ l) (hp : '\n' ∉ p) :
    splitLines (joinLines ls ++ p) = ls ++ (if p = [] then [] else [p]) := by
  exact linesAux_joinLines_append ls p h hp

/-- every prefix of a written text is: some complete lines, then a proper prefix of the next line -/
theorem take_joinLines (ls : List Str) (n : Nat) :
    ∃ k p, k ≤ ls.length ∧ (joinLines ls).take n = joinLines (ls.take k) ++ p ∧
      (p = [] ∨ ∃ l, ls[k]? = some l ∧ p <+: l) := by
  induction ls generalizing n with
  | nil => exact ⟨0, [], Nat.le_refl _, by simp [joinLines], Or.inl rfl⟩
  | cons l ls ih =>
    by_cases hn : n ≤ l.length
    · refine ⟨0, l.take n, Nat.zero_le _, ?_, Or.inr ⟨l, rfl, List.take_prefix _ _⟩⟩
      simp only [joinLines, List.take_zero, List.nil_append]
      exact List.take_append_of_le_length hn
    · obtain ⟨m, rfl⟩ : ∃ m, n = l.length + (m + 1) := ⟨n - l.length - 1, by omega⟩
      obtain ⟨k, p, hk, htake, hp⟩ := ih m
      refine ⟨k + 1, p, by simpa using hk, ?_, ?_⟩
      · simp only [joinLines, List.take_succ_cons]
        rw [List.take_length_add_append, List.take_succ_cons, htake]
        simp
      · simpa using hp

end Molli.Lemmas.Text
