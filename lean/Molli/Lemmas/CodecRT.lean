/-
The generic round-trip theorems of the codec model: for ANY schema whose top-level order
carries the required fields, decoding the msgpack-normalised encoding of a well-formed
record gives the normalised record.  Core Lean only.
-/
import Molli.Lemmas.Codec
namespace Molli.Lemmas.Codec
open Molli.Util Molli.Model.Codec

/-- the hypothesis "restricted to its schema": every field the schema does not carry holds the
constructor default after normalisation (vacuous for the current encoding) -/
def AtomsFit (S : Schema) (atoms : List AtomRec) : Prop :=
  ∀ a ∈ atoms, ∀ f, f ∉ S.atom → N (a.get f) = S.atomDflt.get f
def BondsFit (S : Schema) (bonds : List BondRec) : Prop :=
  ∀ b ∈ bonds, ∀ f, f ∉ S.bond → N (b.get f) = S.bondDflt.get f
def AttribFits (S : Schema) (attrib : MVal) : Prop :=
  TField.attrib ∈ S.top ∨ (N attrib).falsy = true

theorem atoms_decode (S : Schema) (atoms : List AtomRec) (h : AtomsFit S atoms) :
    mapE (deserAtom S) (Nl (atoms.map (serAtom S))) = .ok (atoms.map normAtom) := by
  rw [Nl_eq_map, List.map_map]
  apply mapE_map_ok
  intro a ha
  simp only [Function.comp, N_serAtom]
  exact deserAtom_serAtom S (normAtom a) (fun f hf => h a ha f hf)

theorem bonds_decode (S : Schema) (nA : Nat) (bonds : List BondRec) (h : BondsFit S bonds)
    (hw : ∀ b ∈ bonds, b.WF nA) :
    mapE (deserBond S nA) (Nl (bonds.map (serBond S))) = .ok (bonds.map normBond) := by
  rw [Nl_eq_map, List.map_map]
  apply mapE_map_ok
  intro b hb
  simp only [Function.comp, N_serBond]
  exact deserBond_serBond S nA (normBond b) (fun f hf => h b hb f hf) (normBond_WF nA b (hw b hb))

theorem attrib_decode (S : Schema) (g : TField → MVal) (attrib : MVal) (hg : g .attrib = N attrib)
    (h : AttribFits S attrib) :
    pyOr ((lookup TField.attrib S.top (S.top.map g)).getD .nil) (.map []) = pyOr (N attrib) (.map []) := by
  by_cases hin : TField.attrib ∈ S.top
  · rw [lookup_map _ _ _ hin, Option.getD_some, hg]
  · rw [lookup_map_none _ _ _ hin, Option.getD_none]
    cases h with
    | inl h => exact absurd h hin
    | inr h => rw [pyOr, pyOr, h]; simp [MVal.falsy]

theorem coords2_decode (rs : List (List F64)) (h3 : ∀ r ∈ rs, r.length = 3) :
    reshape2 rs.length 3 (rs.flatten.map r32) = some (rs.map (·.map r32)) := by
  have e : rs.flatten.map r32 = (rs.map (·.map r32)).flatten := by rw [List.map_flatten]
  have hl : (rs.map (·.map r32)).length = rs.length := List.length_map _
  rw [e, ← hl]
  apply reshape2_flatten
  intro r hr
  obtain ⟨r', hr', rfl⟩ := List.mem_map.mp hr
  rw [List.length_map]; exact h3 r' hr'

theorem rows_decode (k : Nat) (rs : List (List F64)) (hk : ∀ r ∈ rs, r.length = k) :
    reshape2 rs.length k (rs.flatten.map r32) = some (rs.map (·.map r32)) := by
  have e : rs.flatten.map r32 = (rs.map (·.map r32)).flatten := by rw [List.map_flatten]
  have hl : (rs.map (·.map r32)).length = rs.length := List.length_map _
  rw [e, ← hl]
  apply reshape2_flatten
  intro r hr
  obtain ⟨r', hr', rfl⟩ := List.mem_map.mp hr
  rw [List.length_map]; exact hk r' hr'

theorem coords3_decode (m : Nat) (cs : List (List (List F64))) (hm : ∀ c ∈ cs, c.length = m)
    (h3 : ∀ c ∈ cs, ∀ r ∈ c, r.length = 3) :
    reshape3 cs.length m 3 (cs.flatten.flatten.map r32) = some (cs.map (·.map (·.map r32))) := by
  have e : cs.flatten.flatten.map r32 = (cs.map (·.map (·.map r32))).flatten.flatten := by
    rw [List.map_flatten, List.map_flatten]
  have hl : (cs.map (·.map (·.map r32))).length = cs.length := List.length_map _
  rw [e, ← hl]
  apply reshape3_flatten
  · intro c hc
    obtain ⟨c', hc', rfl⟩ := List.mem_map.mp hc
    rw [List.length_map]; exact hm c' hc'
  · intro c hc r hr
    obtain ⟨c', hc', rfl⟩ := List.mem_map.mp hc
    obtain ⟨r', hr', rfl⟩ := List.mem_map.mp hr
    rw [List.length_map]; exact h3 c' hc' r' hr'

/-- **Molecule round trip, any schema.** -/
theorem deserMol_serMol (S : Schema) (m : MolRec)
    (hreq : ∀ f ∈ molRequiredV1, f ∈ S.top) (hattr : AttribFits S m.attrib)
    (hA : AtomsFit S m.atoms) (hB : BondsFit S m.bonds) (hw : m.WF) :
    deserMol S (N (serMol S m)) = .ok (normMol m) := by
  have hn (f) (hf : f ∈ molRequiredV1) := need_map f S.top (N ∘ molTop S m) (hreq f hf)
  have hatt := attrib_decode S (N ∘ molTop S m) m.attrib rfl hattr
  have hc := coords2_decode m.coords hw.row3
  rw [hw.coords_len] at hc
  simp only [serMol, N, Nl_eq_map, List.map_map, deserMol, List.length_map, ne_eq, not_true_eq_false,
    if_false, bind, Except.bind, pure, Except.pure]
  rw [hn .name (by decide), hn .n_atoms (by decide), hn .charge (by decide), hn .mult (by decide),
    hn .atoms (by decide), hn .bonds (by decide), hn .coords (by decide), hn .atomic_charges (by decide)]
  simp only [Function.comp, molTop, N, asNat, asArr, asBin, atoms_decode S m.atoms hA,
    bonds_decode S m.atoms.length m.bonds hB hw.bonds, List.length_map, not_true_eq_false, if_false,
    decF32s_encF32s, optE, hc, hw.charges_len]
  simp only [normMol, List.map_map]
  congr 1
  rw [← hatt]
  congr 1
  simp [Function.comp_def, rt32]

/-- **Ensemble round trip, any schema.** -/
theorem deserEns_serEns (S : Schema) (e : EnsRec)
    (hreq : ∀ f ∈ ensRequiredV1, f ∈ S.top) (hattr : AttribFits S e.attrib)
    (hA : AtomsFit S e.atoms) (hB : BondsFit S e.bonds) (hw : e.WF) :
    deserEns S (N (serEns S e)) = .ok (normEns e) := by
  have hn (f) (hf : f ∈ ensRequiredV1) := need_map f S.top (N ∘ ensTop S e) (hreq f hf)
  have hatt := attrib_decode S (N ∘ ensTop S e) e.attrib rfl hattr
  have hc := coords3_decode e.atoms.length e.coords hw.conf_len hw.row3
  have hq := rows_decode e.atoms.length e.charges hw.charges_row
  rw [hw.charges_len] at hq
  simp only [serEns, N, Nl_eq_map, List.map_map, deserEns, List.length_map, ne_eq, not_true_eq_false,
    if_false, bind, Except.bind, pure, Except.pure]
  rw [hn .name (by decide), hn .n_conformers (by decide), hn .n_atoms (by decide), hn .charge (by decide),
    hn .mult (by decide), hn .atoms (by decide), hn .bonds (by decide), hn .coords (by decide),
    hn .weights (by decide), hn .atomic_charges (by decide)]
  simp only [Function.comp, ensTop, N, asNat, asArr, asBin, atoms_decode S e.atoms hA,
    bonds_decode S e.atoms.length e.bonds hB hw.bonds, List.length_map, not_true_eq_false, if_false,
    decF32s_encF32s, optE, hc, hq, hw.weights_len]
  simp only [normEns, List.map_map]
  congr 1
  rw [← hatt]
  congr 1
  all_goals simp [Function.comp_def, rt32]

end Molli.Lemmas.Codec
