/-
Truncation of a mol2 text written by molli at ANY byte of its last record (C10): the cut text is
rejected or gives exactly complete molecules — the last line of a written molecule is a bond line ending
in a type token no proper prefix of which is a token, or (0 bonds) the line `@<TRIPOS>BOND`.
Parametric in the typing tables.
-/
import Molli.Lemmas.Mol2Truncation
namespace Molli.Lemmas.Mol2TruncationBytes
open Molli.Model.Text Molli.Model.Mol2Types Molli.Model.Mol2
open Molli.Lemmas.Text Molli.Lemmas.Num Molli.Lemmas.Mol2Types Molli.Lemmas.Mol2Reader Molli.Lemmas.Mol2RoundTrip
open Molli.Lemmas.Mol2Values Molli.Lemmas.Mol2Truncation

/-! ### generic facts -/

theorem mapIdxFrom_snoc {α β : Type} (f : Nat → α → β) (xs : List α) (x : α) (i : Nat) :
    mapIdxFrom f i (xs ++ [x]) = mapIdxFrom f i xs ++ [f (i + xs.length) x] := by
  induction xs generalizing i with
  | nil => simp only [List.nil_append, mapIdxFrom, List.length_nil, Nat.add_zero]
  | cons a xs ih =>
    simp only [List.cons_append, mapIdxFrom, ih, List.length_cons]
    have : i + 1 + xs.length = i + (xs.length + 1) := by omega
    rw [this]

theorem mapE_snoc {α β : Type} (f : α → Except Err β) (xs : List α) (ys : List β) (b : α)
    (h : mapE f xs = .ok ys) :
    mapE f (xs ++ [b]) = (match f b with | .error e => .error e | .ok y => .ok (ys ++ [y])) := by
  induction xs generalizing ys with
  | nil =>
    simp only [mapE, Except.ok.injEq] at h
    subst h
    simp only [List.nil_append, mapE]
    cases f b <;> rfl
  | cons x xs ih =>
    simp only [mapE] at h
    cases hx : f x with
    | error e => rw [hx] at h; simp at h
    | ok y =>
      rw [hx] at h
      simp only at h
      cases hxs : mapE f xs with
      | error e => rw [hxs] at h; simp at h
      | ok ys' =>
        rw [hxs] at h
        simp only [Except.ok.injEq] at h
        subst h
        simp only [List.cons_append, mapE, hx, ih ys' hxs]
        cases f b <;> rfl

theorem splitWs_prefix_length (p t cur : Str) :
    (splitWs p cur).length ≤ (splitWs (p ++ t) cur).length := by
  induction p generalizing cur with
  | nil =>
    rw [splitWs_nil, List.nil_append]
    by_cases h : cur = []
    · rw [if_pos h]; exact Nat.zero_le _
    · rw [if_neg h]; exact splitWs_length_pos t cur h
  | cons c p ih =>
    rw [List.cons_append]
    cases hc : isWs c with
    | true =>
      rw [splitWs_cons_ws _ _ _ hc, splitWs_cons_ws _ _ _ hc]
      by_cases h : cur = []
      · rw [if_pos h, if_pos h]; exact ih []
      · rw [if_neg h, if_neg h]; simp only [List.length_cons]; exact Nat.succ_le_succ (ih [])
    | false =>
      rw [splitWs_cons_nws _ _ _ hc, splitWs_cons_nws _ _ _ hc]; exact ih _

/-- a prefix of a line has at most as many tokens as the line -/
theorem pySplit_prefix_length {p s : Str} (h : p <+: s) : (pySplit p).length ≤ (pySplit s).length := by
  obtain ⟨t, rfl⟩ := h
  exact splitWs_prefix_length p t []

section
variable (tt : TypeTable) (bt : BondTable)

/-! ### a cut bond line -/

/-- the bond line without its type token -/
def bondPre (k : Kind) (i : Nat) (b : BondV) : Str :=
  padLeft 6 (natStr (i + 1)) ++ sp ++ padLeft 6 (natStr (b.a1 + 1)) ++ sp ++ padLeft 6 (natStr (b.a2 + 1)) ++ sp ++
  List.replicate ((match k with | .molecule => 3 | .structure => 10) - (bt.emitStr b.btype).length) ' '

theorem bondLine_eq (k : Kind) (i : Nat) (b : BondV) :
    bondLine bt k i b = bondPre bt k i b ++ bt.emitStr b.btype := by
  rcases k with _ | _ <;> simp only [bondLine, bondPre, padLeft, List.append_assoc]

theorem pySplit_bondPre_tok (k : Kind) (i : Nat) (b : BondV) (t : Str) (ht : Tok t) :
    pySplit (bondPre bt k i b ++ t) = [natStr (i + 1), natStr (b.a1 + 1), natStr (b.a2 + 1), t] := by
  have hform : ∃ c, bondPre bt k i b ++ t =
      List.replicate (6 - (natStr (i + 1)).length) ' ' ++ (natStr (i + 1) ++ segLine
        [(' ' :: List.replicate (6 - (natStr (b.a1 + 1)).length) ' ', natStr (b.a1 + 1)),
         (' ' :: List.replicate (6 - (natStr (b.a2 + 1)).length) ' ', natStr (b.a2 + 1)),
         (' ' :: List.replicate c ' ', t)] []) := by
    refine ⟨(match k with | .molecule => 3 | .structure => 10) - (bt.emitStr b.btype).length, ?_⟩
    simp only [bondPre, padLeft, sp, segLine, List.append_assoc, List.cons_append,
      List.nil_append, List.append_nil]
  obtain ⟨c, hform⟩ := hform
  rw [hform, pySplit_ws_append _ _ (ws_replicate _)]
  rw [pySplit_tok_segLine _ _ (by intro c hc; simp at hc) _ _ (natStr_tok _)]
  · rfl
  · intro p hp
    simp only [List.mem_cons, List.not_mem_nil, or_false] at hp
    rcases hp with rfl | rfl | rfl
    · exact ⟨ws_sp_cons_replicate _, by simp, natStr_tok (b.a1 + 1)⟩
    · exact ⟨ws_sp_cons_replicate _, by simp, natStr_tok (b.a2 + 1)⟩
    · exact ⟨ws_sp_cons_replicate _, by simp, ht⟩

theorem pySplit_bondPre (k : Kind) (i : Nat) (b : BondV) :
    pySplit (bondPre bt k i b) = [natStr (i + 1), natStr (b.a1 + 1), natStr (b.a2 + 1)] := by
  have hform : ∃ c, bondPre bt k i b =
      List.replicate (6 - (natStr (i + 1)).length) ' ' ++ (natStr (i + 1) ++ segLine
        [(' ' :: List.replicate (6 - (natStr (b.a1 + 1)).length) ' ', natStr (b.a1 + 1)),
         (' ' :: List.replicate (6 - (natStr (b.a2 + 1)).length) ' ', natStr (b.a2 + 1))]
        (' ' :: List.replicate c ' ')) := by
    refine ⟨(match k with | .molecule => 3 | .structure => 10) - (bt.emitStr b.btype).length, ?_⟩
    simp only [bondPre, padLeft, sp, segLine, List.append_assoc, List.cons_append,
      List.nil_append]
  obtain ⟨c, hform⟩ := hform
  rw [hform, pySplit_ws_append _ _ (ws_replicate _)]
  rw [pySplit_tok_segLine _ _ (ws_sp_cons_replicate _) _ _ (natStr_tok _)]
  · rfl
  · intro p hp
    simp only [List.mem_cons, List.not_mem_nil, or_false] at hp
    rcases hp with rfl | rfl
    · exact ⟨ws_sp_cons_replicate _, by simp, natStr_tok (b.a1 + 1)⟩
    · exact ⟨ws_sp_cons_replicate _, by simp, natStr_tok (b.a2 + 1)⟩

/-- the tokens of a bond line cut anywhere before its end: fewer than four, or four of which the last is a
proper non-empty prefix of the type token -/
theorem bond_cut_tokens (k : Kind) (i : Nat) (b : BondV) (ht : Tok (bt.emitStr b.btype)) (p : Str)
    (hp : p <+: bondLine bt k i b) (hne : p ≠ bondLine bt k i b) :
    (pySplit p).length ≤ 3 ∨
    ∃ n, 0 < n ∧ n < (bt.emitStr b.btype).length ∧
      pySplit p = [natStr (i + 1), natStr (b.a1 + 1), natStr (b.a2 + 1), (bt.emitStr b.btype).take n] := by
  rw [bondLine_eq] at hp hne
  have h1 := List.prefix_iff_eq_take.1 hp
  by_cases hle : p.length ≤ (bondPre bt k i b).length
  · left
    rw [List.take_append_of_le_length hle] at h1
    have hpre : p <+: bondPre bt k i b := by rw [h1]; exact List.take_prefix _ _
    have := pySplit_prefix_length hpre
    rw [pySplit_bondPre] at this
    exact this
  · right
    rw [List.take_append, List.take_of_length_le (by omega)] at h1
    refine ⟨p.length - (bondPre bt k i b).length, by omega, ?_, ?_⟩
    · apply Nat.lt_of_not_le
      intro hge
      rw [List.take_of_length_le hge] at h1
      exact hne h1
    · have htok : Tok ((bt.emitStr b.btype).take (p.length - (bondPre bt k i b).length)) := by
        refine ⟨?_, fun c hc => ht.2 c (List.mem_of_mem_take hc)⟩
        intro h0
        have hl := congrArg List.length h0
        rw [List.length_take] at hl
        have : (bt.emitStr b.btype).length ≠ 0 := by
          intro hz; exact ht.1 (List.eq_nil_of_length_eq_zero hz)
        simp only [List.length_nil] at hl
        omega
      conv => lhs; rw [h1]
      exact pySplit_bondPre_tok bt k i b _ htok

theorem acceptStr_take_none (h : TablesOk tt bt) (b : Nat) (hb : b < bt.nB) (n : Nat) (h0 : 0 < n)
    (hn : n < (bt.emitStr b).length) : bt.acceptStr ((bt.emitStr b).take n) = none := by
  have hlt : ∀ x ∈ bt.emitCodes b, x < 256 := by
    intro x hx; simp only [BondTable.emitCodes] at hx; exact unpack_lt _ _ x hx
  have hc : codesOf ((bt.emitStr b).take n) = (bt.emitCodes b).take n := by
    simp only [BondTable.emitStr]
    have : codesOf ((strOf (bt.emitCodes b)).take n) = (codesOf (strOf (bt.emitCodes b))).take n := by
      simp only [codesOf, List.map_take]
    rw [this, codesOf_strOf hlt]
  have hlen : (bt.emitStr b).length = (bt.emitCodes b).length := by
    simp only [BondTable.emitStr, strOf, List.length_map]
  have h1 := allBelow_spec h.bpre b hb
  have h2 := allBelow_spec h1 n (by omega)
  simp only [Bool.or_eq_true, Option.isNone_iff_eq_none] at h2
  simp only [BondTable.acceptStr, hc]
  rcases h2 with h2 | h2
  · have := Nat.eq_of_beq_eq_true h2
    omega
  · exact h2

theorem buildBond_bad (n : Nat) (r : Rec) (ty : Str) (h3 : fieldAt r 3 = .ok ty)
    (hacc : bt.acceptStr ty = none) : ∃ e, buildBond bt n r = .error e := by
  unfold buildBond
  split
  · rename_i a1 a2 ty' _ _ h3'
    rw [h3] at h3'
    simp only [Except.ok.injEq] at h3'
    subst h3'
    rw [hacc]
    split
    · rename_i hh; cases hh
    · exact ⟨_, rfl⟩
  · exact ⟨_, rfl⟩

/-- no record read from a cut bond line builds a bond -/
theorem bond_cut_bad (h : TablesOk tt bt) (k : Kind) (i : Nat) (b : BondV) (hb : b.btype < bt.nB) (p : Str)
    (hp : p <+: bondLine bt k i b) (hne : p ≠ bondLine bt k i b) (r : Rec)
    (hr : bondRec (pyStrip p) = .ok r) (n : Nat) : ∃ e, buildBond bt n r = .error e := by
  have ht := bondTokensOk_spec bt h.btoks b.btype hb
  have hlen4 : (pySplit p).length ≤ 4 := by
    have := pySplit_prefix_length hp
    rw [pySplit_bondLine bt k i b ht] at this
    exact this
  simp only [bondRec] at hr
  rw [pySplitMax_pyStrip 5 p (by omega)] at hr
  rcases bond_cut_tokens bt k i b ht p hp hne with hlt | ⟨m, hm0, hm, hs⟩
  · rw [if_neg (by omega)] at hr
    cases hr
  · rw [hs] at hr
    rw [if_pos (by simp)] at hr
    simp only [Except.ok.injEq] at hr
    subst hr
    exact buildBond_bad bt n _ _ rfl (acceptStr_take_none tt bt h b.btype hb m hm0 hm)

/-! ### a cut `@<TRIPOS>BOND` line -/

/-- a line the main loop rejects, or takes for the tag of an unknown section -/
def okPre (q : Str) : Bool :=
  decide (pyStrip q = q) && decide (q ≠ []) && decide (q.head? ≠ some '#') &&
  (match triposTag q with
   | none => true
   | some tag => decide (tag ≠ "MOLECULE".toList) && decide (tag ≠ "ATOM".toList) && decide (tag ≠ "BOND".toList) &&
      decide (tag ≠ "UNITY_ATOM_ATTR".toList) && decide (tag ≠ "UNITY_BOND_ATTR".toList))

theorem bLine_take_okPre : ∀ n, n < 13 → n ≠ 0 → okPre (bLine.take n) = true := by decide

theorem bLine_cut_okPre (p : Str) (hp : p <+: bLine) (hne : p ≠ bLine) (hp0 : p ≠ []) : okPre p = true := by
  have h1 := List.prefix_iff_eq_take.1 hp
  have hlen : bLine.length = 13 := by decide
  have hle := hp.length_le
  rw [hlen] at hle
  have h13 : p.length ≠ 13 := by
    intro h
    rw [h, ← hlen, List.take_length] at h1
    exact hne h1
  have h0 : p.length ≠ 0 := fun h => hp0 (List.eq_nil_of_length_eq_zero h)
  rw [h1]
  exact bLine_take_okPre p.length (by omega) h0

theorem step_okPre (st : RSt) (q : Str) (ls : List Str) (hq : okPre q = true) (hs : st.skip = false) :
    step st q ls = .error .syntax ∨ step st q ls = .ok ([], { st with skip := true }, ls) := by
  simp only [okPre, Bool.and_eq_true, decide_eq_true_eq] at hq
  obtain ⟨⟨⟨_, h1⟩, h2⟩, h3⟩ := hq
  unfold step
  rw [if_neg h1, if_neg h2]
  cases ht : triposTag q with
  | none =>
    left
    simp only [hs, Bool.false_eq_true, if_false]
  | some tag =>
    right
    rw [ht] at h3
    simp only [Bool.and_eq_true, decide_eq_true_eq] at h3
    obtain ⟨⟨⟨⟨g1, g2⟩, g3⟩, g4⟩, g5⟩ := h3
    simp only [if_neg g1, if_neg g2, if_neg g3, if_neg g4, if_neg g5]

/-! ### results that `loads_all_mol2` rejects -/

/-- the reader fails, or the last block it returns is one `yield_from_mol2` raises on -/
def BadRes (k : Kind) (r : Except Err (List Block)) : Prop :=
  (∃ e, r = .error e) ∨ ∃ bs b, r = .ok (bs ++ [b]) ∧ ∃ e, buildMol tt bt k none b = .error e

theorem buildMol_bad_bond (k : Kind) (hd : Header) (as rs : List Rec) (r : Rec)
    (hr : ∀ n, ∃ e, buildBond bt n r = .error e) :
    ∃ e, buildMol tt bt k none ⟨hd, some as, some (rs ++ [r])⟩ = .error e := by
  unfold buildMol
  split
  · exact ⟨_, rfl⟩
  · simp only
    cases mapE (buildAtom tt (decide (k = Kind.molecule ∧ hd.chrgType ≠ noCharges))) as with
    | error e => exact ⟨e, rfl⟩
    | ok atoms =>
      obtain ⟨e, he⟩ := mapE_append_bad (buildBond bt atoms.length) rs r (hr atoms.length)
      simp only [he]
      exact ⟨e, rfl⟩

theorem step_bond_full (k : Kind) (m : MolV) (ls : List Str) (hl : ls.length = m.bonds.length) :
    step (st2 tt k m) bLine ls =
      (match mapE bondRec ls with
       | .error e => .error e
       | .ok recs => .ok ([], ⟨some (headerOf m), some (atomRecs tt k 0 m.atoms), some recs, false⟩, [])) := by
  unfold bLine st2
  simp only [step]
  rw [if_neg (by decide), if_neg (by decide)]
  have ht : triposTag "@<TRIPOS>BOND".toList = some "BOND".toList := by decide
  rw [ht]
  have hne : ¬ ("BOND".toList = "MOLECULE".toList) := by decide
  have hne2 : ¬ ("BOND".toList = "ATOM".toList) := by decide
  simp only [hne, hne2, if_false, if_true, headerOf]
  have htl := takeLines_append ls []
  rw [List.append_nil, hl] at htl
  simp only [Int.toNat_natCast, htl]
  cases mapE bondRec ls <;> rfl

/-! ### the last molecule, cut inside its last line -/

theorem readLoop_cutA (h : TablesOk tt bt) (k : Kind) (m : MolV) (hm : Admissible tt bt m) (q : Str)
    (hq : okPre q = true) (st : RSt) (g : Nat) :
    BadRes tt bt k (readLoop (g + 5) st (cLine :: mLine :: (hdr5 m ++ (aLine :: (aL tt k m ++ [q]))))) := by
  rw [readLoop_step, step_comment, cont_nil, readLoop_step, step_molecule_ok]
  simp only [cont]
  have hin : BadRes tt bt k (readLoop (g + 3) (st1 m) (aLine :: (aL tt k m ++ [q]))) := by
    rw [readLoop_step, step_atom_ok tt bt h k m hm, cont_nil, readLoop_step]
    rcases step_okPre (st2 tt k m) q [] hq rfl with he | he
    · rw [he]; exact Or.inl ⟨_, rfl⟩
    · rw [he, cont_nil, readLoop_nil]
      refine Or.inr ⟨[], ⟨headerOf m, some (atomRecs tt k 0 m.atoms), none⟩, rfl, ?_⟩
      exact buildMol_bad tt bt k none _ (Or.inr rfl)
  rcases hin with ⟨e, he⟩ | ⟨bs, b, he, hb⟩
  · rw [he]; exact Or.inl ⟨e, rfl⟩
  · rw [he]; exact Or.inr ⟨flush st ++ bs, b, by simp only [List.append_assoc], hb⟩

theorem readLoop_cutB (h : TablesOk tt bt) (k : Kind) (m : MolV) (hm : Admissible tt bt m)
    (bs0 : List BondV) (b : BondV) (hbs : m.bonds = bs0 ++ [b]) (q : Str)
    (hq : ∀ r, bondRec q = .ok r → ∀ n, ∃ e, buildBond bt n r = .error e) (st : RSt) (g : Nat) :
    BadRes tt bt k (readLoop (g + 5) st (cLine :: mLine :: (hdr5 m ++ (aLine :: (aL tt k m ++
      (bLine :: ((mapIdxFrom (bondLine bt k) 0 bs0).map pyStrip ++ [q]))))))) := by
  rw [readLoop_step, step_comment, cont_nil, readLoop_step, step_molecule_ok]
  simp only [cont]
  have hin : BadRes tt bt k (readLoop (g + 3) (st1 m) (aLine :: (aL tt k m ++
      (bLine :: ((mapIdxFrom (bondLine bt k) 0 bs0).map pyStrip ++ [q]))))) := by
    rw [readLoop_step, step_atom_ok tt bt h k m hm, cont_nil, readLoop_step,
      step_bond_full tt k m _ (by simp only [hbs, List.length_append, List.length_map, mapIdxFrom_length,
        List.length_cons, List.length_nil])]
    have h0 := mapE_bondLines tt bt h k bs0 (fun c hc => (hm.bonds c (by rw [hbs]; simp [hc])).2.2) 0
    rw [mapE_snoc bondRec _ _ q h0]
    cases hr : bondRec q with
    | error e => exact Or.inl ⟨e, rfl⟩
    | ok r =>
      simp only [cont_nil]
      rw [readLoop_nil]
      refine Or.inr ⟨[], ⟨headerOf m, some (atomRecs tt k 0 m.atoms), some (bondRecs bt 0 bs0 ++ [r])⟩, rfl, ?_⟩
      exact buildMol_bad_bond tt bt k _ _ _ r (hq r hr)
  rcases hin with ⟨e, he⟩ | ⟨bs, b, he, hb⟩
  · rw [he]; exact Or.inl ⟨e, rfl⟩
  · rw [he]; exact Or.inr ⟨flush st ++ bs, b, by simp only [List.append_assoc], hb⟩

theorem readLoop_last_cut (h : TablesOk tt bt) (k : Kind) (m : MolV) (hm : Admissible tt bt m)
    (l : Str) (hl : (writeLines tt bt k m).getLast? = some l) (p : Str) (hp : p <+: l) (hne : p ≠ l)
    (hp0 : p ≠ []) (st : RSt) (f : Nat) (hf : (sLines tt bt k m).length < f) :
    BadRes tt bt k (readLoop f st ((sLines tt bt k m).dropLast ++ [pyStrip p])) := by
  have hS := sLines_eq tt bt k m hm
  have hlen : 9 ≤ (sLines tt bt k m).length := by
    rw [hS]
    simp only [List.length_cons, List.length_append, hdr5_length]
    omega
  obtain ⟨g, rfl⟩ : ∃ g, f = g + 5 := ⟨f - 5, by omega⟩
  rcases List.eq_nil_or_concat m.bonds with hb0 | ⟨bs0, b, hbs⟩
  · -- no bonds: the last line is `@<TRIPOS>BOND`
    have hl' : l = bLine := by
      simp only [writeLines, hb0, mapIdxFrom, List.append_nil, List.getLast?_concat, Option.some.injEq] at hl
      rw [← hl]; rfl
    subst hl'
    have hbL : bL bt k m = [] := by simp only [bL, hb0, mapIdxFrom, List.map_nil]
    have hS' : sLines tt bt k m = (cLine :: mLine :: (hdr5 m ++ (aLine :: aL tt k m))) ++ [bLine] := by
      rw [hS, hbL]
      simp only [List.cons_append, List.append_assoc]
    have hq := bLine_cut_okPre p hp hne hp0
    have hstrip : pyStrip p = p := by
      simp only [okPre, Bool.and_eq_true, decide_eq_true_eq] at hq
      exact hq.1.1.1
    rw [hS', List.dropLast_concat, hstrip]
    have : (cLine :: mLine :: (hdr5 m ++ (aLine :: aL tt k m))) ++ [p] =
        cLine :: mLine :: (hdr5 m ++ (aLine :: (aL tt k m ++ [p]))) := by
      simp only [List.cons_append, List.append_assoc]
    rw [this]
    exact readLoop_cutA tt bt h k m hm p hq st g
  · rw [List.concat_eq_append] at hbs
    have hl' : l = bondLine bt k (0 + bs0.length) b := by
      unfold writeLines at hl
      rw [hbs, mapIdxFrom_snoc, ← List.append_assoc, List.getLast?_concat] at hl
      exact (Option.some.inj hl).symm
    subst hl'
    have hbL : bL bt k m = (mapIdxFrom (bondLine bt k) 0 bs0).map pyStrip ++
        [pyStrip (bondLine bt k (0 + bs0.length) b)] := by
      simp only [bL, hbs, mapIdxFrom_snoc, List.map_append, List.map_cons, List.map_nil]
    have hS' : sLines tt bt k m = (cLine :: mLine :: (hdr5 m ++ (aLine :: (aL tt k m ++
        (bLine :: (mapIdxFrom (bondLine bt k) 0 bs0).map pyStrip))))) ++
        [pyStrip (bondLine bt k (0 + bs0.length) b)] := by
      rw [hS, hbL]
      simp only [List.cons_append, List.append_assoc]
    rw [hS', List.dropLast_concat]
    have : (cLine :: mLine :: (hdr5 m ++ (aLine :: (aL tt k m ++
        (bLine :: (mapIdxFrom (bondLine bt k) 0 bs0).map pyStrip))))) ++ [pyStrip p] =
        cLine :: mLine :: (hdr5 m ++ (aLine :: (aL tt k m ++
        (bLine :: ((mapIdxFrom (bondLine bt k) 0 bs0).map pyStrip ++ [pyStrip p]))))) := by
      simp only [List.cons_append, List.append_assoc]
    rw [this]
    have hb := (hm.bonds b (by rw [hbs]; simp)).2.2
    exact readLoop_cutB tt bt h k m hm bs0 b hbs (pyStrip p)
      (fun r hr n => bond_cut_bad tt bt h k _ b hb p hp hne r hr n) st g

/-! ### several molecules -/

theorem readLoop_many_bad (h : TablesOk tt bt) (k : Kind) :
    ∀ (ms : List MolV), (∀ x ∈ ms, Admissible tt bt x) → ∀ (rest : List Str),
      (∀ st f, rest.length < f → BadRes tt bt k (readLoop f st rest)) →
      ∀ (st : RSt) (fuel : Nat), (ms.flatMap (sLines tt bt k) ++ rest).length < fuel →
        BadRes tt bt k (readLoop fuel st (ms.flatMap (sLines tt bt k) ++ rest)) := by
  intro ms
  induction ms with
  | nil =>
    intro _ rest hrest st fuel hf
    simp only [List.flatMap_nil, List.nil_append] at hf ⊢
    exact hrest st fuel hf
  | cons m ms ih =>
    intro hm rest hrest st fuel hf
    simp only [List.flatMap_cons, List.append_assoc] at hf ⊢
    have h4 := sLines_length_ge tt bt k m
    simp only [List.length_append] at hf
    obtain ⟨f, rfl⟩ : ∃ f, fuel = f + 4 := ⟨fuel - 4, by omega⟩
    rw [readLoop_sLines tt bt h k m (hm m (by simp)) st _ f]
    have hin := ih (fun x hx => hm x (by simp [hx])) rest hrest (stOf tt bt k m) f
      (by simp only [List.length_append]; omega)
    rcases hin with ⟨e, he⟩ | ⟨bs, b, he, hb⟩
    · rw [he]; exact Or.inl ⟨e, rfl⟩
    · rw [he]; exact Or.inr ⟨flush st ++ bs, b, by simp only [List.append_assoc], hb⟩

/-- all lines of the text -/
def allLines (k : Kind) (ms : List MolV) : List Str := ms.flatMap (writeLines tt bt k)

/-- "all byte offsets of the last record": the text of admissible molecules `ms ++ [m]` cut inside its
LAST line — i.e. all lines but the last, followed by a proper prefix `p` of the last line — is rejected
or gives exactly the first `j` molecules, content-equal to the undamaged text's; never a partial one. -/
theorem loadsAll_cut_last (h : TablesOk tt bt) (k : Kind) (ms : List MolV) (m : MolV)
    (hm : ∀ x ∈ ms ++ [m], Admissible tt bt x)
    (l : Str) (hl : (allLines tt bt k (ms ++ [m])).getLast? = some l)
    (p : Str) (hp : p <+: l) (hne : p ≠ l) :
    (∃ j, j ≤ (ms ++ [m]).length ∧
      loadsAll tt bt k none (joinLines ((allLines tt bt k (ms ++ [m])).dropLast) ++ p) =
        .ok (((ms ++ [m]).take j).map (normMol tt bt k))) ∨
    (∃ e, loadsAll tt bt k none (joinLines ((allLines tt bt k (ms ++ [m])).dropLast) ++ p) = .error e) := by
  have hadm : Admissible tt bt m := hm m (by simp)
  have hms : ∀ x ∈ ms, Admissible tt bt x := fun x hx => hm x (by simp [hx])
  by_cases hp0 : p = []
  · subst hp0
    rw [List.append_nil, List.dropLast_eq_take]
    exact loadsAll_take_lines tt bt h k (ms ++ [m]) hm _
  · right
    have hlines : allLines tt bt k (ms ++ [m]) = ms.flatMap (writeLines tt bt k) ++ writeLines tt bt k m := by
      simp only [allLines, List.flatMap_append, List.flatMap_cons, List.flatMap_nil, List.append_nil]
    have hnlL : ∀ y ∈ allLines tt bt k (ms ++ [m]), '\n' ∉ y := by
      intro y hy
      simp only [allLines, List.mem_flatMap] at hy
      obtain ⟨x, hx, hy⟩ := hy
      exact writeLines_no_nl tt bt h k x (hm x hx) y hy
    obtain ⟨W0, x, hWx⟩ : ∃ W0 x, writeLines tt bt k m = W0 ++ [x] := by
      rcases List.eq_nil_or_concat (writeLines tt bt k m) with h0 | ⟨W0, x, hx⟩
      · have := sLines_length_ge tt bt k m
        simp only [sLines, List.length_map, h0, List.length_nil] at this
        omega
      · exact ⟨W0, x, by rw [hx, List.concat_eq_append]⟩
    have hlW : (writeLines tt bt k m).getLast? = some l := by
      rw [hlines, hWx, ← List.append_assoc, List.getLast?_concat] at hl
      rw [hWx, List.getLast?_concat]
      exact hl
    have hxl : x = l := by
      rw [hWx, List.getLast?_concat] at hlW
      exact Option.some.inj hlW
    subst hxl
    have hdrop : (allLines tt bt k (ms ++ [m])).dropLast = ms.flatMap (writeLines tt bt k) ++ W0 := by
      rw [hlines, hWx, ← List.append_assoc, List.dropLast_concat]
    have hnl : ∀ y ∈ ms.flatMap (writeLines tt bt k) ++ W0, '\n' ∉ y := by
      intro y hy
      apply hnlL y
      rw [hlines, hWx, ← List.append_assoc]
      exact List.mem_append_left _ hy
    have hnlp : '\n' ∉ p := by
      intro hc
      apply hnlL x (List.mem_of_getLast? hl)
      exact hp.subset hc
    have hsplit : splitLines (joinLines (ms.flatMap (writeLines tt bt k) ++ W0) ++ p) =
        (ms.flatMap (writeLines tt bt k) ++ W0) ++ [p] := by
      rw [splitLines_joinLines_append _ _ hnl hnlp, if_neg hp0]
    have hW0 : W0.map pyStrip = (sLines tt bt k m).dropLast := by
      simp only [sLines, hWx, List.map_append, List.map_cons, List.map_nil, List.dropLast_concat]
    have hmap : ((ms.flatMap (writeLines tt bt k) ++ W0) ++ [p]).map pyStrip =
        ms.flatMap (sLines tt bt k) ++ ((sLines tt bt k m).dropLast ++ [pyStrip p]) := by
      rw [List.map_append, List.map_append, hW0, List.map_flatMap, List.append_assoc]
      rfl
    have hlenS : ((sLines tt bt k m).dropLast ++ [pyStrip p]).length = (sLines tt bt k m).length := by
      have := sLines_length_ge tt bt k m
      simp only [List.length_append, List.length_dropLast, List.length_cons, List.length_nil]
      omega
    have hbad := readLoop_many_bad tt bt h k ms hms ((sLines tt bt k m).dropLast ++ [pyStrip p])
      (fun st f hf => readLoop_last_cut tt bt h k m hadm x hlW p hp hne hp0 st f (by rw [← hlenS]; exact hf))
      RSt.init _ (Nat.lt_succ_self _)
    rw [hdrop]
    simp only [loadsAll, readBlocks]
    rw [hsplit, hmap]
    rcases hbad with ⟨e, he⟩ | ⟨bs, b, he, hb⟩
    · rw [he]; exact ⟨e, rfl⟩
    · rw [he]
      exact mapE_append_bad _ bs b hb

end
end Molli.Lemmas.Mol2TruncationBytes
