/-
Structure of the xyz reader model (C08, C10): termination, complete-or-error, frames written by the
writer model are read back.  Statements about `Molli.Model.Xyz`.
-/
import Molli.Model.Xyz
import Molli.Lemmas.Text
import Molli.Lemmas.Num
import Molli.Lemmas.Mol2Types
namespace Molli.Lemmas.XyzReader
open Molli.Model.Text Molli.Model.Mol2Types Molli.Model.Xyz Molli.Lemmas.Text Molli.Lemmas.Num

theorem readAtoms_len : ∀ n ls as rest, readAtoms n ls = .ok (as, rest) →
    as.length = n ∧ rest.length + n = ls.length := by
  intro n
  induction n with
  | zero => intro ls as rest h; simp only [readAtoms, Except.ok.injEq, Prod.mk.injEq] at h; obtain ⟨rfl, rfl⟩ := h; simp
  | succ n ih =>
    intro ls as rest h
    cases ls with
    | nil => simp [readAtoms] at h
    | cons l ls =>
      simp only [readAtoms] at h
      split at h
      · simp at h
      · split at h
        · simp at h
        · rename_i a ha as' rest' hr
          simp only [Except.ok.injEq, Prod.mk.injEq] at h
          obtain ⟨rfl, rfl⟩ := h
          have := ih ls as' rest' hr
          simp only [List.length_cons]; omega

theorem readAtoms_ne_fuel (n : Nat) (ls : List Str) : readAtoms n ls ≠ .error .fuel := by
  induction n generalizing ls with
  | zero => simp [readAtoms]
  | succ n ih =>
    cases ls with
    | nil => simp [readAtoms]
    | cons l ls =>
      simp only [readAtoms]
      split
      · rename_i e he
        intro h; simp only [Except.error.injEq] at h; subst h
        simp only [parseAtomLine] at he
        split at he
        · split at he <;> simp at he
        · simp at he
      · split
        · rename_i e he; intro h; simp only [Except.error.injEq] at h; subst h; exact ih ls he
        · simp

/-- `read_xyz` terminates: fuel `ls.length + 1` always suffices -/
theorem readLoop_terminates : ∀ (f : Nat) (ls : List Str), ls.length < f → readLoop f ls ≠ .error .fuel := by
  intro f
  induction f with
  | zero => intro ls h; omega
  | succ f ih =>
    intro ls hlen
    cases ls with
    | nil => simp [readLoop]
    | cons line ls =>
      simp only [List.length_cons] at hlen
      simp only [readLoop]
      split
      · simp
      · split
        · simp
        · rename_i n hn c ls'
          split
          · rename_i e he; intro h; simp only [Except.error.injEq] at h; subst h; exact readAtoms_ne_fuel _ _ he
          · rename_i as rest hr
            have hl := (readAtoms_len _ _ _ _ hr).2
            simp only [List.length_cons] at hlen
            split
            · rename_i e he; intro h; simp only [Except.error.injEq] at h; subst h
              exact ih rest (by omega) he
            · simp

/-- every block the reader returns has exactly the number of atoms its count line declares -/
theorem readLoop_complete : ∀ (f : Nat) (ls : List Str) (bs : List RawBlock),
    readLoop f ls = .ok bs → ∀ b ∈ bs, b.atoms.length = b.n.toNat := by
  intro f
  induction f with
  | zero => intro ls bs h; simp [readLoop] at h
  | succ f ih =>
    intro ls bs h
    cases ls with
    | nil => simp only [readLoop, Except.ok.injEq] at h; subst h; simp
    | cons line ls =>
      simp only [readLoop] at h
      split at h
      · simp at h
      · split at h
        · simp at h
        · split at h
          · simp at h
          · rename_i n hn c ls' as rest hr
            split at h
            · simp at h
            · rename_i more hmore
              simp only [Except.ok.injEq] at h
              subst h
              intro b hb
              simp only [List.mem_cons] at hb
              rcases hb with rfl | hb
              · exact (readAtoms_len _ _ _ _ hr).1
              · exact ih rest more hmore b hb

/-! ### what the writer writes is read back -/

section roundtrip
variable (tt : TypeTable)

/-- the atom as `read_xyz` sees it after `dump_xyz` wrote it -/
def rawAtomOf (a : XAtom) : RawAtom := ⟨strOf (tt.sym a.e), roundNum 6 a.x, roundNum 6 a.y, roundNum 6 a.z⟩

def rawOf (f : Frame) : RawBlock := ⟨(f.atoms.length : Int), pyStrip f.comment, f.atoms.map (rawAtomOf tt)⟩

/-- the frame after one write/read cycle: coordinates at the written precision, comment stripped,
atom types not carried by the format -/
def normAtom (a : XAtom) : XAtom := ⟨a.e, false, roundNum 6 a.x, roundNum 6 a.y, roundNum 6 a.z⟩
def normFrame (f : Frame) : Frame := ⟨pyStrip f.comment, f.atoms.map normAtom⟩

theorem replicate_append_singleton (k : Nat) (c : Char) : List.replicate k c ++ [c] = c :: List.replicate k c := by
  induction k with
  | zero => rfl
  | succ k ih => simp only [List.replicate_succ, List.cons_append, ih]

theorem ws_space : isWs ' ' = true := by decide

theorem parseAtomLine_atomLine (a : XAtom) (hs : Tok (strOf (tt.sym a.e))) :
    parseAtomLine (atomLine tt a) = .ok (rawAtomOf tt a) := by
  have hx := fmtFixed_tok 6 a.x
  have hy := fmtFixed_tok 6 a.y
  have hz := fmtFixed_tok 6 a.z
  have hsplit : pySplit (atomLine tt a) =
      [strOf (tt.sym a.e), fmtFixed 6 a.x, fmtFixed 6 a.y, fmtFixed 6 a.z] := by
    simp only [atomLine, padRight, padLeft, List.append_assoc]
    rw [← List.append_assoc (List.replicate _ ' ') [' '], replicate_append_singleton, List.cons_append]
    rw [pySplit_tok_cons _ _ _ hs ws_space]
    rw [pySplit_ws_append _ _ (ws_replicate _), pySplit_ws_append _ _ (ws_replicate _)]
    simp only [List.singleton_append]
    rw [pySplit_tok_cons _ _ _ hx ws_space, pySplit_ws_append _ _ (ws_replicate _)]
    rw [pySplit_tok_cons _ _ _ hy ws_space, pySplit_ws_append _ _ (ws_replicate _)]
    rw [pySplit_tok _ hz]
  simp only [parseAtomLine, hsplit, parseFloat_fmtFixed 6 (by omega), rawAtomOf]

theorem readAtoms_atomLines (as : List XAtom) (rest : List Str)
    (hs : ∀ a ∈ as, Tok (strOf (tt.sym a.e))) :
    readAtoms as.length (as.map (atomLine tt) ++ rest) = .ok (as.map (rawAtomOf tt), rest) := by
  induction as with
  | nil => simp [readAtoms]
  | cons a as ih =>
    simp only [List.length_cons, List.map_cons, List.cons_append, readAtoms]
    rw [parseAtomLine_atomLine tt a (hs a (by simp))]
    simp only
    rw [ih (fun b hb => hs b (by simp [hb]))]

theorem frameLines_length (f : Frame) : (frameLines tt f).length = f.atoms.length + 2 := by
  simp [frameLines]

/-- the reader loop on the lines of written frames (any sufficient fuel) -/
theorem readLoop_frames (fs : List Frame) (hs : ∀ f ∈ fs, ∀ a ∈ f.atoms, Tok (strOf (tt.sym a.e))) :
    ∀ fuel, (fs.flatMap (frameLines tt)).length < fuel →
      readLoop fuel (fs.flatMap (frameLines tt)) = .ok (fs.map (rawOf tt)) := by
  induction fs with
  | nil => intro fuel h; cases fuel with
    | zero => simp at h
    | succ fuel => simp [readLoop]
  | cons f fs ih =>
    intro fuel hfuel
    cases fuel with
    | zero => omega
    | succ fuel =>
      simp only [List.flatMap_cons, frameLines, List.cons_append, List.nil_append, readLoop]
      rw [parseInt_natStr]
      simp only [Int.toNat_natCast]
      rw [readAtoms_atomLines tt f.atoms _ (hs f (by simp))]
      simp only
      have hlen : (fs.flatMap (frameLines tt)).length < fuel := by
        simp only [List.flatMap_cons, List.length_append, frameLines_length] at hfuel
        omega
      rw [ih (fun g hg => hs g (by simp [hg])) fuel hlen]
      simp only [rawOf, List.map_cons]

theorem buildAtom_rawAtomOf (hsym : tt.symbolRoundtrip = true) (hok : tt.symsOk = true)
    (a : XAtom) (ha : a.e < tt.nE) : buildAtom tt (rawAtomOf tt a) = .ok (normAtom a) := by
  have h1 := Molli.Lemmas.Mol2Types.symsOk_spec tt hok a.e ha
  have h2 := Molli.Lemmas.Mol2Types.symbolRoundtrip_spec tt hsym a.e ha
  have hlt : ∀ x ∈ tt.sym a.e, x < 256 := by
    intro x hx; simp only [TypeTable.sym] at hx; exact Molli.Lemmas.Mol2Types.unpack_lt _ _ x hx
  unfold buildAtom
  have hne : (rawAtomOf tt a).sym ≠ star := h1.2
  rw [if_neg hne]
  have hc : codesOf (rawAtomOf tt a).sym = tt.sym a.e := Molli.Lemmas.Mol2Types.codesOf_strOf hlt
  rw [hc, h2]
  rfl

theorem mapE_map_ok {α β : Type} (f : α → Except Err β) (g : α → β) (l : List α)
    (h : ∀ a ∈ l, f a = .ok (g a)) : mapE f l = .ok (l.map g) := by
  induction l with
  | nil => rfl
  | cons a l ih =>
    simp only [mapE, h a (by simp), List.map_cons]
    rw [ih (fun b hb => h b (by simp [hb]))]

theorem buildFrame_rawOf (hsym : tt.symbolRoundtrip = true) (hok : tt.symsOk = true)
    (f : Frame) (hf : ∀ a ∈ f.atoms, a.e < tt.nE) : buildFrame tt (rawOf tt f) = .ok (normFrame f) := by
  unfold buildFrame
  have hn : ¬ (rawOf tt f).n < 0 := by simp only [rawOf]; omega
  rw [if_neg hn]
  have hm : mapE (buildAtom tt) (rawOf tt f).atoms = .ok (f.atoms.map normAtom) := by
    simp only [rawOf]
    have := mapE_map_ok (buildAtom tt ∘ rawAtomOf tt) normAtom f.atoms
      (fun a ha => buildAtom_rawAtomOf tt hsym hok a (hf a ha))
    rw [← this]
    clear this
    induction f.atoms with
    | nil => rfl
    | cons a as ih => simp only [List.map_cons, mapE, Function.comp]; rw [ih]
  rw [hm]
  rfl

theorem nl_not_mem_of_tok {s : Str} (h : Tok s) : '\n' ∉ s := by
  intro hm
  have := h.2 _ hm
  exact Bool.noConfusion (this.symm.trans (by decide : isWs '\n' = true))

theorem nl_not_mem_replicate (k : Nat) : '\n' ∉ List.replicate k ' ' := by
  intro hm
  have := (List.mem_replicate.1 hm).2
  exact absurd this (by decide)

theorem atomLine_no_nl (a : XAtom) (hs : Tok (strOf (tt.sym a.e))) : '\n' ∉ atomLine tt a := by
  have hx := nl_not_mem_of_tok (fmtFixed_tok 6 a.x)
  have hy := nl_not_mem_of_tok (fmtFixed_tok 6 a.y)
  have hz := nl_not_mem_of_tok (fmtFixed_tok 6 a.z)
  have h0 := nl_not_mem_of_tok hs
  have hsp : '\n' ∉ [' '] := by decide
  simp only [atomLine, padRight, padLeft, List.mem_append, not_or]
  exact ⟨⟨⟨⟨⟨⟨⟨h0, nl_not_mem_replicate _⟩, hsp⟩, nl_not_mem_replicate _, hx⟩, hsp⟩, nl_not_mem_replicate _, hy⟩, hsp⟩,
    nl_not_mem_replicate _, hz⟩

theorem frameLines_no_nl (f : Frame) (hc : '\n' ∉ f.comment) (hs : ∀ a ∈ f.atoms, Tok (strOf (tt.sym a.e))) :
    ∀ l ∈ frameLines tt f, '\n' ∉ l := by
  intro l hl
  simp only [frameLines, List.cons_append, List.nil_append, List.mem_cons, List.mem_map] at hl
  rcases hl with rfl | rfl | ⟨a, ha, rfl⟩
  · exact nl_not_mem_of_tok (natStr_tok _)
  · exact hc
  · exact atomLine_no_nl tt a (hs a ha)

/-- `loads_all_xyz(dumps_xyz(frames))`: every frame comes back, in order, with the same atom count,
order and elements and the coordinates at the written precision. -/
theorem loadsAll_writeText (hsym : tt.symbolRoundtrip = true) (hok : tt.symsOk = true) (fs : List Frame)
    (hf : ∀ f ∈ fs, (∀ a ∈ f.atoms, a.e < tt.nE) ∧ '\n' ∉ f.comment) :
    loadsAll tt (writeText tt fs) = .ok (fs.map normFrame) := by
  have hs : ∀ f ∈ fs, ∀ a ∈ f.atoms, Tok (strOf (tt.sym a.e)) :=
    fun f hfm a ha => (Molli.Lemmas.Mol2Types.symsOk_spec tt hok a.e ((hf f hfm).1 a ha)).1
  have hnl : ∀ l ∈ fs.flatMap (frameLines tt), '\n' ∉ l := by
    intro l hl
    simp only [List.mem_flatMap] at hl
    obtain ⟨f, hfm, hl⟩ := hl
    exact frameLines_no_nl tt f (hf f hfm).2 (hs f hfm) l hl
  simp only [loadsAll, readBlocks, writeText]
  rw [splitLines_joinLines _ hnl, readLoop_frames tt fs hs _ (by omega)]
  simp only
  have := mapE_map_ok (buildFrame tt ∘ rawOf tt) normFrame fs
    (fun f hfm => buildFrame_rawOf tt hsym hok f (hf f hfm).1)
  rw [← this]
  clear this
  induction fs with
  | nil => rfl
  | cons a as ih => simp only [List.map_cons, mapE, Function.comp]; rw [ih (fun f hfm => hf f (by simp [hfm])) (fun f hfm => hs f (by simp [hfm])) (by
      intro l hl; exact hnl l (by simp only [List.flatMap_cons, List.mem_append]; exact Or.inr hl))]

/-! ### truncation at a line boundary -/

theorem readAtoms_short (as : List XAtom) (n : Nat) (hn : as.length < n)
    (hs : ∀ a ∈ as, Tok (strOf (tt.sym a.e))) :
    readAtoms n (as.map (atomLine tt)) = .error .eof := by
  induction as generalizing n with
  | nil =>
    cases n with
    | zero => simp at hn
    | succ n => simp [readAtoms]
  | cons a as ih =>
    cases n with
    | zero => simp at hn
    | succ n =>
      simp only [List.map_cons, readAtoms]
      rw [parseAtomLine_atomLine tt a (hs a (by simp))]
      simp only
      rw [ih n (by simp only [List.length_cons] at hn; omega) (fun b hb => hs b (by simp [hb]))]

/-- reading the first `k` lines of written frames: an error, or exactly the complete frames -/
theorem readLoop_take (fs : List Frame) (hs : ∀ f ∈ fs, ∀ a ∈ f.atoms, Tok (strOf (tt.sym a.e))) :
    ∀ k fuel, ((fs.flatMap (frameLines tt)).take k).length < fuel →
      (∃ j, j ≤ fs.length ∧ readLoop fuel ((fs.flatMap (frameLines tt)).take k) = .ok ((fs.take j).map (rawOf tt))) ∨
      (∃ e, readLoop fuel ((fs.flatMap (frameLines tt)).take k) = .error e) := by
  induction fs with
  | nil =>
    intro k fuel h
    left; refine ⟨0, by simp, ?_⟩
    cases fuel with
    | zero => simp at h
    | succ fuel => simp [readLoop]
  | cons f fs ih =>
    intro k fuel hfuel
    cases fuel with
    | zero => omega
    | succ fuel =>
      have hlenF := frameLines_length tt f
      by_cases hk : (frameLines tt f).length ≤ k
      · -- the first frame is complete
        have htake : ((f :: fs).flatMap (frameLines tt)).take k =
            frameLines tt f ++ (fs.flatMap (frameLines tt)).take (k - (frameLines tt f).length) := by
          simp only [List.flatMap_cons]
          rw [List.take_append]
          rw [List.take_of_length_le hk]
        rw [htake] at hfuel ⊢
        simp only [List.length_append] at hfuel
        have hrec := ih (fun g hg => hs g (by simp [hg])) (k - (frameLines tt f).length) fuel (by omega)
        have hstep : ∀ rest, readLoop (fuel + 1) (frameLines tt f ++ rest) =
            (match readLoop fuel rest with
             | .error e => .error e
             | .ok more => .ok (rawOf tt f :: more)) := by
          intro rest
          simp only [frameLines, List.cons_append, List.nil_append, readLoop]
          rw [parseInt_natStr]
          simp only [Int.toNat_natCast]
          rw [readAtoms_atomLines tt f.atoms _ (hs f (by simp))]
          simp only [rawOf]
          cases readLoop fuel rest <;> rfl
        rw [hstep]
        rcases hrec with ⟨j, hj, hr⟩ | ⟨e, he⟩
        · left
          refine ⟨j + 1, by simp only [List.length_cons]; omega, ?_⟩
          rw [hr]
          simp only [List.take_succ_cons, List.map_cons]
        · right; exact ⟨e, by rw [he]⟩
      · -- the cut falls inside the first frame
        have hk' : k < f.atoms.length + 2 := by omega
        have htake : ((f :: fs).flatMap (frameLines tt)).take k = (frameLines tt f).take k := by
          simp only [List.flatMap_cons]
          rw [List.take_append_of_le_length (by omega)]
        rw [htake]
        match k, hk' with
        | 0, _ => left; exact ⟨0, by simp, by simp [readLoop]⟩
        | 1, _ =>
          right
          refine ⟨.eof, ?_⟩
          simp only [frameLines, List.cons_append, List.nil_append, List.take_succ_cons, List.take_zero, readLoop]
          rw [parseInt_natStr]
        | k + 2, hk2 =>
          right
          refine ⟨.eof, ?_⟩
          simp only [frameLines, List.cons_append, List.nil_append, List.take_succ_cons, readLoop]
          rw [parseInt_natStr]
          simp only [Int.toNat_natCast]
          rw [← List.map_take]
          rw [readAtoms_short tt (f.atoms.take k) f.atoms.length (by simp only [List.length_take]; omega)
            (fun a ha => hs f (by simp) a (List.mem_of_mem_take ha))]

/-- "for every truncation point (all line boundaries)": the text cut after any number of lines is
rejected or gives exactly the frames that are complete — a prefix of the undamaged file's frames,
content-equal; never a partial frame. -/
theorem loadsAll_take_lines (hsym : tt.symbolRoundtrip = true) (hok : tt.symsOk = true) (fs : List Frame)
    (hf : ∀ f ∈ fs, (∀ a ∈ f.atoms, a.e < tt.nE) ∧ '\n' ∉ f.comment) (k : Nat) :
    (∃ j, j ≤ fs.length ∧
      loadsAll tt (joinLines ((fs.flatMap (frameLines tt)).take k)) = .ok ((fs.take j).map normFrame)) ∨
    (∃ e, loadsAll tt (joinLines ((fs.flatMap (frameLines tt)).take k)) = .error e) := by
  have hs : ∀ f ∈ fs, ∀ a ∈ f.atoms, Tok (strOf (tt.sym a.e)) :=
    fun f hfm a ha => (Molli.Lemmas.Mol2Types.symsOk_spec tt hok a.e ((hf f hfm).1 a ha)).1
  have hnl : ∀ l ∈ (fs.flatMap (frameLines tt)).take k, '\n' ∉ l := by
    intro l hl
    have hl := List.mem_of_mem_take hl
    simp only [List.mem_flatMap] at hl
    obtain ⟨f, hfm, hl⟩ := hl
    exact frameLines_no_nl tt f (hf f hfm).2 (hs f hfm) l hl
  simp only [loadsAll, readBlocks]
  rw [splitLines_joinLines _ hnl]
  rcases readLoop_take tt fs hs k _ (Nat.lt_succ_self _) with ⟨j, hj, hr⟩ | ⟨e, he⟩
  · left
    refine ⟨j, hj, ?_⟩
    rw [hr]
    simp only
    have hfj : ∀ f ∈ fs.take j, ∀ a ∈ f.atoms, a.e < tt.nE := fun f hfm => (hf f (List.mem_of_mem_take hfm)).1
    generalize fs.take j = gs at hfj
    induction gs with
    | nil => rfl
    | cons g gs ih =>
      simp only [List.map_cons, mapE]
      rw [buildFrame_rawOf tt hsym hok g (hfj g (by simp))]
      simp only
      rw [ih (fun f hfm => hfj f (by simp [hfm]))]
  · right; exact ⟨e, by rw [he]⟩

end roundtrip

end Molli.Lemmas.XyzReader
