/-
Substructure handles (`Molli.Model.Geom.viewRows` / `viewEdit`): rows are looked up from atom
identities at access time, hence an edit through a handle moves exactly the handle's atoms whatever
happened to the parent since the handle was made.  Core Lean only.
-/
import Molli.Model.Geom
namespace Molli.Lemmas.GeomView
open Molli.Model.Geom

/-- is row `i` of the parent occupied by an atom of the handle? -/
def selRow (atoms handle : List Nat) (i : Nat) : Bool :=
  match atoms[i]? with
  | some a => decide (a ∈ handle)
  | none => false

theorem idxOf?_of_nodup {atoms : List Nat} (hnd : atoms.Nodup) {i a : Nat} :
    atoms.idxOf? a = some i ↔ atoms[i]? = some a := by
  rw [List.idxOf?_eq_some_iff]
  constructor
  · rintro ⟨h, he, _⟩
    rw [List.getElem?_eq_getElem h, he]
  · intro h
    obtain ⟨hi, he⟩ := List.getElem?_eq_some_iff.mp h
    refine ⟨hi, he, fun j hj hje => ?_⟩
    have : j = i := (List.getElem_inj hnd).mp (hje.trans he.symm)
    omega

theorem mem_viewRows {atoms handle : List Nat} (hnd : atoms.Nodup) (i : Nat) :
    i ∈ viewRows atoms handle ↔ selRow atoms handle i = true := by
  unfold viewRows selRow
  rw [List.mem_filterMap]
  constructor
  · rintro ⟨a, ha, hidx⟩
    rw [(idxOf?_of_nodup hnd).mp hidx]
    simpa using ha
  · intro h
    cases hai : atoms[i]? with
    | none => rw [hai] at h; simp at h
    | some a =>
      rw [hai] at h
      exact ⟨a, by simpa using h, (idxOf?_of_nodup hnd).mpr hai⟩

variable {α : Type}

/-- row by row: an edit through a handle changes row `i` iff the atom NOW in row `i` belongs to
the handle -/
theorem viewEdit_getElem? (atoms handle : List Nat) (hnd : atoms.Nodup) (coords : List (V3 α))
    (f : V3 α → V3 α) (i : Nat) :
    (viewEdit atoms coords handle f)[i]? =
      (coords[i]?).map (fun p => if selRow atoms handle i = true then f p else p) := by
  unfold viewEdit updateSel
  rw [List.getElem?_mapIdx]
  cases coords[i]? with
  | none => rfl
  | some p =>
    simp only [Option.map_some]
    by_cases h : selRow atoms handle i = true
    · simp only [h, if_true, (mem_viewRows hnd i).mpr h]
    · have : i ∉ viewRows atoms handle := fun hm => h ((mem_viewRows hnd i).mp hm)
      simp only [h, this, if_false]
      rfl

theorem selRow_eraseIdx (atoms handle : List Nat) (k j : Nat) :
    selRow (atoms.eraseIdx k) handle j = selRow atoms handle (if j < k then j else j + 1) := by
  unfold selRow
  rw [List.getElem?_eraseIdx]
  by_cases h : j < k <;> simp only [h, if_true, if_false]

/-- deleting a parent atom (any atom — its own row goes with it) commutes with an edit through a
handle that already existed: the handle keeps addressing its own atoms -/
theorem viewEdit_eraseIdx (atoms handle : List Nat) (hnd : atoms.Nodup) (coords : List (V3 α))
    (f : V3 α → V3 α) (k : Nat) :
    viewEdit (atoms.eraseIdx k) (coords.eraseIdx k) handle f =
      (viewEdit atoms coords handle f).eraseIdx k := by
  apply List.ext_getElem?
  intro j
  rw [viewEdit_getElem? _ _ (List.Nodup.eraseIdx k hnd), List.getElem?_eraseIdx (l := viewEdit atoms coords handle f),
    List.getElem?_eraseIdx, selRow_eraseIdx]
  by_cases hjk : j < k
  · simp only [hjk, if_true]
    rw [viewEdit_getElem? _ _ hnd]
  · simp only [hjk, if_false]
    rw [viewEdit_getElem? _ _ hnd]

/-- appending a parent atom with its row (`add_atom`) does not disturb an existing handle -/
theorem viewEdit_append (atoms handle : List Nat) (hnd : (atoms ++ [a]).Nodup) (coords : List (V3 α))
    (f : V3 α → V3 α) (p : V3 α) (hlen : coords.length = atoms.length) (ha : a ∉ handle) :
    viewEdit (atoms ++ [a]) (coords ++ [p]) handle f = viewEdit atoms coords handle f ++ [p] := by
  have hnd' : atoms.Nodup := (List.nodup_append.mp hnd).1
  have hl : (viewEdit atoms coords handle f).length = coords.length := by
    simp only [viewEdit, updateSel, List.length_mapIdx]
  apply List.ext_getElem?
  intro j
  rw [viewEdit_getElem? _ _ hnd]
  rcases Nat.lt_trichotomy j coords.length with hj | hj | hj
  · rw [List.getElem?_append_left hj, List.getElem?_append_left (by omega), viewEdit_getElem? _ _ hnd']
    have : selRow (atoms ++ [a]) handle j = selRow atoms handle j := by
      unfold selRow; rw [List.getElem?_append_left (by omega)]
    rw [this]
  · subst hj
    rw [List.getElem?_append_right (Nat.le_refl _), List.getElem?_append_right (by omega)]
    have : selRow (atoms ++ [a]) handle coords.length = false := by
      unfold selRow
      rw [hlen, List.getElem?_append_right (Nat.le_refl _)]
      simp [ha]
    simp [this, hl]
  · rw [List.getElem?_eq_none_iff.mpr (by simp; omega), List.getElem?_eq_none_iff.mpr (by simp [hl]; omega)]
    rfl

end Molli.Lemmas.GeomView
