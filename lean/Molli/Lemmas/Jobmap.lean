/-
Helper lemmas for C18: what a valid cache entry is, the work list seen through `find?`, when an item is
post-processed, when an executed job's record is usable.  Core Lean only.
-/
import Molli.Model.Jobmap
namespace Molli.Lemmas.Jobmap
open Molli.Model.Jobmap

/-- validity of a cache entry, spelled out (strict hash check, the default) -/
theorem validCache_iff (r : Run) (st : St) (j : String) (hs : r.strict = true) :
    validCache r st j = true ↔ ∃ e, st.cache j = some e ∧ e.tag = r.tag ∧ e.code = 0 := by
  unfold validCache
  cases st.cache j with
  | none => simp
  | some e => simp [hs]


theorem find_todo (src : List Item) (st : St) (k : String) (hk : st.dest k = none) :
    (todo src st).find? (fun it => it.key == k) = src.find? (fun it => it.key == k) := by
  unfold todo
  rw [List.find?_filter]
  congr 1
  funext it
  by_cases h : it.key = k
  · subst h; simp [hk]
  · simp [h]


/-- when is an item stored: all of its jobs have an output with exit code 0 and the requested file -/
theorem postOf_isSome_iff (cache : String → Option Ent) (r : Run) (it : Item) :
    (postOf .repaired cache r it).isSome ↔
      ∀ j ∈ jobNames it, ∃ e, cache j = some e ∧ e.code = 0 ∧ e.payload.isSome := by
  unfold postOf
  simp only
  split
  · rename_i h
    simp only [Option.isSome_some, true_iff]
    intro j hj
    rw [List.all_eq_true] at h
    have := h (cache j) (List.mem_map.mpr ⟨j, hj, rfl⟩)
    cases hc : cache j with
    | none => rw [hc] at this; cases this
    | some e =>
      rw [hc] at this
      simp at this
      exact ⟨e, rfl, this.1, by simpa using this.2⟩
  · rename_i h
    simp only [Option.isSome_none, Bool.false_eq_true, false_iff]
    intro hall
    apply h
    rw [List.all_eq_true]
    intro x hx
    obtain ⟨j, hj, rfl⟩ := List.mem_map.mp hx
    obtain ⟨e, he, hc, hp⟩ := hall j hj
    rw [he]; simp [hc, hp]

/-- an executed job has a usable output iff its command exited 0 and wrote the requested file -/
theorem entOf_usable_iff (r : Run) (j : String) (a : Nat) :
    ((entOf r j a).code = 0 ∧ (entOf r j a).payload.isSome) ↔ jobOutcome (r.plan j) a = (0, true) := by
  unfold entOf
  rcases h : jobOutcome (r.plan j) a with ⟨c, w⟩
  cases w <;> by_cases hc : c = 0 <;> simp [hc]


/-- the job's return code is 0 iff every one of its commands returned 0 (at that attempt) -/
theorem jobOutcome_code_zero_iff (ps : List Plan) (a : Nat) :
    (jobOutcome ps a).1 = 0 ↔ ∀ p ∈ ps, (outcome p a).1 = 0 := by
  induction ps with
  | nil => simp [jobOutcome]
  | cons p ps ih =>
    unfold jobOutcome
    by_cases h : (outcome p a).1 = 0
    · simp [h, ih]
    · simp [h]

/-- … otherwise it is the return code of the first failing command; nothing a later command does can change it -/
theorem jobOutcome_first_failure (pre : List Plan) (p : Plan) (post : List Plan) (a : Nat)
    (hpre : ∀ q ∈ pre, (outcome q a).1 = 0) (hp : (outcome p a).1 ≠ 0) :
    (jobOutcome (pre ++ p :: post) a).1 = (outcome p a).1 := by
  induction pre with
  | nil => simp [jobOutcome, hp]
  | cons q pre ih =>
    have hq := hpre q (by simp)
    simp only [List.cons_append, jobOutcome, hq, ne_eq, not_true_eq_false, if_false]
    exact ih (fun x hx => hpre x (by simp [hx]))

end Molli.Lemmas.Jobmap
