/-
Lemmas for the session transition system with killed processes (C04 × C03): a writer always opens the library
itself before it writes (`opensFirst`), how one scheduling decision changes one session (`tick_shape`), and the
invariant `KInv` with its preservation by `run` and `kill` events.  Core Lean only.
-/
import Molli.Lemmas.Sessions
namespace Molli.Lemmas.Sessions
open Molli.Model.Ukv Molli.Model.Sessions

/-! ### a session writes only to a file it opened itself -/

/-- is the file open after `prog` ran? -/
def openAfter : Bool → List Act → Bool
  | o, [] => o
  | _, .openFile :: t => openAfter true t
  | _, .closeFile :: t => openAfter false t
  | o, _ :: t => openAfter o t

theorem opensFirst_append (o : Bool) (a b : List Act) :
    opensFirst o (a ++ b) = (opensFirst o a && opensFirst (openAfter o a) b) := by
  induction a generalizing o with
  | nil => simp [opensFirst, openAfter]
  | cons x t ih =>
    cases x <;> simp [opensFirst, openAfter, ih, Bool.and_assoc]

theorem openAfter_append (o : Bool) (a b : List Act) : openAfter o (a ++ b) = openAfter (openAfter o a) b := by
  induction a generalizing o with
  | nil => simp [openAfter]
  | cons x t ih => cases x <;> simp [openAfter, ih]

theorem opensFirst_enqueues (o : Bool) (ps : List KV) :
    opensFirst o (ps.map Act.enqueue) = true ∧ openAfter o (ps.map Act.enqueue) = o := by
  induction ps with
  | nil => simp [opensFirst, openAfter]
  | cons p t ih => simpa [opensFirst, openAfter] using ih

theorem opensFirst_writes (m : Nat) :
    opensFirst true (List.replicate m [Act.writeBegin, Act.writeEnd]).flatten = true ∧
    ∀ o, openAfter o (List.replicate m [Act.writeBegin, Act.writeEnd]).flatten = o := by
  induction m with
  | zero => simp [opensFirst, openAfter]
  | succ m ih => simpa [List.replicate_succ, opensFirst, openAfter] using ih

/-- one step of the skeleton, expanded under a plan: what it needs and what it leaves -/
theorem expandStep_opens (p : Plan) (o : Bool) (st : Step) (t : List Step)
    (h : opensFirstT p.kind p.fault o (st :: t) = true) :
    opensFirst o (expandStep p st) = true ∧
      opensFirstT p.kind p.fault (openAfter o (expandStep p st)) t = true := by
  cases st <;> simp only [expandStep, opensFirstT] at h ⊢
  · exact ⟨rfl, h⟩
  · by_cases hf : p.fault = .atBegin <;> simp_all [opensFirst, openAfter]
  · split <;> simp_all [opensFirst, openAfter]
  · cases hk : p.kind with
    | reading => simp only []; split <;> simp_all [opensFirst, openAfter]
    | writing =>
      simp only []
      have := opensFirst_enqueues o (if (p.fault == Fault.atBody || p.fault == Fault.atBodyBase) = true then List.take p.cut p.puts else p.puts)
      rw [hk] at h
      exact ⟨this.1, by rw [this.2]; exact h⟩
  · simp only [Bool.and_eq_true, Bool.or_eq_true] at h
    obtain ⟨ho, ht⟩ := h
    cases hk : p.kind with
    | reading => simp [opensFirst, openAfter]; rw [hk] at ht; exact ht
    | writing =>
      rw [hk] at ho
      have hot : o = true := by rcases ho with h | h; exact h; simp at h
      subst hot
      simp only [show (Kind.writing == Kind.reading) = false from rfl, Bool.false_eq_true, if_false]
      have := opensFirst_writes (if (p.fault == Fault.atFlush) = true then
        min p.cut (if (p.fault == Fault.atBody || p.fault == Fault.atBodyBase) = true then min p.cut p.puts.length else p.puts.length)
        else (if (p.fault == Fault.atBody || p.fault == Fault.atBodyBase) = true then min p.cut p.puts.length else p.puts.length))
      refine ⟨this.1, ?_⟩
      rw [this.2, ← hk]; exact ht
  · by_cases hf : p.fault = .atEnd <;> simp_all [opensFirst, openAfter]
  · exact ⟨rfl, h⟩

theorem program_opensFirst (p : Plan) (tr : List Step) (o : Bool)
    (h : opensFirstT p.kind p.fault o tr = true) : opensFirst o (tr.flatMap (expandStep p)) = true := by
  induction tr generalizing o with
  | nil => rfl
  | cons st t ih =>
    obtain ⟨h1, h2⟩ := expandStep_opens p o st t h
    rw [List.flatMap_cons, opensFirst_append, h1, Bool.true_and]
    exact ih _ h2


/-! ### what one scheduling decision does to the session that moves -/

def fileOpenAfter (a : Act) (o : Bool) : Bool :=
  match a with
  | .openFile => true
  | .closeFile => false
  | _ => o

def inCSAfter (a : Act) (c : Bool) : Bool :=
  match a with
  | .acquire _ => true
  | .release => false
  | _ => c

def writerAfter (a : Act) (w : Bool) : Bool :=
  match a with
  | .acquire w' => w'
  | _ => w

theorem tick_idle (s : Sys) (i : Nat) (h : ¬ (i < s.n ∧ enabled s i = true)) : tick s i = s := by
  unfold tick; rw [if_neg h]

/-- An enabled step of session `i` whose program is `a :: rest`: the other sessions are untouched, session `i`
advances by one action, and the bookkeeping fields change as the action says. -/
theorem tick_shape (s : Sys) (i : Nat) (a : Act) (rest : List Act) (hi : i < s.n) (he : enabled s i = true)
    (hp : (s.sess i).prog = a :: rest) :
    (tick s i).n = s.n ∧
    (∀ j, j ≠ i → (tick s i).sess j = s.sess j) ∧
    ((tick s i).sess i).prog = rest ∧
    ((tick s i).sess i).fileOpen = fileOpenAfter a (s.sess i).fileOpen ∧
    ((tick s i).sess i).inCS = inCSAfter a (s.sess i).inCS ∧
    ((tick s i).sess i).writer = writerAfter a (s.sess i).writer ∧
    (∀ l ∈ ((tick s i).sess i).seen, l ∈ (s.sess i).seen ∨ l = s.file) := by
  unfold tick
  rw [if_pos ⟨hi, he⟩]
  simp only [hp]
  cases a with
  | writeEnd =>
    cases hq : (s.sess i).queue <;>
      simp [setSess, fileOpenAfter, inCSAfter, writerAfter] <;>
      exact ⟨fun j h1 h2 => absurd h2 h1, fun l h => Or.inl h⟩
  | readAll =>
    simp [setSess, fileOpenAfter, inCSAfter, writerAfter]
    exact fun j h1 h2 => absurd h2 h1
  | _ =>
    simp [setSess, fileOpenAfter, inCSAfter, writerAfter] <;>
    exact ⟨fun j h1 h2 => absurd h2 h1, fun l h => Or.inl h⟩


/-! ### the invariant of the system with killed processes -/

structure KInv (k : KSys) : Prop where
  sinv : SInv k.s
  /-- every session writes only while its own file is open -/
  opens : ∀ i, i < k.s.n → opensFirst (k.s.sess i).fileOpen (k.s.sess i).prog = true
  /-- a session that has not started yet has no file open -/
  fresh : ∀ i, i < k.s.n → (k.s.sess i).inCS = false → (k.s.sess i).prog ≠ [] → (k.s.sess i).fileOpen = false
  /-- while a dead torn tail exists, no writer inside its critical section writes again before the library has been
  opened anew (which cuts the tail) -/
  dead : k.deadTail = true → ∀ i, i < k.s.n → (k.s.sess i).inCS = true → (k.s.sess i).writer = true →
           opensFirst false (k.s.sess i).prog = true
  /-- whatever a session has read so far is a prefix of the library: complete records, in file order -/
  seen : ∀ i, i < k.s.n → ∀ l ∈ (k.s.sess i).seen, l <+: k.s.file

theorem tick_file' (s : Sys) (i : Nat) : s.file <+: (tick s i).file := by
  unfold tick
  split
  · cases hp : (s.sess i).prog with
    | nil => simp only [hp]; exact List.prefix_refl _
    | cons a rest =>
      simp only [hp]
      cases a with
      | writeEnd =>
        cases hq : (s.sess i).queue with
        | nil => simp only [setSess_file]; exact List.prefix_refl _
        | cons kv q => simp only [setSess_file]; exact List.prefix_append _ _
      | _ => simp only [setSess_file]; exact List.prefix_refl _
  · exact List.prefix_refl _

theorem enabled_prog {s : Sys} {i : Nat} (he : enabled s i = true) : ∃ a rest, (s.sess i).prog = a :: rest := by
  cases hp : (s.sess i).prog with
  | nil => simp [enabled, hp] at he
  | cons a rest => exact ⟨a, rest, rfl⟩

/-- the session that moves is inside its critical section unless the action is `acquire` -/
theorem phase_inCS {x : Sess} {a : Act} {rest : List Act} (hp : Phase x) (h : x.prog = a :: rest)
    (ha : ∀ w, a ≠ .acquire w) : x.inCS = true := by
  cases a with
  | acquire w => exact absurd rfl (ha w)
  | release => exact (phase_release hp h).1
  | writeBegin => exact (phase_writeBegin hp h).1
  | writeEnd => exact (phase_writeEnd hp h).1
  | openFile => exact (phase_other hp h rfl (by simp) (by simp)).1
  | closeFile => exact (phase_other hp h rfl (by simp) (by simp)).1
  | updateKeys => exact (phase_other hp h rfl (by simp) (by simp)).1
  | enqueue kv => exact (phase_other hp h rfl (by simp) (by simp)).1
  | readAll => exact (phase_other hp h rfl (by simp) (by simp)).1

/-- **Invariant step (run)**: a scheduling decision preserves `KInv`. -/
theorem kinv_run (k : KSys) (i : Nat) (hk : KInv k) : KInv (ktick k (.run i)) := by
  simp only [ktick]
  by_cases hen : i < k.s.n ∧ enabled k.s i = true
  · obtain ⟨hi, he⟩ := hen
    obtain ⟨a, rest, hp⟩ := enabled_prog he
    obtain ⟨hn, hoth, hprog, hfo, hcs, hwr, hseen⟩ := tick_shape k.s i a rest hi he hp
    have hph := hk.sinv.phase i hi
    refine ⟨inv_tick k.s i hk.sinv, ?_, ?_, ?_, ?_⟩
    · intro j hj
      rw [hn] at hj
      by_cases hji : j = i
      · subst hji
        rw [hprog, hfo]
        have := hk.opens j hj
        rw [hp] at this
        cases a <;> simp_all [opensFirst, fileOpenAfter]
        all_goals (have h2 := this.2; rw [this.1] at h2; exact h2)
      · rw [hoth j hji]; exact hk.opens j hj
    · intro j hj hc hne
      rw [hn] at hj
      by_cases hji : j = i
      · subst hji
        rw [hprog] at hne
        rw [hcs] at hc
        cases a with
        | acquire w => simp [inCSAfter] at hc
        | release => exact absurd (phase_release hph hp).2 hne
        | _ =>
          have := phase_inCS hph hp (by intro w; simp)
          simp [inCSAfter, this] at hc
      · rw [hoth j hji] at hc hne ⊢; exact hk.fresh j hj hc hne
    · intro hd j hj hc hw
      rw [hn] at hj
      have hd' : opensForAppend k.s i = false ∧ k.deadTail = true := by
        cases ho : opensForAppend k.s i <;> simp_all
      by_cases hji : j = i
      · subst hji
        rw [hcs] at hc; rw [hwr] at hw; rw [hprog]
        cases a with
        | acquire w =>
          have hpre := (phase_acquire hph hp).1
          have hfo0 := hk.fresh j hj hpre (by rw [hp]; simp)
          have := hk.opens j hj
          rw [hp, hfo0] at this
          simpa [opensFirst] using this
        | release => simp [inCSAfter] at hc
        | openFile =>
          exfalso
          have : opensForAppend k.s j = true := by
            simp only [writerAfter] at hw
            simp [opensForAppend, hj, he, hw, hp]
          rw [this] at hd'; exact absurd hd'.1 (by simp)
        | _ =>
          simp only [inCSAfter, writerAfter] at hc hw
          have := hk.dead hd'.2 j hj hc hw
          rw [hp] at this
          simpa [opensFirst] using this
      · rw [hoth j hji] at hc hw ⊢; exact hk.dead hd'.2 j hj hc hw
    · intro j hj l hl
      rw [hn] at hj
      have hpre := tick_file' k.s i
      by_cases hji : j = i
      · subst hji
        rcases hseen l hl with h | h
        · exact (hk.seen j hj l h).trans hpre
        · rw [h]; exact hpre
      · rw [hoth j hji] at hl; exact (hk.seen j hj l hl).trans hpre
  · have hidle := tick_idle k.s i hen
    have hno : opensForAppend k.s i = false := by
      simp only [opensForAppend]
      by_cases hi : i < k.s.n
      · have : enabled k.s i = false := by
          cases he : enabled k.s i with
          | false => rfl
          | true => exact absurd ⟨hi, he⟩ hen
        simp [this]
      · simp [hi]
    rw [hidle, hno]
    exact ⟨hk.sinv, hk.opens, hk.fresh, hk.dead, hk.seen⟩

theorem midWrite_prog {x : Sess} (h : midWrite x = true) : ∃ t, x.prog = .writeEnd :: t := by
  unfold midWrite at h
  split at h
  · exact ⟨_, by assumption⟩
  · cases h

/-- **Invariant step (kill)**: the death of a process, at any point of its session, preserves `KInv`. -/
theorem kinv_kill (k : KSys) (i : Nat) (hk : KInv k) : KInv (ktick k (.kill i)) := by
  simp only [ktick]
  by_cases hc : i < k.s.n ∧ (k.s.sess i).prog ≠ []
  · rw [if_pos hc]
    obtain ⟨hi, hne⟩ := hc
    have hs := hk.sinv
    refine ⟨?_, ?_, ?_, ?_, ?_⟩
    · apply sinv_update hs i hi (killSess (k.s.sess i)) k.s.file _ (.done rfl rfl)
      · intro h; simp [killSess] at h
      · intro ht
        right
        have hnm : midWrite (k.s.sess i) = false ∧ k.s.torn = true := by
          cases hm : midWrite (k.s.sess i) <;> simp_all
        obtain ⟨j, hj, h1, h2, t, h3⟩ := hs.torn hnm.2
        refine ⟨j, ?_, hj, h1, h2, t, h3⟩
        intro hji; subst hji
        have : midWrite (k.s.sess j) = true := by simp [midWrite, h3]
        rw [this] at hnm; exact absurd hnm.1 (by simp)
      · exact hs.ghost i hi
      · exact fun _ h => h
      · exact hs.infile i hi
      · exact hs.clean i hi
    · intro j hj
      simp only [setSess_n] at hj
      by_cases hji : j = i
      · subst hji; simp [killSess, opensFirst]
      · rw [setSess_other _ _ _ _ hji]; exact hk.opens j hj
    · intro j hj hcj hnj
      simp only [setSess_n] at hj
      by_cases hji : j = i
      · subst hji; simp [killSess] at hnj
      · rw [setSess_other _ _ _ _ hji] at hcj hnj ⊢; exact hk.fresh j hj hcj hnj
    · intro hd j hj hcj hwj
      simp only [setSess_n] at hj
      by_cases hji : j = i
      · subst hji; simp [killSess] at hcj
      · rw [setSess_other _ _ _ _ hji] at hcj hwj ⊢
        cases hdt : k.deadTail with
        | true => exact hk.dead hdt j hj hcj hwj
        | false =>
          have hm : midWrite (k.s.sess i) = true := by simpa [hdt] using hd
          obtain ⟨t, ht⟩ := midWrite_prog hm
          obtain ⟨hci, hwi, _⟩ := phase_writeEnd (hs.phase i hi) ht
          have := (hs.excl i j hi hj (Ne.symm hji) hci hcj).1
          rw [hwi] at this; cases this
    · intro j hj l hl
      simp only [setSess_n] at hj
      by_cases hji : j = i
      · subst hji
        simp only [setSess_same, killSess] at hl
        exact hk.seen j hj l hl
      · rw [setSess_other _ _ _ _ hji] at hl; exact hk.seen j hj l hl
  · rw [if_neg hc]; exact hk

/-- **Invariant step (tear)**: a write that fails in the middle of a record leaves a torn tail; the invariant survives
because the session that failed does not write again before the library is opened anew, and nobody else is inside. -/
theorem kinv_tear (k : KSys) (i : Nat) (hk : KInv k) : KInv (ktick k (.tear i)) := by
  simp only [ktick]
  by_cases hc : canTear k.s i = true
  · rw [if_pos hc]
    simp only [canTear, Bool.and_eq_true, decide_eq_true_eq] at hc
    obtain ⟨⟨⟨hi, hci⟩, hwi⟩, hoi⟩ := hc
    refine ⟨hk.sinv, hk.opens, hk.fresh, ?_, hk.seen⟩
    intro _ j hj hcj hwj
    by_cases hji : j = i
    · subst hji; exact hoi
    · have := (hk.sinv.excl i j hi hj (Ne.symm hji) hci hcj).1
      rw [hwi] at this; cases this
  · rw [if_neg hc]; exact hk

theorem kinv_step (k : KSys) (e : Ev) (hk : KInv k) : KInv (ktick k e) := by
  cases e with
  | run i => exact kinv_run k i hk
  | kill i => exact kinv_kill k i hk
  | tear i => exact kinv_tear k i hk

end Molli.Lemmas.Sessions
