/-
Helper lemmas for C19: shape/entry lemmas of the (generic) distance kernels, the exact form of
`dist2` over ℚ, floor lemmas for the lattice of `rectangular_grid`, list lemmas for `mesh`,
`argmin`, `whereFrom`, averages.
-/
import Molli.Model.Grid
import Mathlib.Data.Rat.Floor
import Mathlib.Tactic.Linarith
import Mathlib.Tactic.Ring
import Mathlib.Tactic.FieldSimp
namespace Molli.Lemmas.Grid
open Molli.Model.Grid

/-! ### kernels: shapes and entries, for every number type -/
section kernels
variable {α β : Type}

theorem cdist22With_length (f : P3 α → P3 α → β) (a b : List (P3 α)) :
    (cdist22With f a b).length = a.length := by
  simp [cdist22With]

theorem cdist22With_row_length (f : P3 α → P3 α → β) (a b : List (P3 α)) :
    ∀ row ∈ cdist22With f a b, row.length = b.length := by
  intro row h
  simp only [cdist22With, List.mem_map] at h
  obtain ⟨p, _, rfl⟩ := h
  simp

theorem cdist22With_row (f : P3 α → P3 α → β) (a b : List (P3 α)) (i : Nat) :
    (cdist22With f a b)[i]? = a[i]?.map fun p => b.map fun q => f p q := by
  simp [cdist22With]

theorem cdist22With_entry (f : P3 α → P3 α → β) (a b : List (P3 α)) (i j : Nat) :
    (cdist22With f a b)[i]?.bind (·[j]?) = a[i]?.bind fun p => b[j]?.map fun q => f p q := by
  rw [cdist22With_row]
  cases a[i]? <;> simp

theorem cdist32With_length (f : P3 α → P3 α → β) (a : List (List (P3 α))) (b : List (P3 α)) :
    (cdist32With f a b).length = a.length := by
  simp [cdist32With]

theorem cdist32With_block (f : P3 α → P3 α → β) (a : List (List (P3 α))) (b : List (P3 α)) (x : Nat) :
    (cdist32With f a b)[x]? = a[x]?.map fun c => cdist22With f c b := by
  simp [cdist32With]

end kernels

/-! ### the squared distance over ℚ -/

theorem dist2_eq (p q : P3 ℚ) :
    dist2 p q = (p.x - q.x) ^ 2 + (p.y - q.y) ^ 2 + (p.z - q.z) ^ 2 := by
  simp only [dist2, Molli.Model.Grid.sq]; ring

theorem dist2_nonneg (p q : P3 ℚ) : 0 ≤ dist2 p q := by
  rw [dist2_eq]; positivity

theorem dist2_comm (p q : P3 ℚ) : dist2 p q = dist2 q p := by
  rw [dist2_eq, dist2_eq]; ring

theorem dist2_eq_zero (p q : P3 ℚ) : dist2 p q = 0 ↔ p = q := by
  rw [dist2_eq]
  constructor
  · intro h
    have hx := sq_nonneg (p.x - q.x)
    have hy := sq_nonneg (p.y - q.y)
    have hz := sq_nonneg (p.z - q.z)
    have h1 : (p.x - q.x) ^ 2 = 0 := by linarith
    have h2 : (p.y - q.y) ^ 2 = 0 := by linarith
    have h3 : (p.z - q.z) ^ 2 = 0 := by linarith
    have e1 : p.x = q.x := by have := pow_eq_zero_iff (n := 2) (by norm_num) |>.mp h1; linarith
    have e2 : p.y = q.y := by have := pow_eq_zero_iff (n := 2) (by norm_num) |>.mp h2; linarith
    have e3 : p.z = q.z := by have := pow_eq_zero_iff (n := 2) (by norm_num) |>.mp h3; linarith
    cases p; cases q; simp_all
  · rintro rfl; simp

/-- comparing distances through their squares is sound: for non-negative `d`, `m`. -/
theorem le_iff_sq_le (d m : ℚ) (hd : 0 ≤ d) (hm : 0 ≤ m) : d ≤ m ↔ d * d ≤ m * m := by
  constructor
  · intro h; exact mul_self_le_mul_self hd h
  · intro h; by_contra hlt
    have : m < d := lt_of_not_ge hlt
    have := mul_self_lt_mul_self hm this
    linarith

/-! ### one axis of the lattice -/
section axis
variable (lo hi s : ℚ)

theorem floor_mul_le (hs : 0 < s) : ((⌊(hi - lo) / s⌋ : ℤ) : ℚ) * s ≤ hi - lo := by
  have := Int.floor_le ((hi - lo) / s)
  rwa [le_div_iff₀ hs] at this

theorem lt_floor_add_one_mul (hs : 0 < s) : hi - lo < (((⌊(hi - lo) / s⌋ : ℤ) : ℚ) + 1) * s := by
  have := Int.lt_floor_add_one ((hi - lo) / s)
  rwa [div_lt_iff₀ hs] at this

theorem axisCount_eq : axisCount lo hi s = ⌊(hi - lo) / s⌋ + 1 := rfl

theorem floor_nonneg (hs : 0 < s) (hb : lo ≤ hi) : 0 ≤ ⌊(hi - lo) / s⌋ := by
  apply Int.floor_nonneg.mpr
  apply div_nonneg <;> linarith

theorem axisCount_pos (hs : 0 < s) (hb : lo ≤ hi) : 1 ≤ axisCount lo hi s := by
  have := floor_nonneg lo hi s hs hb
  rw [axisCount_eq]; omega

theorem axisCount_toNat_cast (hs : 0 < s) (hb : lo ≤ hi) :
    ((axisCount lo hi s).toNat : ℚ) = ((⌊(hi - lo) / s⌋ : ℤ) : ℚ) + 1 := by
  have h := axisCount_pos lo hi s hs hb
  have : (((axisCount lo hi s).toNat : ℤ) : ℚ) = ((axisCount lo hi s : ℤ) : ℚ) := by
    rw [Int.toNat_of_nonneg (by omega)]
  rw [axisCount_eq] at this
  push_cast at this
  exact_mod_cast this

theorem axisOffset_eq : axisOffset lo hi s = ((hi - lo) - ((⌊(hi - lo) / s⌋ : ℤ) : ℚ) * s) / 2 := by
  simp [axisOffset, axisCount_eq]

theorem axisOffset_nonneg (hs : 0 < s) : 0 ≤ axisOffset lo hi s := by
  rw [axisOffset_eq]
  have := floor_mul_le lo hi s hs
  linarith

theorem axisOffset_lt (hs : 0 < s) : 2 * axisOffset lo hi s < s := by
  rw [axisOffset_eq]
  have := lt_floor_add_one_mul lo hi s hs
  linarith

/-- the axis is the arithmetic progression `lo + o + i*s`, `i < n` -/
theorem axis_eq (hs : 0 < s) (hb : lo ≤ hi) :
    axis lo hi s = (List.range (axisCount lo hi s).toNat).map
      fun (i : Nat) => lo + axisOffset lo hi s + (i : ℚ) * s := by
  have hN := axisCount_toNat_cast lo hi s hs hb
  have hpos := axisCount_pos lo hi s hs hb
  unfold axis linspace
  by_cases h1 : (axisCount lo hi s).toNat = 1
  · rw [if_pos h1, h1]; simp
  · rw [if_neg h1]
    apply List.map_congr_left
    intro i _
    have hm : ((⌊(hi - lo) / s⌋ : ℤ) : ℚ) ≠ 0 := by
      intro h0
      have : ⌊(hi - lo) / s⌋ = 0 := by exact_mod_cast h0
      rw [axisCount_eq, this] at h1
      simp at h1
    have hstep : (hi - axisOffset lo hi s - (lo + axisOffset lo hi s)) /
        (((axisCount lo hi s).toNat : ℚ) - 1) = s := by
      rw [hN, axisOffset_eq]
      generalize ((⌊(hi - lo) / s⌋ : ℤ) : ℚ) = m at hm
      rw [div_eq_iff (by simpa using hm)]
      ring
    rw [hstep]

theorem axis_length (hs : 0 < s) (hb : lo ≤ hi) :
    (axis lo hi s).length = (axisCount lo hi s).toNat := by
  rw [axis_eq lo hi s hs hb]; simp

theorem axis_get (hs : 0 < s) (hb : lo ≤ hi) (i : Nat) (hi' : i < (axisCount lo hi s).toNat) :
    (axis lo hi s)[i]? = some (lo + axisOffset lo hi s + (i : ℚ) * s) := by
  rw [axis_eq lo hi s hs hb]
  simp [hi']

theorem axis_mem (hs : 0 < s) (hb : lo ≤ hi) (x : ℚ) :
    x ∈ axis lo hi s ↔ ∃ i : Nat, i < (axisCount lo hi s).toNat ∧ x = lo + axisOffset lo hi s + (i : ℚ) * s := by
  rw [axis_eq lo hi s hs hb]
  simp only [List.mem_map, List.mem_range]
  constructor
  · rintro ⟨i, h, rfl⟩; exact ⟨i, h, rfl⟩
  · rintro ⟨i, h, rfl⟩; exact ⟨i, h, rfl⟩

end axis

/-! ### mesh -/

theorem length_flatMap_const {α β : Type} (l : List α) (f : α → List β) (m : Nat)
    (h : ∀ a ∈ l, (f a).length = m) : (l.flatMap f).length = l.length * m := by
  induction l with
  | nil => simp
  | cons a l ih =>
    rw [List.flatMap_cons, List.length_append, h a (by simp), ih (fun b hb => h b (by simp [hb]))]
    simp [Nat.succ_mul, Nat.add_comm]

theorem mesh_length (xs ys zs : List ℚ) : (mesh xs ys zs).length = ys.length * (xs.length * zs.length) := by
  unfold mesh
  apply length_flatMap_const
  intro y _
  apply length_flatMap_const
  intro x _
  simp

theorem mesh_mem (xs ys zs : List ℚ) (p : P3 ℚ) :
    p ∈ mesh xs ys zs ↔ p.x ∈ xs ∧ p.y ∈ ys ∧ p.z ∈ zs := by
  unfold mesh
  simp only [List.mem_flatMap, List.mem_map]
  constructor
  · rintro ⟨y, hy, x, hx, z, hz, rfl⟩; exact ⟨hx, hy, hz⟩
  · rintro ⟨hx, hy, hz⟩; exact ⟨p.y, hy, p.x, hx, p.z, hz, by cases p; rfl⟩

theorem getElem?_flatMap_const {α β : Type} (l : List α) (f : α → List β) (m : Nat)
    (h : ∀ a ∈ l, (f a).length = m) (i k : Nat) (hk : k < m) :
    (l.flatMap f)[i * m + k]? = l[i]?.bind fun a => (f a)[k]? := by
  induction l generalizing i with
  | nil => simp
  | cons a l ih =>
    have ha := h a (by simp)
    have hl : ∀ b ∈ l, (f b).length = m := fun b hb => h b (by simp [hb])
    rw [List.flatMap_cons]
    cases i with
    | zero =>
      simp only [Nat.zero_mul, Nat.zero_add, List.getElem?_cons_zero, Option.bind_some]
      rw [List.getElem?_append_left (by omega)]
    | succ i =>
      rw [List.getElem?_append_right (by rw [ha, Nat.succ_mul]; omega)]
      rw [ha, List.getElem?_cons_succ, ← ih hl i]
      congr 1
      rw [Nat.succ_mul]; omega

/-- the ravel order of the grid: point number `(j * nx + i) * nz + k` is `(xs[i], ys[j], zs[k])` -/
theorem mesh_get (xs ys zs : List ℚ) (i j k : Nat) (hi : i < xs.length) (hk : k < zs.length) :
    (mesh xs ys zs)[(j * xs.length + i) * zs.length + k]? =
      ys[j]?.bind fun y => xs[i]?.bind fun x => zs[k]?.map fun z => ⟨x, y, z⟩ := by
  unfold mesh
  have hinner : ∀ y : ℚ, ((xs.flatMap fun x => zs.map fun z => (⟨x, y, z⟩ : P3 ℚ))).length = xs.length * zs.length := by
    intro y
    apply length_flatMap_const; intro x _; simp
  have e : (j * xs.length + i) * zs.length + k = j * (xs.length * zs.length) + (i * zs.length + k) := by
    rw [Nat.add_mul, Nat.mul_assoc, Nat.add_assoc]
  rw [e, getElem?_flatMap_const _ _ (xs.length * zs.length) (fun y _ => hinner y) j (i * zs.length + k)]
  · cases ys[j]? with
    | none => rfl
    | some y =>
      simp only [Option.bind_some]
      rw [getElem?_flatMap_const _ _ zs.length (fun x _ => by simp) i k hk]
      cases xs[i]? <;> simp
  · calc i * zs.length + k < i * zs.length + zs.length := by omega
      _ = (i + 1) * zs.length := by rw [Nat.succ_mul]
      _ ≤ xs.length * zs.length := Nat.mul_le_mul_right _ hi

/-! ### argmin -/

theorem argminFrom_none (i0 : Nat) (ds : List ℚ) : argminFrom i0 ds = none ↔ ds = [] := by
  cases ds with
  | nil => simp [argminFrom]
  | cons d ds =>
    simp only [argminFrom]
    cases argminFrom (i0 + 1) ds with
    | none => simp
    | some je => obtain ⟨j, e⟩ := je; simp only; split <;> simp

theorem argminFrom_spec (i0 : Nat) (ds : List ℚ) (i : Nat) (d : ℚ)
    (h : argminFrom i0 ds = some (i, d)) :
    i0 ≤ i ∧ ds[i - i0]? = some d ∧ (∀ e ∈ ds, d ≤ e) ∧ (∀ j, j < i - i0 → ∀ e, ds[j]? = some e → d < e) := by
  induction ds generalizing i0 i d with
  | nil => simp [argminFrom] at h
  | cons a ds ih =>
    simp only [argminFrom] at h
    cases hr : argminFrom (i0 + 1) ds with
    | none =>
      rw [hr] at h
      simp only [Option.some.injEq, Prod.mk.injEq] at h
      obtain ⟨rfl, rfl⟩ := h
      have : ds = [] := (argminFrom_none _ _).mp hr
      subst this
      simp
    | some je =>
      obtain ⟨j, e⟩ := je
      rw [hr] at h
      obtain ⟨hj, hget, hmin, hfirst⟩ := ih (i0 + 1) j e hr
      by_cases hle : a ≤ e
      · simp only [if_pos hle, Option.some.injEq, Prod.mk.injEq] at h
        obtain ⟨rfl, rfl⟩ := h
        refine ⟨Nat.le_refl _, by simp, ?_, by simp⟩
        intro x hx
        rcases List.mem_cons.mp hx with rfl | hx
        · exact le_refl _
        · exact le_trans hle (hmin x hx)
      · simp only [if_neg hle, Option.some.injEq, Prod.mk.injEq] at h
        obtain ⟨rfl, rfl⟩ := h
        have hlt : e < a := lt_of_not_ge hle
        have hsub : j - i0 = (j - (i0 + 1)) + 1 := by omega
        refine ⟨by omega, ?_, ?_, ?_⟩
        · rw [hsub, List.getElem?_cons_succ]; exact hget
        · intro x hx
          rcases List.mem_cons.mp hx with rfl | hx
          · exact le_of_lt hlt
          · exact hmin x hx
        · intro k hk x hx
          cases k with
          | zero => simp at hx; subst hx; exact hlt
          | succ k =>
            rw [List.getElem?_cons_succ] at hx
            exact hfirst k (by omega) x hx

/-! ### whereFrom -/

theorem whereFrom_mem {α : Type} (q : α → Bool) (i0 : Nat) (l : List α) (n : Nat) :
    n ∈ whereFrom q i0 l ↔ i0 ≤ n ∧ ∃ g, l[n - i0]? = some g ∧ q g = true := by
  induction l generalizing i0 with
  | nil => simp [whereFrom]
  | cons a l ih =>
    simp only [whereFrom]
    by_cases hq : q a = true
    · rw [if_pos hq, List.mem_cons, ih]
      constructor
      · rintro (rfl | ⟨h1, g, hg, hqg⟩)
        · exact ⟨Nat.le_refl _, a, by simp, hq⟩
        · refine ⟨by omega, g, ?_, hqg⟩
          have : n - i0 = (n - (i0 + 1)) + 1 := by omega
          rw [this, List.getElem?_cons_succ]; exact hg
      · rintro ⟨h1, g, hg, hqg⟩
        by_cases hn : n = i0
        · left; exact hn
        · right
          have : n - i0 = (n - (i0 + 1)) + 1 := by omega
          rw [this, List.getElem?_cons_succ] at hg
          exact ⟨by omega, g, hg, hqg⟩
    · rw [if_neg hq, ih]
      constructor
      · rintro ⟨h1, g, hg, hqg⟩
        refine ⟨by omega, g, ?_, hqg⟩
        have : n - i0 = (n - (i0 + 1)) + 1 := by omega
        rw [this, List.getElem?_cons_succ]; exact hg
      · rintro ⟨h1, g, hg, hqg⟩
        by_cases hn : n = i0
        · subst hn; simp at hg; subst hg; exact absurd hqg hq
        · have : n - i0 = (n - (i0 + 1)) + 1 := by omega
          rw [this, List.getElem?_cons_succ] at hg
          exact ⟨by omega, g, hg, hqg⟩

theorem whereFrom_lb {α : Type} (q : α → Bool) (i0 : Nat) (l : List α) : ∀ n ∈ whereFrom q i0 l, i0 ≤ n :=
  fun n h => ((whereFrom_mem q i0 l n).mp h).1

theorem whereFrom_sorted {α : Type} (q : α → Bool) (i0 : Nat) (l : List α) :
    (whereFrom q i0 l).Pairwise (· < ·) := by
  induction l generalizing i0 with
  | nil => simp [whereFrom]
  | cons a l ih =>
    simp only [whereFrom]
    split
    · rw [List.pairwise_cons]
      refine ⟨fun n hn => ?_, ih _⟩
      have := whereFrom_lb q (i0 + 1) l n hn
      omega
    · exact ih _

/-! ### sums and averages -/

theorem rsum_nonneg (l : List ℚ) (h : ∀ a ∈ l, 0 ≤ a) : 0 ≤ rsum l := by
  induction l with
  | nil => simp [rsum]
  | cons a l ih =>
    simp only [rsum]
    have := h a (by simp)
    have := ih (fun b hb => h b (by simp [hb]))
    linarith

theorem dot_nonneg (w v : List ℚ) (hw : ∀ a ∈ w, 0 ≤ a) (hv : ∀ a ∈ v, 0 ≤ a) : 0 ≤ dot w v := by
  induction w generalizing v with
  | nil => simp [dot]
  | cons a w ih =>
    cases v with
    | nil => simp [dot]
    | cons b v =>
      simp only [dot]
      have h1 := hw a (by simp)
      have h2 := hv b (by simp)
      have := ih v (fun x hx => hw x (by simp [hx])) (fun x hx => hv x (by simp [hx]))
      have := mul_nonneg h1 h2
      linarith

theorem dot_le_rsum (w v : List ℚ) (hw : ∀ a ∈ w, 0 ≤ a) (hv : ∀ a ∈ v, a ≤ 1) : dot w v ≤ rsum w := by
  induction w generalizing v with
  | nil => simp [dot, rsum]
  | cons a w ih =>
    have h1 := hw a (by simp)
    have hw' : ∀ x ∈ w, 0 ≤ x := fun x hx => hw x (by simp [hx])
    cases v with
    | nil => simp only [dot, rsum]; have := rsum_nonneg w hw'; linarith
    | cons b v =>
      simp only [dot, rsum]
      have h2 := hv b (by simp)
      have := ih v hw' (fun x hx => hv x (by simp [hx]))
      have : a * b ≤ a := by nlinarith
      linarith

theorem rsum_le_length (v : List ℚ) (hv : ∀ a ∈ v, a ≤ 1) : rsum v ≤ (v.length : ℚ) := by
  induction v with
  | nil => simp [rsum]
  | cons b v ih =>
    simp only [rsum, List.length_cons]
    have := hv b (by simp)
    have := ih (fun x hx => hv x (by simp [hx]))
    push_cast; linarith

theorem dot_const (w v : List ℚ) (c : ℚ) (hl : w.length = v.length) (hc : ∀ a ∈ w, a = c) :
    dot w v = c * rsum v := by
  induction w generalizing v with
  | nil => cases v <;> simp_all [dot, rsum]
  | cons a w ih =>
    cases v with
    | nil => simp at hl
    | cons b v =>
      simp only [dot, rsum]
      rw [ih v (by simpa using hl) (fun x hx => hc x (by simp [hx])), hc a (by simp)]
      ring

theorem rsum_const (w : List ℚ) (c : ℚ) (hc : ∀ a ∈ w, a = c) : rsum w = c * (w.length : ℚ) := by
  induction w with
  | nil => simp [rsum]
  | cons a w ih =>
    simp only [rsum, List.length_cons]
    rw [ih (fun x hx => hc x (by simp [hx])), hc a (by simp)]
    push_cast; ring

theorem rsum_indicator_eq_count {α : Type} (l : List α) (p : α → Bool) :
    rsum (l.map fun a => indicator01 (p a)) = ((l.countP p : Nat) : ℚ) := by
  induction l with
  | nil => simp [rsum]
  | cons a l ih =>
    simp only [List.map_cons, rsum, ih, List.countP_cons]
    cases p a <;> simp [indicator01]
    ring

/-! ### occupancy -/

theorem occupied_iff (conf : List (P3 ℚ)) (radii : List ℚ) (g : P3 ℚ) :
    occupied conf radii g = true ↔
      ∃ (i : Nat) (a : P3 ℚ) (r : ℚ), conf[i]? = some a ∧ radii[i]? = some r ∧ dist2 a g ≤ r * r := by
  unfold occupied
  rw [List.any_eq_true]
  constructor
  · rintro ⟨⟨a, r⟩, hmem, hd⟩
    obtain ⟨i, hi, hget⟩ := List.getElem_of_mem hmem
    have h1 : (conf.zip radii)[i]? = some (a, r) := by rw [List.getElem?_eq_getElem hi, hget]
    rw [List.getElem?_zip_eq_some] at h1
    exact ⟨i, a, r, h1.1, h1.2, by simpa using hd⟩
  · rintro ⟨i, a, r, ha, hr, hd⟩
    have h1 : (conf.zip radii)[i]? = some (a, r) := List.getElem?_zip_eq_some.mpr ⟨ha, hr⟩
    exact ⟨(a, r), List.mem_of_getElem? h1, by simpa using hd⟩

theorem maxOf_ge (l : List ℚ) : ∀ a ∈ l, a ≤ maxOf l := by
  induction l with
  | nil => simp
  | cons b l ih =>
    intro a ha
    cases l with
    | nil => simp at ha; subst ha; simp [maxOf]
    | cons c l =>
      simp only [maxOf]
      rcases List.mem_cons.mp ha with rfl | ha
      · split
        · exact le_refl _
        · rename_i h; exact le_of_lt (lt_of_not_ge h)
      · have := ih a ha
        split
        · rename_i h; exact le_trans this h
        · exact this

end Molli.Lemmas.Grid
