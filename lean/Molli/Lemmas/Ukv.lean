/-
Byte-level lemmas about the UKV model: parse ∘ encode for block sequences of any length,
rejection of torn blocks, shape of every prefix of a session's byte stream.
Core Lean only.
-/
import Molli.Model.Ukv
namespace Molli.Lemmas.Ukv
open Molli.Util Molli.Model.Ukv

theorem rd32_be32 (n : Nat) (h : n < 4294967296) :
    rd32 (UInt8.ofNat (n / 16777216 % 256)) (UInt8.ofNat (n / 65536 % 256))
      (UInt8.ofNat (n / 256 % 256)) (UInt8.ofNat (n % 256)) = n := by
  simp only [rd32, UInt8.toNat_ofNat', Nat.reducePow]; omega

theorem rd16_be16 (n : Nat) (h : n < 65536) :
    rd16 (UInt8.ofNat (n / 256 % 256)) (UInt8.ofNat (n % 256)) = n := by
  simp only [rd16, UInt8.toNat_ofNat', Nat.reducePow]; omega

theorem u8_len (n : Nat) (h : n < 256) : (UInt8.ofNat n).toNat = n := by
  simp only [UInt8.toNat_ofNat', Nat.reducePow]; omega

theorem encBlock_length (r : KV) : (encBlock r).length = 5 + r.key.length + r.val.length := by
  simp [encBlock, be32]; omega

def blocks (rs : List KV) : Bytes := rs.flatMap encBlock

theorem blocks_cons (r : KV) (rs : List KV) : blocks (r :: rs) = encBlock r ++ blocks rs := by
  simp [blocks]

theorem blocks_append (a b : List KV) : blocks (a ++ b) = blocks a ++ blocks b := by
  simp [blocks]

theorem blocks_length_ge (rs : List KV) : rs.length ≤ (blocks rs).length := by
  induction rs with
  | nil => simp [blocks]
  | cons r rs ih => rw [blocks_cons, List.length_append, encBlock_length, List.length_cons]; omega

/-! ### the user-level scan -/

theorem kvScan_block (f : Nat) (r : KV) (h : r.ok) (tail : Bytes) :
    kvScan (f+1) (encBlock r ++ tail) = r :: kvScan f tail := by
  obtain ⟨hk, hv⟩ := h
  have e := rd32_be32 r.val.length hv
  have ek := u8_len r.key.length hk
  simp only [encBlock, be32, List.cons_append, List.nil_append, kvScan, e, ek]
  have hl : r.key.length + r.val.length ≤ (r.key ++ r.val ++ tail).length := by
    simp [List.length_append]
  simp only [List.append_assoc] at hl ⊢
  rw [if_pos hl]
  congr 1
  · cases r; simp [List.take_append, List.drop_append]
  · congr 1
    rw [← List.append_assoc, List.drop_append]
    simp

theorem kvScan_enc (recs : List KV) (h : ∀ r ∈ recs, r.ok) (f : Nat) (tail : Bytes) :
    kvScan (recs.length + f) (blocks recs ++ tail) = recs ++ kvScan f tail := by
  induction recs with
  | nil => simp [blocks]
  | cons r rs ih =>
    have hr := h r (by simp)
    have hrs : ∀ x ∈ rs, x.ok := fun x hx => h x (by simp [hx])
    rw [blocks_cons, List.append_assoc]
    rw [show (r :: rs).length + f = (rs.length + f) + 1 by simp; omega, kvScan_block _ r hr, ih hrs]
    simp

/-- A strict prefix of one block is never accepted as a record. -/
theorem kvScan_torn (f : Nat) (r : KV) (h : r.ok) (n : Nat) (hn : n < (encBlock r).length) :
    kvScan f ((encBlock r).take n) = [] := by
  obtain ⟨hk, hv⟩ := h
  cases f with
  | zero => rfl
  | succ f =>
    have e := rd32_be32 r.val.length hv
    have ek := u8_len r.key.length hk
    rw [encBlock_length] at hn
    match n, hn with
    | 0, _ => simp [kvScan]
    | 1, _ => simp [encBlock, be32, kvScan]
    | 2, _ => simp [encBlock, be32, kvScan]
    | 3, _ => simp [encBlock, be32, kvScan]
    | 4, _ => simp [encBlock, be32, kvScan]
    | m+5, hm =>
      simp only [encBlock, be32, List.cons_append, List.nil_append, List.take_succ_cons, kvScan, e, ek]
      rw [if_neg]
      simp only [List.length_take, List.length_append]
      omega

/-- The records of a session whose whole block lies within the first `n` bytes of its byte stream. -/
def completePrefix : List KV → Nat → List KV
  | [], _ => []
  | p :: ps, n =>
    if (encBlock p).length ≤ n then p :: completePrefix ps (n - (encBlock p).length) else []

theorem completePrefix_length_le (ps : List KV) (n : Nat) :
    (completePrefix ps n).length ≤ ((blocks ps).take n).length := by
  induction ps generalizing n with
  | nil => simp [completePrefix]
  | cons p ps ih =>
    unfold completePrefix
    split
    · rename_i h
      have := ih (n - (encBlock p).length)
      rw [blocks_cons, List.take_append, List.length_append, List.take_of_length_le h]
      have h5 := encBlock_length p
      simp only [List.length_cons]
      omega
    · simp

theorem kvScan_crash_tail (ps : List KV) (h : ∀ r ∈ ps, r.ok) (n F : Nat)
    (hF : (completePrefix ps n).length ≤ F) :
    kvScan F ((blocks ps).take n) = completePrefix ps n := by
  induction ps generalizing n F with
  | nil => cases F <;> simp [blocks, completePrefix, kvScan]
  | cons p ps ih =>
    have hp := h p (by simp)
    have hps : ∀ x ∈ ps, x.ok := fun x hx => h x (by simp [hx])
    rw [blocks_cons]
    unfold completePrefix at hF ⊢
    by_cases hle : (encBlock p).length ≤ n
    · rw [if_pos hle] at hF ⊢
      rw [List.take_append, List.take_of_length_le hle]
      simp only [List.length_cons] at hF
      obtain ⟨F', rfl⟩ : ∃ F', F = F' + 1 := ⟨F - 1, by omega⟩
      rw [kvScan_block _ p hp, ih hps _ _ (by omega)]
    · rw [if_neg hle]
      have hlt : n < (encBlock p).length := by omega
      rw [List.take_append_of_le_length (Nat.le_of_lt hlt)]
      exact kvScan_torn F p hp n hlt

/-- Crash atomicity of the scan, for every committed record list, every session and every byte offset. -/
theorem kvScan_crash (committed ps : List KV) (hc : ∀ r ∈ committed, r.ok) (hp : ∀ r ∈ ps, r.ok)
    (n F : Nat) (hF : committed.length + (completePrefix ps n).length ≤ F) :
    kvScan F (blocks committed ++ (blocks ps).take n) = committed ++ completePrefix ps n := by
  obtain ⟨f, rfl⟩ : ∃ f, F = committed.length + f := ⟨F - committed.length, by omega⟩
  rw [kvScan_enc committed hc, kvScan_crash_tail ps hp n f (by omega)]

end Molli.Lemmas.Ukv

namespace Molli.Lemmas.Ukv
open Molli.Util Molli.Model.Ukv

/-! ### the positional scan (`_toc`) -/

/-- The table of contents of a block sequence that starts at `pos`. -/
def tocOf : Nat → List KV → Toc
  | _, [] => []
  | pos, r :: rs => (r.key, ⟨pos, r.key.length, r.val.length⟩) :: tocOf (pos + (encBlock r).length) rs

theorem tocOf_append (pos : Nat) (a b : List KV) :
    tocOf pos (a ++ b) = tocOf pos a ++ tocOf (pos + (blocks a).length) b := by
  induction a generalizing pos with
  | nil => simp [tocOf, blocks]
  | cons r rs ih =>
    simp only [List.cons_append, tocOf, ih, blocks_cons, List.length_append]
    simp [Nat.add_assoc]

theorem tocOf_keys (pos : Nat) (rs : List KV) : (tocOf pos rs).map (·.1) = rs.map (·.key) := by
  induction rs generalizing pos with
  | nil => rfl
  | cons r rs ih => simp [tocOf, ih]

theorem scanAux_block (f pos : Nat) (r : KV) (h : r.ok) (tail : Bytes) :
    scanAux (f+1) pos (encBlock r ++ tail) =
      ((r.key, ⟨pos, r.key.length, r.val.length⟩) :: (scanAux f (pos + (encBlock r).length) tail).1,
       (scanAux f (pos + (encBlock r).length) tail).2) := by
  obtain ⟨hk, hv⟩ := h
  have e := rd32_be32 r.val.length hv
  have ek := u8_len r.key.length hk
  have hlen := encBlock_length r
  simp only [encBlock, be32, List.cons_append, List.nil_append, scanAux, e, ek]
  have hl : r.key.length + r.val.length ≤ (r.key ++ r.val ++ tail).length := by
    simp [List.length_append]
  simp only [List.append_assoc] at hl ⊢
  rw [if_pos hl]
  have hd : List.drop (r.key.length + r.val.length) (r.key ++ (r.val ++ tail)) = tail := by
    rw [← List.append_assoc, List.drop_append]; simp
  have ht : List.take r.key.length (r.key ++ (r.val ++ tail)) = r.key := by simp
  have hp : pos + 5 + r.key.length + r.val.length = pos + (encBlock r).length := by omega
  simp only [hd, ht, hp]
  simp [encBlock, be32]

theorem scanAux_enc (recs : List KV) (h : ∀ r ∈ recs, r.ok) (f pos : Nat) (tail : Bytes) :
    scanAux (recs.length + f) pos (blocks recs ++ tail) =
      (tocOf pos recs ++ (scanAux f (pos + (blocks recs).length) tail).1,
       (scanAux f (pos + (blocks recs).length) tail).2) := by
  induction recs generalizing pos with
  | nil => simp [blocks, tocOf]
  | cons r rs ih =>
    have hr := h r (by simp)
    have hrs : ∀ x ∈ rs, x.ok := fun x hx => h x (by simp [hx])
    rw [blocks_cons, List.append_assoc]
    rw [show (r :: rs).length + f = (rs.length + f) + 1 by simp; omega, scanAux_block _ _ r hr, ih hrs]
    simp [tocOf, List.length_append, Nat.add_assoc]

theorem scanAux_torn (f pos : Nat) (r : KV) (h : r.ok) (n : Nat) (hn : n < (encBlock r).length) :
    scanAux f pos ((encBlock r).take n) = ([], pos) := by
  obtain ⟨hk, hv⟩ := h
  cases f with
  | zero => rfl
  | succ f =>
    have e := rd32_be32 r.val.length hv
    have ek := u8_len r.key.length hk
    rw [encBlock_length] at hn
    match n, hn with
    | 0, _ => simp [scanAux]
    | 1, _ => simp [encBlock, be32, scanAux]
    | 2, _ => simp [encBlock, be32, scanAux]
    | 3, _ => simp [encBlock, be32, scanAux]
    | 4, _ => simp [encBlock, be32, scanAux]
    | m+5, hm =>
      simp only [encBlock, be32, List.cons_append, List.nil_append, List.take_succ_cons, scanAux, e, ek]
      rw [if_neg]
      simp only [List.length_take, List.length_append]
      omega

theorem scanAux_crash_tail (ps : List KV) (h : ∀ r ∈ ps, r.ok) (n F pos : Nat)
    (hF : (completePrefix ps n).length ≤ F) :
    scanAux F pos ((blocks ps).take n) =
      (tocOf pos (completePrefix ps n), pos + (blocks (completePrefix ps n)).length) := by
  induction ps generalizing n F pos with
  | nil => cases F <;> simp [blocks, completePrefix, scanAux, tocOf]
  | cons p ps ih =>
    have hp := h p (by simp)
    have hps : ∀ x ∈ ps, x.ok := fun x hx => h x (by simp [hx])
    rw [blocks_cons]
    unfold completePrefix at hF ⊢
    by_cases hle : (encBlock p).length ≤ n
    · rw [if_pos hle] at hF ⊢
      rw [List.take_append, List.take_of_length_le hle]
      simp only [List.length_cons] at hF
      obtain ⟨F', rfl⟩ : ∃ F', F = F' + 1 := ⟨F - 1, by omega⟩
      rw [scanAux_block _ _ p hp, ih hps _ _ _ (by omega)]
      simp [tocOf, blocks_cons, List.length_append, Nat.add_assoc]
    · rw [if_neg hle]
      have hlt : n < (encBlock p).length := by omega
      rw [List.take_append_of_le_length (Nat.le_of_lt hlt)]
      simpa [tocOf, blocks] using scanAux_torn F pos p hp n hlt

theorem scanAux_crash (committed ps : List KV) (hc : ∀ r ∈ committed, r.ok) (hp : ∀ r ∈ ps, r.ok)
    (n F pos : Nat) (hF : committed.length + (completePrefix ps n).length ≤ F) :
    scanAux F pos (blocks committed ++ (blocks ps).take n) =
      (tocOf pos (committed ++ completePrefix ps n),
       pos + (blocks (committed ++ completePrefix ps n)).length) := by
  obtain ⟨f, rfl⟩ : ∃ f, F = committed.length + f := ⟨F - committed.length, by omega⟩
  rw [scanAux_enc committed hc, scanAux_crash_tail ps hp n f _ (by omega)]
  simp [tocOf_append, blocks_append, List.length_append, Nat.add_assoc]

end Molli.Lemmas.Ukv

namespace Molli.Lemmas.Ukv
open Molli.Util Molli.Model.Ukv

/-! ### file header -/

theorem pad16_length (b : Bytes) : (pad16 b).length = 16 := by
  simp [pad16, List.length_take]; omega

theorem encHeader_length (h1 h2 b0 : Bytes) : (encHeader h1 h2 b0).length = bofOf h2 b0 := by
  simp [encHeader, pad16_length, be16, be32, bofOf]; omega

theorem encHeader_split (h1 h2 b0 : Bytes) :
    encHeader h1 h2 b0 = pad16 h1 ++ (be16 h2.length ++ be32 b0.length ++ List.replicate 10 0) ++ (h2 ++ b0) := by
  simp [encHeader, List.append_assoc]

theorem readHeader_encHeader (h1 h2 b0 : Bytes) (hh2 : h2.length < 65536)
    (hb0 : b0.length < 4294967296) (body : Bytes) :
    readHeader (encHeader h1 h2 b0 ++ body) = some (pad16 h1, h2, b0) := by
  have hl := encHeader_length h1 h2 b0
  have h16 := pad16_length h1
  unfold readHeader
  have hlen : ¬ (encHeader h1 h2 b0 ++ body).length < 32 := by
    rw [List.length_append, hl, bofOf]; omega
  rw [if_neg hlen]
  have hd16 : (encHeader h1 h2 b0 ++ body).drop 16 =
      be16 h2.length ++ be32 b0.length ++ List.replicate 10 0 ++ h2 ++ b0 ++ body := by
    rw [encHeader]
    simp only [List.append_assoc]
    rw [List.drop_append_of_le_length (by omega)]
    rw [List.drop_of_length_le (by omega)]  
    simp
  rw [hd16]
  simp only [be16, be32, List.cons_append, List.nil_append]
  rw [rd16_be16 _ hh2, rd32_be32 _ hb0]
  have e32 : encHeader h1 h2 b0 ++ body =
      (pad16 h1 ++ (be16 h2.length ++ be32 b0.length ++ List.replicate 10 0)) ++ (h2 ++ (b0 ++ body)) := by
    simp [encHeader, List.append_assoc]
  have l32 : (pad16 h1 ++ (be16 h2.length ++ be32 b0.length ++ List.replicate 10 0)).length = 32 := by
    simp [pad16_length, be16, be32]
  have t16 : (encHeader h1 h2 b0 ++ body).take 16 = pad16 h1 := by
    rw [encHeader]; simp only [List.append_assoc]
    rw [List.take_append_of_le_length (by omega), List.take_of_length_le (by omega)]
  have d32 : (encHeader h1 h2 b0 ++ body).drop 32 = h2 ++ (b0 ++ body) := by
    rw [e32, List.drop_append_of_le_length (by omega), List.drop_of_length_le (by omega)]; simp
  have d32' : (encHeader h1 h2 b0 ++ body).drop (32 + h2.length) = b0 ++ body := by
    rw [← List.drop_drop, d32]; simp
  rw [t16, d32, d32']
  simp

end Molli.Lemmas.Ukv

namespace Molli.Lemmas.Ukv
open Molli.Util Molli.Model.Ukv

/-! ### dict operations on the table of contents -/

theorem tocFind_none_of_not_mem (t : Toc) (k : Bytes) (h : k ∉ t.map (·.1)) : tocFind t k = none := by
  induction t with
  | nil => rfl
  | cons a t ih =>
    obtain ⟨k', r⟩ := a
    simp only [List.map_cons, List.mem_cons, not_or] at h
    simp [tocFind, Ne.symm h.1, ih h.2]

theorem tocFind_isSome_iff (t : Toc) (k : Bytes) : (tocFind t k).isSome = true ↔ k ∈ t.map (·.1) := by
  induction t with
  | nil => simp [tocFind]
  | cons a t ih =>
    obtain ⟨k', r⟩ := a
    by_cases hk : k' = k
    · simp [tocFind, hk]
    · simp [tocFind, hk, ih, Ne.symm hk]

theorem tocSet_fresh (t : Toc) (k : Bytes) (r : Rec) (h : k ∉ t.map (·.1)) :
    tocSet t k r = t ++ [(k, r)] := by
  induction t with
  | nil => rfl
  | cons a t ih =>
    obtain ⟨k', r'⟩ := a
    simp only [List.map_cons, List.mem_cons, not_or] at h
    simp [tocSet, Ne.symm h.1, ih h.2]

theorem tocMerge_fresh (t news : Toc) (hn : (t ++ news).map (·.1) |>.Nodup) :
    tocMerge t news = t ++ news := by
  induction news generalizing t with
  | nil => simp [tocMerge]
  | cons a news ih =>
    obtain ⟨k, r⟩ := a
    have hk : k ∉ t.map (·.1) := by
      intro hmem
      rw [List.map_append, List.nodup_append] at hn
      exact hn.2.2 k hmem k (by simp) rfl
    have : tocMerge t ((k, r) :: news) = tocMerge (tocSet t k r) news := by simp [tocMerge]
    rw [this, tocSet_fresh t k r hk, ih]
    · simp
    · simpa using hn

/-- Looking a stored record up in the table of contents of its file and slicing the file there
returns exactly its value. -/
theorem tocFind_tocOf (pre : Bytes) (recs : List KV) (post : Bytes)
    (hk : (recs.map (·.key)).Nodup) (r : KV) (hr : r ∈ recs) :
    ∃ rec, tocFind (tocOf pre.length recs) r.key = some rec ∧ rec.vlen = r.val.length ∧
      ((pre ++ blocks recs ++ post).drop rec.posV).take rec.vlen = r.val := by
  induction recs generalizing pre with
  | nil => cases hr
  | cons a recs ih =>
    simp only [List.map_cons, List.nodup_cons] at hk
    rcases List.mem_cons.mp hr with rfl | hmem
    · refine ⟨⟨pre.length, r.key.length, r.val.length⟩, by simp [tocOf, tocFind], rfl, ?_⟩
      simp only [Rec.posV, blocks_cons, encBlock, be32, List.append_assoc]
      have : pre.length + 5 + r.key.length = (pre ++ ([UInt8.ofNat r.key.length] ++ 
          [UInt8.ofNat (r.val.length / 16777216 % 256), UInt8.ofNat (r.val.length / 65536 % 256),
           UInt8.ofNat (r.val.length / 256 % 256), UInt8.ofNat (r.val.length % 256)] ++ r.key)).length := by
        simp; omega
      rw [this]
      have e : pre ++ (UInt8.ofNat r.key.length :: ([UInt8.ofNat (r.val.length / 16777216 % 256), UInt8.ofNat (r.val.length / 65536 % 256),
           UInt8.ofNat (r.val.length / 256 % 256), UInt8.ofNat (r.val.length % 256)] ++ (r.key ++ r.val)) ++ (blocks recs ++ post))
          = (pre ++ ([UInt8.ofNat r.key.length] ++ 
          [UInt8.ofNat (r.val.length / 16777216 % 256), UInt8.ofNat (r.val.length / 65536 % 256),
           UInt8.ofNat (r.val.length / 256 % 256), UInt8.ofNat (r.val.length % 256)] ++ r.key)) ++ (r.val ++ (blocks recs ++ post)) := by
        simp [List.append_assoc]
      rw [e, List.drop_left]
      simp
    · have hne : a.key ≠ r.key := by
        intro he
        exact hk.1 (by rw [he]; exact List.mem_map_of_mem hmem)
      obtain ⟨rec, h1, h2, h3⟩ := ih (pre ++ encBlock a) hk.2 hmem
      refine ⟨rec, ?_, h2, ?_⟩
      · simp only [tocOf, tocFind, if_neg hne]
        simpa [List.length_append] using h1
      · simpa [blocks_cons, List.append_assoc] using h3

end Molli.Lemmas.Ukv

namespace Molli.Lemmas.Ukv
open Molli.Util Molli.Model.Ukv

/-! ### crash images -/

/-- Header fields that `struct.pack(">16sHI10x", …)` accepts. -/
def HdrOk (h2 b0 : Bytes) : Prop := h2.length < 65536 ∧ b0.length < 4294967296

/-- A crash image: a well-formed file of `committed` records followed by the first `n` bytes of the
byte stream of a session that was appending the records `ps`. -/
def image (h1 h2 b0 : Bytes) (committed ps : List KV) (n : Nat) : Bytes :=
  encHeader h1 h2 b0 ++ blocks committed ++ (blocks ps).take n

/-- A well-formed file. -/
def wfFile (h1 h2 b0 : Bytes) (recs : List KV) : Bytes := encHeader h1 h2 b0 ++ blocks recs

theorem image_full (h1 h2 b0 : Bytes) (committed ps : List KV) :
    image h1 h2 b0 committed ps (blocks ps).length = wfFile h1 h2 b0 (committed ++ ps) := by
  simp [image, wfFile, blocks_append, List.append_assoc]

theorem image_nil (h1 h2 b0 : Bytes) (committed : List KV) (n : Nat) :
    image h1 h2 b0 committed [] n = wfFile h1 h2 b0 committed := by
  simp [image, wfFile, blocks]

theorem scanFile_image (h1 h2 b0 : Bytes) (committed ps : List KV) (n : Nat)
    (hc : ∀ r ∈ committed, r.ok) (hp : ∀ r ∈ ps, r.ok) :
    scanFile (image h1 h2 b0 committed ps n) (bofOf h2 b0) =
      (tocOf (bofOf h2 b0) (committed ++ completePrefix ps n),
       bofOf h2 b0 + (blocks (committed ++ completePrefix ps n)).length) := by
  unfold scanFile image
  have hl := encHeader_length h1 h2 b0
  rw [List.append_assoc, List.drop_append_of_le_length (by omega), List.drop_of_length_le (by omega)]
  simp only [List.nil_append]
  apply scanAux_crash committed ps hc hp
  have h1' := blocks_length_ge committed
  have h2' := completePrefix_length_le ps n
  simp only [List.length_append]
  omega

theorem completePrefix_prefix (ps : List KV) (n : Nat) :
    ∃ t, (blocks ps).take n = blocks (completePrefix ps n) ++ t := by
  induction ps generalizing n with
  | nil => exact ⟨[], by simp [blocks, completePrefix]⟩
  | cons p ps ih =>
    unfold completePrefix
    by_cases hle : (encBlock p).length ≤ n
    · rw [if_pos hle]
      obtain ⟨t, ht⟩ := ih (n - (encBlock p).length)
      refine ⟨t, ?_⟩
      rw [blocks_cons, List.take_append, List.take_of_length_le hle, ht, blocks_cons, List.append_assoc]
    · rw [if_neg hle]
      exact ⟨(blocks (p :: ps)).take n, by simp [blocks]⟩

theorem image_take (h1 h2 b0 : Bytes) (committed ps : List KV) (n : Nat) :
    (image h1 h2 b0 committed ps n).take
        (bofOf h2 b0 + (blocks (committed ++ completePrefix ps n)).length) =
      wfFile h1 h2 b0 (committed ++ completePrefix ps n) := by
  obtain ⟨t, ht⟩ := completePrefix_prefix ps n
  unfold image wfFile
  rw [ht, blocks_append]
  have hl := encHeader_length h1 h2 b0
  have : bofOf h2 b0 + (blocks committed ++ blocks (completePrefix ps n)).length =
      (encHeader h1 h2 b0 ++ blocks committed ++ blocks (completePrefix ps n)).length := by
    simp [List.length_append, hl]
  rw [this, ← List.append_assoc, ← List.append_assoc, List.take_left]

end Molli.Lemmas.Ukv

namespace Molli.Lemmas.Ukv
open Molli.Util Molli.Model.Ukv

/-! ### puts through a synchronised handle -/

/-- A handle that is open for writing and whose cached view is exactly the file `wfFile _ h2 b0 recs`. -/
structure Synced (h : Handle) (h2 b0 : Bytes) (recs : List KV) : Prop where
  open_ : h.closed = false
  wr : h.mode ≠ Mode.r
  toc : h.toc = tocOf (bofOf h2 b0) recs
  eof : h.eof = some (bofOf h2 b0 + (blocks recs).length)

theorem wfFile_length (h1 h2 b0 : Bytes) (recs : List KV) :
    (wfFile h1 h2 b0 recs).length = bofOf h2 b0 + (blocks recs).length := by
  simp [wfFile, encHeader_length]

theorem write_at_end (f blk : Bytes) :
    f.take f.length ++ List.replicate (f.length - f.length) 0 ++ blk ++ f.drop (f.length + blk.length) = f ++ blk := by
  simp [List.drop_of_length_le]

/-- One successful `put` through a synchronised writable handle appends exactly one block. -/
theorem put_synced (w : World) (i : Nat) (h : Handle) (h1 h2 b0 : Bytes) (recs : List KV) (kv : KV)
    (hg : getH w i = some h) (hf : w.file = some (wfFile h1 h2 b0 recs))
    (hs : Synced h h2 b0 recs) (hok : kv.ok) (hfresh : kv.key ∉ recs.map (·.key)) :
    ∃ h', step w (.put i kv.key kv.val) =
        (setH { w with file := some (wfFile h1 h2 b0 (recs ++ [kv])) } i (some h'), .ok) ∧
      Synced h' h2 b0 (recs ++ [kv]) ∧ h'.h1 = h.h1 ∧ h'.h2 = h.h2 ∧ h'.b0 = h.b0 ∧ h'.last = h.last := by
  have hwr : h.writable = true := by
    simp [Handle.writable, hs.open_, hs.wr]
  have hnone : tocFind h.toc kv.key = none := by
    rw [hs.toc]; apply tocFind_none_of_not_mem; rw [tocOf_keys]; exact hfresh
  have hlen := wfFile_length h1 h2 b0 recs
  refine ⟨{ h with toc := tocSet h.toc kv.key ⟨bofOf h2 b0 + (blocks recs).length, kv.key.length, kv.val.length⟩,
                   eof := some (bofOf h2 b0 + (blocks recs).length + (encBlock kv).length) }, ?_, ?_, rfl, rfl, rfl, rfl⟩
  · simp only [step, hg, hf, hwr, hnone, hs.eof]
    have : (KV.ok ⟨kv.key, kv.val⟩) := hok
    simp only [Bool.not_true, Bool.false_eq_true, ↓reduceIte, Option.isSome_none, this, not_true_eq_false,
      Option.getD_some]
    rw [← hlen, write_at_end]
    have : kv = ⟨kv.key, kv.val⟩ := rfl
    rw [← this]
    simp [wfFile, blocks_append, blocks, List.append_assoc, hlen]
  · constructor
    · exact hs.open_
    · exact hs.wr
    · show tocSet h.toc kv.key _ = _
      rw [tocSet_fresh _ _ _ (by rw [hs.toc, tocOf_keys]; exact hfresh), hs.toc, tocOf_append]
      simp [tocOf]
    · simp [blocks_append, blocks, List.length_append, Nat.add_assoc]

end Molli.Lemmas.Ukv

namespace Molli.Lemmas.Ukv
open Molli.Util Molli.Model.Ukv

/-! ### handle slots -/

@[simp] theorem setH_file (w : World) (i : Nat) (x : Option Handle) : (setH w i x).file = w.file := rfl

@[simp] theorem getH_setH_same (w : World) (i : Nat) (x : Option Handle) : getH (setH w i x) i = x := by
  simp [getH, setH]

theorem getH_setH_other (w : World) (i j : Nat) (x : Option Handle) (hij : j ≠ i) :
    getH (setH w i x) j = getH w j := by
  simp [getH, setH, hij]

@[simp] theorem setH_setH (w : World) (i : Nat) (x y : Option Handle) :
    setH (setH w i x) i y = setH w i y := by
  simp only [setH]
  congr 1
  funext j
  by_cases h : j = i <;> simp [h]

@[simp] theorem getH_file_update (w : World) (f : Option Bytes) (i : Nat) :
    getH { w with file := f } i = getH w i := rfl

end Molli.Lemmas.Ukv

namespace Molli.Lemmas.Ukv
open Molli.Util Molli.Model.Ukv

/-! ### sessions of puts -/

theorem World.ext' {a b : World} (hf : a.file = b.file) (hh : ∀ j, a.hs j = b.hs j) : a = b := by
  cases a; cases b; simp only at hf; subst hf; congr 1; funext j; exact hh j

/-- World after a list of operations (outputs dropped). -/
def runW (w : World) (ops : List Op) : World := ops.foldl (fun w op => (step w op).1) w

/-- Outputs of a list of operations. -/
def runOuts : World → List Op → List Out
  | _, [] => []
  | w, op :: ops => (step w op).2 :: runOuts (step w op).1 ops

def putOps (i : Nat) (ps : List KV) : List Op := ps.map (fun kv => Op.put i kv.key kv.val)

def Out.isOk : Out → Bool
  | .ok => true
  | _ => false

/-- A whole session of puts with fresh distinct keys through a synchronised handle appends exactly
`blocks ps` to the file, every put succeeds, and the handle stays synchronised. -/
theorem puts_synced (ps : List KV) : ∀ (w : World) (i : Nat) (h : Handle) (h1 h2 b0 : Bytes) (recs : List KV),
    getH w i = some h → w.file = some (wfFile h1 h2 b0 recs) → Synced h h2 b0 recs →
    (∀ r ∈ ps, r.ok) → ((recs ++ ps).map (·.key)).Nodup →
    ∃ h', runW w (putOps i ps) = setH { w with file := some (wfFile h1 h2 b0 (recs ++ ps)) } i (some h') ∧
      Synced h' h2 b0 (recs ++ ps) ∧ (runOuts w (putOps i ps)).all Out.isOk = true := by
  induction ps with
  | nil =>
    intro w i h h1 h2 b0 recs hg hf hs _ _
    refine ⟨h, ?_, by simpa using hs, by simp [putOps, runOuts]⟩
    simp only [putOps, List.map_nil, runW, List.foldl_nil, List.append_nil]
    apply World.ext'
    · simpa using hf
    · intro j
      by_cases hj : j = i
      · subst hj; simpa [getH, setH] using hg
      · simp [setH, hj]
  | cons p ps ih =>
    intro w i h h1 h2 b0 recs hg hf hs hok hnd
    have hp := hok p (by simp)
    have hps : ∀ x ∈ ps, x.ok := fun x hx => hok x (by simp [hx])
    have hfresh : p.key ∉ recs.map (·.key) := by
      intro hmem
      rw [List.map_append, List.nodup_append] at hnd
      exact hnd.2.2 _ hmem _ (by simp) rfl
    obtain ⟨h', hstep, hs', _⟩ := put_synced w i h h1 h2 b0 recs p hg hf hs hp hfresh
    have hnd' : (((recs ++ [p]) ++ ps).map (·.key)).Nodup := by simpa [List.append_assoc] using hnd
    obtain ⟨h'', hrun, hs'', houts⟩ := ih (setH { w with file := some (wfFile h1 h2 b0 (recs ++ [p])) } i (some h'))
      i h' h1 h2 b0 (recs ++ [p]) (by simp) (by simp) hs' hps hnd'
    refine ⟨h'', ?_, by simpa [List.append_assoc] using hs'', ?_⟩
    · simp only [putOps, List.map_cons, runW, List.foldl_cons, hstep]
      simp only [runW, putOps] at hrun
      rw [hrun]
      apply World.ext'
      · simp [setH]
      · intro j; by_cases hj : j = i <;> simp [setH, hj]
    · simp only [putOps, List.map_cons, runOuts, hstep, List.all_cons, Out.isOk, Bool.true_and]
      simpa [putOps] using houts

end Molli.Lemmas.Ukv
