/-
Traversal with a direction and ring perception (property C15).

`bfsdDir_eq`: the run of `yield_bfsd(start, direction)` (start pre-visited, `(direction, 1)` queued) is the
plain run from `direction` on the graph with the start atom deleted, all labels shifted by one.
`walk_first_hit`, `inRing_iff`: ring perception = reachability after deleting the bond.
Core Lean only.
-/
import Molli.Lemmas.Graph
namespace Molli.Lemmas.Graph
open Molli.Model.Graph

/-! ### the visited set only matters through membership of the neighbours that are looked at -/

theorem visit_congr (d : Nat) (as : List Nat) :
    ∀ (vis vis' : List Nat), (∀ a ∈ as, a ∈ vis ↔ a ∈ vis') →
      (visitNbrs d as vis).1 = (visitNbrs d as vis').1 := by
  induction as with
  | nil => intro vis vis' _; simp [visitNbrs]
  | cons a as ih =>
    intro vis vis' h
    have ha : a ∈ vis ↔ a ∈ vis' := h a (by simp)
    simp only [visitNbrs]
    by_cases hv : a ∈ vis
    · have hv' : a ∈ vis' := ha.1 hv
      rw [if_pos hv, if_pos hv']
      exact ih vis vis' (fun b hb => h b (List.mem_cons_of_mem _ hb))
    · have hv' : a ∉ vis' := fun x => hv (ha.2 x)
      rw [if_neg hv, if_neg hv']
      simp only
      rw [ih (a :: vis) (a :: vis')]
      intro b hb
      have := h b (List.mem_cons_of_mem _ hb)
      simp only [List.mem_cons, this]

theorem bfs_vis_congr (adj : Nat → List Nat) :
    ∀ (f : Nat) (q : List Lab) (vis vis' : List Nat),
      (∀ u, ∀ a ∈ adj u, a ∈ vis ↔ a ∈ vis') → bfs adj f q vis = bfs adj f q vis' := by
  intro f
  induction f with
  | zero => intro q vis vis' _; simp [bfs]
  | succ f ih =>
    intro q vis vis' h
    cases q with
    | nil => simp [bfs]
    | cons ud q =>
      obtain ⟨u, d⟩ := ud
      simp only [bfs]
      have e1 := visit_congr d (adj u) vis vis' (h u)
      rw [e1]
      congr 1
      apply ih
      intro w a ha
      rw [visit_vis d (adj u) vis, visit_vis d (adj u) vis', e1]
      simp only [List.mem_append, h w a ha]

/-! ### a pre-visited vertex that is never queued may as well be deleted from the graph -/

theorem visit_filter (d s : Nat) (as : List Nat) :
    ∀ vis : List Nat, s ∈ vis → visitNbrs d (as.filter (· ≠ s)) vis = visitNbrs d as vis := by
  induction as with
  | nil => intro vis _; simp [visitNbrs]
  | cons a as ih =>
    intro vis hs
    by_cases has : a = s
    · subst has
      simp only [ne_eq, not_true_eq_false, decide_false, Bool.false_eq_true, not_false_eq_true,
        List.filter_cons_of_neg, visitNbrs, if_pos hs]
      exact ih vis hs
    · have e : (a :: as).filter (· ≠ s) = a :: as.filter (· ≠ s) := by simp [has]
      rw [e]
      simp only [visitNbrs]
      split
      · exact ih vis hs
      · simp only [ih (a :: vis) (List.mem_cons_of_mem _ hs)]

theorem bfs_delVertex (adj : Nat → List Nat) (s : Nat) :
    ∀ (f : Nat) (q : List Lab) (vis : List Nat), s ∈ vis → (∀ x ∈ q, x.1 ≠ s) →
      bfs (delVertex adj s) f q vis = bfs adj f q vis := by
  intro f
  induction f with
  | zero => intro q vis _ _; simp [bfs]
  | succ f ih =>
    intro q vis hs hq
    cases q with
    | nil => simp [bfs]
    | cons ud q =>
      obtain ⟨u, d⟩ := ud
      have hu : u ≠ s := hq (u, d) (by simp)
      simp only [bfs]
      have e : delVertex adj s u = (adj u).filter (· ≠ s) := by simp [delVertex, hu]
      rw [e, visit_filter d s (adj u) vis hs]
      congr 1
      apply ih
      · rw [visit_vis]; exact List.mem_append_right _ hs
      · intro x hx
        rcases List.mem_append.1 hx with hx | hx
        · exact hq x (List.mem_cons_of_mem _ hx)
        · have := (visit_labels d (adj u) vis x hx).2.2
          intro hxs; rw [hxs] at this; exact this hs

/-! ### shifting every label -/

def shift (c : Nat) (x : Lab) : Lab := (x.1, x.2 + c)

theorem visit_shift (d c : Nat) (as : List Nat) :
    ∀ vis : List Nat, visitNbrs (d + c) as vis =
      ((visitNbrs d as vis).1.map (shift c), (visitNbrs d as vis).2) := by
  induction as with
  | nil => intro vis; simp [visitNbrs]
  | cons a as ih =>
    intro vis
    simp only [visitNbrs]
    split
    · exact ih vis
    · simp only [ih (a :: vis), List.map_cons, shift]
      have : d + c + 1 = d + 1 + c := by omega
      rw [this]

theorem bfs_shift (adj : Nat → List Nat) (c : Nat) :
    ∀ (f : Nat) (q : List Lab) (vis : List Nat),
      bfs adj f (q.map (shift c)) vis = (bfs adj f q vis).map (shift c) := by
  intro f
  induction f with
  | zero => intro q vis; simp [bfs]
  | succ f ih =>
    intro q vis
    cases q with
    | nil => simp [bfs]
    | cons ud q =>
      obtain ⟨u, d⟩ := ud
      simp only [List.map_cons, shift, bfs, visit_shift, List.map_append]
      rw [← List.map_append, ih]

/-- The traversal with a direction is the plain traversal from the direction atom on the graph
without the start atom, every label increased by one. -/
theorem bfsdDir_eq (adj : Nat → List Nat) (n s dir : Nat) (hne : dir ≠ s) :
    bfsdDir adj n s dir = ((dir, 0) :: bfsd (delVertex adj s) n dir).map (shift 1) := by
  unfold bfsdDir bfsd
  rw [← bfs_delVertex adj s (n + 1) [(dir, 1)] [dir, s] (by simp) (by simpa using hne)]
  rw [← bfs_vis_congr (delVertex adj s) (n + 1) [(dir, 1)] [dir] [dir, s]]
  · have : [((dir, 1) : Lab)] = [((dir, 0) : Lab)].map (shift 1) := by simp [shift]
    rw [this, bfs_shift]
    simp [shift]
  · intro u a ha
    have : a ≠ s := by
      unfold delVertex at ha
      split at ha
      · simp at ha
      · simpa using (List.mem_filter.1 ha).2
    simp [this]

/-! ### walks -/

theorem Walk.mono {adj₁ adj₂ : Nat → List Nat} (h : ∀ u v, v ∈ adj₁ u → v ∈ adj₂ u) {s v k : Nat}
    (w : Walk adj₁ s v k) : Walk adj₂ s v k := by
  induction w with
  | refl => exact Walk.refl
  | step _ hv ih => exact Walk.step ih (h _ _ hv)

theorem mem_delVertex {adj : Nat → List Nat} {s u v : Nat} :
    v ∈ delVertex adj s u ↔ u ≠ s ∧ v ∈ adj u ∧ v ≠ s := by
  unfold delVertex
  by_cases h : u = s
  · simp [h]
  · simp [h, List.mem_filter]

theorem walk_delVertex_ne {adj : Nat → List Nat} {s d v k : Nat} (hd : d ≠ s)
    (w : Walk (delVertex adj s) d v k) : v ≠ s := by
  induction w with
  | refl => exact hd
  | step _ hv _ => exact (mem_delVertex.1 hv).2.2

theorem mem_delEdge {adj : Nat → List Nat} {a b u v : Nat} :
    v ∈ delEdge adj a b u ↔ v ∈ adj u ∧ ¬ (u = a ∧ v = b) ∧ ¬ (u = b ∧ v = a) := by
  unfold delEdge
  by_cases h1 : u = a
  · subst h1
    by_cases h2 : u = b
    · subst h2; simp [List.mem_filter]
    · simp only [if_true, List.mem_filter, decide_eq_true_eq, true_and]
      constructor
      · rintro ⟨h, hv⟩; exact ⟨h, hv, fun x => h2 x.1⟩
      · rintro ⟨h, hv, _⟩; exact ⟨h, hv⟩
  · by_cases h2 : u = b
    · subst h2
      simp only [if_neg h1, if_true, List.mem_filter, decide_eq_true_eq, true_and]
      constructor
      · rintro ⟨h, hv⟩; exact ⟨h, fun x => h1 x.1, hv⟩
      · rintro ⟨h, _, hv⟩; exact ⟨h, hv⟩
    · simp [h1, h2]

/-- Any walk from `d ≠ t` that ends in `t` reaches, strictly before its first visit of `t`, a vertex
`c` adjacent to `t`, along a walk that avoids `t`. -/
theorem walk_first_hit {adj : Nat → List Nat} {d t v k : Nat} (hd : d ≠ t) (w : Walk adj d v k) :
    (v ≠ t ∧ ∃ k', Walk (delVertex adj t) d v k') ∨
    (∃ c k', Walk (delVertex adj t) d c k' ∧ t ∈ adj c) := by
  induction w with
  | refl => exact Or.inl ⟨hd, 0, Walk.refl⟩
  | @step u v k _ hv ih =>
    rcases ih with ⟨hu, k', hw⟩ | h
    · by_cases hvt : v = t
      · subst hvt; exact Or.inr ⟨u, k', hw, hv⟩
      · exact Or.inl ⟨hvt, k' + 1, Walk.step hw (mem_delVertex.2 ⟨hu, hv, hvt⟩)⟩
    · exact Or.inr h

end Molli.Lemmas.Graph
