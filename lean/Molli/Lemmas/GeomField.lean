/-
Field-level consequences for the geometry model: the general and the antiparallel branch of
`rotation_matrix_from_vectors` as the code computes them (with the division), centring, and the
alignment scan.
-/
import Mathlib.Tactic.Ring
import Mathlib.Tactic.LinearCombination
import Mathlib.Tactic.FieldSimp
import Molli.Lemmas.Geom
namespace Molli.Lemmas.Geom
open Molli.Model.Geom

set_option linter.unusedSimpArgs false
set_option linter.unusedVariables false

section Field
variable {α : Type} [Field α]

/-! ### rotation_matrix_from_vectors -/

theorem inv_spec (d : α) (h : d ≠ 0) : 1 / d * d = 1 := by field_simp

/-- general branch: a proper rotation taking `a` to `b` -/
theorem rotVec_isRot (a b : V3 α) (ha : a.dot a = 1) (hb : b.dot b = 1) (hc : 1 + a.dot b ≠ 0) :
    (rotVec a b).IsRot :=
  ⟨rotVecK_isOrth a b _ ha hb (inv_spec _ hc), rotVecK_det a b _ ha hb (inv_spec _ hc)⟩

theorem rotVec_maps (a b : V3 α) (ha : a.dot a = 1) (hb : b.dot b = 1) (hc : 1 + a.dot b ≠ 0) :
    a.mulM (rotVec a b) = b :=
  rotVecK_maps a b _ ha hb (inv_spec _ hc)

/-- the antiparallel branch through any unit helper `o ⊥ b`: a proper rotation taking `a` to `b` -/
theorem rotVecVia_spec (a o b : V3 α) (ha : a.dot a = 1) (ho : o.dot o = 1) (hb : b.dot b = 1)
    (hob : o.dot b = 0) (hao : 1 + a.dot o ≠ 0) :
    (rotVecVia a o b).IsRot ∧ a.mulM (rotVecVia a o b) = b := by
  have h2 : 1 + o.dot b ≠ 0 := by rw [hob, _root_.add_zero]; exact one_ne_zero
  refine ⟨IsRot.mul (rotVec_isRot a o ha ho hao) (rotVec_isRot o b ho hb h2), ?_⟩
  unfold rotVecVia
  rw [← mulM_mul, rotVec_maps a o ha ho hao, rotVec_maps o b ho hb h2]

/-- the normalised Gram–Schmidt residue of ANY vector `rv` (norm `n ≠ 0`) is a unit vector ⊥ b -/
theorem helper_unit_perp (rv b : V3 α) (n : α) (hb : b.dot b = 1)
    (hn : n * n = (gramSchmidt rv b).dot (gramSchmidt rv b)) (hn0 : n ≠ 0) :
    ((gramSchmidt rv b).smul (1 / n)).dot ((gramSchmidt rv b).smul (1 / n)) = 1 ∧
    ((gramSchmidt rv b).smul (1 / n)).dot b = 0 :=
  scaled_unit_perp _ b n (1 / n) (gramSchmidt_perp rv b hb) hn (inv_spec n hn0)

/-! ### centring -/

theorem centroid_translate (l : List (V3 α)) (v : V3 α) (hn : (l.length : α) ≠ 0) :
    centroid (translate l v) = (centroid l).add v := by
  have hlen : (translate l v).length = l.length := by simp only [translate, List.length_map]
  unfold centroid
  rw [vsum_translate, hlen]
  apply V3.eq_of <;> simp only [V3.add, V3.smul] <;> field_simp

/-! ### rigid motions as a predicate on point maps -/

/-- A map of points is a rigid motion when it is `p ↦ p @ R + t` for a proper rotation `R`. -/
def Rigid (f : V3 α → V3 α) : Prop := ∃ (r : M3 α) (t : V3 α), r.IsRot ∧ ∀ p, f p = (p.mulM r).add t

theorem Rigid.translate (v : V3 α) : Rigid (fun p => p.add v) :=
  ⟨M3.one, v, isRot_one, fun p => by rw [mulM_one]⟩

theorem Rigid.sub (v : V3 α) : Rigid (fun p => p.sub v) :=
  ⟨M3.one, v.neg, isRot_one, fun p => by
    rw [mulM_one]; apply V3.eq_of <;> simp only [V3.add, V3.sub, V3.neg] <;> ring⟩

theorem Rigid.transform (r : M3 α) (hr : r.IsRot) : Rigid (fun p => p.mulM r) :=
  ⟨r, V3.zero, hr, fun p => by rw [Molli.Lemmas.Geom.add_zero]⟩

theorem Rigid.rotateAbout (o : V3 α) (r : M3 α) (hr : r.IsRot) : Rigid (rotateAbout o r) :=
  ⟨r, o.sub (o.mulM r), hr, fun p => rotateAbout_eq o r p⟩

theorem Rigid.comp {f g : V3 α → V3 α} (hf : Rigid f) (hg : Rigid g) : Rigid (fun p => g (f p)) := by
  obtain ⟨r1, t1, h1, e1⟩ := hf
  obtain ⟨r2, t2, h2, e2⟩ := hg
  refine ⟨r1.mul r2, (t1.mulM r2).add t2, IsRot.mul h1 h2, fun p => ?_⟩
  show g (f p) = _
  rw [e2, e1, ← mulM_mul]
  apply V3.eq_of <;> simp only [V3.add, V3.mulM] <;> ring

theorem Rigid.dist {f : V3 α → V3 α} (h : Rigid f) (p q : V3 α) : dist2 (f p) (f q) = dist2 p q := by
  obtain ⟨r, t, hr, hf⟩ := h
  rw [hf, hf, rigid_dist hr.1]

theorem Rigid.triple {f : V3 α → V3 α} (h : Rigid f) (p q r o : V3 α) :
    triple (f p) (f q) (f r) (f o) = triple p q r o := by
  obtain ⟨m, t, hm, hf⟩ := h
  rw [hf, hf, hf, hf, rigid_triple hm.2]

end Field

/-! ### the alignment scan -/
section Align
variable {α : Type} [Field α] [LinearOrder α]

/-- Invariant of the scan: whatever is held as "best" was reported by `func` for an index list of
the input, is below the start value, and nothing scanned so far is strictly better. -/
theorem bestFit_spec (func : List (V3 α) → List (V3 α) → M3 α × α) (coords ref : List (V3 α))
    (idxs : List (List Nat)) (acc : α × Option (M3 α × List Nat)) (seen : List (List Nat))
    (hundred : α)
    (hacc : acc.1 ≤ hundred ∧ (∀ rot idx, acc.2 = some (rot, idx) →
        idx ∈ seen ∧ func (gather coords idx) ref = (rot, acc.1) ∧ acc.1 < hundred) ∧
        ∀ idx ∈ seen, ¬ (func (gather coords idx) ref).2 < acc.1 ∨ hundred ≤ (func (gather coords idx) ref).2)
    : let res := bestFit func coords ref idxs acc
      res.1 ≤ hundred ∧ (∀ rot idx, res.2 = some (rot, idx) →
        idx ∈ seen ++ idxs ∧ func (gather coords idx) ref = (rot, res.1) ∧ res.1 < hundred) ∧
        ∀ idx ∈ seen ++ idxs, ¬ (func (gather coords idx) ref).2 < res.1 := by
  induction idxs generalizing acc seen with
  | nil =>
    simp only [bestFit, List.append_nil]
    refine ⟨hacc.1, hacc.2.1, ?_⟩
    intro idx hidx
    rcases hacc.2.2 idx hidx with h | h
    · exact h
    · exact not_lt.mpr (le_trans hacc.1 h)
  | cons i rest ih =>
    simp only [bestFit]
    have happ : seen ++ i :: rest = (seen ++ [i]) ++ rest := by simp
    rw [happ]
    split
    · rename_i hlt
      apply ih
      refine ⟨le_of_lt (lt_of_lt_of_le hlt hacc.1), ?_, ?_⟩
      · intro rot idx h
        simp only [Option.some.injEq, Prod.mk.injEq] at h
        obtain ⟨h1, h2⟩ := h
        subst h1 h2
        exact ⟨by simp, rfl, lt_of_lt_of_le hlt hacc.1⟩
      · intro idx hidx
        simp only [List.mem_append, List.mem_singleton] at hidx
        rcases hidx with h | h
        · rcases hacc.2.2 idx h with h' | h'
          · left; intro hcon; exact h' (lt_trans hcon hlt)
          · right; exact h'
        · subst h; left; exact lt_irrefl _
    · rename_i hlt
      apply ih
      refine ⟨hacc.1, ?_, ?_⟩
      · intro rot idx h
        obtain ⟨h1, h2, h3⟩ := hacc.2.1 rot idx h
        exact ⟨by simp [h1], h2, h3⟩
      · intro idx hidx
        simp only [List.mem_append, List.mem_singleton] at hidx
        rcases hidx with h | h
        · exact hacc.2.2 idx h
        · subst h; left; exact hlt

/-- shape of a successful `alignMol` -/
theorem alignMol_some (func : List (V3 α) → List (V3 α) → M3 α × α) (hundred : α)
    (idxs : List (List Nat)) (ref coords : List (V3 α)) (vec : Option (V3 α))
    (final : List (V3 α)) (r : α) (idx : List Nat)
    (h : alignMol func hundred idxs ref vec coords = some (final, r, idx)) :
    ∃ rot, bestFit func (centerAt coords (idxs.headD [])) ref idxs (hundred, none)
        = (r, some (rot, idx)) ∧
      final = applyVec (transform (centerAt coords (idxs.headD [])) rot) vec := by
  unfold alignMol at h
  dsimp only at h
  split at h
  · simp at h
  · rename_i r' rot idx' heq
    simp only [Option.some.injEq, Prod.mk.injEq] at h
    obtain ⟨hfin, hr, hidx⟩ := h
    subst hr hidx
    exact ⟨rot, heq, hfin.symm⟩

end Align

end Molli.Lemmas.Geom
