/-
Lifting the Boolean table obligations of `Molli.Model.Mol2Types` (evaluated by `decide +kernel` in the
generated module) to `∀`-statements over all atom states in range, and the bridge between token codes
and token text.  Core Lean only.
-/
import Molli.Model.Mol2Types
namespace Molli.Lemmas.Mol2Types
open Molli.Model.Text Molli.Model.Mol2Types Molli.Model.Mol2Types.TypeTable

theorem allBelow_spec {n : Nat} {p : Nat → Bool} (h : allBelow n p = true) : ∀ i, i < n → p i = true := by
  induction n with
  | zero => intro i hi; omega
  | succ n ih =>
    simp only [allBelow, Bool.and_eq_true] at h
    intro i hi
    by_cases hin : i = n
    · subst hin; exact h.1
    · exact ih h.2 i (by omega)

theorem allBelow_of {n : Nat} {p : Nat → Bool} (h : ∀ i, i < n → p i = true) : allBelow n p = true := by
  induction n with
  | zero => rfl
  | succ n ih =>
    simp only [allBelow, Bool.and_eq_true]
    exact ⟨h n (by omega), ih (fun i hi => h i (by omega))⟩

theorem byteAt_succ (b i : Nat) : byteAt b (i + 1) = byteAt (b / 256) i := by
  simp only [byteAt]
  show b / 256 ^ (i + 1) % 256 = b / 256 / 256 ^ i % 256
  rw [Nat.div_div_eq_div_mul, Nat.pow_succ, Nat.mul_comm]

theorem byteAt_zero (b : Nat) : byteAt b 0 = b % 256 := by
  simp only [byteAt]
  show b / 256 ^ 0 % 256 = b % 256
  simp

theorem byteAt_lt (b i : Nat) : byteAt b i < 256 := by
  simp only [byteAt]
  show b / 256 ^ i % 256 < 256
  omega

/-- every byte among the first `n` is in the byte set -/
theorem byteSet_spec (n b i : Nat) (hi : i < n) : Nat.testBit (byteSet n b) (byteAt b i) = true := by
  induction n generalizing b i with
  | zero => omega
  | succ n ih =>
    simp only [byteSet]
    show Nat.testBit ((1 <<< (b % 256)) ||| byteSet n (b / 256)) (byteAt b i) = true
    rw [Nat.testBit_or, Bool.or_eq_true]
    cases i with
    | zero =>
      left
      rw [byteAt_zero, Nat.one_shiftLeft, Nat.testBit_two_pow_self]
    | succ i =>
      right
      rw [byteAt_succ]
      exact ih (b / 256) i (by omega)

theorem testBit_lt_of_lt_two_pow {x n i : Nat} (hx : x < 2 ^ n) (hb : Nat.testBit x i = true) : i < n := by
  apply Decidable.byContradiction
  intro hni
  have hle : 2 ^ n ≤ 2 ^ i := Nat.pow_le_pow_right (by omega) (by omega)
  have := Nat.testBit_lt_two_pow (x := x) (i := i) (by omega)
  rw [this] at hb
  exact Bool.noConfusion hb

/-- a state whose indices are inside the enum sizes -/
def InRange (tt : TypeTable) (s : St) : Prop := s.e < tt.nE ∧ s.t < tt.nT ∧ s.g < tt.nG

instance (tt : TypeTable) (s : St) : Decidable (InRange tt s) := by unfold InRange; exact inferInstance

theorem stInRange_iff (tt : TypeTable) (s : St) : tt.stInRange s = true ↔ InRange tt s := by
  simp [stInRange, InRange, Nat.blt_eq, and_assoc]

/-- the token of every in-range state is in the emitted set of its element and its shape index is in range -/
theorem emitted_of_inRange (tt : TypeTable) {p : Nat → Nat → Bool} (h : tt.allEmitted p = true)
    (s : St) (hs : InRange tt s) : p s.e (tt.emitShape s) = true ∧ tt.emitShape s < tt.nShape := by
  obtain ⟨he, ht, hg⟩ := hs
  simp only [allEmitted, Bool.and_eq_true] at h
  obtain ⟨h1, h2⟩ := h
  have hr := allBelow_spec h1 s.e he
  simp only [Nat.blt_eq] at hr
  have h3 := allBelow_spec h2 _ hr
  simp only [Bool.and_eq_true, Nat.blt_eq] at h3
  obtain ⟨hlt, h4⟩ := h3
  have h5 := allBelow_spec h4 s.e he
  simp only [Nat.beq_refl, Bool.not_true, Bool.false_or] at h5
  -- the cell index is below nT * nG
  have hcell : s.t * tt.nG + s.g < tt.nT * tt.nG := by
    have : s.t * tt.nG + tt.nG ≤ tt.nT * tt.nG := by
      rw [← Nat.succ_mul]; exact Nat.mul_le_mul_right _ ht
    omega
  have hbit : Nat.testBit (tt.rowSet (byteAt tt.rowOf s.e)) (tt.emitShape s) = true := by
    simp only [rowSet, emitShape, row]
    exact byteSet_spec _ _ _ hcell
  have hsh : tt.emitShape s < tt.nShape := testBit_lt_of_lt_two_pow hlt hbit
  have h6 := allBelow_spec h5 _ hsh
  rw [hbit] at h6
  simp only [Bool.not_true, Bool.false_or] at h6
  exact ⟨h6, hsh⟩

/-- `every_emitted_token_accepted`, lifted -/
theorem everyAccepted_spec (tt : TypeTable) (h : tt.everyAccepted = true) (s : St) (hs : InRange tt s) :
    ∃ s', tt.accept s.e (tt.emitShape s) = some s' ∧ InRange tt s' := by
  have := (emitted_of_inRange tt h s hs).1
  split at this
  · rename_i s' hs'
    exact ⟨s', hs', (stInRange_iff tt s').1 this⟩
  · exact Bool.noConfusion this

/-- `element_preserved`, lifted -/
theorem elementPreserved_spec (tt : TypeTable) (h : tt.elementPreserved = true) (s : St) (hs : InRange tt s) :
    ∀ s', tt.accept s.e (tt.emitShape s) = some s' → s'.e = s.e := by
  have := (emitted_of_inRange tt h s hs).1
  intro s' hs'
  rw [hs'] at this
  simpa using this

/-- one write/read cycle on typing states -/
def cycleSt (tt : TypeTable) (s : St) : Option St := tt.accept s.e (tt.emitShape s)

/-- `second_cycle_fixed`, lifted: after one cycle the emitted token no longer changes -/
theorem secondCycleFixed_spec (tt : TypeTable) (h : tt.secondCycleFixed = true) (s : St) (hs : InRange tt s) :
    ∃ s1 s2, cycleSt tt s = some s1 ∧ cycleSt tt s1 = some s2 ∧
      s2.e = s1.e ∧ tt.emitShape s2 = tt.emitShape s1 := by
  have := (emitted_of_inRange tt h s hs).1
  simp only [cycle] at this
  cases h1 : tt.accept s.e (tt.emitShape s) with
  | none => rw [h1] at this; exact Bool.noConfusion this
  | some s1 =>
    rw [h1] at this
    simp only at this
    cases h2 : tt.accept s1.e (tt.emitShape s1) with
    | none => rw [h2] at this; exact Bool.noConfusion this
    | some s2 =>
      rw [h2] at this
      simp only [Bool.and_eq_true] at this
      exact ⟨s1, s2, h1, h2, Nat.eq_of_beq_eq_true this.1, Nat.eq_of_beq_eq_true this.2⟩

/-- `set_model_agrees`, lifted: on every token molli can emit, the hand-written model of
`set_mol2_type` returns what the real method was observed to return -/
theorem setModelAgrees_spec (tt : TypeTable) (h : tt.setModelAgrees = true) (s : St) (hs : InRange tt s) :
    tt.setMol2Type tt.dflt (tt.emitCodes s) = tt.accept s.e (tt.emitShape s) := by
  have := (emitted_of_inRange tt h s hs).1
  simp only [emitCodes]
  split at this
  · rename_i a b ha hb
    simp only [Bool.and_eq_true] at this
    rw [ha, hb]
    obtain ⟨⟨h1, h2⟩, h3⟩ := this
    have h1 := Nat.eq_of_beq_eq_true h1
    have h2 := Nat.eq_of_beq_eq_true h2
    have h3 := Nat.eq_of_beq_eq_true h3
    cases a; cases b; simp_all
  · rename_i ha hb; rw [ha, hb]
  · exact Bool.noConfusion this

theorem symbolRoundtrip_spec (tt : TypeTable) (h : tt.symbolRoundtrip = true) (e : Nat) (he : e < tt.nE) :
    tt.elementGet (tt.sym e) = some e := by
  have := allBelow_spec h e he
  split at this
  · rename_i e' he'
    rw [he', Nat.eq_of_beq_eq_true this]
  · exact Bool.noConfusion this

/-! ### codes and text -/

theorem unpack_lt (f b : Nat) : ∀ c ∈ unpack f b, c < 256 := by
  induction f generalizing b with
  | zero => intro c hc; simp [unpack] at hc
  | succ f ih =>
    intro c hc
    simp only [unpack] at hc
    split at hc
    · simp at hc
    · simp only [List.mem_cons] at hc
      rcases hc with hc | hc
      · subst hc; show b % 256 < 256; omega
      · exact ih _ c hc

theorem toNat_ofNat_of_lt {n : Nat} (h : n < 256) : (Char.ofNat n).toNat = n := by
  have hv : n.isValidChar := Or.inl (by omega)
  simp only [Char.ofNat, hv, ↓reduceDIte, Char.toNat, Char.ofNatAux]
  simp [UInt32.toNat, BitVec.toNat_ofNatLT]

theorem codesOf_strOf {c : Codes} (h : ∀ x ∈ c, x < 256) : codesOf (strOf c) = c := by
  induction c with
  | nil => rfl
  | cons x xs ih =>
    simp only [codesOf, strOf, List.map_cons, List.map_map] at *
    rw [toNat_ofNat_of_lt (h x (by simp))]
    congr 1
    exact ih (fun y hy => h y (by simp [hy]))

theorem tokenCodes_lt (tt : TypeTable) (e sh : Nat) : ∀ x ∈ tt.tokenCodes e sh, x < 256 := by
  intro x hx
  simp only [tokenCodes] at hx
  split at hx
  · simp only [List.mem_append, sym] at hx
    rcases hx with (hx | hx) | hx <;> exact unpack_lt _ _ x hx
  · exact unpack_lt _ _ x hx

theorem isWs_toNat_le {c : Char} (h : isWs c = true) : c.toNat ≤ 32 := by
  simp only [isWs, Bool.or_eq_true, decide_eq_true_eq] at h
  rcases h with ((((((((h | h) | h) | h) | h) | h) | h) | h) | h) | h <;> subst h <;> decide

/-- printable codes give a token of the text layer -/
theorem tok_strOf_of_codesTok {c : Codes} (h : codesTok c = true) : Tok (strOf c) := by
  simp only [codesTok, Bool.and_eq_true, Bool.not_eq_true', List.isEmpty_eq_false_iff, List.all_eq_true,
    Nat.blt_eq] at h
  obtain ⟨hne, hall⟩ := h
  refine ⟨?_, ?_⟩
  · simp only [strOf, ne_eq, List.map_eq_nil_iff]; exact hne
  · intro ch hch
    simp only [strOf, List.mem_map] at hch
    obtain ⟨x, hx, rfl⟩ := hch
    have := hall x hx
    cases hw : isWs (Char.ofNat x) with
    | false => rfl
    | true =>
      have h32 := isWs_toNat_le hw
      rw [toNat_ofNat_of_lt (by omega)] at h32
      omega

theorem tokensOk_spec (tt : TypeTable) (h : tt.tokensOk = true) (s : St) (hs : InRange tt s) : Tok (tt.emitStr s) := by
  have := (emitted_of_inRange tt h s hs).1
  exact tok_strOf_of_codesTok this

theorem symsOk_spec (tt : TypeTable) (h : tt.symsOk = true) (e : Nat) (he : e < tt.nE) :
    Tok (strOf (tt.sym e)) ∧ strOf (tt.sym e) ≠ ['*'] := by
  have := allBelow_spec h e he
  simp only [Bool.and_eq_true, Bool.not_eq_true'] at this
  obtain ⟨h1, h2⟩ := this
  refine ⟨tok_strOf_of_codesTok h1, ?_⟩
  intro hstar
  have hc : codesOf (strOf (tt.sym e)) = [42] := by rw [hstar]; rfl
  have hlt : ∀ x ∈ tt.sym e, x < 256 := by
    intro x hx; simp only [sym] at hx; exact unpack_lt _ _ x hx
  rw [codesOf_strOf hlt] at hc
  rw [hc] at h2
  exact Bool.noConfusion h2

theorem bondTokensOk_spec (bt : BondTable) (h : bt.tokensOk = true) (b : Nat) (hb : b < bt.nB) : Tok (bt.emitStr b) := by
  have := allBelow_spec h b hb
  exact tok_strOf_of_codesTok this

/-- reading the text of a token is reading its codes -/
theorem acceptStr_emitStr (tt : TypeTable) (s : St) :
    tt.acceptStr (tt.emitStr s) = tt.setMol2Type tt.dflt (tt.emitCodes s) := by
  simp only [acceptStr, emitStr, emitCodes]
  rw [codesOf_strOf (tokenCodes_lt tt _ _)]

end Molli.Lemmas.Mol2Types
