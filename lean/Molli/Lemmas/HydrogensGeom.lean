/-
Geometry of the placement branches of `add_implicit_hydrogens` (property C16): exact distances and
"points away" in every branch, over any commutative ring / ordered field (ℚ for the driver, ℝ for the
real geometry).  The hypotheses name what the floating-point part of the routine establishes:
`v`, `z` unit and orthogonal, `R` with orthonormal rows and third row `v`
(`TETRAHEDRON[0] = ẑ` is rotated onto `v`).
-/
import Mathlib.Tactic.Ring
import Mathlib.Tactic.LinearCombination
import Mathlib.Tactic.Linarith
import Molli.Model.Hydrogens
namespace Molli.Lemmas.Hydrogens
open Molli.Model.Hydrogens

theorem V3.ext' {α : Type} {a b : V3 α} (hx : a.x = b.x) (hy : a.y = b.y) (hz : a.z = b.z) : a = b := by
  cases a; cases b; simp_all

section ring
variable {α : Type} [CommRing α]

/-- rows of `R` are orthonormal (`R Rᵀ = 1`) -/
structure Orth (R : M3 α) : Prop where
  r11 : R.r1.dot R.r1 = 1
  r22 : R.r2.dot R.r2 = 1
  r33 : R.r3.dot R.r3 = 1
  r12 : R.r1.dot R.r2 = 0
  r13 : R.r1.dot R.r3 = 0
  r23 : R.r2.dot R.r3 = 0

/-- a rotation (row-vector convention) preserves dot products -/
theorem mulM_dot {R : M3 α} (h : Orth R) (t u : V3 α) : (t.mulM R).dot (u.mulM R) = t.dot u := by
  have h11 := h.r11; have h22 := h.r22; have h33 := h.r33
  have h12 := h.r12; have h13 := h.r13; have h23 := h.r23
  simp only [V3.dot, V3.mulM] at *
  linear_combination (t.x * u.x) * h11 + (t.y * u.y) * h22 + (t.z * u.z) * h33 +
    (t.x * u.y + t.y * u.x) * h12 + (t.x * u.z + t.z * u.x) * h13 + (t.y * u.z + t.z * u.y) * h23

theorem e3_mulM (R : M3 α) : (⟨0, 0, 1⟩ : V3 α).mulM R = R.r3 := by
  apply V3.ext' <;> simp [V3.mulM]

/-- one hydrogen at `a − v·L`: squared distance to the centre -/
theorem oneH_dist (a v : V3 α) (L : α) (hv : v.norm2 = 1) :
    ((a.sub (v.smul L)).sub a).norm2 = L * L := by
  simp only [V3.norm2, V3.dot, V3.sub, V3.smul] at *
  linear_combination (L * L) * hv

/-- two hydrogens at `a − (c·v ± s·z)·L` -/
theorem twoH_dist_plus (a v z : V3 α) (c s L : α) (hv : v.norm2 = 1) (hz : z.norm2 = 1) (hvz : v.dot z = 0) :
    ((a.sub (((v.smul c).add (z.smul s)).smul L)).sub a).norm2 = L * L * (c * c + s * s) := by
  simp only [V3.norm2, V3.dot, V3.sub, V3.smul, V3.add] at *
  linear_combination (L * L * c * c) * hv + (L * L * s * s) * hz + (2 * L * L * c * s) * hvz

theorem twoH_dist_minus (a v z : V3 α) (c s L : α) (hv : v.norm2 = 1) (hz : z.norm2 = 1) (hvz : v.dot z = 0) :
    ((a.sub (((v.smul c).sub (z.smul s)).smul L)).sub a).norm2 = L * L * (c * c + s * s) := by
  simp only [V3.norm2, V3.dot, V3.sub, V3.smul] at *
  linear_combination (L * L * c * c) * hv + (L * L * s * s) * hz - (2 * L * L * c * s) * hvz

/-- the angle between the two hydrogens is fixed by the two literals -/
theorem twoH_angle (a v z : V3 α) (c s L : α) (hv : v.norm2 = 1) (hz : z.norm2 = 1) :
    ((a.sub (((v.smul c).add (z.smul s)).smul L)).sub a).dot ((a.sub (((v.smul c).sub (z.smul s)).smul L)).sub a)
      = L * L * (c * c - s * s) := by
  simp only [V3.norm2, V3.dot, V3.sub, V3.smul, V3.add] at *
  linear_combination (L * L * c * c) * hv - (L * L * s * s) * hz

/-- a tetrahedron vertex `t` placed at `(t @ R)·L + a` -/
theorem tetH_dist (a t : V3 α) (R : M3 α) (L : α) (hR : Orth R) :
    ((((t.mulM R).smul L).add a).sub a).norm2 = L * L * t.norm2 := by
  have h := mulM_dot hR t t
  simp only [V3.norm2, V3.dot, V3.sub, V3.smul, V3.add] at *
  linear_combination (L * L) * h

/-- component of a placed tetrahedron vertex along the direction `v = ẑ @ R` -/
theorem tetH_along (a t v : V3 α) (R : M3 α) (L : α) (hR : Orth R) (hv : R.r3 = v) :
    ((((t.mulM R).smul L).add a).sub a).dot v = L * t.z := by
  have h := mulM_dot hR t ⟨0, 0, 1⟩
  rw [e3_mulM, hv] at h
  simp only [V3.dot, V3.sub, V3.smul, V3.add] at *
  linear_combination L * h

theorem oneH_along (a v w : V3 α) (L : α) : ((a.sub (v.smul L)).sub a).dot w = -(L * v.dot w) := by
  simp only [V3.dot, V3.sub, V3.smul]; ring

theorem twoH_along_plus (a v z w : V3 α) (c s L : α) :
    ((a.sub (((v.smul c).add (z.smul s)).smul L)).sub a).dot w = -(L * (c * v.dot w + s * z.dot w)) := by
  simp only [V3.dot, V3.sub, V3.smul, V3.add]; ring

theorem twoH_along_minus (a v z w : V3 α) (c s L : α) :
    ((a.sub (((v.smul c).sub (z.smul s)).smul L)).sub a).dot w = -(L * (c * v.dot w - s * z.dot w)) := by
  simp only [V3.dot, V3.sub, V3.smul]; ring

end ring

section ordered
variable {α : Type} [Field α] [LinearOrder α] [IsStrictOrderedRing α]

/-- one hydrogen points away from any `w` (centroid minus centre) that has a positive component along `v` -/
theorem oneH_away (a v w : V3 α) (L : α) (hL : 0 < L) (hw : 0 < v.dot w) :
    ((a.sub (v.smul L)).sub a).dot w < 0 := by
  rw [oneH_along]; have := mul_pos hL hw; linarith

theorem twoH_away (a v z w : V3 α) (c s L : α) (hL : 0 < L) (hc : 0 < c) (hw : 0 < v.dot w) (hz : z.dot w = 0) :
    ((a.sub (((v.smul c).add (z.smul s)).smul L)).sub a).dot w < 0 ∧
    ((a.sub (((v.smul c).sub (z.smul s)).smul L)).sub a).dot w < 0 := by
  rw [twoH_along_plus, twoH_along_minus, hz]
  have := mul_pos hL (mul_pos hc hw)
  constructor <;> nlinarith

/-- a tetrahedron vertex below the xy-plane (`t.z < 0`), rotated with `ẑ ↦ v`, points away from `w = κ·v` -/
theorem tetH_away (a t v : V3 α) (R : M3 α) (L κ : α) (hR : Orth R) (hv : R.r3 = v) (hL : 0 < L) (hκ : 0 < κ)
    (ht : t.z < 0) : ((((t.mulM R).smul L).add a).sub a).dot (v.smul κ) < 0 := by
  have h := tetH_along a t v R L hR hv
  have e : ((((t.mulM R).smul L).add a).sub a).dot (v.smul κ) = κ * (L * t.z) := by
    rw [← h]; simp only [V3.dot, V3.smul]; ring
  rw [e]
  have : L * t.z < 0 := mul_neg_of_pos_of_neg hL ht
  exact mul_neg_of_pos_of_neg hκ this

end ordered

/-! ### the rotation `rotation_matrix_from_vectors(ẑ, v)` (regular branch, `1 + v·ẑ ≠ 0`) -/

section rot
variable {α : Type} [CommRing α]

/-- `I + Ux + Ux @ Ux / (1 + c)` with `Ux = outer(ẑ, v) − outer(v, ẑ)`, `c = v.z`, written out;
`k` stands for `1 / (1 + c)` -/
def rotZk (v : V3 α) (k : α) : M3 α :=
  { r1 := ⟨1 - v.x * v.x * k, -(v.x * v.y * k), -v.x⟩
    r2 := ⟨-(v.x * v.y * k), 1 - v.y * v.y * k, -v.y⟩
    r3 := ⟨v.x, v.y, 1 - (v.x * v.x + v.y * v.y) * k⟩ }

/-- the rotation takes `TETRAHEDRON[0] = ẑ` to the unit direction `v` -/
theorem rotZk_r3 (v : V3 α) (k : α) (hv : v.norm2 = 1) (hk : k * (1 + v.z) = 1) : (rotZk v k).r3 = v := by
  simp only [V3.norm2, V3.dot] at hv
  apply V3.ext' <;> simp only [rotZk]
  linear_combination (-k) * hv + (v.z - 1) * hk

/-- and it is orthogonal -/
theorem rotZk_orth (v : V3 α) (k : α) (hv : v.norm2 = 1) (hk : k * (1 + v.z) = 1) : Orth (rotZk v k) := by
  simp only [V3.norm2, V3.dot] at hv
  constructor <;> simp only [rotZk, V3.dot]
  · linear_combination (k^2*v.x^2 - k^2*v.z^2 + k^2 - 2*k + 1) * hv + ((v.y^2 + v.z^2 - 1)*(k*v.z - k + 1)) * hk
  · linear_combination (k^2*v.y^2) * hv + (-(v.y^2)*(k*v.z - k + 1)) * hk
  · linear_combination (k^2*v.x^2 + k^2*v.y^2 - k^2*v.z^2 + k^2 - 2*k + 1) * hv + ((v.z - 1)*(v.z + 1)*(k*v.z - k + 1)) * hk
  · linear_combination (k^2*v.x*v.y) * hv + (-(v.x*v.y)*(k*v.z - k + 1)) * hk
  · ring
  · ring

end rot

/-! ### the normal of the two-hydrogen branch never vanishes after the repair of D32 -/

section normal
variable {α : Type} [CommRing α] [DecidableEq α]

def cross (a b : V3 α) : V3 α :=
  ⟨a.y * b.z - a.z * b.y, a.z * b.x - a.x * b.z, a.x * b.y - a.y * b.x⟩

omit [DecidableEq α] in
/-- one hydrogen at `a − v·L` lies on the line through the centre along `v` -/
theorem oneH_parallel (a v : V3 α) (L : α) : cross ((a.sub (v.smul L)).sub a) v = ⟨0, 0, 0⟩ := by
  simp only [cross, V3.sub, V3.smul, V3.mk.injEq]
  refine ⟨by ring, by ring, by ring⟩

/-- `z = cross(vec, ẑ)`, replaced by `cross(vec, x̂)` when it vanishes (before normalisation) -/
def fallbackNormal (vec : V3 α) : V3 α :=
  if cross vec ⟨0, 0, 1⟩ = ⟨0, 0, 0⟩ then cross vec ⟨1, 0, 0⟩ else cross vec ⟨0, 0, 1⟩

omit [DecidableEq α] in
/-- the as-shipped choice `cross(vec, ẑ)` vanishes exactly on directions along ẑ (the witness of D32) -/
theorem cross_z_eq_zero_iff (vec : V3 α) : cross vec ⟨0, 0, 1⟩ = ⟨0, 0, 0⟩ ↔ vec.x = 0 ∧ vec.y = 0 := by
  simp only [cross, V3.mk.injEq]
  constructor
  · rintro ⟨h1, h2, _⟩
    constructor
    · have : vec.x = -(vec.z * 0 - vec.x * 1) := by ring
      rw [this, h2]; ring
    · have : vec.y = vec.y * 1 - vec.z * 0 := by ring
      rw [this, h1]
  · rintro ⟨h1, h2⟩; rw [h1, h2]; refine ⟨by ring, by ring, by ring⟩

/-- the repaired choice is non-zero for every non-zero direction: the normalisation is defined -/
theorem fallbackNormal_ne_zero (vec : V3 α) (h : vec ≠ ⟨0, 0, 0⟩) : fallbackNormal vec ≠ ⟨0, 0, 0⟩ := by
  unfold fallbackNormal
  split
  · rename_i hz
    obtain ⟨hx, hy⟩ := (cross_z_eq_zero_iff vec).1 hz
    intro hc
    simp only [cross, V3.mk.injEq] at hc
    have hzz : vec.z = 0 := by
      have : vec.z = vec.z * 1 - vec.x * 0 := by ring
      rw [this]; exact hc.2.1
    apply h
    cases vec
    simp_all
  · rename_i hz; exact hz

/-- and it is orthogonal to the direction -/
theorem fallbackNormal_orth (vec : V3 α) : (fallbackNormal vec).dot vec = 0 := by
  unfold fallbackNormal
  split <;> simp only [cross, V3.dot] <;> ring

end normal

end Molli.Lemmas.Hydrogens
