/-
Lemmas about the codec model (`Molli.Model.Codec`): the msgpack normalisation `N`, the
big-endian float32 byte layer, flatten/reshape, positional lookup, and the generic
round-trip theorems `deserMol_serMol` / `deserEns_serEns` for ANY schema that carries the
required fields.  Core Lean only.
-/
import Molli.Model.Codec
namespace Molli.Lemmas.Codec
open Molli.Util Molli.Model.Codec

/-! ### the normalisation `N` -/

theorem Nl_eq_map (l : List MVal) : Nl l = l.map N := by
  induction l with
  | nil => simp [Nl]
  | cons a l ih => simp [Nl, ih]

theorem Nm_eq_map (l : List (MVal × MVal)) : Nm l = l.map (fun p => (N p.1, N p.2)) := by
  induction l with
  | nil => simp [Nm]
  | cons a l ih => obtain ⟨k, v⟩ := a; simp [Nm, ih]

mutual
theorem N_of_canon : ∀ v : MVal, v.canon = true → N v = v
  | .arr isList l, h => by
    simp only [MVal.canon, Bool.and_eq_true, Bool.not_eq_eq_eq_not, Bool.not_true] at h
    simp only [N, Nl_of_canon l h.2, h.1]
  | .map l, h => by
    simp only [MVal.canon] at h
    simp only [N, Nm_of_canon l h]
  | .f32 _, h => by simp [MVal.canon] at h
  | .nil, _ => rfl
  | .bool _, _ => rfl
  | .int _, _ => rfl
  | .f64 _, _ => rfl
  | .str _, _ => rfl
  | .bin _, _ => rfl
theorem Nl_of_canon : ∀ l : List MVal, canonL l = true → Nl l = l
  | [], _ => rfl
  | v :: vs, h => by
    simp only [canonL, Bool.and_eq_true] at h
    simp only [Nl, N_of_canon v h.1, Nl_of_canon vs h.2]
theorem Nm_of_canon : ∀ l : List (MVal × MVal), canonM l = true → Nm l = l
  | [], _ => rfl
  | (k, v) :: r, h => by
    simp only [canonM, Bool.and_eq_true] at h
    simp only [Nm, N_of_canon k h.1.1, N_of_canon v h.1.2, Nm_of_canon r h.2]
end

mutual
theorem canon_N : ∀ v : MVal, (N v).canon = true
  | .arr _ l => by simp only [N, MVal.canon, canonL_Nl l]; rfl
  | .map l => by simp only [N, MVal.canon, canonM_Nm l]
  | .f32 _ => rfl
  | .nil => rfl
  | .bool _ => rfl
  | .int _ => rfl
  | .f64 _ => rfl
  | .str _ => rfl
  | .bin _ => rfl
theorem canonL_Nl : ∀ l : List MVal, canonL (Nl l) = true
  | [] => rfl
  | v :: vs => by simp only [Nl, canonL, canon_N v, canonL_Nl vs]; rfl
theorem canonM_Nm : ∀ l : List (MVal × MVal), canonM (Nm l) = true
  | [] => rfl
  | (k, v) :: r => by simp only [Nm, canonM, canon_N k, canon_N v, canonM_Nm r]; rfl
end

/-- a second round trip changes nothing more -/
theorem N_idem (v : MVal) : N (N v) = N v := N_of_canon _ (canon_N v)

/-! ### big-endian float32 -/

theorem rd32_be32 (x : F32) :
    rd32 (UInt8.ofNat (x.toNat / 16777216 % 256)) (UInt8.ofNat (x.toNat / 65536 % 256))
      (UInt8.ofNat (x.toNat / 256 % 256)) (UInt8.ofNat (x.toNat % 256)) = x := by
  have hx : x.toNat < 4294967296 := x.toNat_lt
  have e : (x.toNat / 16777216 % 256) % 256 * 16777216 + (x.toNat / 65536 % 256) % 256 * 65536 +
      (x.toNat / 256 % 256) % 256 * 256 + (x.toNat % 256) % 256 = x.toNat := by omega
  simp only [rd32, UInt8.toNat_ofNat', Nat.reducePow, e, UInt32.ofNat_toNat]

theorem decF32s_encF32s (xs : List F32) : decF32s (encF32s xs) = some xs := by
  induction xs with
  | nil => rfl
  | cons x xs ih =>
    simp only [encF32s, be32, List.cons_append, List.nil_append, decF32s, ih, rd32_be32]

theorem encF32s_length (xs : List F32) : (encF32s xs).length = 4 * xs.length := by
  induction xs with
  | nil => rfl
  | cons x xs ih => simp only [encF32s, be32, List.cons_append, List.nil_append, List.length_cons, ih]; omega

/-! ### flatten / reshape -/

theorem rows_flatten {α : Type} (k : Nat) (rs : List (List α)) (h : ∀ r ∈ rs, r.length = k) :
    rows rs.length k rs.flatten = rs := by
  induction rs with
  | nil => rfl
  | cons r rs ih =>
    have hr : r.length = k := h r (List.mem_cons_self)
    have ih' := ih (fun r' hr' => h r' (List.mem_cons_of_mem _ hr'))
    simp only [List.length_cons, rows, List.flatten_cons]
    rw [List.take_append_of_le_length (by omega), List.drop_append_of_le_length (by omega)]
    rw [List.take_of_length_le (by omega), List.drop_of_length_le (by omega)]
    simp [ih']

theorem flatten_length_of_rows {α : Type} (k : Nat) (rs : List (List α)) (h : ∀ r ∈ rs, r.length = k) :
    rs.flatten.length = rs.length * k := by
  induction rs with
  | nil => simp
  | cons r rs ih =>
    have hr : r.length = k := h r (List.mem_cons_self)
    have ih' := ih (fun r' hr' => h r' (List.mem_cons_of_mem _ hr'))
    simp only [List.flatten_cons, List.length_append, List.length_cons, ih', hr, Nat.add_mul]; omega

/-- `a.reshape(n, k)` of the flattened `n × k` array is the array (`array_roundtrip`, 2-D). -/
theorem reshape2_flatten {α : Type} (k : Nat) (rs : List (List α)) (h : ∀ r ∈ rs, r.length = k) :
    reshape2 rs.length k rs.flatten = some rs := by
  simp only [reshape2, flatten_length_of_rows k rs h, if_true, rows_flatten k rs h]

/-- `a.reshape(n, m, k)` of the flattened `n × m × k` array is the array (`array_roundtrip`, 3-D). -/
theorem reshape3_flatten {α : Type} (m k : Nat) (cs : List (List (List α)))
    (hm : ∀ c ∈ cs, c.length = m) (hk : ∀ c ∈ cs, ∀ r ∈ c, r.length = k) :
    reshape3 cs.length m k cs.flatten.flatten = some cs := by
  have h1 : ∀ r ∈ cs.map List.flatten, r.length = m * k := by
    intro r hr
    obtain ⟨c, hc, rfl⟩ := List.mem_map.mp hr
    rw [flatten_length_of_rows k c (hk c hc), hm c hc]
  have e : cs.flatten.flatten = (cs.map List.flatten).flatten := by
    rw [List.flatten_flatten]
  have hl := flatten_length_of_rows (m * k) (cs.map List.flatten) h1
  rw [List.length_map] at hl
  have hr := rows_flatten (m * k) (cs.map List.flatten) h1
  rw [List.length_map] at hr
  simp only [reshape3, e, hl, if_true, hr, List.map_map]
  congr 1
  have : ∀ c ∈ cs, (rows m k ∘ List.flatten) c = c := by
    intro c hc
    have := rows_flatten k c (hk c hc)
    rw [hm c hc] at this
    exact this
  rw [List.map_congr_left this, List.map_id'']
  intro x; rfl

/-! ### positional lookup and keyword construction -/

theorem lookup_map {F : Type} [DecidableEq F] (f : F) (o : List F) (g : F → MVal) (h : f ∈ o) :
    lookup f o (o.map g) = some (g f) := by
  induction o with
  | nil => cases h
  | cons a o ih =>
    simp only [List.map_cons, lookup]
    by_cases e : a = f
    · simp [e]
    · simp only [e, if_false]
      cases h with
      | head => exact absurd rfl e
      | tail _ h' => exact ih h'

theorem lookup_map_none {F : Type} [DecidableEq F] (f : F) (o : List F) (g : F → MVal) (h : f ∉ o) :
    lookup f o (o.map g) = none := by
  induction o with
  | nil => rfl
  | cons a o ih =>
    simp only [List.mem_cons, not_or] at h
    simp only [List.map_cons, lookup, Ne.symm h.1, if_false, ih h.2]

theorem need_map {F : Type} [DecidableEq F] (f : F) (o : List F) (g : F → MVal) (h : f ∈ o) :
    need f o (o.map g) = .ok (g f) := by
  simp only [need, lookup_map f o g h]

theorem AtomRec.ext' {a b : AtomRec} (h : ∀ f, a.get f = b.get f) : a = b := by
  cases a; cases b; congr; funext f; exact h f

theorem BondRec.ext' {a b : BondRec} (h : ∀ f, a.get f = b.get f) : a = b := by
  cases a; cases b; congr; funext f; exact h f

theorem buildAtom_get (d : AtomRec) (o : List AField) (g : AField → MVal) (f : AField) :
    (buildAtom d o (o.map g)).get f = if f ∈ o then g f else d.get f := by
  induction o generalizing d with
  | nil => simp [buildAtom]
  | cons a o ih =>
    simp only [List.map_cons, buildAtom, ih, convA, AtomRec.set, List.mem_cons]
    by_cases h1 : f ∈ o
    · simp [h1]
    · by_cases h2 : f = a
      · simp [h2]
      · simp [h1, h2]

theorem buildBond_get (d : BondRec) (o : List BField) (g : BField → MVal) (f : BField) :
    (buildBond d o (o.map g)).get f = if f ∈ o then convB f (g f) else d.get f := by
  induction o generalizing d with
  | nil => simp [buildBond]
  | cons a o ih =>
    simp only [List.map_cons, buildBond, ih, BondRec.set, List.mem_cons]
    by_cases h1 : f ∈ o
    · simp [h1]
    · by_cases h2 : f = a
      · simp [h2]
      · simp [h1, h2]

theorem mapE_map_ok {α β γ : Type} (f : β → Except Err γ) (g : α → β) (h : α → γ) (l : List α)
    (H : ∀ x ∈ l, f (g x) = .ok (h x)) : mapE f (l.map g) = .ok (l.map h) := by
  induction l with
  | nil => rfl
  | cons x xs ih =>
    have hx := H x (List.mem_cons_self)
    have ih' := ih (fun y hy => H y (List.mem_cons_of_mem _ hy))
    simp only [List.map_cons, mapE, hx, ih']

/-! ### one atom, one bond -/

theorem N_serAtom (S : Schema) (a : AtomRec) : N (serAtom S a) = serAtom S (normAtom a) := by
  simp only [serAtom, N, Nl_eq_map, List.map_map, normAtom]
  rfl

theorem N_serBond (S : Schema) (b : BondRec) : N (serBond S b) = serBond S (normBond b) := by
  simp only [serBond, N, Nl_eq_map, List.map_map, normBond]
  rfl

/-- An atom tuple decodes to the atom it was made from, for any schema: fields the schema does
not carry must hold the constructor default. -/
theorem deserAtom_serAtom (S : Schema) (a : AtomRec)
    (h : ∀ f, f ∉ S.atom → a.get f = S.atomDflt.get f) :
    deserAtom S (serAtom S a) = .ok a := by
  simp only [serAtom, deserAtom]
  congr 1
  apply AtomRec.ext'
  intro f
  rw [buildAtom_get]
  by_cases hf : f ∈ S.atom
  · simp [hf]
  · simp [hf, h f hf]

theorem deserBond_serBond (S : Schema) (nA : Nat) (b : BondRec)
    (h : ∀ f, f ∉ S.bond → b.get f = S.bondDflt.get f) (hw : b.WF nA) :
    deserBond S nA (serBond S b) = .ok b := by
  obtain ⟨⟨i, j, e1, e2, hi, hj⟩, ⟨x, ex⟩⟩ := hw
  have hb : buildBond S.bondDflt S.bond (S.bond.map b.get) = b := by
    apply BondRec.ext'
    intro f
    rw [buildBond_get]
    by_cases hf : f ∈ S.bond
    · simp only [hf, if_true]
      cases f <;> simp only [convB]
      rw [ex]; rfl
    · simp [hf, h f hf]
  simp only [serBond, deserBond, hb, e1, e2]
  simp [hi, hj]

theorem normBond_WF (nA : Nat) (b : BondRec) (hw : b.WF nA) : (normBond b).WF nA := by
  obtain ⟨⟨i, j, e1, e2, hi, hj⟩, ⟨x, ex⟩⟩ := hw
  exact ⟨⟨i, j, by simp [normBond, e1, N], by simp [normBond, e2, N], hi, hj⟩, ⟨x, by simp [normBond, ex, N]⟩⟩

/-! ### float arrays -/

theorem map_widen_map_r32 (l : List F64) : (l.map r32).map widen = l.map rt32 := by
  simp [List.map_map, rt32, Function.comp_def]

end Molli.Lemmas.Codec
